(** C32 — proofs about the header-acceptance model (Model/HeaderSync.v). *)
From Coq Require Import List NArith ZArith Bool Lia Arith ZifyN ZifyNat ZifyBool.
Import ListNotations.
From Ont Require Import Gen.HeaderSyncGen Model.HeaderSync.

Ltac Zify.zify_post_hook ::= Z.to_euclidean_division_equations.

(** * Specification vocabulary *)

(** header [h] carries a valid signature of key [k] over its own hash *)
Definition signed_by (h : header) (k : key) : Prop := In (SBy k (h_hash h)) (h_sigs h).

(** valid signatures from at least C+1 distinct members *)
Definition quorum_signed (h : header) (members : list key) (c : N) : Prop :=
  exists S : list key, NoDup S /\ (N.to_nat c + 1 <= length S)%nat /\
    forall k, In k S -> In k members /\ signed_by h k.

(** the chain configuration governing height H: the new_chain_config carried by the highest
    indexed header strictly below H *)
Definition has_cfg (st : store) (j : N) : bool :=
  match header_at st j with
  | Some hj => match cfg_of hj with Some _ => true | None => false end
  | None => false
  end.
Definition cfg_heights (st : store) (H : N) : list N :=
  filter (fun j => (j <? H)%N && has_cfg st j) (map fst (st_index st)).
Definition gov_height (st : store) (H : N) : option N :=
  match cfg_heights st H with [] => None | j :: r => Some (fold_left N.max r j) end.

(** the height verifyHeader actually consults (chosen from the header's own payload) *)
Definition claimed (st : store) (h : header) : option N :=
  match header_by_hash (st_headers st) (h_prev h), h_info h with
  | Some p, Some bi => claimed_cfg_height p bi
  | _, _ => None
  end.

(** store invariant: every peer-map entry whose height has an indexed header carrying a chain
    configuration is the id set of that configuration *)
Definition keyset_eqb (a b : list key) : bool :=
  forallb (fun k => memk k b) a && forallb (fun k => memk k a) b.
Definition entry_ok (st : store) (e : N * list key) : bool :=
  match header_at st (fst e) with
  | Some hj => match cfg_of hj with Some cc => keyset_eqb (snd e) (cc_peers cc) | None => true end
  | None => true
  end.
Definition store_wfb (st : store) : bool := forallb (entry_ok st) (st_peers st).
Definition store_wf (st : store) : Prop := store_wfb st = true.

(** the finding classes (F11), as boolean predicates on the input *)
Definition opt_eqb (a b : option N) : bool :=
  match a, b with Some x, Some y => (x =? y)%N | None, None => true | _, _ => false end.
Definition fc_stale (st : store) (h : header) : bool :=
  match claimed st h with
  | Some g => negb (opt_eqb (gov_height st (h_height h)) (Some g))
  | None => false
  end.
Definition threshold_short (npeers : nat) (c : N) : bool :=
  (hs_vbft_m (Z.of_nat npeers) <? Z.of_N c + 1)%Z.
Definition fc_threshold (st : store) (h : header) : bool :=
  match claimed st h with
  | Some g =>
      match lookup g (st_peers st), header_at st g with
      | Some peers, Some hg =>
          match cfg_of hg with Some cc => threshold_short (length peers) (cc_c cc) | None => false end
      | _, _ => false
      end
  | None => false
  end.
Definition fc_dup (h : header) : bool :=
  negb (length (dedup (map bk_id (h_bks h))) =? length (h_bks h))%nat.
Definition in_finding_class (st : store) (h : header) : bool :=
  fc_stale st h || fc_threshold st h || fc_dup h.

(** fourth class, a property of the STORE: the peer-map entry consulted is not the id set of the
    configuration carried by the indexed header at that height (verifyHeader writes
    vbftPeerInfoMap[header.Height] for every header it accepts, also on the AddBlock path where
    the header need not be the indexed one).  Excluded by the store invariant. *)
Definition fc_overwritten (st : store) (h : header) : bool :=
  match claimed st h with
  | Some g =>
      match lookup g (st_peers st) with
      | Some peers => negb (entry_ok st (g, peers))
      | None => false
      end
  | None => false
  end.

(** the conclusion of the property for one header *)
Definition governed_quorum (st : store) (h : header) : Prop :=
  exists g hg cc, gov_height st (h_height h) = Some g /\ header_at st g = Some hg /\
    cfg_of hg = Some cc /\ quorum_signed h (cc_peers cc) (cc_c cc).

(** FULL STATEMENT of C32 on the model *)
Definition header_accept_statement : Prop :=
  forall st h r, store_wf st -> h_height h <> 0%N -> verify_header st h = ROk r ->
    governed_quorum st h.

(** * memk / dedup *)
Lemma memk_In k l : memk k l = true <-> In k l.
Proof.
  unfold memk; rewrite existsb_exists; split.
  - intros [x [Hi He]]; apply N.eqb_eq in He; subst; auto.
  - intros Hi; exists k; split; auto; apply N.eqb_refl.
Qed.

Lemma dedup_In k l : In k (dedup l) <-> In k l.
Proof.
  induction l as [|a l IH]; simpl; [tauto|].
  destruct (memk a l) eqn:E.
  - rewrite IH; split; auto. intros [->|]; auto. apply memk_In; auto.
  - simpl; rewrite IH; tauto.
Qed.

Lemma dedup_NoDup l : NoDup (dedup l).
Proof.
  induction l as [|a l IH]; simpl; [constructor|].
  destruct (memk a l) eqn:E; auto.
  constructor; auto. rewrite dedup_In. intro Hi. apply memk_In in Hi. congruence.
Qed.

Lemma dedup_length_le l : (length (dedup l) <= length l)%nat.
Proof. induction l as [|a l IH]; simpl; auto. destruct (memk a l); simpl; lia. Qed.

Lemma dedup_full_NoDup l : length (dedup l) = length l -> NoDup l.
Proof.
  induction l as [|a l IH]; simpl; intros H; [constructor|].
  destruct (memk a l) eqn:E.
  - pose proof (dedup_length_le l); lia.
  - simpl in H. constructor; [|apply IH; lia].
    intro Hi; apply memk_In in Hi; congruence.
Qed.

(** * VerifyMultiSignature: what an accepting run establishes *)
Lemma sig_verifies_eq k msg s : sig_verifies k msg s = true -> s = SBy k msg.
Proof.
  destruct s; simpl; [discriminate|].
  rewrite andb_true_iff, !N.eqb_eq. intros [-> ->]; reflexivity.
Qed.

(** one run of the inner loop: a hit masks exactly one previously unmasked position whose key
    verifies; all other mask entries are unchanged *)
Lemma mark_first_hit {A} (ok : A -> bool) b (keys : list A) mask mask' :
  mark_first ok b keys mask = MarkHit mask' ->
  exists j k, nth_error keys j = Some k /\ ok k = true /\ nth_error mask j = Some false /\
    nth_error mask' j = Some true /\
    (forall i, i <> j -> nth_error mask' i = nth_error mask i).
Proof.
  revert keys mask mask'; induction b as [|b IH]; intros keys mask mask' H; simpl in H; [discriminate|].
  destruct keys as [|k ks]; [discriminate|]. destruct mask as [|[|] bs]; try discriminate.
  - destruct (mark_first ok b ks bs) eqn:E; try discriminate. inversion H; subst; clear H.
    destruct (IH _ _ _ E) as (j & k' & H1 & H2 & H3 & H4 & H5).
    exists (S j), k'; simpl. do 4 (split; [assumption|]).
    intros [|i] Hi; simpl; auto.
  - destruct (ok k) eqn:Ek.
    + inversion H; subst; clear H. exists 0%nat, k; simpl. do 4 (split; [auto|]).
      intros [|i] Hi; simpl; auto; congruence.
    + destruct (mark_first ok b ks bs) eqn:E; try discriminate. inversion H; subst; clear H.
      destruct (IH _ _ _ E) as (j & k' & H1 & H2 & H3 & H4 & H5).
      exists (S j), k'; simpl. do 4 (split; [assumption|]).
      intros [|i] Hi; simpl; auto.
Qed.

(** an accepting outer loop matches the first m signatures to m DISTINCT list positions, each
    unmasked at the start, the key at the position verifying the signature *)
Lemma vms_loop_ok msg b keys : forall m mask sigs,
  vms_loop msg b keys mask sigs m = VmsOk ->
  exists jks : list (nat * key),
    length jks = m /\ NoDup (map fst jks) /\
    (forall j k, In (j, k) jks -> nth_error keys j = Some (BkKey k) /\ nth_error mask j = Some false) /\
    Forall2 (fun jk s => s = SBy (snd jk) msg) jks (firstn m sigs) /\ (m <= length sigs)%nat.
Proof.
  induction m as [|m IH]; intros mask sigs H.
  - exists []; simpl. split; [reflexivity|]. split; [constructor|]. split; [intros ? ? []|].
    split; [constructor|lia].
  - destruct sigs as [|s rest]; [discriminate H|].
    cbn [vms_loop] in H.
    destruct (sig_decodes s) eqn:Es; cbv beta iota delta [negb] in H; [|discriminate H].
    destruct (mark_first _ b keys mask) as [mask'| |] eqn:E; try discriminate.
    apply mark_first_hit in E. destruct E as (j & bk & Hk & Hok & Hm & Hm' & Hoth).
    destruct bk as [k|fid]; [|discriminate Hok]. cbn [bk_verifies] in Hok.
    destruct (IH _ _ H) as (jks & Hl & Hnd & Hin & Hf & Hlen).
    exists ((j, k) :: jks); simpl.
    split; [lia|]. split; [|split; [|split; [|lia]]].
    + constructor; auto. intro Hj. apply in_map_iff in Hj. destruct Hj as [[j' k'] [Hfst Hi]].
      simpl in Hfst; subst j'. destruct (Hin _ _ Hi) as [_ Hu]. congruence.
    + intros j0 k0 [H0|H0]; [inversion H0; subst; auto|].
      destruct (Hin _ _ H0) as [Hk0 Hu]. split; auto.
      destruct (Nat.eq_dec j0 j) as [->|Hne]; [congruence|]. rewrite <- (Hoth _ Hne); auto.
    + constructor; auto. simpl. apply sig_verifies_eq; auto.
Qed.

Lemma verify_multi_ok msg keys m sigs :
  verify_multi msg keys m sigs = VmsOk ->
  exists jks : list (nat * key),
    length jks = Z.to_nat m /\ NoDup (map fst jks) /\
    (forall j k, In (j, k) jks -> nth_error keys j = Some (BkKey k)) /\
    Forall2 (fun jk s => s = SBy (snd jk) msg) jks (firstn (Z.to_nat m) sigs).
Proof.
  unfold verify_multi, vms_enough_lhs, vms_enough_rhs, vms_inner_bound, vms_mask_len, vms_outer_bound.
  destruct (_ <? _)%Z; [discriminate|]. intros H.
  apply vms_loop_ok in H. destruct H as (jks & H1 & H2 & H3 & H4 & _).
  exists jks; repeat split; auto. intros j k Hi; apply (H3 _ _ Hi).
Qed.

(** with a duplicate-free key list the matched keys are distinct *)
Lemma matched_keys_NoDup (keys : list bkey) (jks : list (nat * key)) :
  NoDup (map bk_id keys) -> NoDup (map fst jks) ->
  (forall j k, In (j, k) jks -> nth_error keys j = Some (BkKey k)) ->
  NoDup (map snd jks).
Proof.
  intros Hk; induction jks as [|[j k] r IH]; simpl; intros Hnd Hin; [constructor|].
  inversion Hnd; subst. constructor.
  - intro Hi. apply in_map_iff in Hi. destruct Hi as [[j' k'] [Hs Hi]]. simpl in Hs; subst k'.
    assert (Ha : nth_error (map bk_id keys) j' = Some k) by (rewrite nth_error_map, (Hin j' k); auto).
    assert (Hb : nth_error (map bk_id keys) j = Some k) by (rewrite nth_error_map, (Hin j k); auto).
    assert (j = j').
    { apply (proj1 (NoDup_nth_error (map bk_id keys)) Hk); [apply nth_error_Some; congruence|congruence]. }
    subst j'. apply H1. apply in_map_iff. exists (j, k); auto.
  - apply IH; auto.
Qed.

Lemma Forall2_In_l {A B} (R : A -> B -> Prop) l1 l2 x :
  Forall2 R l1 l2 -> In x l1 -> exists y, In y l2 /\ R x y.
Proof.
  induction 1; simpl; [tauto|]. intros [->|Hi]; [eauto|].
  destruct (IHForall2 Hi) as [y' [? ?]]; eauto.
Qed.

Lemma firstn_In {A} n (l : list A) x : In x (firstn n l) -> In x l.
Proof. revert l; induction n; destruct l; simpl; try tauto. intros [->|H]; auto. Qed.

(** * verifyHeader: what an accepting run establishes *)
Lemma check_quorum_ok peers c h r :
  check_quorum peers c h = ROk r ->
  let m := hs_vbft_m (Z.of_nat (length peers)) in
  (m <= Z.of_nat (length (h_bks h)))%Z /\
  (forall b, In b (h_bks h) -> In (bk_id b) peers) /\
  ((Z.of_N c + 1) mod 4294967296 <= Z.of_nat (length (dedup (map bk_id (h_bks h)))) mod 4294967296)%Z /\
  verify_multi (h_hash h) (h_bks h) m (h_sigs h) = VmsOk.
Proof.
  unfold check_quorum, hs_vbft_listed_lhs, hs_vbft_listed_rhs, hs_vbft_distinct_lhs,
    hs_vbft_distinct_rhs, hs_vbft_vms_m, two32.
  destruct (Z.of_nat (length (h_bks h)) <? _)%Z eqn:E1; [discriminate|].
  destruct (forallb _ _) eqn:E2; [|discriminate]. cbv beta iota delta [negb].
  destruct (_ mod _ <? _)%Z eqn:E3; [discriminate|].
  destruct (verify_multi _ _ _ _) eqn:E4; try discriminate. intros _.
  split; [lia|]. split; [|split; [|reflexivity]].
  - intros b Hb. rewrite forallb_forall in E2. apply memk_In. apply (E2 b); auto.
  - apply Z.ltb_ge in E3. exact E3.
Qed.

Record accepted_facts (st : store) (h : header) (g : N) (hg : header) (cc : chaincfg) (peers : list key) : Prop := {
  af_claimed : claimed st h = Some g;
  af_cfg_header : header_at st g = Some hg;
  af_cfg : cfg_of hg = Some cc;
  af_peers : lookup g (st_peers st) = Some peers;
  af_quorum : exists r, check_quorum peers (cc_c cc) h = ROk r }.

Lemma verify_header_ok st h r :
  h_height h <> 0%N -> verify_header st h = ROk r ->
  exists g hg cc peers, accepted_facts st h g hg cc peers.
Proof.
  intros Hh. unfold verify_header. destruct (h_height h =? 0)%N eqn:E0; [apply N.eqb_eq in E0; contradiction|].
  destruct (header_by_hash (st_headers st) (h_prev h)) as [p|] eqn:Ep; [|discriminate].
  destruct (negb _); [discriminate|]. destruct (_ <=? _)%N; [discriminate|].
  destruct (h_info h) as [bi|] eqn:Ebi; [|discriminate].
  destruct (claimed_cfg_height p bi) as [g|] eqn:Eg; [|discriminate].
  destruct (header_at st g) as [hg|] eqn:Ehg; [|discriminate].
  destruct (h_info hg) as [cbi|] eqn:Ecbi; [|discriminate].
  destruct (bi_newcfg cbi) as [cc|] eqn:Ecc; [|discriminate].
  destruct (lookup g (st_peers st)) as [peers|] eqn:Epeers; [|discriminate].
  destruct (check_quorum peers (cc_c cc) h) eqn:Eq; try discriminate. intros _.
  exists g, hg, cc, peers. constructor; auto.
  - unfold claimed. rewrite Ep, Ebi. exact Eg.
  - unfold cfg_of. rewrite Ecbi. exact Ecc.
  - eauto.
Qed.

(** PARTIAL (unconditional): what every accepted header does carry *)
Definition slots_signed (h : header) (m : nat) : Prop :=
  exists jks : list (nat * key),
    length jks = m /\ NoDup (map fst jks) /\
    (forall j k, In (j, k) jks -> nth_error (h_bks h) j = Some (BkKey k)) /\
    Forall2 (fun jk s => s = SBy (snd jk) (h_hash h)) jks (firstn m (h_sigs h)).

Lemma accept_partial_slots st h r :
  h_height h <> 0%N -> verify_header st h = ROk r ->
  exists g hg cc peers,
    claimed st h = Some g /\ header_at st g = Some hg /\ cfg_of hg = Some cc /\
    lookup g (st_peers st) = Some peers /\
    (forall b, In b (h_bks h) -> In (bk_id b) peers) /\
    ((Z.of_N (cc_c cc) + 1) mod 4294967296 <= Z.of_nat (length (dedup (map bk_id (h_bks h)))) mod 4294967296)%Z /\
    slots_signed h (Z.to_nat (hs_vbft_m (Z.of_nat (length peers)))).
Proof.
  intros Hh H. destruct (verify_header_ok _ _ _ Hh H) as (g & hg & cc & peers & [H1 H2 H3 H4 [r' H5]]).
  apply check_quorum_ok in H5. destruct H5 as (_ & Hmem & Hd & Hv).
  exists g, hg, cc, peers. repeat (split; [assumption|]).
  apply verify_multi_ok in Hv. exact Hv.
Qed.

(** without uint32 wrap-around: at least C+1 distinct members are LISTED *)
Lemma accept_partial_listed st h r :
  h_height h <> 0%N -> verify_header st h = ROk r ->
  exists g hg cc peers,
    claimed st h = Some g /\ header_at st g = Some hg /\ cfg_of hg = Some cc /\
    lookup g (st_peers st) = Some peers /\
    ((cc_c cc + 1 < two32)%N -> (Z.of_nat (length (h_bks h)) < 4294967296)%Z ->
     exists L, NoDup L /\ (N.to_nat (cc_c cc) + 1 <= length L)%nat /\
       forall k, In k L -> In k (map bk_id (h_bks h)) /\ In k peers).
Proof.
  intros Hh H. destruct (accept_partial_slots _ _ _ Hh H) as (g & hg & cc & peers & H1 & H2 & H3 & H4 & H5 & H6 & _).
  exists g, hg, cc, peers. repeat (split; [assumption|]).
  unfold two32. intros Hc Hl. exists (dedup (map bk_id (h_bks h))). split; [apply dedup_NoDup|].
  pose proof (dedup_length_le (map bk_id (h_bks h))). rewrite map_length in H0. split; [lia|].
  intros k Hk. apply (proj1 (dedup_In _ _)) in Hk. split; auto.
  apply in_map_iff in Hk. destruct Hk as [b [<- Hb]]. auto.
Qed.

(** the generated threshold asks for at least one signature as soon as there is a peer *)
Lemma hs_vbft_m_pos n : (1 <= n)%Z -> (1 <= hs_vbft_m n)%Z.
Proof. unfold hs_vbft_m; lia. Qed.
Lemma hs_vbft_m_le n : (0 <= n)%Z -> (0 <= hs_vbft_m n <= n)%Z.
Proof. unfold hs_vbft_m; lia. Qed.

Lemma accept_partial_one_member st h r :
  h_height h <> 0%N -> verify_header st h = ROk r ->
  exists g hg cc peers,
    claimed st h = Some g /\ header_at st g = Some hg /\ cfg_of hg = Some cc /\
    lookup g (st_peers st) = Some peers /\
    (peers <> [] -> exists k, In k peers /\ signed_by h k).
Proof.
  intros Hh H. destruct (accept_partial_slots _ _ _ Hh H) as (g & hg & cc & peers & H1 & H2 & H3 & H4 & H5 & _ & H7).
  exists g, hg, cc, peers. repeat (split; [assumption|]).
  intros Hne. destruct H7 as (jks & Hl & _ & Hin & Hf).
  assert (1 <= hs_vbft_m (Z.of_nat (length peers)))%Z.
  { apply hs_vbft_m_pos. destruct peers; [contradiction|simpl; lia]. }
  destruct jks as [|[j k] jks]; [simpl in Hl; lia|].
  exists k. split.
  - apply (H5 (BkKey k)). eapply nth_error_In. apply (Hin j k). left; auto.
  - destruct (Forall2_In_l _ _ _ (j, k) Hf) as [s [Hs1 Hs2]]; [left; auto|].
    simpl in Hs2; subst s. apply firstn_In in Hs1. exact Hs1.
Qed.

(** * The governing height *)
Lemma fold_max_ge l : forall a, (a <= fold_left N.max l a)%N.
Proof. induction l as [|x l IH]; simpl; intros a; [lia|]. specialize (IH (N.max a x)). lia. Qed.
Lemma fold_max_all l : forall a x, In x l -> (x <= fold_left N.max l a)%N.
Proof.
  induction l as [|y l IH]; simpl; intros a x; [tauto|].
  intros [->|Hi]; [pose proof (fold_max_ge l (N.max a x)); lia|auto].
Qed.
Lemma fold_max_in l : forall a, fold_left N.max l a = a \/ In (fold_left N.max l a) l.
Proof.
  induction l as [|y l IH]; simpl; intros a; [auto|].
  destruct (IH (N.max a y)) as [H|H]; [|auto].
  rewrite H. destruct (N.max_spec a y) as [[_ ->]|[_ ->]]; auto.
Qed.

Lemma gov_height_spec st H g :
  gov_height st H = Some g ->
  (g < H)%N /\ has_cfg st g = true /\
  forall j, In j (map fst (st_index st)) -> (g < j < H)%N -> has_cfg st j = false.
Proof.
  unfold gov_height. destruct (cfg_heights st H) as [|j0 r] eqn:E; [discriminate|].
  intros Hg; inversion Hg; subst g; clear Hg.
  assert (Hin : In (fold_left N.max r j0) (cfg_heights st H)).
  { rewrite E. destruct (fold_max_in r j0) as [->|Hi]; [left; auto|right; auto]. }
  unfold cfg_heights in Hin. apply filter_In in Hin. destruct Hin as [_ Hc].
  apply andb_true_iff in Hc. destruct Hc as [Hlt Hc]. apply N.ltb_lt in Hlt.
  split; [auto|]. split; [auto|].
  intros j Hj [Hlo Hhi]. destruct (has_cfg st j) eqn:Ej; [|reflexivity].
  assert (Hj' : In j (cfg_heights st H)).
  { unfold cfg_heights. apply filter_In. split; auto. rewrite Ej, andb_true_r. apply N.ltb_lt; auto. }
  rewrite E in Hj'. destruct Hj' as [->|Hj'].
  - pose proof (fold_max_ge r j). lia.
  - pose proof (fold_max_all r j0 j Hj'). lia.
Qed.

(** * PARTIAL: outside the finding classes the full conclusion holds *)
Lemma opt_eqb_eq a b : opt_eqb a b = true -> a = b.
Proof. destruct a, b; simpl; try discriminate; auto. intros H; apply N.eqb_eq in H; subst; auto. Qed.

Lemma keyset_sub a b k : keyset_eqb a b = true -> In k a -> In k b.
Proof.
  unfold keyset_eqb. rewrite andb_true_iff. intros [H _] Hk.
  rewrite forallb_forall in H. apply memk_In. auto.
Qed.

Lemma lookup_In {A} k (l : list (N * A)) v : lookup k l = Some v -> In (k, v) l.
Proof.
  induction l as [|[k' v'] l IH]; simpl; [discriminate|].
  destruct (k' =? k)%N eqn:E; [apply N.eqb_eq in E; subst; intros H; inversion H; auto|auto].
Qed.

Lemma accept_partial_gen st h r :
  h_height h <> 0%N -> verify_header st h = ROk r ->
  fc_overwritten st h = false -> in_finding_class st h = false -> governed_quorum st h.
Proof.
  intros Hh H How Hfc.
  destruct (verify_header_ok _ _ _ Hh H) as (g & hg & cc & peers & [H1 H2 H3 H4 [r' H5]]).
  unfold in_finding_class in Hfc. apply orb_false_iff in Hfc. destruct Hfc as [Hfc Hdup].
  apply orb_false_iff in Hfc. destruct Hfc as [Hstale Hthr].
  unfold fc_stale in Hstale. rewrite H1 in Hstale. apply negb_false_iff in Hstale. apply opt_eqb_eq in Hstale.
  unfold fc_threshold in Hthr. rewrite H1, H4, H2, H3 in Hthr. unfold threshold_short in Hthr.
  apply Z.ltb_ge in Hthr.
  unfold fc_dup in Hdup. apply negb_false_iff in Hdup. apply Nat.eqb_eq in Hdup.
  rewrite <- (map_length bk_id) in Hdup. apply dedup_full_NoDup in Hdup.
  unfold fc_overwritten in How. rewrite H1, H4 in How. apply negb_false_iff in How.
  unfold entry_ok in How. simpl in How. rewrite H2, H3 in How.
  apply check_quorum_ok in H5. destruct H5 as (_ & Hmem & _ & Hv).
  apply verify_multi_ok in Hv. destruct Hv as (jks & Hl & Hnd & Hin & Hf).
  exists g, hg, cc. repeat (split; [assumption|]).
  exists (map snd jks). split; [apply (matched_keys_NoDup (h_bks h)); auto|].
  split; [rewrite map_length; lia|].
  intros k Hk. apply in_map_iff in Hk. destruct Hk as [[j k'] [Hs Hi]]. simpl in Hs; subst k'.
  split.
  - assert (Hp : In k peers) by (apply (Hmem (BkKey k)); eapply nth_error_In; apply (Hin _ _ Hi)).
    eapply keyset_sub; eauto.
  - destruct (Forall2_In_l _ _ _ _ Hf Hi) as [s [Hs1 Hs2]]. simpl in Hs2; subst s.
    apply firstn_In in Hs1. exact Hs1.
Qed.

Lemma wf_not_overwritten st h : store_wf st -> fc_overwritten st h = false.
Proof.
  intros Hwf. unfold fc_overwritten. destruct (claimed st h) as [g|]; auto.
  destruct (lookup g (st_peers st)) as [peers|] eqn:E; auto.
  unfold store_wf, store_wfb in Hwf. rewrite forallb_forall in Hwf.
  rewrite (Hwf _ (lookup_In _ _ _ E)). reflexivity.
Qed.

Lemma accept_partial st h r :
  store_wf st -> h_height h <> 0%N -> verify_header st h = ROk r ->
  in_finding_class st h = false -> governed_quorum st h.
Proof. intros Hwf Hh H Hfc. eapply accept_partial_gen; eauto. apply wf_not_overwritten; auto. Qed.

(** * Histories: AddHeader keeps the store invariant *)

(** every index entry resolves to a stored header *)
Definition store_closed (st : store) : Prop :=
  forall j x, In (j, x) (st_index st) -> header_by_hash (st_headers st) x <> None.

(** assoc lists with distinct keys *)
Definition keys_nodup {A} (l : list (N * A)) : Prop := NoDup (map fst l).

Lemma set_entry_fst_in {A} k (x : A) l j :
  In j (map fst (set_entry k x l)) -> j = k \/ In j (map fst l).
Proof.
  induction l as [|[k' v'] l IH]; simpl.
  - intros [<-|[]]; auto.
  - destruct (k' =? k)%N eqn:E; simpl.
    + apply N.eqb_eq in E; subst k'. tauto.
    + intros [<-|Hi]; auto. destruct (IH Hi); auto.
Qed.

Lemma set_entry_keys_nodup {A} k (x : A) l : keys_nodup l -> keys_nodup (set_entry k x l).
Proof.
  unfold keys_nodup. induction l as [|[k' v'] l IH]; simpl; intros H.
  - constructor; auto; constructor.
  - inversion H; subst. destruct (k' =? k)%N eqn:E; simpl.
    + apply N.eqb_eq in E; subst k'. constructor; auto.
    + constructor; auto. intro Hi. apply set_entry_fst_in in Hi. destruct Hi as [->|Hi]; auto.
      rewrite N.eqb_refl in E; discriminate.
Qed.

Lemma set_entry_In {A} k (x : A) l e :
  keys_nodup l -> In e (set_entry k x l) -> e = (k, x) \/ (In e l /\ fst e <> k).
Proof.
  unfold keys_nodup. induction l as [|[k' v'] l IH]; simpl; intros Hnd.
  - intros [<-|[]]; auto.
  - inversion Hnd; subst. destruct (k' =? k)%N eqn:E.
    + apply N.eqb_eq in E; subst k'. intros [<-|Hi]; auto.
      right. split; auto. intro Heq. apply H1. rewrite <- Heq. apply in_map; auto.
    + intros [<-|Hi].
      * right. split; auto. simpl. intro Heq; subst. rewrite N.eqb_refl in E; discriminate.
      * destruct (IH H2 Hi) as [->|[Hi' Hne]]; auto.
Qed.

Lemma lookup_set_entry_same {A} k (x : A) l : lookup k (set_entry k x l) = Some x.
Proof.
  induction l as [|[k' v'] l IH]; simpl; [rewrite N.eqb_refl; auto|].
  destruct (k' =? k)%N eqn:E; simpl; [rewrite N.eqb_refl; auto|rewrite E; auto].
Qed.

Lemma lookup_set_entry_other {A} k (x : A) l j : j <> k -> lookup j (set_entry k x l) = lookup j l.
Proof.
  intros Hne. induction l as [|[k' v'] l IH]; simpl.
  - destruct (k =? j)%N eqn:E; auto. apply N.eqb_eq in E; congruence.
  - destruct (k' =? k)%N eqn:E; simpl.
    + apply N.eqb_eq in E; subst k'. destruct (k =? j)%N eqn:E2; auto. apply N.eqb_eq in E2; congruence.
    + destruct (k' =? j)%N; auto.
Qed.

Record store_inv (st : store) : Prop := {
  inv_wf : store_wf st;
  inv_closed : store_closed st;
  inv_index_keys : keys_nodup (st_index st);
  inv_peer_keys : keys_nodup (st_peers st) }.

Lemma keyset_eqb_dedup l : keyset_eqb (dedup l) l = true.
Proof.
  unfold keyset_eqb. apply andb_true_iff; split; apply forallb_forall; intros k Hk; apply memk_In.
  - apply (proj1 (dedup_In _ _)); auto.
  - apply (proj2 (dedup_In _ _)); auto.
Qed.

(** the peer-map entry an accepting verifyHeader writes is determined by the header itself *)
Lemma verify_header_newpeers st h r :
  h_height h <> 0%N -> verify_header st h = ROk r ->
  r = match cfg_of h with
      | Some nc => Some (h_height h, dedup (cc_peers nc))
      | None => None
      end.
Proof.
  intros Hh. unfold verify_header.
  destruct (h_height h =? 0)%N eqn:E0; [apply N.eqb_eq in E0; contradiction|].
  destruct (header_by_hash _ _); [|discriminate]. destruct (negb _); [discriminate|].
  destruct (_ <=? _)%N; [discriminate|]. unfold cfg_of.
  destruct (h_info h) as [bi|] eqn:Ebi; [|discriminate].
  destruct (claimed_cfg_height _ _); [|discriminate]. destruct (header_at _ _) as [hg|]; [|discriminate].
  destruct (h_info hg) as [cbi|]; [|discriminate]. destruct (bi_newcfg cbi); [|discriminate].
  destruct (lookup _ _); [|discriminate]. destruct (check_quorum _ _ _); try discriminate.
  intros H; inversion H; reflexivity.
Qed.

Lemma add_header_inv st h st' :
  store_inv st -> (st_tip st + 1 < two32)%N ->
  header_by_hash (st_headers st) (h_hash h) = None ->
  add_header st h = AddOk st' -> store_inv st'.
Proof.
  intros [Hwf Hcl Hik Hpk] Htip Hfresh. unfold add_header.
  destruct (negb _) eqn:Eh; [discriminate|].
  apply negb_false_iff in Eh. apply N.eqb_eq in Eh.
  assert (Hh : h_height h <> 0%N) by (rewrite Eh, N.mod_small by exact Htip; lia).
  destruct (verify_header st h) as [r| | | | | | | | | | | | |] eqn:Ev; try discriminate.
  intros H; inversion H; subst st'; clear H.
  pose proof (verify_header_newpeers _ _ _ Hh Ev) as Hr.
  set (H := h_height h) in *.
  assert (Hat_other : forall j, j <> H ->
            match lookup j (set_entry H (h_hash h) (st_index st)) with
            | Some x => header_by_hash (h :: st_headers st) x
            | None => None end = header_at st j).
  { intros j Hne. rewrite lookup_set_entry_other by auto. unfold header_at.
    destruct (lookup j (st_index st)) as [x|] eqn:El; auto.
    simpl. destruct (h_hash h =? x)%N eqn:E; auto.
    apply N.eqb_eq in E; subst x. exfalso. apply (Hcl j (h_hash h)); auto. apply lookup_In; auto. }
  assert (Hidx : st_index (apply_verify st (ROk r)) = st_index st) by (destruct r as [[g ps]|]; reflexivity).
  assert (Hhs : st_headers (apply_verify st (ROk r)) = st_headers st) by (destruct r as [[g ps]|]; reflexivity).
  unfold apply_verify in Hidx, Hhs.
  constructor.
  - (* wf *)
    unfold store_wf, store_wfb. apply forallb_forall. intros [j v] He.
    unfold entry_ok, header_at. cbn [fst snd st_index st_headers st_peers] in *.
    rewrite Hidx, Hhs.
    destruct (N.eq_dec j H) as [->|Hne].
    + rewrite lookup_set_entry_same. simpl. rewrite N.eqb_refl.
      destruct (cfg_of h) as [nc|] eqn:Enc; auto. subst r. simpl in He.
      apply set_entry_In in He; auto. destruct He as [He|[_ Hne]]; [|simpl in Hne; congruence].
      inversion He; subst. apply keyset_eqb_dedup.
    + rewrite (Hat_other j Hne).
      assert (He' : In (j, v) (st_peers st)).
      { destruct (cfg_of h) as [nc|]; subst r; simpl in He; auto.
        apply set_entry_In in He; auto. destruct He as [He|[He _]]; auto. inversion He; congruence. }
      unfold store_wf, store_wfb in Hwf. rewrite forallb_forall in Hwf.
      apply (Hwf _ He').
  - (* closed *)
    unfold store_closed. cbn [st_index st_headers]. rewrite Hidx, Hhs. intros j x Hi.
    apply set_entry_In in Hi; auto. destruct Hi as [Hi|[Hi _]].
    + inversion Hi; subst. simpl. rewrite N.eqb_refl. discriminate.
    + simpl. destruct (h_hash h =? x)%N; [discriminate|]. apply (Hcl j x Hi).
  - cbn [st_index]. rewrite Hidx. apply set_entry_keys_nodup; auto.
  - cbn [st_peers]. destruct r as [[g ps]|]; simpl; auto. apply set_entry_keys_nodup; auto.
Qed.

(** stores reachable from [st0] by successful AddHeader calls with fresh header hashes *)
Inductive reachable (st0 : store) : store -> Prop :=
| reach_refl : reachable st0 st0
| reach_add st h st' : reachable st0 st -> (st_tip st + 1 < two32)%N ->
    header_by_hash (st_headers st) (h_hash h) = None ->
    add_header st h = AddOk st' -> reachable st0 st'.

Lemma reachable_inv st0 st : store_inv st0 -> reachable st0 st -> store_inv st.
Proof. intros H0 Hr. induction Hr; auto. eapply add_header_inv; eauto. Qed.

(** * Witnesses (finding F11) *)
Local Open Scope N_scope.

Definition mk_cfg_header (height hash time last : N) (c : N) (peers : list key) : header :=
  {| h_height := height; h_prev := 0; h_time := time;
     h_info := Some {| bi_last := last; bi_newcfg := Some {| cc_c := c; cc_peers := peers |} |};
     h_bks := map BkKey []; h_sigs := []; h_hash := hash |}.

Definition peers7 : list key := [1;2;3;4;5;6;7].
Definition peers14 : list key := [1;2;3;4;5;6;7;8;9;10;11;12;13;14].
Definition peers14b : list key := [21;22;23;24;25;26;27;28;29;30;31;32;33;34].

(** W1: configuration N=7, C=2 at the genesis header; a header at height 1 that lists three
    members and carries ONE valid signature *)
Definition w1_genesis := mk_cfg_header 0 100 0 4294967295 2 peers7.
Definition w1_store : store :=
  {| st_headers := [w1_genesis]; st_index := [(0, 100)]; st_peers := [(0, peers7)]; st_tip := 0 |}.
Definition w1_header : header :=
  {| h_height := 1; h_prev := 100; h_time := 1;
     h_info := Some {| bi_last := 0; bi_newcfg := None |};
     h_bks := map BkKey [1;2;3]; h_sigs := [SBy 1 200]; h_hash := 200 |}.

(** W2: N=14, C=1 (m = 2 >= C+1); one member listed twice, its one signature sent twice *)
Definition w2_genesis := mk_cfg_header 0 100 0 4294967295 1 peers14.
Definition w2_store : store :=
  {| st_headers := [w2_genesis]; st_index := [(0, 100)]; st_peers := [(0, peers14)]; st_tip := 0 |}.
Definition w2_header : header :=
  {| h_height := 1; h_prev := 100; h_time := 1;
     h_info := Some {| bi_last := 0; bi_newcfg := None |};
     h_bks := map BkKey [1;1;2]; h_sigs := [SBy 1 200; SBy 1 200]; h_hash := 200 |}.

(** W3: the configuration changed at height 1 (new peer set 21..34); a header at height 2 names
    height 0 as its configuration and is signed by two members of the OLD set *)
Definition w3_h1 : header :=
  {| h_height := 1; h_prev := 100; h_time := 1;
     h_info := Some {| bi_last := 0; bi_newcfg := Some {| cc_c := 1; cc_peers := peers14b |} |};
     h_bks := map BkKey [1;2]; h_sigs := [SBy 1 101; SBy 2 101]; h_hash := 101 |}.
Definition w3_store : store :=
  {| st_headers := [w3_h1; w2_genesis]; st_index := [(0, 100); (1, 101)];
     st_peers := [(0, peers14); (1, peers14b)]; st_tip := 1 |}.
Definition w3_header : header :=
  {| h_height := 2; h_prev := 101; h_time := 2;
     h_info := Some {| bi_last := 0; bi_newcfg := None |};
     h_bks := map BkKey [1;2]; h_sigs := [SBy 1 202; SBy 2 202]; h_hash := 202 |}.

(** a good header for W2's store: two distinct members, two valid signatures *)
Definition good_header : header :=
  {| h_height := 1; h_prev := 100; h_time := 1;
     h_info := Some {| bi_last := 0; bi_newcfg := None |};
     h_bks := map BkKey [3;9]; h_sigs := [SBy 9 200; SBy 3 200]; h_hash := 200 |}.

Lemma w3_reachable : add_header w2_store w3_h1 = AddOk w3_store.
Proof. vm_compute. reflexivity. Qed.

Lemma NoDup_all_eq (a : key) (S : list key) : NoDup S -> (forall k, In k S -> k = a) -> (length S <= 1)%nat.
Proof.
  intros Hnd Hall. destruct S as [|x [|y S]]; simpl; try lia.
  exfalso. inversion Hnd; subst. apply H1. left.
  rewrite (Hall x), (Hall y); simpl; auto.
Qed.

Lemma w1_not_quorum : ~ governed_quorum w1_store w1_header.
Proof.
  intros (g & hg & cc & Hg & Hhg & Hcc & S & Hnd & Hlen & Hall).
  vm_compute in Hg. inversion Hg; subst g; clear Hg.
  vm_compute in Hhg. inversion Hhg; subst hg; clear Hhg.
  vm_compute in Hcc. inversion Hcc; subst cc; clear Hcc.
  assert (length S <= 1)%nat.
  { apply (NoDup_all_eq 1); auto. intros k Hk. destruct (Hall k Hk) as [_ Hs].
    unfold signed_by in Hs. simpl in Hs. destruct Hs as [Hs|[]]. inversion Hs; auto. }
  simpl in Hlen. lia.
Qed.

Lemma w2_not_quorum : ~ governed_quorum w2_store w2_header.
Proof.
  intros (g & hg & cc & Hg & Hhg & Hcc & S & Hnd & Hlen & Hall).
  vm_compute in Hg. inversion Hg; subst g; clear Hg.
  vm_compute in Hhg. inversion Hhg; subst hg; clear Hhg.
  vm_compute in Hcc. inversion Hcc; subst cc; clear Hcc.
  assert (length S <= 1)%nat.
  { apply (NoDup_all_eq 1); auto. intros k Hk. destruct (Hall k Hk) as [_ Hs].
    unfold signed_by in Hs. simpl in Hs. destruct Hs as [Hs|[Hs|[]]]; inversion Hs; auto. }
  simpl in Hlen. lia.
Qed.

Lemma w3_not_quorum : ~ governed_quorum w3_store w3_header.
Proof.
  intros (g & hg & cc & Hg & Hhg & Hcc & S & Hnd & Hlen & Hall).
  vm_compute in Hg. inversion Hg; subst g; clear Hg.
  vm_compute in Hhg. inversion Hhg; subst hg; clear Hhg.
  vm_compute in Hcc. inversion Hcc; subst cc; clear Hcc.
  destruct S as [|k S]; [simpl in Hlen; lia|].
  destruct (Hall k (or_introl eq_refl)) as [Hm Hs].
  unfold signed_by in Hs. simpl in Hs, Hm.
  destruct Hs as [Hs|[Hs|[]]]; inversion Hs; subst k; clear Hs;
    repeat (destruct Hm as [Hm|Hm]; [discriminate Hm|]); exact Hm.
Qed.

Lemma header_accept_refuted_w1 : ~ header_accept_statement.
Proof.
  intros Hst. apply w1_not_quorum.
  apply (Hst w1_store w1_header None); [reflexivity|discriminate|vm_compute; reflexivity].
Qed.

(** each of the three finding classes is needed: the statement restricted to the complement of
    the two others is still false *)
Lemma header_accept_refuted_dup :
  ~ (forall st h r, store_wf st -> h_height h <> 0 -> verify_header st h = ROk r ->
       fc_stale st h = false -> fc_threshold st h = false -> governed_quorum st h).
Proof.
  intros Hst. apply w2_not_quorum.
  apply (Hst w2_store w2_header None); [reflexivity|discriminate|vm_compute; reflexivity|reflexivity|reflexivity].
Qed.

Lemma header_accept_refuted_stale :
  ~ (forall st0 st h r, store_inv st0 -> reachable st0 st -> h_height h <> 0 ->
       verify_header st h = ROk r ->
       fc_threshold st h = false -> fc_dup h = false -> governed_quorum st h).
Proof.
  intros Hst. apply w3_not_quorum.
  assert (Hinv : store_inv w2_store).
  { constructor; [reflexivity| | |].
    - intros j x [Hi|[]]; inversion Hi; subst; vm_compute; discriminate.
    - unfold keys_nodup; simpl. constructor; auto; constructor.
    - unfold keys_nodup; simpl. constructor; auto; constructor. }
  apply (Hst w2_store w3_store w3_header None Hinv);
    [|discriminate|vm_compute; reflexivity|reflexivity|reflexivity].
  eapply reach_add; [apply reach_refl| | |apply w3_reachable]; vm_compute; reflexivity.
Qed.

Lemma witnesses_in_class :
  (fc_threshold w1_store w1_header = true /\ fc_stale w1_store w1_header = false /\ fc_dup w1_header = false) /\
  (fc_dup w2_header = true /\ fc_stale w2_store w2_header = false /\ fc_threshold w2_store w2_header = false) /\
  (fc_stale w3_store w3_header = true /\ fc_threshold w3_store w3_header = false /\ fc_dup w3_header = false).
Proof. vm_compute. repeat split. Qed.

Lemma good_header_accepted :
  store_wf w2_store /\ h_height good_header <> 0 /\ verify_header w2_store good_header = ROk None /\
  in_finding_class w2_store good_header = false.
Proof. repeat split; try (vm_compute; reflexivity). discriminate. Qed.

Lemma hs_vbft_m_bounds n : (1 <= n)%Z -> (1 <= hs_vbft_m n <= n)%Z.
Proof. unfold hs_vbft_m; lia. Qed.

Lemma accept_partial_histories st0 st h r :
  store_inv st0 -> reachable st0 st ->
  h_height h <> 0 -> verify_header st h = ROk r -> in_finding_class st h = false ->
  governed_quorum st h.
Proof. intros H0 Hr. apply accept_partial. exact (inv_wf _ (reachable_inv _ _ H0 Hr)). Qed.

(** W4: the peer-map entry of a configuration height overwritten by the side effect of an accepted
    verifyHeader call on a header that is not the indexed one (the AddBlock path).  Store: genesis
    N=7, C=2; indexed header 1 carries configuration A (peers 8..21, C=1).  A forged header at
    height 1 (three genesis members listed, ONE signature: class fc_threshold) carrying the
    configuration {C=0, peers=22..35} is run through verifyHeader: accepted, entry 1 := 22..35.
    Then a header at height 2 naming height 1, listing and signed by keys 22 and 23 (no members
    of A), is accepted: C = 1 is read from the indexed header, the peer set from the map. *)
Definition peers14c : list key := [22;23;24;25;26;27;28;29;30;31;32;33;34;35].
Definition w4_h1 : header :=
  {| h_height := 1; h_prev := 100; h_time := 1;
     h_info := Some {| bi_last := 0; bi_newcfg := Some {| cc_c := 1; cc_peers := peers14 |} |};
     h_bks := map BkKey peers7; h_sigs := map (fun k => SBy k 101) peers7; h_hash := 101 |}.
Definition w4_forged : header :=
  {| h_height := 1; h_prev := 100; h_time := 1;
     h_info := Some {| bi_last := 0; bi_newcfg := Some {| cc_c := 0; cc_peers := peers14c |} |};
     h_bks := map BkKey [1;2;3]; h_sigs := [SBy 1 111]; h_hash := 111 |}.
Definition w4_store0 : store :=
  match add_header w1_store w4_h1 with AddOk st => st | _ => w1_store end.
Definition w4_store : store := apply_verify w4_store0 (verify_header w4_store0 w4_forged).
Definition w4_header : header :=
  {| h_height := 2; h_prev := 101; h_time := 2;
     h_info := Some {| bi_last := 1; bi_newcfg := None |};
     h_bks := map BkKey [22;23]; h_sigs := [SBy 22 202; SBy 23 202]; h_hash := 202 |}.

Lemma w4_facts :
  store_wf w4_store0 /\ verify_header w4_store0 w4_forged = ROk (Some (1, peers14c)) /\
  store_wfb w4_store = false /\
  verify_header w4_store w4_header = ROk None /\
  in_finding_class w4_store w4_header = false /\ fc_overwritten w4_store w4_header = true.
Proof. vm_compute. repeat split. Qed.

Lemma w4_not_quorum : ~ governed_quorum w4_store w4_header.
Proof.
  intros (g & hg & cc & Hg & Hhg & Hcc & S & Hnd & Hlen & Hall).
  vm_compute in Hg. inversion Hg; subst g; clear Hg.
  vm_compute in Hhg. inversion Hhg; subst hg; clear Hhg.
  vm_compute in Hcc. inversion Hcc; subst cc; clear Hcc.
  destruct S as [|k S]; [simpl in Hlen; lia|].
  destruct (Hall k (or_introl eq_refl)) as [Hm Hs].
  unfold signed_by in Hs. simpl in Hs, Hm.
  destruct Hs as [Hs|[Hs|[]]]; inversion Hs; subst k; clear Hs;
    repeat (destruct Hm as [Hm|Hm]; [discriminate Hm|]); exact Hm.
Qed.

Lemma header_accept_refuted_overwritten :
  ~ (forall st h r, h_height h <> 0 -> verify_header st h = ROk r ->
       in_finding_class st h = false -> governed_quorum st h).
Proof.
  intros Hst. apply w4_not_quorum.
  apply (Hst w4_store w4_header None); [discriminate|vm_compute; reflexivity|vm_compute; reflexivity].
Qed.

(** forged key objects never fill a signature slot: a list made of forged objects only (whatever
    ids they carry) is rejected as soon as one signature is asked for *)
Lemma all_forged_rejected msg keys m sigs :
  (0 < m)%Z -> (forall b, In b keys -> exists i, b = BkForged i) ->
  verify_multi msg keys m sigs <> VmsOk.
Proof.
  intros Hm Hall Hok. apply verify_multi_ok in Hok. destruct Hok as (jks & Hl & _ & Hin & _).
  destruct jks as [|[j k] r]; [simpl in Hl; lia|].
  assert (Hn : nth_error keys j = Some (BkKey k)) by (apply Hin; left; auto).
  apply nth_error_In in Hn. destruct (Hall _ Hn) as [i Hi]. discriminate Hi.
Qed.

(** ... and in a header: every signature slot of an accepted header is filled by a GENUINE key
    object that is listed, is a member of the consulted peer set and has signed *)
Lemma accept_slots_genuine st h r :
  h_height h <> 0%N -> verify_header st h = ROk r ->
  exists g peers, claimed st h = Some g /\ lookup g (st_peers st) = Some peers /\
    exists ks : list key,
      length ks = Z.to_nat (hs_vbft_m (Z.of_nat (length peers))) /\
      forall k, In k ks -> In (BkKey k) (h_bks h) /\ In k peers /\ signed_by h k.
Proof.
  intros Hh H. destruct (accept_partial_slots _ _ _ Hh H) as (g & hg & cc & peers & H1 & _ & _ & H4 & H5 & _ & H7).
  exists g, peers. repeat (split; [assumption|]).
  destruct H7 as (jks & Hl & _ & Hin & Hf). exists (map snd jks). split; [rewrite map_length; auto|].
  intros k Hk. apply in_map_iff in Hk. destruct Hk as [[j k'] [Hs Hi]]. simpl in Hs; subst k'.
  assert (Hb : In (BkKey k) (h_bks h)) by (eapply nth_error_In; apply (Hin _ _ Hi)).
  split; [auto|]. split; [apply (H5 (BkKey k)); auto|].
  destruct (Forall2_In_l _ _ _ _ Hf Hi) as [s [Hs1 Hs2]]. simpl in Hs2; subst s.
  apply firstn_In in Hs1. exact Hs1.
Qed.
