(** C14: basic facts about Model/VmValue.v — constants, result sets, the key order, sorting of map
    entries, induction principle for trees. *)
From Coq Require Import List Bool Arith NArith ZArith Lia ZifyN ZifyNat ZifyBool Sorted Permutation.
Import ListNotations.
From Ont Require Import Lib.Bytes Model.NeoInt Gen.VmValueConsts Model.VmValue Proofs.NeoInt.
Local Open Scope N_scope.

(** * Facts about the regenerated constants (re-checked by computation on every build) *)
Lemma sites_are_identity :
  (forall x, detect_depth x = x) /\ (forall x, deser_depth x = x) /\ (forall x, ser_size x = x) /\
  (forall x, bytes_len x = x) /\ (forall x, array_append_len x = x) /\ (forall x, struct_append_len x = x) /\
  (forall x, int_maglen x = x).
Proof. repeat split; reflexivity. Qed.

Lemma max_ser_size_lt_two63 : max_ser_size < two63.
Proof. vm_compute. reflexivity. Qed.
Lemma max_ser_size_le_item : max_ser_size <= max_item_size.
Proof. vm_compute. discriminate. Qed.
Lemma max_array_size_lt_two63 : N.of_nat max_array_size < two63 /\ N.of_nat max_struct_size < two63.
Proof. split; vm_compute; reflexivity. Qed.
Lemma two63_lt_two64 : two63 < two64N.
Proof. vm_compute. reflexivity. Qed.

Lemma tags_distinct :
  NoDup [T_BYTEARRAY; T_BOOL; T_INTEGER; T_INTEROP; T_ARRAY; T_STRUCT; T_MAP].
Proof.
  repeat constructor; cbn; intuition (try discriminate).
Qed.

(** * Result sets *)
Lemma r_ok_bind a k : r_ok (rs_bind a k) = match r_ok a with Some s => r_ok (k s) | None => None end.
Proof. unfold rs_bind. destruct (r_ok a) eqn:E; [reflexivity|exact E]. Qed.

Lemma r_ok_alt a b : r_ok (rs_alt a b) = match r_ok a with Some s => Some s | None => r_ok b end.
Proof. reflexivity. Qed.

Lemma r_oof_bind a k : r_oof (rs_bind a k) = r_oof a || match r_ok a with Some s => r_oof (k s) | None => false end.
Proof. unfold rs_bind. destruct (r_ok a); cbn; [reflexivity|rewrite orb_false_r; reflexivity]. Qed.

Lemma r_errs_bind a k : r_errs (rs_bind a k) = r_errs a ++ match r_ok a with Some s => r_errs (k s) | None => [] end.
Proof. unfold rs_bind. destruct (r_ok a); cbn; [reflexivity|rewrite app_nil_r; reflexivity]. Qed.

(** a result set is inhabited: some outcome is possible *)
Definition rs_inhabited (r : rs) : Prop := r_ok r <> None \/ r_errs r <> [] \/ r_oof r = true.

(** * The order on key images *)
Lemma bytes_ltb_irrefl a : bytes_ltb a a = false.
Proof. induction a as [|x a IH]; cbn; [reflexivity|]. rewrite N.ltb_irrefl. exact IH. Qed.

Lemma bytes_ltb_trans a b c : bytes_ltb a b = true -> bytes_ltb b c = true -> bytes_ltb a c = true.
Proof.
  revert b c. induction a as [|x a IH]; intros [|y b] [|z c]; cbn; try discriminate; try reflexivity.
  destruct (N.ltb_spec x y), (N.ltb_spec y x), (N.ltb_spec y z), (N.ltb_spec z y), (N.ltb_spec x z), (N.ltb_spec z x);
    try discriminate; try reflexivity; try lia; intros; eauto.
Qed.

Lemma bytes_ltb_total a b : bytes_ltb a b = false -> bytes_ltb b a = false -> a = b.
Proof.
  revert b. induction a as [|x a IH]; intros [|y b]; cbn; try discriminate; try reflexivity.
  destruct (N.ltb_spec x y), (N.ltb_spec y x); try discriminate; try lia.
  intros H1 H2. assert (x = y) by lia. subst. f_equal. apply IH; assumption.
Qed.

Lemma bytes_ltb_asym a b : bytes_ltb a b = true -> bytes_ltb b a = false.
Proof.
  intro H. destruct (bytes_ltb b a) eqn:E; [|reflexivity].
  pose proof (bytes_ltb_trans _ _ _ H E) as C. rewrite bytes_ltb_irrefl in C. discriminate.
Qed.

Lemma bytes_eqb_refl a : bytes_eqb a a = true.
Proof. apply bytes_eqb_eq. reflexivity. Qed.

(** * Sorting entries by key image *)
Section Sort.
  Context {V : Type}.
  Definition img (e : prim * V) : bytes := prim_bytes (fst e).
  Definition lt_img (a b : prim * V) : Prop := bytes_ltb (img a) (img b) = true.

  Lemma ins_entry_in (e : prim * V) l x : In x (ins_entry e l) <-> x = e \/ In x l.
  Proof.
    induction l as [|e' r IH]; cbn; [intuition|].
    destruct (bytes_ltb _ _); cbn; rewrite ?IH; intuition.
  Qed.

  Lemma sort_entries_cons (e : prim * V) r : sort_entries (e :: r) = ins_entry e (sort_entries r).
  Proof. reflexivity. Qed.

  Lemma sort_entries_in (l : list (prim * V)) x : In x (sort_entries l) <-> In x l.
  Proof.
    induction l as [|e r IH]; [reflexivity|]. rewrite sort_entries_cons, ins_entry_in, IH. cbn. intuition.
  Qed.

  Lemma ins_entry_length e (l : list (prim * V)) : length (ins_entry e l) = S (length l).
  Proof. induction l as [|e' r IH]; cbn; [reflexivity|]. destruct (bytes_ltb _ _); cbn; [rewrite IH|]; reflexivity. Qed.

  Lemma sort_entries_length (l : list (prim * V)) : length (sort_entries l) = length l.
  Proof. induction l as [|e r IH]; [reflexivity|]. rewrite sort_entries_cons, ins_entry_length, IH. reflexivity. Qed.

  Lemma ins_entry_perm e (l : list (prim * V)) : Permutation (e :: l) (ins_entry e l).
  Proof.
    induction l as [|e' r IH]; cbn; [reflexivity|].
    destruct (bytes_ltb _ _); [|reflexivity].
    rewrite perm_swap. apply perm_skip. exact IH.
  Qed.

  Lemma sort_entries_perm (l : list (prim * V)) : Permutation l (sort_entries l).
  Proof.
    induction l as [|e r IH]; [reflexivity|]. rewrite sort_entries_cons.
    rewrite <- ins_entry_perm. apply perm_skip. exact IH.
  Qed.

  Lemma ins_entry_sorted e (l : list (prim * V)) :
    StronglySorted lt_img l -> (forall x, In x l -> img x <> img e) -> StronglySorted lt_img (ins_entry e l).
  Proof.
    induction l as [|e' r IH]; intros Hs Hd; cbn.
    - constructor; [constructor|constructor].
    - inversion Hs as [|? ? Hr Hall]; subst.
      destruct (bytes_ltb (prim_bytes (fst e')) (prim_bytes (fst e))) eqn:E.
      + constructor.
        * apply IH; [exact Hr|]. intros x Hx. apply Hd. right. exact Hx.
        * apply Forall_forall. intros x Hx. apply ins_entry_in in Hx. destruct Hx as [->|Hx]; [exact E|].
          rewrite Forall_forall in Hall. apply Hall. exact Hx.
      + assert (Hlt : lt_img e e').
        { unfold lt_img, img. destruct (bytes_ltb (prim_bytes (fst e)) (prim_bytes (fst e'))) eqn:E2; [reflexivity|].
          exfalso. apply (Hd e'); [left; reflexivity|]. unfold img. apply bytes_ltb_total; assumption. }
        constructor; [exact Hs|]. constructor; [exact Hlt|].
        rewrite Forall_forall in Hall |- *. intros x Hx. specialize (Hall x Hx).
        unfold lt_img in *. eapply bytes_ltb_trans; eassumption.
  Qed.

  Lemma sort_entries_sorted (l : list (prim * V)) :
    NoDup (map img l) -> StronglySorted lt_img (sort_entries l).
  Proof.
    induction l as [|e r IH]; intro Hn; [constructor|]. rewrite sort_entries_cons. cbn [map] in Hn.
    inversion Hn as [|? ? Hni Hnr]; subst.
    apply ins_entry_sorted; [apply IH; exact Hnr|].
    intros x Hx E. rewrite sort_entries_in in Hx. apply Hni. rewrite <- E. apply in_map. exact Hx.
  Qed.

  (** sorting a strictly sorted list changes nothing *)
  Lemma sort_entries_id (l : list (prim * V)) : StronglySorted lt_img l -> sort_entries l = l.
  Proof.
    induction l as [|e r IH]; intro Hs; [reflexivity|]. rewrite sort_entries_cons.
    inversion Hs as [|? ? Hr Hall]; subst. rewrite IH by exact Hr.
    destruct r as [|e' r']; cbn; [reflexivity|].
    inversion Hall as [|? ? Hlt _]; subst. unfold lt_img, img in Hlt.
    rewrite (bytes_ltb_asym _ _ Hlt). reflexivity.
  Qed.
End Sort.

(** sorting commutes with any map that preserves key images *)
Lemma ins_entry_map {V W : Type} (g : prim * V -> prim * W) e l :
  (forall x, prim_bytes (fst (g x)) = prim_bytes (fst x)) ->
  ins_entry (g e) (map g l) = map g (ins_entry e l).
Proof.
  intro Hg. induction l as [|e' r IH]; cbn; [reflexivity|].
  rewrite !Hg. destruct (bytes_ltb _ _); cbn; [rewrite IH|]; reflexivity.
Qed.

Lemma sort_entries_map {V W : Type} (g : prim * V -> prim * W) l :
  (forall x, prim_bytes (fst (g x)) = prim_bytes (fst x)) ->
  sort_entries (map g l) = map g (sort_entries l).
Proof.
  intro Hg. induction l as [|e r IH]; [reflexivity|]. cbn [map]. rewrite !sort_entries_cons.
  rewrite IH. apply ins_entry_map. exact Hg.
Qed.

(** * Induction on trees *)
Section TvalInd.
  Variable P : tval -> Prop.
  Hypothesis Hprim : forall p, P (TPrim p).
  Hypothesis Harr : forall l, Forall P l -> P (TArr l).
  Hypothesis Hstruct : forall l, Forall P l -> P (TStruct l).
  Hypothesis Hmap : forall m, Forall (fun e => P (snd e)) m -> P (TMap m).
  Hypothesis Hinterop : P TInterop.

  Fixpoint tval_ind' (t : tval) : P t :=
    match t with
    | TPrim p => Hprim p
    | TArr l => Harr l ((fix go (l : list tval) : Forall P l :=
                           match l with [] => Forall_nil _ | x :: r => Forall_cons _ (tval_ind' x) (go r) end) l)
    | TStruct l => Hstruct l ((fix go (l : list tval) : Forall P l :=
                           match l with [] => Forall_nil _ | x :: r => Forall_cons _ (tval_ind' x) (go r) end) l)
    | TMap m => Hmap m ((fix go (m : list (prim * tval)) : Forall (fun e => P (snd e)) m :=
                           match m with [] => Forall_nil _ | x :: r => Forall_cons _ (tval_ind' (snd x)) (go r) end) m)
    | TInterop => Hinterop
    end.
End TvalInd.

(** * Images *)
Lemma is_int64_spec z : is_int64 z = true <-> (int64_min <= z <= int64_max)%Z.
Proof. unfold is_int64. rewrite andb_true_iff, !Z.leb_le. reflexivity. Qed.

Lemma norm_prim_bytes p : prim_bytes (norm_prim p) = prim_bytes p.
Proof. destruct p; cbn; try reflexivity; unfold int_prim; destruct (is_int64 z); reflexivity. Qed.

Lemma norm_prim_idem p : norm_prim (norm_prim p) = norm_prim p.
Proof. destruct p; cbn; try reflexivity; unfold int_prim; destruct (is_int64 z) eqn:E; cbn; unfold int_prim; rewrite E; reflexivity. Qed.

Lemma enc_prim_norm p : enc_prim (norm_prim p) = enc_prim p.
Proof. destruct p; cbn; try reflexivity; unfold int_prim; destruct (is_int64 z); reflexivity. Qed.
