(** C14: the codec half — Serialize writes the encoding [enc] of the unfolding; Deserialize reads
    [enc t] back as [norm t]; Deserialize is total (its fuel never runs out). *)
From Coq Require Import List Bool Arith NArith ZArith Lia ZifyN ZifyNat ZifyBool Sorted Permutation.
Import ListNotations.
From Ont Require Import Lib.Bytes Model.NeoInt Gen.VmValueConsts Model.VmValue Proofs.NeoInt Proofs.VmValueLib.
Local Open Scope N_scope.

(** * Serialize produces [enc] of the unfolding *)
Lemma guarded_ok h v body : r_ok (guarded h v body) = if fst (detect_top h v) then r_ok body else None.
Proof.
  unfold guarded. rewrite r_ok_alt. destruct (snd (detect_top h v)), (fst (detect_top h v)); reflexivity.
Qed.

Lemma check_size_ok base s s' : r_ok (check_size base s) = Some s' -> s' = s /\ base + N.of_nat (length s) <= max_ser_size.
Proof.
  unfold check_size. destruct (N.ltb_spec max_ser_size (base + N.of_nat (length s))); cbn; [discriminate|].
  intro E. injection E as <-. split; [reflexivity|assumption].
Qed.

Lemma map_opt_length {A B} (g : A -> option B) l r : map_opt g l = Some r -> length r = length l.
Proof.
  revert r. induction l as [|x l IH]; cbn; intros r E; [injection E as <-; reflexivity|].
  destruct (g x); [|discriminate]. destruct (map_opt g l); [|discriminate]. injection E as <-. cbn. f_equal. apply IH. reflexivity.
Qed.

Section SerSpec.
  Variables (h : heap) (f : nat) (rec : hval -> bytes -> rs).
  Hypothesis Hrec : forall x s s', r_ok (rec x s) = Some s' -> exists t, unfold h f x = Some t /\ s' = s ++ enc t.

  Lemma ser_list_ok l : forall s s', r_ok (ser_list rec l s) = Some s' ->
    exists ts, map_opt (unfold h f) l = Some ts /\ s' = s ++ flat_map enc ts.
  Proof.
    induction l as [|x l IH]; cbn [ser_list]; intros s s' E.
    - cbn in E. injection E as <-. exists []. split; [reflexivity|]. cbn. rewrite app_nil_r. reflexivity.
    - rewrite r_ok_bind in E. destruct (r_ok (rec x s)) as [s1|] eqn:E1; [|discriminate].
      destruct (Hrec _ _ _ E1) as [t [Ht ->]].
      destruct (IH _ _ E) as [ts [Hts ->]].
      exists (t :: ts). cbn [map_opt flat_map]. rewrite Ht, Hts. split; [reflexivity|]. rewrite <- !app_assoc. reflexivity.
  Qed.

  Definition uentry (e : prim * hval) : option (prim * tval) := option_map (fun t => (fst e, t)) (unfold h f (snd e)).
  Definition enc_entry (e : prim * tval) : bytes := enc_prim (fst e) ++ enc (snd e).

  Lemma ser_entries_ok l : forall s s', r_ok (ser_entries rec l s) = Some s' ->
    exists ts, map_opt uentry l = Some ts /\ s' = s ++ flat_map enc_entry ts.
  Proof.
    induction l as [|e l IH]; cbn [ser_entries]; intros s s' E.
    - cbn in E. injection E as <-. exists []. split; [reflexivity|]. cbn. rewrite app_nil_r. reflexivity.
    - rewrite r_ok_bind in E. destruct (r_ok (rec (HPrim (fst e)) s)) as [s1|] eqn:E1; [|discriminate].
      destruct (Hrec _ _ _ E1) as [tk [Htk ->]].
      assert (tk = TPrim (fst e)) as -> by (destruct f; cbn in Htk; congruence).
      rewrite r_ok_bind in E. destruct (r_ok (rec (snd e) (s ++ enc (TPrim (fst e))))) as [s2|] eqn:E2; [|discriminate].
      destruct (Hrec _ _ _ E2) as [t [Ht ->]].
      destruct (IH _ _ E) as [ts [Hts ->]].
      exists ((fst e, t) :: ts). cbn [map_opt flat_map]. unfold uentry at 1. rewrite Ht. cbn [option_map]. rewrite Hts.
      split; [reflexivity|]. unfold enc_entry at 2. cbn [fst snd enc]. rewrite <- !app_assoc. reflexivity.
  Qed.
End SerSpec.

Lemma uentry_fst h f e y : uentry h f e = Some y -> fst y = fst e.
Proof. unfold uentry. destruct (unfold h f (snd e)); cbn; [|discriminate]. intro E. injection E as <-. reflexivity. Qed.

Lemma map_opt_ins h f e l r : map_opt (uentry h f) (ins_entry e l) = Some r ->
  exists y l', uentry h f e = Some y /\ map_opt (uentry h f) l = Some l' /\ r = ins_entry y l'.
Proof.
  revert r. induction l as [|e' l IH]; cbn [ins_entry]; intros r E.
  - cbn in E. destruct (uentry h f e) as [y|]; [|discriminate]. injection E as <-. exists y, []. repeat split.
  - destruct (bytes_ltb (prim_bytes (fst e')) (prim_bytes (fst e))) eqn:C.
    + cbn [map_opt] in E. destruct (uentry h f e') as [y'|] eqn:E'; [|discriminate].
      destruct (map_opt (uentry h f) (ins_entry e l)) as [r0|] eqn:E0; [|discriminate]. injection E as <-.
      destruct (IH _ eq_refl) as [y [l' [Hy [Hl ->]]]].
      exists y, (y' :: l'). cbn [map_opt]. rewrite E', Hl. repeat split; [exact Hy|].
      cbn [ins_entry]. rewrite (uentry_fst _ _ _ _ E'), (uentry_fst _ _ _ _ Hy), C. reflexivity.
    + cbn [map_opt] in E. destruct (uentry h f e) as [y|] eqn:Ey; [|discriminate].
      destruct (uentry h f e') as [y'|] eqn:E'; [|discriminate].
      destruct (map_opt (uentry h f) l) as [l0|] eqn:El; [|discriminate]. injection E as <-.
      exists y, (y' :: l0). cbn [map_opt]. rewrite E', El. repeat split.
      cbn [ins_entry]. rewrite (uentry_fst _ _ _ _ E'), (uentry_fst _ _ _ _ Ey), C. reflexivity.
Qed.

Lemma map_opt_sort h f m r : map_opt (uentry h f) (sort_entries m) = Some r ->
  exists m', map_opt (uentry h f) m = Some m' /\ r = sort_entries m'.
Proof.
  revert r. induction m as [|e m IH]; intros r E.
  - cbn in E. injection E as <-. exists []. split; reflexivity.
  - rewrite sort_entries_cons in E. destruct (map_opt_ins _ _ _ _ _ E) as [y [l' [Hy [Hl ->]]]].
    destruct (IH _ Hl) as [m' [Hm ->]]. exists (y :: m'). cbn [map_opt]. rewrite Hy, Hm. split; reflexivity.
Qed.

Lemma flat_map_map {A B C} (g : A -> B) (k : B -> list C) l : flat_map k (map g l) = flat_map (fun x => k (g x)) l.
Proof. induction l as [|x l IH]; cbn; [reflexivity|]. rewrite IH. reflexivity. Qed.

(** [enc] of a map, with the sort pulled out *)
Lemma enc_map m : enc (TMap m) =
  T_MAP :: nv_write_varuint (N.of_nat (length m)) ++ flat_map enc_entry (sort_entries m).
Proof.
  cbn [enc]. f_equal. f_equal.
  rewrite (sort_entries_map (fun e : prim * tval => (fst e, enc (snd e)))) by reflexivity.
  rewrite flat_map_map. reflexivity.
Qed.

Lemma serialize_enc h base : forall f v s s', r_ok (h_serialize h base f v s) = Some s' ->
  exists t, unfold h f v = Some t /\ s' = s ++ enc t /\ base + N.of_nat (length s') <= max_ser_size.
Proof.
  induction f as [|f IH]; intros v s s' E; [discriminate|].
  assert (Hrec : forall x s s', r_ok (h_serialize h base f x s) = Some s' -> exists t, unfold h f x = Some t /\ s' = s ++ enc t).
  { intros x s0 s0' E0. destruct (IH _ _ _ E0) as [t [H1 [H2 _]]]. exists t. split; assumption. }
  cbn [h_serialize] in E. rewrite guarded_ok in E. destruct (fst (detect_top h v)); [|discriminate].
  destruct v as [p|a|a|a|]; cbn [ser_body] in E.
  - apply check_size_ok in E. destruct E as [-> Hsz]. exists (TPrim p). repeat split; assumption.
  - rewrite r_ok_bind in E. destruct (r_ok (ser_list _ _ _)) as [s1|] eqn:E1; [|discriminate].
    apply check_size_ok in E. destruct E as [-> Hsz].
    destruct (ser_list_ok h f _ Hrec _ _ _ E1) as [ts [Hts ->]].
    exists (TArr ts). cbn [unfold]. rewrite Hts. cbn [option_map]. repeat split; [|exact Hsz].
    cbn [enc]. rewrite (map_opt_length _ _ _ Hts). rewrite <- app_assoc. reflexivity.
  - rewrite r_ok_bind in E. destruct (r_ok (ser_list _ _ _)) as [s1|] eqn:E1; [|discriminate].
    apply check_size_ok in E. destruct E as [-> Hsz].
    destruct (ser_list_ok h f _ Hrec _ _ _ E1) as [ts [Hts ->]].
    exists (TStruct ts). cbn [unfold]. rewrite Hts. cbn [option_map]. repeat split; [|exact Hsz].
    cbn [enc]. rewrite (map_opt_length _ _ _ Hts). rewrite <- app_assoc. reflexivity.
  - rewrite r_ok_bind in E. destruct (r_ok (ser_entries _ _ _)) as [s1|] eqn:E1; [|discriminate].
    apply check_size_ok in E. destruct E as [-> Hsz].
    destruct (ser_entries_ok h f _ Hrec _ _ _ E1) as [ts [Hts ->]].
    destruct (map_opt_sort _ _ _ _ Hts) as [m' [Hm ->]].
    exists (TMap m'). cbn [unfold]. fold (uentry h f). rewrite Hm. cbn [option_map]. repeat split; [|exact Hsz].
    rewrite enc_map. rewrite (map_opt_length _ _ _ Hm). rewrite <- app_assoc. reflexivity.
  - discriminate.
Qed.

(** * Deserialize reads [enc t] back as [norm t] *)
Lemma distinctb_NoDup l : distinctb l = true -> NoDup l.
Proof.
  induction l as [|x l IH]; cbn; intro H; [constructor|].
  apply andb_prop in H. destruct H as [H1 H2]. constructor; [|apply IH; exact H2].
  intro Hin. apply negb_true_iff in H1. assert (existsb (bytes_eqb x) l = true); [|congruence].
  apply existsb_exists. exists x. split; [exact Hin|apply bytes_eqb_refl].
Qed.

Lemma enc_prim_length p : (2 <= length (enc_prim p))%nat.
Proof.
  destruct p; cbn [enc_prim length]; try lia; unfold nv_write_varbytes, nv_write_varuint;
  repeat match goal with |- context [if ?c then _ else _] => destruct c end; cbn [length app]; lia.
Qed.

Lemma enc_length t : t <> TInterop -> (1 <= length (enc t))%nat.
Proof.
  destruct t; intro H; try congruence.
  - pose proof (enc_prim_length p). cbn [enc]. lia.
  - cbn [enc length]. lia.
  - cbn [enc length]. lia.
  - cbn [enc length]. lia.
Qed.

Lemma within_not_interop t : within_limits t = true -> t <> TInterop.
Proof. intros H E. subst. discriminate. Qed.

Lemma flat_map_length_in {A} (g : A -> bytes) l x : In x l -> (length (g x) <= length (flat_map g l))%nat.
Proof.
  induction l as [|y l IH]; cbn; [tauto|]. rewrite app_length. intros [->|H]; [lia|]. specialize (IH H). lia.
Qed.

Lemma flat_map_length_ge {A} (g : A -> bytes) l : (forall x, In x l -> (1 <= length (g x))%nat) ->
  (length l <= length (flat_map g l))%nat.
Proof.
  induction l as [|y l IH]; cbn; intro H; [lia|]. rewrite app_length.
  pose proof (H y (or_introl eq_refl)). assert (length l <= length (flat_map g l))%nat by (apply IH; intros; apply H; right; assumption). lia.
Qed.

Lemma lmax_le {A} (g : A -> nat) l n : (forall x, In x l -> (g x <= n)%nat) -> (VmValue.list_max (map g l) <= n)%nat.
Proof. induction l as [|y l IH]; cbn; intro H; [lia|]. pose proof (H y (or_introl eq_refl)). unfold VmValue.list_max in IH. specialize (IH (fun x Hx => H x (or_intror Hx))). lia. Qed.

Lemma list_max_in {A} (g : A -> nat) l x : In x l -> (g x <= list_max (map g l))%nat.
Proof.
  induction l as [|y l IH]; cbn; [tauto|]. intros [->|H]; [lia|]. specialize (IH H). unfold list_max in IH. lia.
Qed.

(** tag tests, by computation on the regenerated tags *)
Ltac tagtests :=
  repeat first
    [ progress change (T_BOOL =? T_BOOL) with true
    | progress change (T_BYTEARRAY =? T_BOOL) with false
    | progress change (T_BYTEARRAY =? T_BYTEARRAY) with true
    | progress change (T_INTEGER =? T_BOOL) with false
    | progress change (T_INTEGER =? T_BYTEARRAY) with false
    | progress change (T_INTEGER =? T_INTEGER) with true
    | progress change (T_ARRAY =? T_BOOL) with false
    | progress change (T_ARRAY =? T_BYTEARRAY) with false
    | progress change (T_ARRAY =? T_INTEGER) with false
    | progress change (T_ARRAY =? T_ARRAY) with true
    | progress change (T_MAP =? T_BOOL) with false
    | progress change (T_MAP =? T_BYTEARRAY) with false
    | progress change (T_MAP =? T_INTEGER) with false
    | progress change (T_MAP =? T_ARRAY) with false
    | progress change (T_MAP =? T_MAP) with true
    | progress change (T_STRUCT =? T_BOOL) with false
    | progress change (T_STRUCT =? T_BYTEARRAY) with false
    | progress change (T_STRUCT =? T_INTEGER) with false
    | progress change (T_STRUCT =? T_ARRAY) with false
    | progress change (T_STRUCT =? T_MAP) with false
    | progress change (T_STRUCT =? T_STRUCT) with true ].

Lemma deser_unfold f d t r :
  deser (S f) d (t :: r) =
    if (max_count <? d)%nat then DErr DDepth else
      if t =? T_BOOL then
        match r with
        | [] => DErr DEof
        | x :: r' => if x =? 0 then DOk (TPrim (PBool false), r')
                     else if x =? 1 then DOk (TPrim (PBool true), r') else DErr DIrregular
        end
      else if t =? T_BYTEARRAY then
        let '(data, irr, eof, r') := nv_next_varbytes r in
        if eof then DErr DEof else if irr then DErr DIrregular
        else if max_item_size <? N.of_nat (length data) then DErr DItemSize
        else DOk (TPrim (PBytes data), r')
      else if t =? T_INTEGER then
        let '(data, irr, eof, r') := nv_next_varbytes r in
        if eof then DErr DEof else if irr then DErr DIrregular
        else let z := Z_of_neo data in
          if (max_int_size <? byte_len (Z.abs_N z))%nat then DErr DIntSize
          else DOk (TPrim (int_prim z), r')
      else if t =? T_ARRAY then
        match nv_next_varuint r with
        | None => DErr DEof
        | Some (l, irr, r') =>
          if irr then DErr DIrregular else
          match deser_items f max_array_size (S d) (loop_count l) [] r' with
          | DOk (items, r'') => DOk (TArr items, r'')
          | DErr e => DErr e
          | DOof => DOof
          end
        end
      else if t =? T_MAP then
        match nv_next_varuint r with
        | None => DErr DEof
        | Some (l, irr, r') =>
          if irr then DErr DIrregular else
          match deser_entries f (S d) (loop_count l) [] r' with
          | DOk (m, r'') => DOk (TMap m, r'')
          | DErr e => DErr e
          | DOof => DOof
          end
        end
      else if t =? T_STRUCT then
        match nv_next_varuint r with
        | None => DErr DEof
        | Some (l, irr, r') =>
          if irr then DErr DIrregular else
          match deser_items f max_struct_size (S d) (loop_count l) [] r' with
          | DOk (items, r'') => DOk (TStruct items, r'')
          | DErr e => DErr e
          | DOof => DOof
          end
        end
      else DErr DBadType.
Proof. reflexivity. Qed.

Lemma deser_items_unfold f limit d n acc b :
  deser_items f limit d n acc b =
  if n =? 0 then DOk (rev acc, b) else
  match f with
  | O => DOof
  | S f' =>
    match deser f' d b with
    | DOk (v, r) =>
      if (limit <=? length acc)%nat then DErr DArraySize
      else deser_items f' limit d (n - 1) (v :: acc) r
    | DErr e => DErr e
    | DOof => DOof
    end
  end.
Proof. destruct f; reflexivity. Qed.

Lemma deser_entries_unfold f d n m b :
  deser_entries f d n m b =
  if n =? 0 then DOk (m, b) else
  match f with
  | O => DOof
  | S f' =>
    match deser f' d b with
    | DOk (k, r) =>
      match deser f' d r with
      | DOk (v, r2) =>
        match k with
        | TPrim p => deser_entries f' d (n - 1) (map_set p v m) r2
        | _ => DErr DBadType
        end
      | DErr e => DErr e
      | DOof => DOof
      end
    | DErr e => DErr e
    | DOof => DOof
    end
  end.
Proof. destruct f; reflexivity. Qed.

Lemma deser_prim p f d rest : prim_ok p = true -> (d <= max_count)%nat ->
  N.of_nat (length (enc_prim p)) <= max_ser_size ->
  deser (S f) d (enc_prim p ++ rest) = DOk (TPrim (norm_prim p), rest).
Proof.
  intros Hok Hd Hsz.
  assert (Hdd : (max_count <? d)%nat = false) by (apply Nat.ltb_ge; exact Hd).
  pose proof max_ser_size_lt_two63 as B1. pose proof two63_lt_two64 as B2. pose proof max_ser_size_le_item as B3.
  destruct p as [b|b|z|z]; cbn [enc_prim app] in *.
  - rewrite deser_unfold, Hdd. tagtests. cbn [length] in Hsz. unfold nv_write_varbytes in Hsz. rewrite app_length in Hsz.
    rewrite nv_next_write_varbytes by lia.
    destruct (N.ltb_spec max_item_size (N.of_nat (length b))); [lia|]. reflexivity.
  - rewrite deser_unfold, Hdd. tagtests. destruct b; reflexivity.
  - rewrite deser_unfold, Hdd. tagtests. cbn [length] in Hsz. unfold nv_write_varbytes in Hsz. rewrite app_length in Hsz.
    rewrite nv_next_write_varbytes by lia. cbv zeta. rewrite neo_roundtrip.
    cbn [prim_ok] in Hok. apply Nat.leb_le in Hok.
    destruct (Nat.ltb_spec max_int_size (byte_len (Z.abs_N z))); [lia|]. reflexivity.
  - rewrite deser_unfold, Hdd. tagtests. cbn [length] in Hsz. unfold nv_write_varbytes in Hsz. rewrite app_length in Hsz.
    rewrite nv_next_write_varbytes by lia. cbv zeta. rewrite neo_roundtrip.
    cbn [prim_ok] in Hok. apply Nat.leb_le in Hok.
    destruct (Nat.ltb_spec max_int_size (byte_len (Z.abs_N z))); [lia|]. reflexivity.
Qed.

(** what the round-trip induction carries for one tree *)
Definition reads_back (t : tval) : Prop :=
  within_limits t = true -> forall d f rest, (d + tdepth t <= max_count)%nat ->
  N.of_nat (length (enc t)) <= max_ser_size -> (2 * length (enc t) + 1 <= f)%nat ->
  deser f d (enc t ++ rest) = DOk (norm t, rest).

Lemma deser_items_enc limit d rest (l : list tval) :
  Forall reads_back l -> forallb within_limits l = true ->
  (forall x, In x l -> (d + tdepth x <= max_count)%nat) ->
  N.of_nat (length (flat_map enc l)) <= max_ser_size ->
  forall acc f, (length acc + length l <= limit)%nat -> (2 * length (flat_map enc l) + 2 <= f)%nat ->
  deser_items f limit d (N.of_nat (length l)) acc (flat_map enc l ++ rest) = DOk (rev acc ++ map norm l, rest).
Proof.
  induction l as [|x l IH]; intros HP Hw Hd Hsz acc f Hlen Hf.
  - rewrite deser_items_unfold. cbn. rewrite app_nil_r. reflexivity.
  - inversion HP as [|? ? Hx HPl]; subst. cbn [forallb] in Hw. apply andb_prop in Hw. destruct Hw as [Hwx Hwl].
    cbn [flat_map] in *. rewrite app_length in Hsz, Hf.
    pose proof (enc_length x (within_not_interop _ Hwx)) as Hne.
    rewrite deser_items_unfold.
    destruct (N.eqb_spec (N.of_nat (length (x :: l))) 0) as [E|_]; [cbn [length] in E; lia|].
    destruct f as [|f']; [lia|].
    rewrite <- app_assoc.
    rewrite (Hx Hwx (d) f' (flat_map enc l ++ rest)); [|apply Hd; left; reflexivity|lia|lia].
    cbn [length] in Hlen.
    destruct (Nat.leb_spec limit (length acc)); [lia|].
    replace (N.of_nat (length (x :: l)) - 1) with (N.of_nat (length l)) by (cbn [length]; lia).
    rewrite IH; [|exact HPl|exact Hwl|intros y Hy; apply Hd; right; exact Hy|lia|cbn [length]; lia|lia].
    cbn [rev map]. rewrite <- app_assoc. reflexivity.
Qed.

Definition nentry (e : prim * tval) : prim * tval := (norm_prim (fst e), norm (snd e)).

Lemma map_set_append k v m : (forall x, In x m -> bytes_ltb (prim_bytes (fst x)) (prim_bytes k) = true) ->
  map_set k v m = m ++ [(k, v)].
Proof.
  induction m as [|[k' v'] m IH]; intro H; [reflexivity|].
  cbn [map_set app]. pose proof (H (k', v') (or_introl eq_refl)) as Hlt. cbn [fst] in Hlt.
  destruct (bytes_eqb (prim_bytes k) (prim_bytes k')) eqn:E.
  - apply bytes_eqb_eq in E. rewrite E, bytes_ltb_irrefl in Hlt. discriminate.
  - rewrite (bytes_ltb_asym _ _ Hlt). f_equal. apply IH. intros x Hx. apply H. right. exact Hx.
Qed.

Lemma deser_entries_enc d rest (es : list (prim * tval)) :
  Forall (fun e => reads_back (snd e)) es ->
  forallb (fun e : prim * tval => prim_ok (fst e) && within_limits (snd e)) es = true ->
  (forall e, In e es -> (d + tdepth (snd e) <= max_count)%nat) ->
  (d <= max_count)%nat ->
  N.of_nat (length (flat_map enc_entry es)) <= max_ser_size ->
  StronglySorted lt_img es ->
  forall m f, (forall x e, In x m -> In e es -> bytes_ltb (prim_bytes (fst x)) (prim_bytes (fst e)) = true) ->
  (2 * length (flat_map enc_entry es) + 2 <= f)%nat ->
  deser_entries f d (N.of_nat (length es)) m (flat_map enc_entry es ++ rest) = DOk (m ++ map nentry es, rest).
Proof.
  induction es as [|e es IH]; intros HP Hw Hd Hd0 Hsz Hs m f Hm Hf.
  - rewrite deser_entries_unfold. cbn. rewrite app_nil_r. reflexivity.
  - inversion HP as [|? ? He HPl]; subst. cbn [forallb] in Hw. apply andb_prop in Hw. destruct Hw as [Hwe Hwl].
    apply andb_prop in Hwe. destruct Hwe as [Hk Hv].
    inversion Hs as [|? ? Hsl Hall]; subst.
    cbn [flat_map] in *. unfold enc_entry at 1 in Hsz. unfold enc_entry at 1 in Hf. unfold enc_entry at 1.
    rewrite !app_length in Hsz, Hf.
    pose proof (enc_prim_length (fst e)) as Hkl.
    rewrite deser_entries_unfold.
    destruct (N.eqb_spec (N.of_nat (length (e :: es))) 0) as [E|_]; [cbn [length] in E; lia|].
    destruct f as [|f']; [lia|]. destruct f' as [|f'']; [lia|].
    rewrite <- !app_assoc.
    rewrite deser_prim; [|exact Hk|exact Hd0|lia].
    rewrite (He Hv d (S f'') (flat_map enc_entry es ++ rest)); [|apply Hd; left; reflexivity|lia|lia].
    replace (N.of_nat (length (e :: es)) - 1) with (N.of_nat (length es)) by (cbn [length]; lia).
    rewrite map_set_append.
    2:{ intros x Hx. rewrite norm_prim_bytes. apply Hm; [exact Hx|left; reflexivity]. }
    rewrite IH; [|exact HPl|exact Hwl|intros y Hy; apply Hd; right; exact Hy|exact Hd0|lia|exact Hsl| |lia].
    + cbn [map]. rewrite <- app_assoc. reflexivity.
    + intros x y Hx Hy. apply in_app_or in Hx. destruct Hx as [Hx|[<-|[]]].
      * apply Hm; [exact Hx|right; exact Hy].
      * cbn [fst]. rewrite norm_prim_bytes. rewrite Forall_forall in Hall. apply (Hall y Hy).
Qed.

Lemma forallb_In {A} (p : A -> bool) l x : forallb p l = true -> In x l -> p x = true.
Proof. intros H Hx. rewrite forallb_forall in H. apply H. exact Hx. Qed.

Lemma nv_write_varuint_length v : (1 <= length (nv_write_varuint v))%nat.
Proof. unfold nv_write_varuint. repeat match goal with |- context [if ?c then _ else _] => destruct c end; cbn [length]; lia. Qed.

Lemma deser_enc : forall t, reads_back t.
Proof.
  pose proof max_ser_size_lt_two63 as B1. pose proof two63_lt_two64 as B2.
  induction t as [p|l IH|l IH|m IH|] using tval_ind'; unfold reads_back; intros Hw d f rest Hd Hsz Hf.
  - (* primitive *)
    destruct f as [|f]; [lia|]. cbn [enc norm tdepth] in *. apply deser_prim; [exact Hw|lia|exact Hsz].
  - (* array *)
    cbn [within_limits] in Hw. apply andb_prop in Hw. destruct Hw as [Hlen Hwl]. apply Nat.leb_le in Hlen.
    cbn [enc tdepth norm] in *. cbn [length] in Hsz, Hf. rewrite app_length in Hsz, Hf.
    destruct f as [|f]; [lia|]. cbn [app]. rewrite deser_unfold.
    assert (Hdd : (max_count <? d)%nat = false) by (apply Nat.ltb_ge; lia). rewrite Hdd. tagtests.
    rewrite <- app_assoc. pose proof (proj1 max_array_size_lt_two63) as B3.
    rewrite nv_next_write_varuint by lia.
    unfold loop_count. destruct (N.ltb_spec (N.of_nat (length l)) two63); [|lia].
    rewrite (deser_items_enc max_array_size (S d) rest l IH Hwl); [reflexivity| |lia|cbn [length]; lia|lia].
    intros x Hx. pose proof (list_max_in tdepth l x Hx). lia.
  - (* struct *)
    cbn [within_limits] in Hw. apply andb_prop in Hw. destruct Hw as [Hlen Hwl]. apply Nat.leb_le in Hlen.
    cbn [enc tdepth norm] in *. cbn [length] in Hsz, Hf. rewrite app_length in Hsz, Hf.
    destruct f as [|f]; [lia|]. cbn [app]. rewrite deser_unfold.
    assert (Hdd : (max_count <? d)%nat = false) by (apply Nat.ltb_ge; lia). rewrite Hdd. tagtests.
    rewrite <- app_assoc. pose proof (proj2 max_array_size_lt_two63) as B3.
    rewrite nv_next_write_varuint by lia.
    unfold loop_count. destruct (N.ltb_spec (N.of_nat (length l)) two63); [|lia].
    rewrite (deser_items_enc max_struct_size (S d) rest l IH Hwl); [reflexivity| |lia|cbn [length]; lia|lia].
    intros x Hx. pose proof (list_max_in tdepth l x Hx). lia.
  - (* map *)
    cbn [within_limits] in Hw. apply andb_prop in Hw. destruct Hw as [Hdist Hwl].
    apply distinctb_NoDup in Hdist.
    rewrite enc_map in *. cbn [tdepth] in Hd. cbn [length] in Hsz, Hf. rewrite app_length in Hsz, Hf.
    assert (Hcnt : (length m <= length (flat_map enc_entry (sort_entries m)))%nat).
    { rewrite <- (sort_entries_length m) at 1. apply flat_map_length_ge. intros x _. unfold enc_entry. rewrite app_length.
      pose proof (enc_prim_length (fst x)). lia. }
    destruct f as [|f]; [lia|]. cbn [app]. rewrite deser_unfold.
    assert (Hdd : (max_count <? d)%nat = false) by (apply Nat.ltb_ge; lia). rewrite Hdd. tagtests.
    rewrite <- app_assoc.
    rewrite nv_next_write_varuint by lia.
    unfold loop_count. destruct (N.ltb_spec (N.of_nat (length m)) two63); [|lia].
    rewrite <- (sort_entries_length m).
    rewrite (deser_entries_enc (S d) rest (sort_entries m)).
    + cbn [app norm]. f_equal. f_equal. f_equal.
      symmetry. apply (sort_entries_map nentry). intro x. apply norm_prim_bytes.
    + apply Forall_forall. intros e He. rewrite sort_entries_in in He. rewrite Forall_forall in IH. apply IH. exact He.
    + apply forallb_forall. intros e He. rewrite sort_entries_in in He. apply (forallb_In _ _ _ Hwl He).
    + intros e He. rewrite sort_entries_in in He.
      pose proof (list_max_in (fun e : prim * tval => tdepth (snd e)) m e He). cbn beta in H0. lia.
    + lia.
    + lia.
    + apply sort_entries_sorted. exact Hdist.
    + intros x e [].
    + pose proof (nv_write_varuint_length (N.of_nat (length m))). lia.
  - discriminate.
Qed.

(** * Round trip through the heap-level serializer *)
Theorem deser_ser_heap h base f v bs :
  r_ok (h_serialize h base f v []) = Some bs ->
  exists t, unfold h f v = Some t /\ bs = enc t /\
    (within_limits t = true -> (tdepth t <= max_count)%nat -> deserialize bs = DOk (norm t, [])).
Proof.
  intro E. destruct (serialize_enc _ _ _ _ _ _ E) as [t [Hu [Hbs Hsz]]]. cbn [app] in Hbs.
  exists t. split; [exact Hu|]. split; [exact Hbs|].
  intros Hw Hd. unfold deserialize, deser_fuel. subst bs.
  rewrite <- (app_nil_r (enc t)) at 2.
  apply deser_enc; [exact Hw|lia|lia|lia].
Qed.

(** * Deserialize is total: the fuel [deserialize] supplies is never exhausted *)
Lemma nv_take_shorter n b x r : nv_take n b = Some (x, r) -> (length r <= length b)%nat /\ length b = (length x + length r)%nat.
Proof. intro E. apply nv_take_some in E. destruct E as [-> _]. rewrite app_length. lia. Qed.

Lemma nv_next_varuint_shorter b v irr r : nv_next_varuint b = Some (v, irr, r) -> (length r < length b)%nat.
Proof.
  destruct b as [|fb b]; [discriminate|]. cbn [nv_next_varuint length].
  destruct (fb =? 253); [|destruct (fb =? 254); [|destruct (fb =? 255)]].
  - destruct (nv_take (N.of_nat 2) b) as [[x r']|] eqn:E; [|discriminate]. intro H. injection H as _ _ <-.
    apply nv_take_shorter in E. lia.
  - destruct (nv_take (N.of_nat 4) b) as [[x r']|] eqn:E; [|discriminate]. intro H. injection H as _ _ <-.
    apply nv_take_shorter in E. lia.
  - destruct (nv_take (N.of_nat 8) b) as [[x r']|] eqn:E; [|discriminate]. intro H. injection H as _ _ <-.
    apply nv_take_shorter in E. lia.
  - intro H. injection H as _ _ <-. lia.
Qed.

Lemma nv_next_varbytes_shorter b d irr r : nv_next_varbytes b = (d, irr, false, r) -> (length r < length b)%nat.
Proof.
  unfold nv_next_varbytes. destruct (nv_next_varuint b) as [[[c i] r0]|] eqn:E; [|discriminate].
  apply nv_next_varuint_shorter in E.
  destruct (0 <? c).
  - destruct (nv_take c r0) as [[x r']|] eqn:Et; [|discriminate]. intro H. injection H as _ _ <-.
    apply nv_take_shorter in Et. lia.
  - intro H. injection H as _ _ <-. exact E.
Qed.

Lemma deser_nil f d : deser (S f) d [] = if (max_count <? d)%nat then DErr DDepth else DErr DEof.
Proof. reflexivity. Qed.

Lemma deser_consumes : forall f,
  (forall d b t r, deser f d b = DOk (t, r) -> (length r < length b)%nat) /\
  (forall limit d n acc b l r, deser_items f limit d n acc b = DOk (l, r) -> (length r <= length b)%nat) /\
  (forall d n m b m' r, deser_entries f d n m b = DOk (m', r) -> (length r <= length b)%nat).
Proof.
  induction f as [|f [IH1 [IH2 IH3]]].
  - repeat split.
    + discriminate.
    + intros limit d n acc b l r. rewrite deser_items_unfold. destruct (n =? 0); [|discriminate]. intro H. injection H as _ <-. lia.
    + intros d n m b m' r. rewrite deser_entries_unfold. destruct (n =? 0); [|discriminate]. intro H. injection H as _ <-. lia.
  - repeat split.
    + intros d b t r. destruct b as [|tag b]; [rewrite deser_nil; destruct (max_count <? d)%nat; discriminate|].
      rewrite deser_unfold. destruct (max_count <? d)%nat; [discriminate|].
      destruct (tag =? T_BOOL).
      { destruct b as [|x b]; [discriminate|]. destruct (x =? 0); [|destruct (x =? 1)]; intro H; try discriminate; injection H as _ <-; cbn [length]; lia. }
      destruct (tag =? T_BYTEARRAY).
      { destruct (nv_next_varbytes b) as [[[data irr] eof] r'] eqn:E. destruct eof; [discriminate|]. destruct irr; [discriminate|].
        destruct (max_item_size <? _); [discriminate|]. intro H. injection H as _ <-. apply nv_next_varbytes_shorter in E. cbn [length]. lia. }
      destruct (tag =? T_INTEGER).
      { destruct (nv_next_varbytes b) as [[[data irr] eof] r'] eqn:E. destruct eof; [discriminate|]. destruct irr; [discriminate|].
        cbv zeta. destruct (max_int_size <? _)%nat; [discriminate|]. intro H. injection H as _ <-. apply nv_next_varbytes_shorter in E. cbn [length]. lia. }
      destruct (tag =? T_ARRAY).
      { destruct (nv_next_varuint b) as [[[l irr] r']|] eqn:E; [|discriminate]. destruct irr; [discriminate|].
        destruct (deser_items f _ _ _ _ _) as [[items r'']| |] eqn:E2; try discriminate. intro H. injection H as _ <-.
        apply nv_next_varuint_shorter in E. apply IH2 in E2. cbn [length]. lia. }
      destruct (tag =? T_MAP).
      { destruct (nv_next_varuint b) as [[[l irr] r']|] eqn:E; [|discriminate]. destruct irr; [discriminate|].
        destruct (deser_entries f _ _ _ _) as [[items r'']| |] eqn:E2; try discriminate. intro H. injection H as _ <-.
        apply nv_next_varuint_shorter in E. apply IH3 in E2. cbn [length]. lia. }
      destruct (tag =? T_STRUCT).
      { destruct (nv_next_varuint b) as [[[l irr] r']|] eqn:E; [|discriminate]. destruct irr; [discriminate|].
        destruct (deser_items f _ _ _ _ _) as [[items r'']| |] eqn:E2; try discriminate. intro H. injection H as _ <-.
        apply nv_next_varuint_shorter in E. apply IH2 in E2. cbn [length]. lia. }
      discriminate.
    + intros limit d n acc b l r. rewrite deser_items_unfold. destruct (n =? 0); [intro H; injection H as _ <-; lia|].
      destruct (deser f d b) as [[v r0]| |] eqn:E; try discriminate. destruct (limit <=? length acc)%nat; [discriminate|].
      intro H. apply IH1 in E. apply IH2 in H. lia.
    + intros d n m b m' r. rewrite deser_entries_unfold. destruct (n =? 0); [intro H; injection H as _ <-; lia|].
      destruct (deser f d b) as [[k r0]| |] eqn:E; try discriminate.
      destruct (deser f d r0) as [[v r1]| |] eqn:E1; try discriminate.
      destruct k; try discriminate. intro H. apply IH1 in E. apply IH1 in E1. apply IH3 in H. lia.
Qed.

Lemma deser_fuel_enough : forall f,
  (forall d b, (2 * length b + 1 <= f)%nat -> deser f d b <> DOof) /\
  (forall limit d n acc b, (2 * length b + 2 <= f)%nat -> deser_items f limit d n acc b <> DOof) /\
  (forall d n m b, (2 * length b + 2 <= f)%nat -> deser_entries f d n m b <> DOof).
Proof.
  induction f as [|f [IH1 [IH2 IH3]]].
  - repeat split; intros; lia.
  - destruct (deser_consumes f) as [C1 [C2 C3]]. repeat split.
    + intros d b Hf. destruct b as [|tag b]; [rewrite deser_nil; destruct (max_count <? d)%nat; discriminate|].
      cbn [length] in Hf. rewrite deser_unfold. destruct (max_count <? d)%nat; [discriminate|].
      destruct (tag =? T_BOOL).
      { destruct b as [|x b]; [discriminate|]. destruct (x =? 0); [|destruct (x =? 1)]; discriminate. }
      destruct (tag =? T_BYTEARRAY).
      { destruct (nv_next_varbytes b) as [[[data irr] eof] r'] eqn:E. destruct eof; [discriminate|]. destruct irr; [discriminate|].
        destruct (max_item_size <? _); discriminate. }
      destruct (tag =? T_INTEGER).
      { destruct (nv_next_varbytes b) as [[[data irr] eof] r'] eqn:E. destruct eof; [discriminate|]. destruct irr; [discriminate|].
        cbv zeta. destruct (max_int_size <? _)%nat; discriminate. }
      destruct (tag =? T_ARRAY).
      { destruct (nv_next_varuint b) as [[[l irr] r']|] eqn:E; [|discriminate]. destruct irr; [discriminate|].
        apply nv_next_varuint_shorter in E.
        destruct (deser_items f _ _ _ _ _) as [[items r'']| |] eqn:E2; try discriminate. exfalso. revert E2. apply IH2. lia. }
      destruct (tag =? T_MAP).
      { destruct (nv_next_varuint b) as [[[l irr] r']|] eqn:E; [|discriminate]. destruct irr; [discriminate|].
        apply nv_next_varuint_shorter in E.
        destruct (deser_entries f _ _ _ _) as [[items r'']| |] eqn:E2; try discriminate. exfalso. revert E2. apply IH3. lia. }
      destruct (tag =? T_STRUCT).
      { destruct (nv_next_varuint b) as [[[l irr] r']|] eqn:E; [|discriminate]. destruct irr; [discriminate|].
        apply nv_next_varuint_shorter in E.
        destruct (deser_items f _ _ _ _ _) as [[items r'']| |] eqn:E2; try discriminate. exfalso. revert E2. apply IH2. lia. }
      discriminate.
    + intros limit d n acc b Hf. rewrite deser_items_unfold. destruct (n =? 0); [discriminate|].
      destruct (deser f d b) as [[v r0]| |] eqn:E; try discriminate.
      * destruct (limit <=? length acc)%nat; [discriminate|]. apply C1 in E. apply IH2. lia.
      * exfalso. revert E. apply IH1. lia.
    + intros d n m b Hf. rewrite deser_entries_unfold. destruct (n =? 0); [discriminate|].
      destruct (deser f d b) as [[k r0]| |] eqn:E; try discriminate.
      * pose proof (C1 _ _ _ _ E) as L1.
        destruct (deser f d r0) as [[v r1]| |] eqn:E1; try discriminate.
        -- pose proof (C1 _ _ _ _ E1) as L2. destruct k; try discriminate. apply IH3. lia.
        -- exfalso. revert E1. apply IH1. lia.
      * exfalso. revert E. apply IH1. lia.
Qed.

Theorem deser_total b : deserialize b <> DOof.
Proof. unfold deserialize, deser_fuel. apply (proj1 (deser_fuel_enough _)). lia. Qed.

(** what is accepted was read from within the input: the unread rest is a proper suffix length-wise *)
Theorem deser_in_bounds b t r : deserialize b = DOk (t, r) -> (length r < length b)%nat.
Proof. apply (proj1 (deser_consumes _)). Qed.
