(** C30, order part: the comparison used by GenesisChainConfig is a strict total order on peers
    with distinct keys; the stable insertion sort is sorted and a permutation; a sorted arrangement
    is unique, hence the sorted list does not depend on the input order. *)
From Coq Require Import List Bool NArith ZArith Lia ZifyN ZifyNat ZifyBool Permutation Sorted.
From Ont Require Import Lib.Bytes Model.ChainConfig.
Import ListNotations.
Local Open Scope N_scope.

(** * The order *)

Lemma lex_ltb_irrefl a : lex_ltb a a = false.
Proof. induction a as [|x a IH]; simpl; [reflexivity|]. rewrite IH. lia. Qed.

Lemma lex_ltb_trans a : forall b c, lex_ltb a b = true -> lex_ltb b c = true -> lex_ltb a c = true.
Proof.
  induction a as [|x a IH]; intros [|y b] [|z c]; simpl; try discriminate; try reflexivity.
  intros H1 H2.
  destruct (lex_ltb a b) eqn:E1; destruct (lex_ltb b c) eqn:E2;
    try (rewrite (IH b c E1 E2)); lia.
Qed.

Lemma lex_ltb_total a : forall b, a <> b -> lex_ltb a b = true \/ lex_ltb b a = true.
Proof.
  induction a as [|x a IH]; intros [|y b] Hne; simpl; auto; try congruence.
  destruct (N.eq_dec x y) as [->|Hxy].
  - assert (Hab : a <> b) by congruence.
    destruct (IH b Hab) as [H|H]; rewrite H; [left|right]; lia.
  - destruct (N.lt_ge_cases x y); [left|right]; lia.
Qed.

(** the sort key of a peer: [less a b] iff key b <lex key a *)
Definition okey (p : peer) : list N := p_stake p :: p_key p.

Lemma less_okey a b : less a b = lex_ltb (okey b) (okey a).
Proof.
  unfold less, okey, str_gtb. simpl.
  destruct (p_stake b <? p_stake a) eqn:E1; destruct (p_stake a =? p_stake b) eqn:E2;
    destruct (p_stake b =? p_stake a) eqn:E3; simpl; try reflexivity; lia.
Qed.

Lemma less_irrefl a : less a a = false.
Proof. rewrite less_okey. apply lex_ltb_irrefl. Qed.

Lemma less_trans a b c : less a b = true -> less b c = true -> less a c = true.
Proof. rewrite !less_okey. intros H1 H2. eapply lex_ltb_trans; eassumption. Qed.

Lemma less_asym a b : less a b = true -> less b a = false.
Proof.
  intro H. destruct (less b a) eqn:E; [|reflexivity].
  pose proof (less_trans _ _ _ H E) as F. rewrite less_irrefl in F. discriminate.
Qed.

Lemma less_total a b : okey a <> okey b -> less a b = true \/ less b a = true.
Proof. intro H. rewrite !less_okey. apply or_comm. apply lex_ltb_total. exact H. Qed.

(** "a is not after b": the relation the sorted list satisfies *)
Definition nafter (a b : peer) : Prop := less b a = false.

Lemma nafter_trans a b c : nafter a b -> nafter b c -> nafter a c.
Proof.
  unfold nafter. intros H1 H2. destruct (less c a) eqn:E; [|reflexivity].
  (* c < a. compare b with a and c *)
  destruct (list_eq_dec N.eq_dec (okey b) (okey a)) as [Hk|Hk].
  - rewrite less_okey in *. rewrite Hk in H2. congruence.
  - destruct (less_total b a Hk) as [F|F]; [congruence|].
    pose proof (less_trans _ _ _ E F). congruence.
Qed.

Lemma nafter_antisym a b : nafter a b -> nafter b a -> okey a = okey b.
Proof.
  unfold nafter. intros H1 H2.
  destruct (list_eq_dec N.eq_dec (okey a) (okey b)) as [Hk|Hk]; [exact Hk|].
  destruct (less_total a b Hk); congruence.
Qed.

(** * Insertion sort *)

Lemma insert_perm x l : Permutation (insert x l) (x :: l).
Proof.
  induction l as [|y r IH]; simpl; [reflexivity|].
  destruct (less y x); [|reflexivity].
  rewrite IH. apply perm_swap.
Qed.

Lemma sort_perm l : Permutation (sort_peers l) l.
Proof.
  induction l as [|x l IH]; simpl; [reflexivity|].
  rewrite insert_perm. now apply perm_skip.
Qed.

Lemma insert_sorted x l : StronglySorted nafter l -> StronglySorted nafter (insert x l).
Proof.
  induction l as [|y r IH]; intro Hs; simpl.
  - repeat constructor.
  - inversion Hs as [|? ? Hr Hy]; subst.
    destruct (less y x) eqn:E.
    + constructor; [apply IH; exact Hr|].
      apply Forall_forall. intros z Hz.
      apply (Permutation_in _ (insert_perm x r)) in Hz. destruct Hz as [<-|Hz].
      * unfold nafter. now apply less_asym.
      * rewrite Forall_forall in Hy. now apply Hy.
    + constructor; [exact Hs|].
      constructor; [exact E|].
      rewrite Forall_forall in *. intros z Hz. eapply nafter_trans; [exact E|now apply Hy].
Qed.

Lemma sort_sorted l : StronglySorted nafter (sort_peers l).
Proof.
  induction l as [|x l IH]; simpl; [constructor|]. now apply insert_sorted.
Qed.

(** * Uniqueness of the sorted arrangement *)

Lemma sorted_perm_unique (l1 : list peer) : forall l2,
  Permutation l1 l2 -> StronglySorted nafter l1 -> StronglySorted nafter l2 ->
  (forall a b, In a l1 -> In b l1 -> okey a = okey b -> a = b) -> l1 = l2.
Proof.
  induction l1 as [|a l1 IH]; intros l2 Hp S1 S2 Hinj.
  - apply Permutation_nil in Hp. now subst.
  - destruct l2 as [|b l2]; [apply Permutation_sym, Permutation_nil in Hp; discriminate|].
    inversion S1 as [|? ? S1' F1]; subst. inversion S2 as [|? ? S2' F2]; subst.
    rewrite Forall_forall in F1, F2.
    assert (Hab : a = b).
    { assert (Ia : In a (b :: l2)) by (eapply Permutation_in; [exact Hp|now left]).
      assert (Ib : In b (a :: l1)) by (eapply Permutation_in; [symmetry; exact Hp|now left]).
      destruct Ia as [->|Ia]; [reflexivity|]. destruct Ib as [->|Ib]; [reflexivity|].
      apply Hinj; [now left|now right|].
      apply nafter_antisym; [now apply F1|now apply F2]. }
    subst b. f_equal. apply IH; auto.
    + now apply Permutation_cons_inv in Hp.
    + intros x y Hx Hy. apply Hinj; now right.
Qed.

Definition distinct_keys (l : list peer) : Prop := NoDup (map p_key l).

Lemma distinct_keys_inj l : distinct_keys l ->
  forall a b, In a l -> In b l -> okey a = okey b -> a = b.
Proof.
  unfold distinct_keys. induction l as [|x l IH]; intros Hnd a b Ha Hb Hk; [contradiction|].
  simpl in Hnd. inversion Hnd as [|? ? Hni Hnd']; subst.
  assert (Hkey : p_key a = p_key b) by (unfold okey in Hk; congruence).
  destruct Ha as [<-|Ha]; destruct Hb as [<-|Hb]; auto.
  - exfalso. apply Hni. rewrite Hkey. now apply in_map.
  - exfalso. apply Hni. rewrite <- Hkey. now apply in_map.
Qed.

Theorem sort_perm_invariant l1 l2 :
  distinct_keys l1 -> Permutation l1 l2 -> sort_peers l1 = sort_peers l2.
Proof.
  intros Hd Hp. apply sorted_perm_unique.
  - rewrite sort_perm, Hp. symmetry. apply sort_perm.
  - apply sort_sorted.
  - apply sort_sorted.
  - intros a b Ha Hb. apply (distinct_keys_inj l1 Hd);
      eapply Permutation_in; try apply sort_perm; assumption.
Qed.
