(** C11 accounting invariants, continued: commitDpos (normalQuit, blackQuit, transitions). *)
From Coq Require Import List NArith Bool Lia.
Import ListNotations.
From Ont Require Import Lib.AList Gen.GovConsts Model.Gov Model.GovSpec Proofs.GovInv Proofs.GovAcct Proofs.GovAcct2 Proofs.GovAcct3.
Local Open Scope N_scope.

(** ** pointwise maps over the infos of one peer *)
Lemma in_le_W : forall key i infos, In (key, i) infos -> all6 i <= Winf (fun _ => true) infos.
Proof.
  intros key i infos. unfold Winf. induction infos as [|[k' i'] r IH]; cbn [asum In]; [tauto|].
  intros [E|E]; [inversion E; subst; cbn [bsel]; lia | specialize (IH E); lia].
Qed.

Lemma W_amap_peer : forall sel k f infos,
  (forall key i, In (key, i) infos -> fst key = k -> all6 (f key i) = all6 i) ->
  Winf sel (amap (on_peer k f) infos) = Winf sel infos.
Proof.
  intros sel k f infos H. unfold Winf. apply asum_amap_eq. intros key i Hin. unfold on_peer.
  destruct (N.eqb_spec (fst key) k) as [E|E]; [|reflexivity]. now rewrite H.
Qed.

Lemma A_amap_peer_same : forall k' k f infos,
  (forall key i, In (key, i) infos -> fst key = k -> act3 (f key i) = act3 i) ->
  Act k' (amap (on_peer k f) infos) = Act k' infos.
Proof.
  intros k' k f infos H. unfold Act. apply asum_amap_eq. intros key i Hin. unfold on_peer.
  destruct (N.eqb_spec (fst key) k) as [E|E]; [|reflexivity]. now rewrite H.
Qed.

Lemma A_amap_peer_zero : forall k' k f infos,
  (forall key i, act3 (f key i) = 0) ->
  Act k' (amap (on_peer k f) infos) = if k' =? k then 0 else Act k' infos.
Proof.
  intros k' k f infos H. unfold Act, amap. induction infos as [|[key i] r IH]; cbn [map asum fst snd].
  - destruct (k' =? k); reflexivity.
  - rewrite IH. unfold on_peer at 1. unfold bsel.
    destruct (N.eqb_spec (fst key) k) as [E|E]; destruct (N.eqb_spec (fst key) k') as [E'|E'];
      destruct (N.eqb_spec k' k) as [E2|E2]; try rewrite H; try lia; congruence.
Qed.

Lemma iget_amap : forall g p a infos,
  iget p a (amap g infos) =
  match aget pair_eqb (p, a) infos with Some v => g (p, a) v | None => zero_info end.
Proof.
  intros. unfold iget. rewrite (aget_amap pair_eqb pair_eqb_spec). destruct (aget pair_eqb (p, a) infos); reflexivity.
Qed.

Lemma aget_in_infos : forall key i (infos : list ((N * N) * infov)), aget pair_eqb key infos = Some i -> In (key, i) infos.
Proof. intros. eapply (aget_in pair_eqb pair_eqb_spec); eauto. Qed.

(** ** normalQuit followed by the removal of the peer *)
Lemma normal_quit_inv2 : forall s k p, inv2 s -> pget k (s_pool s) = Some p ->
  inv2 (set_pool (adel N.eqb k (s_pool s)) (normal_quit s k p)).
Proof.
  intros s k p Hi Hg. pose proof Hi as [H1 Ha Hp Hr Hn Hpar].
  pose proof (inv2_bounds s H1 Ha) as HB. pose proof B2.
  destruct (peer_bound s k p H1 Ha Hp Hg) as [Hinit Htot].
  assert (Hq6 : forall key i, In (key, i) (s_infos s) -> fst key = k -> all6 (quit_info key i) = all6 i).
  { intros key i Hin _. pose proof (in_le_W _ _ _ Hin). unfold quit_info, all6 in *. cbn.
    rewrite w64_small by lia. lia. }
  unfold normal_quit.
  set (infos1 := amap (on_peer k quit_info) (s_infos s)).
  assert (EW1 : forall sel, Winf sel infos1 = Winf sel (s_infos s)) by (intros; apply W_amap_peer; auto).
  assert (EA1 : forall k', Act k' infos1 = if k' =? k then 0 else Act k' (s_infos s))
    by (intros; apply A_amap_peer_zero; reflexivity).
  set (i := iget k (p_owner p) infos1).
  assert (Hi6 : all6 i <= B).
  { pose proof (all6_le_W k (p_owner p) infos1) as Hle. fold i in Hle. rewrite EW1 in Hle. lia. }
  assert (Hw : w64 (i_wunf i + p_init p) = i_wunf i + p_init p) by (apply w64_small; unfold all6 in Hi6; lia).
  rewrite Hw.
  set (i' := mkIV (i_cons i) (i_cand i) (i_new i) (i_wcons i) (i_wcand i) (i_wunf i + p_init p)).
  assert (E6 : all6 i' = all6 i + p_init p) by (unfold all6, i'; cbn; lia).
  assert (E3 : act3 i' = act3 i) by reflexivity.
  constructor; simp_state.
  - eapply inv1_fin; [|exact H1]. reflexivity.
  - intros sel. specialize (Ha sel). simp_state.
    pose proof (W_iset sel k (p_owner p) i' infos1) as Ew. fold i in Ew. rewrite EW1 in Ew.
    pose proof (O_adel sel k (s_pool s)) as Eo. rewrite Hg in Eo. cbn [oinit] in Eo.
    unfold bsel in *. destruct (sel (p_owner p)); lia.
  - intros k'. specialize (Hp k'). rewrite total_of_tot in *. simp_state. rewrite tot_adel by auto.
    pose proof (A_iset k' k (p_owner p) i' infos1) as Ea. fold i in Ea. rewrite E3, EA1 in Ea.
    destruct (N.eqb_spec k' k) as [->|Hne]; lia.
  - unfold reg_zero. simp_state. apply regz_adel; auto.
  - now apply nodup_adel.
  - exact Hpar.
Qed.

(** ** blackQuit *)
Fixpoint selsum (sel : N -> bool) (l : list (N * N)) : N :=
  match l with [] => 0 | (a, x) :: r => bsel (sel a) x + selsum sel r end.

Lemma L_withdraw_many : forall sel l st acc st' acc',
  withdraw_many st l acc = Ok (st', acc') -> Lst sel st' + selsum sel l = Lst sel st.
Proof.
  induction l as [|[a amt] r IH]; cbn [withdraw_many selsum]; intros st acc st' acc' H.
  - inversion H; subst. lia.
  - mstep H. apply IH in H.
    match goal with H : withdraw_stake _ _ _ = Ok _ |- _ => pose proof (L_withdraw sel _ _ _ _ H) end. lia.
Qed.

Lemma penalty_le : forall pen t, pen <= 100 -> t <= B ->
  w64 (w64 (pen * t) + 99) / 100 <= t /\ w64 (pen * t) = pen * t.
Proof.
  intros pen t Hp Ht. pose proof B100.
  assert (pen * t <= 100 * B) by nia.
  rewrite (w64_small (pen * t)) by lia. rewrite w64_small by lia. split; [|reflexivity].
  assert ((pen * t + 99) / 100 < t + 1) by (apply N.div_lt_upper_bound; [lia|nia]). lia.
Qed.

Lemma black_info_all6 : forall pen key i, pen <= 100 -> all6 i <= B ->
  all6 (black_info pen key i) + black_penalty pen i = all6 i /\ act3 (black_info pen key i) = 0.
Proof.
  intros pen key i Hp Hi. pose proof B2. unfold all6 in Hi.
  assert (Et : black_total i = i_cons i + i_cand i + i_new i + i_wcons i + i_wcand i)
    by (unfold black_total; apply w64_small; lia).
  destruct (penalty_le pen (black_total i) Hp ltac:(lia)) as [Hle _].
  unfold black_info, all6, act3. cbn [i_cons i_cand i_new i_wcons i_wcand i_wunf].
  fold (black_penalty pen i) in *. unfold black_penalty at 1 2. fold (black_penalty pen i).
  assert (Hle' : black_penalty pen i <= black_total i) by exact Hle.
  rewrite wsub_exact by lia. rewrite w64_small by lia. split; lia.
Qed.

Lemma W_black : forall sel pen k infos, pen <= 100 ->
  (forall key i, In (key, i) infos -> all6 i <= B) ->
  Winf sel (amap (on_peer k (black_info pen)) infos) + selsum sel (pen_list pen k infos) = Winf sel infos.
Proof.
  intros sel pen k infos Hp. unfold Winf, amap, pen_list.
  induction infos as [|[key i] r IH]; cbn [map asum filter fst snd selsum]; intros Hb; [reflexivity|].
  assert (Hi : all6 i <= B) by (eapply Hb; left; reflexivity).
  specialize (IH (fun key i H => Hb key i (or_intror H))).
  unfold on_peer at 1. destruct (fst key =? k); cbn [map selsum fst snd].
  - destruct (black_info_all6 pen key i Hp Hi) as [E _]. unfold bsel in *. destruct (sel (snd key)); lia.
  - lia.
Qed.

Lemma black_quit_inv2 : forall s k p s1, inv2 s -> pget k (s_pool s) = Some p ->
  black_quit s k p = Ok s1 -> inv2 (set_pool (adel N.eqb k (s_pool s1)) s1).
Proof.
  intros s k p s1 Hi Hg H. pose proof Hi as [H1 Ha Hp Hr Hn Hpar].
  assert (I1 : inv1 s1) by (eapply black_quit_inv1; eauto).
  pose proof (inv2_bounds s H1 Ha) as HB.
  destruct Hpar as (Hpen & Hpar').
  unfold black_quit in H. msteps H.
  assert (Hbnd : forall key i, In (key, i) (s_infos s) -> all6 i <= B)
    by (intros key i Hin; pose proof (in_le_W _ _ _ Hin); lia).
  match goal with |- inv2 ?S => set (s' := S) in * end.
  constructor; subst s'; simp_state.
  - eapply inv1_fin; [|exact I1]. reflexivity.
  - intros sel. specialize (Ha sel). simp_state.
    match goal with H : withdraw_stake _ _ _ = Ok _ |- _ => pose proof (L_withdraw sel _ _ _ _ H) as E1 end.
    match goal with H : withdraw_many _ _ _ = Ok _ |- _ => pose proof (L_withdraw_many sel _ _ _ _ _ H) as E2 end.
    pose proof (W_black sel (g_penalty (s_par s)) k (s_infos s) Hpen Hbnd) as E3.
    pose proof (O_adel sel k (s_pool s)) as Eo. rewrite Hg in Eo. cbn [oinit] in Eo. lia.
  - intros k'. specialize (Hp k'). rewrite total_of_tot in *. simp_state. rewrite tot_adel by auto.
    rewrite A_amap_peer_zero by reflexivity. destruct (k' =? k); auto.
  - unfold reg_zero. simp_state. apply regz_adel; auto.
  - now apply nodup_adel.
  - split; auto.
Qed.

(** ** the four *To*Consensus transitions *)
Lemma bad_bucket_false : forall k proj infos, bad_bucket k proj infos = false ->
  forall key i, In (key, i) infos -> fst key = k -> proj i = 0.
Proof.
  intros k proj infos H key i Hin Hk. unfold bad_bucket in H.
  rewrite <- negb_true_iff, <- forallb_existsb_neg in H || idtac.
  induction infos as [|[key' i'] r IH]; cbn [existsb fst snd] in *; [contradiction|].
  apply orb_false_iff in H. destruct H as [H0 Hr]. destruct Hin as [E|Hin]; [|auto].
  inversion E; subst. rewrite N.eqb_refl in H0. cbn in H0. apply negb_false_iff in H0. now apply N.eqb_eq in H0.
Qed.

Lemma transition_inv2 : forall s k b s', inv2 s -> transition s k b = Ok s' -> inv2 s'.
Proof.
  intros s k b s' Hi H. pose proof Hi as [H1 Ha Hp Hr Hn Hpar].
  pose proof (inv2_bounds s H1 Ha) as HB. pose proof B2.
  unfold transition in H. msteps H. bnorm.
  match goal with H : pget k (s_pool s) = Some p |- _ => rename H into Hg end.
  match goal with H : bad_bucket _ _ _ = false |- _ => pose proof (bad_bucket_false _ _ _ H) as Hz end.
  set (f := if p_status p =? ConsensusStatus then (if b then c2c else c2u) else (if b then u2c else u2u)).
  assert (Ef : (if p_status p =? ConsensusStatus
                then if b then c2c else c2u else if b then u2c else u2u) = f) by reflexivity.
  match goal with |- inv2 (set_pool _ (set_infos (amap (on_peer k ?g) _) _)) =>
    replace g with f by (unfold f; destruct (p_status p =? ConsensusStatus), b; reflexivity) end.
  assert (Hf : forall key i, In (key, i) (s_infos s) -> fst key = k ->
                all6 (f key i) = all6 i /\ act3 (f key i) = act3 i).
  { intros key i Hin Hk. pose proof (in_le_W _ _ _ Hin) as Hle. specialize (Hz key i Hin Hk).
    unfold f, all6, act3 in *.
    destruct (p_status p =? ConsensusStatus), b; unfold c2c, c2u, u2c, u2u, rotate;
      cbn [i_cons i_cand i_new i_wcons i_wcand i_wunf];
      repeat match goal with |- context [w64 ?x] => rewrite (w64_small x) by lia end; lia. }
  set (st := if b then ConsensusStatus else CandidateStatus).
  constructor; simp_state.
  - eapply inv1_fin; [|exact H1]. reflexivity.
  - intros sel. specialize (Ha sel). simp_state.
    rewrite W_amap_peer by (intros; apply Hf; auto).
    pose proof (O_pset sel k (with_status p st) (s_pool s)) as Eo. rewrite Hg in Eo.
    cbn [oinit with_status p_owner p_init] in Eo. lia.
  - intros k'. specialize (Hp k'). rewrite total_of_tot in *. simp_state. rewrite tot_pset.
    rewrite A_amap_peer_same by (intros; apply Hf; auto).
    destruct (N.eqb_spec k' k) as [->|Hne]; [|exact Hp].
    unfold tot in Hp. rewrite Hg in Hp. exact Hp.
  - unfold reg_zero. simp_state. apply regz_pset; auto. cbn [with_status p_status]. unfold st. not_register.
  - now apply nodup_pset.
  - exact Hpar.
Qed.

Lemma transitions_inv2 : forall ks s b s', inv2 s -> transitions s ks b = Ok s' -> inv2 s'.
Proof.
  induction ks as [|k r IH]; cbn [transitions]; intros s b s' Hi H.
  - inversion H; subst; auto.
  - mstep H. eapply IH; [|exact H]. eapply transition_inv2; eauto.
Qed.

(** ** the first pass of executeCommitDpos over the pool *)
Lemma in_nodup_pget : forall k p (pool : list (N * peerv)), NoDup (keys pool) -> In (k, p) pool -> pget k pool = Some p.
Proof.
  intros k p pool. unfold pget, keys. induction pool as [|[k' p'] r IH]; cbn [aget map In]; intros Hn Hin; [contradiction|].
  inversion Hn as [|? ? Hnot Hr]; subst. destruct Hin as [E|Hin].
  - inversion E; subst. now rewrite N.eqb_refl.
  - destruct (N.eqb_spec k k') as [->|Hne]; [|auto].
    exfalso. apply Hnot. change k' with (fst (k', p)). now apply in_map.
Qed.

Lemma commit_pass_inv2 : forall l s s', inv2 s -> NoDup (keys l) ->
  (forall k p, In (k, p) l -> pget k (s_pool s) = Some p) ->
  commit_pass l s = Ok s' -> inv2 s'.
Proof.
  induction l as [|[k p] r IH]; cbn [commit_pass]; intros s s' Hi Hn Hin H.
  - inversion H; subst; auto.
  - assert (Hg : pget k (s_pool s) = Some p) by (apply Hin; now left).
    unfold keys in Hn. cbn [map fst] in Hn. inversion Hn as [|? ? Hnot Hnr]; subst.
    assert (Hother : forall k' p', In (k', p') r -> k' <> k).
    { intros k' p' Hi' ->. apply Hnot. change k with (fst (k, p')). now apply in_map. }
    destruct (p_status p =? QuitingStatus).
    { eapply IH; [| exact Hnr | | exact H].
      - now apply normal_quit_inv2.
      - intros k' p' Hi'. simp_state. unfold normal_quit. simp_state.
        rewrite pget_adel_other by (eapply Hother; eauto). apply Hin. now right. }
    destruct (p_status p =? BlackStatus).
    { mstep H. eapply IH; [| exact Hnr | | exact H].
      - eapply black_quit_inv2; eauto.
      - intros k' p' Hi'. simp_state.
        match goal with H : black_quit _ _ _ = Ok _ |- _ => unfold black_quit in H; msteps H end. simp_state.
        rewrite pget_adel_other by (eapply Hother; eauto). apply Hin. now right. }
    destruct (p_status p =? QuitConsensusStatus).
    { eapply IH; [| exact Hnr | | exact H].
      - match goal with |- inv2 (set_pool (pset _ ?p' _) _) => eapply (inv2_pset_same s _ k p p') end;
          eauto; try reflexivity. cbn [with_status p_status]. not_register.
      - intros k' p' Hi'. simp_state.
        rewrite pget_pset_other by (eapply Hother; eauto). apply Hin. now right. }
    eapply IH; [exact Hi | exact Hnr | | exact H]. intros k' p' Hi'. apply Hin. now right.
Qed.

Lemma commit_core_inv2 : forall h s s', inv2 s -> commit_core h s = Ok s' -> inv2 s'.
Proof.
  intros h s s' Hi H. unfold commit_core in H. msteps H.
  match goal with H : commit_pass _ _ = Ok _ |- _ =>
    apply commit_pass_inv2 in H; [| exact Hi | apply Hi | intros; apply in_nodup_pget; [apply Hi | assumption]];
    rename H into I1 end.
  match goal with H : transitions _ (firstn _ _) _ = Ok _ |- _ => apply transitions_inv2 in H; [|exact I1]; rename H into I2 end.
  match goal with H : transitions _ (skipn _ _) _ = Ok _ |- _ => apply transitions_inv2 in H; [|exact I2]; rename H into I3 end.
  eapply inv2_frame; eauto.
Qed.

Lemma exec_commit_inv2 : forall h s sg s', inv2 s -> exec_commit h s sg = Ok s' -> inv2 s'.
Proof. intros h s sg s' Hi H. unfold exec_commit in H. msteps H. eapply commit_core_inv2; eauto. Qed.

Lemma exec_black_inv2 : forall h s sg l s', inv2 s -> exec_black h s sg l = Ok s' -> inv2 s'.
Proof.
  intros h s sg l s' Hi H. unfold exec_black in H. msteps H. destruct x as [s1 c].
  match goal with H : black_loop _ _ _ = Ok _ |- _ => apply black_loop_inv2 in H; [|exact Hi]; rename H into I1 end.
  cbn [fst snd] in H. destruct c.
  - eapply commit_core_inv2; eauto.
  - inversion H; subst; auto.
Qed.

(** ** all operations *)
(** the amounts of the three list operations are uint32 values (the decoders reject larger ones) *)
Definition op_ok2 (o : op) : Prop :=
  op_ok o /\
  match o with
  | OAuthorize _ _ l _ | OUnAuthorize _ _ l _ | OWithdraw _ _ l _ => pos_small l
  | _ => True
  end.

Theorem exec_inv2 : forall h s o s', inv2 s -> op_ok2 o -> exec h s o = Ok s' -> inv2 s'.
Proof.
  intros h s o s' Hi [Hok Hsm] H. destruct o; cbn [exec op_ok] in *.
  - eapply exec_register_inv2; eauto.
  - eapply exec_unregister_inv2; eauto.
  - eapply exec_approve_inv2; eauto.
  - eapply exec_reject_inv2; eauto.
  - eapply exec_authorize_inv2; eauto.
  - eapply exec_unauthorize_inv2; eauto.
  - eapply exec_withdraw_inv2; eauto.
  - eapply exec_quit_inv2; eauto.
  - eapply exec_black_inv2; eauto.
  - eapply exec_white_inv2; eauto.
  - eapply exec_commit_inv2; eauto.
  - eapply exec_maxauth_inv2; eauto.
  - eapply exec_addinit_inv2; eauto.
  - eapply exec_reduceinit_inv2; eauto.
  - destruct Hok. eapply exec_penalty_inv2; eauto.
Qed.

Theorem step_inv2 : forall s ho, inv2 s -> op_ok2 (snd ho) -> inv2 (fst (step s ho)).
Proof.
  intros s [h o] Hi Hok. unfold step. cbn [fst snd] in *.
  destruct (exec h s o) eqn:E; cbn [fst]; auto. eapply exec_inv2; eauto.
Qed.

Theorem run_inv2 : forall l s, inv2 s -> Forall (fun ho => op_ok2 (snd ho)) l -> inv2 (run s l).
Proof.
  induction l as [|ho r IH]; cbn; intros s Hi Hall; auto.
  inversion Hall; subst. apply IH; auto. now apply step_inv2.
Qed.
