(** C44, part 6: the statements in terms of the code's observers (Get, GetContract,
    IsContractDestroyed, NewIterator). *)
From Coq Require Import List Bool Arith NArith Lia.
Import ListNotations.
From Ont Require Import Lib.Bytes Model.KV Proofs.KV Proofs.KVLive Gen.ContractConsts Model.ContractStore
  Proofs.C44Loop Proofs.C44Effect Proofs.C44Spec Proofs.C44Ops Proofs.C44.
Local Open Scope N_scope.
Open Scope bool_scope.

Lemma has_prefix_SP a pfx k : has_prefix (SP a) (pkey pfx k) = (ST_STORAGE =? pfx) && has_prefix a k.
Proof. reflexivity. Qed.

Lemma key_eqb_pkey_false p q a b : (p <> q \/ a <> b) -> key_eqb (pkey p a) (pkey q b) = false.
Proof.
  intro H. destruct (key_eqb (pkey p a) (pkey q b)) eqn:E; [|reflexivity].
  apply key_eqb_pkey in E. destruct E; destruct H; congruence.
Qed.

(** MigrateContractStorage(old, new), old <> new *)
Theorem migrate_moves track h old new s :
  good s -> is_addr old = true -> is_addr new = true -> old <> new ->
  let r := migrate_contract_storage track h old new s in
  snd r = true /\ good (fst r) /\ abs_block (fst r) = abs_block s /\
  (forall sfx, storage_at (fst r) old sfx = []) /\
  (forall sfx, storage_at (fst r) new sfx =
     if is_empty (storage_at s old sfx) then storage_at s new sfx else storage_at s old sfx) /\
  (forall pfx k,
     (pfx = ST_STORAGE -> has_prefix old k = false /\ has_prefix new k = false) ->
     ~ (pfx = ST_CONTRACT /\ k = old) -> ~ (pfx = ST_DESTROYED /\ k = old) ->
     cache_get pfx (fst r) k = cache_get pfx s k) /\
  contract_record (fst r) old = [] /\
  (track <= h -> is_destroyed (fst r) old = true /\ cache_get ST_DESTROYED (fst r) old = marker h) /\
  (h < track -> cache_get ST_DESTROYED (fst r) old = cache_get ST_DESTROYED s old) /\
  cache_iterate ST_STORAGE (fst r) old = ([], true).
Proof.
  intros G Ao An Hne r. pose proof (good_sorted s G) as Hs.
  destruct (migrate_full_spec track h old new s G Ao An) as (R1 & R2 & R3 & R4 & R5 & R6). fold r in R1, R2, R3, R4, R5, R6.
  pose proof (good_sorted _ R2) as Hr.
  split; [exact R1|]. split; [exact R2|]. split; [apply same_block_abs; exact R3|].
  split; [|split; [|split; [|split; [|split; [|split]]]]].
  - intro sfx. rewrite storage_at_glk by exact Hr. apply ov_nil_iff, R4, SP_prefix_SK.
  - intro sfx. rewrite !storage_at_glk by assumption. rewrite (R5 Hne sfx), ov_empty.
    destruct (glk s (SK old sfx)); reflexivity.
  - intros pfx k H1 H2 H3. rewrite !cache_get_ov by assumption. f_equal.
    rewrite R6.
    + unfold DK, CK. rewrite (key_eqb_pkey_false pfx ST_DESTROYED k old), andb_false_r.
      * rewrite (key_eqb_pkey_false pfx ST_CONTRACT k old); [reflexivity|].
        destruct (N.eq_dec pfx ST_CONTRACT); [|left; assumption]. destruct (bytes_dec k old); [|right; assumption]. tauto.
      * destruct (N.eq_dec pfx ST_DESTROYED); [|left; assumption]. destruct (bytes_dec k old); [|right; assumption]. tauto.
    + rewrite has_prefix_SP. destruct (ST_STORAGE =? pfx) eqn:E; [|reflexivity].
      apply N.eqb_eq in E. symmetry in E. apply (proj1 (H1 E)).
    + rewrite has_prefix_SP. destruct (ST_STORAGE =? pfx) eqn:E; [|reflexivity].
      apply N.eqb_eq in E. symmetry in E. apply (proj2 (H1 E)).
  - rewrite contract_record_glk by exact Hr. apply ov_nil_iff.
    rewrite R6 by apply CK_not_SP. rewrite CK_not_DK, andb_false_r, key_eqb_refl. reflexivity.
  - intro Hh. apply N.leb_le in Hh.
    assert (E : glk (fst r) (DK old) = Some (marker h)).
    { rewrite R6 by apply DK_not_SP. rewrite Hh, key_eqb_refl. reflexivity. }
    split; [rewrite is_destroyed_glk by exact Hr; rewrite E; reflexivity|].
    rewrite cache_get_ov by exact Hr. fold (DK old). rewrite E. reflexivity.
  - intro Hh. apply N.leb_gt in Hh. rewrite !cache_get_ov by assumption. fold (DK old).
    rewrite R6 by apply DK_not_SP. rewrite Hh, DK_not_CK. reflexivity.
  - apply iterate_empty; [exact R2|exact R4].
Qed.

(** MigrateContractStorage(a, a): everything under [a] is put back and then deleted *)
Theorem migrate_to_itself_erases track h a s : good s -> is_addr a = true ->
  let r := migrate_contract_storage track h a a s in
  snd r = true /\ forall sfx, storage_at (fst r) a sfx = [].
Proof.
  intros G Aa r. destruct (migrate_full_spec track h a a s G Aa Aa) as (R1 & R2 & _ & R4 & _). fold r in R1, R2, R4.
  split; [exact R1|]. intro sfx. rewrite storage_at_glk by (apply good_sorted; exact R2).
  apply ov_nil_iff, R4, SP_prefix_SK.
Qed.

(** CleanContractStorage(a) *)
Theorem destroy_removes_all track h a s : good s -> is_addr a = true ->
  let r := clean_contract_storage track h a s in
  snd r = true /\ good (fst r) /\ abs_block (fst r) = abs_block s /\
  (forall sfx, storage_at (fst r) a sfx = []) /\
  cache_iterate ST_STORAGE (fst r) a = ([], true) /\
  (forall pfx k,
     (pfx = ST_STORAGE -> has_prefix a k = false) ->
     ~ (pfx = ST_CONTRACT /\ k = a) -> ~ (pfx = ST_DESTROYED /\ k = a) ->
     cache_get pfx (fst r) k = cache_get pfx s k) /\
  contract_record (fst r) a = [] /\
  (track <= h -> is_destroyed (fst r) a = true /\ cache_get ST_DESTROYED (fst r) a = marker h) /\
  (h < track -> cache_get ST_DESTROYED (fst r) a = cache_get ST_DESTROYED s a).
Proof.
  intros G Aa r. pose proof (good_sorted s G) as Hs.
  destruct (clean_full_spec track h a s G Aa) as (R1 & R2 & R3 & R4). fold r in R1, R2, R3, R4.
  pose proof (good_sorted _ R2) as Hr.
  assert (E0 : forall x, has_prefix (SP a) x = true -> glk (fst r) x = None)
    by (intros x Hx; rewrite R4, Hx; reflexivity).
  split; [exact R1|]. split; [exact R2|]. split; [apply same_block_abs; exact R3|].
  split; [|split; [|split; [|split; [|split]]]].
  - intro sfx. rewrite storage_at_glk by exact Hr. apply ov_nil_iff, E0, SP_prefix_SK.
  - apply iterate_empty; assumption.
  - intros pfx k H1 H2 H3. rewrite !cache_get_ov by assumption. f_equal. rewrite R4.
    assert (P : has_prefix (SP a) (pkey pfx k) = false).
    { rewrite has_prefix_SP. destruct (ST_STORAGE =? pfx) eqn:E; [|reflexivity].
      apply N.eqb_eq in E. symmetry in E. apply (H1 E). }
    rewrite P. unfold DK, CK. rewrite (key_eqb_pkey_false pfx ST_DESTROYED k a), andb_false_r.
    + rewrite (key_eqb_pkey_false pfx ST_CONTRACT k a); [reflexivity|].
      destruct (N.eq_dec pfx ST_CONTRACT); [|left; assumption]. destruct (bytes_dec k a); [|right; assumption]. tauto.
    + destruct (N.eq_dec pfx ST_DESTROYED); [|left; assumption]. destruct (bytes_dec k a); [|right; assumption]. tauto.
  - rewrite contract_record_glk by exact Hr. apply ov_nil_iff.
    rewrite R4, CK_not_SP, CK_not_DK, andb_false_r, key_eqb_refl. reflexivity.
  - intro Hh. apply N.leb_le in Hh.
    assert (E : glk (fst r) (DK a) = Some (marker h)) by (rewrite R4, DK_not_SP, Hh, key_eqb_refl; reflexivity).
    split; [rewrite is_destroyed_glk by exact Hr; rewrite E; reflexivity|].
    rewrite cache_get_ov by exact Hr. fold (DK a). rewrite E. reflexivity.
  - intro Hh. apply N.leb_gt in Hh. rewrite !cache_get_ov by assumption. fold (DK a).
    rewrite R4, DK_not_SP, Hh, DK_not_CK. reflexivity.
Qed.

(** the transaction-level view of "destroyed with nothing left" *)
Definition dead_now (s : state) (a : bytes) : Prop :=
  is_destroyed s a = true /\ get_contract s a = (None, true) /\
  (forall sfx, storage_at s a sfx = []) /\ cache_iterate ST_STORAGE s a = ([], true).

Lemma dead_now_of s a : good s -> deadf a (glk s) -> dead_now s a.
Proof.
  intros G D. pose proof (good_sorted s G) as Hs. pose proof (proj1 (dead_obs a s Hs) D) as [D1 D2].
  split; [exact D1|]. split; [apply dead_get_contract; assumption|]. split; [exact D2|].
  apply iterate_empty; [exact G|apply D].
Qed.

Lemma deadf_of s a : sorted_state s -> is_destroyed s a = true -> (forall sfx, storage_at s a sfx = []) -> deadf a (glk s).
Proof. intros Hs A B. apply dead_obs; auto. Qed.

(** Contract.Destroy / Contract.Migrate leave the executing contract dead when tracking is active *)
Theorem destroy_marks strict track h a s s' : good s -> is_addr a = true -> track <= h ->
  exec strict track h s (CDestroy a) = Ok s' -> good s' /\ dead_now s' a /\ contract_record s' a = [].
Proof.
  intros G Aa Hh E. cbn [exec] in E. destruct (context_ok s a); [|discriminate].
  apply of_loop_ok in E. destruct E as [_ <-].
  destruct (destroy_removes_all track h a s G Aa) as (_ & R2 & _ & R4 & _ & _ & R7 & R8 & _).
  split; [exact R2|]. split; [|exact R7]. apply dead_now_of; [exact R2|].
  apply deadf_of; [apply good_sorted; exact R2|apply (R8 Hh)|exact R4].
Qed.

Theorem migrate_marks strict track h cur new code s s' : good s -> cop_wf (CMigrate cur new code) = true -> track <= h ->
  exec strict track h s (CMigrate cur new code) = Ok s' -> good s' /\ dead_now s' cur.
Proof.
  intros G W Hh E. pose proof (exec_good_any strict track h s _ s' G W E) as [G' _]. split; [exact G'|].
  cbn [exec cop_wf negb orb] in *. apply andb_prop in W. destruct W as [W Wc]. apply andb_prop in W. destruct W as [Wcur Wnew].
  destruct (undeployed s new); [|discriminate]. apply of_loop_ok in E. destruct E as [_ <-].
  assert (G1 : good (put_contract new code s)) by (apply good_put; [exact G|reflexivity|apply is_addr_wf; exact Wnew]).
  destruct (migrate_full_spec track h cur new _ G1 Wcur Wnew) as (_ & R2 & _ & R4 & _ & R6).
  apply dead_now_of; [exact R2|]. split; [|exact R4].
  rewrite R6 by apply DK_not_SP. apply N.leb_le in Hh. rewrite Hh, key_eqb_refl. discriminate.
Qed.

(** Contract.Migrate moves the whole storage when the target owns none (which the no-orphan
    invariant guarantees for an undeployed target) *)
Theorem contract_migrate_exact strict track h cur new code s s' :
  good s -> cop_wf (CMigrate cur new code) = true -> cur <> new ->
  (contract_record s new = [] -> forall sfx, storage_at s new sfx = []) ->
  exec strict track h s (CMigrate cur new code) = Ok s' ->
  (forall sfx, storage_at s' new sfx = storage_at s cur sfx) /\
  (forall sfx, storage_at s' cur sfx = []) /\
  contract_record s' new = code /\ contract_record s' cur = [] /\
  cache_iterate ST_STORAGE s' cur = ([], true).
Proof.
  intros G W Hne O E. pose proof (good_sorted s G) as Hs.
  pose proof (exec_good_any strict track h s _ s' G W E) as [G' _]. pose proof (good_sorted _ G') as Hs'.
  cbn [exec cop_wf negb orb] in *. apply andb_prop in W. destruct W as [W Wc]. apply andb_prop in W. destruct W as [Wcur Wnew].
  destruct (undeployed s new) eqn:Un; [|discriminate]. apply of_loop_ok in E. destruct E as [_ <-].
  rewrite undeployed_glk in Un by exact Hs. apply andb_prop in Un. destruct Un as [_ Un].
  assert (Cn : glk s (CK new) = None) by (destruct (glk s (CK new)); [discriminate|reflexivity]).
  assert (On : forall sfx, glk s (SK new sfx) = None).
  { intro sfx. apply ov_nil_iff. rewrite <- storage_at_glk by exact Hs. apply O.
    rewrite contract_record_glk by exact Hs. apply ov_nil_iff. exact Cn. }
  set (s1 := put_contract new code s) in *.
  assert (G1 : good s1) by (apply good_put; [exact G|reflexivity|apply is_addr_wf; exact Wnew]).
  assert (E1 : forall x, glk s1 x = if key_eqb x (CK new) then Some code else glk s x)
    by (intro x; apply glk_put_contract; assumption).
  destruct (migrate_full_spec track h cur new s1 G1 Wcur Wnew) as (_ & _ & _ & R4 & R5 & R6).
  split; [|split; [|split; [|split]]].
  - intro sfx. rewrite !storage_at_glk by assumption. rewrite (R5 Hne sfx), !E1.
    rewrite (SK_not_CK _ cur new sfx eq_refl), (SK_not_CK _ new new sfx eq_refl), On.
    destruct (glk s (SK cur sfx)); reflexivity.
  - intro sfx. rewrite storage_at_glk by exact Hs'. apply ov_nil_iff, R4, SP_prefix_SK.
  - rewrite contract_record_glk by exact Hs'. rewrite R6 by apply CK_not_SP.
    rewrite CK_not_DK, andb_false_r. destruct (key_eqb (CK new) (CK cur)) eqn:K; [apply CK_eqb in K; congruence|].
    rewrite E1, key_eqb_refl. reflexivity.
  - rewrite contract_record_glk by exact Hs'. rewrite R6 by apply CK_not_SP.
    rewrite CK_not_DK, andb_false_r, key_eqb_refl. reflexivity.
  - apply iterate_empty; assumption.
Qed.

(** * all histories *)

(** what the next transaction sees *)
Definition next_view (s : state) : state := cache_reset s.

Lemma deadf_next s a : good s -> (deadf a (bglk s) <-> deadf a (glk (next_view s))).
Proof. intro G. split; apply deadf_ext; intro x; [symmetry|]; apply glk_reset. Qed.

Theorem destroyed_forever track a bs s :
  good s -> is_addr a = true -> forallb block_wf bs = true -> existsb (block_unsets a) bs = false ->
  is_destroyed (next_view s) a = true -> (forall sfx, storage_at (next_view s) a sfx = []) ->
  let r := run_chain true track s bs in
  good (fst r) /\ dead_now (next_view (fst r)) a /\
  Forall2 (fun b os => Forall2 (fun t o => tx_touches a t = true -> o <> Committed) (b_txs b) os) bs (snd r).
Proof.
  intros G Aa W U D1 D2 r.
  assert (D : deadf a (bglk s)).
  { apply deadf_next; [exact G|]. apply deadf_of; [apply good_sorted, good_reset, G|exact D1|exact D2]. }
  destruct (chain_dead a Aa track bs s G W U D) as [G' D']. fold r in G', D'.
  split; [exact G'|]. split.
  - apply dead_now_of; [apply good_reset; exact G'|]. apply deadf_next; assumption.
  - exact (chain_dead_touch a Aa track bs s G W U D).
Qed.

(** inside a transaction: once [a] is dead, every later call of the same execution that would
    deploy at it or write under it is refused, and it stays dead *)
Theorem dead_refuses track h a s o : good s -> is_addr a = true ->
  is_destroyed s a = true -> (forall sfx, storage_at s a sfx = []) ->
  cop_wf o = true -> cop_unsets a o = false ->
  (cop_touches a o = true -> exec true track h s o = Err Refused) /\
  (forall code, exec true track h s (CCreate a code) = Ok s) /\
  (forall s', exec true track h s o = Ok s' -> good s' /\ dead_now s' a).
Proof.
  intros G Aa D1 D2 W U. pose proof (good_sorted s G) as Hs.
  pose proof (deadf_of s a Hs D1 D2) as D. split; [|split].
  - intro T. apply (exec_dead_refuses a track h s o G D T).
  - intro code. cbn [exec]. rewrite (dead_get_contract a s Hs D). reflexivity.
  - intros s' E. destruct (exec_good track h s o s' G W E) as [G' _]. split; [exact G'|].
    apply dead_now_of; [exact G'|]. apply (exec_dead a Aa track h s o s' G W U D E).
Qed.

Theorem deploy_refused track h a code s : good s -> is_destroyed (next_view s) a = true ->
  run_tx true track h s (TDeploy a code) = (next_view s, Failed).
Proof.
  intros G D. unfold run_tx, next_view in *. unfold get_contract. rewrite D. reflexivity.
Qed.

Theorem no_orphan_storage track a bs s :
  good s -> is_addr a = true -> forallb block_wf bs = true ->
  (contract_record (next_view s) a = [] -> forall sfx, storage_at (next_view s) a sfx = []) ->
  let s' := fst (run_chain true track s bs) in
  good s' /\ (contract_record (next_view s') a = [] -> forall sfx, storage_at (next_view s') a sfx = []).
Proof.
  intros G Aa W O s'.
  assert (O0 : orphf a (bglk s)).
  { eapply orphf_ext; [intro x; apply glk_reset|]. apply orph_obs; [apply good_sorted, good_reset, G|exact O]. }
  destruct (chain_orph a track bs s Aa G W O0) as [G' O']. fold s' in G', O'. split; [exact G'|].
  apply orph_obs; [apply good_sorted, good_reset, G'|]. eapply orphf_ext; [intro x; symmetry; apply glk_reset|exact O'].
Qed.

(** the same invariant inside a transaction *)
Theorem no_orphan_storage_step track h a s o s' : good s -> is_addr a = true -> cop_wf o = true ->
  (contract_record s a = [] -> forall sfx, storage_at s a sfx = []) ->
  exec true track h s o = Ok s' ->
  (contract_record s' a = [] -> forall sfx, storage_at s' a sfx = []).
Proof.
  intros G Aa W O E. destruct (exec_good track h s o s' G W E) as [G' _].
  apply orph_obs; [apply good_sorted; exact G'|].
  apply (exec_orph a Aa track h s o s' G W); [|exact E]. apply orph_obs; [apply good_sorted; exact G|exact O].
Qed.

(** * a committed transaction that destroys or migrates away [a] leaves [a] dead for the next one *)
Lemma exec_all_app track h : forall l1 l2 s,
  exec_all true track h s (l1 ++ l2) = match exec_all true track h s l1 with Ok s1 => exec_all true track h s1 l2 | e => e end.
Proof.
  induction l1 as [|o l1 IH]; intros l2 s; simpl; [reflexivity|].
  destruct (exec true track h s o); [apply IH|reflexivity].
Qed.

Lemma exec_all_good track h : forall ops s s', good s -> forallb cop_wf ops = true ->
  exec_all true track h s ops = Ok s' -> good s'.
Proof.
  intros ops s s' G W E.
  apply (exec_all_inv true (fun _ => True) (fun _ => true) (fun _ _ _ _ _ _ _ _ _ _ => I) track h ops s s' G W); auto.
  clear. induction ops; simpl; auto.
Qed.

Definition leaves (a : bytes) (o : cop) : Prop :=
  o = CDestroy a \/ exists new code, o = CMigrate a new code.

Theorem leaving_tx_commits_dead track h a s pre o post :
  good s -> is_addr a = true -> track <= h -> forallb cop_wf (pre ++ o :: post) = true ->
  leaves a o -> existsb (cop_unsets a) post = false ->
  let r := run_tx true track h s (TInvoke (pre ++ o :: post)) in
  snd r = Committed -> good (fst r) /\ dead_now (next_view (fst r)) a.
Proof.
  intros G Aa Hh W L U r C. unfold r, run_tx in *. pose proof (good_reset s G) as G0.
  rewrite forallb_app in W. apply andb_prop in W. destruct W as [Wpre W]. simpl in W.
  apply andb_prop in W. destruct W as [Wo Wpost].
  rewrite exec_all_app in *. destruct (exec_all true track h (cache_reset s) pre) as [s1|e1] eqn:E1;
    [|destruct e1; discriminate].
  pose proof (exec_all_good track h pre _ s1 G0 Wpre E1) as G1.
  cbn [exec_all] in *. destruct (exec true track h s1 o) as [s2|e2] eqn:E2; [|destruct e2; discriminate].
  assert (D2 : good s2 /\ deadf a (glk s2)).
  { destruct L as [->|(new & code & ->)].
    - destruct (destroy_marks true track h a s1 s2 G1 Aa Hh E2) as (G2 & (A & _ & B & _) & _).
      split; [exact G2|apply deadf_of; [apply good_sorted; exact G2|exact A|exact B]].
    - destruct (migrate_marks true track h a new code s1 s2 G1 Wo Hh E2) as (G2 & (A & _ & B & _)).
      split; [exact G2|apply deadf_of; [apply good_sorted; exact G2|exact A|exact B]]. }
  destruct D2 as [G2 D2].
  destruct (exec_all true track h s2 post) as [s3|e3] eqn:E3; [|destruct e3; discriminate].
  apply existsb_false_forallb in U.
  destruct (exec_all_inv true (deadf a) (keeps a) (exec_dead' a Aa) track h post s2 s3 G2 Wpost U D2 E3) as [G3 D3].
  cbn [fst]. split; [apply good_commit; exact G3|].
  apply dead_now_of; [apply good_reset, good_commit; exact G3|].
  eapply deadf_ext; [|exact D3]. intro x. unfold next_view. rewrite glk_reset. symmetry. apply bglk_commit, good_sorted, G3.
Qed.

(** * the code as it is ([strict] free): marker and missing record for ever *)
Lemma markf_next s a : markf a (bglk s) <-> markf a (glk (next_view s)).
Proof. split; apply markf_ext; intro x; [symmetry|]; apply glk_reset. Qed.

Theorem marked_forever strict track a bs s :
  good s -> is_addr a = true -> forallb block_wf bs = true -> existsb (block_unsets a) bs = false ->
  is_destroyed (next_view s) a = true -> contract_record (next_view s) a = [] ->
  let r := run_chain strict track s bs in
  good (fst r) /\ is_destroyed (next_view (fst r)) a = true /\ contract_record (next_view (fst r)) a = [] /\
  get_contract (next_view (fst r)) a = (None, true) /\
  Forall2 (fun b os => Forall2 (fun t o => tx_claims a t = true -> o <> Committed) (b_txs b) os) bs (snd r).
Proof.
  intros G Aa W U D1 D2 r.
  assert (D : markf a (bglk s)).
  { apply markf_next. apply mark_obs; [apply good_sorted, good_reset, G|]. split; assumption. }
  destruct (chain_mark strict a track bs s G W U D) as [G' D']. fold r in G', D'.
  assert (M : markf a (glk (next_view (fst r)))) by (apply markf_next; exact D').
  pose proof (good_sorted _ (good_reset _ G')) as Hs'.
  pose proof (proj1 (mark_obs a _ Hs') M) as [M1 M2].
  split; [exact G'|]. split; [exact M1|]. split; [exact M2|]. split.
  - apply mark_get_contract; assumption.
  - exact (chain_mark_claim strict a track bs s G W U D).
Qed.

(** inside one execution, as the code is: calls that need or create a record at a marked address
    are refused; Contract.Create of it is a no-op; every other call keeps it marked *)
Theorem marked_refuses strict track h a s o : good s -> is_addr a = true ->
  is_destroyed s a = true -> contract_record s a = [] ->
  cop_wf o = true -> cop_unsets a o = false ->
  (cop_claims a o = true -> exec strict track h s o = Err Refused) /\
  (forall code, exec strict track h s (CCreate a code) = Ok s) /\
  (forall s', exec strict track h s o = Ok s' ->
     good s' /\ is_destroyed s' a = true /\ contract_record s' a = [] /\ get_contract s' a = (None, true)).
Proof.
  intros G Aa D1 D2 W U. pose proof (good_sorted s G) as Hs.
  assert (D : markf a (glk s)) by (apply mark_obs; auto). split; [|split].
  - intro T. apply (exec_mark_refuses a strict track h s o G D T).
  - intro code. cbn [exec]. rewrite (mark_get_contract a s Hs D). reflexivity.
  - intros s' E. destruct (exec_good_any strict track h s o s' G W E) as [G' _].
    pose proof (exec_mark a strict track h s o s' G W U D E) as M.
    pose proof (proj1 (mark_obs a s' (good_sorted _ G')) M) as [M1 M2].
    split; [exact G'|]. split; [exact M1|]. split; [exact M2|]. apply mark_get_contract; [apply good_sorted; exact G'|exact M].
Qed.
