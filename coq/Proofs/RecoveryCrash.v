(** C01 — the case analysis over crash points: what a crash during [submitBlock] leaves on disk
    (by the step list of Gen/Recover.v) and what reopening each such directory yields (by the loop
    bounds of Gen/Recover.v). *)
From Coq Require Import List Bool Arith NArith ZArith Lia ZifyN ZifyNat ZifyBool.
Import ListNotations.
From Ont Require Import Lib.Bytes Model.RecoverTypes Gen.Recover Model.Recovery Proofs.RecoveryLib Proofs.Recovery.
Local Open Scope N_scope.
Ltac Zify.zify_post_hook ::= Z.to_euclidean_division_equations.

Arguments kv_commit : simpl never.
Arguments file_write : simpl never.
Arguments block_ops : simpl never.
Arguments event_ops : simpl never.
Arguments stored_hash_num : simpl never.

(** * Arithmetic of the replay loop of recoverStore, as generated from the source.
    These are the obligations that pin the loop to the heights stateHeight+1 .. blockHeight. *)

(** State store and block store at the same height: the loop body is not entered. *)
Lemma recover_loop_arith_same n : n + 2 < 4294967296 ->
  recover_continue (recover_init (Z.of_N n) (Z.of_N n)) (Z.of_N n) (Z.of_N n) = false.
Proof.
  intro H. unfold recover_continue, recover_init.
  match goal with |- ?c = false => destruct c eqn:E; [exfalso; lia|reflexivity] end.
Qed.

(** Block store one block ahead of the state store: the body runs exactly once, on that block. *)
Lemma recover_loop_arith_ahead n : n + 2 < 4294967296 ->
  let sh := Z.of_N n in let bh := Z.of_N (n + 1) in
  let i := recover_init sh bh in
  recover_continue i sh bh = true /\
  Z.to_N (recover_arg i sh bh) = n + 1 /\
  recover_continue (recover_next i) sh bh = false.
Proof.
  intro H. cbv zeta. unfold recover_continue, recover_init, recover_arg, recover_next.
  repeat split.
  - match goal with |- ?c = true => destruct c eqn:E; [reflexivity|exfalso; lia] end.
  - lia.
  - match goal with |- ?c = false => destruct c eqn:E; [exfalso; lia|reflexivity] end.
Qed.

Lemma init_block_tree_size_ok n s : n + 2 < 4294967296 ->
  (Z.of_N (n + 1) =? init_block_tree_size (Z.of_N n) s)%Z = true.
Proof. intro H. unfold init_block_tree_size. apply Z.eqb_eq. lia. Qed.

Lemma init_state_tree_size_ok n s : n + 2 < 4294967296 -> s <= n ->
  (Z.of_N (n - s + 1) =? init_state_tree_size (Z.of_N n) (Z.of_N s))%Z = true.
Proof. intros H Hs. unfold init_state_tree_size. apply Z.eqb_eq. lia. Qed.

Lemma open_hash_file_ok f size : (N.to_nat (stored_hash_num size * hash_size) <= length f)%nat ->
  open_hash_file f size = Some (stored_hash_num size * hash_size).
Proof.
  intro H. unfold open_hash_file, file_min_size, file_seek_offset. rewrite hash_size_32 in *.
  change UINT256_SIZE with 32%Z.
  match goal with |- (if ?c then _ else _) = _ => destruct c eqn:E; [exfalso; lia|] end.
  f_equal. lia.
Qed.

Section Crash.
  Variable hc : hash -> hash -> hash.
  Variable hempty : hash.
  Variable shh : N.
  Variable exec : sstore -> blk -> option xres.
  Variable hdr_ok : blk -> blk -> bool.
  Hypothesis hc_len : forall a b, len32 (hc a b).

  Notation add_block := (add_block hc hempty shh exec hdr_ok).
  Notation precheck := (precheck hc hempty shh exec hdr_ok).
  Notation run_step := (run_step hc hempty shh exec).
  Notation run_steps := (run_steps hc hempty shh exec).
  Notation crash_steps := (crash_steps hc hempty shh exec).
  Notation crash_add := (crash_add hc hempty shh exec hdr_ok).
  Notation reopen := (reopen hc hempty shh exec).
  Notation recover_loop := (recover_loop hc hempty shh exec).
  Notation recover_body := (recover_body hc hempty shh exec).
  Notation run := (run hc hempty shh exec hdr_ok).
  Notation run_outcomes := (run_outcomes hc hempty shh exec hdr_ok).
  Notation observe := (observe hc hempty shh).
  Notation save_state_plan := (save_state_plan hc hempty shh).
  Notation consistent := (consistent shh).

  Definition bound (l : ledger) : Prop := m_h (l_mem l) + 3 < 4294967296.
  Definition wf_blk (b : blk) : Prop := len32 (b_txroot b).

  Lemma precheck_inr l b r : precheck l b = inr r ->
    b_height b = u32 (m_h (l_mem l) + 1) /\ exec (d_state (l_disk l)) b = Some r.
  Proof.
    unfold Recovery.precheck. intro H.
    destruct (b_height b <=? m_h (l_mem l)); [discriminate|].
    destruct (b_height b =? u32 (m_h (l_mem l) + 1)) eqn:Eh; simpl in H; [|discriminate].
    destruct (kv_get bkey_eqb (d_block (l_disk l)) (BKBlock (b_prev b))) as [[| | |p]|]; try discriminate.
    destruct (negb ((u32 (b_height p + 1) =? b_height b) && hdr_ok p b)); [discriminate|].
    destruct (exec (d_state (l_disk l)) b) as [r'|]; [|discriminate].
    destruct (negb (length (b_txs b) =? 0)%nat && negb (bytes_eqb (state_merkle_root hc shh (l_mem l) b r') (b_sroot b)));
      [discriminate|].
    destruct (block_root_with_new_tx_roots hc hempty (l_mem l) (b_height b) [b_txroot b]); [|discriminate].
    destruct (negb (b_height b =? 0) && negb (bytes_eqb h (b_blockroot b))); [discriminate|].
    inversion H; subst. split; [apply N.eqb_eq; exact Eh|reflexivity].
  Qed.

  (** * What saveBlockToStateStore computes on a consistent ledger *)
  Definition stree_ok (h : N) (st : ctree) (sget : option sval) : Prop :=
    if h <? shh then st = empty_tree
    else sget = Some (SVTree (t_size st) (t_hashes st)) /\ t_size st = h - shh + 1
         /\ length (t_hashes st) = count_bit (t_size st).

  Lemma ws_ops_find ws k : (forall rk, k <> SKRaw rk) -> ops_find skey_eqb (map ws_op ws) k = None.
  Proof.
    intro H. apply (ops_find_none skey_eqb skey_eqb_spec). intros o Ho.
    apply in_map_iff in Ho. destruct Ho as ([rk v] & <- & _). unfold ws_op; simpl.
    destruct v; simpl; intro E; apply (H rk); symmetry; exact E.
  Qed.

  Lemma sops_tail_find h (cross : list hash) ws k : (forall rk, k <> SKRaw rk) -> k <> SKCross h ->
    ops_find skey_eqb (cross_ops h cross ++ map ws_op ws) k = None.
  Proof.
    intros H1 H2. rewrite (ops_find_app (K:=skey) (V:=sval)), ws_ops_find by assumption.
    destruct cross; simpl; [reflexivity|].
    rewrite (keqb_neq skey_eqb skey_eqb_spec) by exact H2. reflexivity.
  Qed.

  Lemma sops_find k (sops1 : list sop) v1 v2 (tail : list sop) : ops_find skey_eqb tail k = None ->
    ops_find skey_eqb (sops1 ++ [Put SKBlockTree v1] ++ [Put SKCur v2] ++ tail) k =
    if skey_eqb k SKCur then Some (Some v2)
    else if skey_eqb k SKBlockTree then Some (Some v1)
    else ops_find skey_eqb sops1 k.
  Proof.
    intro Ht. rewrite !(ops_find_app (K:=skey) (V:=sval)), Ht. simpl.
    destruct (skey_eqb k SKCur); [reflexivity|]. destruct (skey_eqb k SKBlockTree); reflexivity.
  Qed.

  Lemma plan_spec l b r :
    consistent l -> bound l -> b_height b = m_h (l_mem l) + 1 -> wf_blk b ->
    exists pl,
      save_state_plan (m_btree (l_mem l)) (m_stree (l_mem l)) b r = Some pl /\
      t_size (pl_btree pl) = m_h (l_mem l) + 2 /\
      length (t_hashes (pl_btree pl)) = count_bit (t_size (pl_btree pl)) /\
      N.of_nat (length (pl_fdata pl)) = (1 + N.of_nat (trailing_ones (m_h (l_mem l) + 1))) * hash_size /\
      ops_find skey_eqb (pl_sops pl) SKCur = Some (Some (SVCur (b_hash b) (b_height b))) /\
      ops_find skey_eqb (pl_sops pl) SKBlockTree
        = Some (Some (SVTree (t_size (pl_btree pl)) (t_hashes (pl_btree pl)))) /\
      stree_ok (b_height b) (pl_stree pl)
        (match ops_find skey_eqb (pl_sops pl) SKStateTree with
         | Some x => x | None => kv_get skey_eqb (d_state (l_disk l)) SKStateTree end).
  Proof.
    intros C B Hh Hw. unfold bound in B.
    destruct (tree_append_spec hc hc_len (m_btree (l_mem l)) (b_txroot b)) as (bt' & stored & Ea & Sa & La & Na & Fa).
    { apply (c_blen _ _ C). } { rewrite (c_bsize _ _ C). lia. }
    specialize (Fa Hw).
    assert (Hfd : N.of_nat (length (concat stored)) = (1 + N.of_nat (trailing_ones (m_h (l_mem l) + 1))) * hash_size).
    { rewrite (concat_len32 _ Fa), Na, (c_bsize _ _ C). rewrite hash_size_32. lia. }
    assert (Hraw1 : forall rk, SKCur <> SKRaw rk) by (intros; discriminate).
    assert (Hraw2 : forall rk, SKBlockTree <> SKRaw rk) by (intros; discriminate).
    assert (Hraw3 : forall rk, SKStateTree <> SKRaw rk) by (intros; discriminate).
    unfold Recovery.save_state_plan, state_tree_step.
    pose proof (c_stree _ _ C) as Cs.
    destruct (b_height b <? shh) eqn:E1.
    - (* below the state-hash height: no state tree yet *)
      rewrite Ea. eexists; split; [reflexivity|]. cbn [pl_btree pl_stree pl_fdata pl_sops].
      split; [rewrite Sa, (c_bsize _ _ C); lia|]. split; [rewrite Sa; exact La|]. split; [exact Hfd|].
      rewrite !sops_find by (apply sops_tail_find; [assumption|discriminate]).
      cbn [skey_eqb]. split; [reflexivity|]. split; [reflexivity|].
      unfold stree_ok. rewrite E1. cbn [ops_find].
      assert (Hlt : m_h (l_mem l) <? shh = true) by (apply N.ltb_lt; apply N.ltb_lt in E1; lia).
      rewrite Hlt in Cs. exact Cs.
    - (* at or above: append the change hash to the state tree *)
      assert (Hst : exists st' x,
        tree_append hc (if b_height b =? shh then empty_tree else m_stree (l_mem l)) (x_hash r) = Some (st', x) /\
        t_size st' = b_height b - shh + 1 /\ length (t_hashes st') = count_bit (t_size st')).
      { apply N.ltb_ge in E1. destruct (b_height b =? shh) eqn:E2.
        - apply N.eqb_eq in E2.
          destruct (tree_append_spec hc hc_len empty_tree (x_hash r)) as (st' & x & Eb & Sb & Lb & _); [reflexivity|simpl; lia|].
          exists st', x. split; [exact Eb|]. simpl in Sb, Lb. split; [rewrite Sb; lia|rewrite Sb; exact Lb].
        - apply N.eqb_neq in E2.
          assert (Hge : m_h (l_mem l) <? shh = false) by (apply N.ltb_ge; lia).
          rewrite Hge in Cs. destruct Cs as (_ & Cs2 & Cs3).
          destruct (tree_append_spec hc hc_len (m_stree (l_mem l)) (x_hash r)) as (st' & x & Eb & Sb & Lb & _);
            [exact Cs3|rewrite Cs2; lia|].
          exists st', x. split; [exact Eb|]. split; [rewrite Sb, Cs2; lia|rewrite Sb; exact Lb]. }
      destruct Hst as (st' & x & Eb & Sb & Lb). rewrite Eb, Ea.
      eexists; split; [reflexivity|]. cbn [pl_btree pl_stree pl_fdata pl_sops].
      split; [rewrite Sa, (c_bsize _ _ C); lia|]. split; [rewrite Sa; exact La|]. split; [exact Hfd|].
      rewrite !sops_find by (apply sops_tail_find; [assumption|discriminate]).
      cbn [skey_eqb ops_find op_key op_val]. split; [reflexivity|].
      split; [reflexivity|].
      unfold stree_ok. rewrite E1. auto.
  Qed.

  (** * submitBlock, step by step *)
  Definition disk_after (d : disk) (pos : N) (b : blk) (pl : plan) : disk :=
    mkDisk (kv_commit bkey_eqb (d_block d) (block_ops b))
           (kv_commit ekey_eqb (d_event d) (pl_eops pl ++ event_ops b))
           (kv_commit skey_eqb (d_state d) (pl_sops pl))
           (file_write (d_file d) pos (pl_fdata pl)).

  Definition mem_after (pos : N) (b : blk) (pl : plan) : mem :=
    mkMem (b_height b) (b_hash b) (pl_btree pl) (pl_stree pl) (Some (pos + N.of_nat (length (pl_fdata pl)))).

  Ltac step_run Hplan Hpos :=
    repeat (cbn [Recovery.run_steps Recovery.run_step set_pend commit_store with_file start_ps no_pend
                 ps_disk ps_mem ps_pend ps_res p_block p_event p_state
                 m_h m_hash m_btree m_stree m_fpos d_block d_event d_state d_file app firstn nth_error
                 Recovery.torn_save_state];
            rewrite ?Hplan, ?Hpos).

  Lemma run_submit l b r pos pl :
    m_fpos (l_mem l) = Some pos ->
    save_state_plan (m_btree (l_mem l)) (m_stree (l_mem l)) b r = Some pl ->
    run_steps submit_steps b (start_ps l (Some r))
    = Ok (mkPs (disk_after (l_disk l) pos b pl) (mem_after pos b pl) no_pend (Some r)).
  Proof.
    intros Hpos Hplan. unfold submit_steps. step_run Hplan Hpos. reflexivity.
  Qed.

  (** The shapes of data directory a crash during [submitBlock] can leave. *)
  Inductive crash_shape (l : ledger) (pos : N) (b : blk) (pl : plan) (dk : disk) : Prop :=
  | CS_old :
      d_block dk = d_block (l_disk l) -> d_event dk = d_event (l_disk l) -> d_state dk = d_state (l_disk l) ->
      (N.to_nat pos <= length (d_file dk))%nat ->
      firstn (N.to_nat pos) (d_file dk) = firstn (N.to_nat pos) (d_file (l_disk l)) ->
      crash_shape l pos b pl dk
  | CS_block :
      dk = mkDisk (kv_commit bkey_eqb (d_block (l_disk l)) (block_ops b)) (d_event (l_disk l)) (d_state (l_disk l))
                  (file_write (d_file (l_disk l)) pos (pl_fdata pl)) ->
      crash_shape l pos b pl dk
  | CS_block_event :
      dk = mkDisk (kv_commit bkey_eqb (d_block (l_disk l)) (block_ops b))
                  (kv_commit ekey_eqb (d_event (l_disk l)) (pl_eops pl ++ event_ops b)) (d_state (l_disk l))
                  (file_write (d_file (l_disk l)) pos (pl_fdata pl)) ->
      crash_shape l pos b pl dk
  | CS_all : dk = disk_after (l_disk l) pos b pl -> crash_shape l pos b pl dk.

  Ltac shape_solve Hlen :=
    first
      [ solve [apply CS_all; reflexivity]
      | solve [apply CS_block_event; reflexivity]
      | solve [apply CS_block; reflexivity]
      | solve [apply CS_old; cbn [d_block d_event d_state d_file with_file];
               first [reflexivity | exact Hlen
                     | apply file_write_length_ge; exact Hlen
                     | apply file_write_prefix; exact Hlen]] ].

  Lemma crash_submit_shape l b r pos pl :
    m_fpos (l_mem l) = Some pos -> (N.to_nat pos <= length (d_file (l_disk l)))%nat ->
    save_state_plan (m_btree (l_mem l)) (m_stree (l_mem l)) b r = Some pl ->
    forall c j, exists dk,
      crash_steps submit_steps c j b (start_ps l (Some r)) = Ok dk /\ crash_shape l pos b pl dk.
  Proof.
    intros Hpos Hlen Hplan c j.
    destruct (le_lt_dec (length submit_steps) c) as [Hge|Hlt].
    - (* after the last step *)
      unfold Recovery.crash_steps. rewrite firstn_all2 by exact Hge.
      replace (nth_error submit_steps c) with (@None step) by (symmetry; apply nth_error_None; exact Hge).
      rewrite (run_submit l b r pos pl Hpos Hplan). eexists; split; [reflexivity|shape_solve Hlen].
    - unfold Recovery.crash_steps, submit_steps in *. cbn [length] in Hlt.
      repeat (destruct c as [|c];
              [step_run Hplan Hpos; eexists; split; [reflexivity|shape_solve Hlen]
              |try (exfalso; lia)]).
  Qed.

  (** * Reopening *)
  Lemma recover_loop_zero fuel i sh bh ps :
    recover_continue i sh bh = false -> recover_loop fuel i sh bh ps = Ok ps.
  Proof. intro H. destruct fuel; cbn [Recovery.recover_loop]; rewrite H; reflexivity. Qed.

  Lemma recover_loop_once fuel i sh bh ps ps' :
    recover_continue i sh bh = true -> recover_body i sh bh ps = Ok ps' ->
    recover_continue (recover_next i) sh bh = false ->
    recover_loop (S fuel) i sh bh ps = Ok ps'.
  Proof.
    intros H1 H2 H3. cbn [Recovery.recover_loop]. rewrite H1, H2. apply recover_loop_zero; exact H3.
  Qed.

  (** NewStateStore.init on a directory whose state store is that of a consistent ledger and whose
      hash file is at least as long as the committed tree needs. *)
  Lemma state_store_init_ok l dk :
    consistent l -> m_h (l_mem l) + 2 < 4294967296 -> d_state dk = d_state (l_disk l) ->
    (N.to_nat (stored_hash_num (m_h (l_mem l) + 1) * hash_size) <= length (d_file dk))%nat ->
    state_store_init shh dk
    = Ok (m_btree (l_mem l), m_stree (l_mem l), Some (stored_hash_num (m_h (l_mem l) + 1) * hash_size)).
  Proof.
    intros C B Hs Hf.
    unfold state_store_init, state_height_or_zero, load_tree. rewrite Hs.
    rewrite (c_scur _ _ C), (c_btree _ _ C), (c_bsize _ _ C).
    rewrite init_block_tree_size_ok by lia. rewrite Bool.andb_false_r.
    rewrite (open_hash_file_ok _ _ Hf).
    unfold new_tree. rewrite <- (c_bsize _ _ C), (c_blen _ _ C), Nat.eqb_refl, tree_eta.
    pose proof (c_stree _ _ C) as Cs.
    destruct (m_h (l_mem l) <? shh) eqn:E.
    - apply N.ltb_lt in E. replace (shh <=? m_h (l_mem l)) with false by (symmetry; apply N.leb_gt; exact E).
      rewrite Cs. reflexivity.
    - apply N.ltb_ge in E. replace (shh <=? m_h (l_mem l)) with true by (symmetry; apply N.leb_le; exact E).
      destruct Cs as (Cs1 & Cs2 & Cs3). rewrite Cs1, Cs2.
      rewrite init_state_tree_size_ok by lia. rewrite Bool.andb_false_r.
      rewrite <- Cs2, Cs3, Nat.eqb_refl, tree_eta. reflexivity.
  Qed.

  (** Block store and state store at the same height: nothing to replay. *)
  Lemma reopen_same l dk :
    consistent l -> m_h (l_mem l) + 2 < 4294967296 ->
    d_block dk = d_block (l_disk l) -> d_state dk = d_state (l_disk l) ->
    (N.to_nat (stored_hash_num (m_h (l_mem l) + 1) * hash_size) <= length (d_file dk))%nat ->
    reopen dk = Ok (mkLedger dk (l_mem l)).
  Proof.
    intros C B Hb Hs Hf. unfold Recovery.reopen.
    rewrite (state_store_init_ok l dk C B Hs Hf). rewrite Hb, Hs.
    rewrite (c_ver _ _ C), (c_bcur _ _ C), (c_scur _ _ C). cbn [negb N.eqb SYSTEM_VERSION Pos.eqb].
    rewrite recover_loop_zero by (apply recover_loop_arith_same; lia).
    cbn [ps_disk ps_mem]. rewrite <- (c_fpos _ _ C), mem_eta. reflexivity.
  Qed.

  Lemma run_recover b r pl pos dk m pd :
    exec (d_state dk) b = Some r -> m_fpos m = Some pos ->
    save_state_plan (m_btree m) (m_stree m) b r = Some pl ->
    run_steps recover_steps b (mkPs dk m pd None)
    = Ok (mkPs (mkDisk (d_block dk)
                       (kv_commit ekey_eqb (d_event dk) (pl_eops pl ++ event_ops b))
                       (kv_commit skey_eqb (d_state dk) (pl_sops pl))
                       (file_write (d_file dk) pos (pl_fdata pl)))
               (mkMem (m_h m) (m_hash m) (pl_btree pl) (pl_stree pl) (Some (pos + N.of_nat (length (pl_fdata pl)))))
               (mkPend (p_block pd) None None) (Some r)).
  Proof.
    intros Hx Hpos Hplan. unfold recover_steps.
    repeat (cbn [Recovery.run_steps Recovery.run_step set_pend commit_store with_file
                 ps_disk ps_mem ps_pend ps_res p_block p_event p_state
                 m_h m_hash m_btree m_stree m_fpos d_block d_event d_state d_file app];
            rewrite ?Hx, ?Hplan, ?Hpos).
    reflexivity.
  Qed.

  Lemma block_ops_get bs b :
    let bs' := kv_commit bkey_eqb bs (block_ops b) in
    kv_get bkey_eqb bs' BKVersion = kv_get bkey_eqb bs BKVersion /\
    kv_get bkey_eqb bs' BKCur = Some (BVCur (b_hash b) (b_height b)) /\
    kv_get bkey_eqb bs' (BKHash (b_height b)) = Some (BVHash (b_hash b)) /\
    kv_get bkey_eqb bs' (BKBlock (b_hash b)) = Some (BVBlock b).
  Proof.
    cbv zeta. rewrite !(kv_get_commit bkey_eqb bkey_eqb_spec). unfold block_ops.
    cbn [ops_find op_key op_val bkey_eqb]. rewrite N.eqb_refl.
    replace (bytes_eqb (b_hash b) (b_hash b)) with true by (symmetry; apply bytes_eqb_eq; reflexivity).
    repeat split; reflexivity.
  Qed.

  (** The block store is one block ahead of the state store (crash after the block-store commit,
      before the state-store commit): [recoverStore] re-executes exactly that block. [ev] is the
      event store found on disk (committed or not). *)
  Lemma reopen_replay l b r pl pos ev :
    consistent l -> bound l -> precheck l b = inr r ->
    m_fpos (l_mem l) = Some pos ->
    save_state_plan (m_btree (l_mem l)) (m_stree (l_mem l)) b r = Some pl ->
    reopen (mkDisk (kv_commit bkey_eqb (d_block (l_disk l)) (block_ops b)) ev (d_state (l_disk l))
                   (file_write (d_file (l_disk l)) pos (pl_fdata pl)))
    = Ok (mkLedger (mkDisk (kv_commit bkey_eqb (d_block (l_disk l)) (block_ops b))
                           (kv_commit ekey_eqb ev (pl_eops pl ++ event_ops b))
                           (kv_commit skey_eqb (d_state (l_disk l)) (pl_sops pl))
                           (file_write (d_file (l_disk l)) pos (pl_fdata pl)))
                   (mem_after pos b pl)).
  Proof.
    intros C B Hpre Hpos Hplan. pose proof B as B'. unfold bound in B'.
    destruct (precheck_inr l b r Hpre) as [Hh Hx]. rewrite u32_small in Hh by lia.
    pose proof (c_fpos _ _ C) as Cf. rewrite Hpos in Cf. injection Cf as Epos. try subst pos.
    pose proof (c_flen _ _ C) as Cl.
    set (pos := stored_hash_num (m_h (l_mem l) + 1) * hash_size) in *.
    assert (Hlen : (N.to_nat pos <= length (d_file (l_disk l)))%nat) by lia.
    set (dk := mkDisk _ ev _ _).
    unfold Recovery.reopen.
    rewrite (state_store_init_ok l dk C ltac:(lia) eq_refl)
      by (apply file_write_length_ge; exact Hlen).
    destruct (block_ops_get (d_block (l_disk l)) b) as (G1 & G2 & G3 & G4).
    cbn [dk d_block d_state]. rewrite G1, G2, (c_ver _ _ C), (c_scur _ _ C).
    cbn [negb N.eqb SYSTEM_VERSION Pos.eqb].
    destruct (recover_loop_arith_ahead (m_h (l_mem l)) ltac:(lia)) as (A1 & A2 & A3).
    rewrite Hh.
    replace (N.to_nat (m_h (l_mem l) + 1) + 2)%nat with (S (N.to_nat (m_h (l_mem l) + 1) + 1)) by lia.
    match goal with |- context [recover_loop _ ?i ?sh ?bh ?ps] =>
      assert (Hbody : recover_body i sh bh ps
        = Ok (mkPs (mkDisk (kv_commit bkey_eqb (d_block (l_disk l)) (block_ops b))
                           (kv_commit ekey_eqb ev (pl_eops pl ++ event_ops b))
                           (kv_commit skey_eqb (d_state (l_disk l)) (pl_sops pl))
                           (file_write (d_file (l_disk l)) pos (pl_fdata pl)))
                   (mem_after pos b pl) no_pend (Some r)))
    end.
    { unfold Recovery.recover_body. rewrite A2. cbn [ps_disk dk d_block]. rewrite Hh in G3. rewrite G3, G4.
      rewrite (run_recover b r pl pos) by (unfold dk; cbn [d_state m_btree m_stree m_fpos]; first [assumption|reflexivity]).
      unfold dk. cbn [ps_disk ps_mem d_block d_event d_state d_file m_h m_hash no_pend p_block].
      rewrite file_write_idem by exact Hlen. unfold mem_after. rewrite Hh. reflexivity. }
    rewrite (recover_loop_once _ _ _ _ _ _ A1 Hbody A3). reflexivity.
  Qed.

  (** * The uncrashed run keeps the invariant *)
  Lemma add_block_accepted l b r pl pos :
    precheck l b = inr r -> m_fpos (l_mem l) = Some pos ->
    save_state_plan (m_btree (l_mem l)) (m_stree (l_mem l)) b r = Some pl ->
    add_block l b = (mkLedger (disk_after (l_disk l) pos b pl) (mem_after pos b pl), OAccepted).
  Proof.
    intros Hpre Hpos Hplan. unfold Recovery.add_block. rewrite Hpre.
    rewrite (run_submit l b r pos pl Hpos Hplan). reflexivity.
  Qed.

  Lemma add_block_rejected l b o : precheck l b = inl o -> add_block l b = (l, o).
  Proof. intro H. unfold Recovery.add_block. rewrite H. reflexivity. Qed.

  Lemma after_consistent l b r pl :
    consistent l -> bound l -> wf_blk b -> precheck l b = inr r ->
    save_state_plan (m_btree (l_mem l)) (m_stree (l_mem l)) b r = Some pl ->
    (forall pl', save_state_plan (m_btree (l_mem l)) (m_stree (l_mem l)) b r = Some pl' -> pl' = pl) ->
    consistent (mkLedger (disk_after (l_disk l) (stored_hash_num (m_h (l_mem l) + 1) * hash_size) b pl)
                         (mem_after (stored_hash_num (m_h (l_mem l) + 1) * hash_size) b pl)).
  Proof.
    intros C B Hw Hpre Hplan Huniq. pose proof B as B'. unfold bound in B'.
    destruct (precheck_inr l b r Hpre) as [Hh Hx]. rewrite u32_small in Hh by lia.
    destruct (plan_spec l b r C B Hh Hw) as (pl' & Hplan' & P1 & P2 & P3 & P4 & P5 & P6).
    apply Huniq in Hplan'. subst pl'.
    destruct (block_ops_get (d_block (l_disk l)) b) as (G1 & G2 & _).
    pose proof (c_flen _ _ C) as Cl.
    set (pos := stored_hash_num (m_h (l_mem l) + 1) * hash_size) in *.
    assert (Hlen : (N.to_nat pos <= length (d_file (l_disk l)))%nat) by lia.
    constructor; cbn [l_disk l_mem disk_after mem_after d_block d_event d_state d_file m_h m_hash m_btree m_stree m_fpos].
    - rewrite G1. apply (c_ver _ _ C).
    - exact G2.
    - rewrite (kv_get_commit skey_eqb skey_eqb_spec), P4. reflexivity.
    - rewrite (kv_get_commit skey_eqb skey_eqb_spec), P5. reflexivity.
    - rewrite P1, Hh. lia.
    - exact P2.
    - unfold stree_ok in P6. rewrite (kv_get_commit skey_eqb skey_eqb_spec). exact P6.
    - f_equal. rewrite Hh. replace (m_h (l_mem l) + 1 + 1) with ((m_h (l_mem l) + 1) + 1) by lia.
      rewrite (stored_hash_num_succ (m_h (l_mem l) + 1)). unfold pos. rewrite P3. lia.
    - rewrite Hh. replace (m_h (l_mem l) + 1 + 1) with ((m_h (l_mem l) + 1) + 1) by lia.
      rewrite (stored_hash_num_succ (m_h (l_mem l) + 1)).
      pose proof (file_write_length (d_file (l_disk l)) pos (pl_fdata pl) Hlen). unfold pos in *. lia.
  Qed.

  Lemma add_block_consistent l b :
    consistent l -> bound l -> wf_blk b ->
    consistent (fst (add_block l b)) /\
    (m_h (l_mem (fst (add_block l b))) = m_h (l_mem l)
     \/ (snd (add_block l b) = OAccepted /\ m_h (l_mem (fst (add_block l b))) = m_h (l_mem l) + 1)).
  Proof.
    intros C B Hw. destruct (precheck l b) as [o|r] eqn:Hpre.
    - rewrite (add_block_rejected l b o Hpre). split; [exact C|left; reflexivity].
    - pose proof B as B'. unfold bound in B'.
      destruct (precheck_inr l b r Hpre) as [Hh Hx]. rewrite u32_small in Hh by lia.
      destruct (plan_spec l b r C B Hh Hw) as (pl & Hplan & _).
      rewrite (add_block_accepted l b r pl _ Hpre (c_fpos _ _ C) Hplan). cbn [fst snd].
      split.
      + apply (after_consistent l b r pl C B Hw Hpre Hplan). intros pl' E; congruence.
      + right. split; [reflexivity|]. cbn [l_mem mem_after m_h]. exact Hh.
  Qed.

  Definition chain_bound (l : ledger) (n : nat) : Prop := m_h (l_mem l) + N.of_nat n + 3 < 4294967296.

  Lemma run_consistent bs : forall l,
    consistent l -> chain_bound l (length bs) -> Forall wf_blk bs ->
    consistent (run l bs) /\ m_h (l_mem (run l bs)) <= m_h (l_mem l) + N.of_nat (length bs).
  Proof.
    induction bs as [|b r IH]; intros l C B W; [split; [exact C|simpl; lia]|].
    inversion W as [|? ? Wb Wr]; subst. unfold chain_bound in B. cbn [length] in B.
    destruct (add_block_consistent l b C) as [C' Hh]; [unfold bound; lia|exact Wb|].
    cbn [Recovery.run]. destruct (IH (fst (add_block l b)) C') as [C'' Hle].
    - unfold chain_bound. destruct Hh as [Hh|[_ Hh]]; rewrite Hh; lia.
    - exact Wr.
    - split; [exact C''|]. cbn [length]. destruct Hh as [Hh|[_ Hh]]; rewrite Hh in Hle; lia.
  Qed.

  (** * One crash, anywhere in the commit of one block, on a consistent ledger *)
  Lemma recover_one l b c j :
    consistent l -> bound l -> wf_blk b ->
    exists dk l',
      crash_add l b c j = Ok dk /\ reopen dk = Ok l' /\
      (equiv l' l \/ (snd (add_block l b) = OAccepted /\ equiv l' (fst (add_block l b)))).
  Proof.
    intros C B Hw. unfold Recovery.crash_add.
    destruct (precheck l b) as [o|r] eqn:Hpre.
    - (* turned away before submitBlock: nothing was written *)
      exists (l_disk l), l. split; [reflexivity|]. split.
      + rewrite (reopen_same l (l_disk l) C ltac:(unfold bound in B; lia) eq_refl eq_refl).
        * rewrite ledger_eta; reflexivity.
        * pose proof (c_flen _ _ C). lia.
      + left. apply (equiv_refl hc hempty shh hc_len); exact C.
    - pose proof B as B'. unfold bound in B'.
      destruct (precheck_inr l b r Hpre) as [Hh Hx]. rewrite u32_small in Hh by lia.
      destruct (plan_spec l b r C B Hh Hw) as (pl & Hplan & _).
      pose proof (c_fpos _ _ C) as Hpos. pose proof (c_flen _ _ C) as Cl.
      set (pos := stored_hash_num (m_h (l_mem l) + 1) * hash_size) in *.
      assert (Hlen : (N.to_nat pos <= length (d_file (l_disk l)))%nat) by lia.
      assert (C2 : consistent (mkLedger (disk_after (l_disk l) pos b pl) (mem_after pos b pl))).
      { apply (after_consistent l b r pl C B Hw Hpre Hplan). intros pl' E; congruence. }
      rewrite (add_block_accepted l b r pl pos Hpre Hpos Hplan). cbn [fst snd].
      destruct (crash_submit_shape l b r pos pl Hpos Hlen Hplan c j) as (dk & Hcr & Hshape).
      exists dk. destruct Hshape as [Hb He Hs Hfl Hfp|Hd|Hd|Hd].
      + (* nothing committed; the hash file may carry a torn or complete append *)
        exists (mkLedger dk (l_mem l)). split; [exact Hcr|]. split.
        * apply (reopen_same l dk C ltac:(lia) Hb Hs). exact Hfl.
        * left. split; [reflexivity|]. cbn [l_mem l_disk]. rewrite Hpos.
          split; [exact Hb|]. split; [exact Hs|]. split; [intro k; rewrite He; reflexivity|].
          cbn [file_agree]. repeat split; assumption.
      + (* block store committed *)
        subst dk. eexists. split; [exact Hcr|]. split.
        * apply (reopen_replay l b r pl pos _ C B Hpre Hpos Hplan).
        * right. split; [reflexivity|]. apply (equiv_refl hc hempty shh hc_len). exact C2.
      + (* block and event stores committed: the replay re-saves the events *)
        subst dk. eexists. split; [exact Hcr|]. split.
        * apply (reopen_replay l b r pl pos _ C B Hpre Hpos Hplan).
        * right. split; [reflexivity|]. split; [reflexivity|].
          cbn [l_mem l_disk mem_after m_fpos disk_after].
          split; [reflexivity|]. split; [reflexivity|]. split.
          -- intro k. cbn [d_event]. apply (kv_commit_twice_get ekey_eqb ekey_eqb_spec).
          -- cbn [file_agree d_file disk_after].
             pose proof (file_write_length (d_file (l_disk l)) pos (pl_fdata pl) Hlen).
             repeat split; lia.
      + (* everything committed *)
        subst dk. exists (mkLedger (disk_after (l_disk l) pos b pl) (mem_after pos b pl)).
        split; [exact Hcr|]. split.
        * pose proof (reopen_same _ (disk_after (l_disk l) pos b pl) C2) as R.
          cbn [l_disk l_mem] in R. apply R; try reflexivity.
          -- cbn [l_mem mem_after m_h]. lia.
          -- pose proof (c_flen _ _ C2) as Cl2. cbn [l_disk l_mem mem_after m_h] in Cl2 |- *. lia.
        * right. split; [reflexivity|]. apply (equiv_refl hc hempty shh hc_len). exact C2.
  Qed.

  (** * The statement of C01 on the model: after any prefix of a chain, a crash at any point of
      the commit of the next block, then reopening. *)
  Definition recovered_as (l' lref : ledger) (more : list blk) : Prop :=
    equiv l' lref /\ observe l' = observe lref /\
    run_outcomes l' more = run_outcomes lref more /\
    observe (run l' more) = observe (run lref more).

  Lemma recovered_as_of_equiv l' lref more : equiv l' lref -> recovered_as l' lref more.
  Proof.
    intro E. split; [exact E|]. split; [apply observe_equiv; exact E|].
    destruct (run_equiv hc hempty shh exec hdr_ok hc_len more l' lref E) as [Ho El].
    split; [exact Ho|apply observe_equiv; exact El].
  Qed.

  Lemma recover_equiv_chain l0 bs b c j more :
    consistent l0 -> chain_bound l0 (S (length bs)) -> Forall wf_blk bs -> wf_blk b ->
    let l := run l0 bs in
    exists dk l',
      crash_add l b c j = Ok dk /\ reopen dk = Ok l' /\
      (recovered_as l' l more
       \/ (snd (add_block l b) = OAccepted /\
           m_h (l_mem (fst (add_block l b))) = m_h (l_mem l) + 1 /\
           recovered_as l' (fst (add_block l b)) more)).
  Proof.
    intros C0 B0 W Wb l. unfold chain_bound in B0.
    destruct (run_consistent bs l0 C0) as [C Hle]; [unfold chain_bound; lia|exact W|].
    fold l in C, Hle.
    assert (B : bound l) by (unfold bound; lia).
    destruct (recover_one l b c j C B Wb) as (dk & l' & Hc & Hr & H).
    exists dk, l'. split; [exact Hc|]. split; [exact Hr|].
    destruct H as [E|[Ha E]].
    - left. apply recovered_as_of_equiv; exact E.
    - right. split; [exact Ha|]. split.
      + destruct (add_block_consistent l b C B Wb) as [_ [Hh|[_ Hh]]]; [|exact Hh].
        exfalso. destruct E as [Em _].
        (* an accepted block raises the height: read it off the explicit result *)
        destruct (precheck l b) as [o|r] eqn:Hpre.
        * rewrite (add_block_rejected l b o Hpre) in Ha. cbn [snd] in Ha. subst o.
          unfold Recovery.precheck in Hpre.
          repeat match type of Hpre with
                 | (if ?c then _ else _) = _ => destruct c; try discriminate
                 | match ?x with _ => _ end = _ => destruct x; try discriminate
                 end.
        * pose proof B as B'. unfold bound in B'.
          destruct (precheck_inr l b r Hpre) as [Hb _]. rewrite u32_small in Hb by lia.
          destruct (plan_spec l b r C B Hb Wb) as (pl & Hplan & _).
          rewrite (add_block_accepted l b r pl _ Hpre (c_fpos _ _ C) Hplan) in Hh.
          cbn [fst l_mem mem_after m_h] in Hh. lia.
      + apply recovered_as_of_equiv; exact E.
  Qed.

  (** * Any number of crashes *)
  Lemma equiv_consistent l' l : equiv l' l -> consistent l -> consistent l'.
  Proof.
    intros (Hm & Hb & Hs & _ & Hf) C.
    rewrite Hm, (c_fpos _ _ C) in Hf. cbn [file_agree] in Hf. destruct Hf as (_ & Hl & _).
    constructor; rewrite ?Hm, ?Hb, ?Hs; try apply C. lia.
  Qed.

  Notation run_hist := (run_hist hc hempty shh exec hdr_ok).

  (** Which blocks a history leaves applied: every added block, and each crashed block or not. *)
  Inductive kept : list hevent -> list blk -> Prop :=
  | K_nil : kept [] []
  | K_add b h bs : kept h bs -> kept (HAdd b :: h) (b :: bs)
  | K_crash_new b c j h bs : kept h bs -> kept (HCrash b c j :: h) (b :: bs)
  | K_crash_old b c j h bs : kept h bs -> kept (HCrash b c j :: h) bs.

  Lemma recover_history h : forall la lb,
    consistent la -> consistent lb -> equiv la lb ->
    chain_bound la (length h) -> Forall wf_blk (map hblk h) ->
    exists lf bs, run_hist la h = Ok lf /\ kept h bs /\ equiv lf (run lb bs).
  Proof.
    induction h as [|e r IH]; intros la lb Ca Cb E B W.
    - exists la, []. split; [reflexivity|]. split; [constructor|exact E].
    - cbn [map] in W. inversion W as [|? ? Wb Wr]; subst.
      unfold chain_bound in B. cbn [length] in B.
      assert (Hmh : m_h (l_mem la) = m_h (l_mem lb)) by (destruct E as [Hm _]; rewrite Hm; reflexivity).
      assert (Ba : bound la) by (unfold bound; lia).
      assert (Bb : bound lb) by (unfold bound; lia).
      destruct (add_block_equiv hc hempty shh exec hdr_ok hc_len la lb (hblk e) E) as [Eo El].
      destruct (add_block_consistent lb (hblk e) Cb Bb Wb) as [Cb' Hb'].
      destruct e as [b|b c j]; cbn [hblk] in *.
      + (* the block is added *)
        destruct (add_block_consistent la b Ca Ba Wb) as [Ca' Ha'].
        destruct (IH _ _ Ca' Cb' El) as (lf & bs & Hr & Hk & Ef); [|exact Wr|].
        { unfold chain_bound. destruct Ha' as [Ha'|[_ Ha']]; rewrite Ha'; lia. }
        exists lf, (b :: bs). split; [exact Hr|]. split; [constructor; exact Hk|exact Ef].
      + (* the process dies while the block is added, and the directory is reopened *)
        destruct (recover_one la b c j Ca Ba Wb) as (dk & l' & Hc & Hre & Hcase).
        cbn [Recovery.run_hist]. rewrite Hc, Hre.
        destruct Hcase as [E'|[Hacc E']].
        * assert (C' : consistent l') by (apply (equiv_consistent l' la E' Ca)).
          assert (E'' : equiv l' lb) by (apply (equiv_trans l' la lb E' E)).
          destruct (IH _ _ C' Cb E'') as (lf & bs & Hr & Hk & Ef); [|exact Wr|].
          { unfold chain_bound. destruct E' as [Hm _]. rewrite Hm. lia. }
          exists lf, bs. split; [exact Hr|]. split; [apply K_crash_old; exact Hk|exact Ef].
        * destruct (add_block_consistent la b Ca Ba Wb) as [Ca' Ha'].
          assert (C' : consistent l') by (apply (equiv_consistent l' _ E' Ca')).
          assert (E'' : equiv l' (fst (add_block lb b))) by (apply (equiv_trans l' _ _ E' El)).
          destruct (IH _ _ C' Cb' E'') as (lf & bs & Hr & Hk & Ef); [|exact Wr|].
          { unfold chain_bound. destruct E' as [Hm _]. rewrite Hm.
            destruct Ha' as [Ha'|[_ Ha']]; rewrite Ha'; lia. }
          exists lf, (b :: bs). split; [exact Hr|]. split; [apply K_crash_new; exact Hk|exact Ef].
  Qed.
End Crash.
