(** Proofs about the ComputeMerkleRoot model (Model/BlockCodec.v): the root binds a duplicate-free
    list of 32-byte hashes, constructively (a failure of binding exhibits a collision of [H], or a
    leaf that is itself the hash of a 64-byte string — the leaf/inner-node confusion — which the
    code does not exclude). No collision-freedom assumption anywhere. *)
From Coq Require Import List Bool Arith NArith Lia.
Import ListNotations.
From Ont Require Import Lib.Bytes Gen.CodecConsts Model.Codec Model.BlockCodecTypes Gen.BlockLayout Model.BlockCodec.

Lemma bytes_dec : forall a b : bytes, {a = b} + {a <> b}.
Proof. apply list_eq_dec. apply N.eq_dec. Qed.

Section Merkle.
Variable H : bytes -> bytes.
Hypothesis H_len : forall x, length (H x) = HASH_SIZE.

Notation pair_level := (pair_level H).
Notation merkle_fuel := (merkle_fuel H).
Notation merkle_root := (merkle_root H).

(** An explicit collision of [H]. *)
Definition collision : Prop := exists x y : bytes, x <> y /\ H x = H y.

(** [x] has the form of an inner node: the hash of two concatenated 32-byte strings. *)
Definition inner_form (x : bytes) : Prop :=
  exists u v : bytes, length u = HASH_SIZE /\ length v = HASH_SIZE /\ x = H (u ++ v).

Definition all32 (l : list bytes) : Prop := Forall (fun x => length x = HASH_SIZE) l.

Lemma H_inj_or_coll a b : H a = H b -> a = b \/ collision.
Proof.
  intro E. destruct (bytes_dec a b) as [e|n]; [left; exact e|right; exists a, b; split; assumption].
Qed.

Lemma app_inj_len (a b c d : bytes) : length a = length c -> a ++ b = c ++ d -> a = c /\ b = d.
Proof.
  revert c; induction a as [|x a IH]; intros [|y c] L E; simpl in *; try discriminate.
  - split; [reflexivity|exact E].
  - inversion E; subst. destruct (IH c) as [E1 E2]; [lia|assumption|]. subst. split; reflexivity.
Qed.

(** ** Shape of one pairing pass *)
Lemma pair_level_length l : length (pair_level l) = Nat.div2 (S (length l)).
Proof.
  assert (G : forall n (l : list bytes), (length l <= n)%nat -> length (pair_level l) = Nat.div2 (S (length l))).
  { induction n as [|n IH]; intros [|x [|y r]] L; simpl in *; try reflexivity; try lia.
    f_equal. apply IH. lia. }
  apply (G (length l)). lia.
Qed.

Lemma div2_lt n : (2 <= n)%nat -> (Nat.div2 (S n) < n)%nat.
Proof.
  intro Hn. pose proof (Nat.div2_odd (S n)) as E.
  destruct (Nat.odd (S n)); simpl Nat.b2n in E; lia.
Qed.

Lemma pair_level_shorter l : (2 <= length l)%nat -> (length (pair_level l) < length l)%nat.
Proof. intro L. rewrite pair_level_length. apply div2_lt; exact L. Qed.

Lemma pair_level_nonempty l : l <> [] -> pair_level l <> [].
Proof. destruct l as [|x [|y r]]; simpl; congruence. Qed.

Lemma pair_level_nil l : pair_level l = [] -> l = [].
Proof. destruct l as [|x [|y r]]; simpl; congruence. Qed.

Lemma pair_level_all32 l : all32 (pair_level l).
Proof.
  assert (G : forall n (l : list bytes), (length l <= n)%nat -> all32 (pair_level l)).
  { induction n as [|n IH]; intros [|x [|y r]] L; simpl in *; try lia; try constructor; auto; try constructor.
    apply IH; lia. }
  apply (G (length l)); lia.
Qed.

(** Two-step induction principle on lists. *)
Lemma list_ind2 (P : list bytes -> Prop) :
  P [] -> (forall x, P [x]) -> (forall x y r, P r -> P (x :: y :: r)) -> forall l, P l.
Proof.
  intros P0 P1 P2. assert (G : forall l, P l /\ forall x, P (x :: l)).
  { induction l as [|y r [IH1 IH2]]; split; auto. }
  intro l; apply G.
Qed.

Lemma pair_level_in z l : all32 l -> In z (pair_level l) ->
  exists a b, In a l /\ In b l /\ length a = HASH_SIZE /\ length b = HASH_SIZE /\ z = H (a ++ b).
Proof.
  induction l as [| x | x y r IH] using list_ind2; intros A I; simpl in *.
  - contradiction.
  - destruct I as [I|[]]. inversion A; subst. exists x, x. auto 10.
  - inversion A as [|? ? Lx A']; subst. inversion A' as [|? ? Ly A'']; subst.
    destruct I as [I|I].
    + exists x, y. auto 10.
    + destruct (IH A'' I) as (a & b & Ia & Ib & R). exists a, b. auto 10.
Qed.

Lemma pair_level_inner l : all32 l -> Forall inner_form (pair_level l).
Proof.
  intro A. apply Forall_forall. intros z I.
  destruct (pair_level_in z l A I) as (a & b & _ & _ & La & Lb & E). exists a, b. auto.
Qed.

(** ** One pass is injective on duplicate-free lists (or a collision is exhibited).
    This is where the duplicate check is needed: [a;b;c] and [a;b;c;c] pair to the same list. *)
Lemma pair_level_inj l1 : forall l2, all32 l1 -> all32 l2 -> NoDup l1 -> NoDup l2 ->
  pair_level l1 = pair_level l2 -> l1 = l2 \/ collision.
Proof.
  induction l1 as [| x | x y r IH] using list_ind2; intros l2 A1 A2 N1 N2 E.
  - left. symmetry. apply pair_level_nil. simpl in E. congruence.
  - destruct l2 as [|x' [|y' r']]; simpl in E; try discriminate.
    + inversion E as [E1]. destruct (H_inj_or_coll _ _ E1) as [E2|C]; [|right; exact C].
      inversion A1; inversion A2; subst.
      apply app_inj_len in E2; [|congruence]. destruct E2; subst. left; reflexivity.
    + inversion E as [[E1 E3]]. destruct (H_inj_or_coll _ _ E1) as [E2|C]; [|right; exact C].
      inversion A1; subst. inversion A2 as [|? ? Lx' A2']; subst. inversion A2'; subst.
      apply app_inj_len in E2; [|congruence]. destruct E2; subst.
      exfalso. inversion N2 as [|? ? Hn _]; subst. apply Hn. left; reflexivity.
  - destruct l2 as [|x' [|y' r']]; simpl in E; try discriminate.
    + inversion E as [[E1 E3]]. destruct (H_inj_or_coll _ _ E1) as [E2|C]; [|right; exact C].
      inversion A2; subst. inversion A1 as [|? ? Lx A1']; subst. inversion A1'; subst.
      apply app_inj_len in E2; [|congruence]. destruct E2; subst.
      exfalso. inversion N1 as [|? ? Hn _]; subst. apply Hn. left; reflexivity.
    + inversion E as [[E1 E3]]. destruct (H_inj_or_coll _ _ E1) as [E2|C]; [|right; exact C].
      inversion A1 as [|? ? Lx A1']; subst. inversion A1' as [|? ? Ly A1'']; subst.
      inversion A2 as [|? ? Lx' A2']; subst. inversion A2' as [|? ? Ly' A2'']; subst.
      apply app_inj_len in E2; [|congruence]. destruct E2; subst.
      inversion N1 as [|? ? _ N1']; subst. inversion N1' as [|? ? _ N1'']; subst.
      inversion N2 as [|? ? _ N2']; subst. inversion N2' as [|? ? _ N2'']; subst.
      destruct (IH r' A1'' A2'' N1'' N2'' E3) as [Er|C]; [subst; left; reflexivity|right; exact C].
Qed.

(** Same-length lists need no duplicate-freeness. *)
Lemma pair_level_inj_len l1 : forall l2, all32 l1 -> all32 l2 -> length l1 = length l2 ->
  pair_level l1 = pair_level l2 -> l1 = l2 \/ collision.
Proof.
  induction l1 as [| x | x y r IH] using list_ind2; intros l2 A1 A2 L E.
  - destruct l2; [left; reflexivity|discriminate].
  - destruct l2 as [|x' [|y' r']]; try discriminate. simpl in E.
    inversion E as [E1]. destruct (H_inj_or_coll _ _ E1) as [E2|C]; [|right; exact C].
    inversion A1; inversion A2; subst.
    apply app_inj_len in E2; [|congruence]. destruct E2; subst. left; reflexivity.
  - destruct l2 as [|x' [|y' r']]; try discriminate. simpl in E, L.
    inversion E as [[E1 E3]]. destruct (H_inj_or_coll _ _ E1) as [E2|C]; [|right; exact C].
    inversion A1 as [|? ? Lx A1']; subst. inversion A1' as [|? ? Ly A1'']; subst.
    inversion A2 as [|? ? Lx' A2']; subst. inversion A2' as [|? ? Ly' A2'']; subst.
    apply app_inj_len in E2; [|congruence]. destruct E2; subst.
    destruct (IH r' A1'' A2'' ltac:(lia) E3) as [Er|C]; [subst; left; reflexivity|right; exact C].
Qed.

(** One pass keeps a list duplicate-free (or a collision is exhibited). *)
Lemma pair_level_nodup l : all32 l -> NoDup l -> NoDup (pair_level l) \/ collision.
Proof.
  induction l as [| x | x y r IH] using list_ind2; intros A N; simpl.
  - left; constructor.
  - left; constructor; [intros []|constructor].
  - inversion A as [|? ? Lx A']; subst. inversion A' as [|? ? Ly A'']; subst.
    inversion N as [|? ? Nx N']; subst. inversion N' as [|? ? Ny N'']; subst.
    destruct (IH A'' N'') as [Nr|C]; [|right; exact C].
    destruct (in_dec bytes_dec (H (x ++ y)) (pair_level r)) as [I|NI].
    + destruct (pair_level_in _ _ A'' I) as (a & b & Ia & Ib & La & Lb & E).
      destruct (H_inj_or_coll _ _ E) as [E2|C]; [|right; exact C].
      apply app_inj_len in E2; [|congruence]. destruct E2; subst.
      exfalso. apply Nx. right; exact Ia.
    + left. constructor; assumption.
Qed.

(** ** The loop: fuel is irrelevant once it reaches the length *)
Lemma merkle_fuel_enough : forall f1 f2 l, (length l <= f1)%nat -> (length l <= f2)%nat ->
  merkle_fuel f1 l = merkle_fuel f2 l.
Proof.
  induction f1 as [|f1 IH]; intros f2 l L1 L2.
  - destruct l as [|x [|y r]]; simpl in *; try (destruct f2; reflexivity); lia.
  - destruct l as [|x [|y r]]; try (destruct f2; reflexivity).
    destruct f2 as [|f2]; [simpl in L2; lia|].
    cbn [BlockCodec.merkle_fuel]. apply IH.
    + pose proof (pair_level_shorter (x :: y :: r)) as P. simpl length in *. lia.
    + pose proof (pair_level_shorter (x :: y :: r)) as P. simpl length in *. lia.
Qed.

Lemma merkle_root_step l : (2 <= length l)%nat -> merkle_root l = merkle_root (pair_level l).
Proof.
  intro L. unfold BlockCodec.merkle_root.
  destruct l as [|x [|y r]]; simpl in L; try lia.
  transitivity (merkle_fuel (S (length r)) (pair_level (x :: y :: r))); [reflexivity|].
  apply merkle_fuel_enough.
  - pose proof (pair_level_shorter (x :: y :: r)) as P. simpl length in *. lia.
  - lia.
Qed.

Lemma merkle_root_nil : merkle_root [] = zero_hash. Proof. reflexivity. Qed.
Lemma merkle_root_one x : merkle_root [x] = x. Proof. reflexivity. Qed.

(** [root_at k l r]: [l] reduces to the single element [r] in exactly [k] passes. *)
Inductive root_at : nat -> list bytes -> bytes -> Prop :=
| root_at_0 x : root_at 0 [x] x
| root_at_S k l r : (2 <= length l)%nat -> root_at k (pair_level l) r -> root_at (S k) l r.

Lemma root_at_exists : forall n l, (length l <= n)%nat -> l <> [] -> exists k, root_at k l (merkle_root l).
Proof.
  induction n as [|n IH]; intros l L NE.
  - destruct l; [congruence|simpl in L; lia].
  - destruct l as [|x [|y r]]; [congruence| |].
    + exists 0%nat. rewrite merkle_root_one. constructor.
    + set (l := x :: y :: r) in *. assert (L2 : (2 <= length l)%nat) by (simpl; lia).
      destruct (IH (pair_level l)) as [k Hk].
      * pose proof (pair_level_shorter l L2). lia.
      * apply pair_level_nonempty; discriminate.
      * exists (S k). rewrite merkle_root_step by exact L2. constructor; assumption.
Qed.

(** The root is never the fuel-exhaustion value: it has 32 bytes. *)
Lemma root_at_length k : forall l r, all32 l -> root_at k l r -> length r = HASH_SIZE.
Proof.
  induction k as [|k IH]; intros l r A R; inversion R; subst.
  - inversion A; assumption.
  - eapply IH; [apply pair_level_all32|eassumption].
Qed.

Lemma merkle_root_length l : all32 l -> length (merkle_root l) = HASH_SIZE.
Proof.
  intro A. destruct l as [|x r] eqn:E; [reflexivity|]. rewrite <- E in *.
  destruct (root_at_exists (length l) l (le_n _)) as [k R]; [subst; discriminate|].
  eapply root_at_length; eassumption.
Qed.

(** Equal depth: the root binds the list. *)
Lemma root_at_inj k : forall l1 l2 r, all32 l1 -> all32 l2 -> NoDup l1 -> NoDup l2 ->
  root_at k l1 r -> root_at k l2 r -> l1 = l2 \/ collision.
Proof.
  induction k as [|k IH]; intros l1 l2 r A1 A2 N1 N2 R1 R2; inversion R1; inversion R2; subst.
  - left; reflexivity.
  - destruct (pair_level_nodup l1 A1 N1) as [N1'|C]; [|right; exact C].
    destruct (pair_level_nodup l2 A2 N2) as [N2'|C]; [|right; exact C].
    destruct (IH (pair_level l1) (pair_level l2) r) as [E|C]; try assumption; try apply pair_level_all32.
    + apply pair_level_inj; assumption.
    + right; exact C.
Qed.

(** Different depth: the shallower list consists of inner-form values. *)
Lemma root_at_deeper d : forall k l1 l2 r, all32 l1 -> all32 l2 -> NoDup l1 -> NoDup l2 ->
  root_at k l1 r -> root_at (S d + k) l2 r -> Forall inner_form l1 \/ collision.
Proof.
  induction d as [|d IH]; intros k l1 l2 r A1 A2 N1 N2 R1 R2; inversion R2; subst.
  - destruct (pair_level_nodup l2 A2 N2) as [N2'|C]; [|right; exact C].
    destruct (root_at_inj k l1 (pair_level l2) r) as [E|C]; try assumption; try apply pair_level_all32.
    + subst. left. apply pair_level_inner; assumption.
    + right; exact C.
  - destruct (pair_level_nodup l2 A2 N2) as [N2'|C]; [|right; exact C].
    apply (IH k l1 (pair_level l2) r); try assumption. apply pair_level_all32.
Qed.

(** ** Binding theorem for non-empty lists *)
Theorem merkle_binds_nonempty l1 l2 :
  all32 l1 -> all32 l2 -> NoDup l1 -> NoDup l2 -> l1 <> [] -> l2 <> [] ->
  merkle_root l1 = merkle_root l2 ->
  l1 = l2 \/ collision \/ (exists x, In x (l1 ++ l2) /\ inner_form x).
Proof.
  intros A1 A2 N1 N2 NE1 NE2 E.
  destruct (root_at_exists (length l1) l1 (le_n _) NE1) as [k1 R1].
  destruct (root_at_exists (length l2) l2 (le_n _) NE2) as [k2 R2].
  rewrite E in R1. set (r := merkle_root l2) in *.
  destruct (lt_eq_lt_dec k1 k2) as [[Lt|Eq]|Gt].
  - replace k2 with (S (k2 - k1 - 1) + k1)%nat in R2 by lia.
    destruct (root_at_deeper _ _ _ _ _ A1 A2 N1 N2 R1 R2) as [F|C]; [|right; left; exact C].
    right; right. destruct l1 as [|x l1']; [congruence|]. exists x. split; [left; reflexivity|].
    inversion F; assumption.
  - subst k2. destruct (root_at_inj _ _ _ _ A1 A2 N1 N2 R1 R2) as [E'|C]; [left; exact E'|right; left; exact C].
  - replace k1 with (S (k1 - k2 - 1) + k2)%nat in R1 by lia.
    destruct (root_at_deeper _ _ _ _ _ A2 A1 N2 N1 R2 R1) as [F|C]; [|right; left; exact C].
    right; right. destruct l2 as [|x l2']; [congruence|]. exists x. split; [apply in_or_app; right; left; reflexivity|].
    inversion F; assumption.
Qed.

(** The empty list has the all-zero root; a non-empty list has it only if it is the single zero
    hash or if a preimage of zero under [H] is exhibited. *)
Theorem merkle_root_zero l : all32 l -> merkle_root l = zero_hash ->
  l = [] \/ l = [zero_hash] \/ exists w, H w = zero_hash.
Proof.
  intros A E. destruct l as [|x [|y r]].
  - left; reflexivity.
  - right; left. rewrite merkle_root_one in E. subst; reflexivity.
  - right; right. set (l := x :: y :: r) in *.
    assert (L2 : (2 <= length l)%nat) by (simpl; lia).
    destruct (root_at_exists (length l) l (le_n _)) as [k R]; [discriminate|].
    rewrite E in R. clear E.
    assert (G : forall k l, (2 <= length l)%nat -> root_at k l zero_hash -> exists w, H w = zero_hash).
    { clear. induction k as [|k IH]; intros l L R.
      { inversion R; subst. simpl in L; lia. }
      inversion R as [|k' l' r' L' R']; subst.
      destruct (le_lt_dec 2 (length (pair_level l))) as [L2|L2].
      - apply (IH (pair_level l)); assumption.
      - destruct l as [|a [|b [|c [|d t]]]]; simpl in L, L2; try lia.
        simpl in R'. inversion R' as [z|k' l' r' L3 R3]; subst; [eauto|simpl in L3; lia]. }
    apply (G k l); assumption.
Qed.

(** Binding theorem, all cases. *)
Theorem merkle_binds l1 l2 :
  all32 l1 -> all32 l2 -> NoDup l1 -> NoDup l2 ->
  merkle_root l1 = merkle_root l2 ->
  l1 = l2 \/ collision \/ (exists x, In x (l1 ++ l2) /\ inner_form x) \/
  In zero_hash (l1 ++ l2) \/ (exists w, H w = zero_hash).
Proof.
  intros A1 A2 N1 N2 E.
  destruct l1 as [|x1 r1] eqn:E1.
  - rewrite merkle_root_nil in E. symmetry in E.
    destruct (merkle_root_zero l2 A2 E) as [Z|[Z|Z]].
    + left; congruence.
    + right; right; right; left. subst l2. simpl. left; reflexivity.
    + right; right; right; right. exact Z.
  - destruct l2 as [|x2 r2] eqn:E2.
    + rewrite merkle_root_nil in E.
      destruct (merkle_root_zero _ A1 E) as [Z|[Z|Z]].
      * discriminate.
      * right; right; right; left. rewrite Z. simpl. left; reflexivity.
      * right; right; right; right. exact Z.
    + destruct (merkle_binds_nonempty (x1 :: r1) (x2 :: r2)) as [Q|[Q|Q]]; try assumption; try discriminate; auto.
Qed.

(** Lists of the same length: no duplicate-freeness needed. *)
Theorem merkle_binds_same_length : forall n l1 l2, length l1 = n -> length l2 = n ->
  all32 l1 -> all32 l2 -> merkle_root l1 = merkle_root l2 -> l1 = l2 \/ collision.
Proof.
  induction n as [n IH] using lt_wf_ind. intros l1 l2 L1 L2 A1 A2 E.
  destruct l1 as [|x1 [|y1 r1]]; destruct l2 as [|x2 [|y2 r2]]; simpl in L1, L2; try lia.
  - left; reflexivity.
  - rewrite !merkle_root_one in E. left; congruence.
  - set (l1 := x1 :: y1 :: r1) in *. set (l2 := x2 :: y2 :: r2) in *.
    assert (L1' : (2 <= length l1)%nat) by (simpl; lia).
    assert (L2' : (2 <= length l2)%nat) by (simpl; lia).
    rewrite (merkle_root_step l1 L1'), (merkle_root_step l2 L2') in E.
    assert (LL : length l1 = length l2) by (simpl; lia).
    destruct (IH (length (pair_level l1))) with (l1 := pair_level l1) (l2 := pair_level l2) as [Q|C];
      try reflexivity; try apply pair_level_all32; try assumption.
    + pose proof (pair_level_shorter l1 L1'). simpl length in *. lia.
    + rewrite !pair_level_length. rewrite LL. reflexivity.
    + apply pair_level_inj_len; assumption.
    + right; exact C.
Qed.

(** Why the third disjunct of [merkle_binds] cannot be dropped, for every [H]: a four-element list
    and the two-element list of its inner nodes have the same root. With SHA-256 this is the
    64-byte-transaction ambiguity (replayed on the implementation by the C20 driver). *)
Theorem inner_node_confusion a b c d :
  merkle_root [a; b; c; d] = merkle_root [H (a ++ b); H (c ++ d)].
Proof. reflexivity. Qed.

(** And why duplicate-freeness cannot be dropped, for every [H]. *)
Theorem odd_duplication_confusion a b c :
  merkle_root [a; b; c] = merkle_root [a; b; c; c].
Proof. reflexivity. Qed.

End Merkle.
