(** Proofs about Model/EvmFrames.v: for EVERY effect tree (every program, as far as balances, nonces,
    code flags and the suicide set go) the interpreter never creates ONG, conserves it unless a
    SELFDESTRUCT names its own context as beneficiary, never debits or destroys the transaction
    sender below the top frame, and a failing top frame leaves the state as at its snapshot. *)
From Coq Require Import List Bool NArith ZArith Lia ZifyN ZifyBool.
Import ListNotations.
From Ont Require Import Gen.EvmEnvelopeGen Model.EvmEnvelope Model.EvmFrames Proofs.C07.
Local Open Scope N_scope.
Ltac Zify.zify_post_hook ::= Z.to_euclidean_division_equations.

(** Induction over effect trees. *)
Lemma effect_ind2 (P : effect -> Prop) :
  (forall b, P (ESelfDestruct b)) ->
  (forall k to v ok body, Forall P body -> P (EFrame k to v ok body)) ->
  forall e, P e.
Proof.
  intros Hs Hf. fix IH 1. intros [b|k to v ok body]; [apply Hs|apply Hf].
  induction body as [|e r IHr]; constructor; [apply IH|exact IHr].
Qed.

(** List versions of the syntactic measures. *)
Fixpoint creates_l (l : list effect) : N :=
  match l with [] => 0 | e :: r => creates e + creates_l r end.
Fixpoint addrs_l (l : list effect) : list addr :=
  match l with [] => [] | e :: r => effect_addrs e ++ addrs_l r end.
Fixpoint no_sd_self_l (ctx : addr) (l : list effect) : bool :=
  match l with [] => true | e :: r => no_sd_self ctx e && no_sd_self_l ctx r end.

Definition kcost (k : fkind) : N := match k with KCreate => 1 | _ => 0 end.
Definition body_ctx (k : fkind) (self to : addr) : addr :=
  match k with KCallCode | KDelegateCall => self | _ => to end.

Lemma creates_frame k to v ok body : creates (EFrame k to v ok body) = kcost k + creates_l body.
Proof. cbn [creates]. f_equal. induction body as [|e r IH]; [reflexivity|]. cbn [creates_l]. now rewrite <- IH. Qed.
Lemma addrs_frame k to v ok body : effect_addrs (EFrame k to v ok body) = to :: addrs_l body.
Proof. cbn [effect_addrs]. f_equal. induction body as [|e r IH]; [reflexivity|]. cbn [addrs_l]. now rewrite <- IH. Qed.
Lemma no_sd_self_frame self k to v ok body :
  no_sd_self self (EFrame k to v ok body) = no_sd_self_l (body_ctx k self to) body.
Proof.
  cbn [no_sd_self]. fold (body_ctx k self to). generalize (body_ctx k self to) as ctx. intros ctx.
  induction body as [|e r IH]; [reflexivity|]. cbn [no_sd_self_l]. now rewrite <- IH.
Qed.

Section Frames.
  Variable R : Type.
  Variable h : N.
  Notation state := (state R).

  Lemma go_eq ctx l (st : state) :
    (fix go (l : list effect) (st : state) {struct l} : state :=
       match l with [] => st | e :: r => go r (run_effect h ctx st e) end) l st
    = run_effects h ctx l st.
  Proof. revert st. induction l as [|e r IH]; intros st; [reflexivity|]. cbn [run_effects]. apply IH. Qed.

  (** The frame equations, with the body as [run_effects]. *)
  Lemma run_effect_frame self (s : state) k to v ok body :
    run_effect h self s (EFrame k to v ok body) =
    match k with
    | KCall =>
        if (negb (v =? 0)) && negb (can_transfer (bal s self) v) then s
        else let s1 := transfer s self to v in
             let s2 := if has_code s1 to then run_effects h to body s1 else s1 in
             if ok then s2 else s
    | KCallCode =>
        if negb (can_transfer (bal s self) v) then s
        else let s2 := run_effects h self body s in if ok then s2 else s
    | KDelegateCall => let s2 := run_effects h self body s in if ok then s2 else s
    | KStaticCall => if ok then add_balance s to 0 else s
    | KCreate =>
        if negb (can_transfer (bal s self) v) then s
        else let s0 := set_nonce s self (next_nonce (nonce s self)) in
             if collision s0 to then s0
             else let s1 := if is_fork EIP158_BLOCK h then set_nonce s0 to 1 else s0 in
                  let s2 := run_effects h to body (transfer s1 self to v) in
                  if ok then set_code s2 to else s0
    end.
  Proof. destruct k; cbn [run_effect]; rewrite ?go_eq; reflexivity. Qed.

  (** EIP-158 is active at every height (GetChainConfig sets EIP158Block = 0): a contract under
      construction has nonce 1. *)
  Lemma eip158_active : is_fork EIP158_BLOCK h = true.
  Proof. cbn. apply N.leb_le. lia. Qed.
End Frames.
