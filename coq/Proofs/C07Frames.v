(** Proofs about Model/EvmFrames.v: for EVERY effect tree (every program, as far as balances, nonces,
    code flags and the suicide set go) the interpreter never creates ONG, conserves it unless a
    SELFDESTRUCT names its own context as beneficiary, never debits or destroys the transaction
    sender below the top frame, and a failing top frame leaves the state as at its snapshot. *)
From Coq Require Import List Bool NArith ZArith Lia ZifyN ZifyBool.
Import ListNotations.
From Ont Require Import Gen.EvmEnvelopeGen Model.EvmEnvelope Model.EvmFrames Proofs.C07.
Local Open Scope N_scope.
Ltac Zify.zify_post_hook ::= Z.to_euclidean_division_equations.

(** Induction over effect trees. *)
Lemma effect_ind2 (P : effect -> Prop) :
  (forall b, P (ESelfDestruct b)) ->
  (forall k to v ok body, Forall P body -> P (EFrame k to v ok body)) ->
  forall e, P e.
Proof.
  intros Hs Hf. fix IH 1. intros [b|k to v ok body]; [apply Hs|apply Hf].
  induction body as [|e r IHr]; constructor; [apply IH|exact IHr].
Qed.

Lemma Forall_all {A} (P : A -> Prop) (H : forall x, P x) l : Forall P l.
Proof. apply Forall_forall. auto. Qed.

(** List versions of the syntactic measures. *)
Fixpoint creates_l (l : list effect) : N :=
  match l with [] => 0 | e :: r => creates e + creates_l r end.
Fixpoint addrs_l (l : list effect) : list addr :=
  match l with [] => [] | e :: r => effect_addrs e ++ addrs_l r end.
Fixpoint no_sd_self_l (ctx : addr) (l : list effect) : bool :=
  match l with [] => true | e :: r => no_sd_self ctx e && no_sd_self_l ctx r end.

Definition kcost (k : fkind) : N := match k with KCreate => 1 | _ => 0 end.
Definition body_ctx (k : fkind) (self to : addr) : addr :=
  match k with KCallCode | KDelegateCall => self | _ => to end.

Lemma creates_frame k to v ok body : creates (EFrame k to v ok body) = kcost k + creates_l body.
Proof. reflexivity. Qed.
Lemma addrs_frame k to v ok body : effect_addrs (EFrame k to v ok body) = to :: addrs_l body.
Proof. reflexivity. Qed.
Lemma no_sd_self_frame self k to v ok body :
  no_sd_self self (EFrame k to v ok body) = no_sd_self_l (body_ctx k self to) body.
Proof.
  cbn [no_sd_self]. fold (body_ctx k self to). generalize (body_ctx k self to). intros ctx.
  induction body as [|e r IH]; [reflexivity|]. cbn [no_sd_self_l]. now rewrite <- IH.
Qed.

Section Frames.
  Variable R : Type.
  Variable h : N.
  Notation state := (state R).

  Lemma go_eq d ctx l (st : state) :
    (fix go (l : list effect) (st : state) {struct l} : state :=
       match l with [] => st | e :: r => go r (run_effect h d ctx st e) end) l st
    = run_effects h d ctx l st.
  Proof. revert st. induction l as [|e r IH]; intros st; [reflexivity|]. cbn [run_effects]. apply IH. Qed.

  (** The frame equations, with the body as [run_effects]. *)
  Lemma run_effect_frame d self (s : state) k to v ok body :
    run_effect h d self s (EFrame k to v ok body) =
    if CALL_CREATE_DEPTH <? d then s else
    match k with
    | KCall =>
        if (negb (v =? 0)) && negb (can_transfer (bal s self) v) then s
        else let s1 := transfer s self to v in
             let s2 := if has_code s1 to then run_effects h (d + 1) to body s1 else s1 in
             if ok then s2 else s
    | KCallCode =>
        if negb (can_transfer (bal s self) v) then s
        else let s2 := run_effects h (d + 1) self body s in if ok then s2 else s
    | KDelegateCall => let s2 := run_effects h (d + 1) self body s in if ok then s2 else s
    | KStaticCall => if ok then add_balance s to 0 else s
    | KCreate =>
        if negb (can_transfer (bal s self) v) then s
        else let s0 := set_nonce s self (next_nonce (nonce s self)) in
             if collision s0 to then s0
             else let s1 := if is_fork EIP158_BLOCK h then set_nonce s0 to 1 else s0 in
                  let s2 := run_effects h (d + 1) to body (transfer s1 self to v) in
                  if ok then set_code s2 to else s0
    end.
  Proof. destruct k; cbn [run_effect]; rewrite ?go_eq; reflexivity. Qed.

  (** EIP-158 is active at every height (GetChainConfig sets EIP158Block = 0): a contract under
      construction has nonce 1. *)
  Lemma eip158_active : is_fork EIP158_BLOCK h = true.
  Proof. cbn. apply N.leb_le. lia. Qed.
  (** * Nonces only grow (by at most the number of creations), code flags only appear *)
  Definition room (s : state) (n : N) : Prop := forall a, nonce s a + n < U64.
  Definition grows (n : N) (s s' : state) : Prop :=
    (forall a, nonce s a <= nonce s' a /\ nonce s' a <= nonce s a + n) /\
    (forall a, has_code s a = true -> has_code s' a = true).

  Lemma grows_refl n (s : state) : grows n s s.
  Proof. split; [intros a; lia|auto]. Qed.
  Lemma grows_same n (s s' : state) : nonce s' = nonce s -> has_code s' = has_code s -> grows n s s'.
  Proof. intros E1 E2. split; [intros a; rewrite E1; lia|intros a; now rewrite E2]. Qed.
  Lemma grows_trans n1 n2 (s s' s'' : state) : grows n1 s s' -> grows n2 s' s'' -> grows (n1 + n2) s s''.
  Proof.
    intros [A1 B1] [A2 B2]. split; [|auto]. intros a. destruct (A1 a), (A2 a). lia.
  Qed.
  Lemma grows_weaken n n' (s s' : state) : n <= n' -> grows n s s' -> grows n' s s'.
  Proof. intros Hle [A B]. split; [|auto]. intros a. destruct (A a). lia. Qed.
  Lemma room_weaken (s : state) n n' : n' <= n -> room s n -> room s n'.
  Proof. intros Hle H a. specialize (H a). lia. Qed.
  Lemma room_after n1 n2 (s s' : state) : grows n1 s s' -> room s (n1 + n2) -> room s' n2.
  Proof. intros [A _] H a. specialize (H a). destruct (A a). lia. Qed.

  Lemma sub_balance_fields (s : state) a v :
    nonce (sub_balance s a v) = nonce s /\ has_code (sub_balance s a v) = has_code s /\
    suicided (sub_balance s a v) = suicided s.
  Proof. unfold sub_balance, handle_sub_balance. destruct (_ <? _); repeat split. Qed.

  Lemma transfer_fields (s : state) a b v :
    nonce (transfer s a b v) = nonce s /\ has_code (transfer s a b v) = has_code s /\
    suicided (transfer s a b v) = suicided s.
  Proof. unfold transfer. cbn [add_balance set_bal nonce has_code suicided]. apply sub_balance_fields. Qed.

  Lemma op_selfdestruct_fields (s : state) self ben :
    nonce (op_selfdestruct s self ben) = nonce s /\ has_code (op_selfdestruct s self ben) = has_code s.
  Proof. unfold op_selfdestruct, suicide. destruct (account_empty _ _); split; reflexivity. Qed.

  Lemma next_nonce_room (s : state) a n : room s n -> 1 <= n -> next_nonce (nonce s a) = nonce s a + 1.
  Proof. intros H Hn. specialize (H a). unfold next_nonce. rewrite U64_val in H. lia. Qed.

  Definition PA (ef : effect) : Prop :=
    forall d self (s : state), room s (creates ef) -> grows (creates ef) s (run_effect h d self s ef).

  Lemma grows_list l : Forall PA l ->
    forall d ctx (s : state), room s (creates_l l) -> grows (creates_l l) s (run_effects h d ctx l s).
  Proof.
    induction 1 as [|e r He Hr IH]; intros d ctx s Hroom; [apply grows_refl|].
    cbn [run_effects creates_l] in *.
    assert (H1 : grows (creates e) s (run_effect h d ctx s e)) by (apply He; eapply room_weaken; [|exact Hroom]; lia).
    eapply grows_trans; [exact H1|]. apply IH. eapply room_after; eauto.
  Qed.

  Lemma grows_effect : forall ef, PA ef.
  Proof.
    apply effect_ind2.
    - intros ben d self s _. cbn [run_effect creates]. destruct (op_selfdestruct_fields s self ben) as [E1 E2].
      now apply grows_same.
    - intros k to v ok body Hbody d self s Hroom. rewrite run_effect_frame, creates_frame in *.
      pose proof (fun c s => grows_list body Hbody (d + 1) c s) as HL.
      destruct (CALL_CREATE_DEPTH <? d); [apply grows_refl|].
      destruct k; cbn [kcost] in *.
      + (* Call *)
        destruct (_ && _); [apply grows_refl|]. cbv zeta.
        destruct ok; [|apply grows_refl].
        destruct (transfer_fields s self to v) as (E1 & E2 & _).
        assert (G1 : grows 0 s (transfer s self to v)) by now apply grows_same.
        destruct (has_code _ to).
        * eapply grows_trans; [exact G1|]. apply HL. eapply room_after; [exact G1|exact Hroom].
        * eapply grows_weaken; [|exact G1]. lia.
      + (* CallCode *)
        destruct (negb _); [apply grows_refl|]. cbv zeta. destruct ok; [|apply grows_refl].
        apply (HL self s Hroom).
      + (* DelegateCall *)
        cbv zeta. destruct ok; [|apply grows_refl]. apply (HL self s Hroom).
      + (* StaticCall *)
        destruct ok; [|apply grows_refl]. now apply grows_same.
      + (* Create *)
        destruct (negb _); [apply grows_refl|]. cbv zeta.
        pose proof (next_nonce_room s self _ Hroom ltac:(lia)) as En.
        set (s0 := set_nonce s self (next_nonce (nonce s self))).
        assert (G0 : grows 1 s s0).
        { split; [|auto]. intros a. unfold s0. cbn [set_nonce nonce]. unfold upd.
          destruct (N.eqb_spec a self); [subst; rewrite En|]; lia. }
        destruct (collision s0 to) eqn:Ecol; [eapply grows_weaken; [|exact G0]; lia|].
        destruct ok; [|eapply grows_weaken; [|exact G0]; lia].
        rewrite eip158_active.
        (* the new address has nonce 0 and no code in s0, and differs from self *)
        unfold collision in Ecol. apply orb_false_iff in Ecol. destruct Ecol as [Ec1 Ec2].
        apply negb_false_iff, N.eqb_eq in Ec1.
        assert (Hne : to <> self).
        { intros ->. unfold s0 in Ec1. cbn [set_nonce nonce] in Ec1. rewrite upd_same, En in Ec1. lia. }
        set (s1 := set_nonce s0 to 1).
        assert (G1 : grows 1 s s1).
        { split.
          - intros a. unfold s1, s0 in *. cbn [set_nonce nonce] in *. unfold upd in *.
            destruct (N.eqb_spec a to) as [->|Hat].
            + destruct (N.eqb_spec to self); [contradiction|]. lia.
            + destruct (N.eqb_spec a self); [subst; rewrite En|]; lia.
          - auto. }
        destruct (transfer_fields s1 self to v) as (E1 & E2 & _).
        assert (G2 : grows 1 s (transfer s1 self to v)).
        { destruct G1 as [A B]. split; [intros a; rewrite E1; apply A|intros a; rewrite E2; apply B]. }
        assert (G3 : grows (1 + creates_l body) s (run_effects h (d + 1) to body (transfer s1 self to v))).
        { eapply grows_trans; [exact G2|]. apply HL. eapply room_after; [exact G2|exact Hroom]. }
        destruct G3 as [A B]. split; [exact A|]. intros a Ha. cbn [set_code has_code]. unfold upd.
        destruct (a =? to); [reflexivity|auto].
  Qed.
  (** * The ONG sum: never grows, and is conserved without SELFDESTRUCT-to-self *)
  Definition live (s : state) (a : addr) : Prop := account_empty s a = false.

  Lemma live_grows n (s s' : state) a : grows n s s' -> live s a -> live s' a.
  Proof.
    intros [A B] H. unfold live, account_empty in *. apply andb_false_iff in H. apply andb_false_iff.
    destruct H as [H|H].
    - left. apply N.eqb_neq in H. apply N.eqb_neq. destruct (A a). lia.
    - right. apply negb_false_iff in H. apply negb_false_iff. auto.
  Qed.

  Lemma live_code (s : state) a : has_code s a = true -> live s a.
  Proof. intros H. unfold live, account_empty. rewrite H. apply andb_false_r. Qed.

  Definition needs_live (ef : effect) : bool :=
    match ef with
    | ESelfDestruct _ => true
    | EFrame KCallCode _ _ _ _ | EFrame KDelegateCall _ _ _ _ => true
    | _ => false
    end.

  Variable U : list addr.
  Hypothesis U_nodup : NoDup U.

  Definition sum_ok (self : addr) (s s' : state) (nsd : bool) : Prop :=
    total U s' <= total U s /\ (nsd = true -> total U s' = total U s).

  Definition PB (ef : effect) : Prop :=
    forall d self (s : state), In self U -> incl (effect_addrs ef) U -> room s (creates ef) ->
      (needs_live ef = true -> live s self) ->
      sum_ok self s (run_effect h d self s ef) (no_sd_self self ef).

  Lemma sum_list l : Forall PB l ->
    forall d ctx (s : state), In ctx U -> incl (addrs_l l) U -> room s (creates_l l) -> live s ctx ->
      sum_ok ctx s (run_effects h d ctx l s) (no_sd_self_l ctx l).
  Proof.
    induction 1 as [|e r He Hr IH]; intros d ctx s Hctx Hincl Hroom Hlive.
    - split; [cbn; lia|reflexivity].
    - cbn [run_effects creates_l addrs_l no_sd_self_l] in *.
      assert (Hi1 : incl (effect_addrs e) U) by (intros x Hx; apply Hincl, in_or_app; now left).
      assert (Hi2 : incl (addrs_l r) U) by (intros x Hx; apply Hincl, in_or_app; now right).
      assert (Hr1 : room s (creates e)) by (eapply room_weaken; [|exact Hroom]; lia).
      destruct (He d ctx s Hctx Hi1 Hr1 (fun _ => Hlive)) as [L1 E1].
      pose proof (grows_effect e d ctx s Hr1) as G.
      assert (Hr2 : room (run_effect h d ctx s e) (creates_l r)) by (eapply room_after; eauto).
      destruct (IH d ctx _ Hctx Hi2 Hr2 (live_grows _ _ _ _ G Hlive)) as [L2 E2].
      split; [lia|]. intros Hn. apply andb_true_iff in Hn. destruct Hn as [N1 N2].
      rewrite (E2 N2), (E1 N1). reflexivity.
  Qed.

  Lemma sum_ok_refl self (s : state) b : sum_ok self s s b.
  Proof. split; [lia|reflexivity]. Qed.

  Lemma sum_ok_eq self (s s1 s' : state) b : total U s1 = total U s -> sum_ok self s1 s' b -> sum_ok self s s' b.
  Proof. intros E [A B]. split; [lia|]. intros Hb. rewrite (B Hb). exact E. Qed.

  Lemma sum_effect : forall ef, PB ef.
  Proof.
    apply effect_ind2.
    - intros ben d self s Hself Hincl _ Hlive. specialize (Hlive eq_refl). cbn [run_effect no_sd_self].
      assert (Hben : In ben U) by (apply Hincl; cbn; auto).
      destruct (N.eqb_spec ben self) as [->|Hne]; cbn [negb].
      + pose proof (selfdestruct_self_burns R U s self U_nodup Hself Hlive). split; [lia|discriminate].
      + assert (Hne' : self <> ben) by congruence.
        pose proof (selfdestruct_other_conserves R U s self ben U_nodup Hself Hben Hne' Hlive) as E.
        split; [lia|auto].
    - intros k to v ok body Hbody d self s Hself Hincl Hroom Hlive.
      rewrite run_effect_frame, no_sd_self_frame. rewrite creates_frame in Hroom. rewrite addrs_frame in Hincl.
      assert (Hto : In to U) by (apply Hincl; cbn; auto).
      assert (Hib : incl (addrs_l body) U) by (intros x Hx; apply Hincl; cbn; auto).
      pose proof (sum_list body Hbody (d + 1)) as HL.
      destruct (CALL_CREATE_DEPTH <? d); [apply sum_ok_refl|].
      destruct k; cbn [kcost body_ctx needs_live] in *.
      + (* Call *)
        destruct (negb (v =? 0) && negb (can_transfer (bal s self) v)) eqn:Eg; [apply sum_ok_refl|]. cbv zeta.
        destruct ok; [|apply sum_ok_refl].
        assert (Hv : v <= bal s self).
        { unfold can_transfer in Eg. destruct (N.eqb_spec v 0); [lia|].
          destruct (N.leb_spec v (bal s self)); [assumption|discriminate]. }
        pose proof (total_transfer R U s self to v U_nodup Hself Hto Hv) as Et.
        destruct (transfer_fields s self to v) as (E1 & E2 & _).
        assert (G1 : grows 0 s (transfer s self to v)) by now apply grows_same.
        destruct (has_code (transfer s self to v) to) eqn:Ec.
        * eapply sum_ok_eq; [exact Et|]. apply HL; try assumption.
          -- eapply room_after; [exact G1|exact Hroom].
          -- now apply live_code.
        * split; [lia|auto].
      + (* CallCode *)
        destruct (negb _); [apply sum_ok_refl|]. cbv zeta. destruct ok; [|apply sum_ok_refl].
        apply HL; auto.
      + (* DelegateCall *)
        cbv zeta. destruct ok; [|apply sum_ok_refl]. apply HL; auto.
      + (* StaticCall *)
        destruct ok; [|apply sum_ok_refl]. unfold sum_ok. rewrite (total_add_balance R U s to 0 U_nodup Hto). split; [lia|intros; lia].
      + (* Create *)
        destruct (negb (can_transfer (bal s self) v)) eqn:Eg; [apply sum_ok_refl|]. cbv zeta.
        assert (Hv : v <= bal s self).
        { unfold can_transfer in Eg. destruct (N.leb_spec v (bal s self)); [assumption|discriminate]. }
        pose proof (next_nonce_room s self _ Hroom ltac:(lia)) as En.
        set (s0 := set_nonce s self (next_nonce (nonce s self))).
        assert (T0 : total U s0 = total U s) by apply total_set_nonce.
        destruct (collision s0 to) eqn:Ecol; [split; [lia|auto]|].
        destruct ok; [|split; [lia|auto]].
        rewrite eip158_active.
        set (s1 := set_nonce s0 to 1).
        assert (T1 : total U s1 = total U s) by (unfold s1; rewrite total_set_nonce; exact T0).
        assert (Hv1 : v <= bal s1 self) by exact Hv.
        pose proof (total_transfer R U s1 self to v U_nodup Hself Hto Hv1) as Et.
        (* nonce bookkeeping as in grows_effect *)
        unfold collision in Ecol. apply orb_false_iff in Ecol. destruct Ecol as [Ec1 Ec2].
        apply negb_false_iff, N.eqb_eq in Ec1.
        assert (Hne : to <> self).
        { intros ->. unfold s0 in Ec1. cbn [set_nonce nonce] in Ec1. rewrite upd_same, En in Ec1. lia. }
        assert (G1 : grows 1 s s1).
        { split; [|auto]. intros a. unfold s1, s0 in *. cbn [set_nonce nonce] in *. unfold upd in *.
          destruct (N.eqb_spec a to) as [->|Hat].
          - destruct (N.eqb_spec to self); [contradiction|]. lia.
          - destruct (N.eqb_spec a self); [subst; rewrite En|]; lia. }
        destruct (transfer_fields s1 self to v) as (E1 & E2 & _).
        assert (G2 : grows 1 s (transfer s1 self to v)).
        { destruct G1 as [A B]. split; [intros a; rewrite E1; apply A|intros a; rewrite E2; apply B]. }
        assert (Hl : live (transfer s1 self to v) to).
        { unfold live, account_empty. rewrite E1. unfold s1. cbn [set_nonce nonce]. rewrite upd_same. reflexivity. }
        assert (Hr2 : room (transfer s1 self to v) (creates_l body)) by (eapply room_after; [exact G2|exact Hroom]).
        destruct (HL to _ Hto Hib Hr2 Hl) as [L E].
        assert (Tc : forall x : state, total U (set_code x to) = total U x) by (intros; now apply total_ext).
        unfold sum_ok. rewrite Tc. split; [lia|]. intros Hn. rewrite (E Hn). lia.
  Qed.
  (** * Below the top frame the transaction sender is out of reach *)
  Variable sender : addr.

  (** nonce at least 1 (so it cannot be the target of a creation) and no code (so it never executes) *)
  Definition guard (s : state) : Prop := nonce s sender <> 0 /\ has_code s sender = false.
  Definition shield (s s' : state) : Prop :=
    guard s' /\ nonce s' sender = nonce s sender /\ bal s sender <= bal s' sender /\
    suicided s' sender = suicided s sender.

  Lemma shield_refl (s : state) : guard s -> shield s s.
  Proof. intros G. repeat split; try apply G; lia. Qed.
  Lemma shield_trans (s s' s'' : state) : shield s s' -> shield s' s'' -> shield s s''.
  Proof. intros (G1 & N1 & B1 & S1) (G2 & N2 & B2 & S2). repeat split; try apply G2; try congruence; lia. Qed.

  Lemma bal_sub_balance_other (s : state) a v x : x <> a -> bal (sub_balance s a v) x = bal s x.
  Proof.
    intros H. unfold sub_balance, handle_sub_balance. destruct (_ <? _); cbn [set_dberr set_bal bal]; [reflexivity|].
    now apply upd_other.
  Qed.

  Lemma shield_transfer (s : state) a b v : a <> sender -> guard s -> shield s (transfer s a b v).
  Proof.
    intros Ha G. destruct (transfer_fields s a b v) as (E1 & E2 & E3).
    unfold shield, guard. rewrite E1, E2, E3. repeat split; try apply G.
    unfold transfer. rewrite bal_add_balance.
    assert (Hs : sender <> a) by congruence.
    destruct (N.eqb_spec sender b) as [<-|Hb]; rewrite (bal_sub_balance_other s a v sender Hs); lia.
  Qed.

  Definition PC (ef : effect) : Prop :=
    forall d self (s : state), self <> sender -> guard s -> shield s (run_effect h d self s ef).

  Lemma shield_list l : Forall PC l ->
    forall d ctx (s : state), ctx <> sender -> guard s -> shield s (run_effects h d ctx l s).
  Proof.
    induction 1 as [|e r He Hr IH]; intros d ctx s Hctx G; [now apply shield_refl|].
    cbn [run_effects]. pose proof (He d ctx s Hctx G) as S1.
    eapply shield_trans; [exact S1|]. apply IH; [assumption|apply S1].
  Qed.

  Lemma shield_effect : forall ef, PC ef.
  Proof.
    apply effect_ind2.
    - intros ben d self s Hself G. cbn [run_effect]. unfold op_selfdestruct, suicide.
      rewrite account_empty_add_balance.
      assert (S1 : shield s (add_balance s ben (bal s self))).
      { unfold shield, guard. cbn [add_balance set_bal nonce has_code suicided]. repeat split; try apply G.
        rewrite bal_add_balance. destruct (N.eqb_spec sender ben) as [<-|]; lia. }
      destruct (account_empty s self); [exact S1|].
      eapply shield_trans; [exact S1|]. destruct S1 as (G1 & _).
      unfold shield, guard. cbn [set_bal mark_suicided add_balance nonce has_code suicided bal].
      repeat split; try apply G1.
      + rewrite (upd_other _ self 0 sender) by congruence. lia.
      + now rewrite upd_other by congruence.
    - intros k to v ok body Hbody d self s Hself G. rewrite run_effect_frame.
      pose proof (shield_list body Hbody (d + 1)) as HL.
      destruct (CALL_CREATE_DEPTH <? d); [now apply shield_refl|].
      destruct k.
      + destruct (_ && _); [now apply shield_refl|]. cbv zeta. destruct ok; [|now apply shield_refl].
        pose proof (shield_transfer s self to v Hself G) as S1.
        destruct (has_code (transfer s self to v) to) eqn:Ec; [|exact S1].
        assert (Hto : to <> sender).
        { intros ->. destruct S1 as ((_ & Hc) & _). congruence. }
        eapply shield_trans; [exact S1|]. apply HL; [assumption|apply S1].
      + destruct (negb _); [now apply shield_refl|]. cbv zeta. destruct ok; [|now apply shield_refl]. now apply HL.
      + cbv zeta. destruct ok; [|now apply shield_refl]. now apply HL.
      + destruct ok; [|now apply shield_refl].
        unfold shield, guard. cbn [add_balance set_bal nonce has_code suicided]. repeat split; try apply G.
        rewrite bal_add_balance. destruct (N.eqb_spec sender to) as [<-|]; lia.
      + destruct (negb _); [now apply shield_refl|]. cbv zeta.
        set (s0 := set_nonce s self (next_nonce (nonce s self))).
        assert (S0 : shield s s0).
        { unfold shield, guard, s0. cbn [set_nonce nonce has_code suicided bal].
          rewrite upd_other by congruence. repeat split; try apply G. lia. }
        destruct (collision s0 to) eqn:Ecol; [exact S0|]. destruct ok; [|exact S0].
        assert (Hto : to <> sender).
        { intros ->. destruct S0 as ((Hn & _) & _). unfold collision in Ecol.
          apply orb_false_iff in Ecol. destruct Ecol as [Ec _]. apply negb_false_iff, N.eqb_eq in Ec. contradiction. }
        rewrite eip158_active.
        set (s1 := set_nonce s0 to 1).
        assert (S1 : shield s0 s1).
        { destruct S0 as (G0 & _). unfold shield, guard, s1. cbn [set_nonce nonce has_code suicided bal].
          rewrite upd_other by congruence. repeat split; try apply G0. lia. }
        assert (G1 : guard s1) by apply S1.
        pose proof (shield_transfer s1 self to v Hself G1) as S2.
        assert (S3 : shield (transfer s1 self to v) (run_effects h (d + 1) to body (transfer s1 self to v)))
          by (apply HL; [assumption|apply S2]).
        assert (S4 : shield s (run_effects h (d + 1) to body (transfer s1 self to v)))
          by (eapply shield_trans; [exact S0|]; eapply shield_trans; [exact S1|]; eapply shield_trans; eauto).
        destruct S4 as ((Gn & Gc) & N4 & B4 & U4).
        unfold shield, guard. cbn [set_code nonce has_code suicided bal]. rewrite upd_other by congruence.
        repeat split; assumption.
  Qed.
  (** * The top frame: evm.Call / evm.Create with the transaction sender as caller *)
  Lemma depth0 : (CALL_CREATE_DEPTH <? 0) = false.
  Proof. reflexivity. Qed.

  Definition top_frame (c : bool) (to : addr) (v : N) (ok : bool) (body : list effect) : effect :=
    EFrame (if c then KCreate else KCall) to v ok body.

  Lemma top_call (s0 : state) to v ok body :
    guard s0 -> v <= bal s0 sender ->
    let s' := run_effect h 0 sender s0 (top_frame false to v ok body) in
    nonce s' sender = nonce s0 sender /\ bal s0 sender <= bal s' sender + v /\
    suicided s' sender = suicided s0 sender /\ (ok = false -> s' = s0).
  Proof.
    intros G Hv. cbv zeta. unfold top_frame. rewrite run_effect_frame. rewrite depth0.
    destruct (_ && _); [repeat split; lia|]. cbv zeta.
    destruct ok; [|repeat split; lia].
    destruct (transfer_fields s0 sender to v) as (E1 & E2 & E3).
    assert (B1 : bal s0 sender <= bal (transfer s0 sender to v) sender + v).
    { unfold transfer. rewrite sub_balance_ok by assumption. rewrite bal_add_balance. cbn [set_bal bal].
      destruct (N.eqb_spec sender to) as [<-|]; rewrite upd_same; lia. }
    assert (G1 : guard (transfer s0 sender to v)) by (unfold guard; rewrite E1, E2; exact G).
    destruct (has_code (transfer s0 sender to v) to) eqn:Ec.
    - assert (Hto : to <> sender) by (intros ->; destruct G1; congruence).
      destruct (shield_list body (Forall_all _ shield_effect body) (0 + 1) to _ Hto G1) as (_ & N2 & B2 & S2).
      repeat split; try congruence; try lia.
    - repeat split; try congruence; try lia.
  Qed.
  Lemma top_create (s0 : state) to v ok body :
    has_code s0 sender = false -> v <= bal s0 sender -> nonce s0 sender + 1 < U64 ->
    let s' := run_effect h 0 sender s0 (top_frame true to v ok body) in
    let sb := set_nonce s0 sender (next_nonce (nonce s0 sender)) in
    nonce s' sender = next_nonce (nonce s0 sender) /\ bal s0 sender <= bal s' sender + v /\
    suicided s' sender = suicided s0 sender /\ (ok = false -> s' = sb).
  Proof.
    intros Hc Hv Hroom. cbv zeta. unfold top_frame. rewrite run_effect_frame. rewrite depth0.
    assert (Ect : can_transfer (bal s0 sender) v = true) by (unfold can_transfer; apply N.leb_le; exact Hv).
    rewrite Ect. cbn [negb]. cbv zeta.
    assert (En : next_nonce (nonce s0 sender) = nonce s0 sender + 1).
    { unfold next_nonce. rewrite U64_val in Hroom. lia. }
    set (sb := set_nonce s0 sender (next_nonce (nonce s0 sender))).
    assert (Nb : nonce sb sender = next_nonce (nonce s0 sender)) by (unfold sb; cbn; now rewrite upd_same).
    assert (Gb : guard sb) by (split; [rewrite Nb, En; lia|exact Hc]).
    destruct (collision sb to) eqn:Ecol; [repeat split; try assumption; cbn; lia|].
    destruct ok; [|repeat split; try assumption; cbn; lia].
    assert (Hto : to <> sender).
    { intros ->. unfold collision in Ecol. apply orb_false_iff in Ecol. destruct Ecol as [Ec _].
      apply negb_false_iff, N.eqb_eq in Ec. destruct Gb. contradiction. }
    rewrite eip158_active.
    set (s1 := set_nonce sb to 1).
    assert (G1 : guard s1).
    { unfold guard, s1. cbn [set_nonce nonce has_code]. rewrite upd_other by congruence. exact Gb. }
    assert (N1 : nonce s1 sender = next_nonce (nonce s0 sender)).
    { unfold s1. cbn [set_nonce nonce]. rewrite upd_other by congruence. exact Nb. }
    destruct (transfer_fields s1 sender to v) as (E1 & E2 & E3).
    assert (B1 : bal s0 sender <= bal (transfer s1 sender to v) sender + v).
    { unfold transfer. rewrite sub_balance_ok by exact Hv. rewrite bal_add_balance. cbn [set_bal bal].
      destruct (N.eqb_spec sender to) as [E|]; [congruence|]. rewrite upd_same. cbn. lia. }
    assert (G2 : guard (transfer s1 sender to v)) by (unfold guard; rewrite E1, E2; exact G1).
    destruct (shield_list body (Forall_all _ shield_effect body) (0 + 1) to _ Hto G2) as (_ & N3 & B3 & S3).
    cbn [set_code nonce bal suicided].
    repeat split; try discriminate.
    - rewrite N3, E1. exact N1.
    - lia.
    - rewrite S3, E3. reflexivity.
  Qed.
End Frames.

(** SELFDESTRUCT zeroes the contract's balance on EVERY execution, whether or not the contract is
    already in the suicide set (a contract that self-destructed earlier in the transaction still has
    its code, can be called again, can have received value in between, and self-destructs again). *)
Lemma selfdestruct_zeroes_every_time R (s : state R) self ben :
  account_empty s self = false -> bal (op_selfdestruct s self ben) self = 0.
Proof.
  intros H. unfold op_selfdestruct, suicide. rewrite account_empty_add_balance, H.
  cbn [set_bal bal]. apply upd_same.
Qed.

(** * Every program: the interpreter hypotheses of Proofs/C07.v hold for [run_of_tree] *)
Section Programs.
  Variable R : Type.
  Variable clean : (addr -> bool) -> R -> R.
  Notation state := (state R).

  (** Consistency of what the harness records about the top frame: the error and the success flag
      agree, and a failed frame has its refund counter restored (RevertToSnapshot). *)
  Definition oracle_ok (o : frame_oracle) : Prop :=
    (fo_err o <> None -> fo_ok o = false) /\ (fo_ok o = false -> fo_refund o = 0).

  Definition tree_target (m : msg) (o : frame_oracle) : addr :=
    match m_to m with Some a => a | None => fo_target o end.

  Section One.
    Variables (e : env) (s : state) (m : msg) (o : frame_oracle).
    Let run := run_of_tree (R := R) (height e) o.
    Hypothesis Hwf : wf_msg m.
    Hypothesis Hcode : has_code s (m_from m) = false.
    Hypothesis Hsu : suicided s (m_from m) = false.
    Hypothesis Hroom : forall a, nonce s a + 2 + creates_l (fo_body o) < U64.

    Let frame_of (c : bool) := top_frame c (tree_target m o) (m_value m) (fo_ok o) (fo_body o).

    Lemma run_state c (s0 : state) g :
      r_state (run c s0 m g) = run_effect (height e) 0 (m_from m) s0 (frame_of c).
    Proof. reflexivity. Qed.

    Lemma next_nonce_sender : next_nonce (nonce s (m_from m)) = nonce s (m_from m) + 1.
    Proof. unfold next_nonce. pose proof (Hroom (m_from m)) as H. rewrite U64_val in H. lia. Qed.

    (** facts about the state handed over, per kind *)
    Lemma handed_call (s0 : state) g : invocation e s m = Some (false, s0, g) ->
      guard R (m_from m) s0 /\ m_value m <= bal s0 (m_from m) /\ suicided s0 (m_from m) = false.
    Proof.
      intros Hinv. destruct (invocation_facts R e s m _ _ _ Hwf Hinv) as (_ & Hc & Hs & _ & _ & Hn & Hv & _).
      repeat split; try assumption.
      - rewrite Hn, next_nonce_sender. lia.
      - now rewrite Hc.
      - now rewrite Hs.
    Qed.

    Lemma handed_create (s0 : state) g : invocation e s m = Some (true, s0, g) ->
      has_code s0 (m_from m) = false /\ m_value m <= bal s0 (m_from m) /\
      nonce s0 (m_from m) + 1 < U64 /\ suicided s0 (m_from m) = false.
    Proof.
      intros Hinv. destruct (invocation_facts R e s m _ _ _ Hwf Hinv) as (_ & Hc & Hs & _ & _ & Hn & Hv & _).
      repeat split; try assumption.
      - now rewrite Hc.
      - rewrite Hn. pose proof (Hroom (m_from m)). lia.
      - now rewrite Hs.
    Qed.

    Lemma tree_nonce : H_nonce R run e s m.
    Proof.
      intros c s0 g Hinv. rewrite run_state. destruct c.
      - destruct (handed_create s0 g Hinv) as (A & B & C & _).
        apply (top_create R (height e) (m_from m) s0 _ _ _ _ A B C).
      - destruct (handed_call s0 g Hinv) as (A & B & _).
        apply (top_call R (height e) (m_from m) s0 _ _ _ _ A B).
    Qed.

    Lemma tree_debit : H_debit R run e s m.
    Proof.
      intros c s0 g Hinv. rewrite run_state. destruct c.
      - destruct (handed_create s0 g Hinv) as (A & B & C & _).
        apply (top_create R (height e) (m_from m) s0 _ _ _ _ A B C).
      - destruct (handed_call s0 g Hinv) as (A & B & _).
        apply (top_call R (height e) (m_from m) s0 _ _ _ _ A B).
    Qed.

    Lemma tree_alive : H_alive R run e s m.
    Proof.
      intros c s0 g Hinv. rewrite run_state. destruct c.
      - destruct (handed_create s0 g Hinv) as (A & B & C & D).
        destruct (top_create R (height e) (m_from m) s0 (tree_target m o) (m_value m) (fo_ok o) (fo_body o) A B C)
          as (_ & _ & S & _). fold (frame_of true) in S. now rewrite S.
      - destruct (handed_call s0 g Hinv) as (A & B & D).
        destruct (top_call R (height e) (m_from m) s0 (tree_target m o) (m_value m) (fo_ok o) (fo_body o) A B)
          as (_ & _ & S & _). fold (frame_of false) in S. now rewrite S.
    Qed.

    Lemma tree_revert : oracle_ok o -> H_revert R run e s m.
    Proof.
      intros [Ho1 Ho2] c s0 g Hinv Herr. rewrite run_state.
      assert (Hok : fo_ok o = false) by (apply Ho1; exact Herr).
      split; [|split; [|split; [|split]]]; try (cbn; apply Ho2; exact Hok); destruct c.
      all: try (destruct (handed_create s0 g Hinv) as (A & B & C & _);
                destruct (top_create R (height e) (m_from m) s0 (tree_target m o) (m_value m) (fo_ok o) (fo_body o) A B C)
                  as (_ & _ & _ & E); fold (frame_of true) in E; rewrite (E Hok)).
      all: try (destruct (handed_call s0 g Hinv) as (A & B & _);
                destruct (top_call R (height e) (m_from m) s0 (tree_target m o) (m_value m) (fo_ok o) (fo_body o) A B)
                  as (_ & _ & _ & E); fold (frame_of false) in E; rewrite (E Hok)).
      all: try reflexivity.
      intros a Ha. cbn [set_nonce nonce]. now rewrite upd_other.
    Qed.

    Variable U : list addr.
    Hypothesis U_nodup : NoDup U.
    Hypothesis U_from : In (m_from m) U.
    Hypothesis U_target : In (tree_target m o) U.
    Hypothesis U_body : incl (addrs_l (fo_body o)) U.

    Lemma tree_sum_ok c (s0 : state) g : invocation e s m = Some (c, s0, g) ->
      sum_ok R U (m_from m) s0 (run_effect (height e) 0 (m_from m) s0 (frame_of c))
             (no_sd_self_l (tree_target m o) (fo_body o)).
    Proof.
      intros Hinv.
      assert (Hr : room R s0 (creates (frame_of c))).
      { destruct (invocation_facts R e s m _ _ _ Hwf Hinv) as (_ & _ & _ & _ & Hoth & Hn & _).
        intros a. unfold frame_of, top_frame. rewrite creates_frame.
        assert (nonce s0 a <= nonce s a + 1).
        { destruct (N.eq_dec a (m_from m)) as [->|Ha]; [|destruct (Hoth a Ha) as [-> _]; lia].
          rewrite Hn. destruct c; [lia|rewrite next_nonce_sender; lia]. }
        pose proof (Hroom a). destruct c; cbn [kcost]; lia. }
      assert (Hi : incl (effect_addrs (frame_of c)) U).
      { unfold frame_of, top_frame. rewrite addrs_frame. intros x [<-|Hx]; [exact U_target|now apply U_body]. }
      pose proof (sum_effect R (height e) U U_nodup (frame_of c) 0 (m_from m) s0 U_from Hi Hr) as H.
      unfold frame_of, top_frame in H. rewrite no_sd_self_frame in H.
      destruct c; cbn [needs_live body_ctx] in H; apply H; discriminate.
    Qed.

    Lemma tree_sum_le : H_sum_le R run U e s m.
    Proof. intros c s0 g Hinv. rewrite run_state. apply (tree_sum_ok c s0 g Hinv). Qed.

    Lemma tree_sum : no_sd_self_l (tree_target m o) (fo_body o) = true -> H_sum R run U e s m.
    Proof. intros Hn c s0 g Hinv. rewrite run_state. now apply (tree_sum_ok c s0 g Hinv). Qed.
  End One.
End Programs.

(** * The inventory of state-writing calls in the EVM packages is the one the two models mirror.
      (Regenerated from the source on every run; a new writer call breaks this equation.) *)
Require Import String.
Example write_sites_as_modelled :
  STATE_WRITE_SITES =
  [ (* Model/EvmFrames.v *)
    ("vm/evm/evm.go", "Call", "Transfer");                       (* KCall: transfer *)
    ("vm/evm/evm.go", "StaticCall", "AddBalance");               (* KStaticCall: add_balance _ 0 *)
    ("vm/evm/evm.go", "create", "SetNonce");                     (* KCreate: caller nonce + 1 *)
    ("vm/evm/evm.go", "create", "SetNonce");                     (* KCreate: new account nonce 1 *)
    ("vm/evm/evm.go", "create", "Transfer");                     (* KCreate: transfer *)
    ("vm/evm/evm.go", "create", "SetCode");                      (* KCreate: set_code *)
    ("vm/evm/instructions.go", "opSuicide", "AddBalance");       (* op_selfdestruct *)
    ("vm/evm/instructions.go", "opSuicide", "Suicide");          (* op_selfdestruct: suicide *)
    ("smartcontract/service/evm/evm.go", "Transfer", "SubBalance");   (* transfer *)
    ("smartcontract/service/evm/evm.go", "Transfer", "AddBalance");
    (* Model/EvmEnvelope.v *)
    ("smartcontract/service/evm/state_transition.go", "buyGas", "SubBalance");
    ("smartcontract/service/evm/state_transition.go", "handleGasFee", "AddBalance");
    ("smartcontract/service/evm/state_transition.go", "TransitionDb", "SetNonce");
    ("smartcontract/service/evm/state_transition.go", "TransitionDb", "SetNonce");
    ("smartcontract/service/evm/state_transition.go", "TransitionDb", "AddBalance");
    ("smartcontract/service/evm/state_transition.go", "refundGas", "AddBalance") ]%string.
Proof. reflexivity. Qed.
