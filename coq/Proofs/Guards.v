(** Proofs for Model/Guards.v: with the tests that are in the source now (Gen/GuardSites.v), no
    guarded slice access can leave its slice, the size limits are invariants, and the counted
    recursions end on every heap graph, cyclic or not. *)
From Coq Require Import List Bool Arith ZArith Lia.
Import ListNotations.
From Ont Require Import Gen.GuardSites Model.VmValue Model.Guards.
Local Open Scope Z_scope.

(** * Slices *)
Lemma len_nonneg {A} (l : list A) : 0 <= len l.
Proof. unfold len. lia. Qed.

Lemma len_app {A} (a b : list A) : len (a ++ b) = len a + len b.
Proof. unfold len. rewrite app_length. lia. Qed.

Lemma idx_ok {A} (l : list A) i : 0 <= i < len l -> exists a, idx l i = GOk a.
Proof.
  intros H. unfold idx.
  replace ((0 <=? i) && (i <? len l)) with true by (symmetry; apply andb_true_iff; split; [apply Z.leb_le|apply Z.ltb_lt]; lia).
  destruct (nth_error l (Z.to_nat i)) eqn:E; [eauto|].
  apply nth_error_None in E. unfold len in H. lia.
Qed.

Lemma slice_ok {A} (l : list A) a b : 0 <= a <= b -> b <= len l ->
  exists r, slice l a b = GOk r /\ len r = b - a.
Proof.
  intros H1 H2. unfold slice.
  replace ((0 <=? a) && (a <=? b) && (b <=? len l)) with true
    by (symmetry; rewrite !andb_true_iff; repeat split; apply Z.leb_le; lia).
  eexists. split; [reflexivity|]. unfold len in *. rewrite firstn_length, skipn_length. lia.
Qed.

Lemma upd_ok {A} (l : list A) i v : 0 <= i < len l -> exists r, upd l i v = GOk r /\ len r = len l.
Proof.
  intros H. unfold upd.
  replace ((0 <=? i) && (i <? len l)) with true by (symmetry; apply andb_true_iff; split; [apply Z.leb_le|apply Z.ltb_lt]; lia).
  eexists. split; [reflexivity|]. unfold len in *. rewrite app_length, firstn_length. cbn [length]. rewrite skipn_length. lia.
Qed.

Ltac bools := repeat match goal with
  | H : _ || _ = false |- _ => apply orb_false_iff in H; destruct H
  | H : _ && _ = false |- _ => apply andb_false_iff in H
  | H : negb _ = false |- _ => apply negb_false_iff in H
  | H : (_ <? _) = false |- _ => apply Z.ltb_ge in H
  | H : (_ <=? _) = false |- _ => apply Z.leb_gt in H
  | H : (_ =? _) = false |- _ => apply Z.eqb_neq in H
  | H : (_ <? _) = true |- _ => apply Z.ltb_lt in H
  | H : (_ <=? _) = true |- _ => apply Z.leb_le in H
  | H : (_ =? _) = true |- _ => apply Z.eqb_eq in H
  end.

(** use an [exists r, f = GOk r /\ ...] fact to rewrite [f] *)
Ltac use H :=
  let r := fresh "r" in let E := fresh "E" in
  destruct H as [r E];
  first [ let E1 := fresh "Eq" in let L := fresh "L" in (destruct E as [E1 L]; rewrite E1) | rewrite E ];
  cbn [gbind].

Definition no_panic {A} (r : gres A) : Prop := r <> GPanic.

(** * ValueStack *)
Section StackProofs.
Context {A : Type}.
Implicit Types data vals : list A.

Theorem vs_peek_safe : forall data index, no_panic (vs_peek data index).
Proof.
  intros data index. unfold vs_peek, no_panic. destruct (vs_peek_bad index (len data)) eqn:G; [discriminate|].
  unfold vs_peek_bad in G. bools. pose proof (len_nonneg data).
  destruct (idx_ok data (len data - index - 1)) as [a E]; [lia|]. rewrite E. discriminate.
Qed.

Theorem vs_remove_safe : forall data index, no_panic (vs_remove data index).
Proof.
  intros data index. unfold vs_remove, no_panic. destruct (vs_remove_bad index (len data)) eqn:G; [discriminate|].
  unfold vs_remove_bad in G. bools. pose proof (len_nonneg data).
  use (idx_ok data (len data - index - 1) ltac:(lia)).
  use (slice_ok data 0 (len data - index - 1) ltac:(lia) ltac:(lia)).
  use (slice_ok data (len data - index) (len data) ltac:(lia) ltac:(lia)).
  discriminate.
Qed.

Theorem vs_remove_length : forall data index v r, vs_remove data index = GOk (v, r) -> len r = len data - 1.
Proof.
  intros data index v r. unfold vs_remove. destruct (vs_remove_bad index (len data)) eqn:G; [discriminate|].
  unfold vs_remove_bad in G. bools. pose proof (len_nonneg data).
  use (idx_ok data (len data - index - 1) ltac:(lia)).
  use (slice_ok data 0 (len data - index - 1) ltac:(lia) ltac:(lia)).
  use (slice_ok data (len data - index) (len data) ltac:(lia) ltac:(lia)).
  intros HH. inversion HH; subst. rewrite len_app. lia.
Qed.

Theorem vs_set_safe : forall data index t, no_panic (vs_set data index t).
Proof.
  intros. unfold vs_set, no_panic. destruct (vs_set_bad index (len data)) eqn:G; [discriminate|].
  unfold vs_set_bad in G. bools. use (upd_ok data index t ltac:(lia)). discriminate.
Qed.

Theorem vs_pop_safe : forall data, no_panic (vs_pop data).
Proof.
  intros. unfold vs_pop, no_panic. destruct (len data =? 0) eqn:G; [discriminate|]. bools.
  pose proof (len_nonneg data).
  use (idx_ok data (len data - 1) ltac:(lia)).
  use (slice_ok data 0 (len data - 1) ltac:(lia) ltac:(lia)). discriminate.
Qed.

Theorem vs_pop_length : forall data v r, vs_pop data = GOk (v, r) -> len r = len data - 1.
Proof.
  intros data v r. unfold vs_pop. destruct (len data =? 0) eqn:G; [discriminate|]. bools.
  pose proof (len_nonneg data).
  use (idx_ok data (len data - 1) ltac:(lia)).
  use (slice_ok data 0 (len data - 1) ltac:(lia) ltac:(lia)).
  intros HH. inversion HH; subst. lia.
Qed.

Theorem vs_swap_safe : forall data i j, no_panic (vs_swap data i j).
Proof.
  intros. unfold vs_swap, no_panic.
  destruct (vs_swap_bad_i i (len data)) eqn:G1; [discriminate|].
  destruct (vs_swap_bad_j j (len data)) eqn:G2; [discriminate|].
  destruct (i =? j); [discriminate|].
  unfold vs_swap_bad_i in G1. unfold vs_swap_bad_j in G2. bools.
  use (idx_ok data (len data - i - 1) ltac:(lia)).
  use (idx_ok data (len data - j - 1) ltac:(lia)).
  use (upd_ok data (len data - i - 1) r0 ltac:(lia)).
  use (upd_ok r1 (len data - j - 1) r ltac:(lia)). discriminate.
Qed.

Theorem vs_push_safe : forall limit data t, no_panic (vs_push limit data t).
Proof. intros. unfold vs_push, no_panic. destruct (vs_push_full _ _); discriminate. Qed.

(** the stack limit is an invariant of every growing operation *)
Theorem vs_push_bounded : forall limit data t r, vs_push limit data t = GOk r -> len r <= limit.
Proof.
  intros limit data t r. unfold vs_push. destruct (vs_push_full (len data) limit) eqn:G; [discriminate|].
  unfold vs_push_full in G. bools. intros HH. inversion HH. rewrite len_app. unfold len at 2. cbn. lia.
Qed.

Theorem vs_pushmany_bounded : forall limit data vals r, vs_pushmany limit data vals = GOk r -> len r <= limit.
Proof.
  intros limit data vals r. unfold vs_pushmany. destruct (vs_pushmany_full _ _ _) eqn:G; [discriminate|].
  unfold vs_pushmany_full in G. bools. intros HH. inversion HH. rewrite len_app. lia.
Qed.

Theorem vs_copyto_bounded : forall limit (d1 d2 r : list A), vs_copyto limit d1 d2 = GOk r -> len r <= limit.
Proof.
  intros limit d1 d2 r. unfold vs_copyto. destruct (vs_copyto_full _ _ _) eqn:G; [discriminate|].
  unfold vs_copyto_full in G. bools. intros HH. inversion HH. rewrite len_app. lia.
Qed.

Theorem vs_insert_safe : forall limit data index t,
  no_panic (vs_insert limit data index t) /\
  (forall r, vs_insert limit data index t = GOk r -> len r = len data + 1 /\ len r <= limit).
Proof.
  intros limit data index t. unfold vs_insert, no_panic.
  destruct (vs_insert_full (len data) limit) eqn:G1; [split; [discriminate|intros; discriminate]|].
  destruct (vs_insert_bad index (len data)) eqn:G2; [split; [discriminate|intros; discriminate]|].
  unfold vs_insert_full in G1. unfold vs_insert_bad in G2. bools. pose proof (len_nonneg data).
  assert (L1 : len (data ++ [t]) = len data + 1) by (rewrite len_app; reflexivity).
  cbv zeta.
  destruct (slice_ok (data ++ [t]) (len data - index) (len (data ++ [t])) ltac:(lia) ltac:(lia)) as [src [E1 Ls]].
  rewrite E1. cbn [gbind].
  destruct (slice_ok (data ++ [t]) (len data - index + 1) (len (data ++ [t])) ltac:(lia) ltac:(lia)) as [dst [E2 Ld]].
  rewrite E2. cbn [gbind].
  set (d2 := firstn (Z.to_nat (len data - index + 1)) (data ++ [t]) ++ firstn (length dst) src).
  assert (L2 : len d2 = len data + 1).
  { unfold d2. rewrite len_app. unfold len in *. rewrite !firstn_length. lia. }
  destruct (upd_ok d2 (len data - index) t ltac:(lia)) as [r [E3 L3]]. rewrite E3.
  split; [discriminate|]. intros r' HH. inversion HH; subst. lia.
Qed.

(** * Splice *)
Lemma i64_small z : -9223372036854775808 <= z < 9223372036854775808 -> i64 z = z.
Proof. intros H. unfold i64. rewrite Z.mod_small by lia. lia. Qed.

(** a Go slice is shorter than 2^62 elements; both operands are at most the length, so their
    int64 sum does not wrap - this is what the [count > length] test is for *)
Theorem ex_substr_safe : forall (arr : list A) start count, len arr < 4611686018427387904 ->
  no_panic (ex_substr arr start count).
Proof.
  intros arr start count HL. unfold ex_substr, no_panic.
  destruct (ex_substr_start_bad _ _) eqn:G1; [discriminate|].
  destruct (ex_substr_count_bad _ _) eqn:G2; [discriminate|].
  unfold ex_substr_start_bad in G1. unfold ex_substr_count_bad in G2. bools.
  cbv zeta. rewrite i64_small by lia.
  destruct (ex_substr_end_bad _ _) eqn:G3; [discriminate|].
  unfold ex_substr_end_bad in G3. bools.
  use (slice_ok arr start (start + count) ltac:(lia) ltac:(lia)). discriminate.
Qed.

(** and the sum start+count cannot leave the int64 range: both are at most the length *)
Theorem ex_substr_no_overflow : forall (arr : list A) start count,
  ex_substr_start_bad start (len arr) = false -> ex_substr_count_bad count (len arr) = false ->
  0 <= start + count <= 2 * len arr.
Proof. intros arr start count G1 G2. unfold ex_substr_start_bad in G1. unfold ex_substr_count_bad in G2. bools. lia. Qed.

Theorem ex_left_safe : forall (arr : list A) count, no_panic (ex_left arr count).
Proof.
  intros. unfold ex_left, no_panic. destruct (ex_left_bad _ _) eqn:G; [discriminate|].
  unfold ex_left_bad in G. bools. use (slice_ok arr 0 count ltac:(lia) ltac:(lia)). discriminate.
Qed.

Theorem ex_right_safe : forall (arr : list A) count, no_panic (ex_right arr count).
Proof.
  intros. unfold ex_right, no_panic. destruct (ex_right_bad _ _) eqn:G; [discriminate|].
  unfold ex_right_bad in G. bools. use (slice_ok arr (len arr - count) (len arr) ltac:(lia) ltac:(lia)). discriminate.
Qed.

(** * Element access *)
Theorem ex_pickitem_safe : forall (data : list A) ind,
  no_panic (ex_pickitem_array data ind) /\ no_panic (ex_pickitem_struct data ind) /\ no_panic (ex_pickitem_bytes data ind).
Proof.
  intros. unfold ex_pickitem_array, ex_pickitem_struct, ex_pickitem_bytes, no_panic. repeat split.
  - destruct (ex_pickitem_array_bad _ _) eqn:G; [discriminate|]. unfold ex_pickitem_array_bad in G. bools.
    use (idx_ok data ind ltac:(lia)). discriminate.
  - destruct (ex_pickitem_struct_bad _ _) eqn:G; [discriminate|]. unfold ex_pickitem_struct_bad in G. bools.
    use (idx_ok data ind ltac:(lia)). discriminate.
  - destruct (ex_pickitem_bytes_bad _ _) eqn:G; [discriminate|]. unfold ex_pickitem_bytes_bad in G. bools.
    use (idx_ok data ind ltac:(lia)). discriminate.
Qed.

Theorem ex_setitem_safe : forall (data : list A) ind v,
  no_panic (ex_setitem_array data ind v) /\ no_panic (ex_setitem_struct data ind v).
Proof.
  intros. unfold ex_setitem_array, ex_setitem_struct, no_panic. split.
  - destruct (ex_setitem_array_bad _ _) eqn:G; [discriminate|]. unfold ex_setitem_array_bad in G. bools.
    use (upd_ok data ind v ltac:(lia)). discriminate.
  - destruct (ex_setitem_struct_bad _ _) eqn:G; [discriminate|]. unfold ex_setitem_struct_bad in G. bools.
    use (upd_ok data ind v ltac:(lia)). discriminate.
Qed.

Theorem arr_removeat_safe : forall (data : list A) index, no_panic (arr_removeat data index).
Proof.
  intros. unfold arr_removeat, no_panic. destruct (arr_removeat_bad _ _) eqn:G; [discriminate|].
  unfold arr_removeat_bad in G. bools.
  use (slice_ok data 0 index ltac:(lia) ltac:(lia)).
  use (slice_ok data (index + 1) (len data) ltac:(lia) ltac:(lia)). discriminate.
Qed.

Theorem arr_append_bounded : forall (data : list A) v r, arr_append data v = GOk r -> len r <= APPEND_MAX_ARRAY_SIZE.
Proof.
  intros data v r. unfold arr_append. destruct (APPEND_MAX_ARRAY_SIZE <=? len data) eqn:G; [discriminate|]. bools.
  intros HH. inversion HH. rewrite len_app. unfold len at 2. cbn. lia.
Qed.

Lemma append_n_safe : forall n (data : list A) v, no_panic (append_n n data v).
Proof.
  induction n; intros; cbn [append_n]; [discriminate|].
  unfold arr_append. destruct (APPEND_MAX_ARRAY_SIZE <=? len data); [discriminate|]. cbn [gbind]. apply IHn.
Qed.

Theorem ex_newarray_safe : forall count (d : A), no_panic (ex_newarray count d).
Proof. intros. unfold ex_newarray. destruct (ex_newarray_bad count); [discriminate|apply append_n_safe]. Qed.

Lemma pack_n_safe : forall n (stack acc : list A), no_panic (pack_n n stack acc).
Proof.
  induction n; intros; cbn [pack_n]; [discriminate|].
  pose proof (vs_pop_safe stack) as P. destruct (vs_pop stack) as [[v r]|e|]; cbn [gbind]; [|discriminate|contradiction].
  cbn [fst snd]. unfold arr_append. destruct (APPEND_MAX_ARRAY_SIZE <=? len acc); [discriminate|]. cbn [gbind]. apply IHn.
Qed.

Theorem ex_pack_safe : forall (stack : list A) size, no_panic (ex_pack stack size).
Proof. intros. unfold ex_pack. destruct (ex_pack_bad size); [discriminate|apply pack_n_safe]. Qed.
End StackProofs.

(** * Control flow *)
Theorem ex_jmp_in_code : forall ip codelen num t, ex_jmp_target ip codelen num = GOk t -> 0 <= t <= codelen.
Proof.
  intros ip codelen num t. unfold ex_jmp_target. destruct (ex_jmp_bad _ _) eqn:G; [discriminate|].
  unfold ex_jmp_bad in G. bools. intros HH. inversion HH. lia.
Qed.

Theorem ex_dcall_in_code : forall codelen target t, ex_dcall_target codelen target = GOk t -> 0 <= t < codelen.
Proof.
  intros codelen target t. unfold ex_dcall_target. destruct (ex_dcall_bad _ _) eqn:G; [discriminate|].
  unfold ex_dcall_bad in G. bools. intros HH. inversion HH. lia.
Qed.

Theorem ex_pushcontext_bounded : forall callers n, ex_pushcontext callers = GOk n -> n <= MAX_INVOCATION_STACK_SIZE.
Proof.
  intros callers n. unfold ex_pushcontext. destruct (ex_pushcontext_full callers) eqn:G; [discriminate|].
  unfold ex_pushcontext_full in G. bools. intros HH. inversion HH. lia.
Qed.

(** * Native contracts *)
Lemma u32_small z : 0 <= z < 4294967296 -> u32 z = z.
Proof. intros. unfold u32. apply Z.mod_small. lia. Qed.

Theorem ontid_revoke_safe : forall {A} (keys : list A) index, 0 <= index < 4294967296 ->
  no_panic (ontid_revoke_v0 keys index) /\ no_panic (ontid_revoke_v1 keys index).
Proof.
  intros A keys index Hi. unfold ontid_revoke_v0, ontid_revoke_v1, ontid_revoke_index, no_panic. split.
  - destruct (ontid_revoke_bad_v0 _ _) eqn:G; [discriminate|]. unfold ontid_revoke_bad_v0 in G. bools.
    rewrite u32_small by lia. use (idx_ok keys (index - 1) ltac:(lia)). discriminate.
  - destruct (ontid_revoke_bad_v1 _ _) eqn:G; [discriminate|]. unfold ontid_revoke_bad_v1 in G. bools.
    rewrite u32_small by lia. use (idx_ok keys (index - 1) ltac:(lia)). discriminate.
Qed.

Theorem ontid_getpk_safe : forall {A} (keys : list A) index, 0 <= index < 4294967296 -> no_panic (ontid_getpk keys index).
Proof.
  intros A keys index Hi. unfold ontid_getpk, no_panic. destruct (len keys =? 0); [discriminate|].
  destruct (ontid_getpk_bad _ _) eqn:G; [discriminate|]. unfold ontid_getpk_bad in G. bools.
  rewrite u32_small by lia. use (idx_ok keys (index - 1) ltac:(lia)). discriminate.
Qed.

Theorem gov_l_mod_k_safe : forall l k, no_panic (gov_l_mod_k l k).
Proof.
  intros l k. unfold gov_l_mod_k, no_panic. destruct (gov_config_k_zero k) eqn:G; [discriminate|].
  unfold gov_config_k_zero in G. bools. destruct (k =? 0) eqn:E; [bools; contradiction|discriminate].
Qed.

Theorem ontfs_safe : forall {A} (proof : list A) x n,
  no_panic (ontfs_proof_version proof) /\ no_panic (ontfs_challenge x n) /\ no_panic (ontfs_merkle_parts proof).
Proof.
  intros A proof x n. unfold no_panic. repeat split.
  - unfold ontfs_proof_version. destruct (ontfs_proof_short _) eqn:G; [discriminate|]. unfold ontfs_proof_short in G. bools.
    use (slice_ok proof 0 PDP_VERSION_LENGTH ltac:(unfold PDP_VERSION_LENGTH; lia) ltac:(lia)). discriminate.
  - unfold ontfs_challenge. destruct (ontfs_blocknum_zero n) eqn:G; [discriminate|]. unfold ontfs_blocknum_zero in G. bools.
    destruct (n =? 0) eqn:E; [bools; contradiction|discriminate].
  - unfold ontfs_merkle_parts. destruct (ontfs_merkle_short _) eqn:G; [discriminate|]. unfold ontfs_merkle_short in G. bools.
    cbv zeta. use (idx_ok proof (len proof - 1) ltac:(lia)). use (idx_ok proof 0 ltac:(lia)).
    use (slice_ok proof 1 (len proof - 1) ltac:(lia) ltac:(lia)). discriminate.
Qed.
