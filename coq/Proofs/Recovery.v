(** C01 — proofs about Model/Recovery.v: invariant of the uncrashed run, congruence of block
    submission w.r.t. observational equivalence, and the case analysis over crash points. *)
From Coq Require Import List Bool Arith NArith ZArith Lia ZifyN ZifyNat ZifyBool.
Import ListNotations.
From Ont Require Import Lib.Bytes Model.RecoverTypes Gen.Recover Model.Recovery Proofs.RecoveryLib.
Local Open Scope N_scope.

Lemma tree_eta t : mkTree (t_size t) (t_hashes t) = t.
Proof. destruct t; reflexivity. Qed.
Lemma mem_eta m : mkMem (m_h m) (m_hash m) (m_btree m) (m_stree m) (m_fpos m) = m.
Proof. destruct m; reflexivity. Qed.
Lemma disk_eta d : mkDisk (d_block d) (d_event d) (d_state d) (d_file d) = d.
Proof. destruct d; reflexivity. Qed.
Lemma ledger_eta l : mkLedger (l_disk l) (l_mem l) = l.
Proof. destruct l; reflexivity. Qed.

Lemma hash_size_32 : hash_size = 32.
Proof. reflexivity. Qed.

Section Proofs.
  Variable hc : hash -> hash -> hash.
  Variable hempty : hash.
  Variable shh : N.
  Variable exec : sstore -> blk -> option xres.
  Variable hdr_ok : blk -> blk -> bool.
  Hypothesis hc_len : forall a b, len32 (hc a b).

  Notation add_block := (add_block hc hempty shh exec hdr_ok).
  Notation precheck := (precheck hc hempty shh exec hdr_ok).
  Notation run_step := (run_step hc hempty shh exec).
  Notation run_steps := (run_steps hc hempty shh exec).
  Notation crash_steps := (crash_steps hc hempty shh exec).
  Notation crash_add := (crash_add hc hempty shh exec hdr_ok).
  Notation reopen := (reopen hc hempty shh exec).
  Notation run := (run hc hempty shh exec hdr_ok).
  Notation run_outcomes := (run_outcomes hc hempty shh exec hdr_ok).
  Notation observe := (observe hc hempty shh).
  Notation save_state_plan := (save_state_plan hc hempty shh).
  Notation consistent_b := (consistent_b shh).

  (** * The invariant of an opened, uncrashed ledger *)
  Record consistent (l : ledger) : Prop := mkConsistent {
    c_ver : kv_get bkey_eqb (d_block (l_disk l)) BKVersion = Some (BVVersion SYSTEM_VERSION);
    c_bcur : kv_get bkey_eqb (d_block (l_disk l)) BKCur = Some (BVCur (m_hash (l_mem l)) (m_h (l_mem l)));
    c_scur : kv_get skey_eqb (d_state (l_disk l)) SKCur = Some (SVCur (m_hash (l_mem l)) (m_h (l_mem l)));
    c_btree : kv_get skey_eqb (d_state (l_disk l)) SKBlockTree
              = Some (SVTree (t_size (m_btree (l_mem l))) (t_hashes (m_btree (l_mem l))));
    c_bsize : t_size (m_btree (l_mem l)) = m_h (l_mem l) + 1;
    c_blen : length (t_hashes (m_btree (l_mem l))) = count_bit (t_size (m_btree (l_mem l)));
    c_stree : if m_h (l_mem l) <? shh then m_stree (l_mem l) = empty_tree
              else kv_get skey_eqb (d_state (l_disk l)) SKStateTree
                   = Some (SVTree (t_size (m_stree (l_mem l))) (t_hashes (m_stree (l_mem l))))
                   /\ t_size (m_stree (l_mem l)) = m_h (l_mem l) - shh + 1
                   /\ length (t_hashes (m_stree (l_mem l))) = count_bit (t_size (m_stree (l_mem l)));
    c_fpos : m_fpos (l_mem l) = Some (stored_hash_num (m_h (l_mem l) + 1) * hash_size);
    c_flen : stored_hash_num (m_h (l_mem l) + 1) * hash_size <= N.of_nat (length (d_file (l_disk l))) }.

  Lemma sval_is_tree_sound v t : sval_is_tree v t = true -> v = Some (SVTree (t_size t) (t_hashes t)).
  Proof.
    destruct v as [[]|]; simpl; try discriminate. intro H.
    apply andb_prop in H; destruct H as [H1 H2].
    apply N.eqb_eq in H1; apply list_bytes_eqb_eq in H2; subst; reflexivity.
  Qed.

  Lemma consistent_b_sound l : consistent_b l = true -> consistent l.
  Proof.
    unfold Recovery.consistent_b. intro H.
    repeat (apply andb_prop in H; let H' := fresh "H" in destruct H as [H H']).
    destruct (kv_get bkey_eqb (d_block (l_disk l)) BKVersion) as [[]|] eqn:E1; try discriminate.
    destruct (kv_get bkey_eqb (d_block (l_disk l)) BKCur) as [[]|] eqn:E2; try discriminate.
    destruct (kv_get skey_eqb (d_state (l_disk l)) SKCur) as [[]|] eqn:E3; try discriminate.
    destruct (m_fpos (l_mem l)) eqn:E4; try discriminate.
    apply N.eqb_eq in H; subst.
    apply andb_prop in H6; destruct H6 as [Ha Hb]; apply bytes_eqb_eq in Ha; apply N.eqb_eq in Hb; subst.
    apply andb_prop in H5; destruct H5 as [Ha Hb]; apply bytes_eqb_eq in Ha; apply N.eqb_eq in Hb; subst.
    apply andb_prop in H0; destruct H0 as [Ha Hb]; apply N.eqb_eq in Ha; apply N.leb_le in Hb; subst.
    apply sval_is_tree_sound in H4. apply N.eqb_eq in H3. apply Nat.eqb_eq in H2.
    constructor; auto.
    destruct (m_h (l_mem l) <? shh).
    - unfold tree_eqb in H1. apply andb_prop in H1; destruct H1 as [Ha Hc].
      apply N.eqb_eq in Ha; apply list_bytes_eqb_eq in Hc.
      destruct (m_stree (l_mem l)); simpl in *; subst; reflexivity.
    - apply andb_prop in H1; destruct H1 as [H1 Hc]. apply andb_prop in H1; destruct H1 as [Ha Hd].
      apply sval_is_tree_sound in Ha. apply N.eqb_eq in Hd. apply Nat.eqb_eq in Hc. auto.
  Qed.

  (** * Observational equivalence of ledgers: same volatile state, same block and state stores,
      event stores equal as maps, hash files equal up to the committed size. *)
  Definition file_agree (p : option N) (f1 f2 : bytes) : Prop :=
    match p with
    | Some p => firstn (N.to_nat p) f1 = firstn (N.to_nat p) f2
                /\ (N.to_nat p <= length f1)%nat /\ (N.to_nat p <= length f2)%nat
    | None => True
    end.

  Definition disk_equiv (p : option N) (d1 d2 : disk) : Prop :=
    d_block d1 = d_block d2 /\ d_state d1 = d_state d2 /\
    (forall k, kv_get ekey_eqb (d_event d1) k = kv_get ekey_eqb (d_event d2) k) /\
    file_agree p (d_file d1) (d_file d2).

  Definition equiv (l1 l2 : ledger) : Prop :=
    l_mem l1 = l_mem l2 /\ disk_equiv (m_fpos (l_mem l1)) (l_disk l1) (l_disk l2).

  Lemma equiv_refl l : consistent l -> equiv l l.
  Proof.
    intro C. split; [reflexivity|]. repeat split.
    rewrite (c_fpos l C). simpl. pose proof (c_flen l C). repeat split; lia.
  Qed.

  Lemma equiv_sym l1 l2 : equiv l1 l2 -> equiv l2 l1.
  Proof.
    intros (Hm & Hb & Hs & He & Hf). split; [symmetry; exact Hm|]. rewrite <- Hm.
    split; [symmetry; exact Hb|]. split; [symmetry; exact Hs|]. split.
    - intro k; symmetry; apply He.
    - unfold file_agree in *. destruct (m_fpos (l_mem l1)); [|exact I].
      destruct Hf as (A & B & C); repeat split; auto.
  Qed.

  Lemma equiv_trans l1 l2 l3 : equiv l1 l2 -> equiv l2 l3 -> equiv l1 l3.
  Proof.
    intros (Hm & Hb & Hs & He & Hf) (Hm' & Hb' & Hs' & He' & Hf'). split; [congruence|].
    rewrite <- Hm in Hf'.
    split; [congruence|]. split; [congruence|]. split.
    - intro k; rewrite He; apply He'.
    - unfold file_agree in *. destruct (m_fpos (l_mem l1)); [|exact I].
      destruct Hf as (A & B & C); destruct Hf' as (A' & B' & C'); repeat split; auto; congruence.
  Qed.

  Lemma observe_equiv l1 l2 : equiv l1 l2 -> observe l1 = observe l2.
  Proof.
    intros (Hm & Hb & Hs & _). unfold Recovery.observe, state_root_at. rewrite Hm, Hs. reflexivity.
  Qed.

  Lemma precheck_equiv l1 l2 b : equiv l1 l2 -> precheck l1 b = precheck l2 b.
  Proof.
    intros (Hm & Hb & Hs & _). unfold Recovery.precheck. rewrite Hm, Hb, Hs. reflexivity.
  Qed.

  (** ** Every step respects the equivalence (for any step list, hence independent of Gen). *)
  Definition ps_equiv (a b : pstate) : Prop :=
    ps_mem a = ps_mem b /\ ps_pend a = ps_pend b /\ ps_res a = ps_res b /\
    disk_equiv (m_fpos (ps_mem a)) (ps_disk a) (ps_disk b).

  Definition res_rel {A} (R : A -> A -> Prop) (x y : res A) : Prop :=
    match x, y with
    | Ok a, Ok b => R a b
    | Err e1, Err e2 => e1 = e2
    | _, _ => False
    end.

  Lemma run_step_equiv b st ps1 ps2 :
    ps_equiv ps1 ps2 -> res_rel ps_equiv (run_step b ps1 st) (run_step b ps2 st).
  Proof.
    intros (Hm & Hp & Hr & Hb & Hs & He & Hf).
    destruct st; unfold Recovery.run_step; rewrite <- ?Hm, <- ?Hp, <- ?Hr.
    - (* NewBatch *) simpl. repeat split; auto.
    - (* SaveBlock *) destruct (p_block (ps_pend ps1)); simpl; [|reflexivity]. repeat split; auto.
    - (* SaveState *)
      destruct (ps_res ps1) as [r|]; [|reflexivity].
      destruct (p_event (ps_pend ps1)); [|reflexivity].
      destruct (p_state (ps_pend ps1)); [|reflexivity].
      destruct (save_state_plan (m_btree (ps_mem ps1)) (m_stree (ps_mem ps1)) b r) as [pl|]; [|reflexivity].
      destruct (m_fpos (ps_mem ps1)) as [pos|] eqn:Ep; simpl.
      + destruct Hf as (A & B & C).
        repeat split; simpl; auto.
        * replace (N.to_nat (pos + N.of_nat (length (pl_fdata pl))))
            with (N.to_nat pos + length (pl_fdata pl))%nat by lia.
          rewrite !file_write_upto by assumption. rewrite A; reflexivity.
        * pose proof (file_write_length (d_file (ps_disk ps1)) pos (pl_fdata pl) B). lia.
        * pose proof (file_write_length (d_file (ps_disk ps2)) pos (pl_fdata pl) C). lia.
      + repeat split; simpl; auto.
    - (* SaveEvent *) destruct (p_event (ps_pend ps1)); simpl; [|reflexivity]. repeat split; auto.
    - (* Commit *)
      simpl. destruct s; unfold commit_store; simpl.
      + destruct (p_block (ps_pend ps1)); repeat split; simpl; auto. rewrite Hb; reflexivity.
      + destruct (p_event (ps_pend ps1)); repeat split; simpl; auto.
        intro k. rewrite !(kv_get_commit ekey_eqb ekey_eqb_spec). rewrite He; reflexivity.
      + destruct (p_state (ps_pend ps1)); repeat split; simpl; auto. rewrite Hs; reflexivity.
    - (* Exec *) rewrite <- Hs. destruct (exec (d_state (ps_disk ps1)) b); simpl; [|reflexivity].
      repeat split; auto.
    - (* SetCurrent *) simpl. repeat split; auto.
  Qed.

  Lemma run_steps_equiv b steps : forall ps1 ps2,
    ps_equiv ps1 ps2 -> res_rel ps_equiv (run_steps steps b ps1) (run_steps steps b ps2).
  Proof.
    induction steps as [|st r IH]; intros ps1 ps2 H; [exact H|].
    cbn [Recovery.run_steps]. pose proof (run_step_equiv b st ps1 ps2 H) as Hs.
    destruct (run_step b ps1 st), (run_step b ps2 st); simpl in Hs; try contradiction.
    - apply IH; exact Hs.
    - exact Hs.
  Qed.

  Lemma add_block_equiv l1 l2 b : equiv l1 l2 ->
    snd (add_block l1 b) = snd (add_block l2 b) /\ equiv (fst (add_block l1 b)) (fst (add_block l2 b)).
  Proof.
    intro E. unfold Recovery.add_block. rewrite (precheck_equiv l1 l2 b E).
    destruct (precheck l2 b) as [o|r]; [split; [reflexivity|exact E]|].
    assert (Hps : ps_equiv (start_ps l1 (Some r)) (start_ps l2 (Some r))).
    { destruct E as (Hm & Hd). unfold start_ps; repeat split; simpl; auto; apply Hd. }
    pose proof (run_steps_equiv b submit_steps _ _ Hps) as H.
    destruct (run_steps submit_steps b (start_ps l1 (Some r))) as [p1|e1],
             (run_steps submit_steps b (start_ps l2 (Some r))) as [p2|e2]; simpl in H; try contradiction.
    - split; [reflexivity|]. destruct H as (Hm & _ & _ & Hd). split; simpl; assumption.
    - subst. split; [reflexivity|exact E].
  Qed.

  (** Equivalent ledgers accept and reject every further sequence of blocks identically and stay
      equivalent. *)
  Lemma run_equiv bs : forall l1 l2, equiv l1 l2 ->
    run_outcomes l1 bs = run_outcomes l2 bs /\ equiv (run l1 bs) (run l2 bs).
  Proof.
    induction bs as [|b r IH]; intros l1 l2 E; [split; [reflexivity|exact E]|].
    destruct (add_block_equiv l1 l2 b E) as [Ho El]. cbn [Recovery.run Recovery.run_outcomes].
    destruct (IH _ _ El) as [Ho' El']. split; [rewrite Ho, Ho'; reflexivity|exact El'].
  Qed.
End Proofs.
