(** C35 — lemmas on the association lists of Model/TxPool.v and a small sublist relation. *)
From Coq Require Import List Bool NArith Lia Permutation.
Import ListNotations.
From Ont Require Import Model.TxPool.
Local Open Scope N_scope.

Section AL.
  Context {V : Type}.
  Implicit Types l : list (N * V).

  Lemma aget_In k v l : aget k l = Some v -> In (k, v) l.
  Proof.
    induction l as [|[k' v'] r IH]; simpl; [discriminate|].
    destruct (N.eqb_spec k k'); intro H.
    - inversion H; subst; auto.
    - right; auto.
  Qed.

  Lemma In_aput x k v l : In x (aput k v l) -> x = (k, v) \/ In x l.
  Proof.
    induction l as [|[k' v'] r IH]; simpl.
    - intros [H|[]]; auto.
    - destruct (k <? k'); [simpl; intros [H|H]; auto|].
      destruct (k =? k'); simpl; intros [H|H]; auto.
      destruct (IH H); auto.
  Qed.

  Lemma In_adel x k l : In x (adel k l) -> In x l /\ fst x <> k.
  Proof.
    unfold adel. rewrite filter_In. intros [H1 H2]. split; auto.
    apply negb_true_iff in H2. apply N.eqb_neq in H2. auto.
  Qed.

  Lemma aget_aput k k' v l : aget k (aput k' v l) = if k =? k' then Some v else aget k l.
  Proof.
    induction l as [|[k2 v2] r IH]; simpl.
    - destruct (k =? k'); reflexivity.
    - destruct (N.ltb_spec k' k2).
      + simpl. destruct (k =? k'); reflexivity.
      + destruct (N.eqb_spec k' k2).
        * subst. simpl. destruct (k =? k2); reflexivity.
        * simpl. rewrite IH. destruct (N.eqb_spec k k2); destruct (N.eqb_spec k k'); try reflexivity.
          subst. congruence.
  Qed.

  Lemma aget_adel k k' l : aget k (adel k' l) = if k =? k' then None else aget k l.
  Proof.
    unfold adel. induction l as [|[k2 v2] r IH]; simpl.
    - destruct (k =? k'); reflexivity.
    - destruct (N.eqb_spec k2 k'); simpl.
      + subst. rewrite IH. destruct (N.eqb_spec k k'); reflexivity.
      + rewrite IH. destruct (N.eqb_spec k k2); destruct (N.eqb_spec k k'); try reflexivity. subst; congruence.
  Qed.

  (** strictly sorted keys *)
  Definition lb (k : N) l : Prop := match l with [] => True | (k', _) :: _ => k < k' end.
  Fixpoint sk l : Prop := match l with [] => True | (k, _) :: r => lb k r /\ sk r end.

  Lemma sk_lb_all k l : lb k l -> sk l -> forall x, In x l -> k < fst x.
  Proof.
    revert k. induction l as [|[k' v'] r IH]; simpl; intros k Hlb Hsk x [].
    - subst; simpl; auto.
    - destruct Hsk as [Hlb' Hsk]. specialize (IH k' Hlb' Hsk x H). lia.
  Qed.

  Lemma sk_aput k v l : sk l -> sk (aput k v l).
  Proof.
    induction l as [|[k' v'] r IH]; simpl; auto.
    intros [Hlb Hsk]. destruct (N.ltb_spec k k').
    - simpl. auto.
    - destruct (N.eqb_spec k k').
      + subst. simpl. auto.
      + simpl. split; auto.
        destruct r as [|[k2 v2] r2]; simpl in *; [lia|].
        destruct (N.ltb_spec k k2); simpl; [lia|]. destruct (N.eqb_spec k k2); simpl; lia.
  Qed.

  Lemma lb_filter f k l : lb k l -> sk l -> lb k (filter f l).
  Proof.
    intros Hlb Hsk. destruct (filter f l) as [|[k' v'] r] eqn:E; simpl; auto.
    assert (In (k', v') (filter f l)) by (rewrite E; left; auto).
    apply filter_In in H. destruct H as [H _]. apply (sk_lb_all k l Hlb Hsk _ H).
  Qed.

  Lemma sk_filter f l : sk l -> sk (filter f l).
  Proof.
    induction l as [|[k v] r IH]; simpl; auto.
    intros [Hlb Hsk]. destruct (f (k, v)); simpl; auto. split; auto. apply lb_filter; auto.
  Qed.

  Lemma sk_adel k l : sk l -> sk (adel k l).
  Proof. apply sk_filter. Qed.

  Lemma sk_In_aget k v l : sk l -> In (k, v) l -> aget k l = Some v.
  Proof.
    induction l as [|[k' v'] r IH]; simpl; [tauto|].
    intros [Hlb Hsk] [H|H].
    - inversion H; subst. rewrite N.eqb_refl. reflexivity.
    - destruct (N.eqb_spec k k'); auto. subst.
      pose proof (sk_lb_all k' r Hlb Hsk _ H). simpl in *. lia.
  Qed.

  Lemma sk_NoDup_keys l : sk l -> NoDup (map fst l).
  Proof.
    induction l as [|[k v] r IH]; simpl; [constructor|].
    intros [Hlb Hsk]. constructor; auto.
    intro H. apply in_map_iff in H. destruct H as [x [Hx Hin]].
    pose proof (sk_lb_all k r Hlb Hsk _ Hin). lia.
  Qed.

  Lemma In_snd_aget l : sk l -> forall v, In v (map snd l) -> exists k, aget k l = Some v.
  Proof.
    intros Hsk v H. apply in_map_iff in H. destruct H as [[k v'] [E Hin]]. simpl in E. subst.
    exists k. apply sk_In_aget; auto.
  Qed.
End AL.

(** Sublists (order preserving) *)
Inductive sub {A} : list A -> list A -> Prop :=
| sub_nil : sub [] []
| sub_skip x l1 l2 : sub l1 l2 -> sub l1 (x :: l2)
| sub_keep x l1 l2 : sub l1 l2 -> sub (x :: l1) (x :: l2).

Lemma sub_refl {A} (l : list A) : sub l l.
Proof. induction l; [constructor|apply sub_keep; auto]. Qed.

Lemma sub_nil_l {A} (l : list A) : sub [] l.
Proof. induction l; [constructor|apply sub_skip; auto]. Qed.

Lemma sub_In {A} (l1 l2 : list A) : sub l1 l2 -> forall x, In x l1 -> In x l2.
Proof. induction 1; simpl; intros; auto. destruct H0; auto. Qed.

Lemma sub_app {A} (a b c d : list A) : sub a b -> sub c d -> sub (a ++ c) (b ++ d).
Proof. induction 1; simpl; intros; auto; [apply sub_skip|apply sub_keep]; auto. Qed.

Lemma sub_map {A B} (f : A -> B) l1 l2 : sub l1 l2 -> sub (map f l1) (map f l2).
Proof. induction 1; simpl; [constructor|apply sub_skip|apply sub_keep]; auto. Qed.

Lemma sub_filter {A} (f : A -> bool) l1 l2 : sub l1 l2 -> sub (filter f l1) (filter f l2).
Proof.
  induction 1; simpl; [constructor| |].
  - destruct (f x); [apply sub_skip|]; auto.
  - destruct (f x); [apply sub_keep|]; auto.
Qed.

Lemma sub_NoDup {A} (l1 l2 : list A) : sub l1 l2 -> NoDup l2 -> NoDup l1.
Proof.
  induction 1; intros Hn; auto; inversion Hn; subst; auto.
  constructor; auto. intro Hin. apply H2. eapply sub_In; eauto.
Qed.

Lemma sub_trans {A} (l1 l2 l3 : list A) : sub l1 l2 -> sub l2 l3 -> sub l1 l3.
Proof.
  intros H12 H23. revert l1 H12. induction H23; intros l0 H12.
  - inversion H12; constructor.
  - apply sub_skip; auto.
  - inversion H12; subst; [apply sub_skip|apply sub_keep]; auto.
Qed.

Lemma filter_sub {A} (f : A -> bool) l : sub (filter f l) l.
Proof. induction l; simpl; [constructor|]. destruct (f a); [apply sub_keep|apply sub_skip]; auto. Qed.

Lemma NoDup_map_inj {A B} (f : A -> B) (l : list A) :
  (forall a b, In a l -> In b l -> f a = f b -> a = b) -> NoDup l -> NoDup (map f l).
Proof.
  induction l as [|x r IH]; simpl; intros Hinj Hn; [constructor|].
  inversion Hn; subst. constructor.
  - intro H. apply in_map_iff in H. destruct H as [y [E Hy]].
    assert (y = x) by (apply Hinj; auto). subst. contradiction.
  - apply IH; auto.
Qed.
