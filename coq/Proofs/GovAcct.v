(** C11, accounting invariants: per-address accounting of the total stakes and
    pool_pos_consistent, preserved by every operation.

    The per-address statement is proved in a form parameterised by an arbitrary selector of
    addresses [sel]: (stakes of the selected addresses) = (all position buckets of the selected
    addresses) + (initPos of the pool peers owned by selected addresses).  [sel := fun _ => true]
    gives the global identity from which every no-wrap bound follows; [sel := N.eqb a] gives the
    statement for one address. *)
From Coq Require Import List NArith Bool Lia.
Import ListNotations.
From Ont Require Import Lib.AList Gen.GovConsts Model.Gov Model.GovSpec Proofs.GovInv.
Local Open Scope N_scope.

Definition bsel (b : bool) (x : N) : N := if b then x else 0.

Definition Lst (sel : N -> bool) (st : list (N * N)) : N := asum (fun a v => bsel (sel a) v) st.
Definition Winf (sel : N -> bool) (infos : list ((N * N) * infov)) : N :=
  asum (fun (k : N * N) i => bsel (sel (snd k)) (all6 i)) infos.
Definition Opool (sel : N -> bool) (pool : list (N * peerv)) : N :=
  asum (fun _ p => bsel (sel (p_owner p)) (p_init p)) pool.
Definition Act (k : N) (infos : list ((N * N) * infov)) : N :=
  asum (fun (key : N * N) i => bsel (fst key =? k) (act3 i)) infos.

Definition acct_sel (s : state) : Prop :=
  forall sel, Lst sel (s_stakes s) = Winf sel (s_infos s) + Opool sel (s_pool s).
Definition ppc (s : state) : Prop := forall k, Act k (s_infos s) = total_of k s.
Definition reg_zero (s : state) : Prop :=
  forall k p, pget k (s_pool s) = Some p -> p_status p = RegisterCandidateStatus -> p_total p = 0.

Record inv2 (s : state) : Prop := mkInv2 {
  i2_inv1 : inv1 s;
  i2_acct : acct_sel s;
  i2_ppc : ppc s;
  i2_reg : reg_zero s;
  i2_nodup : NoDup (keys (s_pool s));
  i2_par : params_ok (s_par s)
}.

Lemma ppc_spec : forall s, ppc s <-> pool_pos_consistent s.
Proof.
  intros s. unfold ppc, pool_pos_consistent, active_of, Act, bsel. split; intros H k; apply H.
Qed.

Definition B : N := ONT_TOTAL_SUPPLY.
Lemma B_small : 4 * B + 1024 * W32 + W32 < W64.
Proof. vm_compute. reflexivity. Qed.
Lemma B100 : 100 * B + 100 < W64.
Proof. vm_compute. reflexivity. Qed.

(** ** primitive updates: infos *)
Lemma iget_oval_g : forall (f : N * N -> infov -> N) p a infos,
  f (p, a) zero_info = 0 ->
  oval f (p, a) (aget pair_eqb (p, a) infos) = f (p, a) (iget p a infos).
Proof.
  intros f p a infos Hz. unfold iget. destruct (aget pair_eqb (p, a) infos); cbn [oval]; auto.
Qed.

Lemma W_iset : forall sel p a i' infos,
  Winf sel (iset p a i' infos) + bsel (sel a) (all6 (iget p a infos)) =
  Winf sel infos + bsel (sel a) (all6 i').
Proof.
  intros. unfold Winf, iset.
  pose proof (asum_aset pair_eqb pair_eqb_spec (fun (k : N * N) i => bsel (sel (snd k)) (all6 i)) (p, a) i' infos) as E.
  rewrite iget_oval_g in E; [exact E|]. cbn. unfold bsel. destruct (sel a); reflexivity.
Qed.

Lemma A_iset : forall k p a i' infos,
  Act k (iset p a i' infos) + bsel (p =? k) (act3 (iget p a infos)) =
  Act k infos + bsel (p =? k) (act3 i').
Proof.
  intros. unfold Act, iset.
  pose proof (asum_aset pair_eqb pair_eqb_spec (fun (key : N * N) i => bsel (fst key =? k) (act3 i)) (p, a) i' infos) as E.
  rewrite iget_oval_g in E; [exact E|]. cbn. unfold bsel. destruct (p =? k); reflexivity.
Qed.

Lemma iget_iset_same : forall p a i infos, iget p a (iset p a i infos) = i.
Proof. intros. unfold iget, iset. now rewrite (aget_aset_same pair_eqb pair_eqb_spec). Qed.

Lemma iget_iset_other : forall p a p' a' i infos, (p', a') <> (p, a) -> iget p' a' (iset p a i infos) = iget p' a' infos.
Proof. intros. unfold iget, iset. now rewrite (aget_aset_other pair_eqb pair_eqb_spec). Qed.

(** a stored info is bounded by the sums *)
Lemma all6_le_W : forall p a infos, all6 (iget p a infos) <= Winf (fun _ => true) infos.
Proof.
  intros. pose proof (oval_le_asum pair_eqb pair_eqb_spec (fun (k : N * N) i => bsel true (all6 i)) (p, a) infos) as H.
  rewrite iget_oval_g in H by reflexivity. exact H.
Qed.

Lemma act3_le_Act : forall p a infos, act3 (iget p a infos) <= Act p infos.
Proof.
  intros. pose proof (oval_le_asum pair_eqb pair_eqb_spec (fun (key : N * N) i => bsel (fst key =? p) (act3 i)) (p, a) infos) as H.
  rewrite iget_oval_g in H by (cbn; rewrite N.eqb_refl; reflexivity).
  cbn [fst] in H. rewrite N.eqb_refl in H. exact H.
Qed.

Lemma Act_le_W : forall k infos, Act k infos <= Winf (fun _ => true) infos.
Proof.
  intros. unfold Act, Winf. induction infos as [|[key i] r IH]; cbn [asum]; [lia|].
  assert (bsel (fst key =? k) (act3 i) <= bsel true (all6 i))
    by (unfold bsel, act3, all6; destruct (fst key =? k); lia).
  cbn beta in *. lia.
Qed.

(** ** primitive updates: pool *)
Definition oinit (sel : N -> bool) (o : option peerv) : N :=
  match o with Some p => bsel (sel (p_owner p)) (p_init p) | None => 0 end.

Lemma O_pset : forall sel k p' pool,
  Opool sel (pset k p' pool) + oinit sel (pget k pool) = Opool sel pool + bsel (sel (p_owner p')) (p_init p').
Proof.
  intros. unfold Opool, pset, pget.
  pose proof (asum_aset N.eqb Neqb_spec (fun (_ : N) p => bsel (sel (p_owner p)) (p_init p)) k p' pool) as E.
  unfold oinit. destruct (aget N.eqb k pool); exact E.
Qed.

Lemma O_adel : forall sel k pool,
  Opool sel (adel N.eqb k pool) + oinit sel (pget k pool) = Opool sel pool.
Proof.
  intros. unfold Opool, pget.
  pose proof (asum_adel N.eqb Neqb_spec (fun (_ : N) p => bsel (sel (p_owner p)) (p_init p)) k pool) as E.
  unfold oinit. destruct (aget N.eqb k pool); exact E.
Qed.

Lemma init_le_O : forall k p pool, pget k pool = Some p -> p_init p <= Opool (fun _ => true) pool.
Proof.
  intros k p pool H. pose proof (oval_le_asum N.eqb Neqb_spec (fun (_ : N) p => bsel true (p_init p)) k pool) as E.
  unfold pget in H. rewrite H in E. exact E.
Qed.

Lemma pget_pset_same : forall k p pool, pget k (pset k p pool) = Some p.
Proof. intros. apply (aget_aset_same N.eqb Neqb_spec). Qed.
Lemma pget_pset_other : forall k k' p pool, k' <> k -> pget k' (pset k p pool) = pget k' pool.
Proof. intros. now apply (aget_aset_other N.eqb Neqb_spec). Qed.
Lemma pget_adel_other : forall k k' pool, k' <> k -> pget k' (adel N.eqb k pool) = pget k' pool.
Proof. intros. now apply (aget_adel_other N.eqb Neqb_spec). Qed.
Lemma pget_adel_same : forall k (pool : list (N * peerv)), NoDup (keys pool) -> pget k (adel N.eqb k pool) = None.
Proof. intros. now apply (aget_adel_same N.eqb Neqb_spec). Qed.

(** ** primitive updates: stakes *)
Lemma Lst_aset : forall sel a v st,
  Lst sel (aset N.eqb a v st) + bsel (sel a) (nget a st) = Lst sel st + bsel (sel a) v.
Proof.
  intros. unfold Lst.
  pose proof (asum_aset N.eqb Neqb_spec (fun a v => bsel (sel a) v) a v st) as E.
  unfold nget. destruct (aget N.eqb a st); cbn [oval] in *; [exact E|].
  unfold bsel in *. destruct (sel a); lia.
Qed.

Lemma L_deposit : forall sel st a amt, nget a st + amt < W64 ->
  Lst sel (deposit_stake st a amt) = Lst sel st + bsel (sel a) amt.
Proof.
  intros sel st a amt H. unfold deposit_stake. rewrite w64_small by auto.
  pose proof (Lst_aset sel a (nget a st + amt) st). unfold bsel in *. destruct (sel a); lia.
Qed.

Lemma L_withdraw : forall sel st a amt st', withdraw_stake st a amt = Ok st' ->
  Lst sel st' + bsel (sel a) amt = Lst sel st.
Proof.
  intros sel st a amt st' H. unfold withdraw_stake in H.
  destruct (nget a st <? amt) eqn:E; [discriminate|]. apply N.ltb_ge in E. inversion H; subst.
  pose proof (Lst_aset sel a (nget a st - amt) st). unfold bsel in *. destruct (sel a); lia.
Qed.

Lemma Lst_true : forall st, Lst (fun _ => true) st = asum (fun _ x => x) st.
Proof. intros. unfold Lst. apply asum_ext. reflexivity. Qed.

(** ** bounds that follow from the invariants *)
Lemma inv2_bounds : forall s, inv1 s -> acct_sel s ->
  Winf (fun _ => true) (s_infos s) + Opool (fun _ => true) (s_pool s) <= B.
Proof.
  intros s [Hb Hs] Ha. specialize (Ha (fun _ => true)). rewrite Lst_true in Ha.
  unfold inv_balance, supply_ok, gov_balance, sum_stakes, ont_total, B in *.
  pose proof (nget_le_sum GOV (s_ont s)). lia.
Qed.

Definition tot (k : N) (pool : list (N * peerv)) : N :=
  match pget k pool with Some p => p_total p | None => 0 end.
Lemma total_of_tot : forall k s, total_of k s = tot k (s_pool s).
Proof. reflexivity. Qed.

Lemma tot_pset : forall k k' p pool, tot k' (pset k p pool) = if k' =? k then p_total p else tot k' pool.
Proof.
  intros. unfold tot. destruct (N.eqb_spec k' k) as [->|Hne].
  - now rewrite pget_pset_same.
  - now rewrite pget_pset_other.
Qed.

Lemma tot_adel : forall k k' (pool : list (N * peerv)), NoDup (keys pool) ->
  tot k' (adel N.eqb k pool) = if k' =? k then 0 else tot k' pool.
Proof.
  intros. unfold tot. destruct (N.eqb_spec k' k) as [->|Hne].
  - now rewrite pget_adel_same.
  - now rewrite pget_adel_other.
Qed.

Definition regz (pool : list (N * peerv)) : Prop :=
  forall k p, pget k pool = Some p -> p_status p = RegisterCandidateStatus -> p_total p = 0.

Lemma regz_pset : forall k p pool, regz pool ->
  (p_status p = RegisterCandidateStatus -> p_total p = 0) -> regz (pset k p pool).
Proof.
  intros k p pool Hr Hp k' p0 Hg Hs. destruct (N.eq_dec k' k) as [->|Hne].
  - rewrite pget_pset_same in Hg. inversion Hg; subst. auto.
  - rewrite pget_pset_other in Hg by auto. eauto.
Qed.

Lemma regz_adel : forall k (pool : list (N * peerv)), NoDup (keys pool) -> regz pool -> regz (adel N.eqb k pool).
Proof.
  intros k pool Hn Hr k' p0 Hg Hs. destruct (N.eq_dec k' k) as [->|Hne].
  - rewrite pget_adel_same in Hg by auto. discriminate.
  - rewrite pget_adel_other in Hg by auto. eauto.
Qed.

Lemma nodup_pset : forall k p (pool : list (N * peerv)), NoDup (keys pool) -> NoDup (keys (pset k p pool)).
Proof. intros. now apply (NoDup_aset N.eqb Neqb_spec). Qed.
Lemma nodup_adel : forall k (pool : list (N * peerv)), NoDup (keys pool) -> NoDup (keys (adel N.eqb k pool)).
Proof. intros. now apply (NoDup_adel N.eqb Neqb_spec). Qed.

(** bounds *)
Lemma info_bound : forall s p a, inv1 s -> acct_sel s -> all6 (iget p a (s_infos s)) <= B.
Proof. intros s p a H1 H2. pose proof (inv2_bounds s H1 H2). pose proof (all6_le_W p a (s_infos s)). lia. Qed.

Lemma peer_bound : forall s k p, inv1 s -> acct_sel s -> ppc s -> pget k (s_pool s) = Some p ->
  p_init p <= B /\ p_total p <= B.
Proof.
  intros s k p H1 H2 H3 Hg. pose proof (inv2_bounds s H1 H2). pose proof (init_le_O _ _ _ Hg).
  specialize (H3 k). rewrite total_of_tot in H3. unfold tot in H3. rewrite Hg in H3.
  pose proof (Act_le_W k (s_infos s)). lia.
Qed.

Lemma bsel_le : forall b x, bsel b x <= x.
Proof. intros [] x; cbn; lia. Qed.


Ltac bcases := unfold bsel in *; repeat match goal with
  | |- context [if ?b then _ else _] => destruct b eqn:?
  | H : context [if ?b then _ else _] |- _ => destruct b eqn:?
  end.

(** ** replacing the pool entry of a peer without touching owner, initPos, TotalPos *)
Lemma inv2_pset_same : forall s s' k p p',
  inv2 s -> pget k (s_pool s) = Some p ->
  p_owner p' = p_owner p -> p_init p' = p_init p -> p_total p' = p_total p ->
  (p_status p' = RegisterCandidateStatus -> p_total p' = 0) ->
  fin s' = fin s -> s_infos s' = s_infos s -> s_pool s' = pset k p' (s_pool s) -> s_par s' = s_par s ->
  inv2 s'.
Proof.
  intros s s' k p p' [H1 Ha Hp Hr Hn Hpar] Hg Eo Ei Et Hz Ef Einf Epool Epar.
  pose proof Ef as Ef'. unfold fin in Ef'. inversion Ef' as [[E1 E2 E3]].
  constructor.
  - eapply inv1_fin; eauto.
  - intros sel. specialize (Ha sel). rewrite E2, Einf, Epool.
    pose proof (O_pset sel k p' (s_pool s)) as Eo'. rewrite Hg in Eo'. cbn [oinit] in Eo'.
    rewrite Eo, Ei in Eo'. lia.
  - intros k'. specialize (Hp k'). rewrite total_of_tot in *. rewrite Einf, Epool, tot_pset.
    destruct (N.eqb_spec k' k) as [->|Hne]; [|exact Hp].
    unfold tot in Hp. rewrite Hg in Hp. lia.
  - unfold reg_zero. rewrite Epool. apply regz_pset; auto.
  - rewrite Epool. now apply nodup_pset.
  - now rewrite Epar.
Qed.

Lemma status_consts :
  RegisterCandidateStatus <> CandidateStatus /\ RegisterCandidateStatus <> ConsensusStatus /\
  RegisterCandidateStatus <> QuitConsensusStatus /\ RegisterCandidateStatus <> QuitingStatus /\
  RegisterCandidateStatus <> BlackStatus.
Proof. vm_compute. repeat split; discriminate. Qed.

Ltac not_register :=
  let H := fresh in intros H; exfalso;
  destruct status_consts as (? & ? & ? & ? & ?);
  repeat match type of H with (if ?b then _ else _) = _ => destruct b end; congruence.

Lemma exec_quit_inv2 : forall s sg k a s', inv2 s -> exec_quit s sg k a = Ok s' -> inv2 s'.
Proof.
  intros s sg k a s' Hi H. unfold exec_quit in H. msteps H.
  match goal with |- inv2 (set_pool (pset _ ?p' _) _) => eapply (inv2_pset_same s _ k p p') end;
    eauto; try reflexivity. cbn [with_status p_status]. not_register.
Qed.

Lemma exec_approve_inv2 : forall h s sg k s', inv2 s -> exec_approve h s sg k = Ok s' -> inv2 s'.
Proof.
  intros h s sg k s' Hi H. unfold exec_approve in H. msteps H. bnorm.
  assert (Ht : p_total p = 0) by (eapply (i2_reg s Hi); eauto).
  match goal with |- inv2 (set_pool (pset _ ?p' _) _) => eapply (inv2_pset_same s _ k p p') end;
    eauto; try reflexivity; try (destruct (NEW_VERSION_BLOCK <=? h); reflexivity).
Qed.

Lemma inv2_frame : forall s s', inv2 s -> fin s' = fin s -> s_infos s' = s_infos s ->
  s_pool s' = s_pool s -> s_par s' = s_par s -> inv2 s'.
Proof.
  intros s s' [H1 Ha Hp Hr Hn Hpar] Ef Einf Epool Epar.
  pose proof Ef as Ef'. unfold fin in Ef'. inversion Ef' as [[E1 E2 E3]].
  constructor.
  - eapply inv1_fin; eauto.
  - intros sel. rewrite E2, Einf, Epool. apply Ha.
  - intros k. rewrite total_of_tot, Einf, Epool. apply Hp.
  - unfold reg_zero. rewrite Epool. exact Hr.
  - now rewrite Epool.
  - now rewrite Epar.
Qed.

Lemma exec_maxauth_inv2 : forall h s sg k a m s', inv2 s -> exec_maxauth h s sg k a m = Ok s' -> inv2 s'.
Proof. intros h s sg k a m s' Hi H. unfold exec_maxauth in H. msteps H. eapply inv2_frame; eauto. Qed.

Lemma exec_white_inv2 : forall s sg k s', inv2 s -> exec_white s sg k = Ok s' -> inv2 s'.
Proof. intros s sg k s' Hi H. unfold exec_white in H. msteps H. eapply inv2_frame; eauto. Qed.

Lemma inv2_frame' : forall s s', inv2 s -> inv1 s' -> s_stakes s' = s_stakes s -> s_infos s' = s_infos s ->
  s_pool s' = s_pool s -> s_par s' = s_par s -> inv2 s'.
Proof.
  intros s s' [H1 Ha Hp Hr Hn Hpar] H1' E2 Einf Epool Epar.
  constructor; auto.
  - intros sel. rewrite E2, Einf, Epool. apply Ha.
  - intros k. rewrite total_of_tot, Einf, Epool. apply Hp.
  - unfold reg_zero. rewrite Epool. exact Hr.
  - now rewrite Epool.
  - now rewrite Epar.
Qed.

Lemma exec_penalty_inv2 : forall s sg k a s', inv2 s -> a <> GOV -> exec_penalty s sg k a = Ok s' -> inv2 s'.
Proof.
  intros s sg k a s' Hi Ha H.
  assert (I1 : inv1 s') by (eapply exec_penalty_inv1; eauto; apply Hi).
  unfold exec_penalty in H. msteps H. eapply inv2_frame'; eauto.
Qed.

Lemma black_loop_inv2 : forall l s c s' c', inv2 s -> black_loop s l c = Ok (s', c') -> inv2 s'.
Proof.
  induction l as [|k r IH]; cbn [black_loop]; intros s c s' c' Hi H.
  - inversion H; subst; auto.
  - mstep H. eapply IH; [|exact H].
    match goal with |- inv2 (set_black _ (set_pool (pset _ ?p' _) _)) => eapply (inv2_pset_same s _ k p p') end;
      eauto; try reflexivity. cbn [with_status p_status]. not_register.
Qed.

Lemma ont_transfer_le : forall ont from to v ont', ont_transfer ont from to v = Ok ont' ->
  v <= asum (fun _ x => x) ont.
Proof.
  intros ont from to v ont' H. unfold ont_transfer in H.
  destruct (v =? 0) eqn:Ev; [apply N.eqb_eq in Ev; lia|].
  destruct (ONT_TOTAL_SUPPLY <? v); [discriminate|].
  destruct (nget from ont <? v) eqn:Eb; [discriminate|]. apply N.ltb_ge in Eb.
  pose proof (nget_le_sum from ont). lia.
Qed.

Lemma stake_le_B : forall s a, inv1 s -> nget a (s_stakes s) <= B.
Proof.
  intros s a [Hb Hs]. pose proof (nget_le_sum a (s_stakes s)). pose proof (nget_le_sum GOV (s_ont s)).
  unfold inv_balance, supply_ok, gov_balance, sum_stakes, ont_total, B in *. lia.
Qed.

Lemma exec_register_inv2 : forall h s sg k a ip pk tk s',
  inv2 s -> sg <> GOV -> exec_register h s sg k a ip pk tk = Ok s' -> inv2 s'.
Proof.
  intros h s sg k a ip pk tk s' Hi Hsg H.
  assert (I1 : inv1 s') by (eapply exec_register_inv1; eauto; apply Hi).
  destruct Hi as [H1 Ha Hp Hr Hn Hpar].
  unfold exec_register in H. msteps H.
  match goal with H : match pget k (s_pool s) with _ => _ end = false |- _ =>
    destruct (pget k (s_pool s)) eqn:Hg; [discriminate|] end.
  match goal with H : ont_transfer _ _ _ _ = Ok _ |- _ => pose proof (ont_transfer_le _ _ _ _ _ H) as Hle end.
  assert (Hip : ip <= B).
  { destruct H1 as [_ Hs]. unfold supply_ok, ont_total, B in *.
    destruct (g_selfgov (s_par s) <=? h); cbn [s_ont set_pool set_promise] in Hle; lia. }
  pose proof (stake_le_B s a H1). pose proof B_small.
  set (pnew := mkPV a (if g_selfgov (s_par s) <=? h then CandidateStatus else RegisterCandidateStatus) ip 0) in *.
  match goal with |- inv2 ?S => set (s' := S) in * end.
  assert (Epool : s_pool s' = pset k pnew (s_pool s)).
  { subst s'. destruct (g_selfgov (s_par s) <=? h); reflexivity. }
  assert (Einf : s_infos s' = s_infos s) by (subst s'; destruct (g_selfgov (s_par s) <=? h); reflexivity).
  assert (Est : s_stakes s' = deposit_stake (s_stakes s) a ip) by (subst s'; destruct (g_selfgov (s_par s) <=? h); reflexivity).
  assert (Epar : s_par s' = s_par s) by (subst s'; destruct (g_selfgov (s_par s) <=? h); reflexivity).
  constructor; auto.
  - intros sel. specialize (Ha sel). rewrite Est, Einf, Epool. rewrite L_deposit by lia.
    pose proof (O_pset sel k pnew (s_pool s)) as Eo. rewrite Hg in Eo. cbn [oinit] in Eo.
    subst pnew. cbn [p_owner p_init] in Eo. lia.
  - intros k'. specialize (Hp k'). rewrite total_of_tot in *. rewrite Einf, Epool, tot_pset.
    destruct (N.eqb_spec k' k) as [->|Hne]; [|exact Hp].
    unfold tot in Hp. rewrite Hg in Hp. subst pnew. cbn. lia.
  - unfold reg_zero. rewrite Epool. apply regz_pset; auto.
  - rewrite Epool. now apply nodup_pset.
  - now rewrite Epar.
Qed.
