(** Proofs about Model/BlockStore.v: every history of AddBlock / AddHeader / restart keeps the
    block store, the header index cache and the block caches consistent with the committed chain,
    and all chain queries then return the committed block. *)
From Coq Require Import List NArith ZArith Bool Lia ZifyN ZifyNat ZifyBool.
Import ListNotations.
From Ont Require Import Gen.LedgerIndexConsts Gen.LedgerIndexFormulas Model.BlockStore.
Local Open Scope N_scope.
Ltac Zify.zify_post_hook ::= Z.to_euclidean_division_equations.

(** * Finite maps *)
Section MapLemmas.
  Context {V : Type}.
  Implicit Types (m : amap V) (k : N).

  Lemma lookup_put_eq k (v : V) m : lookup k (put k v m) = Some v.
  Proof. unfold put; cbn [lookup]. now rewrite N.eqb_refl. Qed.

  Lemma lookup_put_neq k k' (v : V) m : k <> k' -> lookup k (put k' v m) = lookup k m.
  Proof. intros H. unfold put; cbn [lookup]. destruct (N.eqb_spec k k'); [contradiction|reflexivity]. Qed.

  Lemma lookup_del_eq k m : lookup k (del k m) = None.
  Proof.
    induction m as [|[k' v] r IH]; [reflexivity|]. unfold del in *. cbn [filter fst].
    destruct (N.eqb_spec k k') as [->|Hne]; cbn [negb].
    - exact IH.
    - cbn [lookup]. destruct (N.eqb_spec k k'); [contradiction|exact IH].
  Qed.

  Lemma lookup_del_neq k k' m : k <> k' -> lookup k (del k' m) = lookup k m.
  Proof.
    intros H. induction m as [|[k2 v] r IH]; [reflexivity|]. unfold del in *. cbn [filter fst].
    destruct (N.eqb_spec k' k2) as [->|Hne]; cbn [negb lookup].
    - destruct (N.eqb_spec k k2); [contradiction|exact IH].
    - destruct (N.eqb_spec k k2); [reflexivity|exact IH].
  Qed.

  Lemma lookup_del_cases k k' m : lookup k (del k' m) = None \/ lookup k (del k' m) = lookup k m.
  Proof.
    destruct (N.eq_dec k k') as [->|H]; [left; apply lookup_del_eq|right; now apply lookup_del_neq].
  Qed.

  Lemma lookup_del_none k k' m : lookup k m = None -> lookup k (del k' m) = None.
  Proof. intros H. destruct (lookup_del_cases k k' m) as [E|E]; [exact E|now rewrite E]. Qed.
End MapLemmas.

(** * uint32 wrap *)
Lemma u32z_id (x : N) : x < 4294967296 -> u32z (Z.of_N x) = x.
Proof. unfold u32z. lia. Qed.

Lemma u32z_succ (x : N) : x + 1 < 4294967296 -> u32z (Z.of_N x + 1) = x + 1.
Proof. unfold u32z. lia. Qed.

Lemma u32z_lt (z : Z) : u32z z < 4294967296.
Proof. unfold u32z. lia. Qed.

(** * List facts *)
Lemma NoDup_app_inv {A} (l1 l2 : list A) :
  NoDup (l1 ++ l2) -> NoDup l1 /\ NoDup l2 /\ (forall x, In x l1 -> ~ In x l2).
Proof.
  induction l1 as [|a l1 IH]; cbn [app]; intros H.
  - repeat split; [constructor|exact H|intros x []].
  - inversion H as [|? ? Hn Hd]; subst. destruct (IH Hd) as (H1 & H2 & H3).
    repeat split; [constructor; [|exact H1]|exact H2|].
    + intros Hin. apply Hn. apply in_or_app. now left.
    + intros x [->|Hx] Hx2; [apply Hn; apply in_or_app; now right|exact (H3 x Hx Hx2)].
  Qed.

Lemma NoDup_map_inj_in {A B} (f : A -> B) (l : list A) x y :
  NoDup (map f l) -> In x l -> In y l -> f x = f y -> x = y.
Proof.
  induction l as [|a l IH]; cbn [map]; intros Hn Hx Hy E; [destruct Hx|].
  inversion Hn as [|? ? Hna Hnl]; subst.
  destruct Hx as [->|Hx], Hy as [->|Hy]; [reflexivity| | |now apply IH].
  - exfalso. apply Hna. rewrite E. now apply in_map.
  - exfalso. apply Hna. rewrite <- E. now apply in_map.
Qed.

Lemma nth_error_snoc {A} (l : list A) (b x : A) i :
  nth_error (l ++ [b]) i = Some x ->
  (i < length l /\ nth_error l i = Some x)%nat \/ (i = length l /\ x = b).
Proof.
  intros H. destruct (Nat.lt_ge_cases i (length l)) as [Hl|Hl].
  - left. split; [exact Hl|]. now rewrite nth_error_app1 in H.
  - right. rewrite nth_error_app2 in H by exact Hl.
    destruct (i - length l)%nat as [|j] eqn:E; cbn in H.
    + split; [lia|]. now inversion H.
    + destruct j; discriminate H.
Qed.

(** * Chain well-formedness *)
Definition chain_heights (chain : list block) : Prop :=
  forall i b, nth_error chain i = Some b -> bheight b = N.of_nat i.

Record chain_distinct (chain : list block) : Prop := {
  cd_hashes : NoDup (map bhash chain);                    (* block hashes pairwise different *)
  cd_nonzero : forall b, In b chain -> bhash b <> EMPTY;  (* no block hashes to the zero hash *)
  cd_txs : NoDup (flat_map btxhashes chain);              (* transaction hashes different across the chain *)
  cd_len : N.of_nat (length chain) < 4294967296           (* heights stay below 2^32 - 1 *)
}.

Definition chain_wf (chain : list block) : Prop := chain_distinct chain /\ chain_heights chain.

Lemma chain_distinct_prefix l1 l2 : chain_distinct (l1 ++ l2) -> chain_distinct l1.
Proof.
  intros [H1 H2 H3 H4]. split.
  - rewrite map_app in H1. now apply NoDup_app_inv in H1.
  - intros b Hb. apply H2. apply in_or_app. now left.
  - rewrite flat_map_app in H3. now apply NoDup_app_inv in H3.
  - rewrite app_length in H4. lia.
Qed.

Lemma chain_heights_prefix l1 l2 : chain_heights (l1 ++ l2) -> chain_heights l1.
Proof.
  intros H i b Hi. apply H. rewrite nth_error_app1; [exact Hi|].
  apply nth_error_Some. now rewrite Hi.
Qed.

Lemma chain_wf_prefix l1 l2 : chain_wf (l1 ++ l2) -> chain_wf l1.
Proof. intros [H1 H2]. split; [eapply chain_distinct_prefix|eapply chain_heights_prefix]; eassumption. Qed.

Lemma distinct_hash_inj chain b b' :
  chain_distinct chain -> In b chain -> In b' chain -> bhash b = bhash b' -> b = b'.
Proof. intros [H _ _ _]. now apply NoDup_map_inj_in. Qed.

Lemma snoc_hash_fresh chain b b' :
  chain_distinct (chain ++ [b]) -> In b' chain -> bhash b' <> bhash b.
Proof.
  intros [H _ _ _] Hin E. rewrite map_app in H. apply NoDup_app_inv in H as (_ & _ & H).
  apply (H (bhash b')); [now apply in_map|]. cbn. now left.
Qed.

Lemma snoc_tx_fresh chain b b' t :
  chain_distinct (chain ++ [b]) -> In b' chain -> In t (b_txs b') -> ~ In (t_hash t) (btxhashes b).
Proof.
  intros [_ _ H _] Hin Ht Hc. rewrite flat_map_app in H. apply NoDup_app_inv in H as (_ & _ & H).
  apply (H (t_hash t)).
  - apply in_flat_map. exists b'. split; [exact Hin|]. unfold btxhashes. now apply in_map.
  - cbn. rewrite app_nil_r. exact Hc.
Qed.

Lemma snoc_tx_nodup chain b : chain_distinct (chain ++ [b]) -> NoDup (btxhashes b).
Proof.
  intros [_ _ H _]. rewrite flat_map_app in H. apply NoDup_app_inv in H as (_ & H & _).
  cbn in H. now rewrite app_nil_r in H.
Qed.

(** a transaction hash identifies the block position and the transaction *)
Lemma tx_unique chain : NoDup (flat_map btxhashes chain) ->
  forall i i' b b' t t',
    nth_error chain i = Some b -> In t (b_txs b) ->
    nth_error chain i' = Some b' -> In t' (b_txs b') ->
    t_hash t = t_hash t' -> i = i' /\ t = t'.
Proof.
  induction chain as [|c r IH]; intros Hn i i' b b' t t' Hi Ht Hi' Ht' E.
  - destruct i; discriminate Hi.
  - cbn [flat_map] in Hn. apply NoDup_app_inv in Hn as (Hc & Hr & Hdis).
    assert (Hin : forall j x u, nth_error r j = Some x -> In u (b_txs x) -> In (t_hash u) (flat_map btxhashes r)).
    { intros j x u Hj Hu. apply in_flat_map. exists x. split; [eapply nth_error_In; eassumption|].
      unfold btxhashes. now apply in_map. }
    destruct i as [|i], i' as [|i']; cbn [nth_error] in Hi, Hi'.
    + inversion Hi; inversion Hi'; subst. split; [reflexivity|].
      unfold btxhashes in Hc. eapply NoDup_map_inj_in; eassumption.
    + inversion Hi; subst. exfalso. apply (Hdis (t_hash t)).
      * unfold btxhashes. now apply in_map.
      * rewrite E. eapply Hin; eassumption.
    + inversion Hi'; subst. exfalso. apply (Hdis (t_hash t')).
      * unfold btxhashes. now apply in_map.
      * rewrite <- E. eapply Hin; eassumption.
    + destruct (IH Hr i i' b b' t t' Hi Ht Hi' Ht' E) as [-> ->]. now split.
Qed.

(** * The header index cache *)
Lemma evict_loop_lookup n : forall m h f i,
  lookup i (fst (evict_loop n m h f)) = None \/ lookup i (fst (evict_loop n m h f)) = lookup i m.
Proof.
  induction n as [|n IH]; intros m h f i; cbn [evict_loop].
  - now right.
  - destruct (IH (del h m) (u32z (Z.of_N h + 1)) (u32z (Z.of_N h + 1)) i) as [E|E]; [now left|].
    rewrite E. apply lookup_del_cases.
Qed.

Lemma evict_loop_first_lt n : forall m h f, f < 4294967296 -> snd (evict_loop n m h f) < 4294967296.
Proof.
  induction n as [|n IH]; intros m h f Hf; cbn [evict_loop]; [exact Hf|].
  apply IH. apply u32z_lt.
Qed.

(** entries of heights other than the one written are dropped or unchanged; the written height holds
    the written hash unless it was evicted in the same call *)
Lemma set_header_index_lookup c cur hh k i :
  lookup i (hi_map (set_header_index c cur hh k)) = None \/
  (i = hh /\ lookup i (hi_map (set_header_index c cur hh k)) = Some k) \/
  (i <> hh /\ lookup i (hi_map (set_header_index c cur hh k)) = lookup i (hi_map c)).
Proof.
  unfold set_header_index; cbv zeta.
  assert (Hp : lookup i (put hh k (hi_map c)) = Some k /\ i = hh \/
               lookup i (put hh k (hi_map c)) = lookup i (hi_map c) /\ i <> hh).
  { destruct (N.eq_dec i hh) as [->|Hne]; [left; split; [apply lookup_put_eq|reflexivity]|right; split; [now apply lookup_put_neq|exact Hne]]. }
  match goal with |- context [if ?g then _ else _] => destruct g end.
  - match goal with |- context [evict_loop ?n ?m ?h ?f] =>
      pose proof (evict_loop_lookup n m h f i) as Hev; destruct (evict_loop n m h f) as [m' f'] end.
    cbn [fst hi_map] in *. destruct Hev as [E|E]; [now left|]. rewrite E.
    destruct Hp as [[E2 ->]|[E2 Hne]]; [right; left; now split|right; right; now split].
  - cbn [hi_map]. destruct Hp as [[E2 ->]|[E2 Hne]]; [right; left; now split|right; right; now split].
Qed.

Lemma set_header_index_last c cur hh k :
  hi_last c < 4294967296 -> hh < 4294967296 ->
  hi_last (set_header_index c cur hh k) = N.max (hi_last c) hh.
Proof.
  intros Hl Hh. unfold set_header_index; cbv zeta.
  assert (E : (if u32z (hic_last_guard_lhs (Z.of_N (hi_last c)) (Z.of_N hh)) <? u32z (hic_last_guard_rhs (Z.of_N (hi_last c)) (Z.of_N hh))
               then hh else hi_last c) = N.max (hi_last c) hh).
  { unfold hic_last_guard_lhs, hic_last_guard_rhs. rewrite !u32z_id by assumption.
    destruct (N.ltb_spec (hi_last c) hh); lia. }
  destruct (u32z (hic_first_guard_lhs _ _) <? u32z (hic_first_guard_rhs _ _)).
  - destruct (evict_loop _ _ _ _). cbn [hi_last]. exact E.
  - cbn [hi_last]. exact E.
Qed.

Lemma set_header_index_first_lt c cur hh k :
  hi_first c < 4294967296 -> hi_first (set_header_index c cur hh k) < 4294967296.
Proof.
  intros Hf. unfold set_header_index; cbv zeta.
  destruct (u32z (hic_first_guard_lhs _ _) <? u32z (hic_first_guard_rhs _ _)).
  - match goal with |- context [evict_loop ?n ?m ?h ?f] =>
      pose proof (evict_loop_first_lt n m h f Hf) as Hev; destruct (evict_loop n m h f) as [m' f'] end.
    exact Hev.
  - exact Hf.
Qed.

(** the cache agrees with the chain wherever it has an entry for a committed height *)
Definition hic_agrees (chain : list block) (c : hicache) : Prop :=
  forall i b, nth_error chain i = Some b ->
    lookup (N.of_nat i) (hi_map c) = None \/ lookup (N.of_nat i) (hi_map c) = Some (bhash b).

Lemma hic_agrees_set chain c cur hh k :
  hic_agrees chain c ->
  (forall i b, nth_error chain i = Some b -> N.of_nat i = hh -> k = bhash b) ->
  hic_agrees chain (set_header_index c cur hh k).
Proof.
  intros H Hk i b Hi.
  destruct (set_header_index_lookup c cur hh k (N.of_nat i)) as [E|[[E1 E2]|[E1 E2]]].
  - now left.
  - right. rewrite E2. f_equal. eapply Hk; eassumption.
  - rewrite E2. eapply H; eassumption.
Qed.

(** * save_txs *)
Lemma save_txs_other txs : forall ht dtx ctx k,
  ~ In k (map t_hash txs) ->
  lookup k (fst (save_txs txs ht dtx ctx)) = lookup k dtx /\
  lookup k (snd (save_txs txs ht dtx ctx)) = lookup k ctx.
Proof.
  induction txs as [|t r IH]; intros ht dtx ctx k Hk; cbn [save_txs]; [now split|].
  cbn [map] in Hk. destruct (IH ht (put (t_hash t) (ht, t) dtx) (put (t_hash t) (t, ht) ctx) k) as [E1 E2].
  { intros Hin. apply Hk. now right. }
  rewrite E1, E2. assert (k <> t_hash t) by (intros ->; apply Hk; now left).
  split; now apply lookup_put_neq.
Qed.

Lemma save_txs_own txs : forall ht dtx ctx t,
  NoDup (map t_hash txs) -> In t txs ->
  lookup (t_hash t) (fst (save_txs txs ht dtx ctx)) = Some (ht, t) /\
  lookup (t_hash t) (snd (save_txs txs ht dtx ctx)) = Some (t, ht).
Proof.
  induction txs as [|a r IH]; intros ht dtx ctx t Hn Hin; [destruct Hin|].
  cbn [map] in Hn. inversion Hn as [|? ? Hna Hnr]; subst. cbn [save_txs].
  destruct Hin as [->|Hin].
  - destruct (save_txs_other r ht (put (t_hash t) (ht, t) dtx) (put (t_hash t) (t, ht) ctx) (t_hash t) Hna) as [E1 E2].
    rewrite E1, E2. split; apply lookup_put_eq.
  - now apply IH.
Qed.

Lemma save_txs_cache_from txs : forall ht dtx ctx k v,
  lookup k (snd (save_txs txs ht dtx ctx)) = Some v ->
  (exists t, In t txs /\ t_hash t = k /\ v = (t, ht)) \/ lookup k ctx = Some v.
Proof.
  induction txs as [|a r IH]; intros ht dtx ctx k v H; cbn [save_txs] in H; [now right|].
  apply IH in H. destruct H as [(t & Ht & E1 & E2)|H].
  - left. exists t. split; [now right|now split].
  - destruct (N.eq_dec k (t_hash a)) as [->|Hne].
    + rewrite lookup_put_eq in H. inversion H; subst. left. exists a. split; [now left|now split].
    + rewrite lookup_put_neq in H by exact Hne. now right.
Qed.

(** * The invariant *)
Record inv0 (chain : list block) (s : store) : Prop := {
  i_bhash : forall i b, nth_error chain i = Some b -> lookup (N.of_nat i) (d_bhash (s_db s)) = Some (bhash b);
  i_hdr : forall b, In b chain -> lookup (bhash b) (d_hdr (s_db s)) = Some (b_hdr b, btxhashes b);
  i_tx : forall i b t, nth_error chain i = Some b -> In t (b_txs b) ->
           lookup (t_hash t) (d_tx (s_db s)) = Some (N.of_nat i, t);
  i_hic : hic_agrees chain (s_hic s);
  i_last_lt : hi_last (s_hic s) < 4294967296;
  i_bc : forall k b, lookup k (s_bc_blocks s) = Some b -> In b chain /\ bhash b = k;
  i_bt : forall k t h, lookup k (s_bc_txs s) = Some (t, h) ->
           exists i b, h = N.of_nat i /\ nth_error chain i = Some b /\ In t (b_txs b) /\ t_hash t = k
}.

Record inv (g : block) (chain : list block) (s : store) : Prop := {
  v_0 : inv0 chain s;
  v_gen : nth_error chain 0 = Some g;
  v_cur : s_cur_height s + 1 = N.of_nat (length chain);
  v_dcur : d_cur (s_db s) = Some (s_cur_hash s, s_cur_height s);
  v_ver : d_ver (s_db s) = Some SYSTEM_VERSION;
  v_last : s_cur_height s <= hi_last (s_hic s);
  v_hdrcache : forall b, In b chain -> lookup (bhash b) (s_hdrcache s) = None
}.

Lemma nth_error_nil_none {A} i : @nth_error A [] i = None.
Proof. destruct i; reflexivity. Qed.

Lemma inv0_fresh : inv0 [] (fresh_store empty_db).
Proof.
  split; cbn.
  - intros i b H. rewrite nth_error_nil_none in H. discriminate H.
  - intros b [].
  - intros i b t H. rewrite nth_error_nil_none in H. discriminate H.
  - intros i b H. rewrite nth_error_nil_none in H. discriminate H.
  - lia.
  - intros k b H. discriminate H.
  - intros k t h H. discriminate H.
Qed.

Lemma hic_agrees_snoc chain c cur b :
  hic_agrees chain c ->
  hic_agrees (chain ++ [b]) (set_header_index c cur (N.of_nat (length chain)) (bhash b)).
Proof.
  intros H i x Hi.
  destruct (set_header_index_lookup c cur (N.of_nat (length chain)) (bhash b) (N.of_nat i)) as [E|[[E1 E2]|[E1 E2]]].
  - now left.
  - apply nth_error_snoc in Hi as [[Hl Hi]|[-> ->]]; [lia|]. now right.
  - apply nth_error_snoc in Hi as [[Hl Hi]|[-> ->]]; [|congruence].
    rewrite E2. eapply H; eassumption.
Qed.

(** submitBlock appends the block to the chain the store is consistent with *)
Lemma submit_inv0 chain s b :
  inv0 chain s -> chain_wf (chain ++ [b]) ->
  inv0 (chain ++ [b]) (submit_block s b).
Proof.
  intros [Hbh Hhd Htx Hhic Hlast Hbc Hbt] [Hd Hh].
  assert (Hht : bheight b = N.of_nat (length chain)).
  { apply Hh. rewrite nth_error_app2 by lia. now rewrite Nat.sub_diag. }
  assert (Hlen : N.of_nat (length chain) + 1 < 4294967296).
  { pose proof (cd_len _ Hd) as L. rewrite app_length in L. cbn in L. lia. }
  unfold submit_block, save_block_to_block_store.
  pose proof (save_txs_other (b_txs b) (bheight b) (d_tx (s_db s)) (s_bc_txs s)) as Hother.
  pose proof (save_txs_own (b_txs b) (bheight b) (d_tx (s_db s)) (s_bc_txs s)) as Hown.
  pose proof (save_txs_cache_from (b_txs b) (bheight b) (d_tx (s_db s)) (s_bc_txs s)) as Hfrom.
  destruct (save_txs (b_txs b) (bheight b) (d_tx (s_db s)) (s_bc_txs s)) as [dtx ctx].
  cbn [fst snd] in *.
  split; cbn [s_db s_hic s_hdrcache s_bc_blocks s_bc_txs d_bhash d_hdr d_tx].
  - (* height -> hash *)
    intros i x Hi. apply nth_error_snoc in Hi as [[Hl Hi]|[-> ->]].
    + rewrite lookup_put_neq by (rewrite Hht; lia). eapply Hbh; eassumption.
    + rewrite Hht. apply lookup_put_eq.
  - (* hash -> header *)
    intros x Hx. apply in_app_or in Hx as [Hx|[<-|[]]].
    + rewrite lookup_put_neq by (eapply snoc_hash_fresh; eassumption). now apply Hhd.
    + apply lookup_put_eq.
  - (* tx hash -> (height, tx) *)
    intros i x t Hi Ht. apply nth_error_snoc in Hi as [[Hl Hi]|[-> ->]].
    + destruct (Hother (t_hash t)) as [E _].
      { eapply snoc_tx_fresh; [exact Hd|eapply nth_error_In; exact Hi|exact Ht]. }
      rewrite E. eapply Htx; eassumption.
    + destruct (Hown t (snoc_tx_nodup _ _ Hd) Ht) as [E _]. rewrite E, Hht. reflexivity.
  - (* header index cache *)
    rewrite Hht. now apply hic_agrees_snoc.
  - (* last index stays a uint32 *)
    rewrite set_header_index_last by (try exact Hlast; rewrite Hht; lia). rewrite Hht. lia.
  - (* block cache *)
    intros k x H. destruct (N.eq_dec k (bhash b)) as [->|Hne].
    + rewrite lookup_put_eq in H. inversion H; subst. split; [apply in_or_app; right; now left|reflexivity].
    + rewrite lookup_put_neq in H by exact Hne. apply Hbc in H as [H1 H2].
      split; [apply in_or_app; now left|exact H2].
  - (* transaction cache *)
    intros k t h H. apply Hfrom in H as [(t0 & Ht0 & E1 & E2)|H].
    + inversion E2; subst. exists (length chain), b. split; [exact Hht|].
      split; [rewrite nth_error_app2 by lia; now rewrite Nat.sub_diag|]. now split.
    + apply Hbt in H as (i & x & E & Hi & Ht & Ek). exists i, x. repeat split; try assumption.
      rewrite nth_error_app1; [exact Hi|]. apply nth_error_Some. now rewrite Hi.
Qed.

Lemma submit_fields s b :
  s_cur_height (submit_block s b) = bheight b /\
  s_cur_hash (submit_block s b) = bhash b /\
  d_cur (s_db (submit_block s b)) = Some (bhash b, bheight b) /\
  d_ver (s_db (submit_block s b)) = d_ver (s_db s) /\
  s_hdrcache (submit_block s b) = s_hdrcache s /\
  s_hic (submit_block s b) = set_header_index (s_hic s) (s_cur_height s) (bheight b) (bhash b).
Proof.
  unfold submit_block, save_block_to_block_store.
  destruct (save_txs (b_txs b) (bheight b) (d_tx (s_db s)) (s_bc_txs s)). cbn. repeat split; reflexivity.
Qed.

(** AddBlock of the next block *)
Lemma add_block_accept g chain s b :
  inv g chain s -> chain_wf (chain ++ [b]) ->
  exists s', add_block s b = (s', Added) /\ inv g (chain ++ [b]) s'.
Proof.
  intros [H0 Hgen Hcur Hdcur Hver Hlast Hhc] Hwf.
  pose proof Hwf as [Hd Hh].
  assert (Hht : bheight b = N.of_nat (length chain)).
  { apply Hh. rewrite nth_error_app2 by lia. now rewrite Nat.sub_diag. }
  assert (Hlen : N.of_nat (length chain) + 1 < 4294967296).
  { pose proof (cd_len _ Hd) as L. rewrite app_length in L. cbn in L. lia. }
  pose proof (submit_inv0 chain s b H0 Hwf) as [A1 A2 A3 A4 A5 A6 A7].
  destruct (submit_fields s b) as (F1 & F2 & F3 & F4 & F5 & F6).
  unfold add_block; cbv zeta. unfold add_block_stale_lhs, add_block_stale_rhs, add_block_next.
  rewrite !u32z_id by lia. rewrite u32z_succ by lia.
  replace (bheight b <=? s_cur_height s) with false by (symmetry; apply N.leb_gt; lia).
  replace (bheight b =? s_cur_height s + 1) with true by (symmetry; apply N.eqb_eq; lia).
  cbn [negb]. eexists; split; [reflexivity|].
  split; cbn [s_db s_hic s_cur_height s_cur_hash s_hdrcache s_bc_blocks s_bc_txs].
  - split; cbn [s_db s_hic s_cur_height s_cur_hash s_hdrcache s_bc_blocks s_bc_txs]; assumption.
  - rewrite nth_error_app1; [exact Hgen|]. lia.
  - rewrite F1, app_length. cbn. lia.
  - now rewrite F3, F1, F2.
  - now rewrite F4.
  - rewrite F6, F1. rewrite set_header_index_last by (try apply (i_last_lt _ _ H0); lia). lia.
  - intros x Hx. rewrite F5. apply in_app_or in Hx as [Hx|[<-|[]]].
    + apply lookup_del_none. now apply Hhc.
    + apply lookup_del_eq.
Qed.

(** AddBlock of any other height leaves the store as it is *)
Lemma add_block_skip g chain s b :
  inv g chain s -> chain_distinct chain -> bheight b <> s_cur_height s + 1 -> fst (add_block s b) = s.
Proof.
  intros [H0 Hgen Hcur Hdcur Hver Hlast Hhc] Hd Hne.
  pose proof (cd_len _ Hd) as L.
  unfold add_block; cbv zeta. unfold add_block_stale_lhs, add_block_stale_rhs, add_block_next.
  rewrite (u32z_id (s_cur_height s)) by lia. rewrite u32z_succ by lia.
  destruct (_ <=? _); [reflexivity|].
  destruct (N.eqb_spec (bheight b) (s_cur_height s + 1)); [contradiction|reflexivity].
Qed.

Lemma add_header_cur s hd : s_cur_height (fst (add_header s hd)) = s_cur_height s.
Proof. unfold add_header. destruct (negb _); reflexivity. Qed.

(** AddHeader: only heights above every committed block are written *)
Lemma add_header_inv g chain s hd :
  inv g chain s -> chain_wf chain -> h_height hd <> 0 ->
  (forall b, In b chain -> h_hash hd = bhash b -> h_height hd = bheight b) ->
  inv g chain (fst (add_header s hd)).
Proof.
  intros Hinv [Hd Hh] Hnz Hbind. pose proof Hinv as [H0 Hgen Hcur Hdcur Hver Hlast Hhc].
  pose proof (cd_len _ Hd) as L. pose proof (i_last_lt _ _ H0) as Hlt.
  unfold add_header.
  destruct (N.eqb_spec (h_height hd) (u32z (add_header_next (Z.of_N (current_header_height s))))) as [e|e];
    cbn [negb fst]; [|exact Hinv].
  assert (Hchh : current_header_height s = hi_last (s_hic s)).
  { unfold current_header_height. destruct (N.eqb_spec (hi_last (s_hic s)) 0); lia. }
  rewrite Hchh in e. unfold add_header_next in e.
  assert (Hhh : h_height hd = hi_last (s_hic s) + 1 /\ hi_last (s_hic s) + 1 < 4294967296).
  { unfold u32z in e. lia. }
  destruct Hhh as [Hhh Hhlt].
  assert (Habove : forall i b, nth_error chain i = Some b -> N.of_nat i < h_height hd).
  { intros i b Hi. assert (i < length chain)%nat by (apply nth_error_Some; now rewrite Hi). lia. }
  destruct H0 as [A1 A2 A3 A4 A5 A6 A7].
  split; cbn [s_db s_hic s_cur_height s_cur_hash s_hdrcache s_bc_blocks s_bc_txs]; try assumption.
  - split; cbn [s_db s_hic s_cur_height s_cur_hash s_hdrcache s_bc_blocks s_bc_txs]; try assumption.
    + apply hic_agrees_set; [exact A4|]. intros i b Hi E. apply Habove in Hi. lia.
    + rewrite set_header_index_last by lia. lia.
  - rewrite set_header_index_last by lia. lia.
  - intros b Hb. rewrite lookup_put_neq; [now apply Hhc|].
    intros E. apply In_nth_error in Hb as [i Hi]. pose proof (Habove _ _ Hi) as Hab.
    rewrite (Hbind b (nth_error_In _ _ Hi) (eq_sym E)) in Hab. rewrite (Hh _ _ Hi) in Hab. lia.
Qed.

(** * Re-opening *)
Lemma load_loop_ok d cur chain :
  (forall j b, nth_error chain j = Some b -> lookup (N.of_nat j) (d_bhash d) = Some (bhash b)) ->
  (forall b, In b chain -> bhash b <> EMPTY) ->
  cur + 1 = N.of_nat (length chain) -> cur + 1 < 4294967296 ->
  forall n i c, i + N.of_nat n = cur + 1 -> hic_agrees chain c -> hi_last c < 4294967296 ->
  exists c', load_loop n d cur i c = Some c' /\ hic_agrees chain c' /\ hi_last c' < 4294967296 /\
             hi_last c <= hi_last c' /\ (n <> 0%nat -> cur <= hi_last c').
Proof.
  intros Hbh Hnz Hcur Hlt. induction n as [|n IH]; intros i c Hi Hag Hl.
  - exists c. cbn [load_loop]. repeat split; try assumption; [lia|congruence].
  - destruct (nth_error chain (N.to_nat i)) as [b|] eqn:E; [|apply nth_error_None in E; lia].
    pose proof (Hbh _ _ E) as Hlk. rewrite N2Nat.id in Hlk.
    cbn [load_loop]. rewrite Hlk.
    destruct (N.eqb_spec (bhash b) EMPTY) as [Hz|_]; [exfalso; eapply Hnz; [eapply nth_error_In; exact E|exact Hz]|].
    rewrite u32z_succ by lia.
    destruct (IH (i + 1) (set_header_index c cur i (bhash b))) as (c' & E1 & E2 & E3 & E4 & E5).
    + lia.
    + apply hic_agrees_set; [exact Hag|]. intros j b' Hj Ej.
      assert (j = N.to_nat i) by lia. subst j. congruence.
    + rewrite set_header_index_last by lia. lia.
    + rewrite set_header_index_last in E4 by lia.
      exists c'. repeat split; try assumption; [lia|]. intros _.
      destruct n as [|n']; [|apply E5; congruence].
      cbn [load_loop] in E1. inversion E1; subst c'. rewrite set_header_index_last by lia. lia.
Qed.

Lemma reload_first_lt cur : reload_first cur < 4294967296.
Proof. unfold reload_first. destruct (_ <? _); [apply u32z_lt|lia]. Qed.

Lemma load_header_index_list_ok d cur chain :
  (forall j b, nth_error chain j = Some b -> lookup (N.of_nat j) (d_bhash d) = Some (bhash b)) ->
  (forall b, In b chain -> bhash b <> EMPTY) ->
  cur + 1 = N.of_nat (length chain) -> cur + 1 < 4294967296 ->
  exists c, load_header_index_list d cur = Some c /\ hic_agrees chain c /\
            hi_last c < 4294967296 /\ cur <= hi_last c.
Proof.
  intros Hbh Hnz Hcur Hlt. unfold load_header_index_list; cbv zeta.
  unfold reload_loop_from, reload_loop_lhs, reload_loop_rhs.
  pose proof (reload_first_lt cur) as Hf. set (height := reload_first cur) in *.
  rewrite !(u32z_id height) by exact Hf. rewrite (u32z_id cur) by lia.
  set (c0 := {| hi_map := []; hi_first := height; hi_last := height |}).
  assert (Hag0 : hic_agrees chain c0) by (intros i b _; now left).
  destruct (N.le_gt_cases height (cur + 1)) as [Hle|Hgt].
  - remember (N.to_nat (cur + 1 - height)) as n eqn:En.
    destruct (load_loop_ok d cur chain Hbh Hnz Hcur Hlt n height c0) as (c' & E1 & E2 & E3 & E4 & E5);
      [lia|exact Hag0|exact Hf|].
    exists c'. repeat split; try assumption. cbn [c0 hi_last] in E4.
    destruct n as [|n']; [lia|apply E5; congruence].
  - replace (N.to_nat (cur + 1 - height)) with 0%nat by lia. cbn [load_loop].
    exists c0. repeat split; try assumption; cbn [c0 hi_last]; lia.
Qed.

Lemma reopen_inv g chain s :
  inv g chain s -> chain_wf chain ->
  exists s', open_store (s_db s) g = Some s' /\ inv g chain s'.
Proof.
  intros [H0 Hgen Hcur Hdcur Hver Hlast Hhc] [Hd Hh]. destruct H0 as [A1 A2 A3 A4 A5 A6 A7].
  pose proof (cd_len _ Hd) as L.
  unfold open_store. rewrite Hver, N.eqb_refl.
  rewrite (A2 g (nth_error_In _ _ Hgen)). rewrite Hdcur.
  destruct (load_header_index_list_ok (s_db s) (s_cur_height s) chain A1 (cd_nonzero _ Hd) Hcur) as (c & E & B1 & B2 & B3); [lia|].
  rewrite E. eexists; split; [reflexivity|].
  split; cbn [s_db s_hic s_cur_height s_cur_hash s_hdrcache s_bc_blocks s_bc_txs]; try assumption.
  - split; cbn [s_db s_hic s_cur_height s_cur_hash s_hdrcache s_bc_blocks s_bc_txs]; try assumption.
    + intros k b H. discriminate H.
    + intros k t h H. discriminate H.
  - intros b _. reflexivity.
Qed.

(** A new ledger: empty directory, genesis block g *)
Lemma init_inv g :
  bheight g = 0 -> chain_wf [g] ->
  exists s, open_store empty_db g = Some s /\ inv g [g] s.
Proof.
  intros Hg Hwf. unfold open_store. cbn [d_ver empty_db]. eexists; split; [reflexivity|].
  pose proof (submit_inv0 [] (fresh_store empty_db) g inv0_fresh Hwf) as [A1 A2 A3 A4 A5 A6 A7].
  destruct (submit_fields (fresh_store empty_db) g) as (F1 & F2 & F3 & F4 & F5 & F6).
  cbn [app] in *.
  split; cbn [s_db s_hic s_cur_height s_cur_hash s_hdrcache s_bc_blocks s_bc_txs d_ver d_cur d_bhash d_hdr d_tx].
  - split; cbn [s_db s_hic s_cur_height s_cur_hash s_hdrcache s_bc_blocks s_bc_txs d_ver d_cur d_bhash d_hdr d_tx]; assumption.
  - reflexivity.
  - rewrite F1, Hg. reflexivity.
  - now rewrite F3, F1, F2.
  - reflexivity.
  - rewrite F1, Hg. apply N.le_0_l.
  - intros b _. rewrite F5. reflexivity.
Qed.

(** * Histories *)
Definition hdrs_ok (ops : list op) (chain : list block) : Prop :=
  forall hd, In (OAddHeader hd) ops ->
    h_height hd <> 0 /\ forall b, In b chain -> h_hash hd = bhash b -> h_height hd = bheight b.

Lemma run_inv g : forall ops s chain,
  inv g chain s ->
  chain_wf (chain ++ committed (s_cur_height s) ops) ->
  hdrs_ok ops (chain ++ committed (s_cur_height s) ops) ->
  exists s', run g s ops = Some s' /\ inv g (chain ++ committed (s_cur_height s) ops) s'.
Proof.
  induction ops as [|o r IH]; intros s chain Hinv Hwf Hok.
  - cbn [run committed] in *. rewrite app_nil_r. now exists s.
  - assert (Hok' : forall ch, hdrs_ok (o :: r) ch -> hdrs_ok r ch).
    { intros ch H hd Hin. apply H. now right. }
    destruct o as [b|hd|]; cbn [run step committed] in *.
    + destruct (N.eqb_spec (bheight b) (s_cur_height s + 1)) as [e|e].
      * change (b :: committed (s_cur_height s + 1) r) with ([b] ++ committed (s_cur_height s + 1) r) in *.
        rewrite app_assoc in *.
        destruct (add_block_accept g chain s b Hinv (chain_wf_prefix _ _ Hwf)) as (s1 & E & Hinv1).
        rewrite E. cbn [fst].
        assert (Ec : s_cur_height s1 = s_cur_height s + 1).
        { pose proof (v_cur _ _ _ Hinv) as C0. pose proof (v_cur _ _ _ Hinv1) as C1.
          rewrite app_length in C1. cbn in C1. lia. }
        rewrite <- Ec in *. apply IH; [exact Hinv1|exact Hwf|apply Hok'; exact Hok].
      * rewrite (add_block_skip g chain s b Hinv (proj1 (chain_wf_prefix _ _ Hwf)) e).
        apply IH; [exact Hinv|exact Hwf|apply Hok'; exact Hok].
    + destruct (Hok hd (or_introl eq_refl)) as [Hnz Hbind].
      assert (Hinv1 : inv g chain (fst (add_header s hd))).
      { apply add_header_inv; [exact Hinv|eapply chain_wf_prefix; exact Hwf|exact Hnz|].
        intros b Hb. apply Hbind. apply in_or_app. now left. }
      rewrite <- (add_header_cur s hd) in *. apply IH; [exact Hinv1|exact Hwf|apply Hok'; exact Hok].
    + destruct (reopen_inv g chain s Hinv (chain_wf_prefix _ _ Hwf)) as (s1 & E & Hinv1).
      rewrite E.
      assert (Ec : s_cur_height s1 = s_cur_height s).
      { pose proof (v_cur _ _ _ Hinv) as C0. pose proof (v_cur _ _ _ Hinv1) as C1. lia. }
      rewrite <- Ec in *. apply IH; [exact Hinv1|exact Hwf|apply Hok'; exact Hok].
Qed.

Lemma committed_heights : forall ops cur i b,
  nth_error (committed cur ops) i = Some b -> bheight b = cur + 1 + N.of_nat i.
Proof.
  induction ops as [|o r IH]; intros cur i b H; cbn [committed] in H.
  - rewrite nth_error_nil_none in H. discriminate H.
  - destruct o as [b0|hd|]; try (now apply IH).
    destruct (N.eqb_spec (bheight b0) (cur + 1)) as [e|e]; [|now apply IH].
    destruct i as [|j]; cbn [nth_error] in H.
    + inversion H; subst. lia.
    + apply IH in H. lia.
Qed.

Lemma genesis_chain_heights g ops : bheight g = 0 -> chain_heights (g :: committed 0 ops).
Proof.
  intros Hg [|j] b H; cbn [nth_error] in H.
  - inversion H; subst. exact Hg.
  - apply committed_heights in H. lia.
Qed.

(** * Queries on a consistent store *)
Section Queries.
  Variables (g : block) (chain : list block) (s : store).
  Hypothesis Hinv : inv g chain s.
  Hypothesis Hd : chain_distinct chain.

  Lemma q_hash i b : nth_error chain i = Some b -> get_block_hash s (N.of_nat i) = bhash b.
  Proof.
    intros Hi. unfold get_block_hash, hic_get; cbv zeta.
    destruct (i_hic _ _ (v_0 _ _ _ Hinv) i b Hi) as [E|E]; rewrite E.
    - cbn [N.eqb EMPTY]. now rewrite (i_bhash _ _ (v_0 _ _ _ Hinv) i b Hi).
    - destruct (N.eqb_spec (bhash b) EMPTY) as [Hz|_]; [|reflexivity].
      exfalso. eapply (cd_nonzero _ Hd); [eapply nth_error_In; exact Hi|exact Hz].
  Qed.

  Lemma q_tx ct i b t :
    nth_error chain i = Some b -> In t (b_txs b) ->
    get_transaction ct s (t_hash t) = Some (t, N.of_nat i).
  Proof.
    intros Hi Ht. pose proof (i_tx _ _ (v_0 _ _ _ Hinv) i b t Hi Ht) as Hdb.
    unfold get_transaction, cache_tx.
    destruct (ct (t_hash t)); [|now rewrite Hdb].
    destruct (lookup (t_hash t) (s_bc_txs s)) as [[t' h']|] eqn:E; [|now rewrite Hdb].
    apply (i_bt _ _ (v_0 _ _ _ Hinv)) in E as (i' & b' & -> & Hi' & Ht' & Ek).
    destruct (tx_unique chain (cd_txs _ Hd) i' i b' b t' t Hi' Ht' Hi Ht Ek) as [-> ->]. reflexivity.
  Qed.

  Lemma q_collect ct i b : nth_error chain i = Some b ->
    forall l, incl l (b_txs b) -> collect_txs ct s (map t_hash l) = Some l.
  Proof.
    intros Hi. induction l as [|a l IH]; intros Hl; cbn [map collect_txs]; [reflexivity|].
    rewrite (q_tx ct i b a Hi) by (apply Hl; now left).
    rewrite IH; [reflexivity|]. intros x Hx. apply Hl. now right.
  Qed.

  Lemma q_block cb ct i b : nth_error chain i = Some b -> get_block cb ct s (bhash b) = Some b.
  Proof.
    intros Hi. pose proof (nth_error_In _ _ Hi) as Hin.
    assert (Hdb : match lookup (bhash b) (d_hdr (s_db s)) with
                  | None => None
                  | Some (hd, ks) => match collect_txs ct s ks with None => None | Some l => Some {| b_hdr := hd; b_txs := l |} end
                  end = Some b).
    { rewrite (i_hdr _ _ (v_0 _ _ _ Hinv) b Hin). unfold btxhashes.
      rewrite (q_collect ct i b Hi) by apply incl_refl. now destruct b. }
    unfold get_block, cache_block.
    destruct (cb (bhash b)); [|exact Hdb].
    destruct (lookup (bhash b) (s_bc_blocks s)) as [b0|] eqn:E; [|exact Hdb].
    apply (i_bc _ _ (v_0 _ _ _ Hinv)) in E as [E1 E2].
    now rewrite (distinct_hash_inj chain b0 b Hd E1 Hin E2).
  Qed.

  Lemma q_header cb i b : nth_error chain i = Some b -> get_header_by_hash cb s (bhash b) = Some (b_hdr b).
  Proof.
    intros Hi. pose proof (nth_error_In _ _ Hi) as Hin.
    unfold get_header_by_hash, cache_block. rewrite (v_hdrcache _ _ _ Hinv b Hin).
    assert (Hdb : match lookup (bhash b) (d_hdr (s_db s)) with Some (hd, _) => Some hd | None => None end = Some (b_hdr b)).
    { now rewrite (i_hdr _ _ (v_0 _ _ _ Hinv) b Hin). }
    destruct (cb (bhash b)); [|exact Hdb].
    destruct (lookup (bhash b) (s_bc_blocks s)) as [b0|] eqn:E; [|exact Hdb].
    apply (i_bc _ _ (v_0 _ _ _ Hinv)) in E as [E1 E2].
    now rewrite (distinct_hash_inj chain b0 b Hd E1 Hin E2).
  Qed.

  Lemma q_header_by_height cb i b : nth_error chain i = Some b -> get_header_by_height cb s (N.of_nat i) = Some (b_hdr b).
  Proof. intros Hi. unfold get_header_by_height. rewrite (q_hash i b Hi). now apply (q_header cb i b). Qed.

  Lemma q_by_height cb ct i b : nth_error chain i = Some b -> get_block_by_height cb ct s (N.of_nat i) = BHOk b.
  Proof.
    intros Hi. unfold get_block_by_height; cbv zeta. rewrite (q_hash i b Hi).
    destruct (N.eqb_spec (bhash b) EMPTY) as [Hz|_].
    - exfalso. eapply (cd_nonzero _ Hd); [eapply nth_error_In; exact Hi|exact Hz].
    - now rewrite (q_block cb ct i b Hi).
  Qed.
End Queries.

(** what "all five queries return the committed block" means for a store and a chain *)
Definition answers (s : store) (chain : list block) : Prop :=
  forall (cb ct : hash -> bool) i b, nth_error chain i = Some b ->
    get_block_hash s (N.of_nat i) = bhash b /\
    get_block_by_height cb ct s (N.of_nat i) = BHOk b /\
    get_block cb ct s (bhash b) = Some b /\
    get_header_by_hash cb s (bhash b) = Some (b_hdr b) /\
    (forall t, In t (b_txs b) -> get_transaction ct s (t_hash t) = Some (t, N.of_nat i)).

Lemma inv_header_by_height g chain s : inv g chain s -> chain_distinct chain ->
  forall cb i b, nth_error chain i = Some b -> get_header_by_height cb s (N.of_nat i) = Some (b_hdr b).
Proof. intros Hinv Hd cb i b Hi. eapply q_header_by_height; eassumption. Qed.

Lemma inv_answers g chain s : inv g chain s -> chain_distinct chain -> answers s chain.
Proof.
  intros Hinv Hd cb ct i b Hi. repeat split.
  - eapply q_hash; eassumption.
  - eapply q_by_height; eassumption.
  - eapply q_block; eassumption.
  - eapply q_header; eassumption.
  - intros t Ht. eapply q_tx; eassumption.
Qed.

Record history_ok (g : block) (ops : list op) : Prop := {
  ho_genesis : bheight g = 0;
  ho_distinct : chain_distinct (g :: committed 0 ops);
  ho_headers : hdrs_ok ops (g :: committed 0 ops)
}.

Theorem queries_agree g ops :
  history_ok g ops ->
  exists s, run_ledger g ops = Some s /\ answers s (g :: committed 0 ops).
Proof.
  intros [Hg Hd Hok].
  pose proof (genesis_chain_heights g ops Hg) as Hh.
  assert (Hwf : chain_wf ([g] ++ committed 0 ops)) by (split; assumption).
  destruct (init_inv g Hg (chain_wf_prefix _ _ Hwf)) as (s0 & E0 & Hinv0).
  assert (Ec : s_cur_height s0 = 0).
  { pose proof (v_cur _ _ _ Hinv0) as C. cbn in C. lia. }
  destruct (run_inv g ops s0 [g] Hinv0) as (s & E & Hinv).
  - now rewrite Ec.
  - now rewrite Ec.
  - unfold run_ledger. rewrite E0. rewrite Ec in Hinv. exists s. split; [exact E|].
    eapply inv_answers; [exact Hinv|exact Hd].
Qed.

Theorem header_by_height_agrees g ops :
  history_ok g ops ->
  exists s, run_ledger g ops = Some s /\
    forall cb i b, nth_error (g :: committed 0 ops) i = Some b -> get_header_by_height cb s (N.of_nat i) = Some (b_hdr b).
Proof.
  intros [Hg Hd Hok].
  pose proof (genesis_chain_heights g ops Hg) as Hh.
  assert (Hwf : chain_wf ([g] ++ committed 0 ops)) by (split; assumption).
  destruct (init_inv g Hg (chain_wf_prefix _ _ Hwf)) as (s0 & E0 & Hinv0).
  assert (Ec : s_cur_height s0 = 0).
  { pose proof (v_cur _ _ _ Hinv0) as C. cbn in C. lia. }
  destruct (run_inv g ops s0 [g] Hinv0) as (s & E & Hinv).
  - now rewrite Ec.
  - now rewrite Ec.
  - unfold run_ledger. rewrite E0. rewrite Ec in Hinv. exists s. split; [exact E|].
    eapply inv_header_by_height; [exact Hinv|exact Hd].
Qed.

Lemma committed_app_reopen : forall ops cur, committed cur (ops ++ [OReopen]) = committed cur ops.
Proof.
  induction ops as [|o r IH]; intros cur; [reflexivity|].
  destruct o as [b|hd|]; cbn [app committed]; try apply IH.
  destruct (_ =? _); [f_equal|]; apply IH.
Qed.

Lemma history_ok_reopen g ops : history_ok g ops -> history_ok g (ops ++ [OReopen]).
Proof.
  intros [Hg Hd Hok]. split; [exact Hg|now rewrite committed_app_reopen|].
  rewrite committed_app_reopen. intros hd Hin. apply Hok.
  apply in_app_or in Hin as [Hin|[Hin|[]]]; [exact Hin|discriminate Hin].
Qed.

(** before and after a restart *)
Theorem queries_agree_restart g ops :
  history_ok g ops ->
  (exists s, run_ledger g ops = Some s /\ answers s (g :: committed 0 ops)) /\
  (exists s, run_ledger g (ops ++ [OReopen]) = Some s /\ answers s (g :: committed 0 ops)).
Proof.
  intros H. split; [now apply queries_agree|].
  rewrite <- (committed_app_reopen ops 0). apply queries_agree. now apply history_ok_reopen.
Qed.

(** plain chains: AddBlock of consecutive blocks *)
Lemma committed_map_commit : forall blocks cur,
  (forall i b, nth_error blocks i = Some b -> bheight b = cur + 1 + N.of_nat i) ->
  committed cur (map OCommit blocks) = blocks.
Proof.
  induction blocks as [|b r IH]; intros cur H; [reflexivity|].
  cbn [map committed]. rewrite (H 0%nat b eq_refl).
  replace (cur + 1 + N.of_nat 0 =? cur + 1) with true by (symmetry; apply N.eqb_eq; lia).
  f_equal. apply IH. intros i x Hi. rewrite (H (S i) x Hi). lia.
Qed.
