(** Proofs for C05 (Model/Fee.v, Model/FeeSpec.v): a failed transaction changes the block state by
    the fee only; a successful one commits its writes once; the arithmetic envelope of the fee. *)
From Coq Require Import List Bool NArith ZArith Lia ZifyN ZifyBool.
Import ListNotations.
From Ont Require Import Lib.Bytes Lib.U64 Model.KV Model.NeoInt Proofs.KV Proofs.NeoInt
  Gen.FeeConsts Gen.FeeFormulas Model.Fee Model.FeeSpec.
Local Open Scope N_scope.

(** the generated scale is the one Model/NeoInt.v uses (re-checked when Gen/FeeConsts.v changes) *)
Lemma fee_scale_ok : FEE_SCALE = ScaleFactor.
Proof. reflexivity. Qed.

(** * Reading balances *)

Lemma balance_of_item_nonneg it b : balance_of_item it = inl b -> (0 <= b)%Z.
Proof.
  unfold balance_of_item. destruct (state_version it =? DefaultVersion).
  - destruct (nv_take 8 (item_value it)) as [[x r]|]; [|discriminate].
    intro E. injection E as <-. unfold ScaleFactor. lia.
  - destruct (Z.ltb_spec (Z_of_neo (item_value it)) 0); [discriminate|].
    intro E. injection E as <-. assumption.
Qed.

Lemma read_balance_nonneg raw b : read_balance raw = Some b -> (0 <= b)%Z.
Proof.
  unfold read_balance. destruct raw as [|x raw]; [intro E; injection E as <-; lia|].
  unfold balance_of_bytes. destruct (item_of_bytes (x :: raw)) as [[it rest]|e]; [|discriminate].
  destruct (balance_of_item it) as [b'|e] eqn:E; [|discriminate].
  intro E'. injection E' as <-. eapply balance_of_item_nonneg; eauto.
Qed.

Lemma balance_at_abs s a : sorted_state s -> balance_at s a = bal_in (abs s) a.
Proof. intro H. unfold balance_at, bal_in. rewrite cache_get_refines by exact H. reflexivity. Qed.

Lemma balance_to_bytes_nonempty b raw : balance_to_bytes b = Some raw -> raw <> [].
Proof.
  unfold balance_to_bytes. destruct (balance_to_item b); [|discriminate].
  intro E. injection E as <-. unfold item_to_bytes. cbn [app]. discriminate.
Qed.

Lemma enc_bal_some b raw : b <> 0%Z -> balance_to_bytes b = Some raw -> enc_bal b = raw.
Proof.
  intros Hb E. unfold enc_bal. destruct (Z.eqb_spec b 0); [contradiction|]. rewrite E. reflexivity.
Qed.

(** the stored form reads back (on the domain the C21 round-trip theorem covers) *)
Lemma read_enc_bal b : balance_in_domain b -> read_balance (enc_bal b) = Some b.
Proof.
  intro D. unfold enc_bal. destruct (Z.eqb_spec b 0) as [->|Hb]; [reflexivity|].
  destruct (balance_bytes_roundtrip b D) as [raw [E R]]. rewrite E.
  specialize (R []). rewrite app_nil_r in R. unfold read_balance.
  destruct raw as [|x raw]; [exfalso; eapply balance_to_bytes_nonempty; eauto|]. rewrite R. reflexivity.
Qed.

(** * The ONG transfer *)

Definition same_block (s s' : state) : Prop := st_overlay s' = st_overlay s /\ st_store s' = st_store s.

Lemma same_block_refl s : same_block s s. Proof. split; reflexivity. Qed.
Lemma same_block_trans a b c : same_block a b -> same_block b c -> same_block a c.
Proof. intros [A B] [C D]. split; congruence. Qed.

Lemma same_block_abs_block s s' : same_block s s' -> abs_block s' = abs_block s.
Proof. intros [A B]. unfold abs_block. rewrite A, B. reflexivity. Qed.

Lemma same_block_sorted s s' : same_block s s' -> ssorted (st_cache s') -> sorted_state s -> sorted_state s'.
Proof. intros [A B] Hc (_ & Ho & Hs). repeat split; [exact Hc|rewrite A; exact Ho|rewrite B; exact Hs]. Qed.

(** the transfer never touches the block overlay or the store, whatever it returns *)
Lemma ong_transfer_same_block signed from to amt s s' e :
  ong_transfer signed from to amt s = (s', e) -> same_block s s'.
Proof.
  unfold ong_transfer. destruct (amt =? 0); [intro E; injection E as <- _; apply same_block_refl|].
  destruct (_ <? _)%Z; [intro E; injection E as <- _; apply same_block_refl|].
  destruct (negb signed); [intro E; injection E as <- _; apply same_block_refl|].
  destruct (balance_at s from) as [fb|]; [|intro E; injection E as <- _; apply same_block_refl].
  destruct (_ <? _)%Z; [intro E; injection E as <- _; apply same_block_refl|].
  set (s1 := if (_ =? 0)%Z then _ else _).
  assert (H1 : forall x, s1 = Some x -> same_block s x).
  { subst s1. intros x. destruct (_ =? 0)%Z.
    - intro E; injection E as <-. split; reflexivity.
    - destruct (balance_to_bytes _); [|discriminate]. intro E; injection E as <-. split; reflexivity. }
  destruct s1 as [x|]; [|intro E; injection E as <- _; apply same_block_refl].
  specialize (H1 x eq_refl).
  destruct (balance_at x to) as [tb|]; [|intro E; injection E as <- _; exact H1].
  destruct (balance_to_bytes _); intro E; injection E as <- _; [|exact H1].
  eapply same_block_trans; [exact H1|]. split; reflexivity.
Qed.

(** a successful transfer, on the ordered-map view of the state it ran on *)
Lemma ong_transfer_ok signed from to amt s s' : sorted_state s ->
  ong_transfer signed from to amt s = (s', None) ->
  sorted_state s' /\ same_block s s' /\
  ((amt = 0 /\ s' = s) \/
   (amt <> 0 /\ signed = true /\ exists fb tb : Z,
      let v := (Z.of_N amt * ScaleFactor)%Z in
      (v <= FEE_ONG_TOTAL_SUPPLY_V2)%Z /\
      bal_in (abs s) from = Some fb /\ (v <= fb)%Z /\
      bal_in (set_bal from (fb - v) (abs s)) to = Some tb /\
      abs s' = set_bal to (tb + v) (set_bal from (fb - v) (abs s)))).
Proof.
  intros Hs E. split; [|split; [eapply ong_transfer_same_block; eauto|]].
  - (* sortedness *)
    revert E. unfold ong_transfer. destruct (amt =? 0); [intro E; injection E as <-; exact Hs|].
    destruct (_ <? _)%Z; [discriminate|]. destruct (negb signed); [discriminate|].
    destruct (balance_at s from) as [fb|]; [|discriminate]. destruct (_ <? _)%Z; [discriminate|].
    set (s1 := if (_ =? 0)%Z then _ else _).
    assert (H1 : forall x, s1 = Some x -> sorted_state x).
    { subst s1. intros x. destruct (_ =? 0)%Z.
      - intro E; injection E as <-. apply cache_delete_sorted; exact Hs.
      - destruct (balance_to_bytes _); [|discriminate]. intro E; injection E as <-. apply cache_put_sorted; exact Hs. }
    destruct s1 as [x|]; [|discriminate]. specialize (H1 x eq_refl).
    destruct (balance_at x to); [|discriminate]. destruct (balance_to_bytes _); [|discriminate].
    intro E; injection E as <-. apply cache_put_sorted; exact H1.
  - revert E. unfold ong_transfer. destruct (N.eqb_spec amt 0) as [->|Hamt]; [intro E; injection E as <-; left; split; reflexivity|].
    destruct (Z.ltb_spec FEE_ONG_TOTAL_SUPPLY_V2 (Z.of_N amt * ScaleFactor)); [discriminate|].
    destruct signed; cbn [negb]; [|discriminate].
    rewrite balance_at_abs by exact Hs.
    destruct (bal_in (abs s) from) as [fb|] eqn:Efb; [|discriminate].
    destruct (Z.ltb_spec fb (Z.of_N amt * ScaleFactor)); [discriminate|].
    set (v := (Z.of_N amt * ScaleFactor)%Z) in *.
    set (s1 := if (_ =? 0)%Z then _ else _).
    assert (H1 : forall x, s1 = Some x -> sorted_state x /\ abs x = set_bal from (fb - v) (abs s)).
    { subst s1. intros x. destruct (Z.eqb_spec (fb - v) 0) as [Ez|Ez].
      - intro E; injection E as <-. split; [apply cache_delete_sorted; exact Hs|].
        destruct (cache_delete_refines pfx (ong_key from) s Hs) as [A _]. rewrite A.
        unfold set_bal, enc_bal. rewrite Ez. reflexivity.
      - destruct (balance_to_bytes (fb - v)) as [raw|] eqn:Er; [|discriminate]. intro E; injection E as <-.
        split; [apply cache_put_sorted; exact Hs|].
        destruct (cache_put_refines pfx (ong_key from) raw s Hs) as [A _]. rewrite A.
        unfold set_bal. rewrite (enc_bal_some _ _ Ez Er). reflexivity. }
    destruct s1 as [x|]; [|discriminate]. destruct (H1 x eq_refl) as [Hx Ax].
    rewrite balance_at_abs by exact Hx. rewrite Ax.
    destruct (bal_in (set_bal from (fb - v) (abs s)) to) as [tb|] eqn:Etb; [|discriminate].
    destruct (balance_to_bytes (tb + v)) as [raw|] eqn:Er; [|discriminate].
    intro E; injection E as <-. right. split; [exact Hamt|]. split; [reflexivity|].
    exists fb, tb. cbv zeta. fold v. split; [assumption|]. split; [reflexivity|]. split; [assumption|]. split; [exact Etb|].
    destruct (cache_put_refines pfx (ong_key to) raw x Hx) as [A _]. rewrite A, Ax.
    assert (Henc : enc_bal (tb + v) = raw).
    { apply enc_bal_some; [|exact Er]. pose proof (read_balance_nonneg _ _ Etb). unfold v, ScaleFactor. lia. }
    rewrite <- Henc. reflexivity.
Qed.

(** * Failed transactions *)

Definition block_sorted (s : state) : Prop := ssorted (st_overlay s) /\ ssorted (st_store s).

Lemma sorted_block_sorted s : sorted_state s -> block_sorted s.
Proof. intros (_ & A & B). split; assumption. Qed.

Lemma block_sorted_same s s' : same_block s s' -> block_sorted s -> block_sorted s'.
Proof. intros [A B] [C D]. split; [rewrite A|rewrite B]; assumption. Qed.

Lemma fresh_sorted s : block_sorted s -> sorted_state (fresh s).
Proof. intros [A B]. repeat split; simpl; auto. Qed.

Lemma abs_fresh s : abs (fresh s) = abs_block s.
Proof. exact (proj2 (proj2 (reset_abs s))). Qed.

Lemma fee_events_0 : fee_events 0 = [].
Proof. reflexivity. Qed.

(** a failure that charges nothing *)
Lemma nocharge_only_fee payer s0 s req : same_block s0 s ->
  only_fee payer s0 (mkRes s StFail 0 [] 0 req).
Proof.
  intros SB. unfold only_fee. cbn [r_state r_gas r_fee_events r_events].
  split; [apply SB|]. split; [reflexivity|]. split; [reflexivity|].
  left. split; [reflexivity|]. apply same_block_abs_block; exact SB.
Qed.

Lemma charge_failed_only_fee payer s0 s e g : same_block s0 s ->
  r_status (charge_failed e s g) = StFail -> only_fee payer s0 (charge_failed e s g).
Proof.
  intros SB. destruct e; cbn [charge_failed r_status]; intro H; try discriminate; apply nocharge_only_fee; exact SB.
Qed.

(** costInvalidGas *)
Lemma cost_invalid_only_fee tx s0 s g : block_sorted s -> same_block s0 s ->
  r_status (cost_invalid tx s g) = StFail ->
  only_fee (t_payer tx) s0 (cost_invalid tx s g) /\ r_req (cost_invalid tx s g) = Some g.
Proof.
  intros BS SB. unfold cost_invalid.
  destruct (ong_transfer (t_signed tx) (t_payer tx) FEE_GOV_ADDR g (fresh s)) as [f [e|]] eqn:E.
  - intro H. split; [apply charge_failed_only_fee; assumption|]. destruct e; reflexivity.
  - intros _. split; [|reflexivity].
    destruct (ong_transfer_ok _ _ _ _ _ _ (fresh_sorted s BS) E) as (Hf & SBf & Cases).
    destruct (commit_cache_abs f Hf) as (_ & _ & Hst & Hab & _).
    unfold only_fee. cbn [r_state r_gas r_fee_events r_events st_store].
    split; [apply SB|]. split; [reflexivity|]. split; [reflexivity|].
    assert (Eab : abs_block (mkState (st_cache s) (st_overlay (cache_commit f)) (st_store s)) = abs f).
    { rewrite <- Hab. unfold abs_block. cbn [st_overlay st_store]. rewrite Hst.
      destruct SBf as [_ S2]. rewrite S2. reflexivity. }
    rewrite Eab. rewrite <- (same_block_abs_block _ _ SB).
    destruct Cases as [[-> ->]|(Hg & _ & fb & tb & _ & Hfb & Hle & Htb & Habs)].
    + left. split; [reflexivity|]. apply abs_fresh.
    + right. split; [exact Hg|]. exists fb, tb. cbv zeta. rewrite abs_fresh in *. auto.
Qed.

Lemma tuned_cost_invalid_only_fee env tx s0 s gas round cap : block_sorted s -> same_block s0 s ->
  r_status (tuned_cost_invalid env tx s gas round cap) = StFail ->
  only_fee (t_payer tx) s0 (tuned_cost_invalid env tx s gas round cap).
Proof.
  intros BS SB. unfold tuned_cost_invalid.
  intro H. apply cost_invalid_only_fee; assumption.
Qed.

Lemma exec_part_only_fee env tx ip s ic avail clg old : block_sorted s ->
  r_status (exec_part env tx ip s ic avail clg old) = StFail ->
  only_fee (t_payer tx) s (exec_part env tx ip s ic avail clg old).
Proof.
  intros BS. unfold exec_part. destruct (ip s (fee_exec_gas avail clg)) as [o|]; [|discriminate].
  set (s1 := mkState (o_cache o) (st_overlay s) (st_store s)).
  assert (SB : same_block s s1) by (split; reflexivity).
  assert (BS1 : block_sorted s1) by (eapply block_sorted_same; eauto).
  destruct (o_internal o); [discriminate|].
  destruct (negb (o_ok o)).
  - destruct ic; [apply tuned_cost_invalid_only_fee; assumption|].
    intros _. apply nocharge_only_fee; exact SB.
  - destruct ic; [|discriminate].
    destruct (get_balance s1 (t_payer tx)) as [new|]; [|intros _; apply nocharge_only_fee; exact SB].
    destruct (fee_lt_new new _); [apply tuned_cost_invalid_only_fee; assumption|].
    cbv zeta. destruct (ong_transfer _ _ _ _ s1) as [s2 [e|]] eqn:E; [|discriminate].
    apply charge_failed_only_fee. eapply same_block_trans; [exact SB|]. eapply ong_transfer_same_block; eauto.
Qed.

(** failed_tx_only_fee, for any start state whose block layers are sorted *)
Lemma handle_invoke_only_fee env tx ip s : block_sorted s ->
  r_status (handle_invoke env tx ip s) = StFail ->
  only_fee (t_payer tx) s (handle_invoke env tx ip s).
Proof.
  intros BS. unfold handle_invoke.
  destruct (negb (t_sys tx) && negb (t_price tx =? 0)); [|apply exec_part_only_fee; exact BS].
  destruct (e_codegas env) as [cg|]; [|discriminate].
  destruct (get_balance s (t_payer tx)) as [old|]; [|intros _; apply nocharge_only_fee; apply same_block_refl].
  destruct (safe_mul _ _) as [minGas ovf1].
  destruct (fee_lt_min _ _ _); [intro H; apply cost_invalid_only_fee; auto using same_block_refl|].
  destruct (safe_mul _ _) as [clGas ovf2].
  destruct (fee_lt_code _ _ _); [intro H; apply cost_invalid_only_fee; auto using same_block_refl|].
  destruct (fee_lt_limit _ _); [intro H; apply cost_invalid_only_fee; auto using same_block_refl|].
  apply exec_part_only_fee; exact BS.
Qed.

Theorem failed_tx_only_fee env tx ip s : wf_state s = true ->
  r_status (handle_invoke env tx ip (cache_reset s)) = StFail ->
  only_fee (t_payer tx) s (handle_invoke env tx ip (cache_reset s)).
Proof.
  intros W H. apply wf_state_sorted in W.
  assert (BS : block_sorted (cache_reset s)) by (apply sorted_block_sorted, cache_reset_sorted; exact W).
  pose proof (handle_invoke_only_fee env tx ip (cache_reset s) BS H) as (A & B & C & D).
  split; [exact A|]. split; [exact B|]. split; [exact C|exact D].
Qed.

(** * What [fee_moved] means for the readers of the map *)

Lemma kv_lookup_spec_put k v l x : ssorted l ->
  kv_lookup x (spec_put k v l) = if key_eqb x k then v else kv_lookup x l.
Proof.
  intro H. rewrite !kv_lookup_lookup, lookup_spec_put by exact H.
  destruct (key_eqb x k); [|reflexivity]. unfold nz. destruct v; reflexivity.
Qed.

Lemma pkey_ong_inj a b : pkey pfx (ong_key a) = pkey pfx (ong_key b) -> a = b.
Proof.
  intro E. apply (f_equal (@tl N)) in E. unfold pkey in E. cbn [tl] in E.
  unfold ong_key in E. exact (app_inv_head _ _ _ E).
Qed.

Lemma bal_in_set_same a b l : ssorted l -> bal_in (set_bal a b l) a = read_balance (enc_bal b).
Proof. intro H. unfold bal_in, set_bal. rewrite kv_lookup_spec_put, key_eqb_refl by exact H. reflexivity. Qed.

Lemma bal_in_set_other a a' b l : ssorted l -> a' <> a -> bal_in (set_bal a b l) a' = bal_in l a'.
Proof.
  intros H Hn. unfold bal_in, set_bal. rewrite kv_lookup_spec_put by exact H.
  destruct (key_eqb _ _) eqn:E; [|reflexivity]. apply key_eqb_eq, pkey_ong_inj in E. contradiction.
Qed.

Lemma set_bal_sorted a b l : ssorted l -> ssorted (set_bal a b l).
Proof. apply spec_put_sorted. Qed.

(** With payer <> governance and balances in the domain of the stored form: afterwards the payer
    has exactly [fee] less, governance exactly [fee] more, and every other key reads as before. *)
Lemma fee_moved_balances payer fee l l' fb tb : ssorted l -> payer <> FEE_GOV_ADDR ->
  fee_moved payer fee l l' -> fee <> 0 ->
  bal_in l payer = Some fb -> bal_in l FEE_GOV_ADDR = Some tb ->
  balance_in_domain fb -> balance_in_domain (tb + Z.of_N fee * ScaleFactor) ->
  let v := (Z.of_N fee * ScaleFactor)%Z in
  (v <= fb)%Z /\
  bal_in l' payer = Some (fb - v)%Z /\ bal_in l' FEE_GOV_ADDR = Some (tb + v)%Z /\
  forall k, k <> pkey pfx (ong_key payer) -> k <> pkey pfx gov_key -> kv_lookup k l' = kv_lookup k l.
Proof.
  intros Hl Hn [[H0 _]|(_ & fb' & tb' & Hm)] Hfee Hfb Htb Dfb Dtb; [contradiction|].
  cbv zeta in Hm. destruct Hm as (Hfb' & Hle & Htb' & ->).
  rewrite Hfb in Hfb'. injection Hfb' as <-.
  rewrite bal_in_set_other in Htb' by (auto; congruence). rewrite Htb in Htb'. injection Htb' as <-.
  cbv zeta. set (v := (Z.of_N fee * ScaleFactor)%Z) in *.
  assert (Dnf : balance_in_domain (fb - v)).
  { unfold balance_in_domain, ScaleFactor, two64Z in *. subst v. unfold ScaleFactor in *.
    destruct Dfb. split; [lia|]. 
    assert (((fb - Z.of_N fee * 1000000000) / 1000000000 <= fb / 1000000000)%Z) by (apply Z.div_le_mono; lia). lia. }
  pose proof (set_bal_sorted payer (fb - v) l Hl) as Hl1.
  split; [exact Hle|]. split; [|split].
  - rewrite bal_in_set_other by auto. rewrite bal_in_set_same by exact Hl. apply read_enc_bal; exact Dnf.
  - rewrite bal_in_set_same by exact Hl1. apply read_enc_bal; exact Dtb.
  - intros k K1 K2. unfold set_bal. rewrite !kv_lookup_spec_put by (try apply spec_put_sorted; assumption).
    destruct (key_eqb k (pkey pfx (ong_key FEE_GOV_ADDR))) eqn:E1; [apply key_eqb_eq in E1; contradiction|].
    destruct (key_eqb k (pkey pfx (ong_key payer))) eqn:E2; [apply key_eqb_eq in E2; contradiction|]. reflexivity.
Qed.

(** * Successful transactions *)

Lemma interp_sorted_ssorted ip s g o : interp_sorted ip -> ip s g = Some o -> ssorted (o_cache o).
Proof. intros H E. apply sortedb_ssorted. eapply H; eauto. Qed.

Lemma exec_part_success env tx ip s avail clg old : block_sorted s -> interp_sorted ip ->
  r_status (exec_part env tx ip s (is_charge tx) avail clg old) = StSuccess ->
  exists o, ip s (fee_exec_gas avail clg) = Some o /\ o_ok o = true /\ o_internal o = false /\
            success_commits tx s o (exec_part env tx ip s (is_charge tx) avail clg old).
Proof.
  intros BS IS. unfold exec_part. destruct (ip s (fee_exec_gas avail clg)) as [o|] eqn:Eo; [|discriminate].
  set (s1 := mkState (o_cache o) (st_overlay s) (st_store s)).
  assert (S1 : sorted_state s1).
  { destruct BS as [A B]. repeat split; simpl; auto. eapply interp_sorted_ssorted; eauto. }
  assert (A1 : abs s1 = apply_layer (o_cache o) (abs_block s)) by reflexivity.
  destruct (o_internal o) eqn:Ei; [discriminate|].
  destruct (o_ok o) eqn:Ok; cbn [negb].
  2:{ destruct (is_charge tx); [|discriminate]. unfold tuned_cost_invalid.
      unfold cost_invalid. destruct (ong_transfer _ _ _ _ _) as [f [[]|]]; discriminate. }
  intro H. exists o. split; [reflexivity|]. split; [exact Ok|]. split; [exact Ei|].
  unfold success_commits. revert H. destruct (is_charge tx).
  - destruct (get_balance s1 (t_payer tx)) as [new|]; [|discriminate].
    destruct (fee_lt_new new _).
    { unfold tuned_cost_invalid.
      unfold cost_invalid. destruct (ong_transfer _ _ _ _ _) as [f [[]|]]; discriminate. }
    cbv zeta. set (g := tune_fee _ _ _ _ _). destruct (ong_transfer _ _ _ g s1) as [s2 [e|]] eqn:E; [destruct e; discriminate|].
    intros _. destruct (ong_transfer_ok _ _ _ _ _ _ S1 E) as (S2 & [SBo SBs] & Cases).
    destruct (commit_cache_abs s2 S2) as (C1 & _ & C3 & C4 & _).
    cbn [r_state r_gas r_fee_events r_events]. split; [exact C1|]. split; [rewrite C3; exact SBs|].
    cbv zeta. split; [reflexivity|]. split; [reflexivity|]. rewrite C4, <- A1.
    destruct Cases as [[-> ->]|(Hg & _ & fb & tb & _ & Hfb & Hle & Htb & Habs)].
    + left. split; reflexivity.
    + right. split; [exact Hg|]. exists fb, tb. cbv zeta. auto.
  - intros _. destruct (commit_cache_abs s1 S1) as (C1 & _ & C3 & C4 & _).
    cbn [r_state r_gas r_fee_events r_events]. split; [exact C1|]. split; [rewrite C3; reflexivity|].
    cbv zeta. split; [reflexivity|]. split; [reflexivity|]. rewrite C4. exact A1.
Qed.

Lemma cost_invalid_not_success tx s g : r_status (cost_invalid tx s g) <> StSuccess.
Proof. unfold cost_invalid. destruct (ong_transfer _ _ _ _ _) as [f [[]|]]; discriminate. Qed.

Lemma handle_invoke_success env tx ip s : block_sorted s -> interp_sorted ip ->
  r_status (handle_invoke env tx ip s) = StSuccess ->
  exists g o, ip s g = Some o /\ o_ok o = true /\ o_internal o = false /\
              success_commits tx s o (handle_invoke env tx ip s).
Proof.
  intros BS IS.
  unfold handle_invoke. fold (is_charge tx). destruct (is_charge tx) eqn:Ec.
  - destruct (e_codegas env) as [cg|]; [|discriminate].
    destruct (get_balance _ _) as [old|]; [|discriminate].
    destruct (safe_mul _ _) as [minGas ovf1].
    destruct (fee_lt_min _ _ _); [intro H; exfalso; eapply cost_invalid_not_success; eauto|].
    destruct (safe_mul _ _) as [clGas ovf2].
    destruct (fee_lt_code _ _ _); [intro H; exfalso; eapply cost_invalid_not_success; eauto|].
    destruct (fee_lt_limit _ _); [intro H; exfalso; eapply cost_invalid_not_success; eauto|].
    intro H. rewrite <- Ec in H.
    destruct (exec_part_success _ _ _ _ _ _ _ BS IS H) as (o & Eo & Ok & Ei & SC).
    eexists _, o. split; [exact Eo|]. split; [exact Ok|]. split; [exact Ei|]. rewrite <- Ec. exact SC.
  - intro H. rewrite <- Ec in H.
    destruct (exec_part_success _ _ _ _ _ _ _ BS IS H) as (o & Eo & Ok & Ei & SC).
    eexists _, o. split; [exact Eo|]. split; [exact Ok|]. split; [exact Ei|]. rewrite <- Ec. exact SC.
Qed.

Theorem success_commits_once env tx ip s : wf_state s = true -> interp_sorted ip ->
  r_status (handle_invoke env tx ip (cache_reset s)) = StSuccess ->
  exists g o, ip (cache_reset s) g = Some o /\ o_ok o = true /\ o_internal o = false /\
              success_commits tx s o (handle_invoke env tx ip (cache_reset s)).
Proof.
  intros W IS H. apply wf_state_sorted in W.
  assert (BS : block_sorted (cache_reset s)) by (apply sorted_block_sorted, cache_reset_sorted; exact W).
  exact (handle_invoke_success env tx ip (cache_reset s) BS IS H).
Qed.

(** * Blocks: the invariant carried from transaction to transaction *)

Lemma cost_invalid_block_sorted tx s g : block_sorted s -> block_sorted (r_state (cost_invalid tx s g)).
Proof.
  intro BS. unfold cost_invalid.
  destruct (ong_transfer _ _ _ g (fresh s)) as [f [e|]] eqn:E; [destruct e; exact BS|].
  destruct (ong_transfer_ok _ _ _ _ _ _ (fresh_sorted s BS) E) as (Hf & _ & _).
  destruct (cache_commit_sorted f Hf) as (_ & Ho & _). split; [exact Ho|apply BS].
Qed.

Lemma tuned_cost_invalid_block_sorted env tx s a b c : block_sorted s ->
  block_sorted (r_state (tuned_cost_invalid env tx s a b c)).
Proof.
  intro BS. unfold tuned_cost_invalid. apply cost_invalid_block_sorted; exact BS.
Qed.

Lemma exec_part_block_sorted env tx ip s ic avail clg old : block_sorted s -> interp_sorted ip ->
  block_sorted (r_state (exec_part env tx ip s ic avail clg old)).
Proof.
  intros BS IS. unfold exec_part. destruct (ip s (fee_exec_gas avail clg)) as [o|] eqn:Eo; [|exact BS].
  set (s1 := mkState (o_cache o) (st_overlay s) (st_store s)).
  assert (S1 : sorted_state s1).
  { destruct BS as [A B]. repeat split; simpl; auto. eapply interp_sorted_ssorted; eauto. }
  assert (BS1 : block_sorted s1) by exact BS.
  destruct (o_internal o); [exact BS1|].
  destruct (negb (o_ok o)).
  - destruct ic; [apply tuned_cost_invalid_block_sorted; exact BS1|exact BS1].
  - destruct ic; [|apply sorted_block_sorted, cache_commit_sorted; exact S1].
    destruct (get_balance s1 (t_payer tx)) as [new|]; [|exact BS1].
    destruct (fee_lt_new new _); [apply tuned_cost_invalid_block_sorted; exact BS1|].
    cbv zeta. set (g := tune_fee _ _ _ _ _). destruct (ong_transfer _ _ _ g s1) as [s2 [e|]] eqn:E.
    + pose proof (ong_transfer_same_block _ _ _ _ _ _ _ E) as SB.
      destruct e; cbn [charge_failed r_state]; eapply block_sorted_same; eauto.
    + destruct (ong_transfer_ok _ _ _ _ _ _ S1 E) as (S2 & _ & _).
      apply sorted_block_sorted, cache_commit_sorted; exact S2.
Qed.

Lemma handle_invoke_block_sorted env tx ip s : block_sorted s -> interp_sorted ip ->
  block_sorted (r_state (handle_invoke env tx ip s)).
Proof.
  intros BS IS. unfold handle_invoke.
  destruct (negb (t_sys tx) && negb (t_price tx =? 0)); [|apply exec_part_block_sorted; assumption].
  destruct (e_codegas env); [|exact BS]. destruct (get_balance s (t_payer tx)); [|exact BS].
  destruct (safe_mul _ _) as [minGas ovf1].
  destruct (fee_lt_min _ _ _); [apply cost_invalid_block_sorted; exact BS|].
  destruct (safe_mul _ _) as [clGas ovf2].
  destruct (fee_lt_code _ _ _); [apply cost_invalid_block_sorted; exact BS|].
  destruct (fee_lt_limit _ _); [apply cost_invalid_block_sorted; exact BS|].
  apply exec_part_block_sorted; assumption.
Qed.

(** run_block is the fold of block_trace *)
Lemma run_block_trace env txs : forall s,
  snd (run_block env txs s) = map snd (block_trace env txs s).
Proof.
  induction txs as [|[tx ip] rest IH]; intro s; [reflexivity|].
  cbn [run_block block_trace]. destruct (stops _); [reflexivity|].
  specialize (IH (r_state (handle_invoke env tx ip (cache_reset s)))).
  destruct (run_block env rest _) as [s' rs]. cbn [snd map] in *. rewrite IH. reflexivity.
Qed.

(** every transaction of every block, whatever came before it in the block *)
Theorem block_txs_only_fee env txs : forall s, wf_state s = true ->
  Forall (fun t => interp_sorted (snd t)) txs ->
  forall tx sb r, In (tx, sb, r) (block_trace env txs s) ->
    st_cache sb = [] /\
    (r_status r = StFail -> only_fee (t_payer tx) sb r) /\
    (r_status r = StSuccess ->
       exists ip g o, In (tx, ip) txs /\ ip sb g = Some o /\ o_ok o = true /\ success_commits tx sb o r).
Proof.
  intros s W. apply wf_state_sorted, sorted_block_sorted in W. revert s W.
  induction txs as [|[tx0 ip0] rest IH]; intros s BS F tx sb r Hin; [contradiction|].
  inversion F as [|? ? IS0 F']; subst. cbn [snd] in IS0.
  assert (BS0 : block_sorted (cache_reset s)) by exact BS.
  cbn [block_trace] in Hin. destruct Hin as [E|Hin].
  - injection E as <- <- <-. split; [reflexivity|]. split.
    + apply handle_invoke_only_fee; exact BS0.
    + intro H. destruct (handle_invoke_success env tx0 ip0 _ BS0 IS0 H) as (g & o & A & B & _ & D).
      exists ip0, g, o. split; [left; reflexivity|]. auto.
  - destruct (stops _); [contradiction|].
    pose proof (handle_invoke_block_sorted env tx0 ip0 _ BS0 IS0) as BS1.
    destruct (IH _ BS1 F' tx sb r Hin) as (A & B & C). split; [exact A|]. split; [exact B|].
    intro H. destruct (C H) as (ip & g & o & I & R). exists ip, g, o. split; [right; exact I|exact R].
Qed.

(** * Arithmetic of the fee (uint64 with explicit wrap) *)

Ltac Zify.zify_post_hook ::= Z.to_euclidean_division_equations.

Lemma u64mul_small a b : a * b < two64 -> u64mul a b = a * b.
Proof. intro H. unfold u64mul. apply N.mod_small; exact H. Qed.

Lemma u64mul_comm a b : u64mul a b = u64mul b a.
Proof. unfold u64mul. rewrite N.mul_comm. reflexivity. Qed.

Lemma u64sub_le a b : b <= a -> a < two64 -> u64sub a b = a - b.
Proof. intros H1 H2. unfold u64sub, two64 in *. lia. Qed.

Lemma u64add_small a b : a + b < two64 -> u64add a b = a + b.
Proof. intro H. unfold u64add. apply N.mod_small; exact H. Qed.

Lemma u64_lt x : u64 x < two64.
Proof. unfold u64. apply N.mod_lt. discriminate. Qed.

(** ** tuneGasFeeByHeight *)

(** a zero rounding unit: the balance handed in (no division is attempted) *)
Lemma tune_fee_zero_unit h th gas cap : tune_active h th = true -> tune_fee h th gas 0 cap = cap.
Proof. unfold tune_fee. intros ->. reflexivity. Qed.

(** once rounding is active the result never exceeds the balance handed in as the cap *)
Lemma tune_fee_capped h th gas round cap :
  tune_active h th = true -> tune_fee h th gas round cap <= cap.
Proof.
  unfold tune_fee. intros ->. unfold tune_round_zero, tune_zero_ret. destruct (round =? 0); [lia|].
  destruct (tune_overflow gas round); [lia|].
  unfold tune_over_cap. destruct (N.ltb_spec cap (tune_new round (tune_t gas round))); lia.
Qed.

Lemma tune_fee_inactive h th gas round cap : tune_active h th = false -> tune_fee h th gas round cap = gas.
Proof. unfold tune_fee. intros ->. reflexivity. Qed.

(** the rounded value: the cap, or the least multiple of [round] that is >= gas *)
Lemma tune_fee_rounds h th gas round cap : gas < two64 -> round < two64 ->
  tune_active h th = true ->
  let g := tune_fee h th gas round cap in
  g = cap \/ (round <> 0 /\ g mod round = 0 /\ gas <= g /\ g < gas + round /\ g <= cap).
Proof.
  intros Hg Hr. unfold tune_fee. intros ->. cbv zeta. unfold tune_round_zero, tune_zero_ret.
  destruct (N.eqb_spec round 0) as [|Hr0]; [left; reflexivity|].
  unfold tune_overflow. destruct (N.ltb_spec (u64sub max_u64 round) gas); [left; reflexivity|].
  assert (Hsum : gas + round <= max_u64).
  { rewrite u64sub_le in H by (unfold max_u64, two64 in *; lia). unfold max_u64, two64 in *. lia. }
  unfold tune_over_cap. destruct (N.ltb_spec cap (tune_new round (tune_t gas round))); [left; reflexivity|].
  right. split; [exact Hr0|]. unfold tune_new, tune_t in *.
  rewrite u64add_small in * by (unfold max_u64, two64 in *; lia).
  rewrite (u64sub_le (gas + round) 1) in * by (unfold max_u64, two64 in *; lia).
  unfold u64div in *. set (q := (gas + round - 1) / round) in *.
  assert (Hq : round * q <= gas + round - 1) by (subst q; apply N.mul_div_le; exact Hr0).
  assert (Hq2 : gas + round - 1 < round * q + round).
  { subst q. pose proof (N.mod_lt (gas + round - 1) round Hr0). pose proof (N.div_mod (gas + round - 1) round Hr0). lia. }
  rewrite u64mul_small in * by (unfold max_u64, two64 in *; lia).
  split; [rewrite N.mul_comm; apply N.mod_mul; exact Hr0|]. lia.
Qed.

(** ** the rounding unit GasPrice * MIN_TRANSACTION_GAS wraps to 0 exactly on the multiples of 2^59 *)
Lemma round_zero_iff price : price < two64 ->
  (fee_fail_round price = 0 <-> price mod 576460752303423488 = 0).
Proof.
  intro Hp. unfold fee_fail_round, u64mul, FEE_MIN_TRANSACTION_GAS.
  rewrite !N.mod_divide by discriminate. split.
  - intros [q Hq]. apply N.gauss with (m := 625); [|reflexivity].
    exists q. unfold two64 in Hq. lia.
  - intros [k ->]. exists (625 * k). unfold two64. lia.
Qed.

Lemma rounds_agree price : fee_insuf_round price = fee_fail_round price /\ fee_ok_round price = fee_fail_round price.
Proof. unfold fee_insuf_round, fee_ok_round, fee_fail_round. auto. Qed.

(** ** common.SafeMul: the wrapped product and whether the exact product needs more than 64 bits *)
Lemma u64mul_lt a b : u64mul a b < two64.
Proof. unfold u64mul. apply N.mod_lt. discriminate. Qed.

Lemma safe_mul_spec x y : x < two64 -> y < two64 -> safe_mul x y = (u64mul x y, two64 <=? x * y).
Proof.
  intros Hx Hy. unfold safe_mul, safemul_zero, safemul_zero_val, safemul_zero_ovf, safemul_val, safemul_ovf, u64div.
  destruct (N.eqb_spec x 0) as [->|Hx0]; cbn [orb].
  { rewrite N.mul_0_l. reflexivity. }
  destruct (N.eqb_spec y 0) as [->|Hy0]; cbn [orb].
  { rewrite N.mul_0_r. unfold u64mul. rewrite N.mul_0_r. reflexivity. }
  f_equal. destruct (N.leb_spec two64 (x * y)) as [H|H].
  - apply N.ltb_lt. apply N.div_lt_upper_bound; [exact Hx0|]. unfold max_u64, two64 in *. lia.
  - apply N.ltb_ge. apply N.div_le_lower_bound; [exact Hx0|]. unfold max_u64, two64 in *. lia.
Qed.


(** * Panics *)

Lemma cost_invalid_req tx s g : r_req (cost_invalid tx s g) = Some g.
Proof. unfold cost_invalid. destruct (ong_transfer _ _ _ _ _) as [f [[]|]]; reflexivity. Qed.

(** the only panic left in the handler is the storage writer's ("too large token balance"), which
    happens inside a charge: there is no panic without a charge request *)
Lemma handle_invoke_panic env tx ip s :
  r_status (handle_invoke env tx ip s) = StPanic -> r_req (handle_invoke env tx ip s) <> None.
Proof.
  unfold handle_invoke. destruct (negb (t_sys tx) && negb (t_price tx =? 0)).
  - destruct (e_codegas env); [|discriminate]. destruct (get_balance s _); [|discriminate].
    destruct (safe_mul _ _) as [minGas ovf1].
    destruct (fee_lt_min _ _ _); [rewrite cost_invalid_req; discriminate|].
    destruct (safe_mul _ _) as [clGas ovf2].
    destruct (fee_lt_code _ _ _); [rewrite cost_invalid_req; discriminate|].
    destruct (fee_lt_limit _ _); [rewrite cost_invalid_req; discriminate|].
    unfold exec_part. destruct (ip s _) as [o|]; [|discriminate]. destruct (o_internal o); [discriminate|].
    destruct (negb (o_ok o)); [unfold tuned_cost_invalid; rewrite cost_invalid_req; discriminate|].
    destruct (get_balance _ _); [|discriminate].
    destruct (fee_lt_new _ _); [unfold tuned_cost_invalid; rewrite cost_invalid_req; discriminate|].
    cbv zeta. destruct (ong_transfer _ _ _ _ _) as [s2 [[]|]]; discriminate.
  - unfold exec_part. destruct (ip s _) as [o|]; [|discriminate]. destruct (o_internal o); [discriminate|].
    destruct (negb (o_ok o)); discriminate.
Qed.

(** a charged failing transaction whose rounding unit wrapped to 0 (GasPrice a multiple of 2^59) is
    asked for the balance the handler read before execution *)
Lemma round_zero_asks_balance env tx s gas cap :
  tune_active (e_height env) (e_tune env) = true ->
  tuned_cost_invalid env tx s gas 0 cap = cost_invalid tx s cap.
Proof. intro A. unfold tuned_cost_invalid. rewrite tune_fee_zero_unit by exact A. reflexivity. Qed.

(** * The amount asked for never exceeds what the payer has, when nothing wraps *)

Lemma get_balance_u64 s a old : get_balance s a = Some old -> old < two64.
Proof. unfold get_balance. destruct (balance_at s a); [|discriminate]. intro E; injection E as <-. apply u64_lt. Qed.

Lemma cost_gas_le_old price limit clg old left :
  price <> 0 -> old < two64 -> limit < two64 ->
  FEE_MIN_TRANSACTION_GAS * price <= old -> clg * price <= old -> clg <= limit ->
  let avail := if fee_ava_gt limit (fee_max_ava old price) then fee_max_ava old price else limit in
  left <= fee_exec_gas avail clg ->
  let cgl0 := fee_cost_limit avail left in
  fee_cost_gas (if fee_cost_lt_min cgl0 then fee_cost_floor else cgl0) price <= old.
Proof.
  intros Hp Ho Hl Hmin Hclg Hcl. cbv zeta.
  unfold fee_ava_gt, fee_max_ava, u64div.
  assert (Hm : old / price * price <= old) by (rewrite N.mul_comm; apply N.mul_div_le; exact Hp).
  assert (Hc : clg <= old / price) by (apply N.div_le_lower_bound; [exact Hp|rewrite N.mul_comm; exact Hclg]).
  set (avail := if old / price <? limit then old / price else limit).
  assert (Ha : avail <= old / price /\ avail <= limit /\ clg <= avail).
  { subst avail. destruct (N.ltb_spec (old / price) limit); lia. }
  destruct Ha as (Ha1 & Ha2 & Ha3).
  unfold fee_exec_gas, fee_cost_limit. rewrite (u64sub_le avail clg) by lia. intro Hleft.
  rewrite (u64sub_le avail left) by lia.
  unfold fee_cost_lt_min, fee_cost_floor, fee_cost_gas.
  assert (Hap : avail * price <= old) by nia.
  destruct (N.ltb_spec (avail - left) FEE_MIN_TRANSACTION_GAS).
  - rewrite u64mul_small by lia. exact Hmin.
  - assert ((avail - left) * price <= avail * price) by (apply N.mul_le_mono_r; lia).
    rewrite u64mul_small by lia. lia.
Qed.

(** The pre-checks of a charged transaction, now that both products are overflow-checked: the
    handler charges the whole balance, or GasLimit*GasPrice (exact, below codeLenGas*GasPrice), or it
    runs the script knowing that MIN_TRANSACTION_GAS*GasPrice and codeLenGas*GasPrice are exact and
    covered by the balance and that codeLenGas <= GasLimit. For ALL gas prices. *)
Lemma handle_invoke_charged env tx ip s cg old :
  is_charge tx = true -> e_codegas env = Some cg -> get_balance s (t_payer tx) = Some old -> t_price tx < two64 ->
  let clg := code_len_gas (t_codelen tx) cg in
  let avail := if fee_ava_gt (t_limit tx) (fee_max_ava old (t_price tx)) then fee_max_ava old (t_price tx) else t_limit tx in
  handle_invoke env tx ip s = cost_invalid tx s old \/
  (t_limit tx < clg /\ clg * t_price tx <= old /\ handle_invoke env tx ip s = cost_invalid tx s (t_limit tx * t_price tx)) \/
  (FEE_MIN_TRANSACTION_GAS * t_price tx <= old /\ clg * t_price tx <= old /\ clg <= t_limit tx /\
   handle_invoke env tx ip s = exec_part env tx ip s true avail clg old).
Proof.
  intros Hc Hcg Hold Hp. cbv zeta.
  pose proof (get_balance_u64 _ _ _ Hold) as Ho.
  unfold handle_invoke. fold (is_charge tx). rewrite Hc, Hcg, Hold.
  unfold fee_min_a, fee_min_b. rewrite safe_mul_spec by (try exact Hp; reflexivity).
  unfold fee_lt_min. destruct (N.leb_spec two64 (FEE_MIN_TRANSACTION_GAS * t_price tx)) as [|W1]; cbn [orb].
  { left. reflexivity. }
  rewrite (u64mul_small _ _ W1).
  destruct (N.ltb_spec old (FEE_MIN_TRANSACTION_GAS * t_price tx)) as [|Hmin]; [left; reflexivity|].
  set (clg := code_len_gas (t_codelen tx) cg).
  assert (Hclg2 : clg < two64) by (unfold clg, code_len_gas; apply u64mul_lt).
  unfold fee_code_a, fee_code_b. rewrite safe_mul_spec by assumption.
  unfold fee_lt_code. destruct (N.leb_spec two64 (clg * t_price tx)) as [|W3]; cbn [orb].
  { left. reflexivity. }
  rewrite (u64mul_small _ _ W3).
  destruct (N.ltb_spec old (clg * t_price tx)) as [|Hclg]; [left; reflexivity|].
  unfold fee_lt_limit. destruct (N.ltb_spec (t_limit tx) clg) as [Hlt|Hcl].
  - right. left. split; [exact Hlt|]. split; [exact Hclg|]. unfold fee_charge_limit.
    assert (t_limit tx * t_price tx <= clg * t_price tx) by (apply N.mul_le_mono_r; lia).
    rewrite u64mul_small by lia. reflexivity.
  - right. right. auto.
Qed.

Lemma is_charge_price tx : is_charge tx = true -> t_price tx <> 0.
Proof.
  unfold is_charge. intro Hc. apply andb_true_iff in Hc. destruct Hc as [_ Hc].
  destruct (N.eqb_spec (t_price tx) 0); [discriminate|assumption].
Qed.

(** with those facts nothing else can wrap: the gas handed to the engine is avail - codeLenGas with
    codeLenGas <= avail <= GasLimit, and (for sc.Gas <= that gas) costGasLimit = avail - sc.Gas or the
    floor, costGas = costGasLimit * GasPrice exactly, at most the balance; the rounding unit
    GasPrice * MIN_TRANSACTION_GAS is exact too. *)
Lemma exec_arith_exact price limit clg old left :
  price <> 0 -> old < two64 -> limit < two64 ->
  FEE_MIN_TRANSACTION_GAS * price <= old -> clg * price <= old -> clg <= limit ->
  let avail := if fee_ava_gt limit (fee_max_ava old price) then fee_max_ava old price else limit in
  clg <= avail /\ avail <= limit /\ fee_exec_gas avail clg = avail - clg /\
  fee_fail_round price = price * FEE_MIN_TRANSACTION_GAS /\
  (left <= fee_exec_gas avail clg ->
   let cgl0 := fee_cost_limit avail left in
   let cgl := if fee_cost_lt_min cgl0 then fee_cost_floor else cgl0 in
   cgl0 = avail - left /\ fee_cost_gas cgl price = cgl * price /\ cgl * price <= old).
Proof.
  intros Hp Ho Hl Hmin Hclg Hcl. cbv zeta.
  unfold fee_ava_gt, fee_max_ava, u64div.
  assert (Hm : old / price * price <= old) by (rewrite N.mul_comm; apply N.mul_div_le; exact Hp).
  assert (Hc : clg <= old / price) by (apply N.div_le_lower_bound; [exact Hp|rewrite N.mul_comm; exact Hclg]).
  set (avail := if old / price <? limit then old / price else limit).
  assert (Ha : avail <= old / price /\ avail <= limit /\ clg <= avail).
  { subst avail. destruct (N.ltb_spec (old / price) limit); lia. }
  destruct Ha as (Ha1 & Ha2 & Ha3).
  split; [exact Ha3|]. split; [exact Ha2|].
  unfold fee_exec_gas, fee_cost_limit. rewrite (u64sub_le avail clg) by lia. split; [reflexivity|].
  split; [unfold fee_fail_round; apply u64mul_small; rewrite N.mul_comm; lia|].
  intro Hleft. rewrite (u64sub_le avail left) by lia. split; [reflexivity|].
  unfold fee_cost_lt_min, fee_cost_floor, fee_cost_gas.
  assert (Hap : avail * price <= old) by nia.
  destruct (N.ltb_spec (avail - left) FEE_MIN_TRANSACTION_GAS).
  - rewrite u64mul_small by lia. split; [reflexivity|exact Hmin].
  - assert ((avail - left) * price <= avail * price) by (apply N.mul_le_mono_r; lia).
    rewrite u64mul_small by lia. split; [reflexivity|lia].
Qed.

Lemma cost_invalid_not_noprobe tx s g : r_status (cost_invalid tx s g) <> StNoProbe.
Proof. unfold cost_invalid. destruct (ong_transfer _ _ _ _ _) as [f [[]|]]; discriminate. Qed.

(** the gas handed to the engine never exceeds GasLimit (no underflow of
    availableGasLimit - codeLenGasLimit), for every gas price *)
Theorem engine_gas_within_limit env tx s g :
  t_limit tx < two64 -> t_price tx < two64 ->
  r_status (handle_invoke env tx (fun _ _ => None) s) = StNoProbe ->
  r_req (handle_invoke env tx (fun _ _ => None) s) = Some g -> g <= t_limit tx.
Proof.
  intros Hl Hp. destruct (is_charge tx) eqn:Hc.
  - destruct (e_codegas env) as [cg|] eqn:Hcg.
    2:{ unfold handle_invoke. fold (is_charge tx). rewrite Hc, Hcg. discriminate. }
    destruct (get_balance s (t_payer tx)) as [old|] eqn:Hold.
    2:{ unfold handle_invoke. fold (is_charge tx). rewrite Hc, Hcg, Hold. discriminate. }
    destruct (handle_invoke_charged env tx (fun _ _ => None) s cg old Hc Hcg Hold Hp) as [E|[(_ & _ & E)|(Hmin & Hclg & Hcl & E)]];
      rewrite E; try solve [intro H; exfalso; eapply cost_invalid_not_noprobe; exact H].
    unfold exec_part. cbv beta iota delta [r_status r_req]. intros _ Eg. injection Eg as <-.
    destruct (exec_arith_exact (t_price tx) (t_limit tx) (code_len_gas (t_codelen tx) cg) old 0
                (is_charge_price tx Hc) (get_balance_u64 _ _ _ Hold) Hl Hmin Hclg Hcl) as (A & B & C & _).
    rewrite C. lia.
  - unfold handle_invoke. fold (is_charge tx). rewrite Hc. unfold exec_part. cbv beta iota delta [r_status r_req].
    intros _ Eg. injection Eg as <-. unfold fee_exec_gas. rewrite u64sub_le by lia. lia.
Qed.

Theorem req_le_balance env tx ip s cg old g :
  is_charge tx = true -> e_codegas env = Some cg -> t_limit tx < two64 -> t_price tx < two64 ->
  interp_gas_ok ip -> get_balance s (t_payer tx) = Some old ->
  r_status (handle_invoke env tx ip s) = StFail -> r_req (handle_invoke env tx ip s) = Some g ->
  g <= old \/
  (exists gas o new, ip s gas = Some o /\ o_ok o = true /\
     get_balance (mkState (o_cache o) (st_overlay s) (st_store s)) (t_payer tx) = Some new /\ g <= new).
Proof.
  intros Hc Hcg Hl Hpr GO Hold.
  pose proof (get_balance_u64 _ _ _ Hold) as Ho.
  pose proof (is_charge_price tx Hc) as Hp.
  destruct (handle_invoke_charged env tx ip s cg old Hc Hcg Hold Hpr) as [E|[(Hlt & Hclg & E)|(Hmin & Hclg & Hcl & E)]]; rewrite E; clear E.
  { rewrite cost_invalid_req. intros _ E; injection E as <-. left. lia. }
  { rewrite cost_invalid_req. intros _ E; injection E as <-. left.
    assert (t_limit tx * t_price tx <= code_len_gas (t_codelen tx) cg * t_price tx) by (apply N.mul_le_mono_r; lia). lia. }
  set (clg := code_len_gas (t_codelen tx) cg) in *.
  set (avail := if fee_ava_gt (t_limit tx) (fee_max_ava old (t_price tx)) then fee_max_ava old (t_price tx) else t_limit tx).
  unfold exec_part. destruct (ip s (fee_exec_gas avail clg)) as [o|] eqn:Eo; [|discriminate].
  pose proof (GO _ _ _ Eo) as Hleft.
  pose proof (cost_gas_le_old (t_price tx) (t_limit tx) clg old (o_left o) Hp Ho Hl Hmin Hclg Hcl Hleft) as Hcost.
  cbv zeta in Hcost. fold avail in Hcost.
  set (costGas := fee_cost_gas _ (t_price tx)) in *.
  assert (T : forall s' cap, cap <= old ->
     r_status (tuned_cost_invalid env tx s' costGas (fee_fail_round (t_price tx)) cap) = StFail ->
     r_req (tuned_cost_invalid env tx s' costGas (fee_fail_round (t_price tx)) cap) = Some g -> g <= old).
  { intros s' cap Hcap. unfold tuned_cost_invalid.
    rewrite cost_invalid_req. intros _ E; injection E as <-.
    destruct (tune_active (e_height env) (e_tune env)) eqn:Ea.
    - pose proof (tune_fee_capped _ _ costGas (fee_fail_round (t_price tx)) cap Ea). lia.
    - rewrite tune_fee_inactive by exact Ea. exact Hcost. }
  destruct (rounds_agree (t_price tx)) as (R1 & R2).
  destruct (o_internal o); [discriminate|]. destruct (o_ok o) eqn:Ok; cbv beta iota delta [negb].
  2:{ intros A B. left. apply (T _ _ (N.le_refl old) A B). }
  destruct (get_balance (mkState (o_cache o) (st_overlay s) (st_store s)) (t_payer tx)) as [new|] eqn:En; [|discriminate].
  unfold fee_lt_new, fee_insuf_gas, fee_insuf_cap. destruct (N.ltb_spec new costGas) as [|Hn].
  { rewrite R1. intros A B. left. apply (T _ _ (N.le_refl old) A B). }
  unfold fee_ok_gas, fee_ok_cap. cbv zeta. set (g' := tune_fee _ _ _ _ new).
  destruct (ong_transfer _ _ _ g' _) as [s2 [e|]]; [|discriminate].
  intros A B. right. exists (fee_exec_gas avail clg), o, new. split; [exact Eo|]. split; [exact Ok|]. split; [exact En|].
  assert (g = g') by (destruct e; cbn [charge_failed r_req] in B; congruence). subst g.
  subst g'. destruct (tune_active (e_height env) (e_tune env)) eqn:Ea.
  - apply tune_fee_capped; exact Ea.
  - rewrite tune_fee_inactive by exact Ea. exact Hn.
Qed.

(** * The charge cannot fail when the payer signed, has the amount, and the records are sane *)

Lemma balance_to_bytes_domain b : balance_in_domain b -> exists raw, balance_to_bytes b = Some raw.
Proof. intro D. destruct (balance_bytes_roundtrip b D) as [raw [E _]]. eauto. Qed.

Lemma ong_transfer_succeeds from to amt s fb tb : sorted_state s -> from <> to ->
  let v := (Z.of_N amt * ScaleFactor)%Z in
  bal_in (abs s) from = Some fb -> bal_in (abs s) to = Some tb ->
  (v <= fb)%Z -> (v <= FEE_ONG_TOTAL_SUPPLY_V2)%Z ->
  balance_in_domain fb -> balance_in_domain (tb + v) ->
  exists s', ong_transfer true from to amt s = (s', None).
Proof.
  intros Hs Hn v Hfb Htb Hle Hsup Dfb Dtb. unfold ong_transfer.
  destruct (amt =? 0); [eauto|]. fold v.
  destruct (Z.ltb_spec FEE_ONG_TOTAL_SUPPLY_V2 v); [lia|]. cbn [negb].
  rewrite balance_at_abs by exact Hs. rewrite Hfb. destruct (Z.ltb_spec fb v); [lia|].
  assert (Dnf : balance_in_domain (fb - v)).
  { pose proof (read_balance_nonneg _ _ Htb). unfold balance_in_domain, ScaleFactor, two64Z in *.
    destruct Dfb. split; [lia|].
    assert (((fb - v) / 1000000000 <= fb / 1000000000)%Z) by (apply Z.div_le_mono; unfold v, ScaleFactor; lia). lia. }
  set (s1 := if (_ =? 0)%Z then _ else _).
  assert (H1 : exists x, s1 = Some x /\ sorted_state x /\ abs x = set_bal from (fb - v) (abs s)).
  { subst s1. destruct (Z.eqb_spec (fb - v) 0) as [Ez|Ez].
    - eexists. split; [reflexivity|]. split; [apply cache_delete_sorted; exact Hs|].
      destruct (cache_delete_refines pfx (ong_key from) s Hs) as [A _]. rewrite A.
      unfold set_bal, enc_bal. rewrite Ez. reflexivity.
    - destruct (balance_to_bytes_domain _ Dnf) as [raw Er]. rewrite Er. eexists. split; [reflexivity|].
      split; [apply cache_put_sorted; exact Hs|].
      destruct (cache_put_refines pfx (ong_key from) raw s Hs) as [A _]. rewrite A.
      unfold set_bal. rewrite (enc_bal_some _ _ Ez Er). reflexivity. }
  destruct H1 as (x & -> & Hx & Ax).
  rewrite balance_at_abs by exact Hx. rewrite Ax.
  rewrite bal_in_set_other by (try apply abs_sorted; auto). rewrite Htb.
  destruct (balance_to_bytes_domain _ Dtb) as [raw Er]. rewrite Er. eauto.
Qed.

(** costInvalidGas collects exactly what it was asked to collect *)
Theorem cost_invalid_pays tx s g fb tb : block_sorted s -> t_signed tx = true -> t_payer tx <> FEE_GOV_ADDR ->
  let v := (Z.of_N g * ScaleFactor)%Z in
  bal_in (abs_block s) (t_payer tx) = Some fb -> bal_in (abs_block s) FEE_GOV_ADDR = Some tb ->
  (v <= fb)%Z -> (v <= FEE_ONG_TOTAL_SUPPLY_V2)%Z -> balance_in_domain fb -> balance_in_domain (tb + v) ->
  r_status (cost_invalid tx s g) = StFail /\ r_gas (cost_invalid tx s g) = g.
Proof.
  intros BS Sg Hn v Hfb Htb Hle Hsup Dfb Dtb. unfold cost_invalid. rewrite Sg.
  rewrite <- abs_fresh in Hfb, Htb.
  destruct (ong_transfer_succeeds _ _ g _ fb tb (fresh_sorted s BS) Hn Hfb Htb Hle Hsup Dfb Dtb) as [s' E].
  rewrite E. split; reflexivity.
Qed.
