(** Proofs for C05 (Model/Fee.v, Model/FeeSpec.v): a failed transaction changes the block state by
    the fee only; a successful one commits its writes once; the arithmetic envelope of the fee. *)
From Coq Require Import List Bool NArith ZArith Lia ZifyN ZifyBool.
Import ListNotations.
From Ont Require Import Lib.Bytes Lib.U64 Model.KV Model.NeoInt Proofs.KV Proofs.NeoInt
  Gen.FeeConsts Gen.FeeFormulas Model.Fee Model.FeeSpec.
Local Open Scope N_scope.

(** the generated scale is the one Model/NeoInt.v uses (re-checked when Gen/FeeConsts.v changes) *)
Lemma fee_scale_ok : FEE_SCALE = ScaleFactor.
Proof. reflexivity. Qed.

(** * Reading balances *)

Lemma balance_of_item_nonneg it b : balance_of_item it = inl b -> (0 <= b)%Z.
Proof.
  unfold balance_of_item. destruct (state_version it =? DefaultVersion).
  - destruct (nv_take 8 (item_value it)) as [[x r]|]; [|discriminate].
    intro E. injection E as <-. unfold ScaleFactor. lia.
  - destruct (Z.ltb_spec (Z_of_neo (item_value it)) 0); [discriminate|].
    intro E. injection E as <-. assumption.
Qed.

Lemma read_balance_nonneg raw b : read_balance raw = Some b -> (0 <= b)%Z.
Proof.
  unfold read_balance. destruct raw as [|x raw]; [intro E; injection E as <-; lia|].
  unfold balance_of_bytes. destruct (item_of_bytes (x :: raw)) as [[it rest]|e]; [|discriminate].
  destruct (balance_of_item it) as [b'|e] eqn:E; [|discriminate].
  intro E'. injection E' as <-. eapply balance_of_item_nonneg; eauto.
Qed.

Lemma balance_at_abs s a : sorted_state s -> balance_at s a = bal_in (abs s) a.
Proof. intro H. unfold balance_at, bal_in. rewrite cache_get_refines by exact H. reflexivity. Qed.

Lemma balance_to_bytes_nonempty b raw : balance_to_bytes b = Some raw -> raw <> [].
Proof.
  unfold balance_to_bytes. destruct (balance_to_item b); [|discriminate].
  intro E. injection E as <-. unfold item_to_bytes. cbn [app]. discriminate.
Qed.

Lemma enc_bal_some b raw : b <> 0%Z -> balance_to_bytes b = Some raw -> enc_bal b = raw.
Proof.
  intros Hb E. unfold enc_bal. destruct (Z.eqb_spec b 0); [contradiction|]. rewrite E. reflexivity.
Qed.

(** the stored form reads back (on the domain the C21 round-trip theorem covers) *)
Lemma read_enc_bal b : balance_in_domain b -> read_balance (enc_bal b) = Some b.
Proof.
  intro D. unfold enc_bal. destruct (Z.eqb_spec b 0) as [->|Hb]; [reflexivity|].
  destruct (balance_bytes_roundtrip b D) as [raw [E R]]. rewrite E.
  specialize (R []). rewrite app_nil_r in R. unfold read_balance.
  destruct raw as [|x raw]; [exfalso; eapply balance_to_bytes_nonempty; eauto|]. rewrite R. reflexivity.
Qed.

(** * The ONG transfer *)

Definition same_block (s s' : state) : Prop := st_overlay s' = st_overlay s /\ st_store s' = st_store s.

Lemma same_block_refl s : same_block s s. Proof. split; reflexivity. Qed.
Lemma same_block_trans a b c : same_block a b -> same_block b c -> same_block a c.
Proof. intros [A B] [C D]. split; congruence. Qed.

Lemma same_block_abs_block s s' : same_block s s' -> abs_block s' = abs_block s.
Proof. intros [A B]. unfold abs_block. rewrite A, B. reflexivity. Qed.

Lemma same_block_sorted s s' : same_block s s' -> ssorted (st_cache s') -> sorted_state s -> sorted_state s'.
Proof. intros [A B] Hc (_ & Ho & Hs). repeat split; [exact Hc|rewrite A; exact Ho|rewrite B; exact Hs]. Qed.

(** the transfer never touches the block overlay or the store, whatever it returns *)
Lemma ong_transfer_same_block signed from to amt s s' e :
  ong_transfer signed from to amt s = (s', e) -> same_block s s'.
Proof.
  unfold ong_transfer. destruct (amt =? 0); [intro E; injection E as <- _; apply same_block_refl|].
  destruct (_ <? _)%Z; [intro E; injection E as <- _; apply same_block_refl|].
  destruct (negb signed); [intro E; injection E as <- _; apply same_block_refl|].
  destruct (balance_at s from) as [fb|]; [|intro E; injection E as <- _; apply same_block_refl].
  destruct (_ <? _)%Z; [intro E; injection E as <- _; apply same_block_refl|].
  set (s1 := if (_ =? 0)%Z then _ else _).
  assert (H1 : forall x, s1 = Some x -> same_block s x).
  { subst s1. intros x. destruct (_ =? 0)%Z.
    - intro E; injection E as <-. split; reflexivity.
    - destruct (balance_to_bytes _); [|discriminate]. intro E; injection E as <-. split; reflexivity. }
  destruct s1 as [x|]; [|intro E; injection E as <- _; apply same_block_refl].
  specialize (H1 x eq_refl).
  destruct (balance_at x to) as [tb|]; [|intro E; injection E as <- _; exact H1].
  destruct (balance_to_bytes _); intro E; injection E as <- _; [|exact H1].
  eapply same_block_trans; [exact H1|]. split; reflexivity.
Qed.

(** a successful transfer, on the ordered-map view of the state it ran on *)
Lemma ong_transfer_ok signed from to amt s s' : sorted_state s ->
  ong_transfer signed from to amt s = (s', None) ->
  sorted_state s' /\ same_block s s' /\
  ((amt = 0 /\ s' = s) \/
   (amt <> 0 /\ signed = true /\ exists fb tb : Z,
      let v := (Z.of_N amt * ScaleFactor)%Z in
      (v <= FEE_ONG_TOTAL_SUPPLY_V2)%Z /\
      bal_in (abs s) from = Some fb /\ (v <= fb)%Z /\
      bal_in (set_bal from (fb - v) (abs s)) to = Some tb /\
      abs s' = set_bal to (tb + v) (set_bal from (fb - v) (abs s)))).
Proof.
  intros Hs E. split; [|split; [eapply ong_transfer_same_block; eauto|]].
  - (* sortedness *)
    revert E. unfold ong_transfer. destruct (amt =? 0); [intro E; injection E as <-; exact Hs|].
    destruct (_ <? _)%Z; [discriminate|]. destruct (negb signed); [discriminate|].
    destruct (balance_at s from) as [fb|]; [|discriminate]. destruct (_ <? _)%Z; [discriminate|].
    set (s1 := if (_ =? 0)%Z then _ else _).
    assert (H1 : forall x, s1 = Some x -> sorted_state x).
    { subst s1. intros x. destruct (_ =? 0)%Z.
      - intro E; injection E as <-. apply cache_delete_sorted; exact Hs.
      - destruct (balance_to_bytes _); [|discriminate]. intro E; injection E as <-. apply cache_put_sorted; exact Hs. }
    destruct s1 as [x|]; [|discriminate]. specialize (H1 x eq_refl).
    destruct (balance_at x to); [|discriminate]. destruct (balance_to_bytes _); [|discriminate].
    intro E; injection E as <-. apply cache_put_sorted; exact H1.
  - revert E. unfold ong_transfer. destruct (N.eqb_spec amt 0) as [->|Hamt]; [intro E; injection E as <-; left; split; reflexivity|].
    destruct (Z.ltb_spec FEE_ONG_TOTAL_SUPPLY_V2 (Z.of_N amt * ScaleFactor)); [discriminate|].
    destruct signed; cbn [negb]; [|discriminate].
    rewrite balance_at_abs by exact Hs.
    destruct (bal_in (abs s) from) as [fb|] eqn:Efb; [|discriminate].
    destruct (Z.ltb_spec fb (Z.of_N amt * ScaleFactor)); [discriminate|].
    set (v := (Z.of_N amt * ScaleFactor)%Z) in *.
    set (s1 := if (_ =? 0)%Z then _ else _).
    assert (H1 : forall x, s1 = Some x -> sorted_state x /\ abs x = set_bal from (fb - v) (abs s)).
    { subst s1. intros x. destruct (Z.eqb_spec (fb - v) 0) as [Ez|Ez].
      - intro E; injection E as <-. split; [apply cache_delete_sorted; exact Hs|].
        destruct (cache_delete_refines pfx (ong_key from) s Hs) as [A _]. rewrite A.
        unfold set_bal, enc_bal. rewrite Ez. reflexivity.
      - destruct (balance_to_bytes (fb - v)) as [raw|] eqn:Er; [|discriminate]. intro E; injection E as <-.
        split; [apply cache_put_sorted; exact Hs|].
        destruct (cache_put_refines pfx (ong_key from) raw s Hs) as [A _]. rewrite A.
        unfold set_bal. rewrite (enc_bal_some _ _ Ez Er). reflexivity. }
    destruct s1 as [x|]; [|discriminate]. destruct (H1 x eq_refl) as [Hx Ax].
    rewrite balance_at_abs by exact Hx. rewrite Ax.
    destruct (bal_in (set_bal from (fb - v) (abs s)) to) as [tb|] eqn:Etb; [|discriminate].
    destruct (balance_to_bytes (tb + v)) as [raw|] eqn:Er; [|discriminate].
    intro E; injection E as <-. right. split; [exact Hamt|]. split; [reflexivity|].
    exists fb, tb. cbv zeta. fold v. split; [assumption|]. split; [reflexivity|]. split; [assumption|]. split; [exact Etb|].
    destruct (cache_put_refines pfx (ong_key to) raw x Hx) as [A _]. rewrite A, Ax.
    assert (Henc : enc_bal (tb + v) = raw).
    { apply enc_bal_some; [|exact Er]. pose proof (read_balance_nonneg _ _ Etb). unfold v, ScaleFactor. lia. }
    rewrite <- Henc. reflexivity.
Qed.

(** * Failed transactions *)

Definition block_sorted (s : state) : Prop := ssorted (st_overlay s) /\ ssorted (st_store s).

Lemma sorted_block_sorted s : sorted_state s -> block_sorted s.
Proof. intros (_ & A & B). split; assumption. Qed.

Lemma block_sorted_same s s' : same_block s s' -> block_sorted s -> block_sorted s'.
Proof. intros [A B] [C D]. split; [rewrite A|rewrite B]; assumption. Qed.

Lemma fresh_sorted s : block_sorted s -> sorted_state (fresh s).
Proof. intros [A B]. repeat split; simpl; auto. Qed.

Lemma abs_fresh s : abs (fresh s) = abs_block s.
Proof. exact (proj2 (proj2 (reset_abs s))). Qed.

Lemma fee_events_0 : fee_events 0 = [].
Proof. reflexivity. Qed.

(** a failure that charges nothing *)
Lemma nocharge_only_fee payer s0 s req : same_block s0 s ->
  only_fee payer s0 (mkRes s StFail 0 [] 0 req).
Proof.
  intros SB. unfold only_fee. cbn [r_state r_gas r_fee_events r_events].
  split; [apply SB|]. split; [reflexivity|]. split; [reflexivity|].
  left. split; [reflexivity|]. apply same_block_abs_block; exact SB.
Qed.

Lemma charge_failed_only_fee payer s0 s e g : same_block s0 s ->
  r_status (charge_failed e s g) = StFail -> only_fee payer s0 (charge_failed e s g).
Proof.
  intros SB. destruct e; cbn [charge_failed r_status]; intro H; try discriminate; apply nocharge_only_fee; exact SB.
Qed.

(** costInvalidGas *)
Lemma cost_invalid_only_fee tx s0 s g : block_sorted s -> same_block s0 s ->
  r_status (cost_invalid tx s g) = StFail ->
  only_fee (t_payer tx) s0 (cost_invalid tx s g) /\ r_req (cost_invalid tx s g) = Some g.
Proof.
  intros BS SB. unfold cost_invalid.
  destruct (ong_transfer (t_signed tx) (t_payer tx) FEE_GOV_ADDR g (fresh s)) as [f [e|]] eqn:E.
  - intro H. split; [apply charge_failed_only_fee; assumption|]. destruct e; reflexivity.
  - intros _. split; [|reflexivity].
    destruct (ong_transfer_ok _ _ _ _ _ _ (fresh_sorted s BS) E) as (Hf & SBf & Cases).
    destruct (commit_cache_abs f Hf) as (_ & _ & Hst & Hab & _).
    unfold only_fee. cbn [r_state r_gas r_fee_events r_events st_store].
    split; [apply SB|]. split; [reflexivity|]. split; [reflexivity|].
    assert (Eab : abs_block (mkState (st_cache s) (st_overlay (cache_commit f)) (st_store s)) = abs f).
    { rewrite <- Hab. unfold abs_block. cbn [st_overlay st_store]. rewrite Hst.
      destruct SBf as [_ S2]. rewrite S2. reflexivity. }
    rewrite Eab. rewrite <- (same_block_abs_block _ _ SB).
    destruct Cases as [[-> ->]|(Hg & _ & fb & tb & _ & Hfb & Hle & Htb & Habs)].
    + left. split; [reflexivity|]. apply abs_fresh.
    + right. split; [exact Hg|]. exists fb, tb. cbv zeta. rewrite abs_fresh in *. auto.
Qed.

Lemma tuned_cost_invalid_only_fee env tx s0 s gas round cap : block_sorted s -> same_block s0 s ->
  r_status (tuned_cost_invalid env tx s gas round cap) = StFail ->
  only_fee (t_payer tx) s0 (tuned_cost_invalid env tx s gas round cap).
Proof.
  intros BS SB. unfold tuned_cost_invalid. destruct (tune_fee _ _ _ _ _); [discriminate|].
  intro H. apply cost_invalid_only_fee; assumption.
Qed.

Lemma exec_part_only_fee env tx ip s ic avail clg old : block_sorted s ->
  r_status (exec_part env tx ip s ic avail clg old) = StFail ->
  only_fee (t_payer tx) s (exec_part env tx ip s ic avail clg old).
Proof.
  intros BS. unfold exec_part. destruct (ip s (fee_exec_gas avail clg)) as [o|]; [|discriminate].
  set (s1 := mkState (o_cache o) (st_overlay s) (st_store s)).
  assert (SB : same_block s s1) by (split; reflexivity).
  assert (BS1 : block_sorted s1) by (eapply block_sorted_same; eauto).
  destruct (o_internal o); [discriminate|].
  destruct (negb (o_ok o)).
  - destruct ic; [apply tuned_cost_invalid_only_fee; assumption|].
    intros _. apply nocharge_only_fee; exact SB.
  - destruct ic; [|discriminate].
    destruct (get_balance s1 (t_payer tx)) as [new|]; [|intros _; apply nocharge_only_fee; exact SB].
    destruct (fee_lt_new new _); [apply tuned_cost_invalid_only_fee; assumption|].
    destruct (tune_fee _ _ _ _ _) as [|g]; [discriminate|].
    destruct (ong_transfer _ _ _ g s1) as [s2 [e|]] eqn:E; [|discriminate].
    apply charge_failed_only_fee. eapply same_block_trans; [exact SB|]. eapply ong_transfer_same_block; eauto.
Qed.

(** failed_tx_only_fee, for any start state whose block layers are sorted *)
Lemma handle_invoke_only_fee env tx ip s : block_sorted s ->
  r_status (handle_invoke env tx ip s) = StFail ->
  only_fee (t_payer tx) s (handle_invoke env tx ip s).
Proof.
  intros BS. unfold handle_invoke.
  destruct (negb (t_sys tx) && negb (t_price tx =? 0)); [|apply exec_part_only_fee; exact BS].
  destruct (e_codegas env) as [cg|]; [|discriminate].
  destruct (get_balance s (t_payer tx)) as [old|]; [|intros _; apply nocharge_only_fee; apply same_block_refl].
  destruct (fee_lt_min old _); [intro H; apply cost_invalid_only_fee; auto using same_block_refl|].
  destruct (fee_lt_code old _ _); [intro H; apply cost_invalid_only_fee; auto using same_block_refl|].
  destruct (fee_lt_limit _ _); [intro H; apply cost_invalid_only_fee; auto using same_block_refl|].
  apply exec_part_only_fee; exact BS.
Qed.

Theorem failed_tx_only_fee env tx ip s : wf_state s = true ->
  r_status (handle_invoke env tx ip (cache_reset s)) = StFail ->
  only_fee (t_payer tx) s (handle_invoke env tx ip (cache_reset s)).
Proof.
  intros W H. apply wf_state_sorted in W.
  assert (BS : block_sorted (cache_reset s)) by (apply sorted_block_sorted, cache_reset_sorted; exact W).
  pose proof (handle_invoke_only_fee env tx ip (cache_reset s) BS H) as (A & B & C & D).
  split; [exact A|]. split; [exact B|]. split; [exact C|exact D].
Qed.
