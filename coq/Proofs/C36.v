(** C36 - proofs about the connection-controller model (Model/ConnCtrl.v), for ALL schedules
    (any number of attempts, any interleaving of their atomic sections and of closes).

    Contents
      1. list / set / counting lemmas
      2. what one section does to the bound sets (exec_op, save_peer, remove_peer)
      3. case analysis of one scheduling step (tstep)
      4. structural facts about the programs extracted from the source (by computation on
         Gen/ConnCtrlProg.v: they are re-checked whenever the source changes)
      5. the counting invariant: recorded + (attempts past their check) + 1 <= limit + k
      6. non-overlapping attempts: established connections = recorded entries
      7. the repaired variant (savePeer re-checks under its lock): limits hold unconditionally
      8. the refutation witnesses for the code as it is *)
From Coq Require Import List Bool NArith Arith Lia Permutation.
Import ListNotations.
From Ont Require Import Model.ConnCtrl.
Local Open Scope N_scope.

(** * 1. lists, sets, counting *)

Lemma addr_eqb_eq : forall a b, addr_eqb a b = true <-> a = b.
Proof.
  intros [a1 a2] [b1 b2]; unfold addr_eqb; cbn [fst snd]. rewrite andb_true_iff, !N.eqb_eq.
  split; [intros [-> ->]; reflexivity | intros H; inversion H; auto].
Qed.

Lemma addr_eqb_refl : forall a, addr_eqb a a = true.
Proof. intros; apply addr_eqb_eq; reflexivity. Qed.

Lemma addr_eqb_neq : forall a b, addr_eqb a b = false <-> a <> b.
Proof.
  intros a b; split.
  - intros H E; apply addr_eqb_eq in E; congruence.
  - intros H; destruct (addr_eqb a b) eqn:E; auto. apply addr_eqb_eq in E; contradiction.
Qed.

Lemma amem_In : forall a l, amem a l = true <-> In a l.
Proof.
  intros a l; unfold amem; rewrite existsb_exists; split.
  - intros [x [Hx E]]; apply addr_eqb_eq in E; subst; auto.
  - intros H; exists a; split; auto using addr_eqb_refl.
Qed.

Lemma amem_false : forall a l, amem a l = false <-> ~ In a l.
Proof.
  intros a l; rewrite <- amem_In; destruct (amem a l); split; intros H; congruence.
Qed.

Lemma aset_add_In : forall a l x, In x (aset_add a l) <-> x = a \/ In x l.
Proof.
  intros a l x; unfold aset_add; destruct (amem a l) eqn:E.
  - apply amem_In in E; split; auto. intros [->|]; auto.
  - cbn [In]; split; intros [H|H]; auto.
Qed.

Lemma aset_add_NoDup : forall a l, NoDup l -> NoDup (aset_add a l).
Proof.
  intros a l H; unfold aset_add; destruct (amem a l) eqn:E; auto.
  constructor; auto. apply amem_false; auto.
Qed.

Lemma aset_remove_In : forall a l x, In x (aset_remove a l) <-> In x l /\ x <> a.
Proof.
  intros a l x; unfold aset_remove; rewrite filter_In, negb_true_iff, addr_eqb_neq.
  split; intros [H1 H2]; split; auto.
Qed.

Lemma aset_remove_NoDup : forall a l, NoDup l -> NoDup (aset_remove a l).
Proof. intros; apply NoDup_filter; auto. Qed.

Lemma filter_length_le : forall A (f : A -> bool) l, (length (filter f l) <= length l)%nat.
Proof. induction l; cbn; auto. destruct (f a); cbn; lia. Qed.

Lemma filter_filter_length_le : forall A (f g : A -> bool) l,
  (length (filter f (filter g l)) <= length (filter f l))%nat.
Proof.
  induction l; cbn; auto. destruct (g a); cbn; destruct (f a); cbn; lia.
Qed.

Lemma filter_aset_add_length : forall f a l,
  (length (filter f (aset_add a l)) <= length (filter f l) + (if f a then 1 else 0))%nat.
Proof.
  intros f a l; unfold aset_add; destruct (amem a l); cbn [filter].
  - lia.
  - destruct (f a); cbn [length]; lia.
Qed.

Lemma aset_add_length_le : forall a l, (length (aset_add a l) <= S (length l))%nat.
Proof. intros; unfold aset_add; destruct (amem a l); cbn; lia. Qed.

(** number of elements satisfying P *)
Definition cnt {A} (P : A -> bool) (l : list A) : nat := length (filter P l).
Definition b2n (b : bool) : nat := if b then 1%nat else 0%nat.

Lemma cnt_app_one : forall A (P : A -> bool) l x, cnt P (l ++ [x]) = (cnt P l + b2n (P x))%nat.
Proof.
  intros; unfold cnt; rewrite filter_app, app_length; cbn. destruct (P x); cbn; lia.
Qed.

Lemma cnt_upd : forall A (P : A -> bool) l i old x, nth_error l i = Some old ->
  (cnt P (upd l i x) + b2n (P old) = cnt P l + b2n (P x))%nat.
Proof.
  unfold cnt; induction l as [|y r IH]; intros [|i] old x H; cbn in H; try discriminate.
  - inversion H; subst; cbn. destruct (P old), (P x); cbn; lia.
  - cbn. specialize (IH i old x H). destruct (P y); cbn; lia.
Qed.

Lemma upd_nth_same : forall A (l : list A) i x old, nth_error l i = Some old -> nth_error (upd l i x) i = Some x.
Proof. induction l; intros [|i] x old H; cbn in *; try discriminate; eauto. Qed.

Lemma upd_nth_other : forall A (l : list A) i j x, i <> j -> nth_error (upd l i x) j = nth_error l j.
Proof.
  induction l; intros [|i] [|j] x H; cbn; auto; try congruence.
Qed.

Lemma cnt_le1_unique : forall A (P : A -> bool) l i j x y, (cnt P l <= 1)%nat ->
  nth_error l i = Some x -> nth_error l j = Some y -> P x = true -> P y = true -> i = j.
Proof.
  unfold cnt; induction l as [|z r IH]; intros [|i] [|j] x y H Hi Hj Px Py; cbn in *; try discriminate; auto.
  - inversion Hi; subst. rewrite Px in H; cbn in H.
    assert (In y (filter P r)) by (apply filter_In; split; eauto using nth_error_In).
    destruct (filter P r); cbn in *; [contradiction | lia].
  - inversion Hj; subst. rewrite Py in H; cbn in H.
    assert (In x (filter P r)) by (apply filter_In; split; eauto using nth_error_In).
    destruct (filter P r); cbn in *; [contradiction | lia].
  - f_equal; apply (IH i j x y); auto. destruct (P z); cbn in H; lia.
Qed.

Lemma nth_error_app_one : forall A (l : list A) x j y, nth_error (l ++ [x]) j = Some y ->
  nth_error l j = Some y \/ (j = length l /\ y = x).
Proof.
  intros A l x j y H. destruct (Nat.lt_ge_cases j (length l)).
  - rewrite nth_error_app1 in H; auto.
  - rewrite nth_error_app2 in H; auto. destruct (j - length l)%nat eqn:E; cbn in H.
    + inversion H; right; split; auto; lia.
    + destruct n; discriminate.
Qed.

Lemma del_nth_split : forall A (l : list A) i k, nth_error l i = Some k ->
  exists l1 l2, l = l1 ++ k :: l2 /\ del_nth l i = l1 ++ l2.
Proof.
  induction l as [|y r IH]; intros [|i] k H; cbn in H; try discriminate.
  - inversion H; subst; exists [], r; auto.
  - destruct (IH i k H) as [l1 [l2 [E1 E2]]]; exists (y :: l1), l2; cbn; rewrite <- E1, E2; auto.
Qed.

(** * 2. effect of the sections on the bound sets *)

Lemma bound_set_bound_same : forall c d l, bound (set_bound c d l) d = l.
Proof. destruct d; reflexivity. Qed.
Lemma bound_set_bound_other : forall c d d' l, d <> d' -> bound (set_bound c d l) d' = bound c d'.
Proof. destruct d, d'; intros; try congruence; reflexivity. Qed.
Lemma bound_set_listen : forall c l d, bound (set_listen c l) d = bound c d.
Proof. destruct d; reflexivity. Qed.
Lemma bound_set_connecting : forall c l d, bound (set_connecting c l) d = bound c d.
Proof. destruct d; reflexivity. Qed.
Lemma bound_set_peers : forall c l d, bound (set_peers c l) d = bound c d.
Proof. destruct d; reflexivity. Qed.
Lemma bound_set_own : forall c o d, bound (set_own c o) d = bound c d.
Proof. destruct d; reflexivity. Qed.
Lemma bound_set_nextcid : forall c n d, bound (set_nextcid c n) d = bound c d.
Proof. destruct d; reflexivity. Qed.
Lemma bound_set_fatal : forall c d, bound (set_fatal c) d = bound c d.
Proof. destruct d; reflexivity. Qed.

Lemma save_peer_bound_same : forall c d a pid lp,
  bound (fst (save_peer c d a pid lp)) d = aset_add a (bound c d).
Proof.
  intros; unfold save_peer; cbn [fst].
  rewrite bound_set_peers, bound_set_nextcid. destruct d; reflexivity.
Qed.

Lemma save_peer_bound_other : forall c d d' a pid lp, d <> d' ->
  bound (fst (save_peer c d a pid lp)) d' = bound c d'.
Proof.
  intros; unfold save_peer; cbn [fst].
  rewrite bound_set_peers, bound_set_nextcid. destruct d, d'; try congruence; reflexivity.
Qed.

Lemma save_peer_conn : forall c d a pid lp,
  k_dir (snd (save_peer c d a pid lp)) = d /\ k_addr (snd (save_peer c d a pid lp)) = a.
Proof. intros; unfold save_peer; cbn; auto. Qed.

Lemma remove_peer_bound_same : forall c k,
  bound (remove_peer c k) (k_dir k) = aset_remove (k_addr k) (bound c (k_dir k)).
Proof.
  intros; unfold remove_peer.
  set (c1 := set_bound c (k_dir k) _).
  set (c2 := match k_dir k with Inbound => _ | Outbound => _ end).
  assert (E : bound c2 (k_dir k) = aset_remove (k_addr k) (bound c (k_dir k))).
  { subst c2 c1; destruct (k_dir k); reflexivity. }
  destruct (peers_get (c_peers c2) (k_pid k)) as [[cid ?]|].
  - destruct (cid =? k_cid k); [rewrite bound_set_peers|]; exact E.
  - rewrite bound_set_fatal; exact E.
Qed.

Lemma remove_peer_bound_other : forall c k d, k_dir k <> d -> bound (remove_peer c k) d = bound c d.
Proof.
  intros; unfold remove_peer.
  set (c1 := set_bound c (k_dir k) _).
  set (c2 := match k_dir k with Inbound => _ | Outbound => _ end).
  assert (E : bound c2 d = bound c d).
  { subst c2 c1; destruct (k_dir k), d; try congruence; reflexivity. }
  destruct (peers_get (c_peers c2) (k_pid k)) as [[cid ?]|].
  - destruct (cid =? k_cid k); [rewrite bound_set_peers|]; exact E.
  - rewrite bound_set_fatal; exact E.
Qed.

(** every section except savePeer leaves both bound sets alone and records no connection *)
Lemma exec_op_not_save : forall rc cf c t o c' e k, exec_op rc cf c t o = (c', e, k) ->
  o <> OpSave -> k = None /\ forall d, bound c' d = bound c d.
Proof.
  intros rc cf c t o c' e k H Ho; destruct o; cbn in H; try congruence;
    try (destruct (amem (t_addr t) (c_connecting c))); try (destruct (t_pid t =? self_id cf));
    inversion H; subst; split; auto; intros d; destruct d; reflexivity.
Qed.

(** savePeer: either the (variant-only) re-check refuses, or the connection is recorded *)
Lemma exec_op_save : forall rc cf c t c' e k, exec_op rc cf c t OpSave = (c', e, k) ->
  (rc = true /\ c' = c /\ k = None /\ e <> None) \/
  (e = None /\ c' = fst (save_peer c (t_dir t) (t_addr t) (t_pid t) (t_lport t)) /\
   k = Some (snd (save_peer c (t_dir t) (t_addr t) (t_pid t) (t_lport t))) /\
   (rc = true -> amem (t_addr t) (bound c (t_dir t)) = false /\ is_bound_full cf c (t_dir t) = false /\
      (t_dir t = Inbound -> ip_full_cmp (inbound_count_with_ip c (fst (t_addr t))) (max_per_ip cf) = false))).
Proof.
  intros rc cf c t c' e k H; cbn [exec_op] in H.
  destruct (rc && _) eqn:E.
  - left; inversion H; subst. apply andb_true_iff in E; destruct E; repeat split; auto; discriminate.
  - right. destruct (save_peer c (t_dir t) (t_addr t) (t_pid t) (t_lport t)) as [c1 k1] eqn:S.
    inversion H; subst; cbn [fst snd]. split; [reflexivity|]. split; [reflexivity|]. split; [reflexivity|].
    intros ->; cbn [andb] in E.
    apply orb_false_iff in E; destruct E as [E E3]; apply orb_false_iff in E; destruct E as [E1 E2].
    split; [exact E1|]. split; [exact E2|]. intros D; rewrite D in E3; exact E3.
Qed.

Lemma exec_op_full : forall rc cf c t c' e k, exec_op rc cf c t OpFull = (c', e, k) ->
  c' = c /\ (e = None -> is_bound_full cf c (t_dir t) = false).
Proof.
  intros rc cf c t c' e k H; cbn in H.
  destruct (is_bound_full cf c (t_dir t)); inversion H; subst; split; auto; intros; discriminate.
Qed.

Lemma exec_op_ipcount : forall rc cf c t c' e k, exec_op rc cf c t OpIpCount = (c', e, k) ->
  c' = c /\ (e = None -> ip_full_cmp (inbound_count_with_ip c (fst (t_addr t))) (max_per_ip cf) = false).
Proof.
  intros rc cf c t c' e k H; cbn in H.
  destruct (ip_full_cmp _ _); inversion H; subst; split; auto; intros; discriminate.
Qed.

Lemma exec_op_hasbound : forall rc cf c t c' e k, exec_op rc cf c t OpHasBound = (c', e, k) ->
  c' = c /\ (e = None -> has_bound_addr c (t_addr t) = false).
Proof.
  intros rc cf c t c' e k H; cbn in H.
  destruct (has_bound_addr c (t_addr t)); inversion H; subst; split; auto; intros; discriminate.
Qed.

(** the comparison operators of the source mean "count < limit" when they let an attempt pass *)
Lemma full_cmp_in_pass : forall c m, full_cmp_in c m = false -> c + 1 <= m.
Proof. unfold full_cmp_in; intros c m H; apply N.leb_gt in H; lia. Qed.
Lemma full_cmp_out_pass : forall c m, full_cmp_out c m = false -> c + 1 <= m.
Proof. unfold full_cmp_out; intros c m H; apply N.leb_gt in H; lia. Qed.
Lemma ip_full_cmp_pass : forall c m, ip_full_cmp c m = false -> c + 1 <= m.
Proof. unfold ip_full_cmp; intros c m H; apply N.leb_gt in H; lia. Qed.

Lemma is_bound_full_pass : forall cf c d, is_bound_full cf c d = false -> bounds_count c d + 1 <= limit_of cf d.
Proof.
  intros cf c [|] H; cbn in *; [apply full_cmp_in_pass | apply full_cmp_out_pass]; auto.
Qed.

(** * 3. one scheduling step of a thread *)

Definition next_out (t : thread) : outcome :=
  if Nat.leb (length (prog_of (t_dir t))) (S (t_pc t)) then Done else Pending.

Inductive tstep (rc : bool) (cf : cfg) (c : ctrl) (t : thread) : ctrl -> thread -> option conn -> Prop :=
| TS_idle : t_out t <> Pending -> t_defer t = [] -> tstep rc cf c t c t None
| TS_end : t_out t = Pending -> nth_error (prog_of (t_dir t)) (t_pc t) = None ->
    tstep rc cf c t c (set_thread t (t_pc t) (t_defer t) Done) None
| TS_reg : forall o, t_out t = Pending -> nth_error (prog_of (t_dir t)) (t_pc t) = Some (IDefer o) ->
    tstep rc cf c t c (set_thread t (S (t_pc t)) (o :: t_defer t) (next_out t)) None
| TS_op : forall o c' e k, t_out t = Pending -> nth_error (prog_of (t_dir t)) (t_pc t) = Some (IOp o) ->
    exec_op rc cf c t o = (c', e, k) ->
    tstep rc cf c t c' (set_thread t (S (t_pc t)) (t_defer t)
                          (match e with Some e => Failed e | None => next_out t end)) k
| TS_deferred : forall o r c' e k, t_out t <> Pending -> t_defer t = o :: r ->
    exec_op rc cf c t o = (c', e, k) ->
    tstep rc cf c t c' (set_thread t (t_pc t) r (t_out t)) None.

Lemma run_thread_tstep : forall rc cf c t c' t' k,
  run_thread rc cf c t = (c', t', k) -> tstep rc cf c t c' t' k.
Proof.
  intros rc cf c t c' t' k H; unfold run_thread in H.
  destruct (t_out t) eqn:Eo.
  - destruct (nth_error (prog_of (t_dir t)) (t_pc t)) as [[o|o]|] eqn:En.
    + destruct (exec_op rc cf c t o) as [[c1 e1] k1] eqn:Ex.
      destruct e1; inversion H; subst; eapply (TS_op rc cf c t o) in Ex; eauto.
    + inversion H; subst; apply TS_reg; auto.
    + inversion H; subst; apply TS_end; auto.
  - destruct (t_defer t) as [|o r] eqn:Ed.
    + inversion H; subst; apply TS_idle; auto; congruence.
    + destruct (exec_op rc cf c t o) as [[c1 e1] k1] eqn:Ex.
      inversion H; subst. rewrite <- Eo. eapply TS_deferred; eauto; congruence.
  - destruct (t_defer t) as [|o r] eqn:Ed.
    + inversion H; subst; apply TS_idle; auto; congruence.
    + destruct (exec_op rc cf c t o) as [[c1 e1] k1] eqn:Ex.
      inversion H; subst. rewrite <- Eo. eapply TS_deferred; eauto; congruence.
Qed.

(** * 4. structural facts about the extracted programs *)

Lemma existsb_impl : forall A (f g : A -> bool) l, (forall x, f x = true -> g x = true) ->
  existsb f l = true -> existsb g l = true.
Proof.
  intros A f g l H E; apply existsb_exists in E; destruct E as [x [Hx Fx]].
  apply existsb_exists; exists x; auto.
Qed.

Lemma firstn_S_nth : forall A (p : list A) pc x, nth_error p pc = Some x -> firstn (S pc) p = firstn pc p ++ [x].
Proof.
  induction p; intros [|pc] x H; cbn in H; try discriminate.
  - inversion H; reflexivity.
  - rewrite !firstn_cons, (IHp pc x H); reflexivity.
Qed.

Lemma skipn_nth : forall A (p : list A) pc x, nth_error p pc = Some x -> skipn pc p = x :: skipn (S pc) p.
Proof.
  induction p; intros [|pc] x H; cbn in H; try discriminate.
  - inversion H; reflexivity.
  - change (skipn (S pc) (a :: p)) with (skipn pc p). rewrite (IHp pc x H); reflexivity.
Qed.

Lemma existsb_firstn_S : forall (f : item -> bool) p pc x, nth_error p pc = Some x ->
  existsb f (firstn (S pc) p) = existsb f (firstn pc p) || f x.
Proof. intros; erewrite firstn_S_nth by eauto. rewrite existsb_app; cbn; rewrite orb_false_r; auto. Qed.

Lemma existsb_skipn : forall (f : item -> bool) p pc x, nth_error p pc = Some x ->
  existsb f (skipn pc p) = f x || existsb f (skipn (S pc) p).
Proof. intros; erewrite skipn_nth by eauto; reflexivity. Qed.

(** at every position holding savePeer: marker [m] has been executed before, and savePeer does
    not occur again afterwards *)
Definition save_positions_ok (m : op) (p : list item) : bool :=
  forallb (fun pc => match nth_error p pc with
                     | Some (IOp OpSave) => existsb (item_is m) (firstn pc p)
                                            && negb (existsb (item_is OpSave) (skipn (S pc) p))
                     | _ => true
                     end) (seq 0 (length p)).

Lemma save_positions_spec : forall m p, save_positions_ok m p = true ->
  forall pc, nth_error p pc = Some (IOp OpSave) ->
    existsb (item_is m) (firstn pc p) = true /\ existsb (item_is OpSave) (skipn (S pc) p) = false.
Proof.
  intros m p H pc Hn; unfold save_positions_ok in H; rewrite forallb_forall in H.
  assert (Hin : In pc (seq 0 (length p))).
  { apply in_seq; split; [lia|]. cbn. apply nth_error_Some; congruence. }
  specialize (H pc Hin); rewrite Hn in H. apply andb_true_iff in H; destruct H as [H1 H2].
  apply negb_true_iff in H2; auto.
Qed.

(** only removeConnecting is ever deferred *)
Definition defers_ok (p : list item) : bool :=
  forallb (fun i => match i with IDefer OpRemoveConnecting => true | IDefer _ => false | IOp _ => true end) p.

Lemma defers_spec : forall p, defers_ok p = true -> forall o, In (IDefer o) p -> o = OpRemoveConnecting.
Proof.
  intros p H o Hin; unfold defers_ok in H; rewrite forallb_forall in H. specialize (H _ Hin).
  destruct o; try discriminate; reflexivity.
Qed.

(** These are facts about the code as extracted on this run (Gen/ConnCtrlProg.v). *)
Lemma prog_full_before_save : forall d, save_positions_ok OpFull (prog_of d) = true.
Proof. destruct d; vm_compute; reflexivity. Qed.
Lemma prog_hasbound_before_save : forall d, save_positions_ok OpHasBound (prog_of d) = true.
Proof. destruct d; vm_compute; reflexivity. Qed.
Lemma prog_ipcount_before_save : save_positions_ok OpIpCount (prog_of Inbound) = true.
Proof. vm_compute; reflexivity. Qed.
Lemma prog_defers : forall d, defers_ok (prog_of d) = true.
Proof. destruct d; vm_compute; reflexivity. Qed.

Lemma save_once : forall d pc, nth_error (prog_of d) pc = Some (IOp OpSave) ->
  existsb (item_is OpSave) (skipn (S pc) (prog_of d)) = false.
Proof. intros d pc H; apply (save_positions_spec _ _ (prog_full_before_save d) pc H). Qed.

Lemma deferred_is_remove : forall d pc o, nth_error (prog_of d) pc = Some (IDefer o) -> o = OpRemoveConnecting.
Proof. intros d pc o H; apply (defers_spec _ (prog_defers d)); eapply nth_error_In; eauto. Qed.

(** [passed m t]: the attempt is pending, has executed section [m], and savePeer is still ahead *)
Definition passed (m : op) (t : thread) : bool :=
  match t_out t with
  | Pending => existsb (item_is m) (firstn (t_pc t) (prog_of (t_dir t)))
               && existsb (item_is OpSave) (skipn (t_pc t) (prog_of (t_dir t)))
  | _ => false
  end.

Lemma passed_in_window : forall m t, is_check (IOp m) = true -> passed m t = true -> in_window t = true.
Proof.
  intros m t Hm H; unfold passed, in_window in *. destruct (t_out t); try discriminate.
  apply andb_true_iff in H; destruct H as [H1 H2]; rewrite H2, andb_true_r.
  eapply existsb_impl; [|exact H1]. intros [o|o] Hx; cbn in Hx; try discriminate.
  destruct m, o; try discriminate; try reflexivity; cbn in Hm; discriminate.
Qed.

Lemma op_eqb_eq : forall a b, op_eqb a b = true <-> a = b.
Proof. destruct a, b; cbn; split; intros; try discriminate; try reflexivity. Qed.

Lemma op_eqb_refl : forall a, op_eqb a a = true.
Proof. destruct a; reflexivity. Qed.

(** a thread at a savePeer position that has executed [m] before is "passed m" *)
Lemma passed_at_save : forall m t, t_out t = Pending ->
  nth_error (prog_of (t_dir t)) (t_pc t) = Some (IOp OpSave) ->
  existsb (item_is m) (firstn (t_pc t) (prog_of (t_dir t))) = true -> passed m t = true.
Proof.
  intros m t Ho Hn Hm; unfold passed; rewrite Ho, Hm. erewrite existsb_skipn by eauto. reflexivity.
Qed.

(** stepping over an item that is neither [m] nor savePeer cannot make a thread "passed m" *)
Lemma passed_step_other : forall m t x df o', t_out t = Pending ->
  nth_error (prog_of (t_dir t)) (t_pc t) = Some x -> item_is m x = false -> item_is OpSave x = false ->
  passed m (set_thread t (S (t_pc t)) df o') = true -> passed m t = true.
Proof.
  intros m t x df o' Ho Hn Hm Hs H; unfold passed in *; cbn [t_out t_pc t_dir set_thread] in H.
  rewrite Ho. destruct o'; try discriminate.
  erewrite existsb_firstn_S in H by eauto. rewrite Hm, orb_false_r in H.
  erewrite (existsb_skipn _ _ (t_pc t)) by eauto. rewrite Hs; cbn [orb]. exact H.
Qed.

(** after savePeer the thread is no longer "passed" *)
Lemma passed_after_save : forall m t df o', nth_error (prog_of (t_dir t)) (t_pc t) = Some (IOp OpSave) ->
  passed m (set_thread t (S (t_pc t)) df o') = false.
Proof.
  intros m t df o' Hn; unfold passed; cbn [t_out t_pc t_dir set_thread]. destruct o'; auto.
  rewrite (save_once _ _ Hn), andb_false_r; reflexivity.
Qed.

Lemma passed_not_pending : forall m t pc df o', o' <> Pending -> passed m (set_thread t pc df o') = false.
Proof. intros; unfold passed; cbn; destruct o'; congruence. Qed.

Definition defer_wf (t : thread) : Prop := Forall (fun o => o = OpRemoveConnecting) (t_defer t).

Lemma cnt_mono : forall A (P Q : A -> bool) l, (forall x, P x = true -> Q x = true) -> (cnt P l <= cnt Q l)%nat.
Proof.
  unfold cnt; induction l; intros H; cbn; auto. specialize (IHl H).
  destruct (P a) eqn:E; [rewrite (H _ E)|destruct (Q a)]; cbn; lia.
Qed.

(** * 5. the counting invariant *)

Section Counting.
  Variable rc : bool.
  Variable cf : cfg.
  Variable d0 : dir.
  Variable k : nat.
  Variable sel : thread -> bool.
  Hypothesis sel_dir : forall t, sel t = true -> t_dir t = d0.
  Hypothesis sel_stable : forall t pc df o, sel (set_thread t pc df o) = sel t.
  Variable m : op.
  Hypothesis m_check : is_check (IOp m) = true.
  Variable cntf : ctrl -> N.
  Variable L : N.
  Hypothesis cnt_bound_only : forall c c', (forall d, bound c' d = bound c d) -> cntf c' = cntf c.
  Hypothesis cnt_save : forall c t,
    cntf (fst (save_peer c (t_dir t) (t_addr t) (t_pid t) (t_lport t))) <= cntf c + N.of_nat (b2n (sel t)).
  Hypothesis cnt_pass : forall c t c' k0, exec_op rc cf c t m = (c', None, k0) -> sel t = true -> cntf c + 1 <= L.
  Hypothesis cnt_close : forall c k0, cntf (remove_peer c k0) <= cntf c.
  Hypothesis m_before_save : forall pc, nth_error (prog_of d0) pc = Some (IOp OpSave) ->
    existsb (item_is m) (firstn pc (prog_of d0)) = true.

  Let P (t : thread) : bool := sel t && passed m t.

  Definition cinv (s : sys) : Prop :=
    cntf (s_ctrl s) + N.of_nat (cnt P (s_threads s)) + 1 <= L + N.of_nat k /\ Forall defer_wf (s_threads s).

  Lemma P_window : forall s, (cnt P (s_threads s) <= window_count s d0)%nat.
  Proof.
    intros s; unfold window_count; apply cnt_mono; intros t H; unfold P in H.
    apply andb_true_iff in H; destruct H as [H1 H2].
    rewrite (sel_dir _ H1). rewrite (passed_in_window _ _ m_check H2). destruct d0; reflexivity.
  Qed.

  Lemma Forall_upd : forall A (Q : A -> Prop) l i x, Forall Q l -> Q x -> Forall Q (upd l i x).
  Proof.
    induction l; intros [|i] x H Hx; cbn; auto; inversion H; subst; constructor; auto.
  Qed.

  Lemma P_np : forall t pc df o', o' <> Pending -> P (set_thread t pc df o') = false.
  Proof. intros; unfold P; rewrite passed_not_pending by auto; apply andb_false_r. Qed.

  Lemma P_as : forall t df o', nth_error (prog_of (t_dir t)) (t_pc t) = Some (IOp OpSave) ->
    P (set_thread t (S (t_pc t)) df o') = false.
  Proof. intros; unfold P; rewrite passed_after_save by auto; apply andb_false_r. Qed.

  Lemma P_nosel : forall t pc df o', sel t = false -> P (set_thread t pc df o') = false.
  Proof. intros; unfold P; rewrite sel_stable, H; reflexivity. Qed.

  (* stepping over an item other than m / savePeer: P can only go from true to anything *)
  Lemma P_other : forall t x df o', t_out t = Pending ->
    nth_error (prog_of (t_dir t)) (t_pc t) = Some x -> item_is m x = false -> item_is OpSave x = false ->
    (b2n (P (set_thread t (S (t_pc t)) df o')) <= b2n (P t))%nat.
  Proof.
    intros t x df o' Ho Hn Hm Hs.
    destruct (P (set_thread t (S (t_pc t)) df o')) eqn:EP; [|cbn; lia].
    unfold P in EP; apply andb_true_iff in EP; destruct EP as [E1 E2]. rewrite sel_stable in E1.
    apply (passed_step_other m t x) in E2; auto. unfold P; rewrite E1, E2; cbn; lia.
  Qed.

  Lemma cinv_step : forall s e, (1 <= k)%nat -> cinv s -> (window_count (step rc cf s e) d0 <= k)%nat -> cinv (step rc cf s e).
  Proof.
    intros s e Hk [HI HD] HW. unfold cinv. destruct e as [d a pid lp r dl hs | i | i].
    - (* Spawn *)
      cbn [step] in *; split; cbn [s_ctrl s_threads].
      + rewrite cnt_app_one. assert (E : P (new_thread d a pid lp r dl hs) = false).
        { unfold P, passed; cbn. apply andb_false_r. }
        rewrite E; cbn; lia.
      + apply Forall_app; split; auto. constructor; auto. constructor.
    - (* Run *)
      unfold step in *. destruct (nth_error (s_threads s) i) as [t|] eqn:Ht; [|split; auto].
      destruct (run_thread rc cf (s_ctrl s) t) as [[c' t'] k0] eqn:Hr.
      cbn [s_ctrl s_threads] in *.
      pose proof (cnt_upd _ P _ _ _ t' Ht) as HC.
      pose proof (P_window {| s_ctrl := c'; s_threads := upd (s_threads s) i t';
                              s_live := match k0 with Some k1 => s_live s ++ [k1] | None => s_live s end |}) as HPW.
      cbn [s_threads] in HPW.
      assert (HDt : defer_wf t) by (rewrite Forall_forall in HD; apply HD; eapply nth_error_In; eauto).
      apply run_thread_tstep in Hr. inversion Hr; subst; clear Hr; cbn [s_ctrl s_threads].
      + (* idle *) split; [|apply Forall_upd; auto]. lia.
      + (* end *) split; [|apply Forall_upd; auto].
        rewrite P_np in HC by discriminate. cbn [b2n] in HC; lia.
      + (* defer registration *)
        split.
        * pose proof (P_other t (IDefer o) (o :: t_defer t) (next_out t) H H0 eq_refl eq_refl). lia.
        * apply Forall_upd; auto. unfold defer_wf; cbn. constructor; auto.
          eapply deferred_is_remove; eauto.
      + (* a section *)
        split; [|apply Forall_upd; auto].
        destruct (op_eqb o OpSave) eqn:Eo; [apply op_eqb_eq in Eo; subst o|].
        * (* savePeer *)
          apply exec_op_save in H1; destruct H1 as [[_ [-> [_ Hne]]]|[-> [-> [_ _]]]].
          -- destruct e as [e0|]; [|congruence]. rewrite P_np in HC by discriminate. cbn [b2n] in HC; lia.
          -- rewrite P_as in HC by auto.
             pose proof (cnt_save (s_ctrl s) t) as HS.
             destruct (sel t) eqn:Es.
             ++ assert (Hp : passed m t = true).
                { apply passed_at_save; auto. pose proof (sel_dir _ Es) as Hd.
                  rewrite Hd in *. apply m_before_save; auto. }
                assert (Ept : P t = true) by (unfold P; rewrite Es, Hp; reflexivity).
                rewrite Ept in HC. cbn [b2n] in HC, HS. lia.
             ++ assert (Ept : P t = false) by (unfold P; rewrite Es; reflexivity).
                rewrite Ept in HC. cbn [b2n] in HC, HS. lia.
        * assert (Hns : o <> OpSave) by (intros ->; rewrite op_eqb_refl in Eo; discriminate).
          pose proof (exec_op_not_save _ _ _ _ _ _ _ _ H1 Hns) as [_ Hb].
          rewrite (cnt_bound_only _ _ Hb).
          destruct (op_eqb m o) eqn:Em.
          -- (* the marker check itself *)
             apply op_eqb_eq in Em; subst o. destruct e as [e0|].
             ++ rewrite P_np in HC by discriminate. cbn [b2n] in HC; lia.
             ++ destruct (sel t) eqn:Es.
                ** pose proof (cnt_pass _ _ _ _ H1 Es). lia.
                ** rewrite P_nosel in HC by auto. cbn [b2n] in HC; lia.
          -- (* any other section *)
             assert (Hx : item_is m (IOp o) = false) by exact Em.
             assert (Hy : item_is OpSave (IOp o) = false).
             { cbn. destruct o; try reflexivity. congruence. }
             pose proof (P_other t (IOp o) (t_defer t)
                           match e with Some e1 => Failed e1 | None => next_out t end H H0 Hx Hy). lia.
      + (* a deferred call *)
        assert (Ho : o = OpRemoveConnecting).
        { unfold defer_wf in HDt. rewrite H0 in HDt. inversion HDt; auto. }
        subst o. split.
        * pose proof (exec_op_not_save _ _ _ _ _ _ _ _ H1 ltac:(discriminate)) as [_ Hb].
          rewrite (cnt_bound_only _ _ Hb).
          rewrite P_np in HC by auto. cbn [b2n] in HC; lia.
        * apply Forall_upd; auto. unfold defer_wf in *; cbn.
          rewrite H0 in HDt. inversion HDt; auto.
    - (* Close *)
      unfold step in *. destruct (nth_error (s_live s) i) as [k0|]; [|split; auto].
      cbn [s_ctrl s_threads] in *. split; auto. pose proof (cnt_close (s_ctrl s) k0). lia.
  Qed.

  Theorem counting : forall sched s, (1 <= k)%nat -> cinv s ->
    Forall (fun s' => (window_count s' d0 <= k)%nat) (trace rc cf s sched) ->
    Forall (fun s' => cntf (s_ctrl s') + 1 <= L + N.of_nat k) (trace rc cf s sched).
  Proof.
    induction sched as [|e r IH]; intros s Hk HI HW; cbn [trace] in *; [constructor|].
    inversion HW; subst. assert (HI' := cinv_step s e Hk HI H1).
    constructor; [destruct HI'; lia | apply IH; auto].
  Qed.
  (** *** at or over the limit nothing new gets past the check *)
  Definition potential (s : sys) : N := cntf (s_ctrl s) + N.of_nat (cnt P (s_threads s)).

  Lemma potential_step : forall s e, Forall defer_wf (s_threads s) -> L <= cntf (s_ctrl s) ->
    potential (step rc cf s e) <= potential s.
  Proof.
    intros s e HD HL. unfold potential. destruct e as [d a pid lp r dl hs | i | i].
    - cbn [step s_ctrl s_threads]. rewrite cnt_app_one.
      assert (E : P (new_thread d a pid lp r dl hs) = false).
      { unfold P, passed; cbn. apply andb_false_r. }
      rewrite E; cbn; lia.
    - unfold step in *. destruct (nth_error (s_threads s) i) as [t|] eqn:Ht; [|lia].
      destruct (run_thread rc cf (s_ctrl s) t) as [[c' t'] k0] eqn:Hr.
      cbn [s_ctrl s_threads] in *.
      pose proof (cnt_upd _ P _ _ _ t' Ht) as HC.
      assert (HDt : defer_wf t) by (rewrite Forall_forall in HD; apply HD; eapply nth_error_In; eauto).
      apply run_thread_tstep in Hr. inversion Hr; subst; clear Hr; cbn [s_ctrl s_threads].
      + lia.
      + rewrite P_np in HC by discriminate. cbn [b2n] in HC; lia.
      + pose proof (P_other t (IDefer o) (o :: t_defer t) (next_out t) H H0 eq_refl eq_refl). lia.
      + destruct (op_eqb o OpSave) eqn:Eo; [apply op_eqb_eq in Eo; subst o|].
        * apply exec_op_save in H1; destruct H1 as [[_ [-> [_ Hne]]]|[-> [-> [_ _]]]].
          -- destruct e as [e0|]; [|congruence]. rewrite P_np in HC by discriminate. cbn [b2n] in HC; lia.
          -- rewrite P_as in HC by auto.
             pose proof (cnt_save (s_ctrl s) t) as HS.
             destruct (sel t) eqn:Es.
             ++ assert (Hp : passed m t = true).
                { apply passed_at_save; auto. pose proof (sel_dir _ Es) as Hd.
                  rewrite Hd in *. apply m_before_save; auto. }
                assert (Ept : P t = true) by (unfold P; rewrite Es, Hp; reflexivity).
                rewrite Ept in HC. cbn [b2n] in HC, HS. lia.
             ++ assert (Ept : P t = false) by (unfold P; rewrite Es; reflexivity).
                rewrite Ept in HC. cbn [b2n] in HC, HS. lia.
        * assert (Hns : o <> OpSave) by (intros ->; rewrite op_eqb_refl in Eo; discriminate).
          pose proof (exec_op_not_save _ _ _ _ _ _ _ _ H1 Hns) as [_ Hb].
          rewrite (cnt_bound_only _ _ Hb).
          destruct (op_eqb m o) eqn:Em.
          -- apply op_eqb_eq in Em; subst o. destruct e as [e0|].
             ++ rewrite P_np in HC by discriminate. cbn [b2n] in HC; lia.
             ++ destruct (sel t) eqn:Es.
                ** (* passing the check needs count < limit: impossible here *)
                   pose proof (cnt_pass _ _ _ _ H1 Es). lia.
                ** rewrite P_nosel in HC by auto.
                   assert (Ept : P t = false) by (unfold P; rewrite Es; reflexivity).
                   rewrite Ept in HC. cbn [b2n] in HC; lia.
          -- assert (Hx : item_is m (IOp o) = false) by exact Em.
             assert (Hy : item_is OpSave (IOp o) = false).
             { cbn. destruct o; try reflexivity. congruence. }
             pose proof (P_other t (IOp o) (t_defer t)
                           match e with Some e1 => Failed e1 | None => next_out t end H H0 Hx Hy). lia.
      + assert (Ho : o = OpRemoveConnecting).
        { unfold defer_wf in HDt. rewrite H0 in HDt. inversion HDt; auto. }
        subst o.
        pose proof (exec_op_not_save _ _ _ _ _ _ _ _ H1 ltac:(discriminate)) as [_ Hb].
        rewrite (cnt_bound_only _ _ Hb).
        rewrite P_np in HC by auto. cbn [b2n] in HC; lia.
    - unfold step in *. destruct (nth_error (s_live s) i) as [k0|]; [|lia].
      cbn [s_ctrl s_threads] in *. pose proof (cnt_close (s_ctrl s) k0). lia.
  Qed.
End Counting.

(** ** instance 1: entries of one bound set against MaxConnInBound / MaxConnOutBound *)

Lemma dir_eqb_eq : forall a b, dir_eqb a b = true <-> a = b.
Proof. destruct a, b; cbn; split; intros; try discriminate; reflexivity. Qed.

Lemma dir_eqb_refl : forall a, dir_eqb a a = true.
Proof. destruct a; reflexivity. Qed.

Lemma dir_eq_dec : forall a b : dir, {a = b} + {a <> b}.
Proof. decide equality. Qed.

Lemma cinv_init : forall sel m cntf L k, (1 <= k)%nat -> cntf ctrl_init = 0 -> cinv k sel m cntf L sys_init.
Proof.
  intros; unfold cinv; cbn [sys_init s_ctrl s_threads]; split; [|constructor].
  rewrite H0; cbn; lia.
Qed.

Theorem overshoot_total : forall rc cf sched d k, (1 <= k)%nat ->
  Forall (fun s => (window_count s d <= k)%nat) (trace rc cf sys_init sched) ->
  Forall (fun s => recorded s d + 1 <= limit_of cf d + N.of_nat k) (trace rc cf sys_init sched).
Proof.
  intros rc cf sched d k Hk HW. unfold recorded.
  apply (counting rc cf d k (fun t => dir_eqb (t_dir t) d)) with (m := OpFull)
    (cntf := fun c => bounds_count c d) (L := limit_of cf d); auto.
  - intros t H; apply dir_eqb_eq; exact H.
  - intros c c' H; unfold bounds_count; rewrite H; reflexivity.
  - intros c t; unfold bounds_count. destruct (dir_eq_dec (t_dir t) d) as [E|E].
    + rewrite E, save_peer_bound_same, dir_eqb_refl; cbn [b2n].
      pose proof (aset_add_length_le (t_addr t) (bound c d)); lia.
    + rewrite save_peer_bound_other by auto. lia.
  - intros c t c' k0 H Hs. apply dir_eqb_eq in Hs. apply exec_op_full in H; destruct H as [_ H].
    rewrite <- Hs. apply is_bound_full_pass; auto.
  - intros c k0; unfold bounds_count. destruct (dir_eq_dec (k_dir k0) d) as [E|E].
    + rewrite <- E, remove_peer_bound_same. unfold aset_remove.
      pose proof (filter_length_le _ (fun b => negb (addr_eqb (k_addr k0) b)) (bound c (k_dir k0))); lia.
    + rewrite remove_peer_bound_other by auto; lia.
  - intros pc H; apply (save_positions_spec _ _ (prog_full_before_save d) pc H).
  - apply cinv_init; auto. destruct d; reflexivity.
Qed.

(** ** instance 2: inbound entries of one IP against MaxConnInBoundPerIP *)

Theorem overshoot_per_ip : forall rc cf sched ip k, (1 <= k)%nat ->
  Forall (fun s => (window_count s Inbound <= k)%nat) (trace rc cf sys_init sched) ->
  Forall (fun s => recorded_ip s ip + 1 <= max_per_ip cf + N.of_nat k) (trace rc cf sys_init sched).
Proof.
  intros rc cf sched ip k Hk HW. unfold recorded_ip.
  apply (counting rc cf Inbound k (fun t => dir_eqb (t_dir t) Inbound && (fst (t_addr t) =? ip)))
    with (m := OpIpCount) (cntf := fun c => inbound_count_with_ip c ip) (L := max_per_ip cf); auto.
  - intros t H; apply andb_true_iff in H; destruct H as [H _]; apply dir_eqb_eq; exact H.
  - intros c c' H; unfold inbound_count_with_ip. change (c_in c') with (bound c' Inbound).
    rewrite H; reflexivity.
  - intros c t; unfold inbound_count_with_ip. destruct (t_dir t) eqn:E.
    + change (c_in (fst (save_peer c Inbound (t_addr t) (t_pid t) (t_lport t))))
        with (bound (fst (save_peer c Inbound (t_addr t) (t_pid t) (t_lport t))) Inbound).
      rewrite save_peer_bound_same. cbn [dir_eqb andb bound].
      pose proof (filter_aset_add_length (fun a => fst a =? ip) (t_addr t) (c_in c)) as HF.
      cbn beta in HF. unfold b2n, addr in *. destruct (fst (t_addr t) =? ip); lia.
    + change (c_in (fst (save_peer c Outbound (t_addr t) (t_pid t) (t_lport t))))
        with (bound (fst (save_peer c Outbound (t_addr t) (t_pid t) (t_lport t))) Inbound).
      rewrite save_peer_bound_other by discriminate. cbn [bound]. lia.
  - intros c t c' k0 H Hs. apply andb_true_iff in Hs; destruct Hs as [_ Hs]. apply N.eqb_eq in Hs.
    apply exec_op_ipcount in H; destruct H as [_ H]. rewrite <- Hs. apply ip_full_cmp_pass; auto.
  - intros c k0; unfold inbound_count_with_ip. change (c_in (remove_peer c k0)) with (bound (remove_peer c k0) Inbound).
    destruct (dir_eq_dec (k_dir k0) Inbound) as [E|E].
    + rewrite <- E at 1. rewrite remove_peer_bound_same, E. unfold aset_remove; cbn [bound].
      pose proof (filter_filter_length_le _ (fun a => fst a =? ip) (fun b => negb (addr_eqb (k_addr k0) b)) (c_in c)); unfold addr in *; lia.
    + rewrite remove_peer_bound_other by auto; cbn [bound]; lia.
  - intros pc H; apply (save_positions_spec _ _ prog_ipcount_before_save pc H).
  - apply cinv_init; auto.
Qed.

(** * 6. attempts of one direction that do not overlap: the recorded set IS the set of
      established connections of that direction *)

Definition dirb (d : dir) (k : conn) : bool := dir_eqb (k_dir k) d.
Definition laddrs (s : sys) (d : dir) : list addr := map k_addr (filter (dirb d) (s_live s)).

Definition J3 (d : dir) (s : sys) : Prop :=
  forall j t, nth_error (s_threads s) j = Some t -> t_dir t = d -> passed OpHasBound t = true ->
              ~ In (t_addr t) (bound (s_ctrl s) d).

(** [rc = false] is the code as it is; [rc = true] the repaired variant, which does not need J3 *)
Definition jinv (rc : bool) (d : dir) (s : sys) : Prop :=
  NoDup (bound (s_ctrl s) d) /\ NoDup (laddrs s d) /\
  (forall a, In a (bound (s_ctrl s) d) <-> In a (laddrs s d)) /\
  (rc = false -> J3 d s) /\
  Forall defer_wf (s_threads s).

Lemma nth_error_upd : forall A (l : list A) i j x old y, nth_error l i = Some old ->
  nth_error (upd l i x) j = Some y -> (j = i /\ y = x) \/ (j <> i /\ nth_error l j = Some y).
Proof.
  intros A l i j x old y Hi H. destruct (Nat.eq_dec i j) as [->|N].
  - erewrite upd_nth_same in H by eauto. inversion H; auto.
  - rewrite upd_nth_other in H by auto. right; split; auto.
Qed.

Lemma NoDup_snoc : forall A (l : list A) a, NoDup l -> ~ In a l -> NoDup (l ++ [a]).
Proof.
  induction l; intros x H Hn; cbn; [constructor; auto; constructor|].
  inversion H; subst. constructor.
  - rewrite in_app_iff; cbn. intros [?|[?|[]]]; [contradiction|subst; apply Hn; left; reflexivity].
  - apply IHl; auto. intros ?; apply Hn; right; auto.
Qed.

Lemma set_thread_addr : forall t pc df o, t_addr (set_thread t pc df o) = t_addr t.
Proof. reflexivity. Qed.
Lemma set_thread_dir : forall t pc df o, t_dir (set_thread t pc df o) = t_dir t.
Proof. reflexivity. Qed.

Lemma has_bound_false : forall c a d, has_bound_addr c a = false -> ~ In a (bound c d).
Proof.
  intros c a d H; unfold has_bound_addr in H.
  apply orb_false_iff in H; destruct H as [H _]. apply orb_false_iff in H; destruct H as [H1 H2].
  destruct d; cbn [bound]; apply amem_false; auto.
Qed.

Lemma passed_hasbound_window : forall t, passed OpHasBound t = true -> in_window t = true.
Proof. intros; eapply passed_in_window; eauto; reflexivity. Qed.

Lemma jinv_step : forall rc cf d s e, jinv rc d s -> (rc = false -> (window_count s d <= 1)%nat) ->
  jinv rc d (step rc cf s e).
Proof.
  intros rc cf d s e (HB & HL & HE & HT & HD) HW. destruct e as [d1 a pid lp r dl hs | i | i].
  - (* Spawn *)
    cbn [step]; unfold jinv, laddrs; cbn [s_ctrl s_threads s_live]. repeat split; auto; try apply HE.
    + intros Hrc j t Hj Hd Hp. cbn [s_threads s_ctrl] in *.
      apply nth_error_app_one in Hj; destruct Hj as [Hj|[_ ->]]; [eapply (HT Hrc); eauto|].
      unfold passed in Hp; cbn in Hp; discriminate.
    + apply Forall_app; split; auto. constructor; [constructor|constructor].
  - (* Run *)
    unfold step. destruct (nth_error (s_threads s) i) as [t|] eqn:Ht; [|repeat split; auto; apply HE].
    destruct (run_thread rc cf (s_ctrl s) t) as [[c' t'] k0] eqn:Hr.
    assert (HDt : defer_wf t) by (rewrite Forall_forall in HD; apply HD; eapply nth_error_In; eauto).
    apply run_thread_tstep in Hr.
    (* everything except a successful savePeer keeps the set and the live list *)
    assert (Hkeep : forall t1, k0 = None -> (forall d', bound c' d' = bound (s_ctrl s) d') ->
              Forall defer_wf (upd (s_threads s) i t1) ->
              (rc = false -> t_dir t1 = d -> passed OpHasBound t1 = true -> ~ In (t_addr t1) (bound (s_ctrl s) d)) ->
              jinv rc d {| s_ctrl := c'; s_threads := upd (s_threads s) i t1;
                           s_live := match k0 with Some k1 => s_live s ++ [k1] | None => s_live s end |}).
    { intros t1 -> Hb Hf H1. unfold jinv, laddrs; cbn [s_ctrl s_threads s_live]. rewrite Hb.
      repeat split; auto; try apply HE.
      intros Hrc j t2 Hj Hd Hp. cbn [s_threads s_ctrl] in *. rewrite Hb.
      eapply nth_error_upd in Hj; eauto. destruct Hj as [[_ ->]|[_ Hj]]; [auto|eapply (HT Hrc); eauto]. }
    inversion Hr; subst; clear Hr.
    + (* idle *) apply Hkeep; auto. apply Forall_upd; auto. intros Hrc ? ?; eapply (HT Hrc); eauto.
    + (* end *) apply Hkeep; auto. apply Forall_upd; auto.
      intros _ _ Hp; rewrite passed_not_pending in Hp by discriminate; discriminate.
    + (* defer registration *)
      apply Hkeep; auto.
      * apply Forall_upd; auto. unfold defer_wf; cbn. constructor; auto. eapply deferred_is_remove; eauto.
      * intros Hrc Hd Hp. apply (passed_step_other OpHasBound t (IDefer o)) in Hp; auto.
        rewrite set_thread_addr. eapply (HT Hrc); eauto.
    + (* a section *)
      destruct (op_eqb o OpSave) eqn:Eo; [apply op_eqb_eq in Eo; subst o|].
      * (* savePeer *)
        apply exec_op_save in H1; destruct H1 as [[_ [-> [-> Hne]]]|[-> [-> [-> Hrk]]]].
        -- apply Hkeep; auto. apply Forall_upd; auto.
           destruct e as [e0|]; [|congruence]. intros _ _ Hp; rewrite passed_not_pending in Hp by discriminate; discriminate.
        -- destruct (save_peer_conn (s_ctrl s) (t_dir t) (t_addr t) (t_pid t) (t_lport t)) as [Kd Ka].
           unfold jinv, laddrs; cbn [s_ctrl s_threads s_live].
           rewrite filter_app, map_app; cbn [filter].
           assert (Edb : dirb d (snd (save_peer (s_ctrl s) (t_dir t) (t_addr t) (t_pid t) (t_lport t)))
                         = dir_eqb (t_dir t) d) by (unfold dirb; rewrite Kd; reflexivity).
           rewrite Edb.
           destruct (dir_eq_dec (t_dir t) d) as [Ed|Ed].
           ++ (* an attempt of direction d records its connection *)
              assert (Hp : passed OpHasBound t = true).
              { apply passed_at_save; auto.
                apply (save_positions_spec _ _ (prog_hasbound_before_save (t_dir t)) _ H0). }
              assert (Hn : ~ In (t_addr t) (bound (s_ctrl s) d)).
              { destruct rc.
                - subst d. apply amem_false. apply Hrk; reflexivity.
                - eapply (HT eq_refl); eauto. }
              subst d. rewrite save_peer_bound_same, dir_eqb_refl. cbn [map]. rewrite Ka.
              repeat split.
              ** apply aset_add_NoDup; auto.
              ** apply NoDup_snoc; auto. intros Hin; apply Hn; apply HE; exact Hin.
              ** intros Hin; apply aset_add_In in Hin; rewrite in_app_iff; cbn [In].
                 destruct Hin as [->|Hin]; auto. left; apply HE; auto.
              ** intros Hin; rewrite in_app_iff in Hin; cbn [In] in Hin; apply aset_add_In.
                 destruct Hin as [Hin|[<-|[]]]; auto. right; apply HE; auto.
              ** intros Hrc j t2 Hj Hd2 Hp2. cbn [s_threads s_ctrl] in *.
                 eapply nth_error_upd in Hj; eauto. destruct Hj as [[_ ->]|[Nj Hj]].
                 --- rewrite passed_after_save in Hp2 by auto; discriminate.
                 --- exfalso; apply Nj.
                     apply (cnt_le1_unique _ (fun t0 => dir_eqb (t_dir t0) (t_dir t) && in_window t0) (s_threads s) j i t2 t); auto.
                     +++ rewrite Hd2, dir_eqb_refl, (passed_hasbound_window _ Hp2); reflexivity.
                     +++ rewrite dir_eqb_refl, (passed_hasbound_window _ Hp); reflexivity.
              ** apply Forall_upd; auto.
           ++ (* another direction: nothing of direction d changes *)
              rewrite save_peer_bound_other by auto.
              assert (Ef : dir_eqb (t_dir t) d = false).
              { destruct (dir_eqb (t_dir t) d) eqn:E; auto. apply dir_eqb_eq in E; contradiction. }
              rewrite Ef; cbn [map]; rewrite app_nil_r.
              repeat split; auto; try apply HE.
              ** intros Hrc j t2 Hj Hd2 Hp2. cbn [s_threads s_ctrl] in *. rewrite save_peer_bound_other by auto.
                 eapply nth_error_upd in Hj; eauto. destruct Hj as [[_ ->]|[_ Hj]]; [|eapply (HT Hrc); eauto].
                 rewrite set_thread_dir in Hd2; contradiction.
              ** apply Forall_upd; auto.
      * assert (Hns : o <> OpSave) by (intros ->; rewrite op_eqb_refl in Eo; discriminate).
        pose proof (exec_op_not_save _ _ _ _ _ _ _ _ H1 Hns) as [-> Hb].
        apply Hkeep; auto. apply Forall_upd; auto.
        intros Hrc Hd Hp. rewrite set_thread_addr.
        destruct (op_eqb OpHasBound o) eqn:Eh.
        -- apply op_eqb_eq in Eh; subst o. destruct e as [e0|].
           ++ rewrite passed_not_pending in Hp by discriminate; discriminate.
           ++ apply exec_op_hasbound in H1; destruct H1 as [_ H1]. apply has_bound_false; auto.
        -- assert (Hy : item_is OpSave (IOp o) = false) by (cbn; destruct o; try reflexivity; congruence).
           apply (passed_step_other OpHasBound t (IOp o) _ _ H H0 Eh Hy) in Hp. eapply (HT Hrc); eauto.
    + (* a deferred call *)
      assert (Ho : o = OpRemoveConnecting).
      { unfold defer_wf in HDt. rewrite H0 in HDt. inversion HDt; auto. }
      subst o. pose proof (exec_op_not_save _ _ _ _ _ _ _ _ H1 ltac:(discriminate)) as [_ Hb].
      apply (Hkeep (set_thread t (t_pc t) r (t_out t)) eq_refl); auto.
      * apply Forall_upd; auto. unfold defer_wf in *; cbn. rewrite H0 in HDt. inversion HDt; auto.
      * intros _ _ Hp; rewrite passed_not_pending in Hp by auto; discriminate.
  - (* Close *)
    unfold step. destruct (nth_error (s_live s) i) as [k0|] eqn:Hk; [|repeat split; auto; apply HE].
    destruct (del_nth_split _ _ _ _ Hk) as [l1 [l2 [E1 E2]]].
    unfold jinv, laddrs in *; cbn [s_ctrl s_threads s_live]. rewrite E2. rewrite E1 in HL, HE.
    rewrite filter_app, map_app in *. cbn [filter] in HL, HE.
    destruct (dir_eq_dec (k_dir k0) d) as [Ed|Ed].
    + assert (Et : dirb d k0 = true) by (unfold dirb; rewrite Ed; apply dir_eqb_refl).
      rewrite Et in HL, HE. cbn [map] in HL, HE. subst d. rewrite remove_peer_bound_same.
      pose proof (NoDup_remove _ _ _ HL) as [HL1 HL2].
      repeat split; auto.
      * apply aset_remove_NoDup; auto.
      * intros Hin; apply aset_remove_In in Hin; destruct Hin as [Hin Hne].
        apply HE in Hin. rewrite in_app_iff in *; cbn [In] in Hin. destruct Hin as [?|[?|?]]; auto.
        subst; contradiction.
      * intros Hin; apply aset_remove_In; split.
        -- apply HE. rewrite in_app_iff in *; cbn [In]. destruct Hin; auto.
        -- intros ->; contradiction.
      * intros Hrc j t Hj Hd Hp Hin. cbn [s_threads s_ctrl] in *. rewrite remove_peer_bound_same in Hin.
        apply aset_remove_In in Hin; destruct Hin as [Hin _].
        revert Hin. eapply (HT Hrc); eauto.
    + assert (Ef : dirb d k0 = false).
      { unfold dirb; destruct (dir_eqb (k_dir k0) d) eqn:E; auto. apply dir_eqb_eq in E; contradiction. }
      rewrite Ef in HL, HE. rewrite remove_peer_bound_other by auto.
      repeat split; auto; try apply HE.
      intros Hrc j t Hj Hd Hp. cbn [s_threads s_ctrl] in *. rewrite remove_peer_bound_other by auto.
      eapply (HT Hrc); eauto.
Qed.

Lemma filter_map_length : forall d (f : addr -> bool) (l : list conn),
  length (filter (fun k => dir_eqb (k_dir k) d && f (k_addr k)) l)
  = length (filter f (map k_addr (filter (dirb d) l))).
Proof.
  induction l as [|k l IH]; cbn; auto. unfold dirb at 1.
  destruct (dir_eqb (k_dir k) d); cbn; [destruct (f (k_addr k)); cbn; rewrite IH; reflexivity | exact IH].
Qed.

Lemma NoDup_same_length : forall (l1 l2 : list addr), NoDup l1 -> NoDup l2 ->
  (forall a, In a l1 <-> In a l2) -> length l1 = length l2.
Proof. intros; apply Permutation_length, NoDup_Permutation; auto. Qed.

Lemma jinv_counts : forall rc d s, jinv rc d s ->
  live_count s d = recorded s d /\
  (d = Inbound -> forall ip, live_count_ip s ip = recorded_ip s ip).
Proof.
  intros rc d s (HB & HL & HE & _ & _); split.
  - unfold live_count, recorded, bounds_count. f_equal.
    transitivity (length (laddrs s d)); [unfold laddrs; rewrite map_length; reflexivity|].
    symmetry; apply NoDup_same_length; auto.
  - intros -> ip. unfold live_count_ip, recorded_ip, inbound_count_with_ip. f_equal.
    rewrite (filter_map_length Inbound (fun a => fst a =? ip)).
    symmetry; apply NoDup_same_length.
    + apply NoDup_filter; exact HB.
    + apply NoDup_filter; exact HL.
    + intros a; rewrite !filter_In. cbn [bound] in HE. rewrite (HE a). unfold laddrs. reflexivity.
Qed.

Lemma jinv_init : forall rc d, jinv rc d sys_init.
Proof.
  intros rc d; unfold jinv, laddrs, J3; cbn. repeat split; auto; try constructor; try contradiction.
  - destruct d; constructor.
  - destruct d; cbn; auto.
  - intros _ j t Hj; destruct j; discriminate.
Qed.

Lemma window_init : forall d, window_count sys_init d = 0%nat.
Proof. reflexivity. Qed.

(** the states of a trace, with the previous state's hypothesis available at each step *)
Lemma jinv_trace : forall rc cf d sched s, jinv rc d s -> (rc = false -> (window_count s d <= 1)%nat) ->
  (rc = false -> Forall (fun s' => (window_count s' d <= 1)%nat) (trace rc cf s sched)) ->
  Forall (jinv rc d) (trace rc cf s sched).
Proof.
  induction sched as [|e r IH]; intros s HJ H0 HW; cbn [trace] in *; [constructor|].
  assert (HJ' := jinv_step rc cf d s e HJ H0).
  constructor; auto. apply IH; auto.
  - intros Hrc; specialize (HW Hrc); inversion HW; auto.
  - intros Hrc; specialize (HW Hrc); inversion HW; auto.
Qed.

(** The property, as a predicate on one state: every count the statement speaks about
    (recorded entries = InboundsCount/OutboundsCount, per-IP entries, and established connections =
    successful AcceptConnect/Connect calls not yet closed) is within its limit. *)
Definition limits_hold (cf : cfg) (s : sys) : Prop :=
  recorded s Inbound <= max_in cf /\ recorded s Outbound <= max_out cf /\
  live_count s Inbound <= max_in cf /\ live_count s Outbound <= max_out cf /\
  forall ip, recorded_ip s ip <= max_per_ip cf /\ live_count_ip s ip <= max_per_ip cf.

Lemma Forall_and3 : forall A (P Q R : A -> Prop) l, Forall P l -> Forall Q l -> Forall R l ->
  Forall (fun x => P x /\ Q x /\ R x) l.
Proof. induction l; intros HP HQ HR; constructor; inversion HP; inversion HQ; inversion HR; subst; auto. Qed.

Lemma Forall_all : forall A B (P : B -> A -> Prop) l, (forall b, Forall (P b) l) -> Forall (fun x => forall b, P b x) l.
Proof.
  induction l; intros H; constructor.
  - intros b; specialize (H b); inversion H; auto.
  - apply IHl; intros b; specialize (H b); inversion H; auto.
Qed.

Theorem nonoverlap_limits : forall cf sched,
  Forall (fun s => (window_count s Inbound <= 1)%nat /\ (window_count s Outbound <= 1)%nat)
         (trace false cf sys_init sched) ->
  Forall (limits_hold cf) (trace false cf sys_init sched).
Proof.
  intros cf sched HW.
  assert (HWi : Forall (fun s => (window_count s Inbound <= 1)%nat) (trace false cf sys_init sched))
    by (eapply Forall_impl; [|exact HW]; intros ? [? ?]; auto).
  assert (HWo : Forall (fun s => (window_count s Outbound <= 1)%nat) (trace false cf sys_init sched))
    by (eapply Forall_impl; [|exact HW]; intros ? [? ?]; auto).
  pose proof (overshoot_total false cf sched Inbound 1 (le_n 1) HWi) as Ti.
  pose proof (overshoot_total false cf sched Outbound 1 (le_n 1) HWo) as To.
  pose proof (Forall_all _ _ (fun ip s => recorded_ip s ip + 1 <= max_per_ip cf + N.of_nat 1) _
                (fun ip => overshoot_per_ip false cf sched ip 1 (le_n 1) HWi)) as Tp.
  pose proof (jinv_trace false cf Inbound sched sys_init (jinv_init _ _) ltac:(intros; rewrite window_init; lia) (fun _ => HWi)) as Ji.
  pose proof (jinv_trace false cf Outbound sched sys_init (jinv_init _ _) ltac:(intros; rewrite window_init; lia) (fun _ => HWo)) as Jo.
  pose proof (Forall_and3 _ _ _ _ _ Ti To Tp) as T1.
  pose proof (Forall_and3 _ _ _ _ _ T1 Ji Jo) as T2.
  eapply Forall_impl; [|exact T2]. cbn beta.
  intros s [[Hi [Ho Hp]] [HJi HJo]].
  apply jinv_counts in HJi; destruct HJi as [Li Lip]. apply jinv_counts in HJo; destruct HJo as [Lo _].
  cbn [limit_of] in *. unfold limits_hold. rewrite Li, Lo.
  repeat split; try lia.
  - specialize (Hp ip); lia.
  - rewrite (Lip eq_refl ip). specialize (Hp ip); lia.
Qed.

(** * 7. the repaired variant: savePeer re-validates under its own lock *)

Definition rlim (cf : cfg) (s : sys) : Prop :=
  (forall d, bounds_count (s_ctrl s) d <= limit_of cf d) /\
  (forall ip, inbound_count_with_ip (s_ctrl s) ip <= max_per_ip cf) /\
  Forall defer_wf (s_threads s).

Lemma rlim_step : forall cf s e, rlim cf s -> rlim cf (step true cf s e).
Proof.
  intros cf s e (HB & HP & HD). destruct e as [d1 a pid lp r dl hs | i | i].
  - cbn [step]; unfold rlim; cbn [s_ctrl s_threads]; repeat split; auto.
    apply Forall_app; split; auto. constructor; [constructor|constructor].
  - unfold step. destruct (nth_error (s_threads s) i) as [t|] eqn:Ht; [|repeat split; auto].
    destruct (run_thread true cf (s_ctrl s) t) as [[c' t'] k0] eqn:Hr.
    assert (HDt : defer_wf t) by (rewrite Forall_forall in HD; apply HD; eapply nth_error_In; eauto).
    apply run_thread_tstep in Hr.
    assert (Hkeep : forall t1, (forall d', bound c' d' = bound (s_ctrl s) d') ->
              Forall defer_wf (upd (s_threads s) i t1) ->
              rlim cf {| s_ctrl := c'; s_threads := upd (s_threads s) i t1;
                         s_live := match k0 with Some k1 => s_live s ++ [k1] | None => s_live s end |}).
    { intros t1 Hb Hf. unfold rlim; cbn [s_ctrl s_threads]. repeat split; auto.
      - intros d; unfold bounds_count; rewrite Hb; apply HB.
      - intros ip; unfold inbound_count_with_ip. change (c_in c') with (bound c' Inbound). rewrite Hb. apply HP. }
    inversion Hr; subst; clear Hr.
    + apply Hkeep; auto. apply Forall_upd; auto.
    + apply Hkeep; auto. apply Forall_upd; auto.
    + apply Hkeep; auto. apply Forall_upd; auto. unfold defer_wf; cbn. constructor; auto.
      eapply deferred_is_remove; eauto.
    + destruct (op_eqb o OpSave) eqn:Eo; [apply op_eqb_eq in Eo; subst o|].
      * apply exec_op_save in H1; destruct H1 as [[_ [-> [-> Hne]]]|[-> [-> [-> Hrk]]]].
        -- apply Hkeep; auto. apply Forall_upd; auto.
        -- destruct (Hrk eq_refl) as [Hm [Hf Hi]].
           unfold rlim; cbn [s_ctrl s_threads]. repeat split; [| |apply Forall_upd; auto].
           ++ intros d; unfold bounds_count. destruct (dir_eq_dec (t_dir t) d) as [Ed|Ed].
              ** subst d. rewrite save_peer_bound_same. apply is_bound_full_pass in Hf. unfold bounds_count in Hf.
                 pose proof (aset_add_length_le (t_addr t) (bound (s_ctrl s) (t_dir t))). lia.
              ** rewrite save_peer_bound_other by auto. apply HB.
           ++ intros ip; unfold inbound_count_with_ip.
              change (c_in (fst (save_peer (s_ctrl s) (t_dir t) (t_addr t) (t_pid t) (t_lport t))))
                with (bound (fst (save_peer (s_ctrl s) (t_dir t) (t_addr t) (t_pid t) (t_lport t))) Inbound).
              destruct (t_dir t) eqn:Ed.
              ** rewrite save_peer_bound_same. cbn [bound].
                 pose proof (filter_aset_add_length (fun a => fst a =? ip) (t_addr t) (c_in (s_ctrl s))) as HF.
                 cbn beta in HF. specialize (Hi eq_refl). apply ip_full_cmp_pass in Hi.
                 unfold inbound_count_with_ip in Hi. specialize (HP ip). unfold inbound_count_with_ip in HP.
                 unfold addr in *. destruct (fst (t_addr t) =? ip) eqn:Eip.
                 --- apply N.eqb_eq in Eip; subst ip. lia.
                 --- lia.
              ** rewrite save_peer_bound_other by discriminate. apply HP.
      * assert (Hns : o <> OpSave) by (intros ->; rewrite op_eqb_refl in Eo; discriminate).
        pose proof (exec_op_not_save _ _ _ _ _ _ _ _ H1 Hns) as [_ Hb].
        apply Hkeep; auto. apply Forall_upd; auto.
    + assert (Ho : o = OpRemoveConnecting).
      { unfold defer_wf in HDt. rewrite H0 in HDt. inversion HDt; auto. }
      subst o. pose proof (exec_op_not_save _ _ _ _ _ _ _ _ H1 ltac:(discriminate)) as [_ Hb].
      apply Hkeep; auto. apply Forall_upd; auto. unfold defer_wf in *; cbn. rewrite H0 in HDt. inversion HDt; auto.
  - unfold step. destruct (nth_error (s_live s) i) as [k0|] eqn:Hk; [|repeat split; auto].
    unfold rlim; cbn [s_ctrl s_threads]. repeat split; auto.
    + intros d; unfold bounds_count. destruct (dir_eq_dec (k_dir k0) d) as [E|E].
      * subst d. rewrite remove_peer_bound_same. unfold aset_remove.
        pose proof (filter_length_le _ (fun b => negb (addr_eqb (k_addr k0) b)) (bound (s_ctrl s) (k_dir k0))).
        specialize (HB (k_dir k0)); unfold bounds_count in HB. lia.
      * rewrite remove_peer_bound_other by auto. apply HB.
    + intros ip; unfold inbound_count_with_ip.
      change (c_in (remove_peer (s_ctrl s) k0)) with (bound (remove_peer (s_ctrl s) k0) Inbound).
      specialize (HP ip); unfold inbound_count_with_ip in HP.
      destruct (dir_eq_dec (k_dir k0) Inbound) as [E|E].
      * rewrite <- E at 1. rewrite remove_peer_bound_same, E. unfold aset_remove; cbn [bound].
        pose proof (filter_filter_length_le _ (fun a => fst a =? ip) (fun b => negb (addr_eqb (k_addr k0) b)) (c_in (s_ctrl s))).
        unfold addr in *; lia.
      * rewrite remove_peer_bound_other by auto; cbn [bound]; exact HP.
Qed.

Lemma rlim_trace : forall cf sched s, rlim cf s -> Forall (rlim cf) (trace true cf s sched).
Proof.
  induction sched as [|e r IH]; intros s H; cbn [trace]; constructor; auto using rlim_step.
Qed.

Theorem repaired_limits : forall cf sched, Forall (limits_hold cf) (trace true cf sys_init sched).
Proof.
  intros cf sched.
  assert (R : Forall (rlim cf) (trace true cf sys_init sched)).
  { apply rlim_trace. unfold rlim; cbn. repeat split; try constructor.
    - intros d; destruct d; cbn; lia.
    - intros ip; lia. }
  pose proof (jinv_trace true cf Inbound sched sys_init (jinv_init _ _) ltac:(discriminate) ltac:(discriminate)) as Ji.
  pose proof (jinv_trace true cf Outbound sched sys_init (jinv_init _ _) ltac:(discriminate) ltac:(discriminate)) as Jo.
  pose proof (Forall_and3 _ _ _ _ _ R Ji Jo) as T.
  eapply Forall_impl; [|exact T]. cbn beta. intros s [[HB [HP _]] [HJi HJo]].
  apply jinv_counts in HJi; destruct HJi as [Li Lip]. apply jinv_counts in HJo; destruct HJo as [Lo _].
  unfold limits_hold. rewrite Li, Lo. unfold recorded, recorded_ip.
  pose proof (HB Inbound) as Hi; pose proof (HB Outbound) as Ho. cbn [limit_of] in Hi, Ho.
  split; [exact Hi|]. split; [exact Ho|]. split; [exact Hi|]. split; [exact Ho|].
  intros ip; split; [apply HP | rewrite (Lip eq_refl ip); apply HP].
Qed.

(** * 8. the code as it is (rc = false): explicit schedules that exceed each limit *)

Lemma trace_last : forall (P : sys -> Prop) rc cf sched s, Forall P (trace rc cf s sched) -> sched <> [] ->
  P (fold_left (step rc cf) sched s).
Proof.
  induction sched as [|e r IH]; intros s H Hne; [congruence|].
  cbn [trace fold_left] in *. inversion H; subst. destruct r as [|e2 r2]; [exact H2|].
  apply IH; auto; discriminate.
Qed.

(** boolean form of a trace hypothesis, for concrete schedules *)
Lemma forallb_Forall : forall A (f : A -> bool) l, forallb f l = true -> Forall (fun x => f x = true) l.
Proof. intros A f l H; apply Forall_forall; apply forallb_forall; exact H. Qed.

(** F13, total inbound limit: MaxConnInBound = 1, two peers (different IPs) connect at the same
    time; both accepting goroutines run their checks before either reaches savePeer. *)
Definition w_cfg_in : cfg := {| max_in := 1; max_out := 1; max_per_ip := 1; self_id := 99 |}.
Definition w_sched_in : list ev :=
  [Spawn Inbound (1, 5001) 11 20338 true true true; Spawn Inbound (2, 5002) 12 20338 true true true]
  ++ repeat (Run 0) 5 ++ repeat (Run 1) 5      (* checkReserved, hasBoundAddr, OwnAddress, isBoundFull, getInboundCountWithIp *)
  ++ repeat (Run 0) 4 ++ repeat (Run 1) 4.     (* handshake, isHandWithSelf, getPeer, savePeer *)

(** per-IP limit: MaxConnInBoundPerIP = 1, two connections from the same IP. *)
Definition w_cfg_ip : cfg := {| max_in := 10; max_out := 10; max_per_ip := 1; self_id := 99 |}.
Definition w_sched_ip : list ev :=
  [Spawn Inbound (1, 5001) 11 20338 true true true; Spawn Inbound (1, 5002) 12 20339 true true true]
  ++ repeat (Run 0) 5 ++ repeat (Run 1) 5 ++ repeat (Run 0) 4 ++ repeat (Run 1) 4.

(** outbound limit: MaxConnOutBound = 1, two Connect calls to different addresses. *)
Definition w_cfg_out : cfg := {| max_in := 1; max_out := 1; max_per_ip := 1; self_id := 99 |}.
Definition w_sched_out : list ev :=
  [Spawn Outbound (1, 20338) 11 20338 true true true; Spawn Outbound (2, 20338) 12 20338 true true true]
  ++ repeat (Run 0) 4 ++ repeat (Run 1) 4      (* checkReserved, hasBoundAddr, OwnAddress, isBoundFull *)
  ++ repeat (Run 0) 8 ++ repeat (Run 1) 8.     (* tryAddConnecting, defer, Dial, handshake, isHandWithSelf, getPeer, savePeer, removeConnecting *)

Lemma witness_in : max_in w_cfg_in < recorded (run false w_cfg_in w_sched_in) Inbound
                   /\ max_in w_cfg_in < live_count (run false w_cfg_in w_sched_in) Inbound.
Proof. vm_compute; split; reflexivity. Qed.

Lemma witness_ip : max_per_ip w_cfg_ip < recorded_ip (run false w_cfg_ip w_sched_ip) 1
                   /\ max_per_ip w_cfg_ip < live_count_ip (run false w_cfg_ip w_sched_ip) 1.
Proof. vm_compute; split; reflexivity. Qed.

Lemma witness_out : max_out w_cfg_out < recorded (run false w_cfg_out w_sched_out) Outbound
                    /\ max_out w_cfg_out < live_count (run false w_cfg_out w_sched_out) Outbound.
Proof. vm_compute; split; reflexivity. Qed.

(** the overshoot bound of section 5 is attained by these schedules: two overlapping attempts,
    limit 1, two entries *)
Lemma witness_in_window : forallb (fun s => Nat.leb (window_count s Inbound) 2) (trace false w_cfg_in sys_init w_sched_in) = true.
Proof. vm_compute; reflexivity. Qed.

Theorem statement_refuted :
  ~ (forall cf sched, Forall (limits_hold cf) (trace false cf sys_init sched)).
Proof.
  intros H. specialize (H w_cfg_in w_sched_in).
  apply trace_last in H; [|discriminate]. destruct H as [H _].
  apply H. vm_compute. reflexivity.
Qed.

(** a sequential schedule (no overlap) that fills the inbound limit exactly and has the third
    attempt refused: the hypotheses of the partial theorems are satisfiable and not trivial *)
Definition nv_cfg : cfg := {| max_in := 2; max_out := 2; max_per_ip := 2; self_id := 99 |}.
Definition nv_sched : list ev :=
  [Spawn Inbound (1, 5001) 11 20338 true true true] ++ repeat (Run 0) 9 ++
  [Spawn Inbound (2, 5002) 12 20338 true true true] ++ repeat (Run 1) 9 ++
  [Spawn Inbound (3, 5003) 13 20338 true true true] ++ repeat (Run 2) 9 ++
  [Spawn Outbound (4, 20338) 14 20338 true true true] ++ repeat (Run 3) 12 ++ [Close 0].

Lemma nv_nonoverlap :
  Forall (fun s => (window_count s Inbound <= 1)%nat /\ (window_count s Outbound <= 1)%nat)
         (trace false nv_cfg sys_init nv_sched).
Proof.
  assert (H : forallb (fun s => Nat.leb (window_count s Inbound) 1 && Nat.leb (window_count s Outbound) 1)
                      (trace false nv_cfg sys_init nv_sched) = true) by (vm_compute; reflexivity).
  apply forallb_Forall in H. eapply Forall_impl; [|exact H]. cbn beta.
  intros s E; apply andb_true_iff in E; destruct E as [E1 E2]. apply Nat.leb_le in E1, E2; auto.
Qed.

Lemma nv_facts :
  (recorded (run false nv_cfg (firstn 30 nv_sched)) Inbound = max_in nv_cfg /\
   live_count (run false nv_cfg (firstn 30 nv_sched)) Inbound = 2)
  /\ map t_out (s_threads (run false nv_cfg nv_sched)) = [Done; Done; Failed EBoundFull; Done]
  /\ recorded (run false nv_cfg nv_sched) Inbound = 1 /\ recorded (run false nv_cfg nv_sched) Outbound = 1.
Proof.
  vm_compute; auto.
Qed.

(** * 9. what the pre-handshake check does guarantee (outside the finding class)

    An attempt whose limit check runs while the recorded count of its direction (or of its IP) is
    already at or over the limit is refused and is never recorded; while the count stays at or
    over the limit, (recorded + attempts that have passed the check and not yet saved) cannot
    grow, so the count exceeds the limit by at most the attempts that were in flight past their
    check when the last slot was taken. *)

Lemma dwf_step : forall rc cf s e, Forall defer_wf (s_threads s) -> Forall defer_wf (s_threads (step rc cf s e)).
Proof.
  intros rc cf s e HD. destruct e as [d a pid lp r dl hs | i | i].
  - cbn [step s_threads]. apply Forall_app; split; auto. constructor; [constructor|constructor].
  - unfold step. destruct (nth_error (s_threads s) i) as [t|] eqn:Ht; auto.
    destruct (run_thread rc cf (s_ctrl s) t) as [[c' t'] k0] eqn:Hr. cbn [s_threads].
    assert (HDt : defer_wf t) by (rewrite Forall_forall in HD; apply HD; eapply nth_error_In; eauto).
    apply Forall_upd; auto.
    apply run_thread_tstep in Hr. inversion Hr; subst; clear Hr; auto.
    + unfold defer_wf; cbn. constructor; auto. eapply deferred_is_remove; eauto.
    + unfold defer_wf in *; cbn. rewrite H0 in HDt. inversion HDt; auto.
  - unfold step. destruct (nth_error (s_live s) i); auto.
Qed.

Lemma dwf_trace : forall rc cf sched s, Forall defer_wf (s_threads s) ->
  Forall (fun s' => Forall defer_wf (s_threads s')) (trace rc cf s sched).
Proof.
  induction sched as [|e r IH]; intros s H; cbn [trace]; constructor; auto using dwf_step.
Qed.

Lemma dwf_run : forall rc cf sched, Forall defer_wf (s_threads (run rc cf sched)).
Proof.
  intros rc cf sched; unfold run.
  assert (G : forall l s, Forall defer_wf (s_threads s) -> Forall defer_wf (s_threads (fold_left (step rc cf) l s))).
  { induction l; intros s H; cbn; auto using dwf_step. }
  apply G; constructor.
Qed.

(** attempts of direction d that have passed isBoundFull and still have savePeer ahead *)
Definition past_full (s : sys) (d : dir) : N :=
  N.of_nat (cnt (fun t => dir_eqb (t_dir t) d && passed OpFull t) (s_threads s)).
(** inbound attempts from [ip] that have passed the per-IP test and still have savePeer ahead *)
Definition past_ipcheck (s : sys) (ip : N) : N :=
  N.of_nat (cnt (fun t => (dir_eqb (t_dir t) Inbound && (fst (t_addr t) =? ip)) && passed OpIpCount t) (s_threads s)).

Lemma at_limit_step_total : forall rc cf d s e, Forall defer_wf (s_threads s) ->
  limit_of cf d <= recorded s d ->
  recorded (step rc cf s e) d + past_full (step rc cf s e) d <= recorded s d + past_full s d.
Proof.
  intros rc cf d s e HD HL.
  apply (potential_step rc cf d (fun t => dir_eqb (t_dir t) d)) with (m := OpFull)
    (cntf := fun c => bounds_count c d) (L := limit_of cf d); auto.
  - intros t H; apply dir_eqb_eq; exact H.
  - intros c c' H; unfold bounds_count; rewrite H; reflexivity.
  - intros c t; unfold bounds_count. destruct (dir_eq_dec (t_dir t) d) as [E|E].
    + rewrite E, save_peer_bound_same, dir_eqb_refl; cbn [b2n].
      pose proof (aset_add_length_le (t_addr t) (bound c d)); lia.
    + rewrite save_peer_bound_other by auto. lia.
  - intros c t c' k0 H Hs. apply dir_eqb_eq in Hs. apply exec_op_full in H; destruct H as [_ H].
    rewrite <- Hs. apply is_bound_full_pass; auto.
  - intros c k0; unfold bounds_count. destruct (dir_eq_dec (k_dir k0) d) as [E|E].
    + rewrite <- E, remove_peer_bound_same. unfold aset_remove.
      pose proof (filter_length_le _ (fun b => negb (addr_eqb (k_addr k0) b)) (bound c (k_dir k0))); lia.
    + rewrite remove_peer_bound_other by auto; lia.
  - intros pc H; apply (save_positions_spec _ _ (prog_full_before_save d) pc H).
Qed.

Lemma at_limit_step_ip : forall rc cf ip s e, Forall defer_wf (s_threads s) ->
  max_per_ip cf <= recorded_ip s ip ->
  recorded_ip (step rc cf s e) ip + past_ipcheck (step rc cf s e) ip <= recorded_ip s ip + past_ipcheck s ip.
Proof.
  intros rc cf ip s e HD HL.
  apply (potential_step rc cf Inbound (fun t => dir_eqb (t_dir t) Inbound && (fst (t_addr t) =? ip)))
    with (m := OpIpCount) (cntf := fun c => inbound_count_with_ip c ip) (L := max_per_ip cf); auto.
  - intros t H; apply andb_true_iff in H; destruct H as [H _]; apply dir_eqb_eq; exact H.
  - intros c c' H; unfold inbound_count_with_ip. change (c_in c') with (bound c' Inbound).
    rewrite H; reflexivity.
  - intros c t; unfold inbound_count_with_ip. destruct (t_dir t) eqn:E.
    + change (c_in (fst (save_peer c Inbound (t_addr t) (t_pid t) (t_lport t))))
        with (bound (fst (save_peer c Inbound (t_addr t) (t_pid t) (t_lport t))) Inbound).
      rewrite save_peer_bound_same. cbn [dir_eqb andb bound].
      pose proof (filter_aset_add_length (fun a => fst a =? ip) (t_addr t) (c_in c)) as HF.
      cbn beta in HF. unfold b2n, addr in *. destruct (fst (t_addr t) =? ip); lia.
    + change (c_in (fst (save_peer c Outbound (t_addr t) (t_pid t) (t_lport t))))
        with (bound (fst (save_peer c Outbound (t_addr t) (t_pid t) (t_lport t))) Inbound).
      rewrite save_peer_bound_other by discriminate. cbn [bound]. lia.
  - intros c t c' k0 H Hs. apply andb_true_iff in Hs; destruct Hs as [_ Hs]. apply N.eqb_eq in Hs.
    apply exec_op_ipcount in H; destruct H as [_ H]. rewrite <- Hs. apply ip_full_cmp_pass; auto.
  - intros c k0; unfold inbound_count_with_ip. change (c_in (remove_peer c k0)) with (bound (remove_peer c k0) Inbound).
    destruct (dir_eq_dec (k_dir k0) Inbound) as [E|E].
    + rewrite <- E at 1. rewrite remove_peer_bound_same, E. unfold aset_remove; cbn [bound].
      pose proof (filter_filter_length_le _ (fun a => fst a =? ip) (fun b => negb (addr_eqb (k_addr k0) b)) (c_in c)); unfold addr in *; lia.
    + rewrite remove_peer_bound_other by auto; cbn [bound]; lia.
  - intros pc H; apply (save_positions_spec _ _ prog_ipcount_before_save pc H).
Qed.

(** trace form: from a state s where the count is at/over the limit, as long as it stays so,
    recorded + past-the-check never exceeds its value at s *)
Lemma at_limit_trace : forall rc cf (rec past : sys -> N) (L : N),
  (forall s e, Forall defer_wf (s_threads s) -> L <= rec s -> rec (step rc cf s e) + past (step rc cf s e) <= rec s + past s) ->
  forall sched s B, Forall defer_wf (s_threads s) -> L <= rec s -> rec s + past s <= B ->
    Forall (fun s' => L <= rec s') (trace rc cf s sched) ->
    Forall (fun s' => rec s' + past s' <= B) (trace rc cf s sched).
Proof.
  intros rc cf rec past L Hstep. induction sched as [|e r IH]; intros s B HD HL HB HW; cbn [trace] in *; [constructor|].
  inversion HW; subst. pose proof (Hstep s e HD HL).
  constructor; [lia|]. apply IH; auto using dwf_step. lia.
Qed.

Theorem at_limit_no_growth : forall rc cf sched1 sched2 d,
  let s := run rc cf sched1 in
  limit_of cf d <= recorded s d ->
  Forall (fun s' => limit_of cf d <= recorded s' d) (trace rc cf s sched2) ->
  Forall (fun s' => recorded s' d <= recorded s d + past_full s d) (trace rc cf s sched2).
Proof.
  intros rc cf sched1 sched2 d s HL HW.
  pose proof (at_limit_trace rc cf (fun s => recorded s d) (fun s => past_full s d) (limit_of cf d)
                (fun s0 e => at_limit_step_total rc cf d s0 e) sched2 s (recorded s d + past_full s d)
                (dwf_run rc cf sched1) HL (N.le_refl _) HW) as T.
  eapply Forall_impl; [|exact T]. cbn beta; intros; lia.
Qed.

Theorem at_limit_no_growth_ip : forall rc cf sched1 sched2 ip,
  let s := run rc cf sched1 in
  max_per_ip cf <= recorded_ip s ip ->
  Forall (fun s' => max_per_ip cf <= recorded_ip s' ip) (trace rc cf s sched2) ->
  Forall (fun s' => recorded_ip s' ip <= recorded_ip s ip + past_ipcheck s ip) (trace rc cf s sched2).
Proof.
  intros rc cf sched1 sched2 ip s HL HW.
  pose proof (at_limit_trace rc cf (fun s => recorded_ip s ip) (fun s => past_ipcheck s ip) (max_per_ip cf)
                (fun s0 e => at_limit_step_ip rc cf ip s0 e) sched2 s (recorded_ip s ip + past_ipcheck s ip)
                (dwf_run rc cf sched1) HL (N.le_refl _) HW) as T.
  eapply Forall_impl; [|exact T]. cbn beta; intros; lia.
Qed.

(** the check itself: at or over the limit it refuses (needs the source's operators to mean >=) *)
Lemma full_check_refuses : forall rc cf c t, limit_of cf (t_dir t) <= bounds_count c (t_dir t) ->
  exec_op rc cf c t OpFull = (c, Some EBoundFull, None).
Proof.
  intros rc cf c t H; cbn [exec_op]. unfold is_bound_full.
  destruct (t_dir t); cbn [limit_of] in H; unfold full_cmp_in, full_cmp_out;
    apply N.leb_le in H; rewrite H; reflexivity.
Qed.

Lemma ip_check_refuses : forall rc cf c t, max_per_ip cf <= inbound_count_with_ip c (fst (t_addr t)) ->
  exec_op rc cf c t OpIpCount = (c, Some EIpFull, None).
Proof.
  intros rc cf c t H; cbn [exec_op]. unfold ip_full_cmp. apply N.leb_le in H; rewrite H; reflexivity.
Qed.

(** a call that has failed stays failed, records nothing and leaves the bound sets alone *)
Lemma failed_stable : forall rc cf s ev i t e, nth_error (s_threads s) i = Some t -> t_out t = Failed e ->
  exists t', nth_error (s_threads (step rc cf s ev)) i = Some t' /\ t_out t' = Failed e.
Proof.
  intros rc cf s ev i t e Hi Ho. destruct ev as [d a pid lp r dl hs | j | j].
  - cbn [step s_threads]. exists t; split; auto. rewrite nth_error_app1; auto.
    apply nth_error_Some; congruence.
  - unfold step. destruct (nth_error (s_threads s) j) as [tj|] eqn:Hj; [|eauto].
    destruct (run_thread rc cf (s_ctrl s) tj) as [[c' t'] k0] eqn:Hr. cbn [s_threads].
    destruct (Nat.eq_dec j i) as [->|N].
    + rewrite Hi in Hj; inversion Hj; subst tj. exists t'; split; [eapply upd_nth_same; eauto|].
      apply run_thread_tstep in Hr. inversion Hr; subst; auto; congruence.
    + exists t; split; auto. rewrite upd_nth_other; auto.
  - unfold step. destruct (nth_error (s_live s) j); eauto.
Qed.

Lemma failed_forever : forall rc cf sched s i t e, nth_error (s_threads s) i = Some t -> t_out t = Failed e ->
  Forall (fun s' => exists t', nth_error (s_threads s') i = Some t' /\ t_out t' = Failed e) (trace rc cf s sched).
Proof.
  induction sched as [|ev r IH]; intros s i t e Hi Ho; cbn [trace]; [constructor|].
  destruct (failed_stable rc cf s ev i t e Hi Ho) as [t' [H1 H2]].
  constructor; eauto.
Qed.

Lemma not_pending_records_nothing : forall rc cf c t c' t' k, t_out t <> Pending -> defer_wf t ->
  run_thread rc cf c t = (c', t', k) -> k = None /\ (forall d, bound c' d = bound c d).
Proof.
  intros rc cf c t c' t' k Hn HD Hr. apply run_thread_tstep in Hr. inversion Hr; subst; try congruence; auto.
  split; auto. unfold defer_wf in HD. rewrite H0 in HD. inversion HD; subst.
  apply (exec_op_not_save _ _ _ _ _ _ _ _ H1); discriminate.
Qed.

(** the step that runs a refusing check turns the attempt into a failed one *)
Lemma refused_step : forall rc cf s i t o e, nth_error (s_threads s) i = Some t -> t_out t = Pending ->
  nth_error (prog_of (t_dir t)) (t_pc t) = Some (IOp o) ->
  exec_op rc cf (s_ctrl s) t o = (s_ctrl s, Some e, None) ->
  exists t', nth_error (s_threads (step rc cf s (Run i))) i = Some t' /\ t_out t' = Failed e
             /\ s_ctrl (step rc cf s (Run i)) = s_ctrl s /\ s_live (step rc cf s (Run i)) = s_live s.
Proof.
  intros rc cf s i t o e Hi Ho Hn Hx. unfold step. rewrite Hi. unfold run_thread. rewrite Ho, Hn, Hx.
  cbn [s_threads s_ctrl s_live]. eexists; split; [eapply upd_nth_same; eauto|]. cbn. auto.
Qed.

Theorem started_at_limit_never_recorded : forall rc cf sched1 sched2 i t,
  let s := run rc cf sched1 in
  nth_error (s_threads s) i = Some t -> t_out t = Pending ->
  (   (nth_error (prog_of (t_dir t)) (t_pc t) = Some (IOp OpFull) /\ limit_of cf (t_dir t) <= recorded s (t_dir t))
   \/ (nth_error (prog_of (t_dir t)) (t_pc t) = Some (IOp OpIpCount) /\ max_per_ip cf <= recorded_ip s (fst (t_addr t)))) ->
  Forall (fun s' => exists t' e, nth_error (s_threads s') i = Some t' /\ t_out t' = Failed e
                                 /\ (e = EBoundFull \/ e = EIpFull))
         (trace rc cf s (Run i :: sched2))
  /\ s_ctrl (step rc cf s (Run i)) = s_ctrl s /\ s_live (step rc cf s (Run i)) = s_live s.
Proof.
  intros rc cf sched1 sched2 i t s Hi Ho H.
  assert (G : exists e, (e = EBoundFull \/ e = EIpFull) /\
                        exists o, nth_error (prog_of (t_dir t)) (t_pc t) = Some (IOp o) /\
                                  exec_op rc cf (s_ctrl s) t o = (s_ctrl s, Some e, None)).
  { destruct H as [[Hn HL]|[Hn HL]].
    - exists EBoundFull; split; auto. exists OpFull; split; auto. apply full_check_refuses; exact HL.
    - exists EIpFull; split; auto. exists OpIpCount; split; auto. apply ip_check_refuses; exact HL. }
  destruct G as [e [He [o [Hn Hx]]]].
  destruct (refused_step rc cf s i t o e Hi Ho Hn Hx) as [t' [H1 [H2 [H3 H4]]]].
  split; [|auto]. cbn [trace]. constructor.
  - exists t', e; auto.
  - pose proof (failed_forever rc cf sched2 _ i t' e H1 H2) as F.
    eapply Forall_impl; [|exact F]. cbn beta. intros a [t2 [A B]]; exists t2, e; auto.
Qed.

(** an over-limit state (the inbound witness: limit 1, two recorded) followed by three further
    sequential attempts: all refused at isBoundFull, the count does not move *)
Definition ov_sched : list ev :=
  w_sched_in ++ [Spawn Inbound (3, 5003) 13 20338 true true true] ++ repeat (Run 2) 9
             ++ [Spawn Inbound (1, 5004) 14 20338 true true true] ++ repeat (Run 3) 9
             ++ [Spawn Inbound (101, 5005) 15 20338 true true true] ++ repeat (Run 4) 9.

Lemma ov_facts :
  recorded (run false w_cfg_in w_sched_in) Inbound = 2 /\
  map t_out (s_threads (run false w_cfg_in ov_sched)) = [Done; Done; Failed EBoundFull; Failed EBoundFull; Failed EBoundFull] /\
  recorded (run false w_cfg_in ov_sched) Inbound = 2 /\ live_count (run false w_cfg_in ov_sched) Inbound = 2.
Proof. vm_compute; auto. Qed.

(** * 10. the connecting set: at most one Connect per address between tryAddConnecting and
      removeConnecting (the outbound record is written only after the handshake, so this set is
      the only thing that keeps two simultaneous dials to one address apart) *)

Definition is_defer (i : item) : bool := match i with IDefer _ => true | IOp _ => false end.

(** shape of a program as far as the connecting mark is concerned (computed on the programs
    extracted from the source): removeConnecting is deferred only AFTER tryAddConnecting has been
    executed, at most once; tryAddConnecting occurs at most once and is not the last item; every
    section after tryAddConnecting runs with the defer already registered; removeConnecting is
    never called directly. *)
Definition connecting_shape_ok (p : list item) : bool :=
  Nat.ltb 0 (length p) &&
  forallb (fun pc =>
    match nth_error p pc with
    | Some (IDefer _) => existsb (item_is OpTryConnecting) (firstn pc p) && negb (existsb is_defer (firstn pc p))
    | Some (IOp o) =>
        negb (op_eqb o OpRemoveConnecting)
        && (if op_eqb o OpTryConnecting
            then negb (existsb (item_is OpTryConnecting) (firstn pc p)) && Nat.ltb (S pc) (length p)
            else implb (existsb (item_is OpTryConnecting) (firstn pc p)) (existsb is_defer (firstn pc p)))
    | None => true
    end) (seq 0 (length p)).

Lemma prog_connecting_shape : forall d, connecting_shape_ok (prog_of d) = true.
Proof. destruct d; vm_compute; reflexivity. Qed.

Lemma shape_nonempty : forall d, (0 < length (prog_of d))%nat.
Proof.
  intros d; pose proof (prog_connecting_shape d) as H; unfold connecting_shape_ok in H.
  apply andb_true_iff in H; destruct H as [H _]. apply Nat.ltb_lt in H; exact H.
Qed.

Lemma shape_at : forall d pc x, nth_error (prog_of d) pc = Some x ->
  match x with
  | IDefer _ => existsb (item_is OpTryConnecting) (firstn pc (prog_of d)) = true
                /\ existsb is_defer (firstn pc (prog_of d)) = false
  | IOp o => o <> OpRemoveConnecting /\
             (o = OpTryConnecting -> existsb (item_is OpTryConnecting) (firstn pc (prog_of d)) = false
                                     /\ (S pc < length (prog_of d))%nat) /\
             (o <> OpTryConnecting -> existsb (item_is OpTryConnecting) (firstn pc (prog_of d)) = true ->
                                      existsb is_defer (firstn pc (prog_of d)) = true)
  end.
Proof.
  intros d pc x Hn. pose proof (prog_connecting_shape d) as H; unfold connecting_shape_ok in H.
  apply andb_true_iff in H; destruct H as [_ H]. rewrite forallb_forall in H.
  assert (Hin : In pc (seq 0 (length (prog_of d)))).
  { apply in_seq; split; [lia|]. cbn. apply nth_error_Some; congruence. }
  specialize (H pc Hin); rewrite Hn in H. destruct x as [o|o].
  - apply andb_true_iff in H; destruct H as [H1 H2]. split.
    + intros ->; rewrite op_eqb_refl in H1; discriminate.
    + split.
      * intros ->; rewrite op_eqb_refl in H2. apply andb_true_iff in H2; destruct H2 as [A B].
        apply negb_true_iff in A. apply Nat.ltb_lt in B. auto.
      * intros Hne Ht. destruct (op_eqb o OpTryConnecting) eqn:E; [apply op_eqb_eq in E; contradiction|].
        rewrite Ht in H2; cbn in H2; exact H2.
  - apply andb_true_iff in H; destruct H as [H1 H2]. apply negb_true_iff in H2; auto.
Qed.

Lemma nth_error_firstn_lt : forall A (l : list A) k n, (n < k)%nat -> nth_error (firstn k l) n = nth_error l n.
Proof.
  induction l; intros [|k] [|n] H; cbn; auto; try lia. apply IHl; lia.
Qed.

(** a defer registered before position pc means tryAddConnecting was executed before pc *)
Lemma defer_implies_try : forall d pc, existsb is_defer (firstn pc (prog_of d)) = true ->
  existsb (item_is OpTryConnecting) (firstn pc (prog_of d)) = true.
Proof.
  intros d pc HX. apply existsb_exists in HX; destruct HX as [x [Hx Dx]]. destruct x as [ox|ox]; [discriminate|].
  apply In_nth_error in Hx; destruct Hx as [n Hn].
  assert (Hlt : (n < pc)%nat).
  { assert (HY : (n < length (firstn pc (prog_of d)))%nat) by (apply nth_error_Some; congruence).
    rewrite firstn_length in HY; lia. }
  rewrite nth_error_firstn_lt in Hn by exact Hlt.
  pose proof (shape_at _ _ _ Hn) as [A _]. cbn beta iota in A.
  apply existsb_exists in A; destruct A as [y [Hy Ty]].
  apply existsb_exists; exists y; split; auto.
  rewrite <- (firstn_skipn n (firstn pc (prog_of d))).
  rewrite firstn_firstn. replace (Nat.min n pc) with n by lia. apply in_or_app; left; exact Hy.
Qed.

Lemma op_eqb_sym_false : forall a b, op_eqb a b = false -> op_eqb b a = false.
Proof. destruct a, b; cbn; auto. Qed.

Lemma c_connecting_save_peer : forall c d a pid lp, c_connecting (fst (save_peer c d a pid lp)) = c_connecting c.
Proof. intros; unfold save_peer; destruct d; reflexivity. Qed.

Lemma c_connecting_remove_peer : forall c k, c_connecting (remove_peer c k) = c_connecting c.
Proof.
  intros; unfold remove_peer.
  destruct (k_dir k); cbn;
    match goal with |- context [peers_get ?p ?i] => destruct (peers_get p i) as [[cid ?]|] end;
    try destruct (cid =? k_cid k); reflexivity.
Qed.

Lemma exec_op_try : forall rc cf c t c' e k, exec_op rc cf c t OpTryConnecting = (c', e, k) ->
  k = None /\
  ((amem (t_addr t) (c_connecting c) = true /\ c' = c /\ e = Some EConnecting) \/
   (amem (t_addr t) (c_connecting c) = false /\ c_connecting c' = t_addr t :: c_connecting c /\ e = None)).
Proof.
  intros rc cf c t c' e k H; cbn [exec_op] in H.
  destruct (amem (t_addr t) (c_connecting c)) eqn:E; inversion H; subst; split; auto.
Qed.

Lemma exec_op_remove : forall rc cf c t c' e k, exec_op rc cf c t OpRemoveConnecting = (c', e, k) ->
  c_connecting c' = aset_remove (t_addr t) (c_connecting c).
Proof. intros rc cf c t c' e k H; cbn [exec_op] in H; inversion H; subst; reflexivity. Qed.

Lemma exec_op_conn_other : forall rc cf c t o c' e k, exec_op rc cf c t o = (c', e, k) ->
  o <> OpTryConnecting -> o <> OpRemoveConnecting -> c_connecting c' = c_connecting c.
Proof.
  intros rc cf c t o c' e k H N1 N2; destruct o; try congruence; cbn [exec_op] in H;
    try (inversion H; subst; reflexivity).
  - destruct (t_pid t =? self_id cf); inversion H; subst; reflexivity.
  - destruct (rc && _).
    + inversion H; subst; reflexivity.
    + destruct (save_peer c (t_dir t) (t_addr t) (t_pid t) (t_lport t)) as [c1 k1] eqn:S.
      inversion H; subst. change c' with (fst (c', k1)). rewrite <- S. apply c_connecting_save_peer.
Qed.

(** the attempt holds the mark of its address *)
Definition holds (t : thread) : bool :=
  match t_out t with
  | Pending => existsb (item_is OpTryConnecting) (firstn (t_pc t) (prog_of (t_dir t)))
  | _ => match t_defer t with [] => false | _ => true end
  end.

Definition thread_wf (t : thread) : Prop :=
  defer_wf t /\ (length (t_defer t) <= 1)%nat /\
  (t_out t = Pending -> (t_pc t < length (prog_of (t_dir t)))%nat /\
     existsb is_defer (firstn (t_pc t) (prog_of (t_dir t))) = match t_defer t with [] => false | _ => true end).

Definition kinv (s : sys) : Prop :=
  NoDup (c_connecting (s_ctrl s)) /\
  (forall a, In a (c_connecting (s_ctrl s)) <->
             exists i t, nth_error (s_threads s) i = Some t /\ holds t = true /\ t_addr t = a) /\
  (forall i j ti tj, nth_error (s_threads s) i = Some ti -> nth_error (s_threads s) j = Some tj ->
                     holds ti = true -> holds tj = true -> t_addr ti = t_addr tj -> i = j) /\
  Forall thread_wf (s_threads s).

Lemma next_out_pending : forall t, next_out t = Pending -> (S (t_pc t) < length (prog_of (t_dir t)))%nat.
Proof.
  intros t H; unfold next_out in H. destruct (Nat.leb _ _) eqn:E; [discriminate|]. apply Nat.leb_gt in E; exact E.
Qed.

Lemma next_out_cases : forall t, next_out t = Pending \/ next_out t = Done.
Proof. intros t; unfold next_out; destruct (Nat.leb _ _); auto. Qed.

(** what one step of thread t does to (connecting, holds t, wf) *)
Lemma kstep_thread : forall rc cf c t c' t' k, thread_wf t -> run_thread rc cf c t = (c', t', k) ->
  thread_wf t' /\ t_addr t' = t_addr t /\
  (   (c_connecting c' = c_connecting c /\ holds t' = holds t)
   \/ (holds t = false /\ holds t' = true /\ amem (t_addr t) (c_connecting c) = false
       /\ c_connecting c' = t_addr t :: c_connecting c)
   \/ (holds t = true /\ holds t' = false /\ c_connecting c' = aset_remove (t_addr t) (c_connecting c))).
Proof.
  intros rc cf c t c' t' k (HD & HL & HP) Hr. apply run_thread_tstep in Hr. inversion Hr; subst; clear Hr.
  - (* idle *) split; [split; auto|]. split; auto.
  - (* end: excluded by wf *) destruct (HP H) as [Hlt _]. apply nth_error_None in H0. lia.
  - (* defer registration *)
    destruct (HP H) as [Hlt Hd]. pose proof (shape_at _ _ _ H0) as [St Sd]. cbn beta iota in *.
    assert (Ho : o = OpRemoveConnecting) by (eapply deferred_is_remove; eauto).
    rewrite Sd in Hd. destruct (t_defer t) eqn:Edf; [|discriminate].
    split; [|split; [reflexivity|]].
    + split; [unfold defer_wf; cbn [t_defer set_thread]; constructor; auto|].
      split; [cbn [t_defer set_thread length]; lia|].
      cbn [t_out t_pc t_dir t_defer set_thread]. intros Hn. split; [apply next_out_pending; auto|].
      erewrite existsb_firstn_S by eauto. cbn. apply orb_true_r.
    + left; split; auto. unfold holds at 1; cbn [t_out t_pc t_dir t_defer set_thread].
      unfold holds; rewrite H, St. destruct (next_out_cases t) as [E|E]; rewrite E.
      * erewrite existsb_firstn_S by eauto. rewrite St; reflexivity.
      * reflexivity.
  - (* a section *)
    destruct (HP H) as [Hlt Hd]. pose proof (shape_at _ _ _ H0) as [Snr [Stry Soth]].
    set (o' := match e with Some e0 => Failed e0 | None => next_out t end).
    assert (Hwf' : thread_wf (set_thread t (S (t_pc t)) (t_defer t) o')).
    { split; [exact HD|]. split; [exact HL|]. cbn [t_out t_pc t_dir t_defer set_thread]. intros Hn.
      assert (e = None) by (subst o'; destruct e; [discriminate|reflexivity]). subst e. subst o'.
      split; [apply next_out_pending; auto|].
      erewrite existsb_firstn_S by eauto. cbn [is_defer]. rewrite orb_false_r. exact Hd. }
    split; [exact Hwf'|]. split; [reflexivity|].
    destruct (op_eqb o OpTryConnecting) eqn:Eo.
    + apply op_eqb_eq in Eo; subst o. destruct (Stry eq_refl) as [Snot Slen].
      assert (Hh : holds t = false) by (unfold holds; rewrite H; exact Snot).
      apply exec_op_try in H1; destruct H1 as [-> [[Hm [-> ->]]|[Hm [Hc ->]]]].
      * (* refused: nothing changes, and no defer is pending *)
        left; split; auto. rewrite Hh. unfold holds; cbn [t_out t_defer set_thread].
        destruct (t_defer t) eqn:Edf; auto.
        (* a registered defer would mean tryAddConnecting had been executed *)
        assert (HX : existsb is_defer (firstn (t_pc t) (prog_of (t_dir t))) = true) by (rewrite Hd; reflexivity).
        apply defer_implies_try in HX. congruence.
      * right; left. split; auto. split; [|split; auto].
        subst o'. unfold holds; cbn [t_out t_pc t_dir t_defer set_thread].
        assert (En : next_out t = Pending).
        { unfold next_out. destruct (Nat.leb _ _) eqn:E; auto. apply Nat.leb_le in E; lia. }
        rewrite En. erewrite existsb_firstn_S by eauto. cbn. apply orb_true_r.
    + assert (Hne : o <> OpTryConnecting) by (intros ->; rewrite op_eqb_refl in Eo; discriminate).
      left. split; [eapply exec_op_conn_other; eauto|].
      unfold holds at 1; cbn [t_out t_pc t_dir t_defer set_thread]. unfold holds; rewrite H.
      assert (Hsame : existsb (item_is OpTryConnecting) (firstn (S (t_pc t)) (prog_of (t_dir t)))
                      = existsb (item_is OpTryConnecting) (firstn (t_pc t) (prog_of (t_dir t)))).
      { erewrite existsb_firstn_S by eauto. cbn [item_is]. rewrite op_eqb_sym_false; [apply orb_false_r|exact Eo]. }
      assert (Hnp : forall oo, oo <> Pending ->
                match oo with Pending => existsb (item_is OpTryConnecting) (firstn (S (t_pc t)) (prog_of (t_dir t)))
                            | _ => match t_defer t with [] => false | _ => true end end
                = existsb (item_is OpTryConnecting) (firstn (t_pc t) (prog_of (t_dir t)))).
      { intros oo Hoo.
        assert (G : match t_defer t with [] => false | _ => true end
                    = existsb (item_is OpTryConnecting) (firstn (t_pc t) (prog_of (t_dir t)))).
        { rewrite <- Hd. destruct (existsb (item_is OpTryConnecting) (firstn (t_pc t) (prog_of (t_dir t)))) eqn:ET.
          - apply (Soth Hne); reflexivity.
          - destruct (existsb is_defer (firstn (t_pc t) (prog_of (t_dir t)))) eqn:ED; auto.
            apply defer_implies_try in ED. congruence. }
        destruct oo; [congruence|exact G|exact G]. }
      subst o'. destruct e as [e0|].
      * exact (Hnp (Failed e0) ltac:(discriminate)).
      * destruct (next_out_cases t) as [E|E]; rewrite E; [exact Hsame | exact (Hnp Done ltac:(discriminate))].
  - (* a deferred call *)
    assert (Ho : o = OpRemoveConnecting) by (unfold defer_wf in HD; rewrite H0 in HD; inversion HD; auto).
    subst o. assert (r = []) by (rewrite H0 in HL; cbn in HL; destruct r; [auto|cbn in HL; lia]). subst r.
    split; [|split; [reflexivity|]].
    + split; [unfold defer_wf; cbn; constructor|]. split; [cbn; lia|].
      cbn [t_out set_thread]. intros; contradiction.
    + right; right. split; [unfold holds; destruct (t_out t); [contradiction| |]; rewrite H0; reflexivity|].
      split; [unfold holds; cbn [t_out t_defer set_thread]; destruct (t_out t); [contradiction| |]; reflexivity|].
      eapply exec_op_remove; eauto.
Qed.

Lemma kinv_init : kinv sys_init.
Proof.
  unfold kinv; cbn. split; [constructor|]. split.
  - intros a; split; [intros []|intros [i [t [H _]]]; destruct i; discriminate].
  - split; [intros i j ti tj H; destruct i; discriminate|constructor].
Qed.

Lemma kinv_step : forall rc cf s e, kinv s -> kinv (step rc cf s e).
Proof.
  intros rc cf s e (HN & HK & HU & HW). destruct e as [d a pid lp r dl hs | i | i].
  - (* Spawn *)
    cbn [step]; unfold kinv; cbn [s_ctrl s_threads].
    set (nt := new_thread d a pid lp r dl hs).
    assert (Hnh : holds nt = false) by reflexivity.
    split; [exact HN|]. split; [|split].
    + intros x; rewrite HK; split.
      * intros [j [t [Hj Ht]]]; exists j, t; split; auto. rewrite nth_error_app1; auto.
        apply nth_error_Some; congruence.
      * intros [j [t [Hj [Hh Ha]]]]. apply nth_error_app_one in Hj; destruct Hj as [Hj|[_ ->]]; [eauto|congruence].
    + intros j1 j2 t1 t2 H1 H2 Hh1 Hh2 Ha.
      apply nth_error_app_one in H1; destruct H1 as [H1|[_ ->]]; [|congruence].
      apply nth_error_app_one in H2; destruct H2 as [H2|[_ ->]]; [|congruence]. eauto.
    + apply Forall_app; split; auto. constructor; [|constructor].
      unfold thread_wf, defer_wf; cbn. split; [constructor|]. split; [lia|]. intros _.
      split; [apply shape_nonempty|reflexivity].
  - (* Run *)
    unfold step. destruct (nth_error (s_threads s) i) as [t|] eqn:Ht; [|repeat split; auto; apply HK].
    destruct (run_thread rc cf (s_ctrl s) t) as [[c' t'] k0] eqn:Hr.
    assert (Hwt : thread_wf t) by (rewrite Forall_forall in HW; apply HW; eapply nth_error_In; eauto).
    destruct (kstep_thread rc cf _ _ _ _ _ Hwt Hr) as [Hwt' [Hat Hcase]].
    unfold kinv; cbn [s_ctrl s_threads].
    (* holders other than i are the same before and after *)
    assert (Hold : forall j x, j <> i -> nth_error (upd (s_threads s) i t') j = Some x <-> nth_error (s_threads s) j = Some x).
    { intros j x Hne; rewrite upd_nth_other by auto; reflexivity. }
    assert (Hnew : nth_error (upd (s_threads s) i t') i = Some t') by (eapply upd_nth_same; eauto).
    assert (Hsplit : forall j x, nth_error (upd (s_threads s) i t') j = Some x ->
                       (j = i /\ x = t') \/ (j <> i /\ nth_error (s_threads s) j = Some x)).
    { intros j x Hj; eapply nth_error_upd; eauto. }
    destruct Hcase as [[Hc Hh]|[[Hh [Hh' [Hm Hc]]]|[Hh [Hh' Hc]]]]; rewrite Hc.
    + (* the mark is untouched *)
      split; [exact HN|]. split; [|split; [|apply Forall_upd; auto]].
      * intros x; rewrite HK; split.
        -- intros [j [tj [Hj [Hhj Haj]]]]. destruct (Nat.eq_dec j i) as [->|Ne].
           ++ rewrite Ht in Hj; inversion Hj; subst tj. exists i, t'; rewrite Hh, Hat; auto.
           ++ exists j, tj; split; [apply Hold; auto|auto].
        -- intros [j [tj [Hj [Hhj Haj]]]]. apply Hsplit in Hj; destruct Hj as [[-> ->]|[Ne Hj]].
           ++ exists i, t; rewrite <- Hh, <- Hat; auto.
           ++ eauto.
      * intros j1 j2 t1 t2 H1 H2 Hh1 Hh2 Ha.
        assert (G : forall j x, nth_error (upd (s_threads s) i t') j = Some x -> holds x = true ->
                      exists y, nth_error (s_threads s) j = Some y /\ holds y = true /\ t_addr y = t_addr x).
        { intros j x Hj Hx. apply Hsplit in Hj; destruct Hj as [[-> ->]|[Ne Hj]].
          - exists t; rewrite <- Hh, <- Hat; auto.
          - exists x; auto. }
        destruct (G _ _ H1 Hh1) as [y1 [A1 [B1 C1]]]. destruct (G _ _ H2 Hh2) as [y2 [A2 [B2 C2]]].
        apply (HU j1 j2 y1 y2); auto; congruence.
    + (* the attempt takes the mark of its address: it was free *)
      apply amem_false in Hm.
      split; [constructor; auto|]. split; [|split; [|apply Forall_upd; auto]].
      * intros x; cbn [In]; split.
        -- intros [<-|Hin]; [exists i, t'; auto|].
           apply HK in Hin; destruct Hin as [j [tj [Hj [Hhj Haj]]]].
           assert (Ne : j <> i) by (intros ->; rewrite Ht in Hj; inversion Hj; subst; congruence).
           exists j, tj; split; [apply Hold; auto|auto].
        -- intros [j [tj [Hj [Hhj Haj]]]]. apply Hsplit in Hj; destruct Hj as [[-> ->]|[Ne Hj]].
           ++ left; congruence.
           ++ right; apply HK; eauto.
      * intros j1 j2 t1 t2 H1 H2 Hh1 Hh2 Ha.
        apply Hsplit in H1; destruct H1 as [[-> ->]|[N1 H1]]; apply Hsplit in H2; destruct H2 as [[-> ->]|[N2 H2]]; auto.
        -- exfalso; apply Hm; apply HK. exists j2, t2; repeat split; auto; congruence.
        -- exfalso; apply Hm; apply HK. exists j1, t1; repeat split; auto; congruence.
        -- eauto.
    + (* the attempt gives its mark back *)
      split; [apply aset_remove_NoDup; auto|]. split; [|split; [|apply Forall_upd; auto]].
      * intros x; rewrite aset_remove_In, HK; split.
        -- intros [[j [tj [Hj [Hhj Haj]]]] Hne].
           assert (Ne : j <> i) by (intros ->; rewrite Ht in Hj; inversion Hj; subst; congruence).
           exists j, tj; split; [apply Hold; auto|auto].
        -- intros [j [tj [Hj [Hhj Haj]]]]. apply Hsplit in Hj; destruct Hj as [[-> ->]|[Ne Hj]]; [congruence|].
           split; [eauto|]. intros ->. apply Ne. apply (HU j i tj t); auto.
      * intros j1 j2 t1 t2 H1 H2 Hh1 Hh2 Ha.
        apply Hsplit in H1; destruct H1 as [[-> ->]|[N1 H1]]; [congruence|].
        apply Hsplit in H2; destruct H2 as [[-> ->]|[N2 H2]]; [congruence|]. eauto.
  - (* Close *)
    unfold step. destruct (nth_error (s_live s) i) as [k0|]; [|repeat split; auto; apply HK].
    unfold kinv; cbn [s_ctrl s_threads]. rewrite c_connecting_remove_peer. repeat split; auto; apply HK.
Qed.

Theorem kinv_reachable : forall rc cf sched, kinv (run rc cf sched).
Proof.
  intros rc cf sched; unfold run.
  assert (G : forall l s, kinv s -> kinv (fold_left (step rc cf) l s)).
  { induction l; intros s H; cbn; auto using kinv_step. }
  apply G, kinv_init.
Qed.

(** a Connect refused by tryAddConnecting changes nothing and has nothing left to run *)
Theorem refused_connect_changes_nothing : forall rc cf sched i t,
  let s := run rc cf sched in
  nth_error (s_threads s) i = Some t -> t_out t = Pending ->
  nth_error (prog_of (t_dir t)) (t_pc t) = Some (IOp OpTryConnecting) ->
  amem (t_addr t) (c_connecting (s_ctrl s)) = true ->
  exists t', nth_error (s_threads (step rc cf s (Run i))) i = Some t' /\ t_out t' = Failed EConnecting
             /\ t_defer t' = [] /\ finished t' = true
             /\ s_ctrl (step rc cf s (Run i)) = s_ctrl s /\ s_live (step rc cf s (Run i)) = s_live s.
Proof.
  intros rc cf sched i t s Hi Ho Hn Hm.
  assert (Hx : exec_op rc cf (s_ctrl s) t OpTryConnecting = (s_ctrl s, Some EConnecting, None))
    by (cbn [exec_op]; rewrite Hm; reflexivity).
  destruct (refused_step rc cf s i t _ _ Hi Ho Hn Hx) as [t' [H1 [H2 [H3 H4]]]].
  exists t'; repeat split; auto.
  - (* no defer registered: the thread does not hold a mark *)
    destruct (kinv_reachable rc cf sched) as (_ & _ & _ & HW). fold s in HW.
    assert (Hwt : thread_wf t) by (rewrite Forall_forall in HW; apply HW; eapply nth_error_In; eauto).
    destruct Hwt as (_ & _ & HP). destruct (HP Ho) as [_ Hd].
    pose proof (shape_at _ _ _ Hn) as [_ [St _]]. destruct (St eq_refl) as [Snot _].
    unfold step in H1. rewrite Hi in H1. unfold run_thread in H1. rewrite Ho, Hn, Hx in H1. cbn [s_threads] in H1.
    erewrite upd_nth_same in H1 by eauto. inversion H1; subst t'. cbn [t_defer set_thread].
    destruct (t_defer t); auto.
    assert (HX : existsb is_defer (firstn (t_pc t) (prog_of (t_dir t))) = true) by (rewrite Hd; reflexivity).
    apply defer_implies_try in HX. congruence.
  - unfold step in H1. rewrite Hi in H1. unfold run_thread in H1. rewrite Ho, Hn, Hx in H1. cbn [s_threads] in H1.
    erewrite upd_nth_same in H1 by eauto. inversion H1; subst t'. unfold finished; cbn [t_out t_defer set_thread].
    destruct (kinv_reachable rc cf sched) as (_ & _ & _ & HW). fold s in HW.
    assert (Hwt : thread_wf t) by (rewrite Forall_forall in HW; apply HW; eapply nth_error_In; eauto).
    destruct Hwt as (_ & _ & HP). destruct (HP Ho) as [_ Hd].
    pose proof (shape_at _ _ _ Hn) as [_ [St _]]. destruct (St eq_refl) as [Snot _].
    destruct (t_defer t); auto.
    assert (HX : existsb is_defer (firstn (t_pc t) (prog_of (t_dir t))) = true) by (rewrite Hd; reflexivity).
    apply defer_implies_try in HX. congruence.
Qed.
