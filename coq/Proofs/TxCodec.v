(** Proofs about the transaction codec model (Model/TxCodec.v). *)
From Coq Require Import List Bool Arith NArith ZArith Lia ZifyN ZifyNat ZifyBool.
Import ListNotations.
From Ont Require Import Lib.Bytes Gen.CodecConsts Gen.TxConsts Model.Codec Proofs.Codec Model.TxCodec.
Local Open Scope N_scope.
Open Scope bool_scope.
Ltac Zify.zify_post_hook ::= Z.to_euclidean_division_equations.

(** * Consumed byte ranges *)

(** A source the Go code can hold: offset inside the buffer, buffer made of bytes. *)
Definition good (s : source) : Prop := src_ok s /\ wf_bytes (buf s) = true.

(** [consumed s s' bs]: reading moved the source from [s] to [s'] over exactly the bytes [bs]. *)
Definition consumed (s s' : source) (bs : bytes) : Prop :=
  buf s' = buf s /\ off s' = (off s + length bs)%nat /\ (off s' <= length (buf s))%nat /\
  slice (buf s) (off s) (length bs) = bs.

Lemma consumed_nil s : src_ok s -> consumed s s [].
Proof. intros [H _]. unfold consumed, slice. simpl. repeat split; lia. Qed.

Lemma consumed_app s s1 s2 a b : consumed s s1 a -> consumed s1 s2 b -> consumed s s2 (a ++ b).
Proof.
  intros (E1 & O1 & B1 & S1) (E2 & O2 & B2 & S2). unfold consumed.
  rewrite app_length. rewrite E1 in *. repeat split; try lia; try congruence.
  rewrite slice_split, S1. rewrite <- O1, S2. reflexivity.
Qed.

Lemma consumed_safe s s' bs : consumed s s' bs -> step_safe s s'.
Proof. intros (E & O & B & _). split; [exact E|lia]. Qed.

Lemma good_safe s s' : good s -> step_safe s s' -> good s'.
Proof.
  intros [Hok Hwf] Hs. split; [eapply step_safe_ok; eassumption|].
  destruct Hs as [E _]. rewrite E. exact Hwf.
Qed.

Lemma good_consumed s s' bs : good s -> consumed s s' bs -> good s'.
Proof. intros G C. eapply good_safe; [exact G|eapply consumed_safe; exact C]. Qed.

Lemma consumed_wf s s' bs : good s -> consumed s s' bs -> wf_bytes bs = true.
Proof. intros [_ Hwf] (_ & _ & _ & S). rewrite <- S. apply wf_slice. exact Hwf. Qed.

Lemma consumed_len_bound s s' bs : good s -> consumed s s' bs -> N.of_nat (length bs) < two64.
Proof. intros [[_ L] _] (_ & O & B & _). lia. Qed.

Lemma consumed_eq_src s s' s'' bs : consumed s s' bs -> consumed s s'' bs -> s' = s''.
Proof.
  intros (E1 & O1 & _) (E2 & O2 & _). destruct s', s''. simpl in *. congruence.
Qed.

(** ** Primitive reads: a successful read consumed exactly the writer's encoding of its value *)

Lemma next_byte_consumed s v s' :
  good s -> next_byte s = (v, false, s') -> consumed s s' [v] /\ v < 256.
Proof.
  intros [Hok Hwf] E. pose proof (next_byte_spec s Hok) as P. rewrite E in P.
  destruct P as (Eb & Bd & _ & P). destruct (P eq_refl) as [Ho Hs].
  split.
  - unfold consumed. simpl. repeat split; try lia; assumption.
  - assert (W : wf_bytes [v] = true) by (rewrite <- Hs; apply wf_slice; exact Hwf).
    simpl in W. rewrite andb_true_r in W. apply N.ltb_lt in W. exact W.
Qed.

Lemma next_byte_eof s v s' :
  src_ok s -> next_byte s = (v, true, s') -> s' = s /\ off s = length (buf s).
Proof.
  intros Hok E. unfold next_byte in E. destruct (length (buf s) <=? off s)%nat eqn:C.
  - inversion E; subst. apply Nat.leb_le in C. destruct Hok. split; [reflexivity|lia].
  - discriminate.
Qed.

Lemma next_uint_consumed w s v s' :
  good s -> next_uint w s = (v, false, s') -> consumed s s' (le_encode w v) /\ v < 256 ^ N.of_nat w.
Proof.
  intros [Hok Hwf] E. destruct (next_uint_spec w s v s' Hok Hwf E) as (Ho & Eb & Bd & Hv & Henc).
  split; [|exact Hv]. unfold consumed. rewrite le_encode_length. repeat split; try assumption. symmetry; exact Henc.
Qed.

Lemma next_bytes_consumed s n d s' :
  good s -> next_bytes s n = (d, false, s') -> consumed s s' d /\ N.of_nat (length d) = n.
Proof.
  intros [Hok Hwf] E. pose proof (next_bytes_spec s n Hok) as P. rewrite E in P.
  destruct P as (Eb & Bd & Ed & Hn & _). specialize (Hn eq_refl).
  assert (L : length d = (off s' - off s)%nat).
  { rewrite Ed. apply slice_length. lia. }
  split; [|lia]. unfold consumed. rewrite L. repeat split; try lia; try assumption. symmetry; exact Ed.
Qed.

(** Re-reading a consumed range (BackUp followed by NextBytes of the same length). *)
Lemma next_bytes_again s s' bs :
  src_ok s -> consumed s s' bs -> next_bytes s (N.of_nat (length bs)) = (bs, false, s').
Proof.
  intros [Hoff Hlen] (E & O & B & S). unfold next_bytes.
  destruct ((two64 <=? N.of_nat (off s) + N.of_nat (length bs)) ||
            (N.of_nat (length (buf s)) <? N.of_nat (off s) + N.of_nat (length bs))) eqn:C.
  - apply orb_true_iff in C; destruct C as [C|C]; [apply N.leb_le in C|apply N.ltb_lt in C]; lia.
  - rewrite Nat2N.id, S. f_equal. destruct s'. simpl in *. subst. f_equal. lia.
Qed.

Lemma next_varuint_consumed s v sz s' :
  good s -> next_varuint s = (v, sz, false, false, s') ->
  consumed s s' (write_varuint v) /\ v < two64.
Proof.
  intros [Hok Hwf] E.
  pose proof (next_varuint_safe s Hok) as Sf. rewrite E in Sf. cbn [snd] in Sf. destruct Sf as [Eb Bd].
  destruct (varuint_canonical s v sz false s' Hok Hwf E) as (L & Hv & C).
  split; [|exact Hv]. pose proof (proj1 C eq_refl) as Hc.
  assert (Ll : length (write_varuint v) = (off s' - off s)%nat).
  { rewrite <- Hc. apply slice_length. lia. }
  unfold consumed. rewrite Ll. repeat split; try lia; assumption.
Qed.

Lemma next_varbytes_consumed s d sz s' :
  good s -> next_varbytes s = (d, sz, false, false, s') -> consumed s s' (write_varbytes d).
Proof.
  intros G E. unfold next_varbytes in E.
  destruct (next_varuint s) as [[[[c sz0] irr] e] s1] eqn:EV.
  destruct (0 <? c) eqn:C.
  - destruct (next_bytes s1 c) as [[d' e'] s2] eqn:EB. inversion E; subst; clear E.
    (* the varuint itself did not hit eof: otherwise c = 0 *)
    destruct e.
    { unfold next_varuint in EV. destruct (next_byte s) as [[fb e0] s0]. destruct e0; [inversion EV; subst; discriminate|].
      assert (F : forall w k, (let '(v, e, s2) := next_uint w s0 in
            if e then (0, 0, false, true, s2) else (v, k, negb (k =? getVarUintSize v), false, s2)) = (c, sz0, false, true, s1) -> c = 0).
      { intros w k. destruct (next_uint w s0) as [[v e] s3]. destruct e; intro X; inversion X; reflexivity. }
      destruct (fb =? 253); [apply F in EV; subst; discriminate|].
      destruct (fb =? 254); [apply F in EV; subst; discriminate|].
      destruct (fb =? 255); [apply F in EV; subst; discriminate|]. inversion EV. }
    destruct (next_varuint_consumed s c sz0 s1 G EV) as [C1 _].
    assert (G1 : good s1) by (eapply good_consumed; eassumption).
    destruct (next_bytes_consumed s1 c d s' G1 EB) as [C2 L].
    unfold write_varbytes. rewrite L. eapply consumed_app; eassumption.
  - inversion E; subst; clear E. apply N.ltb_ge in C. assert (c = 0) by lia. subst c.
    destruct (next_varuint_consumed s 0 sz0 s' G EV) as [C1 _].
    unfold write_varbytes. simpl length. rewrite app_nil_r. exact C1.
Qed.

(** ** Safety of the varbytes reader on every outcome *)
Lemma next_varbytes_step s : src_ok s -> step_safe s (snd (next_varbytes s)).
Proof. apply next_varbytes_safe. Qed.

(** * Reader specifications *)

(** [mspec m P]: on every good source, [m] either fails with a proper decoding error leaving the
    source inside the buffer, or succeeds having consumed bytes [bs] with [P value bs]. *)
Definition proper (e : terr) : Prop := e <> TBackUp /\ e <> TPanic.

Definition mspec {A} (m : M A) (P : A -> bytes -> Prop) : Prop :=
  forall s, good s ->
    match m s with
    | (inl a, s') => exists bs, consumed s s' bs /\ P a bs
    | (inr e, s') => step_safe s s' /\ proper e
    end.

Lemma mspec_ret {A} (a : A) : mspec (ret a) (fun a' bs => a' = a /\ bs = []).
Proof. intros s [Hok _]. unfold ret. exists []. split; [apply consumed_nil; exact Hok|split; reflexivity]. Qed.

Lemma mspec_fail {A} e (P : A -> bytes -> Prop) : proper e -> mspec (fail e) P.
Proof. intros He s [Hok _]. unfold fail. split; [apply step_safe_refl; exact Hok|exact He]. Qed.

Lemma mspec_bind {A B} (m : M A) (f : A -> M B) P Q :
  mspec m P -> (forall a, mspec (f a) (Q a)) ->
  mspec (bind m f) (fun b bs => exists a b1 b2, bs = b1 ++ b2 /\ P a b1 /\ Q a b b2).
Proof.
  intros Hm Hf s G. unfold bind. specialize (Hm s G). destruct (m s) as [[a|e] s1].
  - destruct Hm as (b1 & C1 & P1). assert (G1 : good s1) by (eapply good_consumed; eassumption).
    specialize (Hf a s1 G1). destruct (f a s1) as [[b|e] s2].
    + destruct Hf as (b2 & C2 & Q2). exists (b1 ++ b2). split; [eapply consumed_app; eassumption|].
      exists a, b1, b2. auto.
    + destruct Hf as [S2 He]. split; [|exact He].
      eapply step_safe_trans; [eapply consumed_safe; exact C1|exact S2].
  - exact Hm.
Qed.

Lemma mspec_weaken {A} (m : M A) (P P' : A -> bytes -> Prop) :
  mspec m P -> (forall a bs, P a bs -> P' a bs) -> mspec m P'.
Proof.
  intros Hm W s G. specialize (Hm s G). destruct (m s) as [[a|e] s1]; [|exact Hm].
  destruct Hm as (bs & C & HP). exists bs. auto.
Qed.

Lemma mspec_guard b e : proper e -> mspec (guard b e) (fun _ bs => bs = [] /\ b = true).
Proof.
  intro He. unfold guard. destruct b.
  - eapply mspec_weaken; [apply mspec_ret|]. intros a bs [_ E]. auto.
  - apply mspec_fail. exact He.
Qed.

Ltac proper_tac := split; discriminate.

Lemma mspec_byte : mspec m_byte (fun v bs => bs = [v] /\ v < 256).
Proof.
  intros s G. unfold m_byte. destruct (next_byte s) as [[v e] s'] eqn:E. destruct e.
  - split; [|proper_tac]. pose proof (next_byte_safe s (proj1 G)) as P. rewrite E in P. exact P.
  - destruct (next_byte_consumed s v s' G E) as [C Hv]. exists [v]. auto.
Qed.

Lemma mspec_uint w : mspec (m_uint w) (fun v bs => bs = le_encode w v /\ v < 256 ^ N.of_nat w).
Proof.
  intros s G. unfold m_uint. destruct (next_uint w s) as [[v e] s'] eqn:E. destruct e.
  - split; [|proper_tac]. pose proof (next_uint_safe w s (proj1 G)) as P. rewrite E in P. exact P.
  - destruct (next_uint_consumed w s v s' G E) as [C Hv]. exists (le_encode w v). auto.
Qed.

Lemma mspec_bytes n : mspec (m_bytes n) (fun d bs => bs = d /\ N.of_nat (length d) = n).
Proof.
  intros s G. unfold m_bytes. destruct (next_bytes s n) as [[d e] s'] eqn:E. destruct e.
  - split; [|proper_tac]. pose proof (next_bytes_safe s n (proj1 G)) as P. rewrite E in P. exact P.
  - destruct (next_bytes_consumed s n d s' G E) as [C L]. exists d. auto.
Qed.

Lemma mspec_varbytes_ei : mspec m_varbytes_ei (fun d bs => bs = write_varbytes d).
Proof.
  intros s G. unfold m_varbytes_ei. destruct (next_varbytes s) as [[[[d sz] irr] e] s'] eqn:E.
  pose proof (next_varbytes_safe s (proj1 G)) as P. rewrite E in P. cbn [snd] in P.
  destruct e; [split; [exact P|proper_tac]|]. destruct irr; [split; [exact P|proper_tac]|].
  exists (write_varbytes d). split; [eapply next_varbytes_consumed; eassumption|reflexivity].
Qed.

Lemma mspec_varbytes_ie : mspec m_varbytes_ie (fun d bs => bs = write_varbytes d).
Proof.
  intros s G. unfold m_varbytes_ie. destruct (next_varbytes s) as [[[[d sz] irr] e] s'] eqn:E.
  pose proof (next_varbytes_safe s (proj1 G)) as P. rewrite E in P. cbn [snd] in P.
  destruct irr; [split; [exact P|proper_tac]|]. destruct e; [split; [exact P|proper_tac]|].
  exists (write_varbytes d). split; [eapply next_varbytes_consumed; eassumption|reflexivity].
Qed.

Lemma mspec_varuint_ie : mspec m_varuint_ie (fun v bs => bs = write_varuint v /\ v < two64).
Proof.
  intros s G. unfold m_varuint_ie. destruct (next_varuint s) as [[[[v sz] irr] e] s'] eqn:E.
  pose proof (next_varuint_safe s (proj1 G)) as P. rewrite E in P. cbn [snd] in P.
  destruct irr; [split; [exact P|proper_tac]|]. destruct e; [split; [exact P|proper_tac]|].
  destruct (next_varuint_consumed s v sz s' G E) as [C Hv].
  exists (write_varuint v). auto.
Qed.

Ltac unpack :=
  repeat match goal with
  | H : exists _, _ |- _ => destruct H
  | H : _ /\ _ |- _ => destruct H
  end; subst.

(** * Payload and signature readers *)

(** Every flag value checkVmFlags lets through is one DeployCode.VmType handles (no panic). *)
Lemma flags_cover f : mem f VM_FLAGS_OK = true -> vm_is_wasm f <> None.
Proof.
  intro Hm.
  assert (A : forallb (fun g => match vm_is_wasm g with None => false | Some _ => true end) VM_FLAGS_OK = true)
    by reflexivity.
  unfold mem in Hm. apply existsb_exists in Hm. destruct Hm as (g & Hin & Hg). apply N.eqb_eq in Hg. subst g.
  rewrite forallb_forall in A. specialize (A f Hin). destruct (vm_is_wasm f); [discriminate|discriminate].
Qed.

Lemma validate_proper d e : validate_deploy d = Some e -> proper e.
Proof.
  unfold validate_deploy. destruct (mem (d_flags d) VM_FLAGS_OK) eqn:F; cbn [negb].
  - pose proof (flags_cover _ F) as C. destruct (vm_is_wasm (d_flags d)) as [w|]; [|congruence].
    repeat match goal with |- context [if ?c then _ else _] => destruct c end;
      intro X; inversion X; proper_tac.
  - intro X; inversion X; proper_tac.
Qed.

Definition deploy_ok (d : deploy) : Prop := validate_deploy d = None /\ d_flags d < 256.

Lemma mspec_deploy : mspec deploy_deser (fun d bs => bs = deploy_encode d /\ deploy_ok d).
Proof.
  unfold deploy_deser. eapply mspec_weaken.
  - eapply mspec_bind; [apply mspec_varbytes_ei|intro code].
    eapply mspec_bind; [apply mspec_byte|intro flags].
    eapply mspec_bind; [apply mspec_varbytes_ei|intro name].
    eapply mspec_bind; [apply mspec_varbytes_ei|intro version].
    eapply mspec_bind; [apply mspec_varbytes_ei|intro author].
    eapply mspec_bind; [apply mspec_varbytes_ei|intro email].
    eapply mspec_bind; [apply mspec_varbytes_ie|intro desc].
    instantiate (1 := fun desc d bs => d = mkDeploy code flags name version author email desc /\ bs = [] /\ validate_deploy d = None).
    cbv beta zeta. destruct (validate_deploy (mkDeploy code flags name version author email desc)) eqn:V.
    + apply mspec_fail. eapply validate_proper; exact V.
    + eapply mspec_weaken; [apply mspec_ret|]. intros a bs [-> ->]. auto.
  - intros d bs Hx. cbv beta in Hx. unpack. unfold deploy_encode, deploy_ok. cbn [d_code d_flags d_name d_version d_author d_email d_desc].
    rewrite app_nil_r. repeat rewrite <- app_assoc. auto.
Qed.

Lemma mspec_sig : mspec sig_deser (fun g bs => bs = sig_encode g).
Proof.
  unfold sig_deser. eapply mspec_weaken.
  - eapply mspec_bind; [apply mspec_varbytes_ei|intro inv].
    eapply mspec_bind; [apply mspec_varbytes_ei|intro ver].
    apply mspec_ret.
  - intros g bs Hx. cbv beta in Hx. unpack. unfold sig_encode. cbn [sg_invoke sg_verify]. rewrite app_nil_r. reflexivity.
Qed.

Lemma mspec_sigs n : mspec (sigs_deser n) (fun l bs => bs = flat_map sig_encode l /\ length l = n).
Proof.
  induction n as [|n IH]; cbn [sigs_deser].
  - eapply mspec_weaken; [apply mspec_ret|]. intros l bs [-> ->]. auto.
  - eapply mspec_weaken.
    + eapply mspec_bind; [apply mspec_sig|intro g].
      eapply mspec_bind; [apply IH|intro r]. apply mspec_ret.
    + intros l bs Hx. cbv beta in Hx. unpack. cbn [flat_map length]. rewrite app_nil_r. auto.
Qed.

Section TxProofs.
Variable H : bytes -> bytes.
Variable etx : Type.
Variable E : ethapi etx.

(** What deserializeOntUnsigned guarantees about an accepted unsigned part. *)
Definition payload_ok (ty : N) (p : payload etx) : Prop :=
  match p with
  | PInvoke _ => ty = TX_INVOKE_NEO \/ ty = TX_INVOKE_WASM
  | PDeploy d => ty = TX_DEPLOY /\ deploy_ok d
  | PEip _ => False
  end.

Lemma mspec_payload ty :
  mspec (@payload_deser etx ty) (fun p bs => bs = payload_encode E p /\ payload_ok ty p).
Proof.
  unfold payload_deser.
  destruct ((ty =? TX_INVOKE_NEO) || (ty =? TX_INVOKE_WASM)) eqn:T1.
  - eapply mspec_weaken.
    + eapply mspec_bind; [apply mspec_varbytes_ei|intro c]. apply mspec_ret.
    + intros p bs Hx. cbv beta in Hx. unpack. cbn [payload_encode payload_ok]. rewrite app_nil_r.
      split; [reflexivity|]. apply orb_true_iff in T1. destruct T1 as [T|T]; apply N.eqb_eq in T; auto.
  - destruct (ty =? TX_DEPLOY) eqn:T2.
    + eapply mspec_weaken.
      * eapply mspec_bind; [apply mspec_deploy|intro d]. apply mspec_ret.
      * intros p bs Hx. cbv beta in Hx. unpack. cbn [payload_encode payload_ok]. rewrite app_nil_r.
        apply N.eqb_eq in T2. auto.
    + apply mspec_fail. proper_tac.
Qed.

Definition unsigned_ok (u : unsigned etx) : Prop :=
  u_version u = 0 /\ u_type u < 256 /\ u_type u <> TX_EIP155 /\
  u_nonce u < two32 /\ u_gasprice u < two64 /\ u_gaslimit u < two64 /\
  length (u_payer u) = ADDR_LEN /\ payload_ok (u_type u) (u_payload u).

Definition u_encode (u : unsigned etx) : bytes :=
  encode_unsigned E (u_version u) (u_type u) (u_nonce u) (u_gasprice u) (u_gaslimit u) (u_payer u) (u_payload u) 0.

Lemma mspec_unsigned :
  mspec (@deserialize_ont_unsigned etx) (fun u bs => bs = u_encode u /\ unsigned_ok u).
Proof.
  unfold deserialize_ont_unsigned. eapply mspec_weaken.
  - eapply mspec_bind; [apply mspec_byte|intro ver].
    eapply mspec_bind; [apply mspec_guard; proper_tac|intros ?].
    eapply mspec_bind; [apply mspec_byte|intro ty].
    eapply mspec_bind; [apply mspec_guard; proper_tac|intros ?].
    eapply mspec_bind; [apply mspec_uint|intro nonce].
    eapply mspec_bind; [apply mspec_uint|intro gp].
    eapply mspec_bind; [apply mspec_uint|intro gl].
    eapply mspec_bind; [apply mspec_bytes|intro payer].
    eapply mspec_bind; [apply mspec_payload|intro p].
    eapply mspec_bind; [apply mspec_varuint_ie|intro n].
    eapply mspec_bind; [apply mspec_guard; proper_tac|intros ?].
    apply mspec_ret.
  - intros u bs Hx. cbv beta in Hx. unpack.
    match goal with Hn : (_ =? 0) = true |- _ => apply N.eqb_eq in Hn end.
    match goal with Hn : (_ =? 0) = true |- _ => apply N.eqb_eq in Hn end.
    match goal with Hn : negb (_ =? TX_EIP155) = true |- _ => apply negb_true_iff, N.eqb_neq in Hn end.
    subst. unfold u_encode, encode_unsigned, unsigned_ok, write_uint32, write_uint64.
    cbn [u_version u_type u_nonce u_gasprice u_gaslimit u_payer u_payload app].
    destruct widths as (W16 & W32 & W64). rewrite W32, W64 in *.
    repeat rewrite app_nil_r. repeat rewrite <- app_assoc. cbn [app].
    split; [reflexivity|]. repeat split; try assumption; try lia.
Qed.

(** * BackUp / re-read of a consumed range, positions *)
Lemma sub64_consumed s s' bs :
  good s -> consumed s s' bs -> sub64 (src_pos s') (src_pos s) = N.of_nat (length bs).
Proof.
  intros [[Ho Hl] _] (Eb & O & B & _). unfold sub64, src_pos. rewrite O.
  replace (N.of_nat (off s + length bs) + two64 - N.of_nat (off s)) with (N.of_nat (length bs) + 1 * two64) by lia.
  rewrite N.mod_add by (unfold two64; discriminate). apply N.mod_small. lia.
Qed.

Lemma back_up_consumed s s' bs : consumed s s' bs -> back_up s' (N.of_nat (length bs)) = Some s.
Proof.
  intros (Eb & O & B & _). unfold back_up, src_pos.
  replace (N.of_nat (length bs) <=? N.of_nat (off s')) with true by (symmetry; apply N.leb_le; lia).
  f_equal. destruct s as [b o]. simpl in *. rewrite Nat2N.id. f_equal; [exact Eb|lia].
Qed.

Lemma reread_consumed s s' bs :
  good s -> consumed s s' bs -> m_reread (N.of_nat (length bs)) s' = (inl bs, s').
Proof.
  intros [Hok _] C. unfold m_reread. rewrite (back_up_consumed s s' bs C).
  rewrite (next_bytes_again s s' bs Hok C). reflexivity.
Qed.

(** isEip155TxBytes leaves the source where it was when two bytes are available; otherwise the
    source is at the end of the buffer and the answer is false. It never backs up too far. *)
Lemma is_eip155_spec s : good s ->
  match is_eip155 s with
  | (inl b, s') => (s' = s /\ (off s + 2 <= length (buf s))%nat) \/
                   (b = false /\ step_safe s s' /\ off s' = length (buf s'))
  | (inr e, _) => False
  end.
Proof.
  intros G. unfold is_eip155. destruct (next_bytes s 2) as [[prefix e] s1] eqn:E1. destruct e.
  - right. pose proof (next_bytes_spec s 2 (proj1 G)) as P. rewrite E1 in P.
    destruct P as (Eb & Bd & _ & _ & P). destruct (P eq_refl) as [_ Ho].
    split; [reflexivity|]. split; [split; [exact Eb|lia]|]. rewrite Eb. exact Ho.
  - destruct (next_bytes_consumed s 2 prefix s1 G E1) as [C L].
    replace 2 with (N.of_nat (length prefix)) by exact L.
    rewrite (back_up_consumed s s1 prefix C). left. split; [reflexivity|].
    destruct C as (_ & O & B & _). lia.
Qed.

Lemma from155_proper e er : tx_from_eip155 E e = inr er -> proper er.
Proof.
  unfold tx_from_eip155. destruct (e_sender E e); [|intro X; inversion X; proper_tac].
  destruct ((MAX_UINT32 <? e_nonce E e) || negb (e_gasprice E e <? two64)); [intro X; inversion X; proper_tac|].
  destruct (negb (e_gasprice E e mod GWEI =? 0)); intro X; inversion X; proper_tac.
Qed.

(** What an accepted EIP-155 transaction looks like. *)
Definition eip_tx (t : tx etx) (e : etx) : Prop := tx_from_eip155 E e = inl t.

Lemma eip_tx_encode t e : eip_tx t e -> tx_encode E t = [0; TX_EIP155] ++ write_varbytes (rlp_enc E e) /\ t_raw t = tx_encode E t.
Proof.
  unfold eip_tx, tx_from_eip155. destruct (e_sender E e); [|discriminate].
  destruct ((MAX_UINT32 <? e_nonce E e) || negb (e_gasprice E e <? two64)); [discriminate|].
  destruct (negb (e_gasprice E e mod GWEI =? 0)); [discriminate|]. intro X; inversion X; subst; clear X.
  unfold tx_encode. cbn [t_payload t_version t_type t_raw]. auto.
Qed.

Section Canon.
(** go-ethereum's RLP decoder accepts only what its encoder writes (validated on every accepted
    and every RLP-decodable EIP-155 payload by the harness). *)
Hypothesis rlp_canon : forall b e, rlp_dec E b = Some e -> rlp_enc E e = b.

Lemma decode_eip155_spec s : good s -> (off s + 2 <= length (buf s))%nat ->
  match decode_eip155 E s with
  | (inl t, s') => exists bs, consumed s s' bs /\ bs = tx_encode E t /\ (exists e, eip_tx t e) /\
                   N.of_nat (length bs) <= MAX_TX_SIZE
  | (inr e, s') => step_safe s s' /\ proper e
  end.
Proof.
  intros G Two. unfold decode_eip155, bind, m_pos, m_byte_noeof, guard, ret, fail.
  destruct (next_byte s) as [[ver e0] s1] eqn:E1.
  destruct e0.
  { destruct (next_byte_eof s ver s1 (proj1 G) E1) as [_ X]. lia. }
  destruct (next_byte_consumed s ver s1 G E1) as [C1 Hver].
  assert (G1 : good s1) by (eapply good_consumed; eassumption).
  destruct (ver =? 0) eqn:V; cbv iota beta;
    [|split; [eapply consumed_safe; exact C1|proper_tac]].
  apply N.eqb_eq in V. subst ver.
  pose proof (mspec_byte s1 G1) as P2. destruct (m_byte s1) as [[ty|er] s2].
  2:{ destruct P2 as [S2 Pe]. split; [|exact Pe]. eapply step_safe_trans; [eapply consumed_safe; exact C1|exact S2]. }
  destruct P2 as (b2 & C2 & -> & Hty).
  assert (C12 := consumed_app _ _ _ _ _ C1 C2).
  assert (G2 : good s2) by (eapply good_consumed; eassumption).
  destruct (ty =? TX_EIP155) eqn:T; cbv iota beta;
    [|split; [eapply consumed_safe; exact C12|proper_tac]].
  apply N.eqb_eq in T. subst ty.
  pose proof (mspec_varbytes_ie s2 G2) as P3. destruct (m_varbytes_ie s2) as [[code|er] s3].
  2:{ destruct P3 as [S3 Pe]. split; [|exact Pe]. eapply step_safe_trans; [eapply consumed_safe; exact C12|exact S3]. }
  destruct P3 as (b3 & C3 & ->).
  assert (C123 := consumed_app _ _ _ _ _ C12 C3).
  destruct (rlp_dec E code) as [e|] eqn:R;
    [|split; [eapply consumed_safe; exact C123|proper_tac]].
  destruct (tx_from_eip155 E e) as [t|er] eqn:F;
    [|split; [eapply consumed_safe; exact C123|eapply from155_proper; exact F]].
  rewrite (sub64_consumed _ _ _ G C123).
  destruct (MAX_TX_SIZE <? _) eqn:Sz; cbn [negb]; cbv iota beta;
    [split; [eapply consumed_safe; exact C123|proper_tac]|].
  apply N.ltb_ge in Sz.
  eexists. split; [exact C123|]. split; [|split; [exists e; exact F|exact Sz]].
  destruct (eip_tx_encode t e F) as [-> _]. rewrite (rlp_canon code e R). reflexivity.
Qed.

(** * Transaction.Deserialization *)

(** An accepted Ontology-format transaction. *)
Definition ont_tx (t : tx etx) : Prop :=
  unsigned_ok (mkU (t_version t) (t_type t) (t_nonce t) (t_gasprice t) (t_gaslimit t) (t_payer t) (t_payload t)) /\
  t_attr t = 0 /\ N.of_nat (length (t_sigs t)) <= TX_MAX_SIG_SIZE /\
  t_hash_unsigned t = H (tx_encode_unsigned E t) /\ t_hash t = H (H (tx_encode_unsigned E t)).

(** [accepted t bs]: [t] was decoded from exactly the bytes [bs]. *)
Definition accepted (t : tx etx) (bs : bytes) : Prop :=
  bs = tx_encode E t /\ t_raw t = bs /\ N.of_nat (length bs) <= MAX_TX_SIZE /\
  (ont_tx t \/ exists e, eip_tx t e).

Lemma ont_deserialization_spec :
  mspec (@ont_deserialization H etx) (fun t bs => accepted t bs /\ ont_tx t).
Proof.
  intros s G. unfold ont_deserialization, bind, m_pos, guard, ret, fail.
  pose proof (mspec_unsigned s G) as PU. destruct (deserialize_ont_unsigned s) as [[u|er] s1]; [|exact PU].
  destruct PU as (bU & CU & -> & Uok).
  assert (G1 : good s1) by (eapply good_consumed; eassumption).
  rewrite (sub64_consumed _ _ _ G CU), (reread_consumed _ _ _ G CU).
  pose proof (mspec_varuint_ie s1 G1) as PL. destruct (m_varuint_ie s1) as [[len|er] s2].
  2:{ destruct PL as [S2 Pe]. split; [|exact Pe]. eapply step_safe_trans; [eapply consumed_safe; exact CU|exact S2]. }
  destruct PL as (bL & CL & -> & Hlen).
  assert (CUL := consumed_app _ _ _ _ _ CU CL).
  assert (G2 : good s2) by (eapply good_consumed; eassumption).
  destruct (TX_MAX_SIG_SIZE <? len) eqn:NS; cbn [negb]; cbv iota beta;
    [split; [eapply consumed_safe; exact CUL|proper_tac]|].
  apply N.ltb_ge in NS.
  pose proof (mspec_sigs (N.to_nat len) s2 G2) as PS. destruct (sigs_deser (N.to_nat len) s2) as [[sigs|er] s3].
  2:{ destruct PS as [S3 Pe]. split; [|exact Pe]. eapply step_safe_trans; [eapply consumed_safe; exact CUL|exact S3]. }
  destruct PS as (bS & CS & -> & Hn).
  assert (CA := consumed_app _ _ _ _ _ CUL CS).
  rewrite (sub64_consumed _ _ _ G CA).
  destruct (MAX_TX_SIZE <? _) eqn:Sz; cbn [negb]; cbv iota beta;
    [split; [eapply consumed_safe; exact CA|proper_tac]|].
  apply N.ltb_ge in Sz.
  rewrite (reread_consumed _ _ _ G CA).
  eexists. split; [exact CA|].
  assert (EU : tx_encode_unsigned E (mkTx (u_version u) (u_type u) (u_nonce u) (u_gasprice u) (u_gaslimit u) (u_payer u)
            (u_payload u) 0 sigs ((u_encode u ++ write_varuint len) ++ flat_map sig_encode sigs) (H (u_encode u)) (H (H (u_encode u)))) = u_encode u)
    by reflexivity.
  assert (OT : ont_tx (mkTx (u_version u) (u_type u) (u_nonce u) (u_gasprice u) (u_gaslimit u) (u_payer u)
            (u_payload u) 0 sigs ((u_encode u ++ write_varuint len) ++ flat_map sig_encode sigs) (H (u_encode u)) (H (H (u_encode u))))).
  { unfold ont_tx. rewrite EU. cbn [t_version t_type t_nonce t_gasprice t_gaslimit t_payer t_payload t_attr t_sigs t_hash_unsigned t_hash].
    destruct u; cbn in *. repeat split; try reflexivity; try apply Uok. rewrite Hn, N2Nat.id. exact NS. }
  split; [|exact OT]. unfold accepted. split; [|split; [reflexivity|split; [exact Sz|left; exact OT]]].
  unfold tx_encode. cbn [t_payload]. destruct (u_payload u) eqn:PL.
  - rewrite EU. unfold sigs_encode. cbn [t_sigs]. rewrite Hn, N2Nat.id, <- app_assoc. reflexivity.
  - rewrite EU. unfold sigs_encode. cbn [t_sigs]. rewrite Hn, N2Nat.id, <- app_assoc. reflexivity.
  - exfalso. destruct Uok as (_ & _ & _ & _ & _ & _ & _ & PO). rewrite PL in PO. exact PO.
Qed.

Lemma tx_encode_nonempty t bs : accepted t bs -> (2 <= length bs)%nat.
Proof.
  intros (-> & _ & _ & [OT|[e ET]]).
  - unfold tx_encode. destruct (t_payload t); unfold tx_encode_unsigned, encode_unsigned; cbn [app length]; lia.
  - destruct (eip_tx_encode t e ET) as [-> _]. cbn [app length]. lia.
Qed.

(** Main decoder theorem: on every good source, Transaction.Deserialization either fails with a
    proper error leaving the source inside the buffer, or accepts [t] having consumed exactly
    [tx_encode t], which is also [t_raw t] and at most MAX_TX_SIZE long. *)
Theorem tx_deserialization_spec : mspec (tx_deserialization H E) accepted.
Proof.
  intros s G. unfold tx_deserialization, bind.
  pose proof (is_eip155_spec s G) as PI. destruct (is_eip155 s) as [[b|er] s0]; [|contradiction].
  destruct PI as [[-> Two]|(-> & Sf & End)].
  - destruct b.
    + pose proof (decode_eip155_spec s G Two) as PD. destruct (decode_eip155 E s) as [[t|er] s1]; [|exact PD].
      destruct PD as (bs & C & -> & Ex & Sz). exists (tx_encode E t). split; [exact C|].
      unfold accepted. split; [reflexivity|]. destruct Ex as [e ET]. destruct (eip_tx_encode t e ET) as [_ R].
      split; [exact R|]. split; [exact Sz|]. right. exists e. exact ET.
    + pose proof (ont_deserialization_spec s G) as PO. destruct (@ont_deserialization H etx s) as [[t|er] s1]; [|exact PO].
      destruct PO as (bs & C & A & _). exists bs. auto.
  - assert (G0 : good s0) by (eapply good_safe; eassumption).
    pose proof (ont_deserialization_spec s0 G0) as PO. destruct (@ont_deserialization H etx s0) as [[t|er] s1].
    + exfalso. destruct PO as (bs & C & A & _). pose proof (tx_encode_nonempty t bs A) as L2.
      destruct C as (Eb & O & B & _). rewrite <- End in *. lia.
    + destruct PO as [S1 Pe]. split; [|exact Pe]. eapply step_safe_trans; eassumption.
Qed.

End Canon.
End TxProofs.

Lemma app_eq_len {A} (x y a c : list A) : x ++ y = a ++ c -> length x = length a -> x = a /\ y = c.
Proof.
  revert a. induction x as [|h x IH]; intros [|h' a] E L; simpl in *; try discriminate.
  - auto.
  - inversion E; subst. destruct (IH a H1 ltac:(lia)) as [-> ->]. auto.
Qed.

Lemma slice_prefix b o (a c : bytes) : slice b o (length (a ++ c)) = a ++ c -> slice b o (length a) = a.
Proof.
  rewrite app_length, slice_split. intro S.
  assert (L1 : (length (slice b o (length a)) <= length a)%nat) by (unfold slice; rewrite firstn_length; lia).
  assert (L2 : (length (slice b (o + length a) (length c)) <= length c)%nat) by (unfold slice; rewrite firstn_length; lia).
  pose proof (f_equal (@length N) S) as L. rewrite !app_length in L.
  apply app_eq_len in S; [tauto|lia].
Qed.

(** * Consequences *)
Section Consequences.
Variable H : bytes -> bytes.
Variable etx : Type.
Variable E : ethapi etx.
Hypothesis rlp_canon : forall b e, rlp_dec E b = Some e -> rlp_enc E e = b.

Local Notation accepted := (accepted H etx E).
Local Notation ont_tx := (ont_tx H etx E).
Local Notation eip_tx := (eip_tx etx E).

Lemma eip_tx_type t e : eip_tx t e ->
  t_type t = TX_EIP155 /\ t_payload t = PEip e /\ t_sigs t = [] /\
  t_hash t = e_hash E e /\ t_hash_unsigned t = e_sighash E e /\
  t_nonce t = e_nonce E e /\ t_gasprice t * GWEI = e_gasprice E e /\ t_gaslimit t = e_gas E e /\
  e_sender E e = Some (t_payer t) /\ t_nonce t <= MAX_UINT32 /\ e_gasprice E e < two64.
Proof.
  unfold TxCodec.eip_tx, tx_from_eip155. destruct (e_sender E e); [|discriminate].
  destruct ((MAX_UINT32 <? e_nonce E e) || negb (e_gasprice E e <? two64)) eqn:B; [discriminate|].
  destruct (negb (e_gasprice E e mod GWEI =? 0)) eqn:Gw; [discriminate|]. intro X; inversion X; subst; clear X.
  cbn [t_type t_payload t_sigs t_hash t_hash_unsigned t_nonce t_gasprice t_gaslimit t_payer].
  apply orb_false_iff in B. destruct B as [B1 B2]. apply N.ltb_ge in B1. apply negb_false_iff, N.ltb_lt in B2.
  apply negb_false_iff, N.eqb_eq in Gw.
  repeat split; try reflexivity; try assumption.
  assert (GWEI <> 0) by (unfold GWEI; discriminate).
  pose proof (N.div_mod (e_gasprice E e) GWEI ltac:(assumption)). lia.
Qed.

Lemma ont_tx_type t : ont_tx t -> t_type t <> TX_EIP155.
Proof. intros ((_ & _ & T & _) & _). exact T. Qed.

Lemma accepted_ont t bs : accepted t bs -> t_type t <> TX_EIP155 -> ont_tx t.
Proof.
  intros (_ & _ & _ & [O|[e ET]]) T; [exact O|]. destruct (eip_tx_type t e ET) as [X _]. contradiction.
Qed.

Lemma accepted_eip t bs : accepted t bs -> t_type t = TX_EIP155 -> exists e, eip_tx t e.
Proof.
  intros (_ & _ & _ & [O|X]) T; [|exact X]. exfalso. exact (ont_tx_type t O T).
Qed.

(** The consumed bytes of an accepted Ontology-format transaction start with its unsigned part. *)
Lemma accepted_ont_prefix t bs : accepted t bs -> ont_tx t ->
  bs = tx_encode_unsigned E t ++ sigs_encode (t_sigs t).
Proof.
  intros (-> & _) ((_ & _ & _ & _ & _ & _ & _ & PO) & _). unfold tx_encode.
  cbn [u_payload u_type] in PO. destruct (t_payload t); [reflexivity|reflexivity|contradiction].
Qed.

(** ** Source level: what Transaction.Deserialization does on any good source *)
Theorem deserialization_canonical s t s' :
  good s -> tx_deserialization H E s = (inl t, s') ->
  consumed s s' (tx_encode E t) /\ tx_to_array t = tx_encode E t /\
  N.of_nat (length (tx_encode E t)) <= MAX_TX_SIZE.
Proof.
  intros G D. pose proof (tx_deserialization_spec H etx E rlp_canon s G) as P. rewrite D in P.
  destruct P as (bs & C & -> & R & Sz & _). unfold tx_to_array. auto.
Qed.

Theorem deserialization_total s :
  good s ->
  let '(r, s') := tx_deserialization H E s in
  step_safe s s' /\ r <> inr TBackUp /\ r <> inr TPanic.
Proof.
  intros G. pose proof (tx_deserialization_spec H etx E rlp_canon s G) as P.
  destruct (tx_deserialization H E s) as [[t|e] s'].
  - destruct P as (bs & C & _). split; [eapply consumed_safe; exact C|split; discriminate].
  - destruct P as [S [P1 P2]]. split; [exact S|]. split; intro X; inversion X; contradiction.
Qed.

(** ** Byte-string level: TransactionFromRawBytes *)
Lemma src_new_good b : wf_bytes b = true -> N.of_nat (length b) < two64 -> good (src_new b).
Proof. intros W L. split; [apply src_new_ok; exact L|exact W]. Qed.

Lemma consumed_from_start b s' bs : consumed (src_new b) s' bs -> b = bs ++ skipn (length bs) b /\ off s' = length bs /\ buf s' = b.
Proof.
  intros (Eb & O & B & S). cbn [src_new buf off] in *. unfold slice in S. simpl in S.
  split; [|split; [lia|exact Eb]]. rewrite <- S at 1. symmetry. apply firstn_skipn.
Qed.

Lemma max_tx_lt_two64 : MAX_TX_SIZE < two64.
Proof. reflexivity. Qed.

Theorem decode_consumes_canonical b t s' :
  wf_bytes b = true ->
  tx_from_raw_bytes H E b = (inl t, s') ->
  exists rest, b = tx_encode E t ++ rest /\ tx_to_array t = tx_encode E t /\
               N.of_nat (length (tx_encode E t)) <= MAX_TX_SIZE /\
               src_pos s' = N.of_nat (length (tx_encode E t)).
Proof.
  intros W D. unfold tx_from_raw_bytes, blen in D. destruct (MAX_TX_SIZE <? N.of_nat (length b)) eqn:Sz; [discriminate|].
  apply N.ltb_ge in Sz. pose proof max_tx_lt_two64.
  assert (G : good (src_new b)) by (apply src_new_good; [exact W|lia]).
  destruct (deserialization_canonical _ _ _ G D) as (C & R & L).
  destruct (consumed_from_start _ _ _ C) as (Eb & O & _).
  exists (skipn (length (tx_encode E t)) b). unfold src_pos. rewrite O. auto.
Qed.

Theorem oversize_rejected b :
  MAX_TX_SIZE < N.of_nat (length b) -> fst (tx_from_raw_bytes H E b) = inr TOversize.
Proof.
  intro L. unfold tx_from_raw_bytes, blen. apply N.ltb_lt in L. rewrite L. reflexivity.
Qed.

Theorem decode_total b :
  wf_bytes b = true ->
  let '(r, s') := tx_from_raw_bytes H E b in
  r <> inr TBackUp /\ r <> inr TPanic /\ buf s' = b /\ (off s' <= length b)%nat.
Proof.
  intros W. unfold tx_from_raw_bytes, blen. destruct (MAX_TX_SIZE <? N.of_nat (length b)) eqn:Sz.
  - cbn [src_new buf off]. repeat split; try discriminate; lia.
  - apply N.ltb_ge in Sz. pose proof max_tx_lt_two64.
    assert (G : good (src_new b)) by (apply src_new_good; [exact W|lia]).
    pose proof (deserialization_total _ G) as P. destruct (tx_deserialization H E (src_new b)) as [r s'].
    destruct P as ([Eb Bd] & P1 & P2). cbn [src_new buf off] in *. repeat split; try assumption; lia.
Qed.

(** One encoding: two accepted inputs that decode to the same transaction consumed the same bytes. *)
Theorem one_encoding s1 s1' s2 s2' t :
  good s1 -> good s2 ->
  tx_deserialization H E s1 = (inl t, s1') -> tx_deserialization H E s2 = (inl t, s2') ->
  slice (buf s1) (off s1) (off s1' - off s1) = slice (buf s2) (off s2) (off s2' - off s2).
Proof.
  intros G1 G2 D1 D2.
  destruct (deserialization_canonical _ _ _ G1 D1) as ((_ & O1 & _ & S1) & _).
  destruct (deserialization_canonical _ _ _ G2 D2) as ((_ & O2 & _ & S2) & _).
  replace (off s1' - off s1)%nat with (length (tx_encode E t)) by lia.
  replace (off s2' - off s2)%nat with (length (tx_encode E t)) by lia. congruence.
Qed.

(** ** The hash *)
Theorem hash_of_unsigned s t s' :
  good s -> tx_deserialization H E s = (inl t, s') -> t_type t <> TX_EIP155 ->
  let u := tx_encode_unsigned E t in
  t_hash t = H (H u) /\ t_hash_unsigned t = H u /\
  slice (buf s) (off s) (length u) = u /\ tx_encode E t = u ++ sigs_encode (t_sigs t).
Proof.
  intros G D T u. pose proof (tx_deserialization_spec H etx E rlp_canon s G) as P. rewrite D in P.
  destruct P as (bs & C & A). pose proof (accepted_ont t bs A T) as O.
  pose proof (accepted_ont_prefix t bs A O) as Pre. destruct A as (Ebs & _).
  destruct O as (_ & _ & _ & HU & HH). fold u in HU, HH, Pre.
  split; [exact HH|]. split; [exact HU|]. split; [|rewrite <- Ebs; exact Pre].
  destruct C as (_ & _ & _ & S). rewrite Pre in S. apply slice_prefix in S. exact S.
Qed.

(** The hash is a function of the unsigned part only: two accepted Ontology-format inputs with the
    same unsigned bytes have the same hash, whatever their signature sections are. *)
Theorem hash_unsigned_only s1 s1' t1 s2 s2' t2 :
  good s1 -> good s2 ->
  tx_deserialization H E s1 = (inl t1, s1') -> tx_deserialization H E s2 = (inl t2, s2') ->
  t_type t1 <> TX_EIP155 -> t_type t2 <> TX_EIP155 ->
  tx_encode_unsigned E t1 = tx_encode_unsigned E t2 ->
  t_hash t1 = t_hash t2 /\ t_hash_unsigned t1 = t_hash_unsigned t2.
Proof.
  intros G1 G2 D1 D2 T1 T2 EU.
  destruct (hash_of_unsigned _ _ _ G1 D1 T1) as (H1 & U1 & _).
  destruct (hash_of_unsigned _ _ _ G2 D2 T2) as (H2 & U2 & _).
  rewrite H1, H2, U1, U2, EU. auto.
Qed.

(** In terms of fields: equal unsigned fields give equal hashes; [t_sigs] does not occur. *)
Theorem signatures_not_hashed s1 s1' t1 s2 s2' t2 :
  good s1 -> good s2 ->
  tx_deserialization H E s1 = (inl t1, s1') -> tx_deserialization H E s2 = (inl t2, s2') ->
  t_type t1 <> TX_EIP155 ->
  t_version t1 = t_version t2 -> t_type t1 = t_type t2 -> t_nonce t1 = t_nonce t2 ->
  t_gasprice t1 = t_gasprice t2 -> t_gaslimit t1 = t_gaslimit t2 -> t_payer t1 = t_payer t2 ->
  t_payload t1 = t_payload t2 ->
  t_hash t1 = t_hash t2.
Proof.
  intros G1 G2 D1 D2 T1 Ev Et En Egp Egl Ep Epl.
  assert (T2 : t_type t2 <> TX_EIP155) by congruence.
  apply (hash_unsigned_only _ _ _ _ _ _ G1 G2 D1 D2 T1 T2).
  pose proof (tx_deserialization_spec H etx E rlp_canon s1 G1) as P1. rewrite D1 in P1.
  pose proof (tx_deserialization_spec H etx E rlp_canon s2 G2) as P2. rewrite D2 in P2.
  destruct P1 as (b1 & _ & A1). destruct P2 as (b2 & _ & A2).
  destruct (accepted_ont _ _ A1 T1) as (_ & At1 & _). destruct (accepted_ont _ _ A2 T2) as (_ & At2 & _).
  unfold tx_encode_unsigned. congruence.
Qed.

(** The hash binds the unsigned bytes: equal hashes mean equal unsigned bytes, or the two
    arguments exhibit a collision of [H]. *)
Theorem hash_binds_unsigned s1 s1' t1 s2 s2' t2 :
  good s1 -> good s2 ->
  tx_deserialization H E s1 = (inl t1, s1') -> tx_deserialization H E s2 = (inl t2, s2') ->
  t_type t1 <> TX_EIP155 -> t_type t2 <> TX_EIP155 ->
  t_hash t1 = t_hash t2 ->
  tx_encode_unsigned E t1 = tx_encode_unsigned E t2 \/ exists x y, x <> y /\ H x = H y.
Proof.
  intros G1 G2 D1 D2 T1 T2 EH.
  destruct (hash_of_unsigned _ _ _ G1 D1 T1) as (H1 & _).
  destruct (hash_of_unsigned _ _ _ G2 D2 T2) as (H2 & _).
  rewrite H1, H2 in EH.
  destruct (list_eq_dec N.eq_dec (tx_encode_unsigned E t1) (tx_encode_unsigned E t2)) as [e|n]; [left; exact e|right].
  destruct (list_eq_dec N.eq_dec (H (tx_encode_unsigned E t1)) (H (tx_encode_unsigned E t2))) as [e'|n'].
  - exists (tx_encode_unsigned E t1), (tx_encode_unsigned E t2). auto.
  - exists (H (tx_encode_unsigned E t1)), (H (tx_encode_unsigned E t2)). auto.
Qed.

(** EIP-155 format: the transaction hash is go-ethereum's Hash() of the decoded transaction (it
    covers the signature values, as on Ethereum); the signing hash is signer.Hash. *)
Theorem eip155_hashes s t s' :
  good s -> tx_deserialization H E s = (inl t, s') -> t_type t = TX_EIP155 ->
  exists e, t_payload t = PEip e /\ t_hash t = e_hash E e /\ t_hash_unsigned t = e_sighash E e /\
            tx_encode E t = [0; TX_EIP155] ++ write_varbytes (rlp_enc E e).
Proof.
  intros G D T. pose proof (tx_deserialization_spec H etx E rlp_canon s G) as P. rewrite D in P.
  destruct P as (bs & C & A). destruct (accepted_eip t bs A T) as [e ET].
  destruct (eip_tx_type t e ET) as (_ & Pl & _ & Hh & Hs & _).
  destruct (eip_tx_encode etx E t e ET) as [En _].
  exists e. repeat split; assumption.
Qed.

End Consequences.
