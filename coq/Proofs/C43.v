(** C43 — the invariant of the block-store bloom records over every history of committed blocks
    and restarts, and the property theorems derived from it. *)
From Coq Require Import List Bool Arith NArith ZArith Lia ZifyN ZifyNat ZifyBool FMapPositive.
Import ListNotations.
From Ont Require Import Lib.Bytes Gen.BloomConsts Gen.BloomFormulas Model.Bloom.
From Ont Require Import Proofs.BloomFilter Proofs.BloomIndex Proofs.BloomCompress Proofs.BloomStore.
Local Open Scope N_scope.
Ltac Zify.zify_post_hook ::= Z.to_euclidean_division_equations.

Lemma some_inj {A : Type} (a b : A) : Some a = Some b -> a = b.
Proof. intro H; injection H; auto. Qed.

Definition wfb (b : bloom) : Prop := N.of_nat (length b) = BloomByteLength.

(** the bloom [GetBloomData] returns *)
Definition stored (s : kvstore) (h : N) : bloom :=
  match kv_get s (bloom_key h) with Some v => v | None => zero_bloom end.

(** the uncompressed vector of bit [i] over section [sec] of the stored blooms *)
Definition sec_vec (s : kvstore) (sec i : N) : bytes :=
  pack8 (map (fun k => bloom_bit (stored s k) i) (nseq (sec * S) S)).

Definition nxt (blooms : list bloom) : N := N.of_nat (length blooms).
Definition nthB (blooms : list bloom) (h : N) : bloom := nth (N.to_nat h) blooms zero_bloom.

Record Inv (adh : N) (blooms : list bloom) (st : bstate) : Prop := {
  i_cur : cur_rec st = if nxt blooms =? 0 then None else Some (nxt blooms - 1);
  i_rec : match fs_rec st with None => filter_start st = 0 | Some f => f = filter_start st end;
  i_fs1 : filter_start st < nxt blooms \/ filter_start st mod S = 0;
  i_fs2 : filter_start st <= nxt blooms \/ filter_start st <= adh;
  i_cache : filter_start st <= nxt blooms -> forall k, nxt blooms - nxt blooms mod S <= k < nxt blooms ->
            PositiveMap.find (ckey k) (cache st) = Some (stored (kv st) k);
  i_vals : forall h v, h < U32 -> kv_get (kv st) (bloom_key h) = Some v -> h < nxt blooms /\ v = nthB blooms h;
  i_have : forall h, h < nxt blooms -> adh <= h -> kv_get (kv st) (bloom_key h) = Some (nthB blooms h);
  i_bits : forall i s v, i < 65536 -> s < U32 -> kv_get (kv st) (bloom_bits_key i s) = Some v ->
           i < BloomBitLength /\ (s + 1) * S <= nxt blooms /\ v = compress_bytes (sec_vec (kv st) s i);
  i_bits_have : forall s i, (s + 1) * S <= nxt blooms -> adh <= (s + 1) * S - 1 -> i < BloomBitLength ->
           kv_get (kv st) (bloom_bits_key i s) <> None
}.

Lemma inv_init adh : Inv adh [] init_state.
Proof.
  constructor; cbn [init_state cur_rec fs_rec filter_start kv cache nxt length N.of_nat N.eqb]; rewrite ?kv_get_empty;
    try reflexivity; intros; rewrite ?kv_get_empty in *; try discriminate; try lia.
  unfold S, BloomBitsBlocks in *; lia.
Qed.

Lemma nxt_app blooms b : nxt (blooms ++ [b]) = nxt blooms + 1.
Proof. unfold nxt. rewrite app_length. simpl. lia. Qed.

Lemma nthB_app_old blooms b h : h < nxt blooms -> nthB (blooms ++ [b]) h = nthB blooms h.
Proof. unfold nthB, nxt; intro H. apply app_nth1. lia. Qed.

Lemma nthB_app_new blooms b : nthB (blooms ++ [b]) (nxt blooms) = b.
Proof. unfold nthB, nxt. rewrite Nat2N.id, app_nth2, Nat.sub_diag by lia. reflexivity. Qed.

Lemma nthB_wf blooms h : Forall wfb blooms -> wfb (nthB blooms h).
Proof.
  intro H. unfold nthB. destruct (Nat.ltb (N.to_nat h) (length blooms)) eqn:E.
  - apply Nat.ltb_lt in E. rewrite Forall_forall in H. apply H, nth_In, E.
  - apply Nat.ltb_ge in E. rewrite nth_overflow by exact E. apply zero_bloom_length.
Qed.

Lemma stored_put_same s h b : stored (kv_put s (bloom_key h) b) h = b.
Proof. unfold stored. rewrite kv_get_put_same. reflexivity. Qed.

Lemma stored_put_other s h b k : h < U32 -> k < U32 -> k <> h -> stored (kv_put s (bloom_key h) b) k = stored s k.
Proof.
  intros Hh Hk Hne. unfold stored. rewrite kv_get_put_other; [reflexivity|apply bloom_key_wf|apply bloom_key_wf|].
  intro E. apply bloom_key_inj in E; [contradiction|exact Hk|exact Hh].
Qed.

Lemma sec_vec_ext s s' sec i : (forall k, sec * S <= k < sec * S + S -> stored s' k = stored s k) ->
  sec_vec s' sec i = sec_vec s sec i.
Proof.
  intro H. unfold sec_vec. f_equal. apply map_ext_in. intros k Hk. apply In_nseq in Hk. rewrite H by exact Hk. reflexivity.
Qed.

Lemma stored_wf adh blooms st h : Inv adh blooms st -> Forall wfb blooms -> h < U32 -> wfb (stored (kv st) h).
Proof.
  intros I W Hh. unfold stored. destruct (kv_get (kv st) (bloom_key h)) as [v|] eqn:E.
  - destruct (i_vals _ _ _ I h v Hh E) as [_ ->]. apply nthB_wf, W.
  - apply zero_bloom_length.
Qed.

Lemma get_bloom_data_stored adh blooms st h : Inv adh blooms st -> Forall wfb blooms -> h < U32 ->
  get_bloom_data (kv st) h = Some (stored (kv st) h).
Proof.
  intros I W Hh. assert (Hw := stored_wf _ _ _ h I W Hh). unfold get_bloom_data, stored in *.
  destruct (kv_get (kv st) (bloom_key h)); [apply (bytes_to_bloom_id (fun x => x)), Hw|reflexivity].
Qed.

(** ** a committed block *)

Section Commit.
Variables (adh : N) (blooms : list bloom) (st : bstate) (b : bloom).
Hypothesis I : Inv adh blooms st.
Hypothesis W : Forall wfb blooms.
Hypothesis Wb : wfb b.
Hypothesis Hlen : nxt blooms + 1 <= U32.

Let h := nxt blooms.

Lemma next_height_nxt : next_height st = h.
Proof.
  unfold next_height. rewrite (i_cur _ _ _ I). fold h. destruct (N.eqb_spec h 0); lia.
Qed.

Lemma cur_after : Some h = (if h + 1 =? 0 then None else Some (h + 1 - 1)).
Proof. destruct (N.eqb_spec (h + 1) 0); [lia|]. f_equal; lia. Qed.

(** the block is below the filter start: nothing is written *)
Lemma commit_skip : h < filter_start st ->
  Inv adh (blooms ++ [b]) (BState (filter_start st) (fs_rec st) (Some h) (kv st) (cache st)).
Proof.
  intro Hlt. destruct I as [Icur Irec Ifs1 Ifs2 Icache Ivals Ihave Ibits Ibh]. fold h in Ifs1, Ifs2, Icache.
  assert (Hcontra : adh <= h -> False) by (intro; lia).
  constructor; cbn [cur_rec fs_rec filter_start kv cache]; rewrite ?nxt_app; fold h.
  - apply cur_after.
  - exact Irec.
  - destruct Ifs1; [left; lia|right; assumption].
  - destruct Ifs2; [left; lia|right; assumption].
  - intros Hle k Hk. assert (filter_start st = h + 1) by lia.
    assert ((h + 1) mod S = 0) by (destruct Ifs1; [lia|congruence]). unfold S, BloomBitsBlocks in *; lia.
  - intros h' v Hh' E. destruct (Ivals h' v Hh' E) as [H1 ->]. fold h in H1. split; [lia|].
    symmetry; apply nthB_app_old; exact H1.
  - intros h' H1 H2. destruct (N.eqb_spec h' h) as [->|Hne]; [exfalso; apply Hcontra; exact H2|].
    rewrite nthB_app_old by (fold h; lia). apply Ihave; [fold h; lia|exact H2].
  - intros i s v Hi Hs E. destruct (Ibits i s v Hi Hs E) as [H1 [H2 H3]]. fold h in H2. split; [|split]; [exact H1|lia|exact H3].
  - intros s i H1 H2 H3. apply Ibh; [|exact H2|exact H3]. fold h.
    destruct (N.eqb_spec ((s + 1) * S) (h + 1)) as [E|Hne]; [exfalso; apply Hcontra; lia|lia].
Qed.

(** facts about the records after the bloom of height [h] has been put *)
Let kv1 := kv_put (kv st) (bloom_key h) b.
Let c1 := PositiveMap.add (ckey h) b (cache st).
Let c2 := if zN (clean_bound SZ) <? h
          then PositiveMap.remove (ckey (zN (clean_target (Z.of_N h) SZ))) c1 else c1.

Lemma kv1_bits i s : kv_get kv1 (bloom_bits_key i s) = kv_get (kv st) (bloom_bits_key i s).
Proof.
  apply kv_get_put_other; [apply bloom_key_wf|apply bits_key_wf|].
  intro E; symmetry in E; apply bloom_key_ne_bits_key in E; exact E.
Qed.

Lemma kv1_stored_old k : k < h -> stored kv1 k = stored (kv st) k.
Proof. intro Hk. apply stored_put_other; unfold U32 in *; lia. Qed.

Lemma kv1_sec_vec s i : (s + 1) * S <= h -> sec_vec kv1 s i = sec_vec (kv st) s i.
Proof. intro H. apply sec_vec_ext. intros k Hk. apply kv1_stored_old. lia. Qed.

Lemma c2_find k : filter_start st <= h -> h - h mod S <= k <= h ->
  PositiveMap.find (ckey k) c2 = Some (stored kv1 k).
Proof.
  intros Hfs Hk.
  assert (Hc1 : PositiveMap.find (ckey k) c1 = Some (stored kv1 k)).
  { unfold c1. destruct (N.eqb_spec k h) as [->|Hne].
    - rewrite PositiveMap.gss. unfold kv1; rewrite stored_put_same. reflexivity.
    - rewrite PositiveMap.gso by (intro E; apply ckey_inj in E; contradiction).
      rewrite kv1_stored_old by lia. apply (i_cache _ _ _ I); fold h; [exact Hfs|lia]. }
  unfold c2. rewrite clean_bound_spec. destruct (2 * S <? h) eqn:E; [|exact Hc1].
  apply N.ltb_lt in E. rewrite clean_target_spec by exact E.
  rewrite PositiveMap.gro; [exact Hc1|]. intro E2; apply ckey_inj in E2. unfold S, BloomBitsBlocks in *. lia.
Qed.

(** no section completes at this height *)
Lemma commit_plain : filter_start st <= h -> (h + 1) mod S <> 0 ->
  Inv adh (blooms ++ [b]) (BState (filter_start st) (fs_rec st) (Some h) kv1 c2).
Proof.
  intros Hfs Hnt. destruct I as [Icur Irec Ifs1 Ifs2 Icache Ivals Ihave Ibits Ibh]. fold h in Ifs1, Ifs2, Icache.
  constructor; cbn [cur_rec fs_rec filter_start kv cache]; rewrite ?nxt_app; fold h.
  - apply cur_after.
  - exact Irec.
  - left; lia.
  - left; lia.
  - intros _ k Hk. apply c2_find; [exact Hfs|]. unfold S, BloomBitsBlocks in *; lia.
  - intros h' v Hh' E. unfold kv1 in E. destruct (N.eqb_spec h' h) as [->|Hne].
    + rewrite kv_get_put_same in E. injection E as <-. split; [lia|]. symmetry; apply nthB_app_new.
    + rewrite kv_get_put_other in E by (try apply bloom_key_wf; intro E2; apply bloom_key_inj in E2; unfold U32 in *; lia).
      destruct (Ivals h' v Hh' E) as [H1 ->]. fold h in H1. split; [lia|]. symmetry; apply nthB_app_old; exact H1.
  - intros h' H1 H2. unfold kv1. destruct (N.eqb_spec h' h) as [->|Hne].
    + rewrite kv_get_put_same. unfold h; rewrite nthB_app_new. reflexivity.
    + rewrite kv_get_put_other by (try apply bloom_key_wf; intro E2; apply bloom_key_inj in E2; unfold U32 in *; lia).
      rewrite nthB_app_old by (fold h; lia). apply Ihave; [fold h; lia|exact H2].
  - intros i s v Hi Hs E. rewrite kv1_bits in E. destruct (Ibits i s v Hi Hs E) as [H1 [H2 H3]]. fold h in H2.
    split; [|split]; [exact H1|lia|]. rewrite kv1_sec_vec by exact H2. exact H3.
  - intros s i H1 H2 H3. rewrite kv1_bits. apply Ibh; [|exact H2|exact H3]. fold h.
    destruct (N.eqb_spec ((s + 1) * S) (h + 1)) as [E|Hne]; [|lia].
    exfalso; apply Hnt. rewrite <- E. apply N.mod_mul. discriminate.
Qed.

(** a section completes *)
Let sec := h / S.
Let bl := map (stored kv1) (nseq (h + 1 - S) S).

Lemma section_blooms_ok : filter_start st <= h -> (h + 1) mod S = 0 -> section_blooms c2 h = Some bl.
Proof.
  intros Hfs Ht. unfold section_blooms. rewrite loop_bound_spec.
  assert (E : nseq (h + 1 - S) S = map (fun i => h + 1 - S + i) (nseq 0 S)).
  { unfold nseq. rewrite map_map. apply map_ext; intro j. lia. }
  unfold bl. rewrite E, map_map. apply collect_map. intros i Hi. apply In_nseq in Hi.
  rewrite member_spec by (unfold U32 in *; lia). apply c2_find; [exact Hfs|]. unfold S, BloomBitsBlocks in *; lia.
Qed.

Lemma bl_length : N.of_nat (length bl) = BloomBitsBlocks.
Proof. unfold bl. rewrite map_length, nseq_length. unfold S. lia. Qed.

Let kv2 := put_all sec (combine (nseq 0 BloomBitLength) (gen_vectors bl)) kv1.

Lemma put_index_ok : put_bloom_index kv1 bl sec = Some kv2.
Proof.
  unfold put_bloom_index. rewrite bl_length, N.eqb_refl.
  change (BloomBitsBlocks mod 8 =? 0) with true. cbn [negb].
  change (zN (put_index_bound (Z.of_N BloomBitLength))) with BloomBitLength. unfold kv2, put_all. reflexivity.
Qed.

Lemma kv2_bloom k : kv_get kv2 (bloom_key k) = kv_get kv1 (bloom_key k).
Proof. apply put_all_other; [apply bloom_key_wf|]. intros iv _. apply bloom_key_ne_bits_key. Qed.

Lemma kv2_stored k : stored kv2 k = stored kv1 k.
Proof. unfold stored. rewrite kv2_bloom. reflexivity. Qed.

Lemma kv2_bits_new i : h < U32 -> i < BloomBitLength ->
  kv_get kv2 (bloom_bits_key i sec) = Some (compress_bytes (nth (N.to_nat i) (gen_vectors bl) [])).
Proof.
  intros Hh Hi. unfold kv2.
  replace BloomBitLength with (N.of_nat (length (gen_vectors bl))) by (rewrite gen_vectors_length; lia).
  rewrite put_all_hit.
  - rewrite N.sub_0_r. reflexivity.
  - rewrite gen_vectors_length. unfold BloomBitLength. lia.
  - unfold sec, S, BloomBitsBlocks, U32 in *. lia.
  - rewrite gen_vectors_length. lia.
Qed.

Lemma kv2_bits_old i s : i < 65536 -> s < U32 -> h < U32 -> (s <> sec \/ BloomBitLength <= i) ->
  kv_get kv2 (bloom_bits_key i s) = kv_get (kv st) (bloom_bits_key i s).
Proof.
  intros Hi Hs Hh Hd. unfold kv2. rewrite put_all_other; [apply kv1_bits|apply bits_key_wf|].
  intros [i' v'] Hin E. cbn [fst] in E. apply in_combine_l in Hin. apply In_nseq in Hin.
  apply bits_key_inj in E; unfold BloomBitLength, U32, sec, S, BloomBitsBlocks in *; lia.
Qed.

Lemma commit_section : filter_start st <= h -> (h + 1) mod S = 0 ->
  Inv adh (blooms ++ [b]) (BState (filter_start st) (fs_rec st) (Some h) kv2 c2).
Proof.
  intros Hfs Ht. destruct I as [Icur Irec Ifs1 Ifs2 Icache Ivals Ihave Ibits Ibh]. fold h in Ifs1, Ifs2, Icache.
  assert (Hh : h < U32) by lia.
  assert (Hsec : (sec + 1) * S = h + 1) by (unfold sec, S, BloomBitsBlocks in *; lia).
  constructor; cbn [cur_rec fs_rec filter_start kv cache]; rewrite ?nxt_app; fold h.
  - apply cur_after.
  - exact Irec.
  - left; lia.
  - left; lia.
  - intros _ k Hk. exfalso. unfold S, BloomBitsBlocks in *; lia.
  - intros h' v Hh' E. rewrite kv2_bloom in E. unfold kv1 in E. destruct (N.eqb_spec h' h) as [->|Hne].
    + rewrite kv_get_put_same in E. injection E as <-. split; [lia|]. symmetry; apply nthB_app_new.
    + rewrite kv_get_put_other in E by (try apply bloom_key_wf; intro E2; apply bloom_key_inj in E2; unfold U32 in *; lia).
      destruct (Ivals h' v Hh' E) as [H1 ->]. fold h in H1. split; [lia|]. symmetry; apply nthB_app_old; exact H1.
  - intros h' H1 H2. rewrite kv2_bloom. unfold kv1. destruct (N.eqb_spec h' h) as [->|Hne].
    + rewrite kv_get_put_same. unfold h; rewrite nthB_app_new. reflexivity.
    + rewrite kv_get_put_other by (try apply bloom_key_wf; intro E2; apply bloom_key_inj in E2; unfold U32 in *; lia).
      rewrite nthB_app_old by (fold h; lia). apply Ihave; [fold h; lia|exact H2].
  - intros i s v Hi Hs E.
    destruct (N.eqb_spec s sec) as [->|Hns]; [destruct (N.ltb_spec i BloomBitLength) as [Hib|Hib]|].
    + rewrite kv2_bits_new in E by assumption. apply some_inj in E. subst v.
      split; [|split]; [exact Hib|lia|]. apply (f_equal compress_bytes). rewrite gen_vectors_nth by exact Hib.
      unfold sec_vec, bl. rewrite map_map. replace (sec * S) with (h + 1 - S) by lia.
      apply (f_equal pack8). apply map_ext; intro k. rewrite kv2_stored. reflexivity.
    + rewrite kv2_bits_old in E by (try assumption; right; exact Hib).
      destruct (Ibits i sec v Hi Hs E) as [H1 _]. lia.
    + rewrite kv2_bits_old in E by (try assumption; left; exact Hns).
      destruct (Ibits i s v Hi Hs E) as [H1 [H2 H3]]. fold h in H2.
      split; [|split]; [exact H1|lia|]. rewrite H3. apply (f_equal compress_bytes). symmetry.
      apply sec_vec_ext. intros k Hk. rewrite kv2_stored. apply kv1_stored_old. lia.
  - intros s i H1 H2 H3.
    destruct (N.eqb_spec s sec) as [->|Hns].
    + rewrite kv2_bits_new by assumption. discriminate.
    + assert (Hs : s < U32) by (unfold S, BloomBitsBlocks, U32 in *; lia).
      rewrite kv2_bits_old; [|unfold BloomBitLength in *; lia|exact Hs|exact Hh|left; exact Hns].
      apply Ibh; [|exact H2|exact H3]. fold h.
      assert (s < sec) by (unfold sec, S, BloomBitsBlocks in *; lia).
      unfold sec, S, BloomBitsBlocks in *; lia.
Qed.

Theorem commit_inv : exists st', commit st (next_height st) b = Some st' /\ Inv adh (blooms ++ [b]) st'.
Proof.
  rewrite next_height_nxt. unfold commit, save_bloom_data. fold kv1 c1 c2.
  destruct (N.ltb_spec h (filter_start st)) as [Hlt|Hge].
  - eexists; split; [reflexivity|]. apply commit_skip, Hlt.
  - rewrite trigger_spec. destruct (N.eqb_spec ((h + 1) mod S) 0) as [Ht|Hnt].
    + rewrite section_blooms_ok by assumption. rewrite section_spec. fold sec. rewrite put_index_ok.
      eexists; split; [reflexivity|]. apply commit_section; assumption.
    + eexists; split; [reflexivity|]. apply commit_plain; assumption.
Qed.
End Commit.

(** ** a restart ([LoadBloomBits] on an empty cache) *)

Section Restart.
Variables (adh : N) (blooms : list bloom) (st : bstate).
Hypothesis I : Inv adh blooms st.
Hypothesis W : Forall wfb blooms.
Hypothesis Hne : nxt blooms <> 0.
Hypothesis Hlen : nxt blooms <= U32.

Let cur := nxt blooms - 1.
Let init := if cur <? adh then zN (min_filter_start (Z.of_N adh)) else zN (load_init_start (Z.of_N cur)).
Let fs := match fs_rec st with Some f => f | None => init end.

Lemma cur_rec_some : cur_rec st = Some cur.
Proof. rewrite (i_cur _ _ _ I). destruct (N.eqb_spec (nxt blooms) 0); [contradiction|reflexivity]. Qed.

Lemma fs_props : (fs < nxt blooms \/ fs mod S = 0) /\ (fs <= nxt blooms \/ fs <= adh).
Proof.
  destruct I as [Icur Irec Ifs1 Ifs2 _ _ _ _ _]. unfold fs. destruct (fs_rec st) as [f|].
  - subst f. split; assumption.
  - unfold init. destruct (N.ltb_spec cur adh) as [Hlt|Hge].
    + rewrite min_filter_start_spec. clear. unfold S, BloomBitsBlocks. split; right; lia.
    + rewrite load_init_start_spec. clear - Hne. unfold cur in *. split; left; lia.
Qed.

Theorem restart_inv : exists st', load_bloom_bits adh st = Some st' /\ Inv adh blooms st'.
Proof.
  destruct fs_props as [F1 F2].
  unfold load_bloom_bits. rewrite cur_rec_some. fold init. fold fs.
  clearbody fs. clear init.
  assert (Hcur : cur + 1 = nxt blooms) by (unfold cur; lia). clearbody cur.
  assert (Icur' : Some cur = (if nxt blooms =? 0 then None else Some (nxt blooms - 1))).
  { destruct (N.eqb_spec (nxt blooms) 0); [contradiction|]. f_equal. lia. }
  assert (II := I).
  destruct I as [Icur Irec Ifs1 Ifs2 Icache Ivals Ihave Ibits Ibh].
  destruct (N.ltb_spec cur fs) as [Hlt|Hge].
  - eexists; split; [reflexivity|].
    constructor; cbn [cur_rec fs_rec filter_start kv cache]; try assumption; try reflexivity.
    intros Hle k Hk. exfalso. clear - Hle Hk Hlt Hcur F1. unfold S, BloomBitsBlocks in *. lia.
  - rewrite load_start_spec. set (ls := cur - cur mod S).
    assert (Hc : collect (map (fun i => get_bloom_data (kv st) i) (nseq ls (cur + 1 - ls)))
                 = Some (map (stored (kv st)) (nseq ls (cur + 1 - ls)))).
    { apply collect_map. intros i Hi. apply In_nseq in Hi.
      apply (get_bloom_data_stored adh blooms st i); [exact II|exact W|].
      clear - Hi Hcur Hlen. unfold ls, S, BloomBitsBlocks, U32 in *. lia. }
    rewrite Hc. eexists; split; [reflexivity|].
    constructor; cbn [cur_rec fs_rec filter_start kv cache]; try assumption; try reflexivity.
    intros _ k Hk.
    change (PositiveMap.find (ckey k) (load_all (combine (nseq ls (cur + 1 - ls)) (map (stored (kv st)) (nseq ls (cur + 1 - ls)))) (PositiveMap.empty bloom))
            = Some (stored (kv st) k)).
    rewrite load_all_find, existsb_nseq.
    replace ((ls <=? k) && (k <? ls + (cur + 1 - ls))) with true; [reflexivity|].
    symmetry; apply andb_true_iff; split; [apply N.leb_le|apply N.ltb_lt];
      clear - Hk Hcur; unfold ls, S, BloomBitsBlocks in *; lia.
Qed.
End Restart.

(** ** every history *)

Definition wf_ops (ops : list op) : Prop := Forall wfb (blooms_of ops).

Lemma run_inv adh : forall ops blooms st,
  Inv adh blooms st -> Forall wfb blooms -> wf_ops ops ->
  nxt blooms + N.of_nat (length (blooms_of ops)) <= U32 ->
  exists st', run adh st ops = Some st' /\ Inv adh (blooms ++ blooms_of ops) st'.
Proof.
  induction ops as [|o r IH]; intros blooms st I W Wo Hl.
  - exists st. split; [reflexivity|]. simpl. rewrite app_nil_r. exact I.
  - destruct o as [b|].
    + cbn [blooms_of length] in *. apply Forall_cons_iff in Wo. destruct Wo as [Wb Wr].
      destruct (commit_inv adh blooms st b I ltac:(lia)) as [st1 [E1 I1]].
      destruct (IH (blooms ++ [b]) st1 I1) as [st2 [E2 I2]].
      * apply Forall_app; split; [exact W|constructor; [exact Wb|constructor]].
      * exact Wr.
      * rewrite nxt_app. lia.
      * exists st2. cbn [run step]. rewrite E1. split; [exact E2|]. rewrite <- app_assoc in I2. exact I2.
    + cbn [blooms_of] in *. cbn [run step].
      destruct (cur_rec st) eqn:Ec.
      * assert (Hne : nxt blooms <> 0).
        { intro E0. rewrite (i_cur _ _ _ I), E0 in Ec. discriminate. }
        destruct (restart_inv adh blooms st I W Hne ltac:(lia)) as [st1 [E1 I1]].
        rewrite E1. apply IH; assumption.
      * apply IH; assumption.
Qed.

Theorem run_from_init adh ops : wf_ops ops -> N.of_nat (length (blooms_of ops)) <= U32 ->
  exists st, run adh init_state ops = Some st /\ Inv adh (blooms_of ops) st.
Proof.
  intros Wo Hl. destruct (run_inv adh ops [] init_state (inv_init adh) (Forall_nil _) Wo) as [st [E I]]; [cbn; lia|].
  exists st. split; assumption.
Qed.

(** ** consequences *)

Lemma sec_vec_length s sec i : length (sec_vec s sec i) = 512%nat.
Proof. unfold sec_vec. apply pack8_length. rewrite map_length, nseq_length. reflexivity. Qed.

Lemma sec_vec_bit s sec i k : k < S -> vec_bit (sec_vec s sec i) k = bloom_bit (stored s (sec * S + k)) i.
Proof.
  intro Hk. unfold sec_vec. rewrite <- (N2Nat.id k) at 1.
  assert (Hk' : (N.to_nat k < N.to_nat S)%nat) by lia.
  rewrite (pack8_bit 512) by (rewrite ?map_length, ?nseq_length; unfold S, BloomBitsBlocks in *; lia).
  set (F := fun k0 => bloom_bit (stored s k0) i).
  transitivity (nth (N.to_nat k) (map F (nseq (sec * S) S)) (F 0)).
  - apply nth_indep. rewrite map_length, nseq_length. exact Hk'.
  - rewrite map_nth, nth_nseq by exact Hk'. unfold F. rewrite N2Nat.id. reflexivity.
Qed.

Section Hist.
Variable adh : N.

Theorem index_agrees ops st : wf_ops ops -> N.of_nat (length (blooms_of ops)) <= U32 ->
  run adh init_state ops = Some st ->
  forall i s v, i < BloomBitLength -> s < U32 -> read_bloom_bits (kv st) i s = Some v ->
  exists vec, decompress_bytes v 512 = Some vec /\
    forall k, k < S -> exists b, get_bloom_data (kv st) (s * S + k) = Some b /\ vec_bit vec k = bloom_bit b i.
Proof.
  intros Wo Hl Hr i s v Hi Hs Hv.
  destruct (run_from_init adh ops Wo Hl) as [st' [E I]]. rewrite Hr in E. injection E as <-.
  destruct (i_bits _ _ _ I i s v ltac:(unfold BloomBitLength in *; lia) Hs Hv) as [_ [Hsec ->]].
  exists (sec_vec (kv st) s i). split.
  - rewrite <- (sec_vec_length (kv st) s i). apply decompress_compress.
  - intros k Hk. exists (stored (kv st) (s * S + k)). split; [|apply sec_vec_bit, Hk].
    apply (get_bloom_data_stored adh (blooms_of ops) st); [exact I|exact Wo|]. unfold nxt in Hsec. lia.
Qed.

Theorem index_exists ops st : wf_ops ops -> N.of_nat (length (blooms_of ops)) <= U32 ->
  run adh init_state ops = Some st ->
  forall s i, (s + 1) * S <= N.of_nat (length (blooms_of ops)) -> adh <= (s + 1) * S - 1 -> i < BloomBitLength ->
  read_bloom_bits (kv st) i s <> None.
Proof.
  intros Wo Hl Hr s i H1 H2 H3.
  destruct (run_from_init adh ops Wo Hl) as [st' [E I]]. rewrite Hr in E. injection E as <-.
  apply (i_bits_have _ _ _ I); assumption.
Qed.

Theorem stored_bloom ops st : wf_ops ops -> N.of_nat (length (blooms_of ops)) <= U32 ->
  run adh init_state ops = Some st ->
  forall h, h < N.of_nat (length (blooms_of ops)) -> adh <= h ->
  get_bloom_data (kv st) h = Some (nth (N.to_nat h) (blooms_of ops) zero_bloom).
Proof.
  intros Wo Hl Hr h H1 H2.
  destruct (run_from_init adh ops Wo Hl) as [st' [E I]]. rewrite Hr in E. injection E as <-.
  rewrite (get_bloom_data_stored adh (blooms_of ops) st h I Wo ltac:(lia)).
  unfold stored. rewrite (i_have _ _ _ I h H1 H2). reflexivity.
Qed.

Theorem run_no_panic ops : wf_ops ops -> N.of_nat (length (blooms_of ops)) <= U32 ->
  run adh init_state ops <> None.
Proof. intros Wo Hl. destruct (run_from_init adh ops Wo Hl) as [st [E _]]. congruence. Qed.

Variable K6 : bytes -> bytes.

Definition bloom_of_block (txs : list tx_receipt) : bloom := logs_bloom K6 (all_logs txs).

Lemma lower_ok lops : exists ops, lower K6 lops = Some ops /\ blooms_of ops = map bloom_of_block (blocks_of lops).
Proof.
  induction lops as [|[txs|] r [ops [E B]]].
  - exists []. split; reflexivity.
  - exists (OBlock (bloom_of_block txs) :: ops). cbn [lower]. rewrite block_bloom_eq, E. split; [reflexivity|].
    cbn [blooms_of blocks_of map]. rewrite B. reflexivity.
  - exists (ORestart :: ops). cbn [lower]. rewrite E. split; [reflexivity|exact B].
Qed.

Lemma blocks_wf (bs : list (list tx_receipt)) : Forall wfb (map bloom_of_block bs).
Proof. apply Forall_forall. intros b Hb. apply in_map_iff in Hb. destruct Hb as [txs [<- _]]. apply logs_bloom_length. Qed.

Theorem ledger_no_panic lops : N.of_nat (length (blocks_of lops)) <= U32 -> lrun K6 adh lops <> None.
Proof.
  intro Hl. unfold lrun. destruct (lower_ok lops) as [ops [-> B]].
  apply run_no_panic; [unfold wf_ops; rewrite B; apply blocks_wf|rewrite B, map_length; exact Hl].
Qed.

(** the stored bloom of a block tests positive for the address and every topic of every log *)
Theorem block_bloom_complete lops st : N.of_nat (length (blocks_of lops)) <= U32 ->
  lrun K6 adh lops = Some st ->
  forall h txs, nth_error (blocks_of lops) (N.to_nat h) = Some txs -> adh <= h ->
  forall l x, In l (all_logs txs) -> In x (log_items l) ->
  exists b, get_bloom_data (kv st) h = Some b /\ bloom_test K6 x b = true.
Proof.
  intros Hl Hr h txs Hn Hadh l x Hin Hx. unfold lrun in Hr. destruct (lower_ok lops) as [ops [E B]]. rewrite E in Hr.
  assert (Wo : wf_ops ops) by (unfold wf_ops; rewrite B; apply blocks_wf).
  assert (Hl' : N.of_nat (length (blooms_of ops)) <= U32) by (rewrite B, map_length; exact Hl).
  assert (Hh : (N.to_nat h < length (blocks_of lops))%nat) by (apply nth_error_Some; congruence).
  exists (bloom_of_block txs). split.
  - rewrite (stored_bloom ops st Wo Hl' Hr h) by (rewrite ?B, ?map_length; lia). f_equal.
    rewrite B. set (F := bloom_of_block).
    transitivity (nth (N.to_nat h) (map F (blocks_of lops)) (F [])); [apply nth_indep; rewrite map_length; exact Hh|].
    rewrite map_nth. f_equal. apply nth_error_nth. exact Hn.
  - apply (logs_bloom_complete K6 _ l x Hin Hx).
Qed.

Theorem block_bloom_complete_evm lops st : N.of_nat (length (blocks_of lops)) <= U32 ->
  (forall h txs, nth_error (blocks_of lops) (N.to_nat h) = Some txs -> h < adh -> all_logs txs = []) ->
  lrun K6 adh lops = Some st ->
  forall h txs, nth_error (blocks_of lops) (N.to_nat h) = Some txs ->
  forall l x, In l (all_logs txs) -> In x (log_items l) ->
  exists b, get_bloom_data (kv st) h = Some b /\ bloom_test K6 x b = true.
Proof.
  intros Hl Hevm Hr h txs Hn l x Hin Hx.
  destruct (N.ltb_spec h adh) as [Hlt|Hge].
  - rewrite (Hevm h txs Hn Hlt) in Hin. destruct Hin.
  - exact (block_bloom_complete lops st Hl Hr h txs Hn Hge l x Hin Hx).
Qed.

(** end to end: for a block inside an indexed section, the three vectors the matcher consults for
    an address or topic of one of its logs have the block's bit set *)
Theorem index_never_misses lops st : N.of_nat (length (blocks_of lops)) <= U32 ->
  lrun K6 adh lops = Some st ->
  forall s k txs, k < S -> (s + 1) * S <= N.of_nat (length (blocks_of lops)) -> adh <= s * S + k ->
  nth_error (blocks_of lops) (N.to_nat (s * S + k)) = Some txs ->
  forall l x p, In l (all_logs txs) -> In x (log_items l) -> In p (bloom_positions K6 x) ->
  exists v vec, read_bloom_bits (kv st) p s = Some v /\ decompress_bytes v 512 = Some vec /\ vec_bit vec k = true.
Proof.
  intros Hl Hr s k txs Hk Hsec Hadh Hn l x p Hin Hx Hp.
  destruct (block_bloom_complete lops st Hl Hr _ txs Hn Hadh l x Hin Hx) as [b [Hb Ht]].
  unfold lrun in Hr. destruct (lower_ok lops) as [ops [E B]]. rewrite E in Hr.
  assert (Wo : wf_ops ops) by (unfold wf_ops; rewrite B; apply blocks_wf).
  assert (Hl' : N.of_nat (length (blooms_of ops)) <= U32) by (rewrite B, map_length; exact Hl).
  assert (Hpl := bloom_positions_lt K6 x p Hp).
  assert (Hs : s < U32) by (unfold S, BloomBitsBlocks, U32 in *; lia).
  destruct (read_bloom_bits (kv st) p s) as [v|] eqn:Ev.
  - destruct (index_agrees ops st Wo Hl' Hr p s v Hpl Hs Ev) as [vec [Hd Hv]].
    exists v, vec. split; [reflexivity|]. split; [exact Hd|].
    destruct (Hv k Hk) as [b' [Hb' ->]]. rewrite Hb in Hb'. injection Hb' as <-.
    rewrite bloom_test_positions in Ht. rewrite forallb_forall in Ht. apply Ht, Hp.
  - exfalso. apply (index_exists ops st Wo Hl' Hr s p); [rewrite B, map_length; exact Hsec|lia|exact Hpl|exact Ev].
Qed.
End Hist.

Theorem keys_distinct h h' i s i' s' :
  h < U32 -> h' < U32 -> i < 65536 -> i' < 65536 -> s < U32 -> s' < U32 ->
  (bloom_key h = bloom_key h' -> h = h') /\
  (bloom_bits_key i s = bloom_bits_key i' s' -> i = i' /\ s = s') /\
  bloom_key h <> bloom_bits_key i s.
Proof.
  intros Hh Hh' Hi Hi' Hs Hs'. split; [|split].
  - apply bloom_key_inj; assumption.
  - apply bits_key_inj; assumption.
  - apply bloom_key_ne_bits_key.
Qed.
