(** Proofs about Model/Token.v: monad inversion, effect of the storage primitives on the views
    (balanceOf / allowance / sum of balances), specification of every mirrored function, and the
    per-call theorems (conservation, non-negativity, authorization of debits and of allowance
    increases, failed call = no change), lifted to all call sequences. *)
From Coq Require Import List ZArith NArith Bool Lia.
Import ListNotations.
From Ont Require Import Model.Token Proofs.TokenMap.
Local Open Scope Z_scope.

(** * Monad inversion *)
Lemma bind_ok : forall A B (m : M A) (k : A -> M B) s s' b,
  bind m k s = (s', Ok b) -> exists s1 a, m s = (s1, Ok a) /\ k a s1 = (s', Ok b).
Proof.
  intros A B m k s s' b H. unfold bind in H. destruct (m s) as [s1 [a|e]].
  - exists s1, a. auto.
  - discriminate.
Qed.
Lemma ret_ok : forall A (a b : A) s s', ret a s = (s', Ok b) -> s' = s /\ b = a.
Proof. unfold ret; intros; inversion H; auto. Qed.
Lemma fail_ok : forall A e s s' (b : A), fail e s = (s', Ok b) -> False.
Proof. unfold fail; intros; discriminate. Qed.
Lemma gets_ok : forall A (f : state -> A) s s' b, gets f s = (s', Ok b) -> s' = s /\ b = f s.
Proof. unfold gets; intros; inversion H; auto. Qed.
Lemma modify_ok : forall f s s' b, modify f s = (s', Ok b) -> s' = f s.
Proof. unfold modify; intros; inversion H; auto. Qed.
Lemma guard_ok : forall c e s s' b, guard c e s = (s', Ok b) -> c = true /\ s' = s.
Proof. unfold guard; intros c e s s' b H. destruct c; [apply ret_ok in H; intuition | apply fail_ok in H; tauto]. Qed.

(** Decompose a successful run [H : m s = (s', Ok b)] along binds, guards, rets, gets, modifies. *)
Ltac minv H :=
  lazymatch type of H with
  | bind _ _ _ = (_, Ok _) =>
      let s1 := fresh "s" in let a := fresh "a" in let H1 := fresh "H" in let H2 := fresh "H" in
      apply bind_ok in H; destruct H as (s1 & a & H1 & H2); minv H1; minv H2
  | ret _ _ = (_, Ok _) => apply ret_ok in H; destruct H; subst
  | fail _ _ = (_, Ok _) => apply fail_ok in H; contradiction
  | gets _ _ = (_, Ok _) => apply gets_ok in H; destruct H; subst
  | modify _ _ = (_, Ok _) => apply modify_ok in H; subst
  | guard _ _ _ = (_, Ok _) => apply guard_ok in H; destruct H; subst
  | _ => idtac
  end.

(** * Key equalities *)
Lemma token_eqb_spec : forall a b, token_eqb a b = true <-> a = b.
Proof. intros [] []; simpl; split; intros; congruence. Qed.
Lemma token_eqb_refl : forall t, token_eqb t t = true.
Proof. intros []; reflexivity. Qed.
Lemma addr_eqb_refl : forall a, addr_eqb a a = true.
Proof. intros; apply N.eqb_refl. Qed.
Lemma addr_eqb_sym : forall a b, addr_eqb a b = addr_eqb b a.
Proof. intros; apply N.eqb_sym. Qed.

(** Turn boolean key tests in the context/goal into (in)equalities. *)
Ltac beq :=
  repeat match goal with
  | H : token_eqb _ _ = true |- _ => apply token_eqb_spec in H
  | H : addr_eqb _ _ = true |- _ => apply addr_eqb_spec in H
  | H : pair_eqb _ _ = true |- _ => apply pair_eqb_spec in H
  | H : token_eqb ?a ?b = false |- _ =>
      assert (a <> b) by (intros ?; subst; rewrite token_eqb_refl in H; discriminate); clear H
  | H : addr_eqb ?a ?b = false |- _ =>
      assert (a <> b) by (intros ?; subst; rewrite addr_eqb_refl in H; discriminate); clear H
  | H : pair_eqb ?a ?b = false |- _ =>
      assert (a <> b) by (intros ?; subst; rewrite (keqb_refl pair_eqb pair_eqb_spec) in H; discriminate); clear H
  end.

(** * Views after a storage write *)
Definition wfb (s : state) : Prop := forall t, wf (bmap s t).

(** [bal_updated t a n s s']: the only difference between s and s' is that holder [a] of token
    [t] now reads [n]. *)
Record bal_updated (t : token) (a : addr) (n : Z) (s s' : state) : Prop := {
  bu_bal : forall t' x, balf s' t' x = if token_eqb t t' && addr_eqb x a then n else balf s t' x;
  bu_wf : wfb s -> wfb s';
  bu_sum : wfb s -> forall t', sumb s' t' = if token_eqb t t' then sumb s t - balf s t a + n else sumb s t';
  bu_allow : forall t', almap s' t' = almap s t';
  bu_offs : offs s' = offs s
}.

Record allow_updated (t : token) (o sp : addr) (n : Z) (s s' : state) : Prop := {
  au_allow : forall t' o' sp', allowf s' t' o' sp' =
     if token_eqb t t' && pair_eqb (o', sp') (o, sp) then n else allowf s t' o' sp';
  au_bal : forall t', bmap s' t' = bmap s t';
  au_offs : offs s' = offs s
}.

Record off_updated (s s' : state) : Prop := {
  ou_bal : forall t', bmap s' t' = bmap s t';
  ou_allow : forall t', almap s' t' = almap s t'
}.

Lemma set_bal_updated : forall t a v s,
  bal_updated t a v s (with_bmap t (aput addr_eqb a v (bmap s t)) s).
Proof.
  intros t a v s. constructor.
  - intros t' x. unfold balf. destruct t, t'; simpl; try reflexivity;
      rewrite (getd_aput addr_eqb addr_eqb_spec); reflexivity.
  - intros H t'. pose proof (H ONT) as H1. pose proof (H ONG) as H2. simpl in H1, H2.
    destruct t, t'; simpl; auto; apply (wf_aput addr_eqb addr_eqb_spec); assumption.
  - intros H t'. pose proof (H ONT) as H1. pose proof (H ONG) as H2. simpl in H1, H2.
    unfold sumb, balf. destruct t, t'; simpl; auto;
      apply asum_aput; assumption.
  - intros t'. destruct t, t'; reflexivity.
  - destruct t; reflexivity.
Qed.

Lemma clr_bal_updated : forall t a s,
  bal_updated t a 0 s (with_bmap t (adel addr_eqb a (bmap s t)) s).
Proof.
  intros t a s. constructor.
  - intros t' x. unfold balf. destruct t, t'; simpl; try reflexivity;
      rewrite (getd_adel addr_eqb addr_eqb_spec); reflexivity.
  - intros H t'. pose proof (H ONT) as H1. pose proof (H ONG) as H2. simpl in H1, H2.
    destruct t, t'; simpl; auto; apply (wf_adel addr_eqb addr_eqb_spec); assumption.
  - intros H t'. pose proof (H ONT) as H1. pose proof (H ONG) as H2. simpl in H1, H2.
    unfold sumb, balf. destruct t, t'; simpl; auto;
      rewrite (asum_adel addr_eqb addr_eqb_spec) by assumption; lia.
  - intros t'. destruct t, t'; reflexivity.
  - destruct t; reflexivity.
Qed.

Lemma set_allow_updated : forall t o sp v s,
  allow_updated t o sp v s (with_almap t (aput pair_eqb (o, sp) v (almap s t)) s).
Proof.
  intros. constructor.
  - intros t' o' sp'. unfold allowf. destruct t, t'; simpl; try reflexivity;
      rewrite (getd_aput pair_eqb pair_eqb_spec); reflexivity.
  - intros t'. destruct t, t'; reflexivity.
  - destruct t; reflexivity.
Qed.

Lemma clr_allow_updated : forall t o sp s,
  allow_updated t o sp 0 s (with_almap t (adel pair_eqb (o, sp) (almap s t)) s).
Proof.
  intros. constructor.
  - intros t' o' sp'. unfold allowf. destruct t, t'; simpl; try reflexivity;
      rewrite (getd_adel pair_eqb pair_eqb_spec); reflexivity.
  - intros t'. destruct t, t'; reflexivity.
  - destruct t; reflexivity.
Qed.

Lemma set_off_updated : forall m s, off_updated s (with_offs m s).
Proof. intros. constructor; intros []; reflexivity. Qed.

(** Success of the guarded primitives. *)
Lemma put_bal_ok : forall t a v s s' u, put_bal t a v s = (s', Ok u) -> bal_updated t a v s s'.
Proof. intros t a v s s' u H. unfold put_bal in H. minv H. apply set_bal_updated. Qed.
Lemma del_bal_ok : forall t a s s' u, del_bal t a s = (s', Ok u) -> bal_updated t a 0 s s'.
Proof. intros t a s s' u H. unfold del_bal in H. minv H. apply clr_bal_updated. Qed.
Lemma put_allow_ok : forall t o sp v s s' u, put_allow t o sp v s = (s', Ok u) -> allow_updated t o sp v s s'.
Proof. intros t o sp v s s' u H. unfold put_allow in H. minv H. apply set_allow_updated. Qed.
Lemma del_allow_ok : forall t o sp s s' u, del_allow t o sp s = (s', Ok u) -> allow_updated t o sp 0 s s'.
Proof. intros t o sp s s' u H. unfold del_allow in H. minv H. apply clr_allow_updated. Qed.
Lemma put_off_ok : forall a v s s' u, put_off a v s = (s', Ok u) -> off_updated s s'.
Proof. intros a v s s' u H. unfold put_off in H. minv H. apply set_off_updated. Qed.

(** Consequences for the views of states whose maps agree. *)
Lemma balf_same : forall s s', (forall t, bmap s' t = bmap s t) -> forall t a, balf s' t a = balf s t a.
Proof. intros s s' H t a. unfold balf. rewrite H. reflexivity. Qed.
Lemma sumb_same : forall s s', (forall t, bmap s' t = bmap s t) -> forall t, sumb s' t = sumb s t.
Proof. intros s s' H t. unfold sumb. rewrite H. reflexivity. Qed.
Lemma wfb_same : forall s s', (forall t, bmap s' t = bmap s t) -> wfb s -> wfb s'.
Proof. intros s s' H W t. rewrite H. apply W. Qed.
Lemma allowf_same : forall s s', (forall t, almap s' t = almap s t) -> forall t o sp, allowf s' t o sp = allowf s t o sp.
Proof. intros s s' H t o sp. unfold allowf. rewrite H. reflexivity. Qed.

(** * Invariant and step summaries *)

(** Keys of each balance map are unique; every balance and allowance read is >= 0. *)
Record inv (s : state) : Prop := {
  inv_wf : wfb s;
  inv_bal : forall t a, 0 <= balf s t a;
  inv_allow : forall t o sp, 0 <= allowf s t o sp
}.

(** [summ J JA s s']: from an invariant state, s' is again invariant, both token sums are
    unchanged, a balance decreased only for (token, holder) in J and an allowance increased only
    for (token, owner) in JA. *)
Definition summ (J JA : token -> addr -> Prop) (s s' : state) : Prop :=
  inv s ->
  inv s' /\ (forall t, sumb s' t = sumb s t)
  /\ (forall t a, balf s' t a < balf s t a -> J t a)
  /\ (forall t o sp, allowf s t o sp < allowf s' t o sp -> JA t o).

Definition none : token -> addr -> Prop := fun _ _ => False.
Definition only (t : token) (a : addr) : token -> addr -> Prop := fun t' a' => t' = t /\ a' = a.

Lemma summ_refl : forall J JA s, summ J JA s s.
Proof. intros J JA s I. split; [exact I|]. split; [reflexivity|]. split; intros; lia. Qed.

Lemma summ_trans : forall J JA s1 s2 s3, summ J JA s1 s2 -> summ J JA s2 s3 -> summ J JA s1 s3.
Proof.
  intros J JA s1 s2 s3 H12 H23 I1.
  destruct (H12 I1) as (I2 & S12 & B12 & A12).
  destruct (H23 I2) as (I3 & S23 & B23 & A23).
  split; [exact I3|]. split; [|split].
  - intros t. rewrite S23. apply S12.
  - intros t a Hlt. destruct (Z_lt_le_dec (balf s2 t a) (balf s1 t a)); [eapply B12; eauto|].
    eapply B23. lia.
  - intros t o sp Hlt. destruct (Z_lt_le_dec (allowf s1 t o sp) (allowf s2 t o sp)); [eapply A12; eauto|].
    eapply A23. lia.
Qed.

Lemma summ_weaken : forall (J JA J' JA' : token -> addr -> Prop) s s',
  (forall t a, J t a -> J' t a) -> (forall t a, JA t a -> JA' t a) ->
  summ J JA s s' -> summ J' JA' s s'.
Proof.
  intros J JA J' JA' s s' HJ HA H I. destruct (H I) as (I' & S & B & A).
  split; [exact I'|]. split; [exact S|]. split; eauto.
Qed.

Lemma off_updated_summ : forall s s', off_updated s s' -> summ none none s s'.
Proof.
  intros s s' [Hb Ha] [W B A]. split; [constructor|split; [|split]].
  - eapply wfb_same; eauto.
  - intros. rewrite (balf_same _ _ Hb). auto.
  - intros. rewrite (allowf_same _ _ Ha). auto.
  - apply sumb_same; auto.
  - intros t a. rewrite (balf_same _ _ Hb). lia.
  - intros t o sp. rewrite (allowf_same _ _ Ha). lia.
Qed.

(** Writing allowance (t, o, sp) := n, n >= 0. *)
Lemma allow_updated_summ : forall t o sp n s s',
  allow_updated t o sp n s s' -> 0 <= n -> summ none (only t o) s s'.
Proof.
  intros t o sp n s s' [Ha Hb Ho] Hn [W B A]. split; [constructor|split; [|split]].
  - eapply wfb_same; eauto.
  - intros. rewrite (balf_same _ _ Hb). auto.
  - intros t' o' sp'. rewrite Ha. destruct (token_eqb t t' && pair_eqb (o', sp') (o, sp)); auto.
  - apply sumb_same; auto.
  - intros t' a. rewrite (balf_same _ _ Hb). lia.
  - intros t' o' sp'. rewrite Ha.
    destruct (token_eqb t t') eqn:E1, (pair_eqb (o', sp') (o, sp)) eqn:E2; simpl; try lia.
    beq. inversion E2; subst. intros _. split; reflexivity.
Qed.

(** Lowering allowance (t, o, sp) to n with 0 <= n <= old value. *)
Lemma allow_lowered_summ : forall t o sp n s s',
  allow_updated t o sp n s s' -> 0 <= n <= allowf s t o sp -> summ none none s s'.
Proof.
  intros t o sp n s s' [Ha Hb Ho] Hn [W B A]. split; [constructor|split; [|split]].
  - eapply wfb_same; eauto.
  - intros. rewrite (balf_same _ _ Hb). auto.
  - intros t' o' sp'. rewrite Ha. destruct (token_eqb t t' && pair_eqb (o', sp') (o, sp)); auto. lia.
  - apply sumb_same; auto.
  - intros t' a. rewrite (balf_same _ _ Hb). lia.
  - intros t' o' sp'. rewrite Ha.
    destruct (token_eqb t t') eqn:E1, (pair_eqb (o', sp') (o, sp)) eqn:E2; simpl; try lia.
    beq. inversion E2; subst. lia.
Qed.
