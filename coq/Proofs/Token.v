(** Proofs about Model/Token.v: monad inversion, effect of the storage primitives on the views
    (balanceOf / allowance / sum of balances), specification of every mirrored function, and the
    per-call theorems (conservation, non-negativity, authorization of debits and of allowance
    increases, failed call = no change), lifted to all call sequences. *)
From Coq Require Import List ZArith NArith Bool Lia.
Import ListNotations.
From Ont Require Import Model.Token Proofs.TokenMap.
Local Open Scope Z_scope.

(** * Monad inversion *)
Lemma bind_ok : forall A B (m : M A) (k : A -> M B) s s' b,
  bind m k s = (s', Ok b) -> exists s1 a, m s = (s1, Ok a) /\ k a s1 = (s', Ok b).
Proof.
  intros A B m k s s' b H. unfold bind in H. destruct (m s) as [s1 [a|e]].
  - exists s1, a. auto.
  - discriminate.
Qed.
Lemma ret_ok : forall A (a b : A) s s', ret a s = (s', Ok b) -> s' = s /\ b = a.
Proof. unfold ret; intros; inversion H; auto. Qed.
Lemma fail_ok : forall A e s s' (b : A), fail e s = (s', Ok b) -> False.
Proof. unfold fail; intros; discriminate. Qed.
Lemma gets_ok : forall A (f : state -> A) s s' b, gets f s = (s', Ok b) -> s' = s /\ b = f s.
Proof. unfold gets; intros; inversion H; auto. Qed.
Lemma modify_ok : forall f s s' b, modify f s = (s', Ok b) -> s' = f s.
Proof. unfold modify; intros; inversion H; auto. Qed.
Lemma guard_ok : forall c e s s' b, guard c e s = (s', Ok b) -> c = true /\ s' = s.
Proof. unfold guard; intros c e s s' b H. destruct c; [apply ret_ok in H; intuition | apply fail_ok in H; tauto]. Qed.

(** Decompose a successful run [H : m s = (s', Ok b)] along binds, guards, rets, gets, modifies. *)
Ltac minv H :=
  lazymatch type of H with
  | bind _ _ _ = (_, Ok _) =>
      let s1 := fresh "s" in let a := fresh "a" in let H1 := fresh "H" in let H2 := fresh "H" in
      apply bind_ok in H; destruct H as (s1 & a & H1 & H2); minv H1; minv H2
  | ret _ _ = (_, Ok _) => apply ret_ok in H; destruct H; subst
  | fail _ _ = (_, Ok _) => apply fail_ok in H; contradiction
  | gets _ _ = (_, Ok _) => apply gets_ok in H; destruct H; subst
  | modify _ _ = (_, Ok _) => apply modify_ok in H; subst
  | guard _ _ _ = (_, Ok _) => apply guard_ok in H; destruct H; subst
  | _ => idtac
  end.

(** One bind at a time, with chosen names: [H : bind m k s = (s', Ok b)] becomes
    [H1 : m s = (s1, Ok a1)] and [H : k a1 s1 = (s', Ok b)]. *)
Tactic Notation "mstep" hyp(H) "as" ident(s1) ident(a1) ident(H1) :=
  apply bind_ok in H; destruct H as (s1 & a1 & H1 & H).

(** * Key equalities *)
Lemma token_eqb_spec : forall a b, token_eqb a b = true <-> a = b.
Proof. intros [] []; simpl; split; intros; congruence. Qed.
Lemma token_eqb_refl : forall t, token_eqb t t = true.
Proof. intros []; reflexivity. Qed.
Lemma addr_eqb_refl : forall a, addr_eqb a a = true.
Proof. intros; apply N.eqb_refl. Qed.
Lemma addr_eqb_sym : forall a b, addr_eqb a b = addr_eqb b a.
Proof. intros; apply N.eqb_sym. Qed.

(** Turn boolean key tests in the context/goal into (in)equalities. *)
Ltac beq :=
  repeat match goal with
  | H : token_eqb _ _ = true |- _ => apply token_eqb_spec in H
  | H : addr_eqb _ _ = true |- _ => apply addr_eqb_spec in H
  | H : pair_eqb _ _ = true |- _ => apply pair_eqb_spec in H
  | H : token_eqb ?a ?b = false |- _ =>
      assert (a <> b) by (intros ?; subst; rewrite token_eqb_refl in H; discriminate); clear H
  | H : addr_eqb ?a ?b = false |- _ =>
      assert (a <> b) by (intros ?; subst; rewrite addr_eqb_refl in H; discriminate); clear H
  | H : pair_eqb ?a ?b = false |- _ =>
      assert (a <> b) by (intros ?; subst; rewrite (keqb_refl pair_eqb pair_eqb_spec) in H; discriminate); clear H
  end.

(** * Views after a storage write *)
Definition wfb (s : state) : Prop := forall t, wf (bmap s t).

(** [bal_updated t a n s s']: the only difference between s and s' is that holder [a] of token
    [t] now reads [n]. *)
Record bal_updated (t : token) (a : addr) (n : Z) (s s' : state) : Prop := {
  bu_bal : forall t' x, balf s' t' x = if token_eqb t t' && addr_eqb x a then n else balf s t' x;
  bu_wf : wfb s -> wfb s';
  bu_sum : wfb s -> forall t', sumb s' t' = if token_eqb t t' then sumb s t - balf s t a + n else sumb s t';
  bu_other : forall t', t' <> t -> bmap s' t' = bmap s t';
  bu_allow : forall t', almap s' t' = almap s t';
  bu_offs : offs s' = offs s
}.

Record allow_updated (t : token) (o sp : addr) (n : Z) (s s' : state) : Prop := {
  au_allow : forall t' o' sp', allowf s' t' o' sp' =
     if token_eqb t t' && pair_eqb (o', sp') (o, sp) then n else allowf s t' o' sp';
  au_other : forall t', t' <> t -> almap s' t' = almap s t';
  au_bal : forall t', bmap s' t' = bmap s t';
  au_offs : offs s' = offs s
}.

Record off_updated (s s' : state) : Prop := {
  ou_bal : forall t', bmap s' t' = bmap s t';
  ou_allow : forall t', almap s' t' = almap s t'
}.

Lemma set_bal_updated : forall t a v s,
  bal_updated t a v s (with_bmap t (aput addr_eqb a v (bmap s t)) s).
Proof.
  intros t a v s. constructor.
  - intros t' x. unfold balf. destruct t, t'; simpl; try reflexivity;
      rewrite (getd_aput addr_eqb addr_eqb_spec); reflexivity.
  - intros H t'. pose proof (H ONT) as H1. pose proof (H ONG) as H2. simpl in H1, H2.
    destruct t, t'; simpl; auto; apply (wf_aput addr_eqb addr_eqb_spec); assumption.
  - intros H t'. pose proof (H ONT) as H1. pose proof (H ONG) as H2. simpl in H1, H2.
    unfold sumb, balf. destruct t, t'; simpl; auto;
      apply asum_aput; assumption.
  - intros t' Hn. destruct t, t'; try reflexivity; congruence.
  - intros t'. destruct t, t'; reflexivity.
  - destruct t; reflexivity.
Qed.

Lemma clr_bal_updated : forall t a s,
  bal_updated t a 0 s (with_bmap t (adel addr_eqb a (bmap s t)) s).
Proof.
  intros t a s. constructor.
  - intros t' x. unfold balf. destruct t, t'; simpl; try reflexivity;
      rewrite (getd_adel addr_eqb addr_eqb_spec); reflexivity.
  - intros H t'. pose proof (H ONT) as H1. pose proof (H ONG) as H2. simpl in H1, H2.
    destruct t, t'; simpl; auto; apply (wf_adel addr_eqb addr_eqb_spec); assumption.
  - intros H t'. pose proof (H ONT) as H1. pose proof (H ONG) as H2. simpl in H1, H2.
    unfold sumb, balf. destruct t, t'; simpl; auto;
      rewrite (asum_adel addr_eqb addr_eqb_spec) by assumption; lia.
  - intros t' Hn. destruct t, t'; try reflexivity; congruence.
  - intros t'. destruct t, t'; reflexivity.
  - destruct t; reflexivity.
Qed.

Lemma set_allow_updated : forall t o sp v s,
  allow_updated t o sp v s (with_almap t (aput pair_eqb (o, sp) v (almap s t)) s).
Proof.
  intros. constructor.
  - intros t' o' sp'. unfold allowf. destruct t, t'; simpl; try reflexivity;
      rewrite (getd_aput pair_eqb pair_eqb_spec); reflexivity.
  - intros t' Hn. destruct t, t'; try reflexivity; congruence.
  - intros t'. destruct t, t'; reflexivity.
  - destruct t; reflexivity.
Qed.

Lemma clr_allow_updated : forall t o sp s,
  allow_updated t o sp 0 s (with_almap t (adel pair_eqb (o, sp) (almap s t)) s).
Proof.
  intros. constructor.
  - intros t' o' sp'. unfold allowf. destruct t, t'; simpl; try reflexivity;
      rewrite (getd_adel pair_eqb pair_eqb_spec); reflexivity.
  - intros t' Hn. destruct t, t'; try reflexivity; congruence.
  - intros t'. destruct t, t'; reflexivity.
  - destruct t; reflexivity.
Qed.

Lemma set_off_updated : forall m s, off_updated s (with_offs m s).
Proof. intros. constructor; intros []; reflexivity. Qed.

(** Success of the guarded primitives. *)
Lemma put_bal_ok : forall t a v s s' u, put_bal t a v s = (s', Ok u) -> bal_updated t a v s s'.
Proof. intros t a v s s' u H. unfold put_bal in H. minv H. apply set_bal_updated. Qed.
Lemma del_bal_ok : forall t a s s' u, del_bal t a s = (s', Ok u) -> bal_updated t a 0 s s'.
Proof. intros t a s s' u H. unfold del_bal in H. minv H. apply clr_bal_updated. Qed.
Lemma put_allow_ok : forall t o sp v s s' u, put_allow t o sp v s = (s', Ok u) -> allow_updated t o sp v s s'.
Proof. intros t o sp v s s' u H. unfold put_allow in H. minv H. apply set_allow_updated. Qed.
Lemma del_allow_ok : forall t o sp s s' u, del_allow t o sp s = (s', Ok u) -> allow_updated t o sp 0 s s'.
Proof. intros t o sp s s' u H. unfold del_allow in H. minv H. apply clr_allow_updated. Qed.
Lemma put_off_ok : forall a v s s' u, put_off a v s = (s', Ok u) -> off_updated s s'.
Proof. intros a v s s' u H. unfold put_off in H. minv H. apply set_off_updated. Qed.

(** Consequences for the views of states whose maps agree. *)
Lemma balf_same : forall s s', (forall t, bmap s' t = bmap s t) -> forall t a, balf s' t a = balf s t a.
Proof. intros s s' H t a. unfold balf. rewrite H. reflexivity. Qed.
Lemma sumb_same : forall s s', (forall t, bmap s' t = bmap s t) -> forall t, sumb s' t = sumb s t.
Proof. intros s s' H t. unfold sumb. rewrite H. reflexivity. Qed.
Lemma wfb_same : forall s s', (forall t, bmap s' t = bmap s t) -> wfb s -> wfb s'.
Proof. intros s s' H W t. rewrite H. apply W. Qed.
Lemma allowf_same : forall s s', (forall t, almap s' t = almap s t) -> forall t o sp, allowf s' t o sp = allowf s t o sp.
Proof. intros s s' H t o sp. unfold allowf. rewrite H. reflexivity. Qed.

(** * Invariant and step summaries *)

(** [summ J JA s s']: from an invariant state, s' is again invariant, both token sums are
    unchanged, a balance decreased only for (token, holder) in J and an allowance increased only
    for (token, owner) in JA. *)
Definition summ (J JA : token -> addr -> Prop) (s s' : state) : Prop :=
  inv s ->
  inv s' /\ (forall t, sumb s' t = sumb s t)
  /\ (forall t a, balf s' t a < balf s t a -> J t a)
  /\ (forall t o sp, allowf s t o sp < allowf s' t o sp -> JA t o).

Definition none : token -> addr -> Prop := fun _ _ => False.
Definition only (t : token) (a : addr) : token -> addr -> Prop := fun t' a' => t' = t /\ a' = a.

Lemma summ_refl : forall J JA s, summ J JA s s.
Proof. intros J JA s I. split; [exact I|]. split; [reflexivity|]. split; intros; lia. Qed.

Lemma summ_trans : forall J JA s1 s2 s3, summ J JA s1 s2 -> summ J JA s2 s3 -> summ J JA s1 s3.
Proof.
  intros J JA s1 s2 s3 H12 H23 I1.
  destruct (H12 I1) as (I2 & S12 & B12 & A12).
  destruct (H23 I2) as (I3 & S23 & B23 & A23).
  split; [exact I3|]. split; [|split].
  - intros t. rewrite S23. apply S12.
  - intros t a Hlt. destruct (Z_lt_le_dec (balf s2 t a) (balf s1 t a)); [eapply B12; eauto|].
    eapply B23. lia.
  - intros t o sp Hlt. destruct (Z_lt_le_dec (allowf s1 t o sp) (allowf s2 t o sp)); [eapply A12; eauto|].
    apply (A23 t o sp). lia.
Qed.

Lemma summ_weaken : forall (J JA J' JA' : token -> addr -> Prop) s s',
  (forall t a, J t a -> J' t a) -> (forall t a, JA t a -> JA' t a) ->
  summ J JA s s' -> summ J' JA' s s'.
Proof.
  intros J JA J' JA' s s' HJ HA H I. destruct (H I) as (I' & S & B & A).
  split; [exact I'|]. split; [exact S|]. split; eauto.
Qed.

Lemma off_updated_summ : forall s s', off_updated s s' -> summ none none s s'.
Proof.
  intros s s' [Hb Ha] [W B A]. split; [constructor|split; [|split]].
  - eapply wfb_same; eauto.
  - intros. rewrite (balf_same _ _ Hb). auto.
  - intros. rewrite (allowf_same _ _ Ha). auto.
  - apply sumb_same; auto.
  - intros t a. rewrite (balf_same _ _ Hb). lia.
  - intros t o sp. rewrite (allowf_same _ _ Ha). lia.
Qed.

(** Writing allowance (t, o, sp) := n, n >= 0. *)
Lemma allow_updated_summ : forall t o sp n s s',
  allow_updated t o sp n s s' -> 0 <= n -> summ none (only t o) s s'.
Proof.
  intros t o sp n s s' [Ha Hx Hb Ho] Hn [W B A]. split; [constructor|split; [|split]].
  - eapply wfb_same; eauto.
  - intros. rewrite (balf_same _ _ Hb). auto.
  - intros t' o' sp'. rewrite Ha. destruct (token_eqb t t' && pair_eqb (o', sp') (o, sp)); auto.
  - apply sumb_same; auto.
  - intros t' a. rewrite (balf_same _ _ Hb). lia.
  - intros t' o' sp'. rewrite Ha.
    destruct (token_eqb t t') eqn:E1, (pair_eqb (o', sp') (o, sp)) eqn:E2; simpl; try lia.
    beq. inversion E2; subst. intros _. split; reflexivity.
Qed.

(** Lowering allowance (t, o, sp) to n with 0 <= n <= old value. *)
Lemma allow_lowered_summ : forall t o sp n s s',
  allow_updated t o sp n s s' -> 0 <= n <= allowf s t o sp -> summ none none s s'.
Proof.
  intros t o sp n s s' [Ha Hx Hb Ho] Hn [W B A]. split; [constructor|split; [|split]].
  - eapply wfb_same; eauto.
  - intros. rewrite (balf_same _ _ Hb). auto.
  - intros t' o' sp'. rewrite Ha. destruct (token_eqb t t' && pair_eqb (o', sp') (o, sp)); auto. lia.
  - apply sumb_same; auto.
  - intros t' a. rewrite (balf_same _ _ Hb). lia.
  - intros t' o' sp'. rewrite Ha.
    destruct (token_eqb t t') eqn:E1, (pair_eqb (o', sp') (o, sp)) eqn:E2; simpl; try lia.
    beq. inversion E2; subst. lia.
Qed.

(** * Constants (Gen/TokenConsts.v) *)
Lemma tk_scale_pos : 0 < tk_scale.
Proof. reflexivity. Qed.

Lemma to_v2_nonneg : forall v2 value, decode_ok v2 value = true -> 0 <= to_v2 v2 value.
Proof.
  intros v2 value H. unfold decode_ok, to_v2 in *. pose proof tk_scale_pos.
  destruct v2.
  - apply Z.leb_le in H. exact H.
  - apply andb_true_iff in H. destruct H as [H _]. apply Z.leb_le in H. nia.
Qed.

(** * Balance primitives *)
Lemma reduce_ok : forall t a v s s' b,
  reduce_from_balance t a v s = (s', Ok b) ->
  b = balf s t a /\ v <= b /\ bal_updated t a (b - v) s s'.
Proof.
  intros t a v s s' b H. unfold reduce_from_balance in H. minv H.
  apply negb_true_iff, Z.ltb_ge in H. split; [reflexivity|]. split; [exact H|].
  match goal with H : (if ?c then _ else _) _ = _ |- _ => destruct c eqn:E end.
  - apply Z.eqb_eq in E. rewrite E. eapply del_bal_ok; eauto.
  - eapply put_bal_ok; eauto.
Qed.

Lemma increase_ok : forall t a v s s' b,
  increase_to_balance t a v s = (s', Ok b) ->
  b = balf s t a /\ bal_updated t a (b + v) s s'.
Proof.
  intros t a v s s' b H. unfold increase_to_balance in H. minv H.
  split; [reflexivity|]. eapply put_bal_ok; eauto.
Qed.

Lemma from_approve_ok : forall t o sp v s s' u,
  from_approve t o sp v s = (s', Ok u) ->
  v <= allowf s t o sp /\ allow_updated t o sp (allowf s t o sp - v) s s'.
Proof.
  intros t o sp v s s' u H. unfold from_approve in H. minv H.
  apply negb_true_iff, Z.ltb_ge in H. split; [exact H|].
  match goal with H : (if ?c then _ else _) _ = _ |- _ => destruct c eqn:E end.
  - apply Z.eqb_eq in E. rewrite E. eapply del_allow_ok; eauto.
  - eapply put_allow_ok; eauto.
Qed.

(** A debit of [v] from [from] followed by a credit of [v] to [to] (the body shared by Transfer
    and TransferedFrom). *)
Record moved (t : token) (from to : addr) (v : Z) (s s' : state) : Prop := {
  mv_summ : summ (only t from) none s s';
  mv_low : balf s t from - v <= balf s' t from;
  mv_exact : from <> to -> balf s' t from = balf s t from - v;
  mv_self : from = to -> balf s' t from = balf s t from;
  mv_other : forall t', t' <> t -> bmap s' t' = bmap s t';
  mv_allow : forall t', almap s' t' = almap s t';
  mv_offs : offs s' = offs s
}.

Lemma debit_credit_moved : forall t from to v s s1 s' b1 b2,
  0 <= v ->
  reduce_from_balance t from v s = (s1, Ok b1) ->
  increase_to_balance t to v s1 = (s', Ok b2) ->
  moved t from to v s s'.
Proof.
  intros t from to v s s1 s' b1 b2 Hv H1 H2.
  apply reduce_ok in H1. destruct H1 as (-> & Hle & U1).
  apply increase_ok in H2. destruct H2 as (-> & U2).
  destruct U1 as [B1 W1 S1 O1 A1 F1]. destruct U2 as [B2 W2 S2 O2 A2 F2].
  constructor.
  - intros [W B A]. split; [constructor|split; [|split]].
    + exact (W2 (W1 W)).
    + intros t' x. rewrite B2, !B1. pose proof (B t' x). pose proof (B t from). pose proof (B t to).
      destruct (token_eqb t t') eqn:E1, (addr_eqb x to) eqn:E2, (addr_eqb x from) eqn:E3,
        (addr_eqb to from) eqn:E4; simpl; beq; subst; rewrite ?token_eqb_refl; simpl; try lia.
    + intros t' o sp. unfold allowf. rewrite A2, A1. apply A.
    + intros t'. rewrite (S2 (W1 W) t'). destruct (token_eqb t t') eqn:E1.
      * beq; subst t'. rewrite (S1 W t), token_eqb_refl.
        destruct (addr_eqb to from) eqn:E; lia.
      * rewrite (S1 W t'), E1. reflexivity.
    + intros t' x. rewrite B2, !B1. pose proof (B t' x). pose proof (B t from). pose proof (B t to).
      destruct (token_eqb t t') eqn:E1, (addr_eqb x to) eqn:E2, (addr_eqb x from) eqn:E3,
        (addr_eqb to from) eqn:E4; simpl; beq; subst; rewrite ?token_eqb_refl; simpl;
        try lia; intros; split; reflexivity.
    + intros t' o sp. unfold allowf. rewrite A2, A1. lia.
  - rewrite B2, !B1. rewrite token_eqb_refl, addr_eqb_refl. simpl.
    destruct (addr_eqb from to) eqn:E, (addr_eqb to from) eqn:E'; simpl; beq; subst; try lia; congruence.
  - intros Hne. rewrite B2, !B1. rewrite token_eqb_refl, addr_eqb_refl. simpl.
    destruct (addr_eqb from to) eqn:E; [beq; contradiction|]. reflexivity.
  - intros <-. rewrite B2, !B1. rewrite token_eqb_refl, addr_eqb_refl. simpl. lia.
  - intros t' Hn. rewrite O2, O1 by assumption. reflexivity.
  - intros t'. rewrite A2, A1. reflexivity.
  - rewrite F2, F1. reflexivity.
Qed.

Section Specs.
  Variable unbind : Z -> Z -> Z -> Z.
  Variable deadline : Z.

  (** ** Transfer *)
  Lemma transfer_ok : forall c t from to v s s' r,
    0 <= v ->
    transfer c t from to v s = (s', Ok r) ->
    check_witness c from = true /\ moved t from to v s s'.
  Proof.
    intros c t from to v s s' r Hv H. unfold transfer in H. minv H.
    split; [assumption|]. eapply debit_credit_moved; eauto.
  Qed.

  (** ** TransferedFrom *)

  (** Who may spend: the spender witnessed the call, or (after the holder deadline) the ONT
      contract pays a holder its own approved ONG. *)
  Definition spender_ok (c : callctx) (sender from to : addr) : Prop :=
    check_witness c sender = true
    \/ (check_witness c tk_ont_addr = true /\ sender = to /\ from = tk_ont_addr).

  Record spent (t : token) (sender from to : addr) (v : Z) (s s' : state) : Prop := {
    sp_le : v <= allowf s t from sender;
    sp_allow : forall t' o sp, allowf s' t' o sp =
       if token_eqb t t' && pair_eqb (o, sp) (from, sender) then allowf s t from sender - v else allowf s t' o sp;
    sp_summ : summ (only t from) none s s';
    sp_low : balf s t from - v <= balf s' t from;
    sp_exact : from <> to -> balf s' t from = balf s t from - v;
    sp_self : from = to -> balf s' t from = balf s t from;
    sp_other : forall t', t' <> t -> bmap s' t' = bmap s t';
    sp_aother : forall t', t' <> t -> almap s' t' = almap s t';
    sp_offs : offs s' = offs s
  }.

  Lemma transfered_from_ok : forall c t sender from to v s s' r,
    0 <= v ->
    transfered_from deadline c t sender from to v s = (s', Ok r) ->
    spender_ok c sender from to /\ spent t sender from to v s s'.
  Proof.
    intros c t sender from to v s s' r Hv H. unfold transfered_from in H.
    mstep H as s0 u0 Hg. mstep H as s1 u1 Hf. mstep H as s2 b1 Hr. mstep H as s3 b2 Hi. minv H.
    assert (Hauth : spender_ok c sender from to /\ s0 = s).
    { unfold spender_ok. destruct (now c <=? (deadline + tk_genesis_ts) mod two32); minv Hg.
      - auto.
      - split; [|reflexivity].
        match goal with H : negb _ = true |- _ =>
          rewrite negb_true_iff, andb_false_iff, !negb_false_iff in H; destruct H as [H|H] end.
        + right. rewrite !andb_true_iff in H. destruct H as ((Ha & Hb) & Hc). beq. auto.
        + left. assumption. }
    destruct Hauth as (Hauth & ->). split; [exact Hauth|].
    apply from_approve_ok in Hf. destruct Hf as (Hle & Au).
    pose proof (debit_credit_moved _ _ _ _ _ _ _ _ _ Hv Hr Hi) as [Ms Ml Me Mself Mo Ma Mf].
    assert (Hlow : summ none none s s1).
    { eapply allow_lowered_summ; [exact Au|lia]. }
    destruct Au as [Aa Ax Ab Ao].
    assert (Hb1 : forall t' x, balf s1 t' x = balf s t' x) by (apply balf_same; exact Ab).
    constructor.
    - exact Hle.
    - intros t' o sp. unfold allowf at 1. rewrite Ma. apply Aa.
    - eapply summ_trans; [|exact Ms].
      eapply summ_weaken; [| |exact Hlow]; unfold none; tauto.
    - rewrite <- Hb1. exact Ml.
    - intros Hne. rewrite <- Hb1. auto.
    - intros He. rewrite <- Hb1. auto.
    - intros t' Hn. rewrite Mo by assumption. apply Ab.
    - intros t' Hn. rewrite Ma. apply Ax. assumption.
    - rewrite Mf. exact Ao.
  Qed.

  (** ** ONG contract *)

  (** Only ONG storage changed. *)
  Definition frame_ong (s s' : state) : Prop :=
    bmap s' ONT = bmap s ONT /\ almap s' ONT = almap s ONT /\ offs s' = offs s.
  Lemma frame_ong_refl : forall s, frame_ong s s.
  Proof. intros; repeat split. Qed.
  Lemma frame_ong_trans : forall s1 s2 s3, frame_ong s1 s2 -> frame_ong s2 s3 -> frame_ong s1 s3.
  Proof. intros s1 s2 s3 (A & B & C) (A' & B' & C'). repeat split; congruence. Qed.

  (** (token, holder) pairs whose debit the context witnesses. *)
  Definition witnessed (c : callctx) (t : token) : token -> addr -> Prop :=
    fun t' a => t' = t /\ check_witness c a = true.

  Lemma moved_frame_ong : forall from to v s s', moved ONG from to v s s' -> frame_ong s s'.
  Proof.
    intros from to v s s' [_ _ _ _ Mo Ma Mf]. repeat split; auto. apply Mo. discriminate.
  Qed.

  Lemma ong_do_transfer_ok : forall c l s s' r,
    Forall (fun x => 0 <= snd x) l ->
    ong_do_transfer c l s = (s', Ok r) ->
    summ (witnessed c ONG) none s s' /\ frame_ong s s' /\ almap s' ONG = almap s ONG.
  Proof.
    intros c l. induction l as [|[[from to] value] l IH]; intros s s' r Hl H; simpl in H.
    - minv H. split; [apply summ_refl|]. split; [apply frame_ong_refl|reflexivity].
    - inversion Hl as [|? ? Hv Hl']; subst. simpl in Hv.
      destruct (value =? 0) eqn:E; [eauto|].
      mstep H as s0 u0 Hg. minv Hg. mstep H as s1 u1 Ht.
      apply transfer_ok in Ht; [|assumption]. destruct Ht as (Hw & Mv).
      destruct (IH _ _ _ Hl' H) as (S2 & F2 & A2).
      split; [|split].
      + eapply summ_trans; [|exact S2].
        eapply summ_weaken; [| |exact (mv_summ _ _ _ _ _ _ Mv)]; [|tauto].
        intros t a (-> & ->). split; auto.
      + eapply frame_ong_trans; [|exact F2]. eapply moved_frame_ong; eauto.
      + rewrite A2. apply (mv_allow _ _ _ _ _ _ Mv).
  Qed.

  Lemma ong_do_approve_ok : forall c from to v s s' r,
    0 <= v ->
    ong_do_approve c from to v s = (s', Ok r) ->
    check_witness c from = true /\ summ none (only ONG from) s s' /\ frame_ong s s'
    /\ bmap s' ONG = bmap s ONG.
  Proof.
    intros c from to v s s' r Hv H. unfold ong_do_approve in H.
    mstep H as s0 u0 Hg. minv Hg. mstep H as s1 u1 Hw. minv Hw. mstep H as s2 u2 Hp. minv H.
    apply put_allow_ok in Hp.
    split; [assumption|]. split; [eapply allow_updated_summ; eauto|].
    destruct Hp as [Aa Ax Ab Ao]. split; [|apply Ab].
    split; [apply Ab|]. split; [|exact Ao]. apply Ax. discriminate.
  Qed.

  Lemma spent_frame_ong : forall sender from to v s s', spent ONG sender from to v s s' -> frame_ong s s'.
  Proof.
    intros sender from to v s s' H. destruct H. repeat split; auto.
    - apply sp_other0. discriminate.
    - apply sp_aother0. discriminate.
  Qed.

  Lemma ong_do_transfer_from_ok : forall c sender from to v s s' r,
    0 <= v ->
    ong_do_transfer_from deadline c sender from to v s = (s', Ok r) ->
    (r = false /\ s' = s)
    \/ (r = true /\ spender_ok c sender from to /\ spent ONG sender from to v s s').
  Proof.
    intros c sender from to v s s' r Hv H. unfold ong_do_transfer_from in H.
    destruct (v =? 0).
    - minv H. left. auto.
    - mstep H as s0 u0 Hg. minv Hg. mstep H as s1 u1 Ht. minv H.
      apply transfered_from_ok in Ht; [|assumption]. right. tauto.
  Qed.

  (** What one ONG call may do, for any calling context. *)
  Definition ong_effect (c : callctx) (o : op) (s s' : state) : Prop :=
    frame_ong s s' /\
    match o with
    | Transfer _ _ => summ (witnessed c ONG) none s s' /\ almap s' ONG = almap s ONG
    | Approve _ from _ _ =>
        check_witness c from = true /\ summ none (only ONG from) s s' /\ bmap s' ONG = bmap s ONG
    | TransferFrom v2 sender from to value =>
        s' = s \/ (spender_ok c sender from to /\ spent ONG sender from to (to_v2 v2 value) s s')
    end.

  Lemma decode_states_ok : forall v2 w l s s' sts,
    decode_states v2 w l s = (s', Ok sts) -> s' = s /\ Forall (fun x => 0 <= snd x) sts.
  Proof.
    intros v2 w l s s' sts H. unfold decode_states in H.
    destruct (negb v2 && w); mstep H as s0 u0 Hg; minv Hg; minv H;
      (split; [reflexivity|]); rewrite forallb_forall in H0; apply Forall_forall;
      intros x Hx; apply in_map_iff in Hx; destruct Hx as ([f t v] & <- & Hin); simpl.
    - pose proof tk_scale_pos. pose proof (Z.mod_pos_bound v two64 eq_refl). nia.
    - apply to_v2_nonneg. apply (H0 _ Hin).
  Qed.

  Lemma ong_invoke_ok : forall c o s s' r,
    ong_invoke deadline c o s = (s', Ok r) -> ong_effect c o s s'.
  Proof.
    intros c o s s' r H. destruct o as [v2 l|v2 from to value|v2 sender from to value]; simpl in H.
    - mstep H as s0 u0 Hg. minv Hg. mstep H as s1 sts Hd.
      apply decode_states_ok in Hd. destruct Hd as (-> & Hnn).
      apply ong_do_transfer_ok in H; [|assumption]. unfold ong_effect. tauto.
    - mstep H as s0 u0 Hg. minv Hg. mstep H as s1 u1 Hd. minv Hd.
      apply ong_do_approve_ok in H; [|apply to_v2_nonneg; assumption]. unfold ong_effect. tauto.
    - mstep H as s0 u0 Hg. minv Hg. mstep H as s1 u1 Hd. minv Hd.
      apply ong_do_transfer_from_ok in H; [|apply to_v2_nonneg; assumption].
      unfold ong_effect. destruct H as [(_ & ->)|(_ & Ha & Hs)].
      + split; [apply frame_ong_refl|]. left. reflexivity.
      + split; [eapply spent_frame_ong; eauto|]. right. auto.
  Qed.

  (** ** grantOng *)

  (** The ONT contract's ONG pool: the only ONG balance a grant may debit and the only owner
      whose ONG allowances it may raise. *)
  Definition pool : token -> addr -> Prop := only ONG tk_ont_addr.

  (** Only ONT balances / ONT allowances are untouched. *)
  Definition frame_grant (s s' : state) : Prop :=
    bmap s' ONT = bmap s ONT /\ almap s' ONT = almap s ONT.
  Lemma frame_grant_refl : forall s, frame_grant s s.
  Proof. intros; split; reflexivity. Qed.
  Lemma frame_grant_trans : forall s1 s2 s3, frame_grant s1 s2 -> frame_grant s2 s3 -> frame_grant s1 s3.
  Proof. intros s1 s2 s3 (A & B) (A' & B'). split; congruence. Qed.
  Lemma frame_ong_grant : forall s s', frame_ong s s' -> frame_grant s s'.
  Proof. intros s s' (A & B & C). split; assumption. Qed.

  Lemma pool_approve : forall c v2 a x s s' r,
    ong_invoke deadline (from_ont c) (Approve v2 tk_ont_addr a x) s = (s', Ok r) ->
    summ pool pool s s' /\ frame_grant s s'.
  Proof.
    intros c v2 a x s s' r H. apply ong_invoke_ok in H. destruct H as (F & _ & S & _).
    split; [|apply frame_ong_grant; assumption].
    eapply summ_weaken; [| |exact S]; unfold none, pool; tauto.
  Qed.

  Lemma pool_transfer_from : forall c v2 a x s s' r,
    ong_invoke deadline (from_ont c) (TransferFrom v2 a tk_ont_addr a x) s = (s', Ok r) ->
    summ pool pool s s' /\ frame_grant s s'.
  Proof.
    intros c v2 a x s s' r H. apply ong_invoke_ok in H. destruct H as (F & [->|(_ & Sp)]).
    - split; [apply summ_refl|apply frame_grant_refl].
    - split; [|apply frame_ong_grant; assumption].
      eapply summ_weaken; [| |exact (sp_summ _ _ _ _ _ _ _ Sp)]; unfold none, pool; tauto.
  Qed.

  Lemma must_integer64_ok : forall v s s' q, must_integer64 v s = (s', Ok q) -> s' = s.
  Proof.
    intros v s s' q H. unfold must_integer64 in H.
    destruct ((0 <=? v / tk_scale) && (v / tk_scale <? two64)); minv H; reflexivity.
  Qed.

  Lemma grant_ong_ok : forall c a balance s s' u,
    grant_ong unbind deadline c a balance s = (s', Ok u) ->
    summ pool pool s s' /\ frame_grant s s'.
  Proof.
    intros c a balance s s' u H. unfold grant_ong in H.
    mstep H as s0 start Hg. minv Hg.
    destruct (now c <=? tk_genesis_ts).
    { minv H. split; [apply summ_refl|apply frame_grant_refl]. }
    destruct (now c - tk_genesis_ts <? offf s a).
    { destruct (preexec c); minv H. split; [apply summ_refl|apply frame_grant_refl]. }
    destruct (now c - tk_genesis_ts =? offf s a).
    { minv H. split; [apply summ_refl|apply frame_grant_refl]. }
    mstep H as s1 u1 Hb.
    assert (Hmid : summ pool pool s s1 /\ frame_grant s s1).
    { destruct (negb (balance =? 0)).
      - mstep Hb as s2 sv Hsv. minv Hsv.
        mstep Hb as s3 r3 Hap.
        assert (Hap' : summ pool pool s s3 /\ frame_grant s s3).
        { destruct (is_float _).
          - eapply pool_approve; eauto.
          - mstep Hap as s4 q Hq. apply must_integer64_ok in Hq. subst s4.
            eapply pool_approve; eauto. }
        clear Hap. destruct Hap' as (S1 & F1).
        assert (Htf : summ pool pool s3 s1 /\ frame_grant s3 s1).
        { destruct ((deadline <? now c - tk_genesis_ts) && negb (addr_eqb a tk_gov_addr)).
          - mstep Hb as s5 r5 Htf. minv Hb.
            destruct (is_float _).
            + eapply pool_transfer_from; eauto.
            + mstep Htf as s6 q Hq. apply must_integer64_ok in Hq. subst s6.
              eapply pool_transfer_from; eauto.
          - minv Hb. split; [apply summ_refl|apply frame_grant_refl]. }
        destruct Htf as (S2 & F2).
        split; [eapply summ_trans; eauto|eapply frame_grant_trans; eauto].
      - minv Hb. split; [apply summ_refl|apply frame_grant_refl]. }
    destruct Hmid as (S1 & F1).
    apply put_off_ok in H.
    split.
    - eapply summ_trans; [exact S1|].
      eapply summ_weaken; [| |apply off_updated_summ; exact H]; unfold none; tauto.
    - eapply frame_grant_trans; [exact F1|]. destruct H as [Hb' Ha']. split; auto.
  Qed.

  Lemma grant_both_ok : forall c from to old s s' u,
    grant_both unbind deadline c from to old s = (s', Ok u) ->
    summ pool pool s s' /\ frame_grant s s'.
  Proof.
    intros c from to old s s' u H. unfold grant_both in H.
    mstep H as s0 bf Hq. apply must_integer64_ok in Hq. subst s0.
    mstep H as s1 u1 Hg1. apply grant_ong_ok in Hg1. destruct Hg1 as (S1 & F1).
    mstep H as s2 bt Hq. apply must_integer64_ok in Hq. subst s2.
    apply grant_ong_ok in H. destruct H as (S2 & F2).
    split; [eapply summ_trans; eauto|eapply frame_grant_trans; eauto].
  Qed.

  (** ** ONT contract *)

  (** Debits an ONT call may make: ONT of holders that witnessed it, and the ONG pool. *)
  Definition ont_debits (c : callctx) : token -> addr -> Prop :=
    fun t a => witnessed c ONT t a \/ pool t a.

  Lemma ont_do_transfer_ok : forall c l s s' r,
    Forall (fun x => 0 <= snd x) l ->
    ont_do_transfer unbind deadline c l s = (s', Ok r) ->
    summ (ont_debits c) pool s s' /\ almap s' ONT = almap s ONT.
  Proof.
    intros c l. induction l as [|[[from to] value] l IH]; intros s s' r Hl H; simpl in H.
    - minv H. split; [apply summ_refl|reflexivity].
    - inversion Hl as [|? ? Hv Hl']; subst. simpl in Hv.
      destruct (value =? 0) eqn:E; [eauto|].
      mstep H as s0 u0 Hg. minv Hg. mstep H as s1 old Ht.
      apply transfer_ok in Ht; [|assumption]. destruct Ht as (Hw & Mv).
      mstep H as s2 u2 Hgr. apply grant_both_ok in Hgr. destruct Hgr as (S2 & F2a & F2b).
      destruct (IH _ _ _ Hl' H) as (S3 & A3).
      split.
      + eapply summ_trans; [|eapply summ_trans; [|exact S3]].
        * eapply summ_weaken; [| |exact (mv_summ _ _ _ _ _ _ Mv)]; [|unfold none; tauto].
          intros t a (-> & ->). left. split; auto.
        * eapply summ_weaken; [| |exact S2]; [|tauto]. intros t a Hp. right. exact Hp.
      + rewrite A3, F2b. apply (mv_allow _ _ _ _ _ _ Mv).
  Qed.

  (** What one ONT call may do. *)
  Definition ont_effect (c : callctx) (o : op) (s s' : state) : Prop :=
    match o with
    | Transfer _ _ => summ (ont_debits c) pool s s' /\ almap s' ONT = almap s ONT
    | Approve _ from _ _ =>
        check_witness c from = true /\ summ none (only ONT from) s s'
        /\ (forall t, bmap s' t = bmap s t) /\ almap s' ONG = almap s ONG
    | TransferFrom v2 sender from to value =>
        s' = s \/ exists s1,
          spender_ok c sender from to /\ spent ONT sender from to (to_v2 v2 value) s s1
          /\ summ pool pool s1 s' /\ frame_grant s1 s'
    end.

  Lemma ont_transfer_from_body : forall c sender from to v s s' r,
    0 <= v ->
    (old <- transfered_from deadline c ONT sender from to v ;;
     grant_both unbind deadline c from to old ;;; ret true) s = (s', Ok r) ->
    exists s1, spender_ok c sender from to /\ spent ONT sender from to v s s1
               /\ summ pool pool s1 s' /\ frame_grant s1 s'.
  Proof.
    intros c sender from to v s s' r Hv H.
    mstep H as s1 old Ht. apply transfered_from_ok in Ht; [|assumption]. destruct Ht as (Ha & Sp).
    mstep H as s2 u2 Hg. minv H. apply grant_both_ok in Hg. destruct Hg as (S2 & F2).
    exists s1. auto.
  Qed.

  Lemma ont_invoke_ok : forall c o s s' r,
    ont_invoke unbind deadline c o s = (s', Ok r) -> ont_effect c o s s'.
  Proof.
    intros c o s s' r H. destruct o as [v2 l|v2 from to value|v2 sender from to value]; simpl in H.
    - mstep H as s0 u0 Hg. minv Hg. mstep H as s1 sts Hd.
      apply decode_states_ok in Hd. destruct Hd as (-> & Hnn).
      apply ont_do_transfer_ok in H; assumption.
    - destruct v2.
      + mstep H as s0 u0 Hg. minv Hg. mstep H as s1 u1 Hd. minv Hd.
        mstep H as s2 u2 Hb. minv Hb. mstep H as s3 u3 Hw. minv Hw.
        mstep H as s4 u4 Hp. minv H. apply put_allow_ok in Hp.
        simpl. split; [assumption|]. split.
        * eapply allow_updated_summ; [exact Hp|]. apply (to_v2_nonneg true). assumption.
        * destruct Hp as [Aa Ax Ab Ao]. split; [exact Ab|]. apply (Ax ONG). discriminate.
      + mstep H as s1 u1 Hd. minv Hd.
        mstep H as s2 u2 Hb. minv Hb. mstep H as s3 u3 Hw. minv Hw.
        mstep H as s4 u4 Hp. minv H. minv Hp.
        pose proof (set_allow_updated ONT from to (value * tk_scale) s) as Hp.
        simpl. split; [assumption|]. split.
        * eapply allow_updated_summ; [exact Hp|]. apply (to_v2_nonneg false). assumption.
        * destruct Hp as [Aa Ax Ab Ao]. split; [exact Ab|]. apply (Ax ONG). discriminate.
    - destruct v2.
      + mstep H as s0 u0 Hg. minv Hg. mstep H as s1 u1 Hd. minv Hd.
        destruct (value =? 0).
        * minv H. left. reflexivity.
        * mstep H as s2 u2 Hb. minv Hb. right.
          eapply ont_transfer_from_body; [|exact H]. apply (to_v2_nonneg true). assumption.
      + mstep H as s1 u1 Hd. minv Hd.
        destruct (value =? 0).
        * minv H. left. reflexivity.
        * mstep H as s2 u2 Hb. minv Hb. right.
          eapply ont_transfer_from_body; [|exact H]. apply (to_v2_nonneg false). assumption.
  Qed.

  (** * One call as a transaction *)

  Lemma step_ok : forall s k s' b,
    step unbind deadline s k = (s', Ok b) -> exec unbind deadline k s = (s', Ok b).
  Proof.
    intros s k s' b H. unfold step in H. destruct (exec unbind deadline k s) as [sc [b'|e]]; congruence.
  Qed.

  Lemma step_err : forall s k s' e, step unbind deadline s k = (s', Err e) -> s' = s.
  Proof.
    intros s k s' e H. unfold step in H. destruct (exec unbind deadline k s) as [sc [b'|e']]; congruence.
  Qed.

  (** Failed call: the committed state is untouched (whatever the scratch cache looked like). *)
  Lemma step_failed_unchanged : forall s k e,
    snd (step unbind deadline s k) = Err e -> fst (step unbind deadline s k) = s.
  Proof.
    intros s k e H. destruct (step unbind deadline s k) as [s' [b|e']] eqn:E; simpl in *; [discriminate|].
    eapply step_err; eauto.
  Qed.

  (** The per-call summary every successful call satisfies. *)
  Definition call_debits (k : call) : token -> addr -> Prop :=
    fun t a => witnessed_by k a \/ ont_pool k t a
               \/ exists v2 sender to value, c_op k = TransferFrom v2 sender a to value /\ t = c_tok k.
  Definition call_grants (k : call) : token -> addr -> Prop :=
    fun t a => witnessed_by k a \/ ont_pool k t a.

  Lemma spent_summ_self : forall t sender from to v s s',
    spent t sender from to v s s' -> summ (only t from) none s s'.
  Proof. intros. eapply sp_summ; eauto. Qed.

  Lemma exec_summ : forall k s s' b,
    exec unbind deadline k s = (s', Ok b) -> summ (call_debits k) (call_grants k) s s'.
  Proof.
    intros [tok c o] s s' b H. unfold exec in H. simpl in H. destruct tok.
    - apply ont_invoke_ok in H. unfold call_debits, call_grants, witnessed_by, ont_pool; simpl.
      destruct o as [v2 l|v2 from to value|v2 sender from to value]; simpl in H.
      + destruct H as (S & _). eapply summ_weaken; [| |exact S].
        * intros t a [(-> & Hw)|(-> & ->)]; auto.
        * intros t a (-> & ->). auto.
      + destruct H as (Hw & S & _). eapply summ_weaken; [| |exact S]; [unfold none; tauto|].
        intros t a (-> & ->). auto.
      + destruct H as [->|(s1 & Ha & Sp & S2 & F2)]; [apply summ_refl|].
        eapply summ_trans.
        * eapply summ_weaken; [| |exact (sp_summ _ _ _ _ _ _ _ Sp)]; [|unfold none; tauto].
          intros t a (-> & ->). right. right. exists v2, sender, to, value. auto.
        * eapply summ_weaken; [| |exact S2]; intros t a (-> & ->); auto.
    - apply ong_invoke_ok in H. unfold call_debits, call_grants, witnessed_by, ont_pool; simpl.
      destruct H as (F & H).
      destruct o as [v2 l|v2 from to value|v2 sender from to value]; simpl in H.
      + destruct H as (S & _). eapply summ_weaken; [| |exact S]; [|unfold none; tauto].
        intros t a (-> & Hw); auto.
      + destruct H as (Hw & S & _). eapply summ_weaken; [| |exact S]; [unfold none; tauto|].
        intros t a (-> & ->). auto.
      + destruct H as [->|(Ha & Sp)]; [apply summ_refl|].
        eapply summ_weaken; [| |exact (sp_summ _ _ _ _ _ _ _ Sp)]; [|unfold none; tauto].
        intros t a (-> & ->). right. right. exists v2, sender, to, value. auto.
  Qed.

  Lemma step_summ : forall k s, summ (call_debits k) (call_grants k) s (fst (step unbind deadline s k)).
  Proof.
    intros k s. destruct (step unbind deadline s k) as [s' [b|e]] eqn:E; simpl.
    - apply step_ok in E. eapply exec_summ; eauto.
    - apply step_err in E. subst. apply summ_refl.
  Qed.

  Lemma step_inv : forall k s, inv s -> inv (fst (step unbind deadline s k)).
  Proof. intros k s I. apply (step_summ k s I). Qed.

  Lemma step_sum : forall k s t, inv s -> sumb (fst (step unbind deadline s k)) t = sumb s t.
  Proof. intros k s t I. apply (step_summ k s I). Qed.

  Lemma step_allowance_authorized : forall k s,
    inv s -> allowance_authorized k s (fst (step unbind deadline s k)).
  Proof.
    intros k s I t o sp Hlt. destruct (step_summ k s I) as (_ & _ & _ & A). exact (A t o sp Hlt).
  Qed.

  (** The transferFrom case of [debit_authorized] needs the exact accounting. *)
  Lemma spent_exact : forall t sender from to v s s1,
    0 <= v -> inv s -> spent t sender from to v s s1 ->
    forall a, balf s1 t a < balf s t a ->
      a = from /\ 0 <= allowf s1 t from sender
      /\ allowf s t from sender - allowf s1 t from sender = balf s t from - balf s1 t from.
  Proof.
    intros t sender from to v s s1 Hv I Sp a Hlt.
    destruct (sp_summ _ _ _ _ _ _ _ Sp I) as (_ & _ & B & _).
    destruct (B t a Hlt) as (_ & ->). split; [reflexivity|].
    rewrite (sp_allow _ _ _ _ _ _ _ Sp). rewrite token_eqb_refl.
    rewrite (keqb_refl pair_eqb pair_eqb_spec). simpl.
    pose proof (sp_le _ _ _ _ _ _ _ Sp).
    destruct (N.eq_dec from to) as [E|E].
    - rewrite (sp_self _ _ _ _ _ _ _ Sp E) in Hlt. lia.
    - rewrite (sp_exact _ _ _ _ _ _ _ Sp E). lia.
  Qed.

  Lemma op_value_nonneg : forall c tok v2 sender from to value s s' b,
    exec unbind deadline (mkCall tok c (TransferFrom v2 sender from to value)) s = (s', Ok b) ->
    s' = s \/ 0 <= to_v2 v2 value.
  Proof.
    intros c tok v2 sender from to value s s' b H. unfold exec in H. simpl in H.
    destruct tok; simpl in H.
    - destruct v2.
      + mstep H as s0 u0 Hg. minv Hg. mstep H as s1 u1 Hd. minv Hd.
        right. apply (to_v2_nonneg true). assumption.
      + mstep H as s1 u1 Hd. minv Hd. right. apply (to_v2_nonneg false). assumption.
    - mstep H as s0 u0 Hg. minv Hg. mstep H as s1 u1 Hd. minv Hd.
      right. apply to_v2_nonneg. assumption.
  Qed.

  Lemma exec_debit_authorized : forall k s s' b,
    inv s -> exec unbind deadline k s = (s', Ok b) -> debit_authorized k s s'.
  Proof.
    intros [tok c o] s s' b I H t a Hlt.
    destruct o as [v2 l|v2 from to value|v2 sender from to value].
    - (* transfer *)
      destruct (exec_summ _ _ _ _ H I) as (_ & _ & B & _).
      destruct (B t a Hlt) as [Hw|[Hp|(v2' & sender & to & value & Hop & _)]]; auto.
      simpl in Hop. discriminate.
    - (* approve *)
      destruct (exec_summ _ _ _ _ H I) as (_ & _ & B & _).
      destruct (B t a Hlt) as [Hw|[Hp|(v2' & sender & to' & value' & Hop & _)]]; auto.
      simpl in Hop. discriminate.
    - (* transferFrom *)
      pose proof (op_value_nonneg _ _ _ _ _ _ _ _ _ _ H) as Hnn.
      unfold exec in H. cbn [c_tok c_ctx c_op] in H. destruct tok.
      + apply ont_invoke_ok in H. simpl in H.
        destruct H as [->|(s1 & Ha & Sp & S2 & (F2a & F2b))]; [lia|].
        destruct Hnn as [->|Hnn]; [lia|].
        destruct t.
        * (* ONT balance: decided in s -> s1, the grants leave ONT maps alone *)
          assert (Hb : balf s' ONT a = balf s1 ONT a) by (unfold balf; rewrite F2a; reflexivity).
          rewrite Hb in Hlt.
          destruct (spent_exact _ _ _ _ _ _ _ Hnn I Sp a Hlt) as (-> & Hge & Hex).
          right. right. exists v2, sender, to, value. simpl.
          assert (Hal : allowf s' ONT from sender = allowf s1 ONT from sender)
            by (unfold allowf; rewrite F2b; reflexivity).
          rewrite Hal, Hb. repeat split; auto.
        * (* ONG balance: untouched in s -> s1, then only the pool may be debited *)
          assert (Hb : balf s1 ONG a = balf s ONG a).
          { unfold balf. rewrite (sp_other _ _ _ _ _ _ _ Sp ONG) by discriminate. reflexivity. }
          destruct (sp_summ _ _ _ _ _ _ _ Sp I) as (I1 & _).
          destruct (S2 I1) as (_ & _ & B & _).
          rewrite <- Hb in Hlt. destruct (B ONG a Hlt) as (_ & ->).
          right. left. repeat split.
      + apply ong_invoke_ok in H. destruct H as (F & H). simpl in H.
        destruct H as [->|(Ha & Sp)]; [lia|].
        destruct Hnn as [->|Hnn]; [lia|].
        destruct t.
        * destruct F as (Fb & _). unfold balf in Hlt. rewrite Fb in Hlt. lia.
        * destruct (spent_exact _ _ _ _ _ _ _ Hnn I Sp a Hlt) as (-> & Hge & Hex).
          right. right. exists v2, sender, to, value. simpl. repeat split; auto.
  Qed.

  Lemma step_debit_authorized : forall k s,
    inv s -> debit_authorized k s (fst (step unbind deadline s k)).
  Proof.
    intros k s I. destruct (step unbind deadline s k) as [s' [b|e]] eqn:E; simpl.
    - apply step_ok in E. eapply exec_debit_authorized; eauto.
    - apply step_err in E. subst. intros t a Hlt. lia.
  Qed.

  (** During an ONT call no ONG balance but the ONT contract's own can go down (accrued ONG is
      paid out of the pool; nobody else's ONG is touched, whoever signed). *)
  Lemma ont_call_ong_debits_pool_only : forall k s a,
    inv s -> c_tok k = ONT ->
    balf (fst (step unbind deadline s k)) ONG a < balf s ONG a -> a = tk_ont_addr.
  Proof.
    intros [tok c o] s a I Ht Hlt. simpl in Ht. subst tok.
    destruct (step unbind deadline s (mkCall ONT c o)) as [s' [b|e]] eqn:E; simpl in Hlt.
    - apply step_ok in E. unfold exec in E. cbn [c_tok c_ctx c_op] in E. apply ont_invoke_ok in E.
      destruct o as [v2 l|v2 from to value|v2 sender from to value]; simpl in E.
      + destruct E as (S & _). destruct (S I) as (_ & _ & B & _).
        destruct (B ONG a Hlt) as [(Hx & _)|(_ & ->)]; [discriminate|reflexivity].
      + destruct E as (_ & _ & Hb & _). unfold balf in Hlt. rewrite Hb in Hlt. lia.
      + destruct E as [->|(s1 & Ha & Sp & S2 & F2)]; [lia|].
        assert (Hb : balf s1 ONG a = balf s ONG a).
        { unfold balf. rewrite (sp_other _ _ _ _ _ _ _ Sp ONG) by discriminate. reflexivity. }
        destruct (sp_summ _ _ _ _ _ _ _ Sp I) as (I1 & _).
        destruct (S2 I1) as (_ & _ & B & _).
        rewrite <- Hb in Hlt. destruct (B ONG a Hlt) as (_ & ->). reflexivity.
    - apply step_err in E. subst. lia.
  Qed.

  (** * All call sequences *)

  Lemma run_app : forall l1 l2 s, run unbind deadline s (l1 ++ l2) = run unbind deadline (run unbind deadline s l1) l2.
  Proof. intros. unfold run. apply fold_left_app. Qed.

  Lemma run_snoc : forall l k s,
    run unbind deadline s (l ++ [k]) = fst (step unbind deadline (run unbind deadline s l) k).
  Proof. intros. rewrite run_app. reflexivity. Qed.

  Lemma run_inv : forall l s, inv s -> inv (run unbind deadline s l).
  Proof.
    induction l as [|k l IH]; intros s I; simpl; [exact I|].
    apply IH. apply step_inv. exact I.
  Qed.

  Lemma run_sum : forall l s t, inv s -> sumb (run unbind deadline s l) t = sumb s t.
  Proof.
    induction l as [|k l IH]; intros s t I; simpl; [reflexivity|].
    rewrite IH by (apply step_inv; exact I). apply step_sum. exact I.
  Qed.

  Lemma run_debit_authorized : forall pre k s,
    inv s -> debit_authorized k (run unbind deadline s pre) (run unbind deadline s (pre ++ [k])).
  Proof. intros. rewrite run_snoc. apply step_debit_authorized. apply run_inv. assumption. Qed.

  Lemma run_allowance_authorized : forall pre k s,
    inv s -> allowance_authorized k (run unbind deadline s pre) (run unbind deadline s (pre ++ [k])).
  Proof. intros. rewrite run_snoc. apply step_allowance_authorized. apply run_inv. assumption. Qed.

  Lemma run_failed_unchanged : forall pre k s e,
    snd (step unbind deadline (run unbind deadline s pre) k) = Err e ->
    run unbind deadline s (pre ++ [k]) = run unbind deadline s pre.
  Proof. intros. rewrite run_snoc. eapply step_failed_unchanged; eauto. Qed.
End Specs.

(** * The decidable invariant check is sound *)
Lemma nodupb_sound : forall l, nodupb l = true -> NoDup l.
Proof.
  induction l as [|x r IH]; simpl; intros H; [constructor|].
  apply andb_true_iff in H. destruct H as (H1 & H2). constructor; auto.
  intros Hin. apply negb_true_iff in H1.
  assert (existsb (N.eqb x) r = true) by (apply existsb_exists; exists x; split; [assumption|apply N.eqb_refl]).
  congruence.
Qed.

Lemma nonnegb_getd : forall K (keqb : K -> K -> bool) (l : amap K) k,
  nonnegb l = true -> 0 <= getd keqb l k.
Proof.
  intros K keqb l k. unfold getd. induction l as [|[k0 v0] r IH]; simpl; intros H; [lia|].
  apply andb_true_iff in H. destruct H as (H1 & H2). apply Z.leb_le in H1. simpl in H1.
  destruct (keqb k k0); auto.
Qed.

Lemma inv_check_sound : forall s, inv_check s = true -> inv s.
Proof.
  intros s H. unfold inv_check in H. rewrite !andb_true_iff in H.
  destruct H as (((((H1 & H2) & H3) & H4) & H5) & H6).
  constructor.
  - intros []; simpl; apply nodupb_sound; assumption.
  - intros [] a; unfold balf; simpl; apply nonnegb_getd; assumption.
  - intros [] o sp; unfold allowf; simpl; apply nonnegb_getd; assumption.
Qed.

(** * The witness rule: signers or the immediate caller, nothing deeper in the call stack *)
Lemma check_witness_iff : forall c a,
  check_witness c a = true <-> In a (signers c) \/ caller c = Some a.
Proof.
  intros c a. unfold check_witness. rewrite orb_true_iff, existsb_exists. split.
  - intros [(x & Hin & E)|H].
    + apply addr_eqb_spec in E. subst. auto.
    + destruct (caller c) as [x|]; [|discriminate]. apply addr_eqb_spec in H. subst. auto.
  - intros [H|H].
    + left. exists a. split; [assumption|apply addr_eqb_refl].
    + right. rewrite H. apply addr_eqb_refl.
Qed.

Lemma last_opt_app : forall l x, last_opt (l ++ [x]) = Some x.
Proof.
  induction l as [|y r IH]; intros x; simpl; [reflexivity|].
  rewrite IH. destruct (r ++ [x]) eqn:E; [destruct r; discriminate|reflexivity].
Qed.

(** A contract further down the stack (an indirect caller) that did not sign is not a witness. *)
Lemma indirect_caller_not_witness : forall sg below a b now pe v2 w,
  ~ In a sg -> a <> b ->
  check_witness (mkCtx sg (below ++ [a; b]) now pe v2 w) a = false.
Proof.
  intros sg below a b now pe v2 w Hn Hab.
  destruct (check_witness _ a) eqn:E; [|reflexivity]. exfalso.
  apply check_witness_iff in E. simpl in E. destruct E as [E|E]; [contradiction|].
  unfold caller in E. simpl in E.
  replace (below ++ [a; b]) with ((below ++ [a]) ++ [b]) in E by (rewrite <- app_assoc; reflexivity).
  rewrite last_opt_app in E. congruence.
Qed.
