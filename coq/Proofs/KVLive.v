(** Iteration interleaved with writes (the live MemDB iterator under JoinIter).

    Proofs/KV.v proves the iterator contract for a frozen store. Here the same contract is proved
    in a form that tolerates CacheDB writes between two Next calls, as CleanContractStorageData
    and MigrateContractStorage do: a write is [unseen] by an iterator whose cursor is at key K when
    it lands at or behind K or outside the iterator's range. The MemDB iterator reads the skip
    list at every Next (it is live), so this is a property of the exact state machines, proved
    again by induction on the merged remainder, for nested JoinIters.

    Result ([cache_live_behind]): a CacheDB prefix iteration whose interleaved writes are all
    unseen yields exactly the listing it would have yielded without them. *)
From Coq Require Import List Bool Arith NArith Lia.
Import ListNotations.
From Ont Require Import Lib.Bytes Model.KV Proofs.KV.
Local Open Scope N_scope.
Open Scope bool_scope.

Definition kle (a b : bytes) : Prop := bytes_cmp a b <> Gt.

Lemma kle_refl a : kle a a.
Proof. unfold kle; rewrite cmp_refl; discriminate. Qed.

Lemma kle_trans a b c : kle a b -> kle b c -> kle a c.
Proof.
  unfold kle. intros H1 H2.
  destruct (bytes_cmp a b) eqn:E1; try congruence; destruct (bytes_cmp b c) eqn:E2; try congruence.
  - apply cmp_eq in E1; apply cmp_eq in E2; subst. rewrite cmp_refl; discriminate.
  - apply cmp_eq in E1; subst. rewrite E2; discriminate.
  - apply cmp_eq in E2; subst. rewrite E1; discriminate.
  - rewrite (cmp_lt_trans _ _ _ E1 E2); discriminate.
Qed.

Lemma lt_kle a b : bytes_cmp a b = Lt -> kle a b.
Proof. unfold kle; intros ->; discriminate. Qed.

Lemma kle_ltb_false a b : kle a b -> bytes_ltb b a = false.
Proof.
  unfold kle, bytes_ltb. rewrite (cmp_antisym b a). destruct (bytes_cmp a b); simpl; congruence.
Qed.

Definition sorted_env (env : layer -> memdb) : Prop := forall l, ssorted (env l).

Section Live.
Variable rg : range.
Let lim := r_limit rg.

(** [env'] differs from [env] by writes that no MemDB iterator with a cursor at or beyond [K] (and
    range limit [lim]) can notice: what lies ahead of every such cursor, up to the limit, is the same. *)
Definition unseen (K : bytes) (env env' : layer -> memdb) : Prop :=
  sorted_env env' /\
  forall l k, kle K k -> upto lim (after k (env' l)) = upto lim (after k (env l)).

Lemma unseen_refl K env : sorted_env env -> unseen K env env.
Proof. intro H; split; [exact H|reflexivity]. Qed.

Lemma unseen_trans K e1 e2 e3 : unseen K e1 e2 -> unseen K e2 e3 -> unseen K e1 e3.
Proof. intros [_ H1] [S H2]; split; [exact S|]. intros l k Hk. rewrite H2, H1; auto. Qed.

Lemma unseen_mono K K' e1 e2 : kle K K' -> unseen K e1 e2 -> unseen K' e1 e2.
Proof. intros HK [S H]; split; [exact S|]. intros l k Hk. apply H. eapply kle_trans; eauto. Qed.

(** [compat env env' l]: a change the iterator positioned on the head of [l] cannot notice
    (any sorted change if [l] is empty: an exhausted iterator stays exhausted). *)
Definition compat (env env' : layer -> memdb) (l : list kv) : Prop :=
  sorted_env env' /\ (l <> [] -> unseen (hd_key l) env env').

Lemma compat_trans e1 e2 e3 l : compat e1 e2 l -> compat e2 e3 l -> compat e1 e3 l.
Proof.
  intros [_ H1] [S H2]; split; [exact S|]. intro Hl. eapply unseen_trans; [apply H1|apply H2]; exact Hl.
Qed.

(** The contract of Proofs/KV.v, with the environment allowed to change before every Next. *)
Fixpoint tracksW (env : layer -> memdb) (B : nat) (l : list kv) (it : iter) : Prop :=
  match l with
  | [] => dead it /\ forall env', sorted_env env' -> forall f, (B <= f)%nat ->
            exists it', it_next env' f it = (it', RFalse) /\ dead it'
  | e :: l' => it_key it = fst e /\ it_value it = snd e /\
      forall env', unseen (fst e) env env' -> forall f, (B <= f)%nat ->
        exists it', it_next env' f it = (it', res_of l') /\ tracksW env' B l' it'
  end.

Definition first_okW (env : layer -> memdb) (B : nat) (l : list kv) (it : iter) : Prop :=
  forall f, (B <= f)%nat -> exists it', it_first env f it = (it', res_of l) /\ tracksW env B l it'.

Lemma tracksW_mono B B' l : (B <= B')%nat -> forall env it, tracksW env B l it -> tracksW env B' l it.
Proof.
  intro HB. induction l as [|e l' IH]; intros env it H; simpl in *.
  - destruct H as [Hd Hn]; split; [exact Hd|]. intros env' S f Hf; apply Hn; [exact S|lia].
  - destruct H as (Hk & Hv & Hn); repeat split; auto.
    intros env' U f Hf. destruct (Hn env' U f ltac:(lia)) as (it' & E & T). exists it'; split; [exact E|apply IH; exact T].
Qed.

Lemma first_okW_mono env B B' L it : (B <= B')%nat -> first_okW env B L it -> first_okW env B' L it.
Proof.
  intros HB F f Hf. destruct (F f ltac:(lia)) as (it' & E & T). exists it'; split; [exact E|].
  eapply tracksW_mono; eauto.
Qed.

Lemma tracksW_key env B l it : tracksW env B l it -> it_key it = hd_key l /\ it_value it = hd_val l.
Proof. destruct l as [|e l']; simpl; [intros [[H1 H2] _]; auto | intros (H1 & H2 & _); auto]. Qed.

Lemma tracksW_shift env env' B l it : tracksW env B l it -> compat env env' l -> tracksW env' B l it.
Proof.
  destruct l as [|e l']; simpl; intros H [S C]; [exact H|].
  destruct H as (Hk & Hv & Hn). repeat split; auto. intros env'' U f Hf.
  apply Hn; [|exact Hf]. eapply unseen_trans; [apply C; discriminate|exact U].
Qed.

Lemma tracksW_next env env' B l it f : tracksW env B l it -> compat env env' l -> (B <= f)%nat ->
  exists it', it_next env' f it = (it', res_of (tl l)) /\
              (if nilb (tl l) then dead it' else tracksW env' B (tl l) it') /\
              (l <> [] -> tracksW env' B (tl l) it').
Proof.
  destruct l as [|e l']; simpl; intros H [S C] Hf.
  - destruct H as [_ Hn]. destruct (Hn env' S f Hf) as (it' & E & D).
    exists it'; split; [exact E|split; [exact D|intro X; exfalso; apply X; reflexivity]].
  - destruct H as (_ & _ & Hn). destruct (Hn env' (C ltac:(discriminate)) f Hf) as (it' & E & T).
    exists it'; split; [exact E|split; [|intros _; exact T]].
    destruct l'; simpl in *; [apply T | exact T].
Qed.

(** ** MemDB iterator (range [rg]) *)

Lemma mem_next_upto m l k v :
  mem_next m l rg (Some k) true k v =
  match upto lim (after k m) with
  | [] => (IMem l rg None true [] [], RFalse)
  | (k1, v1) :: _ => (IMem l rg (Some k1) true k1 v1, RTrue)
  end.
Proof.
  unfold mem_next. rewrite mem_succ_after. destruct (after k m) as [|[k1 v1] r]; simpl; [reflexivity|].
  fold lim. destruct (below_limit lim k1); reflexivity.
Qed.

Lemma mem_invalid_tracksW env l : tracksW env 1 [] (IMem l rg None true [] []).
Proof.
  simpl. split; [split; reflexivity|]. intros env' _ f Hf. destruct f as [|f]; [lia|].
  eexists; split; [reflexivity|split; reflexivity].
Qed.

Lemma upto_after_step m k k1 v1 r : ssorted m -> upto lim (after k m) = (k1, v1) :: r ->
  upto lim (after k1 m) = r.
Proof.
  intros Hs E. destruct (after k m) as [|[k2 v2] r2] eqn:A; simpl in E; [discriminate|].
  destruct (below_limit lim k2); [|discriminate]. inversion E; subst.
  pose proof (after_step k m (k1, v1) r2 Hs A) as X; simpl in X. rewrite X. reflexivity.
Qed.

Lemma mem_tracksW l : forall L env k v, sorted_env env ->
  upto lim (after k (env l)) = L -> tracksW env 1 ((k, v) :: L) (IMem l rg (Some k) true k v).
Proof.
  induction L as [|[k1 v1] L' IH]; intros env k v Hs E; simpl; (split; [reflexivity|split; [reflexivity|]]);
    intros env' [S U] f Hf; (destruct f as [|f]; [lia|]); cbn [it_next]; rewrite mem_next_upto;
    rewrite (U l k (kle_refl k)), E.
  - eexists; split; [reflexivity|apply (mem_invalid_tracksW env')].
  - eexists; split; [reflexivity|]. apply IH; [exact S|].
    apply (upto_after_step (env' l) k k1 v1 L' (S l)). rewrite (U l k (kle_refl k)). exact E.
Qed.

Lemma mem_first_okW env l nd fw k v : sorted_env env ->
  first_okW env 1 (upto lim (from (r_start rg) (env l))) (IMem l rg nd fw k v).
Proof.
  intros Hs f Hf. destruct f as [|f]; [lia|]. cbn [it_first]. unfold mem_first. rewrite mem_find_ge_from.
  destruct (from (r_start rg) (env l)) as [|[k1 v1] r] eqn:A; simpl.
  - eexists; split; [reflexivity|apply (mem_invalid_tracksW env)].
  - fold lim. destruct (below_limit lim k1) eqn:BL; simpl.
    + eexists; split; [reflexivity|]. apply mem_tracksW; [exact Hs|]. f_equal.
      exact (from_step _ _ (k1, v1) r (Hs l) A).
    + eexists; split; [reflexivity|apply (mem_invalid_tracksW env)].
Qed.

(** ** LevelDB snapshot iterator: does not read the environment at all *)
Lemma store_eoi_tracksW env all cur : tracksW env 1 [] (IStore all cur EOI).
Proof.
  simpl. split; [split; reflexivity|]. intros env' _ f Hf. destruct f as [|f]; [lia|].
  eexists; split; [reflexivity|split; reflexivity].
Qed.

Lemma store_tracksW all : forall cur env, cur <> [] -> tracksW env 1 cur (IStore all cur SFwd).
Proof.
  induction cur as [|[k v] r IH]; intros env H; [congruence|]. simpl. split; [reflexivity|split; [reflexivity|]].
  intros env' _ f Hf. destruct f as [|f]; [lia|]. cbn [it_next store_next tl].
  destruct r as [|e r'].
  - eexists; split; [reflexivity|apply (store_eoi_tracksW env')].
  - eexists; split; [reflexivity|apply IH; discriminate].
Qed.

Lemma store_first_okW env all cur dir : first_okW env 1 all (IStore all cur dir).
Proof.
  intros f Hf. destruct f as [|f]; [lia|]. cbn [it_first]. unfold store_first.
  destruct all as [|e r] eqn:A.
  - eexists; split; [reflexivity|apply (store_eoi_tracksW env)].
  - eexists; split; [reflexivity|apply store_tracksW; discriminate].
Qed.

(** ** JoinIter *)

Definition side_okW (env : layer -> memdb) (B : nat) (flag : bool) (l : list kv) (it : iter) : Prop :=
  if flag then l = [] else tracksW env B l it.

Record jinvW (env : layer -> memdb) (B : nat) (lm lb : list kv) (back mem : iter) (k v : bytes) (o : origin) (me be : bool) : Prop := {
  jw_mem : side_okW env B me lm mem;
  jw_back : side_okW env B be lb back;
  jw_sm : ssorted lm;
  jw_sb : ssorted lb;
  jw_nm : nonempty_keys lm;
  jw_nb : nonempty_keys lb;
  jw_cur : cur_ok lm lb k v o me be
}.

Lemma side_okW_shift env env' B flag l it : side_okW env B flag l it -> compat env env' l -> side_okW env' B flag l it.
Proof. destruct flag; simpl; [auto|apply tracksW_shift]. Qed.

Lemma compat_tl_any env env' l : compat env env' l -> sorted_env env'.
Proof. intros [S _]; exact S. Qed.

Lemma adv_sideW env env' B f (go me : bool) lm mem :
  side_okW env B me lm mem -> compat env env' lm -> (B <= f)%nat -> (go = true -> me = false) ->
  exists mem1 rm,
    (if go && negb me then it_next env' f mem else (mem, RTrue)) = (mem1, rm) /\ rm <> RFuel /\
    (if go && negb me then ended rm else me) = (if go then nilb (tl lm) else me) /\
    side_okW env' B (if go then nilb (tl lm) else me) (if go then tl lm else lm) mem1.
Proof.
  intros Hs Hc Hf Hgo. destruct go; simpl.
  - rewrite (Hgo eq_refl) in *. simpl in *.
    destruct (tracksW_next env env' B lm mem f Hs Hc Hf) as (mem1 & E & T & _).
    exists mem1, (res_of (tl lm)). rewrite E. repeat split.
    + apply res_of_not_fuel.
    + apply ended_res_of.
    + unfold side_okW. destruct (tl lm); simpl in *; [reflexivity|exact T].
  - exists mem, RTrue. repeat split; [discriminate|]. eapply side_okW_shift; eauto.
Qed.

Lemma select_okW env B lm1 lb1 back1 mem1 o me1 be1 :
  side_okW env B me1 lm1 mem1 -> side_okW env B be1 lb1 back1 ->
  nonempty_keys lm1 -> nonempty_keys lb1 ->
  ~ (me1 = false /\ lm1 = [] /\ be1 = false /\ lb1 = []) ->
  exists k1 v1 o1 r, join_select back1 mem1 o me1 be1 = (IJoin back1 mem1 k1 v1 o1 me1 be1, r) /\
    ((r = RFalse /\ me1 = true /\ be1 = true /\ k1 = [] /\ v1 = []) \/
     (r = RTrue /\ cur_ok lm1 lb1 k1 v1 o1 me1 be1)).
Proof.
  intros Hm Hb Nm Nb Hex. unfold join_select. destruct be1, me1; simpl in Hm, Hb.
  - do 4 eexists; split; [reflexivity|]. left; repeat split.
  - do 4 eexists; split; [reflexivity|]. right; split; [reflexivity|].
    destruct (tracksW_key _ _ _ _ Hm) as [Ek Ev]. rewrite Ek, Ev. simpl. split; [reflexivity|].
    destruct lm1 as [|[km vm] lm']; simpl; [right; auto|]. left; exists lm'; subst lb1; simpl; auto.
  - do 4 eexists; split; [reflexivity|]. right; split; [reflexivity|].
    destruct (tracksW_key _ _ _ _ Hb) as [Ek Ev]. rewrite Ek, Ev. simpl. split; [reflexivity|].
    destruct lb1 as [|[kb vb] lb']; simpl; [right; auto|]. left; exists lb'; subst lm1; simpl; auto.
  - destruct (tracksW_key _ _ _ _ Hm) as [Ekm Evm]. destruct (tracksW_key _ _ _ _ Hb) as [Ekb Evb].
    rewrite Ekm, Ekb, Evm, Evb.
    destruct lm1 as [|[km vm] lm']; destruct lb1 as [|[kb vb] lb']; simpl.
    + exfalso; apply Hex; auto.
    + assert (Hk : kb <> []) by (apply (Nb (kb, vb)); left; reflexivity).
      destruct kb; [congruence|]. simpl.
      do 4 eexists; split; [reflexivity|]. right; split; [reflexivity|]. simpl. split; [reflexivity|]. right; auto.
    + assert (Hk : km <> []) by (apply (Nm (km, vm)); left; reflexivity).
      destruct km; [congruence|]. simpl.
      do 4 eexists; split; [reflexivity|]. right; split; [reflexivity|]. simpl. split; [reflexivity|]. right; auto.
    + destruct (bytes_cmp km kb) eqn:C.
      * apply cmp_eq in C; subst kb.
        do 4 eexists; split; [reflexivity|]. right; split; [reflexivity|]. simpl.
        split; [reflexivity|]. split; [reflexivity|]. exists lm', lb', vb; auto.
      * do 4 eexists; split; [reflexivity|]. right; split; [reflexivity|]. simpl.
        split; [reflexivity|]. left; exists lm'; auto.
      * do 4 eexists; split; [reflexivity|]. right; split; [reflexivity|]. simpl.
        split; [reflexivity|]. left; exists lb'; split; [reflexivity|]. simpl. apply cmp_lt_gt; exact C.
Qed.

Lemma side_flagW env B me lm mem : side_okW env B me lm mem -> me = true -> lm = [].
Proof. intros H ->; exact H. Qed.

(** JoinIter.next() run in a changed environment [env'] both sides are compatible with *)
Lemma join_stepW env env' B lm lb back mem k v o me be f :
  jinvW env B lm lb back mem k v o me be -> compat env env' lm -> compat env env' lb -> (B <= f)%nat ->
  exists back1 mem1 k1 v1 o1 me1 be1 r,
    join_next_raw (it_next env' f) back mem k v o me be = (IJoin back1 mem1 k1 v1 o1 me1 be1, r) /\
    ((r = RFalse /\ me1 = true /\ be1 = true /\ k1 = [] /\ v1 = [] /\
      (if origin_mem o then tl lm else lm) = [] /\ (if origin_back o then tl lb else lb) = []) \/
     (r = RTrue /\
      jinvW env' B (if origin_mem o then tl lm else lm) (if origin_back o then tl lb else lb) back1 mem1 k1 v1 o1 me1 be1 /\
      (mu (if origin_mem o then tl lm else lm) (if origin_back o then tl lb else lb) me1 be1 < mu lm lb me be)%nat)).
Proof.
  intros [Hm Hb Sm Sb Nm Nb Hc] Cm Cb Hf.
  set (lm1 := if origin_mem o then tl lm else lm). set (lb1 := if origin_back o then tl lb else lb).
  destruct (cur_ok_flags _ _ _ _ _ _ _ Hc) as [Fm Fb].
  destruct (adv_sideW env env' B f (origin_mem o) me lm mem Hm Cm Hf Fm) as (mem1 & rm & Em & Nfm & Eme & Hm1).
  destruct (adv_sideW env env' B f (origin_back o) be lb back Hb Cb Hf Fb) as (back1 & rb & Eb & Nfb & Ebe & Hb1).
  unfold join_next_raw. rewrite Em, Eb, Eme, Ebe.
  set (me1 := if origin_mem o then nilb (tl lm) else me) in *.
  set (be1 := if origin_back o then nilb (tl lb) else be) in *.
  fold lm1 in Hm1. fold lb1 in Hb1.
  assert (Nm1 : nonempty_keys lm1) by (unfold lm1; destruct (origin_mem o); auto using nonempty_keys_tl).
  assert (Nb1 : nonempty_keys lb1) by (unfold lb1; destruct (origin_back o); auto using nonempty_keys_tl).
  assert (Hex : ~ (me1 = false /\ lm1 = [] /\ be1 = false /\ lb1 = [])).
  { unfold me1, be1, lm1, lb1. intros (A1 & A2 & A3 & A4).
    destruct o; simpl in *.
    - rewrite A2 in A1; discriminate.
    - rewrite A4 in A3; discriminate.
    - rewrite A2 in A1; discriminate. }
  destruct (select_okW env' B lm1 lb1 back1 mem1 o me1 be1 Hm1 Hb1 Nm1 Nb1 Hex) as (k1 & v1 & o1 & r & Es & Hr).
  exists back1, mem1, k1, v1, o1, me1, be1, r.
  split.
  { destruct rm; try congruence; destruct rb; try congruence; exact Es. }
  destruct Hr as [(-> & M1 & B1 & -> & ->)|(-> & Hc1)].
  - left. repeat split; auto.
    + exact (side_flagW _ _ _ _ _ Hm1 M1).
    + exact (side_flagW _ _ _ _ _ Hb1 B1).
  - right. split; [reflexivity|]. split.
    + constructor; auto.
      * unfold lm1; destruct (origin_mem o); auto using ssorted_tl.
      * unfold lb1; destruct (origin_back o); auto using ssorted_tl.
    + apply (cur_mu lm lb k v o me be Hc); [exact (side_flagW _ _ _ _ _ Hm) | exact (side_flagW _ _ _ _ _ Hb)].
Qed.

Lemma join_final_tracksW env B' back mem o : (1 <= B')%nat -> tracksW env B' [] (IJoin back mem [] [] o true true).
Proof.
  intro HB. simpl. split; [split; reflexivity|]. intros env' _ f Hf. destruct f as [|f]; [lia|].
  cbn [it_next]. unfold join_next_raw. rewrite !andb_false_r. simpl.
  eexists; split; [reflexivity|split; reflexivity].
Qed.

(** when the current entry is a real one (non-empty value), a write unseen at its key is
    compatible with both sides *)
Lemma cur_ok_compat env env' lm lb k v o me be :
  cur_ok lm lb k v o me be -> is_empty v = false -> unseen k env env' ->
  compat env env' lm /\ compat env env' lb.
Proof.
  intros Hc Ev U. pose proof (proj1 U) as S.
  assert (Hd : forall l, head_lt k l -> compat env env' l).
  { intros l H; split; [exact S|]. destruct l as [|e r]; [congruence|]. intros _. simpl in *.
    eapply unseen_mono; [apply lt_kle; exact H|exact U]. }
  assert (Hs : forall v' r, compat env env' ((k, v') :: r)).
  { intros v' r; split; [exact S|]. intros _; exact U. }
  destruct o; simpl in Hc.
  - destruct Hc as [_ [(lm' & -> & H)|(_ & _ & ->)]]; [|discriminate]. split; [apply Hs|apply Hd; exact H].
  - destruct Hc as [_ [(lb' & -> & H)|(_ & _ & ->)]]; [|discriminate]. split; [apply Hd; exact H|apply Hs].
  - destruct Hc as (_ & _ & lm' & lb' & vb & -> & ->). split; apply Hs.
Qed.

Lemma join_mainW B : forall n env lm lb back mem k v o me be,
  (mu lm lb me be <= n)%nat -> jinvW env B lm lb back mem k v o me be -> sorted_env env ->
  forall B', (B + n + 1 <= B')%nat ->
  let rest := live (merge (if origin_mem o then tl lm else lm) (if origin_back o then tl lb else lb)) in
  (forall env', compat env env' lm -> compat env env' lb -> forall f, (B' <= f)%nat -> exists it',
      it_next env' f (IJoin back mem k v o me be) = (it', res_of rest) /\ tracksW env' B' rest it') /\
  (forall cnt f, (mu lm lb me be <= cnt)%nat -> (B <= f)%nat -> exists it',
      join_skip (it_next env f) cnt (IJoin back mem k v o me be) = (it', res_of (live (merge lm lb))) /\
      tracksW env B' (live (merge lm lb)) it').
Proof.
  induction n as [|n IH]; intros env lm lb back mem k v o me be Hmu Hj Senv B' HB rest.
  { pose proof (cur_ok_mu_pos _ _ _ _ _ _ _ (jw_cur _ _ _ _ _ _ _ _ _ _ _ Hj)). lia. }
  assert (HN : forall env', compat env env' lm -> compat env env' lb -> forall f, (B' <= f)%nat -> exists it',
      it_next env' f (IJoin back mem k v o me be) = (it', res_of rest) /\ tracksW env' B' rest it').
  { intros env' Cm Cb f Hf. destruct f as [|f]; [lia|]. cbn [it_next].
    assert (HfB : (B <= f)%nat) by lia.
    destruct (join_stepW env env' B lm lb back mem k v o me be f Hj Cm Cb HfB)
      as (back1 & mem1 & k1 & v1 & o1 & me1 & be1 & r & Es & Hr).
    rewrite Es.
    destruct Hr as [(-> & -> & -> & -> & -> & E1 & E2)|(-> & Hj1 & Hlt)].
    - unfold rest. rewrite E1, E2. simpl. eexists; split; [reflexivity|]. apply (join_final_tracksW env'); lia.
    - assert (Hle : (mu (if origin_mem o then tl lm else lm) (if origin_back o then tl lb else lb) me1 be1 <= n)%nat) by lia.
      assert (HB' : (B + n + 1 <= B')%nat) by lia.
      destruct (IH env' _ _ _ _ _ _ _ _ _ Hle Hj1 (proj1 Cm) B' HB') as [_ HL].
      assert (Hc1 : (mu (if origin_mem o then tl lm else lm) (if origin_back o then tl lb else lb) me1 be1 <= f)%nat) by lia.
      destruct (HL f f Hc1 HfB) as (it' & E & T). exists it'; split; [exact E|exact T]. }
  split; [exact HN|].
  intros cnt f Hcnt Hf. rewrite join_skip_eq. cbn [it_value].
  pose proof (cur_merge _ _ _ _ _ _ _ (jw_cur _ _ _ _ _ _ _ _ _ _ _ Hj)) as HM. fold rest in HM.
  destruct (is_empty v) eqn:Ev; cbn [negb].
  - simpl in HM. rewrite HM.
    pose proof (cur_ok_mu_pos _ _ _ _ _ _ _ (jw_cur _ _ _ _ _ _ _ _ _ _ _ Hj)) as Hpos.
    destruct cnt as [|cnt]; [lia|]. cbn [it_next_raw].
    assert (Cm : compat env env lm) by (split; [exact Senv|intros _; apply unseen_refl; exact Senv]).
    assert (Cb : compat env env lb) by (split; [exact Senv|intros _; apply unseen_refl; exact Senv]).
    destruct (join_stepW env env B lm lb back mem k v o me be f Hj Cm Cb Hf)
      as (back1 & mem1 & k1 & v1 & o1 & me1 & be1 & r & Es & Hr).
    rewrite Es.
    destruct Hr as [(-> & -> & -> & -> & -> & E1 & E2)|(-> & Hj1 & Hlt)].
    + unfold rest. rewrite E1, E2. simpl. eexists; split; [reflexivity|]. apply (join_final_tracksW env); lia.
    + assert (Hle : (mu (if origin_mem o then tl lm else lm) (if origin_back o then tl lb else lb) me1 be1 <= n)%nat) by lia.
      assert (HB' : (B + n + 1 <= B')%nat) by lia.
      destruct (IH env _ _ _ _ _ _ _ _ _ Hle Hj1 Senv B' HB') as [_ HL].
      assert (Hc1 : (mu (if origin_mem o then tl lm else lm) (if origin_back o then tl lb else lb) me1 be1 <= cnt)%nat) by lia.
      destruct (HL cnt f Hc1 Hf) as (it' & E & T). exists it'; split; [exact E|exact T].
  - rewrite HM. simpl. eexists; split; [reflexivity|].
    split; [reflexivity|split; [reflexivity|]]. intros env' U f' Hf'.
    destruct (cur_ok_compat env env' _ _ _ _ _ _ _ (jw_cur _ _ _ _ _ _ _ _ _ _ _ Hj) Ev U) as [Cm Cb].
    exact (HN env' Cm Cb f' Hf').
Qed.

Lemma join_first_okW env B Lm Lb mem back : sorted_env env ->
  first_okW env B Lm mem -> first_okW env B Lb back ->
  ssorted Lm -> ssorted Lb -> nonempty_keys Lm -> nonempty_keys Lb ->
  first_okW env (B + length Lm + length Lb + 4) (live (merge Lm Lb)) (new_join_iter mem back).
Proof.
  intros Senv Fm Fb Sm Sb Nm Nb f Hf. set (B' := (B + length Lm + length Lb + 4)%nat) in *.
  destruct f as [|f]; [lia|]. unfold new_join_iter. cbn [it_first].
  destruct (Fb f ltac:(lia)) as (back1 & Eb & Tb). destruct (Fm f ltac:(lia)) as (mem1 & Em & Tm).
  rewrite Eb, Em.
  destruct (tracksW_key _ _ _ _ Tm) as [Ekm Evm]. destruct (tracksW_key _ _ _ _ Tb) as [Ekb Evb].
  assert (Hgo : forall k v o, jinvW env B Lm Lb back1 mem1 k v o false false ->
            exists it', join_skip (it_next env f) f (IJoin back1 mem1 k v o false false)
                        = (it', res_of (live (merge Lm Lb))) /\ tracksW env B' (live (merge Lm Lb)) it').
  { intros k v o Hj.
    destruct (join_mainW B _ env _ _ _ _ _ _ _ _ _ (le_n _) Hj Senv B') as [_ HL]; [unfold mu, B'; lia|].
    apply HL; unfold mu; lia. }
  destruct Lm as [|[km vm] Lm']; destruct Lb as [|[kb vb] Lb']; unfold res_of; cbn [nilb].
  - unfold join_first_raw. simpl. eexists; split; [reflexivity|].
    assert (Hj : jinvW env B [] [] back1 mem1 [] [] FromMem false false).
    { constructor; simpl; auto. }
    destruct (join_mainW B _ env _ _ _ _ _ _ _ _ _ (le_n _) Hj Senv B') as [HN _]; [unfold mu, B'; simpl; lia|].
    split; [split; reflexivity|]. intros env' S' f' Hf'.
    assert (C0 : compat env env' []) by (split; [exact S'|congruence]).
    destruct (HN env' C0 C0 f' Hf') as (it' & E & T).
    simpl in E, T. exists it'; split; [exact E|apply T].
  - unfold join_first_raw. cbn [negb]. rewrite Ekb, Evb. simpl hd_key; simpl hd_val.
    apply Hgo. constructor; simpl; auto. split; [reflexivity|]. left; exists Lb'; simpl; auto.
  - unfold join_first_raw. rewrite Ekm, Evm. simpl hd_key; simpl hd_val.
    apply Hgo. constructor; simpl; auto. split; [reflexivity|]. left; exists Lm'; simpl; auto.
  - unfold join_first_raw. cbn [negb]. rewrite Ekm, Evm, Ekb, Evb. simpl hd_key; simpl hd_val.
    destruct (bytes_cmp km kb) eqn:C.
    + apply cmp_eq in C; subst kb. apply Hgo. constructor; simpl; auto.
      split; [reflexivity|]. split; [reflexivity|]. exists Lm', Lb', vb; auto.
    + apply Hgo. constructor; simpl; auto. split; [reflexivity|]. left; exists Lm'; auto.
    + apply Hgo. constructor; simpl; auto. split; [reflexivity|]. left; exists Lb'; split; [reflexivity|].
      simpl. apply cmp_lt_gt; exact C.
Qed.

End Live.

(** ** Which CacheDB writes are unseen *)

Lemma after_put_behind K V k m : ssorted m -> kle K k -> after k (mem_put K V m) = after k m.
Proof.
  intros Hs HK. induction m as [|[k' v'] r IH]; simpl.
  - rewrite (kle_ltb_false _ _ HK). reflexivity.
  - destruct Hs as [Hg Hs]. destruct (bytes_cmp K k') eqn:C; simpl.
    + apply cmp_eq in C; subst k'. rewrite (kle_ltb_false _ _ HK). reflexivity.
    + rewrite (kle_ltb_false _ _ HK). reflexivity.
    + assert (Hk' : bytes_ltb k k' = false).
      { apply kle_ltb_false. eapply kle_trans; [|exact HK]. apply lt_kle. apply cmp_lt_gt. exact C. }
      rewrite Hk'. apply IH; exact Hs.
Qed.

Lemma upto_put_beyond lim K V m : ssorted m -> below_limit lim K = false ->
  upto lim (mem_put K V m) = upto lim m.
Proof.
  intros Hs HK. induction m as [|[k' v'] r IH]; simpl.
  - rewrite HK. reflexivity.
  - destruct Hs as [Hg Hs]. destruct (bytes_cmp K k') eqn:C; simpl.
    + apply cmp_eq in C; subst k'. rewrite HK. reflexivity.
    + rewrite HK. destruct (below_limit lim k') eqn:B'; [|reflexivity].
      rewrite (below_mono lim K k' B' C) in HK. discriminate.
    + rewrite IH by exact Hs. reflexivity.
Qed.

Lemma upto_after_put_beyond lim K V k m : ssorted m -> below_limit lim K = false ->
  upto lim (after k (mem_put K V m)) = upto lim (after k m).
Proof.
  intros Hs HK. induction m as [|[k' v'] r IH]; simpl.
  - destruct (bytes_ltb k K); simpl; [rewrite HK|]; reflexivity.
  - destruct Hs as [Hg Hs]. destruct (bytes_cmp K k') eqn:C; simpl.
    + apply cmp_eq in C; subst k'. destruct (bytes_ltb k K); simpl; [rewrite HK|]; reflexivity.
    + assert (Bk' : below_limit lim k' = false).
      { destruct (below_limit lim k') eqn:B'; [|reflexivity]. rewrite (below_mono lim K k' B' C) in HK. discriminate. }
      destruct (bytes_ltb k K) eqn:L1; simpl.
      * rewrite HK. apply ltb_lt in L1. rewrite (proj2 (ltb_lt k k') (cmp_lt_trans _ _ _ L1 C)). simpl. rewrite Bk'. reflexivity.
      * reflexivity.
    + destruct (bytes_ltb k k') eqn:L1; simpl.
      * rewrite (upto_put_beyond lim K V r Hs HK). reflexivity.
      * apply IH; exact Hs.
Qed.

Definition wr_key (w : wr) : bytes := match w with WPut k _ => k | WDel k => k end.

(** a write the iterator of prefix [p], currently at the (prefixed) key [cur], cannot notice:
    at or behind [cur], or outside the prefix *)
Definition wr_behind (pfx : N) (p cur : bytes) (w : wr) : Prop :=
  let K := pkey pfx (wr_key w) in
  wf_bytes K = true /\ (kle K cur \/ has_prefix (pkey pfx p) K = false).

Lemma apply_wr_sorted pfx s w : sorted_state s -> sorted_state (apply_wr pfx s w).
Proof. destruct w; simpl; [apply cache_put_sorted | apply cache_delete_sorted]. Qed.

Lemma sorted_state_env s : sorted_state s -> sorted_env (env_of s).
Proof. intros (Hc & Ho & _) [|]; simpl; assumption. Qed.

Lemma apply_wr_unseen pfx p cur s w :
  sorted_state s -> wf_bytes cur = true -> has_prefix (pkey pfx p) cur = true -> wr_behind pfx p cur w ->
  unseen (bytes_prefix (pkey pfx p)) cur (env_of s) (env_of (apply_wr pfx s w)).
Proof.
  intros Hs Wc Hc [WK HK]. split; [apply sorted_state_env, apply_wr_sorted; exact Hs|].
  assert (G : forall V l k, kle cur k ->
            upto (prefix_limit (pkey pfx p)) (after k (env_of (cache_put pfx (wr_key w) V s) l)) =
            upto (prefix_limit (pkey pfx p)) (after k (env_of s l))).
  { intros V [|] k Hk; simpl; [|reflexivity].
    rewrite <- (in_range_prefix (pkey pfx p) _ WK) in HK. rewrite <- (in_range_prefix (pkey pfx p) _ Wc) in Hc.
    unfold in_range in HK, Hc. cbn [bytes_prefix r_start r_limit] in HK, Hc.
    apply andb_prop in Hc. destruct Hc as [Hc1 Hc2].
    assert (HK' : kle (pkey pfx (wr_key w)) cur \/ below_limit (prefix_limit (pkey pfx p)) (pkey pfx (wr_key w)) = false).
    { destruct HK as [HK|HK]; [left; exact HK|]. apply andb_false_iff in HK. destruct HK as [HK|HK]; [|right; exact HK].
      left. rewrite leb_alt in HK. apply negb_false_iff in HK. apply ltb_lt in HK.
      unfold kle. rewrite leb_alt in Hc1. apply negb_true_iff in Hc1.
      (* K < start <= cur *)
      destruct (bytes_cmp (pkey pfx (wr_key w)) cur) eqn:C; try discriminate.
      apply cmp_lt_gt in C. assert (X : bytes_cmp cur (pkey pfx p) = Lt) by (eapply cmp_lt_trans; eauto).
      apply ltb_lt in X. congruence. }
    destruct HK' as [HK'|HK'].
    - rewrite after_put_behind; [reflexivity|apply Hs|]. eapply kle_trans; eauto.
    - apply upto_after_put_beyond; [apply Hs|exact HK']. }
  destruct w as [kw vw|kw]; simpl; intros l k Hk; [apply (G vw)|apply (G [])]; exact Hk.
Qed.

Lemma apply_wrs_unseen pfx p cur : forall ws s,
  sorted_state s -> wf_bytes cur = true -> has_prefix (pkey pfx p) cur = true -> Forall (wr_behind pfx p cur) ws ->
  unseen (bytes_prefix (pkey pfx p)) cur (env_of s) (env_of (apply_wrs pfx s ws)) /\ sorted_state (apply_wrs pfx s ws).
Proof.
  unfold apply_wrs. induction ws as [|w r IH]; intros s Hs Wc Hc Hw; simpl.
  - split; [apply unseen_refl, sorted_state_env; exact Hs|exact Hs].
  - inversion Hw; subst. destruct (IH (apply_wr pfx s w) (apply_wr_sorted pfx s w Hs) Wc Hc H2) as [U S].
    split; [|exact S]. eapply unseen_trans; [apply apply_wr_unseen; eauto|exact U].
Qed.

(** ** The CacheDB iterator under unseen writes *)

Lemma cache_iter_first_okW pfx s p : sorted_state s ->
  first_okW (bytes_prefix (pkey pfx p)) (env_of s) (enough_fuel s)
    (kfilter (in_range (bytes_prefix (pkey pfx p))) (abs s)) (cache_new_iterator pfx s p).
Proof.
  intros Hs. pose proof Hs as (Hc & Ho & Hst). pose proof (sorted_state_env s Hs) as Senv.
  set (rg := bytes_prefix (pkey pfx p)). set (R := in_range rg).
  assert (Hne : forall k, R k = true -> k <> []) by (intro k; apply in_range_nonempty; discriminate).
  (* overlay level *)
  assert (Fo : first_okW rg (env_of s) (1 + length (kfilter R (st_overlay s)) + length (kfilter R (st_store s)) + 4)
                 (kfilter R (abs_block s)) (overlay_new_iterator s (pkey pfx p))).
  { assert (E : live (merge (kfilter R (st_overlay s)) (kfilter R (st_store s))) = kfilter R (abs_block s)).
    { change (apply_layer (kfilter R (st_overlay s)) (kfilter R (st_store s)) = kfilter R (abs_block s)).
      rewrite kfilter_apply_layer by auto. unfold abs_block. rewrite apply_layer_live_base by auto. reflexivity. }
    rewrite <- E. unfold overlay_new_iterator. apply join_first_okW; auto using kfilter_sorted, nonempty_keys_kfilter.
    - unfold new_mem_iter, R. rewrite <- (from_upto_filter rg (st_overlay s) Ho).
      apply (mem_first_okW rg (env_of s) LOverlay). exact Senv.
    - unfold new_store_iter. apply store_first_okW. }
  assert (E : live (merge (kfilter R (st_cache s)) (kfilter R (abs_block s))) = kfilter R (abs s)).
  { change (apply_layer (kfilter R (st_cache s)) (kfilter R (abs_block s)) = kfilter R (abs s)).
    rewrite kfilter_apply_layer by (auto using abs_block_sorted). reflexivity. }
  rewrite <- E. unfold cache_new_iterator.
  set (B := (1 + length (kfilter R (st_overlay s)) + length (kfilter R (st_store s)) + 4)%nat) in *.
  eapply first_okW_mono; [|apply (join_first_okW rg (env_of s) B); auto using kfilter_sorted, abs_block_sorted, nonempty_keys_kfilter].
  - pose proof (kfilter_length R (st_cache s)). pose proof (kfilter_length R (abs_block s)).
    pose proof (kfilter_length R (st_overlay s)). pose proof (kfilter_length R (st_store s)).
    pose proof (abs_block_length s). unfold enough_fuel, state_size, B. lia.
  - unfold new_mem_iter, R. rewrite <- (from_upto_filter rg (st_cache s) Hc).
    eapply first_okW_mono; [|apply (mem_first_okW rg (env_of s) LCache); exact Senv]. unfold B; lia.
Qed.

(** what an iteration that stops after [length steps] further Next calls yields *)
Fixpoint live_expect (L : list kv) (steps : list (list wr)) : list kv :=
  match L with
  | [] => []
  | e :: L' => match steps with [] => [e] | _ :: st' => e :: live_expect L' st' end
  end.

(** every write of step i is unseen at the i-th yielded key *)
Fixpoint steps_behind (pfx : N) (p : bytes) (L : list kv) (steps : list (list wr)) : Prop :=
  match L, steps with
  | e :: L', ws :: st' => Forall (wr_behind pfx p (fst e)) ws /\ steps_behind pfx p L' st'
  | _, _ => True
  end.

(** the CacheDB contents after the writes of the steps that ran *)
Fixpoint live_final (pfx : N) (s : state) (L : list kv) (steps : list (list wr)) : state :=
  match L, steps with
  | _ :: L', ws :: st' => live_final pfx (apply_wrs pfx s ws) L' st'
  | _, _ => s
  end.

Lemma live_drain_behind pfx p B : forall L s it fuel steps,
  sorted_state s -> tracksW (bytes_prefix (pkey pfx p)) (env_of s) B L it -> (B <= fuel)%nat ->
  (forall e, In e L -> wf_bytes (fst e) = true /\ has_prefix (pkey pfx p) (fst e) = true) ->
  steps_behind pfx p L steps ->
  live_drain pfx s fuel it (res_of L) steps = (strip_keys (live_expect L steps), true, live_final pfx s L steps).
Proof.
  induction L as [|e L' IH]; intros s it fuel steps Hs T Hf HL Hb.
  - destruct steps; reflexivity.
  - unfold res_of; cbn [nilb live_drain]. simpl in T. destruct T as (Ek & Ev & Hn).
    destruct steps as [|ws st'].
    + simpl. unfold cache_iter_key. rewrite Ek, Ev. reflexivity.
    + simpl in Hb. destruct Hb as [Hw Hb'].
      destruct (HL e (or_introl eq_refl)) as [We Pe].
      destruct (apply_wrs_unseen pfx p (fst e) ws s Hs We Pe Hw) as [U S1].
      destruct (Hn _ U (fuel + 2 * length ws)%nat ltac:(lia)) as (it' & E & T').
      cbn [live_expect live_final live_drain]. cbv zeta. rewrite E.
      rewrite (IH (apply_wrs pfx s ws) it' (fuel + 2 * length ws)%nat st' S1 T' ltac:(lia)
                  (fun x Hx => HL x (or_intror Hx)) Hb').
      unfold cache_iter_key. rewrite Ek, Ev. reflexivity.
Qed.

(** A CacheDB prefix iteration interleaved with writes that all land at or behind the iterator's
    current key, or outside its prefix, yields exactly the entries it would have yielded without
    them: the first [length steps + 1] entries of the listing taken at First (all of them if the
    listing is shorter), and ends in the state with those writes applied. *)
Theorem cache_live_behind pfx s p steps :
  sorted_state s -> keys_wf (st_cache s) -> keys_wf (st_overlay s) -> keys_wf (st_store s) ->
  steps_behind pfx p (with_prefix (pkey pfx p) (abs s)) steps ->
  cache_live_iterate pfx s p steps =
    (strip_keys (live_expect (with_prefix (pkey pfx p) (abs s)) steps), true,
     live_final pfx s (with_prefix (pkey pfx p) (abs s)) steps).
Proof.
  intros Hs Wc Wo Wst Hb. unfold cache_live_iterate.
  assert (Wabs : keys_wf (abs s)) by (apply (abs_keys (fun k => wf_bytes k = true)); auto).
  pose proof (cache_iter_first_okW pfx s p Hs) as F. unfold kfilter in F.
  rewrite (filter_range_prefix (pkey pfx p) (abs s) Wabs) in F.
  destruct (F (enough_fuel s) (le_n _)) as (it' & E & T). rewrite E.
  apply (live_drain_behind pfx p (enough_fuel s)); auto.
  intros e He. unfold with_prefix in He. apply filter_In in He. destruct He as [He1 He2].
  split; [apply Wabs; exact He1|exact He2].
Qed.
