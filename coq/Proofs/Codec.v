(** Proofs about the ZeroCopySource/Sink model (Model/Codec.v). *)
From Coq Require Import List Bool Arith NArith ZArith Lia ZifyN ZifyNat ZifyBool.
Import ListNotations.
From Ont Require Import Lib.Bytes Gen.CodecConsts Model.Codec.
Local Open Scope N_scope.
Open Scope bool_scope.
Ltac Zify.zify_post_hook ::= Z.to_euclidean_division_equations.

(** A source is well-formed when its offset is inside the buffer and the buffer is
    addressable by a uint64 (always true of a Go slice). *)
Definition src_ok (s : source) : Prop :=
  (off s <= length (buf s))%nat /\ N.of_nat (length (buf s)) < two64.

Lemma two64_val : two64 = 18446744073709551616. Proof. reflexivity. Qed.

(** ** NextBytes *)
Lemma next_bytes_spec s n :
  src_ok s ->
  let '(d, eof, s') := next_bytes s n in
  buf s' = buf s /\ (off s <= off s' <= length (buf s))%nat /\
  d = slice (buf s) (off s) (off s' - off s) /\
  (eof = false -> N.of_nat (off s') = N.of_nat (off s) + n) /\
  (eof = true -> N.of_nat (length (buf s)) < N.of_nat (off s) + n /\ off s' = length (buf s)).
Proof.
  intros [Hoff Hlen]. unfold next_bytes.
  destruct ((two64 <=? N.of_nat (off s) + n) || (N.of_nat (length (buf s)) <? N.of_nat (off s) + n)) eqn:E; cbn [buf off].
  - split; [reflexivity|]. split; [lia|]. split.
    { unfold slice. rewrite firstn_all2; [reflexivity|]. rewrite skipn_length; lia. }
    split; [discriminate|]. intros _. split; [|reflexivity].
    apply orb_true_iff in E; destruct E as [E|E]; [apply N.leb_le in E|apply N.ltb_lt in E]; lia.
  - apply orb_false_iff in E; destruct E as [E1 E2]. apply N.leb_gt in E1. apply N.ltb_ge in E2.
    split; [reflexivity|]. split; [lia|]. split.
    { f_equal. lia. }
    split; [intros _; lia|discriminate].
Qed.

Lemma next_bytes_exact pre mid post :
  N.of_nat (length (pre ++ mid ++ post)) < two64 ->
  next_bytes (mkSrc (pre ++ mid ++ post) (length pre)) (N.of_nat (length mid)) =
  (mid, false, mkSrc (pre ++ mid ++ post) (length pre + length mid)).
Proof.
  intro Hlen. unfold next_bytes; cbn [buf off].
  rewrite !app_length in *.
  destruct ((two64 <=? N.of_nat (length pre) + N.of_nat (length mid)) ||
            (N.of_nat (length pre + (length mid + length post)) <? N.of_nat (length pre) + N.of_nat (length mid))) eqn:E.
  - apply orb_true_iff in E; destruct E as [E|E]; [apply N.leb_le in E|apply N.ltb_lt in E]; lia.
  - rewrite Nat2N.id. rewrite slice_app_exact. repeat f_equal. lia.
Qed.

(** ** NextByte *)
Lemma next_byte_spec s :
  src_ok s ->
  let '(v, eof, s') := next_byte s in
  buf s' = buf s /\ (off s <= off s' <= length (buf s))%nat /\
  (eof = true -> off s' = off s /\ v = 0 /\ off s = length (buf s)) /\
  (eof = false -> off s' = S (off s) /\ slice (buf s) (off s) 1 = [v]).
Proof.
  intros [Hoff Hlen]. unfold next_byte.
  destruct (length (buf s) <=? off s)%nat eqn:E.
  - apply Nat.leb_le in E. repeat split; try lia; discriminate.
  - apply Nat.leb_gt in E. cbn [buf off]. repeat split; try lia; try discriminate.
    unfold slice. clear Hlen Hoff. revert E. generalize (off s) as o. generalize (buf s) as b.
    induction b as [|x xs IH]; intros o Ho; simpl in Ho; [lia|].
    destruct o as [|o]; [reflexivity|]. simpl. apply IH. lia.
Qed.

Lemma wf_nth b i : wf_bytes b = true -> nth i b 0 < 256.
Proof.
  revert i; induction b as [|x xs IH]; intros i H; destruct i; simpl; try lia.
  - apply andb_prop in H; destruct H as [H _]; unfold byte_ok in H; apply N.ltb_lt in H; exact H.
  - apply andb_prop in H; destruct H as [_ H]; apply IH; exact H.
Qed.

(** ** Safety of every read operation: the buffer is unchanged, the offset only moves forward and
    stays inside the buffer. *)
Definition step_safe (s s' : source) : Prop :=
  buf s' = buf s /\ (off s <= off s' <= length (buf s))%nat.

Lemma step_safe_ok s s' : src_ok s -> step_safe s s' -> src_ok s'.
Proof. intros [H1 H2] [E [H3 H4]]; unfold src_ok; rewrite E; split; [lia|exact H2]. Qed.

Lemma step_safe_trans s1 s2 s3 : step_safe s1 s2 -> step_safe s2 s3 -> step_safe s1 s3.
Proof. intros [E1 H1] [E2 H2]; unfold step_safe; rewrite E2, E1 in *; split; [reflexivity|lia]. Qed.

Lemma step_safe_refl s : src_ok s -> step_safe s s.
Proof. intros [H _]; unfold step_safe; split; [reflexivity|lia]. Qed.

Lemma next_bytes_safe s n : src_ok s -> step_safe s (snd (next_bytes s n)).
Proof.
  intro H. pose proof (next_bytes_spec s n H) as P. destruct (next_bytes s n) as [[d e] s'].
  destruct P as [E [B _]]. split; assumption.
Qed.

Lemma next_byte_safe s : src_ok s -> step_safe s (snd (next_byte s)).
Proof.
  intro H. pose proof (next_byte_spec s H) as P. destruct (next_byte s) as [[d e] s'].
  destruct P as [E [B _]]. split; assumption.
Qed.

Lemma next_uint_safe w s : src_ok s -> step_safe s (snd (next_uint w s)).
Proof.
  intro H. unfold next_uint. pose proof (next_bytes_safe s (N.of_nat w) H) as P.
  destruct (next_bytes s (N.of_nat w)) as [[d e] s']. destruct e; exact P.
Qed.

Lemma next_fixed_safe w s : src_ok s -> step_safe s (snd (next_fixed w s)).
Proof.
  intro H. unfold next_fixed. pose proof (next_bytes_safe s (N.of_nat w) H) as P.
  destruct (next_bytes s (N.of_nat w)) as [[d e] s']. destruct e; exact P.
Qed.

Lemma next_varuint_safe s : src_ok s -> step_safe s (snd (next_varuint s)).
Proof.
  intro H. unfold next_varuint.
  pose proof (next_byte_safe s H) as P1. destruct (next_byte s) as [[fb e] s1]. cbn [snd] in P1.
  destruct e; [exact P1|].
  assert (H1 : src_ok s1) by (eapply step_safe_ok; eassumption).
  assert (Hfin : forall w sz, step_safe s
     (snd (let '(v, e, s2) := next_uint w s1 in
           if e then (0, 0, false, true, s2) else (v, sz, negb (sz =? getVarUintSize v), false, s2)))).
  { intros w sz. pose proof (next_uint_safe w s1 H1) as P2.
    destruct (next_uint w s1) as [[v e] s2]. cbn [snd] in P2.
    destruct e; cbn [snd]; eapply step_safe_trans; eassumption. }
  destruct (fb =? 253); [apply Hfin|].
  destruct (fb =? 254); [apply Hfin|].
  destruct (fb =? 255); [apply Hfin|].
  exact P1.
Qed.

Lemma next_varbytes_safe s : src_ok s -> step_safe s (snd (next_varbytes s)).
Proof.
  intro H. unfold next_varbytes.
  pose proof (next_varuint_safe s H) as P1. destruct (next_varuint s) as [[[[c sz] irr] e] s1]. cbn [snd] in P1.
  destruct (0 <? c); [|exact P1].
  assert (H1 : src_ok s1) by (eapply step_safe_ok; eassumption).
  pose proof (next_bytes_safe s1 c H1) as P2. destruct (next_bytes s1 c) as [[d e'] s2]. cbn [snd] in *.
  eapply step_safe_trans; eassumption.
Qed.

Theorem run_rop_safe s o : src_ok s -> step_safe s (snd (run_rop s o)).
Proof.
  intro H. destruct o; cbn [run_rop].
  - pose proof (next_byte_safe s H) as P; destruct (next_byte s) as [[? ?] ?]; exact P.
  - unfold next_bool. pose proof (next_byte_safe s H) as P; destruct (next_byte s) as [[v ?] ?].
    destruct (v =? 0); [exact P|]. destruct (v =? 1); exact P.
  - pose proof (next_uint_safe UINT16_SIZE s H) as P; unfold next_uint16; destruct (next_uint UINT16_SIZE s) as [[? ?] ?]; exact P.
  - pose proof (next_uint_safe UINT32_SIZE s H) as P; unfold next_uint32; destruct (next_uint UINT32_SIZE s) as [[? ?] ?]; exact P.
  - pose proof (next_uint_safe UINT64_SIZE s H) as P; unfold next_uint64; destruct (next_uint UINT64_SIZE s) as [[? ?] ?]; exact P.
  - pose proof (next_uint_safe UINT16_SIZE s H) as P; unfold next_uint16; destruct (next_uint UINT16_SIZE s) as [[? ?] ?]; exact P.
  - pose proof (next_uint_safe UINT32_SIZE s H) as P; unfold next_uint32; destruct (next_uint UINT32_SIZE s) as [[? ?] ?]; exact P.
  - pose proof (next_uint_safe UINT64_SIZE s H) as P; unfold next_uint64; destruct (next_uint UINT64_SIZE s) as [[? ?] ?]; exact P.
  - pose proof (next_varuint_safe s H) as P; destruct (next_varuint s) as [[[[? ?] ?] ?] ?]; exact P.
  - pose proof (next_varbytes_safe s H) as P; destruct (next_varbytes s) as [[[[? ?] ?] ?] ?]; exact P.
  - pose proof (next_fixed_safe ADDR_LEN s H) as P; unfold next_address; destruct (next_fixed ADDR_LEN s) as [[? ?] ?]; exact P.
  - pose proof (next_fixed_safe UINT256_SIZE s H) as P; unfold next_hash; destruct (next_fixed UINT256_SIZE s) as [[? ?] ?]; exact P.
  - pose proof (next_fixed_safe I128_SIZE s H) as P; unfold next_i128; destruct (next_fixed I128_SIZE s) as [[? ?] ?]; exact P.
  - pose proof (next_bytes_safe s n H) as P; destruct (next_bytes s n) as [[? ?] ?]; exact P.
  - unfold skip. pose proof (next_bytes_safe s n H) as P; destruct (next_bytes s n) as [[? ?] ?]; exact P.
  - unfold read_varuint. pose proof (next_varuint_safe s H) as P; destruct (next_varuint s) as [[[[? ?] irr] e] ?].
    destruct irr; [exact P|]. destruct e; exact P.
  - unfold read_varbytes. pose proof (next_varbytes_safe s H) as P; destruct (next_varbytes s) as [[[[? ?] irr] e] ?].
    destruct irr; [exact P|]. destruct e; exact P.
Qed.

(** Every position reported while running any script over any buffer is inside the buffer and
    positions never decrease. *)
Fixpoint positions_ok (lo hi : N) (l : list (rres * N)) : Prop :=
  match l with
  | [] => True
  | (_, p) :: r => lo <= p <= hi /\ positions_ok p hi r
  end.

Theorem run_script_safe ops : forall s, src_ok s ->
  positions_ok (src_pos s) (N.of_nat (length (buf s))) (run_script s ops).
Proof.
  induction ops as [|o ops IH]; intros s H; cbn [run_script positions_ok]; [exact I|].
  pose proof (run_rop_safe s o H) as P. destruct (run_rop s o) as [v s']. cbn [snd] in P.
  cbn [positions_ok]. destruct P as [E B]. split.
  - unfold src_pos; lia.
  - assert (H' : src_ok s') by (eapply step_safe_ok; [exact H|split; assumption]).
    specialize (IH s' H'). rewrite E in IH. exact IH.
Qed.

Lemma src_new_ok b : N.of_nat (length b) < two64 -> src_ok (src_new b).
Proof. intro H; split; simpl; [lia|exact H]. Qed.

(** ** Round trip: what the sink wrote reads back identically at any position *)
Definition at_ (pre mid post : bytes) : source := mkSrc (pre ++ mid ++ post) (length pre).
Definition after_ (pre mid post : bytes) : source := mkSrc (pre ++ mid ++ post) (length pre + length mid).

Lemma at_shift pre x mid post : at_ (pre ++ [x]) mid post = mkSrc (pre ++ (x :: mid) ++ post) (S (length pre)).
Proof. unfold at_. rewrite app_length, <- app_assoc. simpl. f_equal. lia. Qed.

Lemma after_shift pre x mid post : after_ (pre ++ [x]) mid post = after_ pre (x :: mid) post.
Proof. unfold after_. rewrite app_length, <- app_assoc. simpl. f_equal. lia. Qed.

Lemma at_nil_after pre x post : at_ (pre ++ [x]) [] post = after_ pre [x] post.
Proof. unfold at_, after_. rewrite app_length, <- app_assoc. simpl. f_equal. Qed.

Lemma next_byte_exact pre x mid post :
  next_byte (at_ pre (x :: mid) post) = (x, false, at_ (pre ++ [x]) mid post).
Proof.
  rewrite at_shift. unfold next_byte, at_; cbn [buf off].
  replace (length (pre ++ (x :: mid) ++ post) <=? length pre)%nat with false.
  - simpl. rewrite nth_middle. reflexivity.
  - symmetry. apply Nat.leb_gt. rewrite app_length. simpl. lia.
Qed.

Lemma next_bytes_at pre mid post :
  N.of_nat (length (pre ++ mid ++ post)) < two64 ->
  next_bytes (at_ pre mid post) (N.of_nat (length mid)) = (mid, false, after_ pre mid post).
Proof. apply next_bytes_exact. Qed.

Lemma next_uint_at w v pre post :
  v < 256 ^ N.of_nat w ->
  N.of_nat (length (pre ++ le_encode w v ++ post)) < two64 ->
  next_uint w (at_ pre (le_encode w v) post) = (v, false, after_ pre (le_encode w v) post).
Proof.
  intros Hv Hlen. unfold next_uint.
  pose proof (next_bytes_at pre (le_encode w v) post Hlen) as E.
  rewrite le_encode_length in E at 1. rewrite E. rewrite le_decode_encode_small by exact Hv. reflexivity.
Qed.

Lemma getVarUintSize_cases v :
  (v < 253 /\ getVarUintSize v = 1) \/ (253 <= v <= 65535 /\ getVarUintSize v = 3) \/
  (65536 <= v <= 4294967295 /\ getVarUintSize v = 5) \/ (4294967296 <= v /\ getVarUintSize v = 9).
Proof.
  unfold getVarUintSize.
  destruct (v <? 253) eqn:E1; [apply N.ltb_lt in E1; left; lia|apply N.ltb_ge in E1].
  destruct (v <=? 65535) eqn:E2; [apply N.leb_le in E2; right; left; lia|apply N.leb_gt in E2].
  destruct (v <=? 4294967295) eqn:E3; [apply N.leb_le in E3; right; right; left; lia|apply N.leb_gt in E3].
  right; right; right; lia.
Qed.

Lemma write_varuint_cases v :
  (v < 253 /\ write_varuint v = [v]) \/ (253 <= v <= 65535 /\ write_varuint v = 253 :: le_encode 2 v) \/
  (65536 <= v <= 4294967295 /\ write_varuint v = 254 :: le_encode 4 v) \/
  (4294967296 <= v /\ write_varuint v = 255 :: le_encode 8 v).
Proof.
  unfold write_varuint.
  destruct (v <? 253) eqn:E1; [apply N.ltb_lt in E1; left; split; [lia|reflexivity]|apply N.ltb_ge in E1].
  destruct (v <=? 65535) eqn:E2; [apply N.leb_le in E2; right; left; split; [lia|reflexivity]|apply N.leb_gt in E2].
  destruct (v <=? 4294967295) eqn:E3; [apply N.leb_le in E3; right; right; left; split; [lia|reflexivity]|apply N.leb_gt in E3].
  right; right; right; split; [lia|reflexivity].
Qed.

(** The widths used by the varuint reader are the generated constants; the writer hard-codes
    2/4/8. The round trip needs them to agree. *)
Lemma widths : UINT16_SIZE = 2%nat /\ UINT32_SIZE = 4%nat /\ UINT64_SIZE = 8%nat.
Proof. repeat split; reflexivity. Qed.

Lemma next_varuint_at v pre post :
  v < two64 ->
  N.of_nat (length (pre ++ write_varuint v ++ post)) < two64 ->
  next_varuint (at_ pre (write_varuint v) post) =
  (v, varuint_size v, false, false, after_ pre (write_varuint v) post).
Proof.
  intros Hv Hlen. destruct widths as [W16 [W32 W64]].
  unfold varuint_size.
  destruct (write_varuint_cases v) as [[R E]|[[R E]|[[R E]|[R E]]]]; rewrite E in *; unfold next_varuint.
  - replace [v] with (v :: []) by reflexivity. rewrite next_byte_exact.
    replace (v =? 253) with false by (symmetry; apply N.eqb_neq; lia).
    replace (v =? 254) with false by (symmetry; apply N.eqb_neq; lia).
    replace (v =? 255) with false by (symmetry; apply N.eqb_neq; lia).
    destruct (getVarUintSize_cases v) as [[_ G]|[[? _]|[[? _]|[? _]]]]; try lia.
    rewrite G. simpl. rewrite at_nil_after. reflexivity.
  - rewrite next_byte_exact. cbn [N.eqb Pos.eqb]. unfold next_uint16. rewrite W16.
    rewrite next_uint_at.
    + destruct (getVarUintSize_cases v) as [[? _]|[[_ G]|[[? _]|[? _]]]]; try lia.
      rewrite G. rewrite after_shift. cbn [length]. rewrite le_encode_length. reflexivity.
    + change (256 ^ N.of_nat 2) with 65536. lia.
    + rewrite <- app_assoc. exact Hlen.
  - rewrite next_byte_exact. cbn [N.eqb Pos.eqb]. unfold next_uint32. rewrite W32.
    rewrite next_uint_at.
    + destruct (getVarUintSize_cases v) as [[? _]|[[? _]|[[_ G]|[? _]]]]; try lia.
      rewrite G. rewrite after_shift. cbn [length]. rewrite le_encode_length. reflexivity.
    + change (256 ^ N.of_nat 4) with 4294967296. lia.
    + rewrite <- app_assoc. exact Hlen.
  - rewrite next_byte_exact. cbn [N.eqb Pos.eqb]. unfold next_uint64. rewrite W64.
    rewrite next_uint_at.
    + destruct (getVarUintSize_cases v) as [[? _]|[[? _]|[[? _]|[_ G]]]]; try lia.
      rewrite G. rewrite after_shift. cbn [length]. rewrite le_encode_length. reflexivity.
    + change (256 ^ N.of_nat 8) with two64. exact Hv.
    + rewrite <- app_assoc. exact Hlen.
Qed.

Definition in_signed (w : nat) (z : Z) : bool :=
  let h := Z.of_N (256 ^ N.of_nat w / 2) in (Z.leb (- h) z) && (Z.ltb z h).

Definition wf_wop (o : wop) : bool :=
  match o with
  | WU8 v => v <? 256 | WBool _ => true
  | WU16 v => v <? 256 ^ N.of_nat UINT16_SIZE | WU32 v => v <? 256 ^ N.of_nat UINT32_SIZE
  | WU64 v => v <? 256 ^ N.of_nat UINT64_SIZE
  | WI16 z => in_signed UINT16_SIZE z | WI32 z => in_signed UINT32_SIZE z | WI64 z => in_signed UINT64_SIZE z
  | WVarUint v => v <? two64
  | WVarBytes _ => true | WRaw _ => true
  end.

Lemma signed_roundtrip w z : (0 < w)%nat -> in_signed w z = true ->
  of_signed w z < 256 ^ N.of_nat w /\ to_signed w (of_signed w z) = z.
Proof.
  intros Hw H. unfold in_signed in H. apply andb_prop in H; destruct H as [H1 H2].
  apply Z.leb_le in H1. apply Z.ltb_lt in H2.
  unfold of_signed, to_signed.
  set (m := 256 ^ N.of_nat w) in *.
  assert (Hm : 2 <= m /\ m mod 2 = 0).
  { unfold m. destruct w as [|w]; [lia|]. rewrite pow256_succ.
    assert (0 < 256 ^ N.of_nat w) by (apply N.neq_0_lt_0, N.pow_nonzero; discriminate). split; [lia|].
    rewrite N.mul_comm. replace 256 with (128 * 2) by reflexivity. rewrite N.mul_assoc. apply N.mod_mul. discriminate. }
  destruct Hm as [Hm2 Hmeven].
  assert (Hh : (Z.of_N (m / 2) * 2 = Z.of_N m)%Z) by lia.
  assert (Hz : (z mod Z.of_N m = if (z <? 0)%Z then z + Z.of_N m else z)%Z).
  { destruct (z <? 0)%Z eqn:Ez; [apply Z.ltb_lt in Ez|apply Z.ltb_ge in Ez].
    - rewrite <- (Z.mod_add z 1 (Z.of_N m)) by lia. rewrite Z.mul_1_l. apply Z.mod_small. lia.
    - apply Z.mod_small. lia. }
  rewrite Hz.
  destruct (z <? 0)%Z eqn:Ez; [apply Z.ltb_lt in Ez|apply Z.ltb_ge in Ez].
  - split; [lia|].
    destruct (Z.to_N (z + Z.of_N m) <? m / 2) eqn:E; [apply N.ltb_lt in E|apply N.ltb_ge in E]; lia.
  - split; [lia|].
    destruct (Z.to_N z <? m / 2) eqn:E; [apply N.ltb_lt in E|apply N.ltb_ge in E]; lia.
Qed.

Theorem readback_ok o pre post :
  wf_wop o = true ->
  N.of_nat (length (pre ++ run_wop o ++ post)) < two64 ->
  run_rop (at_ pre (run_wop o) post) (fst (readback o)) = (snd (readback o), after_ pre (run_wop o) post).
Proof.
  intros Hwf Hlen. destruct o; cbn [run_wop readback fst snd run_rop wf_wop] in *.
  - (* u8 *) apply N.ltb_lt in Hwf. unfold write_uint8. rewrite N.mod_small by exact Hwf.
    rewrite next_byte_exact, at_nil_after. reflexivity.
  - (* bool *) unfold next_bool, write_bool. rewrite next_byte_exact, at_nil_after. destruct b; reflexivity.
  - apply N.ltb_lt in Hwf. unfold next_uint16, write_uint16 in *. rewrite next_uint_at by assumption. reflexivity.
  - apply N.ltb_lt in Hwf. unfold next_uint32, write_uint32 in *. rewrite next_uint_at by assumption. reflexivity.
  - apply N.ltb_lt in Hwf. unfold next_uint64, write_uint64 in *. rewrite next_uint_at by assumption. reflexivity.
  - destruct (signed_roundtrip UINT16_SIZE z ltac:(unfold UINT16_SIZE; lia) Hwf) as [B R].
    unfold next_uint16, write_uint16 in *. rewrite next_uint_at by assumption. rewrite R. reflexivity.
  - destruct (signed_roundtrip UINT32_SIZE z ltac:(unfold UINT32_SIZE; lia) Hwf) as [B R].
    unfold next_uint32, write_uint32 in *. rewrite next_uint_at by assumption. rewrite R. reflexivity.
  - destruct (signed_roundtrip UINT64_SIZE z ltac:(unfold UINT64_SIZE; lia) Hwf) as [B R].
    unfold next_uint64, write_uint64 in *. rewrite next_uint_at by assumption. rewrite R. reflexivity.
  - apply N.ltb_lt in Hwf. rewrite next_varuint_at by assumption. reflexivity.
  - (* varbytes *)
    unfold next_varbytes, write_varbytes in *.
    set (n := N.of_nat (length d)) in *.
    assert (Hn : n < two64).
    { unfold n. rewrite !app_length in Hlen. lia. }
    assert (E : at_ pre (write_varuint n ++ d) post = at_ pre (write_varuint n) (d ++ post)).
    { unfold at_. rewrite <- app_assoc. reflexivity. }
    rewrite E. rewrite next_varuint_at; [|exact Hn|rewrite <- app_assoc in Hlen; exact Hlen].
    assert (E2 : after_ pre (write_varuint n) (d ++ post) = at_ (pre ++ write_varuint n) d post).
    { unfold after_, at_. rewrite app_length, <- app_assoc. reflexivity. }
    assert (E3 : after_ (pre ++ write_varuint n) d post = after_ pre (write_varuint n ++ d) post).
    { unfold after_. rewrite !app_length, <- !app_assoc. f_equal. lia. }
    destruct (0 <? n) eqn:Z0.
    + rewrite E2. unfold n. rewrite next_bytes_at.
      * unfold n in E3. rewrite E3. reflexivity.
      * rewrite <- !app_assoc in *. exact Hlen.
    + apply N.ltb_ge in Z0. assert (d = []) by (destruct d; [reflexivity|unfold n in Z0; simpl in Z0; lia]). subst d.
      rewrite E2, <- E3. unfold at_, after_. simpl. rewrite Nat.add_0_r. reflexivity.
  - (* raw *) rewrite next_bytes_at by exact Hlen. reflexivity.
Qed.

(** ** Canonicity of variable-length integers *)
Lemma skipn_add {A} (a b : nat) (l : list A) : skipn a (skipn b l) = skipn (b + a) l.
Proof.
  revert l; induction b as [|b IH]; intro l; [reflexivity|].
  destruct l as [|x l]; [destruct a; reflexivity|]. simpl. apply IH.
Qed.

Lemma firstn_add {A} (a c : nat) (l : list A) : firstn (a + c) l = firstn a l ++ firstn c (skipn a l).
Proof.
  revert l; induction a as [|a IH]; intro l; [reflexivity|].
  destruct l as [|x l]; [destruct c; reflexivity|]. simpl. f_equal. apply IH.
Qed.

Lemma slice_split b o a c : slice b o (a + c) = slice b o a ++ slice b (o + a) c.
Proof. unfold slice. rewrite firstn_add, skipn_add. reflexivity. Qed.

Lemma next_uint_spec w s v s' :
  src_ok s -> wf_bytes (buf s) = true -> next_uint w s = (v, false, s') ->
  off s' = (off s + w)%nat /\ buf s' = buf s /\ (off s' <= length (buf s))%nat /\
  v < 256 ^ N.of_nat w /\ le_encode w v = slice (buf s) (off s) w.
Proof.
  intros Hok Hwf E. unfold next_uint in E.
  pose proof (next_bytes_spec s (N.of_nat w) Hok) as P.
  destruct (next_bytes s (N.of_nat w)) as [[d e] s1].
  destruct e; [discriminate|]. inversion E; subst; clear E.
  destruct P as [Eb [Bd [Ed [Hn _]]]]. specialize (Hn eq_refl).
  assert (Ho : off s' = (off s + w)%nat) by lia.
  rewrite Ho in Ed. replace (off s + w - off s)%nat with w in Ed by lia.
  assert (Hl : length d = w) by (rewrite Ed; apply slice_length; lia).
  assert (Hwd : wf_bytes d = true) by (rewrite Ed; apply wf_slice; exact Hwf).
  repeat split; try assumption; try lia.
  - rewrite <- Hl. apply le_decode_bound; exact Hwd.
  - rewrite <- Ed, <- Hl. apply le_encode_decode; exact Hwd.
Qed.

Lemma write_varuint_length v :
  length (write_varuint v) = N.to_nat (getVarUintSize v).
Proof.
  destruct (write_varuint_cases v) as [[R E]|[[R E]|[[R E]|[R E]]]]; rewrite E;
  destruct (getVarUintSize_cases v) as [[R' G]|[[R' G]|[[R' G]|[R' G]]]]; try lia; rewrite G;
  cbn [length]; rewrite ?le_encode_length; reflexivity.
Qed.

Theorem varuint_canonical s v sz irr s' :
  src_ok s -> wf_bytes (buf s) = true ->
  next_varuint s = (v, sz, irr, false, s') ->
  let consumed := slice (buf s) (off s) (off s' - off s) in
  N.of_nat (length consumed) = sz /\ v < two64 /\ (irr = false <-> consumed = write_varuint v).
Proof.
  intros Hok Hwf E consumed. destruct widths as [W16 [W32 W64]].
  unfold next_varuint in E.
  pose proof (next_byte_spec s Hok) as P. destruct (next_byte s) as [[fb e] s1].
  destruct e; [discriminate|].
  destruct P as [Eb1 [Bd1 [_ P]]]. destruct (P eq_refl) as [Ho1 Hs1]. clear P.
  assert (Hok1 : src_ok s1) by (destruct Hok; split; rewrite Eb1; [lia|assumption]).
  assert (Hwf1 : wf_bytes (buf s1) = true) by (rewrite Eb1; exact Hwf).
  assert (Hfb : fb < 256).
  { assert (W : wf_bytes [fb] = true) by (rewrite <- Hs1; apply wf_slice; exact Hwf).
    simpl in W. rewrite andb_true_r in W. apply N.ltb_lt in W. exact W. }
  (* common tail for the three prefixed forms *)
  assert (Tail : forall w tag sz0,
     (0 < w)%nat ->
     (let '(v0, e0, s2) := next_uint w s1 in
      if e0 then (0, 0, false, true, s2) else (v0, sz0, negb (sz0 =? getVarUintSize v0), false, s2))
       = (v, sz, irr, false, s') ->
     fb = tag -> sz0 = N.of_nat (S w) -> 256 ^ N.of_nat w <= two64 ->
     (forall x, x < 256 ^ N.of_nat w -> getVarUintSize x = sz0 -> write_varuint x = tag :: le_encode w x) ->
     N.of_nat (length consumed) = sz /\ v < two64 /\ (irr = false <-> consumed = write_varuint v)).
  { intros w tag sz0 Hw E2 Htag Hsz Hpow Hwr.
    destruct (next_uint w s1) as [[v0 e0] s2] eqn:EU. destruct e0; [discriminate|].
    inversion E2; subst v0 sz irr s2; clear E2.
    destruct (next_uint_spec w s1 v s' Hok1 Hwf1 EU) as [Ho2 [Eb2 [Bd2 [Hv Henc]]]].
    assert (Hc : consumed = tag :: le_encode w v).
    { unfold consumed. replace (off s' - off s)%nat with (1 + w)%nat by lia.
      rewrite slice_split, Hs1, Henc, Eb1, Ho1, Htag. replace (off s + 1)%nat with (S (off s)) by lia. reflexivity. }
    rewrite Hc. split; [cbn [length]; rewrite le_encode_length; lia|]. split; [lia|].
    split.
    - intro Hirr. apply negb_false_iff, N.eqb_eq in Hirr. symmetry. apply Hwr; [exact Hv|symmetry; exact Hirr].
    - intro Heq. apply negb_false_iff, N.eqb_eq.
      assert (L : length (write_varuint v) = S w) by (rewrite <- Heq; cbn [length]; rewrite le_encode_length; reflexivity).
      rewrite write_varuint_length in L. lia. }
  destruct (fb =? 253) eqn:T1.
  { apply N.eqb_eq in T1. unfold next_uint16 in E. rewrite W16 in E.
    apply (Tail 2%nat 253 3); try assumption; try reflexivity; try lia.
    - change (256 ^ N.of_nat 2) with 65536. unfold two64. lia.
    - intros x Hx G. destruct (write_varuint_cases x) as [[R W]|[[R W]|[[R W]|[R W]]]];
      destruct (getVarUintSize_cases x) as [[R' G']|[[R' G']|[[R' G']|[R' G']]]]; try lia; exact W. }
  destruct (fb =? 254) eqn:T2.
  { apply N.eqb_eq in T2. unfold next_uint32 in E. rewrite W32 in E.
    apply (Tail 4%nat 254 5); try assumption; try reflexivity; try lia.
    - change (256 ^ N.of_nat 4) with 4294967296. unfold two64. lia.
    - intros x Hx G. destruct (write_varuint_cases x) as [[R W]|[[R W]|[[R W]|[R W]]]];
      destruct (getVarUintSize_cases x) as [[R' G']|[[R' G']|[[R' G']|[R' G']]]]; try lia; exact W. }
  destruct (fb =? 255) eqn:T3.
  { apply N.eqb_eq in T3. unfold next_uint64 in E. rewrite W64 in E.
    apply (Tail 8%nat 255 9); try assumption; try reflexivity; try lia.
    intros x Hx G. destruct (write_varuint_cases x) as [[R W]|[[R W]|[[R W]|[R W]]]];
      destruct (getVarUintSize_cases x) as [[R' G']|[[R' G']|[[R' G']|[R' G']]]]; try lia; exact W. }
  apply N.eqb_neq in T1, T2, T3.
  inversion E; subst v sz irr s1; clear E.
  assert (Hc : consumed = [fb]).
  { unfold consumed. replace (off s' - off s)%nat with 1%nat by lia. exact Hs1. }
  rewrite Hc. split; [reflexivity|]. split; [unfold two64; lia|].
  destruct (write_varuint_cases fb) as [[R W]|[[R W]|[[R W]|[R W]]]]; try lia.
  destruct (getVarUintSize_cases fb) as [[R' G']|[[R' G']|[[R' G']|[R' G']]]]; try lia.
  rewrite W, G'. split; reflexivity.
Qed.

(** ** common/serialization (reader-based) round trips *)
Lemma ser_read_uint_exact w v rest :
  v < 256 ^ N.of_nat w -> ser_read_uint w (le_encode w v ++ rest) = inl (v, rest).
Proof.
  intro Hv. unfold ser_read_uint, ser_take.
  rewrite app_length, le_encode_length.
  replace (w <=? w + length rest)%nat with true by (symmetry; apply Nat.leb_le; lia).
  pose proof (le_encode_length w v) as L.
  rewrite firstn_app, skipn_app, L, Nat.sub_diag. simpl.
  rewrite <- L at 1. rewrite firstn_all, app_nil_r.
  rewrite <- L at 2. rewrite skipn_all. simpl.
  rewrite le_decode_encode_small by exact Hv. reflexivity.
Qed.

Theorem ser_varuint_roundtrip v rest :
  v < two64 -> ser_read_varuint (ser_write_varuint v ++ rest) 0 = inl (v, rest).
Proof.
  intro Hv. unfold ser_write_varuint, ser_read_varuint.
  replace (if 0 =? 0 then two64 - 1 else 0) with (two64 - 1) by reflexivity.
  assert (Hmax : (two64 - 1 <? v) = false) by (apply N.ltb_ge; unfold two64 in *; lia).
  destruct (write_varuint_cases v) as [[R E]|[[R E]|[[R E]|[R E]]]]; rewrite E; cbn [app].
  - replace (v =? 253) with false by (symmetry; apply N.eqb_neq; lia).
    replace (v =? 254) with false by (symmetry; apply N.eqb_neq; lia).
    replace (v =? 255) with false by (symmetry; apply N.eqb_neq; lia).
    rewrite Hmax. reflexivity.
  - cbn [N.eqb Pos.eqb]. rewrite ser_read_uint_exact; [rewrite Hmax; reflexivity|].
    change (256 ^ N.of_nat 2) with 65536. lia.
  - cbn [N.eqb Pos.eqb]. rewrite ser_read_uint_exact; [rewrite Hmax; reflexivity|].
    change (256 ^ N.of_nat 4) with 4294967296. lia.
  - cbn [N.eqb Pos.eqb]. rewrite ser_read_uint_exact; [rewrite Hmax; reflexivity|].
    change (256 ^ N.of_nat 8) with two64. exact Hv.
Qed.

Theorem ser_varbytes_roundtrip d rest :
  N.of_nat (length d) < two64 -> ser_read_varbytes (ser_write_varbytes d ++ rest) = inl (d, rest).
Proof.
  intro Hl. unfold ser_write_varbytes, write_varbytes, ser_read_varbytes.
  rewrite <- app_assoc. rewrite ser_varuint_roundtrip by exact Hl.
  rewrite app_length.
  replace (N.of_nat (length d) <=? N.of_nat (length d + length rest)) with true by (symmetry; apply N.leb_le; lia).
  rewrite Nat2N.id. rewrite firstn_app, skipn_app, Nat.sub_diag, firstn_all, skipn_all. simpl.
  rewrite app_nil_r. reflexivity.
Qed.

(** Prefix freeness of the variable-length forms of common/serialization: a stream of encodings
    splits in one way only (consequence of the round trips). *)
Lemma ser_varuint_prefix_free (v1 v2 : N) (r1 r2 : bytes) :
  v1 < two64 -> v2 < two64 ->
  ser_write_varuint v1 ++ r1 = ser_write_varuint v2 ++ r2 -> v1 = v2 /\ r1 = r2.
Proof.
  intros H1 H2 E. pose proof (ser_varuint_roundtrip v1 r1 H1) as R1.
  rewrite E, (ser_varuint_roundtrip v2 r2 H2) in R1. injection R1 as -> ->. split; reflexivity.
Qed.

Lemma ser_varbytes_prefix_free (d1 d2 r1 r2 : bytes) :
  N.of_nat (length d1) < two64 -> N.of_nat (length d2) < two64 ->
  ser_write_varbytes d1 ++ r1 = ser_write_varbytes d2 ++ r2 -> d1 = d2 /\ r1 = r2.
Proof.
  intros H1 H2 E. pose proof (ser_varbytes_roundtrip d1 r1 H1) as R1.
  rewrite E, (ser_varbytes_roundtrip d2 r2 H2) in R1. injection R1 as -> ->. split; reflexivity.
Qed.
