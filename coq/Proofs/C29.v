(** Proofs about Model.Participants (VBFT participant selection). *)
From Coq Require Import List Bool Arith NArith ZArith Lia ZifyN ZifyNat ZifyBool.
Import ListNotations.
From Ont Require Import Gen.ParticipantFormulas Model.Participants.
Ltac Zify.zify_post_hook ::= Z.to_euclidean_division_equations.
Local Open Scope Z_scope.

(* ---------- list helpers ---------- *)

Definition cnt (x : N) (l : list N) : nat := count_occ N.eq_dec l x.

Lemma cnt_app x a b : cnt x (a ++ b) = (cnt x a + cnt x b)%nat.
Proof. apply count_occ_app. Qed.

Lemma cnt_firstn x n l : (cnt x (firstn n l) <= cnt x l)%nat.
Proof. rewrite <- (firstn_skipn n l) at 2. rewrite cnt_app. lia. Qed.

Lemma cnt_skipn x n l : (cnt x (skipn n l) <= cnt x l)%nat.
Proof. rewrite <- (firstn_skipn n l) at 2. rewrite cnt_app. lia. Qed.

Lemma cnt_rev x l : cnt x (rev l) = cnt x l.
Proof.
  induction l as [|a l IH]; [reflexivity|].
  cbn [rev]. rewrite cnt_app, IH. unfold cnt. cbn [count_occ].
  destruct (N.eq_dec a x); lia.
Qed.

Lemma nodup_cnt l : NoDup l <-> forall x, (cnt x l <= 1)%nat.
Proof. apply NoDup_count_occ. Qed.

Lemma in_cnt x l : In x l <-> (0 < cnt x l)%nat.
Proof. unfold cnt. rewrite (count_occ_In N.eq_dec). lia. Qed.

(** A list whose every element occurs at most as often as in a duplicate-free list is
    duplicate-free and included in it. *)
Lemma cnt_le_nodup l big : NoDup big -> (forall x, (cnt x l <= cnt x big)%nat) -> NoDup l /\ incl l big.
Proof.
  intros Hnd Hle. split.
  - apply nodup_cnt. intro x. pose proof (proj1 (nodup_cnt big) Hnd x). specialize (Hle x). lia.
  - intros x Hx. apply in_cnt. apply in_cnt in Hx. specialize (Hle x). lia.
Qed.

Lemma skipn_add {A} (a b : nat) (l : list A) : skipn (a + b) l = skipn b (skipn a l).
Proof.
  revert l; induction a as [|a IH]; intro l; [reflexivity|].
  destruct l as [|x l]; [cbn; rewrite skipn_nil; reflexivity|]. cbn. apply IH.
Qed.

Lemma mem_true x l : mem x l = true <-> In x l.
Proof.
  unfold mem. rewrite existsb_exists. split.
  - intros [y [Hy He]]. apply N.eqb_eq in He. subst; exact Hy.
  - intro H; exists x; split; [exact H|apply N.eqb_refl].
Qed.

Lemma mem_false x l : mem x l = false <-> ~ In x l.
Proof.
  rewrite <- mem_true. destruct (mem x l); split; intros; try discriminate; try reflexivity; try tauto.
Qed.

Lemma NoDup_snoc (x : N) l : NoDup l -> ~ In x l -> NoDup (l ++ [x]).
Proof.
  intros Hnd Hx. apply nodup_cnt. intro y. rewrite cnt_app.
  pose proof (proj1 (nodup_cnt l) Hnd y) as Hy.
  unfold cnt at 2. cbn [count_occ]. destruct (N.eq_dec x y) as [-> | ]; [|lia].
  assert (cnt y l = 0%nat); [|lia].
  destruct (cnt y l) eqn:E; [reflexivity|]. exfalso; apply Hx; apply in_cnt; lia.
Qed.

(* ---------- calcParticipant ---------- *)

(** Whatever the seed, calcParticipant yields the limit marker or an entry of the table. *)
Lemma calc_participant_in vrf table k id :
  calc_participant vrf table k = CpPeer id -> id = MaxUint32 \/ In id table.
Proof.
  unfold calc_participant. cbv zeta.
  destruct (Z.of_N k >=? cp_klimit); [intro H; inversion H; left; reflexivity|].
  destruct (Z.of_nat (length table) mod two32 =? 0) eqn:E; [discriminate|].
  intro H; inversion H; clear H. right. apply nth_In.
  match goal with |- (Z.to_nat (cp_vmod ?v _) < _)%nat => set (vv := v) end.
  assert (Hv : 0 <= vv) by (apply Z.mod_pos_bound; reflexivity). clearbody vv.
  assert (Hm : 0 <= Z.of_nat (length table) mod two32) by (apply Z.mod_pos_bound; reflexivity).
  assert (Hle : Z.of_nat (length table) mod two32 <= Z.of_nat (length table))
    by (apply Z.mod_le; [apply Nat2Z.is_nonneg|reflexivity]).
  unfold cp_vmod. fold two32.
  apply Z.eqb_neq in E.
  set (m := Z.of_nat (length table) mod two32) in *. clearbody m.
  assert (Hm0 : 0 < m) by (clear - Hm E; lia).
  pose proof (Z.rem_bound_pos vv m Hv Hm0) as Hr.
  apply Nat2Z.inj_lt. rewrite Z2Nat.id by (apply Hr).
  eapply Z.lt_le_trans; [apply Hr|exact Hle].
Qed.

Lemma calc_participant_no_panic vrf table k :
  (0 < length table)%nat -> Z.of_nat (length table) < two32 ->
  exists id, calc_participant vrf table k = CpPeer id.
Proof.
  intros Hpos Hlt. unfold calc_participant. cbv zeta.
  destruct (Z.of_N k >=? cp_klimit); [eexists; reflexivity|].
  rewrite (Z.mod_small (Z.of_nat (length table)) two32) by lia.
  destruct (Z.of_nat (length table) =? 0) eqn:E; [lia|]. eexists; reflexivity.
Qed.

(* ---------- step 1 ---------- *)

Lemma select_loop_inv vrf table c n : forall rem i peers r,
  select_loop vrf table c n rem i peers = Some r -> NoDup peers ->
  NoDup r /\ incl peers r /\ (forall x, In x r -> In x peers \/ In x table).
Proof.
  induction rem as [|rem IH]; intros i peers r H Hnd; cbn [select_loop] in H.
  - inversion H; subst. repeat split; auto using incl_refl.
  - destruct (calc_participant vrf table (N.of_nat i mod 4294967296)) as [id|] eqn:Ecp; [|discriminate].
    apply calc_participant_in in Ecp.
    destruct (id =? MaxUint32)%N eqn:Emax.
    { inversion H; subst. repeat split; auto using incl_refl. }
    assert (Hin : In id table) by (destruct Ecp as [-> | ]; [rewrite N.eqb_refl in Emax; discriminate|assumption]).
    destruct (mem id peers) eqn:Emem.
    { apply IH in H; assumption. }
    apply mem_false in Emem.
    assert (Hnd' : NoDup (peers ++ [id])) by (apply NoDup_snoc; assumption).
    assert (Hmem' : forall x, In x (peers ++ [id]) -> In x peers \/ In x table).
    { intros x Hx. apply in_app_or in Hx. destruct Hx as [Hx|[<-|[]]]; auto. }
    match type of H with (if ?b then _ else _) = _ => destruct b end.
    + inversion H; subst. repeat split; auto. apply incl_appl, incl_refl.
    + apply IH in H; [|assumption]. destruct H as [H1 [H2 H3]]. repeat split; auto.
      * intros x Hx. apply H2. apply in_or_app; left; exact Hx.
      * intros x Hx. apply H3 in Hx. destruct Hx as [Hx|Hx]; auto.
Qed.

Lemma select_loop_no_panic vrf table c n : Z.of_nat (length table) < two32 ->
  forall rem i peers, (rem <= length table)%nat ->
  exists r, select_loop vrf table c n rem i peers = Some r.
Proof.
  intros Hlt. induction rem as [|rem IH]; intros i peers Hrem; cbn [select_loop].
  - eexists; reflexivity.
  - destruct (calc_participant_no_panic vrf table (N.of_nat i mod 4294967296)%N ltac:(lia) Hlt) as [id ->].
    destruct (id =? MaxUint32)%N; [eexists; reflexivity|].
    destruct (mem id peers); [apply IH; lia|].
    match goal with |- exists r, (if ?b then _ else _) = _ => destruct b end;
      [eexists; reflexivity|apply IH; lia].
Qed.

(* ---------- step 2 ---------- *)

Lemma fill_loop_spec c : forall ps peers, NoDup peers ->
  NoDup (fill_loop c ps peers) /\ incl peers (fill_loop c ps peers) /\
  (forall x, In x (fill_loop c ps peers) -> In x peers \/ In x ps) /\
  (Z.of_nat (length (fill_loop c ps peers)) > fill_break c \/ incl ps (fill_loop c ps peers)).
Proof.
  induction ps as [|p ps IH]; intros peers Hnd; cbn [fill_loop].
  - repeat split; auto using incl_refl. right; intros x [].
  - set (peers' := if mem p peers then peers else peers ++ [p]).
    assert (Hnd' : NoDup peers').
    { unfold peers'. destruct (mem p peers) eqn:E; [assumption|]. apply NoDup_snoc; [assumption|]. apply mem_false; exact E. }
    assert (Hincl : incl peers peers').
    { unfold peers'. destruct (mem p peers); [apply incl_refl|apply incl_appl, incl_refl]. }
    assert (Hp : In p peers').
    { unfold peers'. destruct (mem p peers) eqn:E; [apply mem_true; exact E|apply in_or_app; right; left; reflexivity]. }
    assert (Hmem : forall x, In x peers' -> In x peers \/ x = p).
    { unfold peers'. intros x Hx. destruct (mem p peers); [auto|]. apply in_app_or in Hx. destruct Hx as [Hx|[<-|[]]]; auto. }
    destruct (Z.of_nat (length peers') >? fill_break c) eqn:E.
    + repeat split; auto.
      * intros x Hx. apply Hmem in Hx. destruct Hx as [Hx | ->]; [left; exact Hx|right; left; reflexivity].
      * left. lia.
    + destruct (IH peers' Hnd') as [H1 [H2 [H3 H4]]]. repeat split; auto.
      * intros x Hx. apply H2, Hincl, Hx.
      * intros x Hx. apply H3 in Hx. destruct Hx as [Hx|Hx]; [|right; right; exact Hx].
        apply Hmem in Hx. destruct Hx as [Hx | ->]; [left; exact Hx|right; left; reflexivity].
      * destruct H4 as [H4|H4]; [left; exact H4|right].
        intros x [<-|Hx]; [apply H2, Hp|apply H4, Hx].
Qed.

Lemma fill_spec c ps peers : NoDup peers ->
  NoDup (fill c ps peers) /\ incl peers (fill c ps peers) /\
  (forall x, In x (fill c ps peers) -> In x peers \/ In x ps) /\
  (Z.of_nat (length (fill c ps peers)) > fill_enter c \/
   Z.of_nat (length (fill c ps peers)) > fill_break c \/ incl ps (fill c ps peers)).
Proof.
  intro Hnd. unfold fill. destruct (Z.of_nat (length peers) <=? fill_enter c) eqn:E.
  - destruct (fill_loop_spec c ps peers Hnd) as [H1 [H2 [H3 H4]]]. repeat split; try assumption.
    destruct H4; auto.
  - repeat split; auto using incl_refl. left; lia.
Qed.

(** After the fill step at least 3C+1 peers have been collected, provided the configuration lists
    at least 3C+1 distinct peers. This is where [fill_enter] and [fill_break] (c*3 in the source) matter. *)
Lemma fill_enough c ps peers : NoDup peers -> NoDup ps -> 3 * c + 1 <= Z.of_nat (length ps) ->
  3 * c + 1 <= Z.of_nat (length (fill c ps peers)).
Proof.
  intros Hnd Hps Hlen. destruct (fill_spec c ps peers Hnd) as [_ [_ [_ H]]].
  unfold fill_enter, fill_break in H. destruct H as [H|[H|H]]; try lia.
  pose proof (NoDup_incl_length Hps H). lia.
Qed.

(* ---------- step 3 ---------- *)

Lemma top_up_eq nC : forall src acc,
  top_up nC acc src = acc ++ firstn (Z.to_nat (nC - Z.of_nat (length acc))) src.
Proof.
  induction src as [|x r IH]; intro acc; cbn [top_up].
  - rewrite firstn_nil, app_nil_r; reflexivity.
  - destruct (Z.of_nat (length acc) <? nC) eqn:E.
    + rewrite IH, app_length. cbn [length].
      replace (Z.to_nat (nC - Z.of_nat (length acc))) with (S (Z.to_nat (nC - Z.of_nat (length acc + 1)))) by lia.
      cbn [firstn]. rewrite <- app_assoc. reflexivity.
    + replace (Z.to_nat (nC - Z.of_nat (length acc))) with 0%nat by lia.
      cbn [firstn]. rewrite app_nil_r; reflexivity.
Qed.

(** The pieces of [assemble], named. *)
Definition aP (c : Z) (peers : list N) := firstn (S (Z.to_nat c)) peers.
Definition an1 (c : Z) (peers : list N) :=
  Z.to_nat (n1_formula (Z.of_nat (length peers)) (Z.of_nat (length (aP c peers)))).
Definition aE0 (c : Z) (peers : list N) := firstn (an1 c peers) (skipn (S (Z.to_nat c)) peers).
Definition aC0 (c : Z) (peers : list N) := skipn (S (Z.to_nat c) + an1 c peers) peers.
Definition aE (c : Z) (peers : list N) :=
  if Z.of_nat (length (aE0 c peers)) <? n_committer c then
    top_up (n_committer c)
      (top_up (n_committer c) (aE0 c peers ++ [nth (Z.to_nat c) (aP c peers) 0%N]) (rev (aC0 c peers)))
      (rev (firstn (Z.to_nat c - 1) (skipn 1 (aP c peers))))
  else aE0 c peers.
Definition aC (c : Z) (peers : list N) :=
  if Z.of_nat (length (aC0 c peers)) <? n_committer c then
    top_up (n_committer c) (top_up (n_committer c) (aC0 c peers) (skipn 1 (aP c peers))) (rev (aE0 c peers))
  else aC0 c peers.

Lemma assemble_eq c peers :
  assemble c peers =
  if Z.of_nat (length peers) <? c + 1 then SelPanic PanicSlice
  else SelOk (aP c peers) (aE c peers) (aC c peers).
Proof. reflexivity. Qed.

Lemma split3 c peers : peers = aP c peers ++ aE0 c peers ++ aC0 c peers.
Proof.
  unfold aP, aE0, aC0. rewrite skipn_add.
  rewrite (firstn_skipn (an1 c peers)). rewrite firstn_skipn. reflexivity.
Qed.

Lemma cnt_split3 c peers x :
  cnt x peers = (cnt x (aP c peers) + cnt x (aE0 c peers) + cnt x (aC0 c peers))%nat.
Proof. rewrite (split3 c peers) at 1. rewrite !cnt_app. lia. Qed.

Lemma len_aP c peers : 0 <= c -> c + 1 <= Z.of_nat (length peers) -> Z.of_nat (length (aP c peers)) = c + 1.
Proof. intros. unfold aP. rewrite firstn_length. lia. Qed.

(** propsers[c] and propsers[1..c-1] are different positions of propsers. *)
Lemma cnt_last_mid (P : list N) n x : length P = S n ->
  (cnt x [nth n P 0%N] + cnt x (firstn (n - 1) (skipn 1 P)) <= cnt x P)%nat.
Proof.
  intro Hlen.
  assert (Hsk : skipn n P = [nth n P 0%N]).
  { pose proof (firstn_skipn n P) as Hs.
    assert (Hl : length (skipn n P) = 1%nat) by (rewrite skipn_length; lia).
    destruct (skipn n P) as [|y [|z t]] eqn:E; try discriminate.
    rewrite <- Hs at 1. rewrite app_nth2 by (rewrite firstn_length; lia).
    rewrite firstn_length. replace (n - Nat.min n (length P))%nat with 0%nat by lia. reflexivity. }
  rewrite <- (firstn_skipn n P) at 3. rewrite cnt_app, Hsk.
  assert ((cnt x (firstn (n - 1) (skipn 1 P)) <= cnt x (firstn n P))%nat); [|lia].
  destruct n as [|m].
  - cbn. lia.
  - rewrite firstn_skipn_comm. replace (1 + (S m - 1))%nat with (S m) by lia. apply cnt_skipn.
Qed.

Lemma cnt_aE c peers x : 0 <= c -> c + 1 <= Z.of_nat (length peers) ->
  (cnt x (aE c peers) <= cnt x peers)%nat.
Proof.
  intros Hc HL. rewrite (cnt_split3 c peers x). unfold aE.
  destruct (Z.of_nat (length (aE0 c peers)) <? n_committer c); [|lia].
  rewrite !top_up_eq, !cnt_app.
  pose proof (cnt_firstn x (Z.to_nat (n_committer c - Z.of_nat (length (aE0 c peers ++ [nth (Z.to_nat c) (aP c peers) 0%N]))))
                (rev (aC0 c peers))) as H1.
  rewrite cnt_rev in H1.
  match goal with |- context [cnt x (firstn ?k (rev (firstn ?a ?b)))] =>
    pose proof (cnt_firstn x k (rev (firstn a b))) as H2 end.
  rewrite cnt_rev in H2.
  pose proof (cnt_last_mid (aP c peers) (Z.to_nat c) x) as H3.
  assert (Hl : length (aP c peers) = S (Z.to_nat c)) by (pose proof (len_aP c peers Hc HL); lia).
  specialize (H3 Hl). lia.
Qed.

Lemma cnt_aC c peers x : (cnt x (aC c peers) <= cnt x peers)%nat.
Proof.
  rewrite (cnt_split3 c peers x). unfold aC.
  destruct (Z.of_nat (length (aC0 c peers)) <? n_committer c); [|lia].
  rewrite !top_up_eq, !cnt_app.
  match goal with |- context [cnt x (firstn ?k (skipn 1 ?b))] =>
    pose proof (cnt_firstn x k (skipn 1 b)) as H1; pose proof (cnt_skipn x 1 b) as H1' end.
  match goal with |- context [cnt x (firstn ?k (rev ?b))] =>
    pose proof (cnt_firstn x k (rev b)) as H2 end.
  rewrite cnt_rev in H2. lia.
Qed.

Lemma len_parts c peers : 0 <= c -> c + 1 <= Z.of_nat (length peers) ->
  let L := Z.of_nat (length peers) in
  let n1 := Z.quot (L - (c + 1)) 2 in
  Z.of_nat (length (aE0 c peers)) = n1 /\ Z.of_nat (length (aC0 c peers)) = L - (c + 1) - n1.
Proof.
  intros Hc HL L n1.
  assert (Hn1 : Z.of_nat (an1 c peers) = n1).
  { unfold an1. rewrite (len_aP c peers Hc HL). unfold n1_formula. fold L. subst n1. lia. }
  unfold aE0, aC0. rewrite firstn_length, !skipn_length. subst L n1. lia.
Qed.

Lemma len_aE c peers : 1 <= c -> 3 * c + 1 <= Z.of_nat (length peers) ->
  2 * c + 1 <= Z.of_nat (length (aE c peers)).
Proof.
  intros Hc HL. destruct (len_parts c peers ltac:(lia) ltac:(lia)) as [He Hc0]. cbv zeta in *.
  assert (HlP : Z.of_nat (length (aP c peers)) = c + 1) by (apply len_aP; lia).
  unfold aE. destruct (Z.of_nat (length (aE0 c peers)) <? n_committer c) eqn:E; unfold n_committer in *; [|lia].
  rewrite !top_up_eq.
  repeat first [rewrite app_length | rewrite firstn_length | rewrite rev_length | rewrite skipn_length].
  cbn [length]. lia.
Qed.

Lemma len_aC c peers : 1 <= c -> 3 * c + 1 <= Z.of_nat (length peers) ->
  2 * c + 1 <= Z.of_nat (length (aC c peers)).
Proof.
  intros Hc HL. destruct (len_parts c peers ltac:(lia) ltac:(lia)) as [He Hc0]. cbv zeta in *.
  assert (HlP : Z.of_nat (length (aP c peers)) = c + 1) by (apply len_aP; lia).
  unfold aC. destruct (Z.of_nat (length (aC0 c peers)) <? n_committer c) eqn:E; unfold n_committer in *; [|lia].
  rewrite !top_up_eq.
  repeat first [rewrite app_length | rewrite firstn_length | rewrite rev_length | rewrite skipn_length].
  lia.
Qed.

(** Shape of a well-formed selection over a peer list [members] and quorum parameter [c]. *)
Definition well_formed_sel (c : Z) (members : list N) (r : sel_res) : Prop :=
  exists P E Cm, r = SelOk P E Cm /\
    Z.of_nat (length P) = c + 1 /\ NoDup P /\
    2 * c + 1 <= Z.of_nat (length E) /\ NoDup E /\
    2 * c + 1 <= Z.of_nat (length Cm) /\ NoDup Cm /\
    incl P members /\ incl E members /\ incl Cm members.

Lemma assemble_well_formed c peers : 1 <= c -> NoDup peers -> 3 * c + 1 <= Z.of_nat (length peers) ->
  well_formed_sel c peers (assemble c peers).
Proof.
  intros Hc Hnd HL. rewrite assemble_eq.
  destruct (Z.of_nat (length peers) <? c + 1) eqn:E; [lia|].
  exists (aP c peers), (aE c peers), (aC c peers).
  destruct (cnt_le_nodup (aP c peers) peers Hnd) as [HP1 HP2]; [intro x; apply cnt_firstn|].
  destruct (cnt_le_nodup (aE c peers) peers Hnd) as [HE1 HE2]; [intro x; apply cnt_aE; lia|].
  destruct (cnt_le_nodup (aC c peers) peers Hnd) as [HC1 HC2]; [intro x; apply cnt_aC|].
  repeat split; auto.
  - apply len_aP; lia.
  - apply len_aE; assumption.
  - apply len_aC; assumption.
Qed.

(** Distinctness does not depend on the configuration being valid: whenever [assemble] returns,
    the three lists are duplicate-free sublists of the collected peers. *)
Lemma assemble_distinct c peers P E Cm : 0 <= c -> NoDup peers -> assemble c peers = SelOk P E Cm ->
  NoDup P /\ NoDup E /\ NoDup Cm /\ incl P peers /\ incl E peers /\ incl Cm peers.
Proof.
  intros Hc Hnd. rewrite assemble_eq.
  destruct (Z.of_nat (length peers) <? c + 1) eqn:E1; [discriminate|]. intro H; inversion H; subst.
  destruct (cnt_le_nodup (aP c peers) peers Hnd) as [HP1 HP2]; [intro x; apply cnt_firstn|].
  destruct (cnt_le_nodup (aE c peers) peers Hnd) as [HE1 HE2]; [intro x; apply cnt_aE; lia|].
  destruct (cnt_le_nodup (aC c peers) peers Hnd) as [HC1 HC2]; [intro x; apply cnt_aC|].
  repeat split; auto.
Qed.

(* ---------- the whole function ---------- *)

Lemma collect_inv vrf cfg peers : collect_peers vrf cfg = Some peers ->
  NoDup peers /\ (forall x, In x peers -> In x (cfgPos cfg) \/ In x (cfgPeers cfg)).
Proof.
  unfold collect_peers.
  destruct (select_loop vrf (cfgPos cfg) (Z.of_N (cfgC cfg)) (cfgN cfg) (length (cfgPos cfg)) 0 []) as [sel|] eqn:Es; [|discriminate].
  intro H; inversion H; subst; clear H.
  destruct (select_loop_inv _ _ _ _ _ _ _ _ Es (NoDup_nil N)) as [H1 [_ H3]].
  destruct (fill_spec (Z.of_N (cfgC cfg)) (cfgPeers cfg) sel H1) as [F1 [_ [F3 _]]].
  split; [exact F1|]. intros x Hx. apply F3 in Hx. destruct Hx as [Hx|Hx]; [|right; exact Hx].
  apply H3 in Hx. destruct Hx as [[]|Hx]. left; exact Hx.
Qed.

(** Hypotheses on the configuration, in the form the proof uses them. [N] itself is not needed:
    the [len(peerMap) == N] exit can only stop the first step early, and the fill step repairs that. *)
Record cfg_ok (cfg : chain_cfg) : Prop := {
  ok_c : (1 <= cfgC cfg)%N;
  ok_peers_nodup : NoDup (cfgPeers cfg);
  ok_peers_enough : (3 * cfgC cfg + 1 <= N.of_nat (length (cfgPeers cfg)))%N;
  ok_pos_members : forall x, In x (cfgPos cfg) -> In x (cfgPeers cfg);
  ok_pos_len : (N.of_nat (length (cfgPos cfg)) < 4294967296)%N
}.

Lemma calc_participant_peers_well_formed vrf cfg : cfg_ok cfg ->
  well_formed_sel (Z.of_N (cfgC cfg)) (cfgPeers cfg) (calc_participant_peers vrf cfg).
Proof.
  intros [Hc Hnd Hlen Hpos Hpl].
  unfold calc_participant_peers.
  destruct (collect_peers vrf cfg) as [peers|] eqn:Ec.
  - destruct (collect_inv vrf cfg peers Ec) as [Hp1 Hp2].
    assert (Hincl : incl peers (cfgPeers cfg)).
    { intros x Hx. apply Hp2 in Hx. destruct Hx; auto. }
    assert (HL : 3 * Z.of_N (cfgC cfg) + 1 <= Z.of_nat (length peers)).
    { unfold collect_peers in Ec.
      destruct (select_loop vrf (cfgPos cfg) (Z.of_N (cfgC cfg)) (cfgN cfg) (length (cfgPos cfg)) 0 []) as [sel|] eqn:Es; [|discriminate].
      inversion Ec; subst.
      destruct (select_loop_inv _ _ _ _ _ _ _ _ Es (NoDup_nil N)) as [H1 _].
      apply fill_enough; [assumption|assumption|lia]. }
    destruct (assemble_well_formed (Z.of_N (cfgC cfg)) peers ltac:(lia) Hp1 HL)
      as [P [E [Cm [Heq [H1 [H2 [H3 [H4 [H5 [H6 [H7 [H8 H9]]]]]]]]]]]].
    exists P, E, Cm. repeat split; auto; eapply incl_tran; eauto.
  - exfalso. unfold collect_peers in Ec.
    destruct (select_loop_no_panic vrf (cfgPos cfg) (Z.of_N (cfgC cfg)) (cfgN cfg) ltac:(unfold two32; lia)
                (length (cfgPos cfg)) 0%nat [] (le_n _)) as [r Hr].
    rewrite Hr in Ec. discriminate.
Qed.

(** Unconditional part: for ANY configuration and seed, if the function returns, the three lists are
    duplicate-free and consist of position-table entries and configured peer indices. *)
Lemma calc_participant_peers_distinct vrf cfg P E Cm :
  calc_participant_peers vrf cfg = SelOk P E Cm ->
  NoDup P /\ NoDup E /\ NoDup Cm /\
  (forall x, In x P \/ In x E \/ In x Cm -> In x (cfgPos cfg) \/ In x (cfgPeers cfg)).
Proof.
  unfold calc_participant_peers.
  destruct (collect_peers vrf cfg) as [peers|] eqn:Ec; [|discriminate].
  destruct (collect_inv vrf cfg peers Ec) as [Hp1 Hp2]. intro H.
  destruct (assemble_distinct (Z.of_N (cfgC cfg)) peers P E Cm ltac:(lia) Hp1 H) as [H1 [H2 [H3 [H4 [H5 H6]]]]].
  repeat split; auto. intros x [Hx|[Hx|Hx]]; apply Hp2; auto.
Qed.

(* ---------- statement-level forms (peer counts as N, as in the configuration record) ---------- *)

(** The result is three lists: C+1 proposers, at least 2C+1 endorsers and 2C+1 committers, each
    duplicate-free, all drawn from the configured peers. *)
Definition well_formed_round (cfg : chain_cfg) (r : sel_res) : Prop :=
  exists proposers endorsers committers,
    r = SelOk proposers endorsers committers /\
    N.of_nat (length proposers) = (cfgC cfg + 1)%N /\ NoDup proposers /\
    (2 * cfgC cfg + 1 <= N.of_nat (length endorsers))%N /\ NoDup endorsers /\
    (2 * cfgC cfg + 1 <= N.of_nat (length committers))%N /\ NoDup committers /\
    incl proposers (cfgPeers cfg) /\ incl endorsers (cfgPeers cfg) /\ incl committers (cfgPeers cfg).

Lemma well_formed_round_of_sel cfg r :
  well_formed_sel (Z.of_N (cfgC cfg)) (cfgPeers cfg) r -> well_formed_round cfg r.
Proof.
  intros [P [E [Cm [Heq [H1 [H2 [H3 [H4 [H5 [H6 [H7 [H8 H9]]]]]]]]]]]].
  exists P, E, Cm. repeat split; auto; lia.
Qed.

(** Valid chain configuration, as the property's quantifier has it: C >= 1, N >= 3C+1, N peers with
    pairwise different indices, every position-table entry is the index of a peer (a table "derived
    from stakes" lists peers only), and a table length that fits Go's uint32 conversion. *)
Record valid_cfg (cfg : chain_cfg) : Prop := {
  valid_c : (1 <= cfgC cfg)%N;
  valid_n : (3 * cfgC cfg + 1 <= cfgN cfg)%N;
  valid_n_peers : N.of_nat (length (cfgPeers cfg)) = cfgN cfg;
  valid_peers_distinct : NoDup (cfgPeers cfg);
  valid_pos_members : forall x, In x (cfgPos cfg) -> In x (cfgPeers cfg);
  valid_pos_len : (N.of_nat (length (cfgPos cfg)) < 4294967296)%N
}.

Lemma valid_cfg_ok cfg : valid_cfg cfg -> cfg_ok cfg.
Proof. intros [H1 H2 H3 H4 H5 H6]. constructor; auto. lia. Qed.

Lemma selection_well_formed vrf cfg : valid_cfg cfg -> well_formed_round cfg (calc_participant_peers vrf cfg).
Proof. intro H. apply well_formed_round_of_sel, calc_participant_peers_well_formed, valid_cfg_ok, H. Qed.

(** Same conclusion from the weaker hypotheses actually used (the N field is irrelevant). *)
Lemma selection_well_formed_weak vrf cfg : cfg_ok cfg -> well_formed_round cfg (calc_participant_peers vrf cfg).
Proof. intro H. apply well_formed_round_of_sel, calc_participant_peers_well_formed, H. Qed.

(** Determinism: the round's participants are a function of the seed and the configuration, and the
    seed is a function of the encoded (block number, proposer, VRF value) triple. *)
Lemma selection_functional vrf1 vrf2 cfg1 cfg2 :
  vrf1 = vrf2 -> cfg1 = cfg2 -> calc_participant_peers vrf1 cfg1 = calc_participant_peers vrf2 cfg2.
Proof. intros -> ->; reflexivity. Qed.

Lemma round_functional {B} (H : list N -> list N) (enc : B -> list N) b1 b2 cfg :
  enc b1 = enc b2 -> round_participants H enc b1 cfg = round_participants H enc b2 cfg.
Proof. unfold round_participants, selection_seed. intros ->; reflexivity. Qed.

Lemma round_well_formed {B} (H : list N -> list N) (enc : B -> list N) b cfg :
  valid_cfg cfg -> well_formed_round cfg (round_participants H enc b cfg).
Proof. intro Hv. apply selection_well_formed, Hv. Qed.
