(** Proofs about Model/CrossVM.v (property C25). *)
From Coq Require Import List Bool Arith NArith ZArith Lia ZifyN ZifyNat ZifyBool.
Import ListNotations.
From Ont Require Import Lib.Bytes Gen.CodecConsts Gen.CrossVMConsts Model.Codec Model.CrossVM.
Local Open Scope N_scope.
Ltac Zify.zify_post_hook ::= Z.to_euclidean_division_equations.

(** * Positions in a source *)

(** [at_pos s pre rest]: the bytes before the offset are [pre], the unread bytes are [rest]. *)
Definition at_pos (s : source) (pre rest : bytes) : Prop := buf s = pre ++ rest /\ off s = length pre.

(** The buffer length fits a uint64 (every Go slice does). *)
Definition fits (s : source) : Prop := N.of_nat (length (buf s)) < two64.

Definition moved (s : source) (n : nat) : source := mkSrc (buf s) (off s + n).

Lemma at_pos_new b : at_pos (src_new b) [] b.
Proof. split; reflexivity. Qed.

Lemma at_pos_moved s pre d post :
  at_pos s pre (d ++ post) -> at_pos (moved s (length d)) (pre ++ d) post.
Proof.
  intros [Hb Ho]; split; cbn [moved buf off].
  - rewrite Hb, <- app_assoc; reflexivity.
  - rewrite Ho, app_length; reflexivity.
Qed.

Lemma at_pos_remaining s pre rest : at_pos s pre rest -> remaining s = length rest.
Proof. intros [Hb Ho]; unfold remaining; rewrite Hb, Ho, app_length; lia. Qed.

Lemma fits_moved s n : fits s -> fits (moved s n).
Proof. exact (fun H => H). Qed.

Lemma moved_moved s a b : moved (moved s a) b = moved s (a + b).
Proof. unfold moved; cbn [buf off]; f_equal; lia. Qed.

(** ** NextBytes *)
Lemma next_bytes_spec s pre d post :
  at_pos s pre (d ++ post) -> fits s ->
  next_bytes s (N.of_nat (length d)) = (d, false, moved s (length d)).
Proof.
  intros [Hb Ho] Hf. unfold fits in Hf. unfold next_bytes.
  assert (Hl : length (buf s) = (length pre + (length d + length post))%nat)
    by (rewrite Hb, !app_length; reflexivity).
  replace ((two64 <=? N.of_nat (off s) + N.of_nat (length d))
           || (N.of_nat (length (buf s)) <? N.of_nat (off s) + N.of_nat (length d))) with false
    by (symmetry; apply orb_false_iff; split; [apply N.leb_gt|apply N.ltb_ge]; lia).
  rewrite Nat2N.id. unfold moved. f_equal; [f_equal|f_equal; lia].
  rewrite Hb, Ho. apply slice_app_exact.
Qed.

Lemma next_bytes_inv s pre rest n d s' :
  at_pos s pre rest -> next_bytes s n = (d, false, s') ->
  exists post, rest = d ++ post /\ n = N.of_nat (length d) /\ s' = moved s (length d).
Proof.
  intros [Hb Ho]. unfold next_bytes.
  destruct ((two64 <=? N.of_nat (off s) + n) || (N.of_nat (length (buf s)) <? N.of_nat (off s) + n)) eqn:E;
    [intro H; inversion H|].
  apply orb_false_iff in E; destruct E as [_ E2]; apply N.ltb_ge in E2.
  intro H; inversion H; subst d s'; clear H.
  assert (Hl : length (buf s) = (length pre + length rest)%nat) by (rewrite Hb, app_length; reflexivity).
  assert (Hs : slice (buf s) (off s) (N.to_nat n) = firstn (N.to_nat n) rest).
  { unfold slice. rewrite Hb, Ho, skipn_app, skipn_all, Nat.sub_diag. reflexivity. }
  assert (Hlen : length (firstn (N.to_nat n) rest) = N.to_nat n) by (rewrite firstn_length; lia).
  exists (skipn (N.to_nat n) rest). rewrite Hs, Hlen. split; [|split].
  - symmetry; apply firstn_skipn.
  - lia.
  - unfold moved; f_equal; lia.
Qed.

(** Progress and bounds, for any source. *)
Lemma next_bytes_adv s n d e s' :
  next_bytes s n = (d, e, s') -> (off s <= length (buf s))%nat ->
  buf s' = buf s /\ (off s <= off s' <= length (buf s))%nat.
Proof.
  unfold next_bytes.
  destruct ((two64 <=? N.of_nat (off s) + n) || (N.of_nat (length (buf s)) <? N.of_nat (off s) + n)) eqn:E;
    intros H Hle; inversion H; subst; cbn [buf off].
  - split; [reflexivity|lia].
  - apply orb_false_iff in E; destruct E as [_ E2]; apply N.ltb_ge in E2. split; [reflexivity|lia].
Qed.

(** ** NextByte *)
Lemma next_byte_spec s pre x post :
  at_pos s pre (x :: post) -> next_byte s = (x, false, moved s 1).
Proof.
  intros [Hb Ho]. unfold next_byte.
  assert (Hl : length (buf s) = (length pre + S (length post))%nat) by (rewrite Hb, app_length; reflexivity).
  replace (length (buf s) <=? off s)%nat with false by (symmetry; apply Nat.leb_gt; lia).
  unfold moved. f_equal; [f_equal|f_equal; lia].
  rewrite Hb, Ho. apply nth_middle.
Qed.

Lemma next_byte_inv s pre rest x s' :
  at_pos s pre rest -> next_byte s = (x, false, s') ->
  exists post, rest = x :: post /\ s' = moved s 1.
Proof.
  intros [Hb Ho]. unfold next_byte.
  destruct (length (buf s) <=? off s)%nat eqn:E; [intro H; inversion H|].
  apply Nat.leb_gt in E. intro H; inversion H; subst x s'; clear H.
  assert (Hl : length (buf s) = (length pre + length rest)%nat) by (rewrite Hb, app_length; reflexivity).
  destruct rest as [|y post]; [cbn in Hl; lia|].
  exists post. split; [|unfold moved; f_equal; lia].
  rewrite Hb, Ho, nth_middle. reflexivity.
Qed.

Lemma next_byte_adv s x s' :
  next_byte s = (x, false, s') -> buf s' = buf s /\ off s' = S (off s) /\ (off s' <= length (buf s))%nat.
Proof.
  unfold next_byte. destruct (length (buf s) <=? off s)%nat eqn:E; intro H; inversion H; subst.
  apply Nat.leb_gt in E. cbn [buf off]. repeat split; lia.
Qed.

Lemma next_byte_eof_remaining s x e s' :
  next_byte s = (x, e, s') -> remaining s = 0%nat -> e = true.
Proof.
  unfold next_byte, remaining. destruct (length (buf s) <=? off s)%nat eqn:E; intros H Hr; inversion H; subst; auto.
  apply Nat.leb_gt in E; lia.
Qed.

(** ** Fixed-width reads *)
Lemma next_uint_spec w s pre v post :
  at_pos s pre (le_encode w v ++ post) -> fits s -> v < 256 ^ N.of_nat w ->
  next_uint w s = (v, false, moved s w).
Proof.
  intros Hp Hf Hv. unfold next_uint.
  pose proof (next_bytes_spec s pre (le_encode w v) post Hp Hf) as H.
  rewrite le_encode_length in H. rewrite H.
  rewrite le_decode_encode_small by exact Hv. reflexivity.
Qed.

Lemma next_uint_inv w s pre rest v s' :
  at_pos s pre rest -> wf_bytes rest = true -> next_uint w s = (v, false, s') ->
  exists post, rest = le_encode w v ++ post /\ v < 256 ^ N.of_nat w /\ s' = moved s w.
Proof.
  intros Hp Hw. unfold next_uint.
  destruct (next_bytes s (N.of_nat w)) as [[d e] s1] eqn:E.
  destruct e; intro H; inversion H; subst v s'; clear H.
  destruct (next_bytes_inv _ _ _ _ _ _ Hp E) as [post [Hr [Hn Hs]]].
  apply Nat2N.inj in Hn. subst rest w.
  rewrite wf_bytes_app in Hw; apply andb_prop in Hw; destruct Hw as [Hwd _].
  exists post. split; [|split].
  - rewrite le_encode_decode by exact Hwd. reflexivity.
  - apply le_decode_bound; exact Hwd.
  - exact Hs.
Qed.

Lemma next_uint_adv w s v e s' :
  next_uint w s = (v, e, s') -> (off s <= length (buf s))%nat ->
  buf s' = buf s /\ (off s <= off s' <= length (buf s))%nat.
Proof.
  unfold next_uint. destruct (next_bytes s (N.of_nat w)) as [[d e0] s1] eqn:E.
  intros H Hle. pose proof (next_bytes_adv _ _ _ _ _ E Hle) as Ha.
  destruct e0; inversion H; subst; exact Ha.
Qed.

Lemma next_fixed_spec w s pre d post :
  at_pos s pre (d ++ post) -> fits s -> length d = w ->
  next_fixed w s = (d, false, moved s w).
Proof.
  intros Hp Hf Hl. unfold next_fixed.
  pose proof (next_bytes_spec s pre d post Hp Hf) as H. rewrite Hl in H. rewrite H. reflexivity.
Qed.

Lemma next_fixed_inv w s pre rest d s' :
  at_pos s pre rest -> next_fixed w s = (d, false, s') ->
  exists post, rest = d ++ post /\ length d = w /\ s' = moved s w.
Proof.
  intros Hp. unfold next_fixed.
  destruct (next_bytes s (N.of_nat w)) as [[d0 e] s1] eqn:E.
  destruct e; intro H; inversion H; subst d0 s1; clear H.
  destruct (next_bytes_inv _ _ _ _ _ _ Hp E) as [post [Hr [Hn Hs]]].
  apply Nat2N.inj in Hn. subst w. exists post. repeat split; auto.
Qed.

Lemma next_fixed_adv w s d e s' :
  next_fixed w s = (d, e, s') -> (off s <= length (buf s))%nat ->
  buf s' = buf s /\ (off s <= off s' <= length (buf s))%nat.
Proof.
  unfold next_fixed. destruct (next_bytes s (N.of_nat w)) as [[d0 e0] s1] eqn:E.
  intros H Hle. pose proof (next_bytes_adv _ _ _ _ _ E Hle) as Ha.
  destruct e0; inversion H; subst; exact Ha.
Qed.

(** ** NextBool *)
Lemma next_bool_adv s b i e s' :
  next_bool s = (b, i, e, s') -> e = false ->
  buf s' = buf s /\ off s' = S (off s) /\ (off s' <= length (buf s))%nat.
Proof.
  unfold next_bool. destruct (next_byte s) as [[x e0] s1] eqn:E. intros H He.
  assert (e0 = e /\ s1 = s') as [-> ->]
    by (destruct (x =? 0); [|destruct (x =? 1)]; inversion H; auto).
  subst e. exact (next_byte_adv _ _ _ E).
Qed.

(** * Progress, bounds and totality of the decoder (any source, any bytes) *)
Definition oksrc (s : source) : Prop := (off s <= length (buf s))%nat.
Definition wk (s s' : source) : Prop := buf s' = buf s /\ (off s <= off s' <= length (buf s))%nat.
Definition adv (s s' : source) : Prop := buf s' = buf s /\ (off s < off s' <= length (buf s))%nat.

Lemma wk_refl s : oksrc s -> wk s s.
Proof. unfold wk, oksrc; intros; split; [reflexivity|lia]. Qed.
Lemma wk_trans a b c : wk a b -> wk b c -> wk a c.
Proof. unfold wk; intros [H1 H2] [H3 H4]; rewrite H1 in *; split; [congruence|lia]. Qed.
Lemma adv_wk_trans a b c : adv a b -> wk b c -> adv a c.
Proof. unfold adv, wk; intros [H1 H2] [H3 H4]; rewrite H1 in *; split; [congruence|lia]. Qed.
Lemma wk_oksrc a b : wk a b -> oksrc b.
Proof. unfold wk, oksrc; intros [H1 H2]; rewrite H1; lia. Qed.
Lemma adv_oksrc a b : adv a b -> oksrc b.
Proof. unfold adv, oksrc; intros [H1 H2]; rewrite H1; lia. Qed.
Lemma adv_remaining a b : adv a b -> (remaining b < remaining a)%nat.
Proof. unfold adv, remaining; intros [H1 H2]; rewrite H1; lia. Qed.
Lemma wk_remaining a b : wk a b -> (remaining b <= remaining a)%nat.
Proof. unfold wk, remaining; intros [H1 H2]; rewrite H1; lia. Qed.

Lemma next_byte_adv' s x s' : next_byte s = (x, false, s') -> adv s s'.
Proof. intro H; destruct (next_byte_adv _ _ _ H) as [H1 [H2 H3]]; split; [exact H1|lia]. Qed.

Lemma dec_sized_wk mk s1 v s' : oksrc s1 -> dec_sized mk s1 = DOk v s' -> wk s1 s'.
Proof.
  intros Hok. unfold dec_sized, next_uint32.
  destruct (next_uint UINT32_SIZE s1) as [[size e] s2] eqn:E1. destruct e; [discriminate|].
  destruct (next_bytes s2 size) as [[b e] s3] eqn:E2. destruct e; [discriminate|].
  intro H; inversion H; subst.
  pose proof (next_uint_adv _ _ _ _ _ E1 Hok) as W1.
  assert (Hok2 : oksrc s2) by (apply (wk_oksrc s1); exact W1).
  pose proof (next_bytes_adv _ _ _ _ _ E2 Hok2) as W2.
  exact (wk_trans _ _ _ W1 W2).
Qed.

Lemma dec_sized_nofuel mk s1 : dec_sized mk s1 <> DFuel.
Proof.
  unfold dec_sized. destruct (next_uint32 s1) as [[size e] s2]. destruct e; [discriminate|].
  destruct (next_bytes s2 size) as [[b e] s3]. destruct e; discriminate.
Qed.

Lemma dec_fixed_wk w mk s1 v s' : oksrc s1 -> dec_fixed (next_fixed w) mk s1 = DOk v s' -> wk s1 s'.
Proof.
  intros Hok. unfold dec_fixed. destruct (next_fixed w s1) as [[x e] s2] eqn:E1.
  destruct e; [discriminate|]. intro H; inversion H; subst.
  exact (next_fixed_adv _ _ _ _ _ E1 Hok).
Qed.

Lemma dec_fixed_nofuel rd mk s1 : dec_fixed rd mk s1 <> DFuel.
Proof. unfold dec_fixed. destruct (rd s1) as [[x e] s2]. destruct e; discriminate. Qed.

Lemma dec_bool_wk s1 v s' : oksrc s1 -> dec_bool s1 = DOk v s' -> wk s1 s'.
Proof.
  intros Hok. unfold dec_bool. destruct (next_bool s1) as [[[b i] e] s2] eqn:E1.
  destruct e; [discriminate|]. destruct i; [discriminate|]. intro H; inversion H; subst.
  destruct (next_bool_adv _ _ _ _ _ E1 eq_refl) as [H1 [H2 H3]]. split; [exact H1|lia].
Qed.

Lemma dec_bool_nofuel s1 : dec_bool s1 <> DFuel.
Proof.
  unfold dec_bool. destruct (next_bool s1) as [[[b i] e] s2]. destruct e; [discriminate|]. destruct i; discriminate.
Qed.

(** Case analysis of the switch. *)
Lemma decode_body_inv rl s r :
  decode_body rl s = r ->
  (exists x s1, next_byte s = (x, true, s1) /\ r = DErr ErrFormat) \/
  (exists ty s1, next_byte s = (ty, false, s1) /\
     ((ty = ByteArrayType /\ r = dec_sized XBytes s1) \/
      (ty = StringType /\ r = dec_sized XString s1) \/
      (ty = AddressType /\ r = dec_fixed next_address XAddress s1) \/
      (ty = BooleanType /\ r = dec_bool s1) \/
      (ty = IntType /\ r = dec_fixed next_i128 (fun x => XInt (i128_to_big x)) s1) \/
      (ty = H256Type /\ r = dec_fixed next_hash XH256 s1) \/
      (ty = ListType /\ r = dec_list rl s1) \/
      r = DErr ErrNotSupported)).
Proof.
  unfold decode_body. destruct (next_byte s) as [[ty e] s1]. destruct e.
  - intro H; left; eauto.
  - intro H; right; exists ty, s1; split; [reflexivity|].
    destruct (N.eqb_spec ty ByteArrayType); [auto|].
    destruct (N.eqb_spec ty StringType); [auto|].
    destruct (N.eqb_spec ty AddressType); [auto 6|].
    destruct (N.eqb_spec ty BooleanType); [auto 6|].
    destruct (N.eqb_spec ty IntType); [auto 8|].
    destruct (N.eqb_spec ty H256Type); [auto 8|].
    destruct (N.eqb_spec ty ListType); [auto 10|].
    auto 10.
Qed.

Definition rl_wk (rl : N -> source -> dres (list value)) : Prop :=
  forall n s2 l s3, oksrc s2 -> rl n s2 = DOk l s3 -> wk s2 s3.

Lemma dec_list_wk rl s1 v s' : rl_wk rl -> oksrc s1 -> dec_list rl s1 = DOk v s' -> wk s1 s'.
Proof.
  intros Hrl Hok. unfold dec_list, next_uint32.
  destruct (next_uint UINT32_SIZE s1) as [[size e] s2] eqn:E1. destruct e; [discriminate|].
  pose proof (next_uint_adv _ _ _ _ _ E1 Hok) as W1.
  destruct (rl size s2) as [l s3| |] eqn:E2; try discriminate.
  intro H; inversion H; subst.
  exact (wk_trans _ _ _ W1 (Hrl _ _ _ _ (wk_oksrc _ _ W1) E2)).
Qed.

Lemma decode_body_adv rl s v s' : rl_wk rl -> decode_body rl s = DOk v s' -> adv s s'.
Proof.
  intros Hrl H. apply decode_body_inv in H.
  destruct H as [[x [s1 [_ H]]]|[ty [s1 [Hnb H]]]]; [discriminate|].
  pose proof (next_byte_adv' _ _ _ Hnb) as A. pose proof (adv_oksrc _ _ A) as Hok.
  apply (adv_wk_trans _ s1); [exact A|].
  destruct H as [[_ H]|[[_ H]|[[_ H]|[[_ H]|[[_ H]|[[_ H]|[[_ H]|H]]]]]]]; try discriminate; symmetry in H.
  - exact (dec_sized_wk _ _ _ _ Hok H).
  - exact (dec_sized_wk _ _ _ _ Hok H).
  - exact (dec_fixed_wk _ _ _ _ _ Hok H).
  - exact (dec_bool_wk _ _ _ Hok H).
  - exact (dec_fixed_wk _ _ _ _ _ Hok H).
  - exact (dec_fixed_wk _ _ _ _ _ Hok H).
  - exact (dec_list_wk _ _ _ _ Hrl Hok H).
Qed.

(** The only way for the body to run out of fuel is through the element decoder, which is only
    called on a strictly later position. *)
Lemma decode_body_fuel rl s :
  decode_body rl s = DFuel -> exists n s2, rl n s2 = DFuel /\ adv s s2.
Proof.
  intro H. apply decode_body_inv in H.
  destruct H as [[x [s1 [_ H]]]|[ty [s1 [Hnb H]]]]; [discriminate|].
  pose proof (next_byte_adv' _ _ _ Hnb) as A. pose proof (adv_oksrc _ _ A) as Hok.
  destruct H as [[_ H]|[[_ H]|[[_ H]|[[_ H]|[[_ H]|[[_ H]|[[_ H]|H]]]]]]]; try discriminate; symmetry in H.
  - destruct (dec_sized_nofuel _ _ H).
  - destruct (dec_sized_nofuel _ _ H).
  - destruct (dec_fixed_nofuel _ _ _ H).
  - destruct (dec_bool_nofuel _ H).
  - destruct (dec_fixed_nofuel _ _ _ H).
  - destruct (dec_fixed_nofuel _ _ _ H).
  - revert H. unfold dec_list, next_uint32.
    destruct (next_uint UINT32_SIZE s1) as [[size e] s2] eqn:E1. destruct e; [discriminate|].
    pose proof (next_uint_adv _ _ _ _ _ E1 Hok) as W1.
    destruct (rl size s2) as [l s3| |] eqn:E2; try discriminate.
    intros _. exists size, s2. split; [exact E2|exact (adv_wk_trans _ _ _ A W1)].
Qed.

Definition dv_adv (dv : source -> dres value) : Prop := forall s v s', dv s = DOk v s' -> adv s s'.

Lemma decode_loop_wk dv k : dv_adv dv -> forall n s l s', oksrc s -> decode_loop dv k n s = DOk l s' -> wk s s'.
Proof.
  intro Hdv. induction k as [|k IH]; intros n s l s' Hok; cbn [decode_loop].
  - destruct (n =? 0); [|discriminate]. intro H; inversion H; subst. apply wk_refl; exact Hok.
  - destruct (n =? 0); [intro H; inversion H; subst; apply wk_refl; exact Hok|].
    destruct (dv s) as [v s1| |] eqn:E; try discriminate.
    pose proof (Hdv _ _ _ E) as A.
    destruct (decode_loop dv k (n - 1) s1) as [l1 s2| |] eqn:E2; try discriminate.
    intro H; inversion H; subst.
    pose proof (IH _ _ _ _ (adv_oksrc _ _ A) E2) as W.
    destruct A as [A1 A2]. destruct W as [W1 W2]. rewrite A1 in *. split; [congruence|lia].
Qed.

Lemma decode_fuel_S f s : decode_fuel (S f) s = decode_body (decode_loop (decode_fuel f) f) s.
Proof. reflexivity. Qed.

Lemma decode_fuel_adv f : dv_adv (decode_fuel f).
Proof.
  induction f as [|f IH]; intros s v s'; [discriminate|]. rewrite decode_fuel_S.
  apply decode_body_adv. intros n s2 l s3 Hok. apply decode_loop_wk; assumption.
Qed.

Lemma decode_loop_nofuel dv k :
  dv_adv dv -> forall n s, (remaining s < k)%nat ->
  (forall s3, wk s s3 -> dv s3 <> DFuel) -> oksrc s -> decode_loop dv k n s <> DFuel.
Proof.
  intro Hdv. induction k as [|k IH]; intros n s Hr Hnf Hok; [lia|].
  cbn [decode_loop]. destruct (n =? 0); [discriminate|].
  destruct (dv s) as [v s1| |] eqn:E.
  - pose proof (Hdv _ _ _ E) as A.
    assert (N1 : decode_loop dv k (n - 1) s1 <> DFuel).
    { apply IH.
      - pose proof (adv_remaining _ _ A); lia.
      - intros s3 W. apply Hnf. destruct A as [A1 A2]; destruct W as [W1 W2]. rewrite A1 in *.
        split; [congruence|lia].
      - exact (adv_oksrc _ _ A). }
    destruct (decode_loop dv k (n - 1) s1); [discriminate|discriminate|contradiction].
  - discriminate.
  - exfalso. apply (Hnf s); [apply wk_refl; exact Hok|exact E].
Qed.

Lemma decode_fuel_total f : forall s, (remaining s <= f)%nat -> decode_fuel (S f) s <> DFuel.
Proof.
  induction f as [|f IH]; intros s Hr H; rewrite decode_fuel_S in H;
    apply decode_body_fuel in H; destruct H as [n [s2 [H A]]]; pose proof (adv_remaining _ _ A) as Hlt.
  - lia.
  - revert H. apply decode_loop_nofuel.
    + apply decode_fuel_adv.
    + lia.
    + intros s3 W. apply IH. pose proof (wk_remaining _ _ W). lia.
    + exact (adv_oksrc _ _ A).
Qed.

Lemma decode_value_total s : decode_value s <> DFuel.
Proof. apply decode_fuel_total. lia. Qed.

Lemma decode_value_adv s v s' : decode_value s = DOk v s' -> adv s s'.
Proof. apply decode_fuel_adv. Qed.

(** * Monotonicity in the fuel: more fuel never changes a result that is not [DFuel] *)
Definition le_res {A : Type} (r r' : dres A) : Prop := r = DFuel \/ r = r'.

Lemma decode_loop_mono dv dv' k :
  (forall s, le_res (dv s) (dv' s)) ->
  forall k' n s, (k <= k')%nat -> le_res (decode_loop dv k n s) (decode_loop dv' k' n s).
Proof.
  intro Hdv. induction k as [|k IH]; intros k' n s Hk.
  - cbn [decode_loop]. destruct k'; cbn [decode_loop]; destruct (n =? 0); try (right; reflexivity); left; reflexivity.
  - destruct k' as [|k']; [lia|]. cbn [decode_loop]. destruct (n =? 0); [right; reflexivity|].
    destruct (Hdv s) as [E|E]; rewrite E; [left; reflexivity|].
    destruct (dv' s) as [v s1| |]; try (right; reflexivity).
    destruct (IH k' (n - 1) s1 ltac:(lia)) as [E2|E2]; rewrite E2; [left; reflexivity|right; reflexivity].
Qed.

Lemma dec_list_mono rl rl' s1 :
  (forall n s, le_res (rl n s) (rl' n s)) -> le_res (dec_list rl s1) (dec_list rl' s1).
Proof.
  intro H. unfold dec_list. destruct (next_uint32 s1) as [[size e] s2]. destruct e; [right; reflexivity|].
  destruct (H size s2) as [E|E]; rewrite E; [left; reflexivity|right; reflexivity].
Qed.

Lemma decode_body_mono rl rl' s :
  (forall n s, le_res (rl n s) (rl' n s)) -> le_res (decode_body rl s) (decode_body rl' s).
Proof.
  intro H. unfold decode_body. destruct (next_byte s) as [[ty e] s1]. destruct e; [right; reflexivity|].
  repeat (match goal with |- context [if ?c then _ else _] => destruct c end; [right; reflexivity|]).
  destruct (ty =? ListType); [apply dec_list_mono; exact H|right; reflexivity].
Qed.

Lemma decode_fuel_mono f : forall f' s, (f <= f')%nat -> le_res (decode_fuel f s) (decode_fuel f' s).
Proof.
  induction f as [|f IH]; intros f' s Hf; [left; reflexivity|].
  destruct f' as [|f']; [lia|]. rewrite !decode_fuel_S.
  apply decode_body_mono. intros n s2. apply decode_loop_mono; [|lia].
  intro s3. apply IH. lia.
Qed.

Lemma decode_fuel_indep f s : (remaining s < f)%nat -> decode_fuel f s = decode_value s.
Proof.
  intro H. destruct (decode_fuel_mono (S (remaining s)) f s ltac:(lia)) as [E|E].
  - destruct (decode_value_total s E).
  - symmetry; exact E.
Qed.

Lemma decode_fuel_complete f s r : decode_fuel f s = r -> r <> DFuel -> decode_value s = r.
Proof.
  intros H Hr.
  destruct (decode_fuel_mono f (f + S (remaining s)) s ltac:(lia)) as [E|E]; [congruence|].
  rewrite <- H, E. symmetry. apply decode_fuel_indep. lia.
Qed.
