(** Proofs about Model/CrossVM.v (property C25). *)
From Coq Require Import List Bool Arith NArith ZArith Lia ZifyN ZifyNat ZifyBool.
Import ListNotations.
From Ont Require Import Lib.Bytes Gen.CodecConsts Gen.CrossVMConsts Model.Codec Model.CrossVM.
Local Open Scope N_scope.
Ltac Zify.zify_post_hook ::= Z.to_euclidean_division_equations.

(** * Positions in a source *)

(** [at_pos s pre rest]: the bytes before the offset are [pre], the unread bytes are [rest]. *)
Definition at_pos (s : source) (pre rest : bytes) : Prop := buf s = pre ++ rest /\ off s = length pre.

(** The buffer length fits a uint64 (every Go slice does). *)
Definition fits (s : source) : Prop := N.of_nat (length (buf s)) < two64.

Definition moved (s : source) (n : nat) : source := mkSrc (buf s) (off s + n).

Lemma at_pos_new b : at_pos (src_new b) [] b.
Proof. split; reflexivity. Qed.

Lemma at_pos_moved s pre d post :
  at_pos s pre (d ++ post) -> at_pos (moved s (length d)) (pre ++ d) post.
Proof.
  intros [Hb Ho]; split; cbn [moved buf off].
  - rewrite Hb, <- app_assoc; reflexivity.
  - rewrite Ho, app_length; reflexivity.
Qed.

Lemma at_pos_remaining s pre rest : at_pos s pre rest -> remaining s = length rest.
Proof. intros [Hb Ho]; unfold remaining; rewrite Hb, Ho, app_length; lia. Qed.

Lemma fits_moved s n : fits s -> fits (moved s n).
Proof. exact (fun H => H). Qed.

Lemma moved_moved s a b : moved (moved s a) b = moved s (a + b).
Proof. unfold moved; cbn [buf off]; f_equal; lia. Qed.

(** ** NextBytes *)
Lemma next_bytes_spec s pre d post :
  at_pos s pre (d ++ post) -> fits s ->
  next_bytes s (N.of_nat (length d)) = (d, false, moved s (length d)).
Proof.
  intros [Hb Ho] Hf. unfold fits in Hf. unfold next_bytes.
  assert (Hl : length (buf s) = (length pre + (length d + length post))%nat)
    by (rewrite Hb, !app_length; reflexivity).
  replace ((two64 <=? N.of_nat (off s) + N.of_nat (length d))
           || (N.of_nat (length (buf s)) <? N.of_nat (off s) + N.of_nat (length d))) with false
    by (symmetry; apply orb_false_iff; split; [apply N.leb_gt|apply N.ltb_ge]; lia).
  rewrite Nat2N.id. unfold moved. f_equal; [f_equal|f_equal; lia].
  rewrite Hb, Ho. apply slice_app_exact.
Qed.

Lemma next_bytes_inv s pre rest n d s' :
  at_pos s pre rest -> next_bytes s n = (d, false, s') ->
  exists post, rest = d ++ post /\ n = N.of_nat (length d) /\ s' = moved s (length d).
Proof.
  intros [Hb Ho]. unfold next_bytes.
  destruct ((two64 <=? N.of_nat (off s) + n) || (N.of_nat (length (buf s)) <? N.of_nat (off s) + n)) eqn:E;
    [intro H; inversion H|].
  apply orb_false_iff in E; destruct E as [_ E2]; apply N.ltb_ge in E2.
  intro H; inversion H; subst d s'; clear H.
  assert (Hl : length (buf s) = (length pre + length rest)%nat) by (rewrite Hb, app_length; reflexivity).
  assert (Hs : slice (buf s) (off s) (N.to_nat n) = firstn (N.to_nat n) rest).
  { unfold slice. rewrite Hb, Ho, skipn_app, skipn_all, Nat.sub_diag. reflexivity. }
  assert (Hlen : length (firstn (N.to_nat n) rest) = N.to_nat n) by (rewrite firstn_length; lia).
  exists (skipn (N.to_nat n) rest). rewrite Hs, Hlen. split; [|split].
  - symmetry; apply firstn_skipn.
  - lia.
  - unfold moved; f_equal; lia.
Qed.

(** Progress and bounds, for any source. *)
Lemma next_bytes_adv s n d e s' :
  next_bytes s n = (d, e, s') -> (off s <= length (buf s))%nat ->
  buf s' = buf s /\ (off s <= off s' <= length (buf s))%nat.
Proof.
  unfold next_bytes.
  destruct ((two64 <=? N.of_nat (off s) + n) || (N.of_nat (length (buf s)) <? N.of_nat (off s) + n)) eqn:E;
    intros H Hle; inversion H; subst; cbn [buf off].
  - split; [reflexivity|lia].
  - apply orb_false_iff in E; destruct E as [_ E2]; apply N.ltb_ge in E2. split; [reflexivity|lia].
Qed.

(** ** NextByte *)
Lemma next_byte_spec s pre x post :
  at_pos s pre (x :: post) -> next_byte s = (x, false, moved s 1).
Proof.
  intros [Hb Ho]. unfold next_byte.
  assert (Hl : length (buf s) = (length pre + S (length post))%nat) by (rewrite Hb, app_length; reflexivity).
  replace (length (buf s) <=? off s)%nat with false by (symmetry; apply Nat.leb_gt; lia).
  unfold moved. f_equal; [f_equal|f_equal; lia].
  rewrite Hb, Ho. apply nth_middle.
Qed.

Lemma next_byte_inv s pre rest x s' :
  at_pos s pre rest -> next_byte s = (x, false, s') ->
  exists post, rest = x :: post /\ s' = moved s 1.
Proof.
  intros [Hb Ho]. unfold next_byte.
  destruct (length (buf s) <=? off s)%nat eqn:E; [intro H; inversion H|].
  apply Nat.leb_gt in E. intro H; inversion H; subst x s'; clear H.
  assert (Hl : length (buf s) = (length pre + length rest)%nat) by (rewrite Hb, app_length; reflexivity).
  destruct rest as [|y post]; [cbn in Hl; lia|].
  exists post. split; [|unfold moved; f_equal; lia].
  rewrite Hb, Ho, nth_middle. reflexivity.
Qed.

Lemma next_byte_adv s x s' :
  next_byte s = (x, false, s') -> buf s' = buf s /\ off s' = S (off s) /\ (off s' <= length (buf s))%nat.
Proof.
  unfold next_byte. destruct (length (buf s) <=? off s)%nat eqn:E; intro H; inversion H; subst.
  apply Nat.leb_gt in E. cbn [buf off]. repeat split; lia.
Qed.

Lemma next_byte_eof_remaining s x e s' :
  next_byte s = (x, e, s') -> remaining s = 0%nat -> e = true.
Proof.
  unfold next_byte, remaining. destruct (length (buf s) <=? off s)%nat eqn:E; intros H Hr; inversion H; subst; auto.
  apply Nat.leb_gt in E; lia.
Qed.

(** ** Fixed-width reads *)
Lemma next_uint_spec w s pre v post :
  at_pos s pre (le_encode w v ++ post) -> fits s -> v < 256 ^ N.of_nat w ->
  next_uint w s = (v, false, moved s w).
Proof.
  intros Hp Hf Hv. unfold next_uint.
  pose proof (next_bytes_spec s pre (le_encode w v) post Hp Hf) as H.
  rewrite le_encode_length in H. rewrite H.
  rewrite le_decode_encode_small by exact Hv. reflexivity.
Qed.

Lemma next_uint_inv w s pre rest v s' :
  at_pos s pre rest -> wf_bytes rest = true -> next_uint w s = (v, false, s') ->
  exists post, rest = le_encode w v ++ post /\ v < 256 ^ N.of_nat w /\ s' = moved s w.
Proof.
  intros Hp Hw. unfold next_uint.
  destruct (next_bytes s (N.of_nat w)) as [[d e] s1] eqn:E.
  destruct e; intro H; inversion H; subst v s'; clear H.
  destruct (next_bytes_inv _ _ _ _ _ _ Hp E) as [post [Hr [Hn Hs]]].
  apply Nat2N.inj in Hn. subst rest w.
  rewrite wf_bytes_app in Hw; apply andb_prop in Hw; destruct Hw as [Hwd _].
  exists post. split; [|split].
  - rewrite le_encode_decode by exact Hwd. reflexivity.
  - apply le_decode_bound; exact Hwd.
  - exact Hs.
Qed.

Lemma next_uint_adv w s v e s' :
  next_uint w s = (v, e, s') -> (off s <= length (buf s))%nat ->
  buf s' = buf s /\ (off s <= off s' <= length (buf s))%nat.
Proof.
  unfold next_uint. destruct (next_bytes s (N.of_nat w)) as [[d e0] s1] eqn:E.
  intros H Hle. pose proof (next_bytes_adv _ _ _ _ _ E Hle) as Ha.
  destruct e0; inversion H; subst; exact Ha.
Qed.

Lemma next_fixed_spec w s pre d post :
  at_pos s pre (d ++ post) -> fits s -> length d = w ->
  next_fixed w s = (d, false, moved s w).
Proof.
  intros Hp Hf Hl. unfold next_fixed.
  pose proof (next_bytes_spec s pre d post Hp Hf) as H. rewrite Hl in H. rewrite H. reflexivity.
Qed.

Lemma next_fixed_inv w s pre rest d s' :
  at_pos s pre rest -> next_fixed w s = (d, false, s') ->
  exists post, rest = d ++ post /\ length d = w /\ s' = moved s w.
Proof.
  intros Hp. unfold next_fixed.
  destruct (next_bytes s (N.of_nat w)) as [[d0 e] s1] eqn:E.
  destruct e; intro H; inversion H; subst d0 s1; clear H.
  destruct (next_bytes_inv _ _ _ _ _ _ Hp E) as [post [Hr [Hn Hs]]].
  apply Nat2N.inj in Hn. subst w. exists post. repeat split; auto.
Qed.

Lemma next_fixed_adv w s d e s' :
  next_fixed w s = (d, e, s') -> (off s <= length (buf s))%nat ->
  buf s' = buf s /\ (off s <= off s' <= length (buf s))%nat.
Proof.
  unfold next_fixed. destruct (next_bytes s (N.of_nat w)) as [[d0 e0] s1] eqn:E.
  intros H Hle. pose proof (next_bytes_adv _ _ _ _ _ E Hle) as Ha.
  destruct e0; inversion H; subst; exact Ha.
Qed.

(** ** NextBool *)
Lemma next_bool_adv s b i e s' :
  next_bool s = (b, i, e, s') -> e = false ->
  buf s' = buf s /\ off s' = S (off s) /\ (off s' <= length (buf s))%nat.
Proof.
  unfold next_bool. destruct (next_byte s) as [[x e0] s1] eqn:E. intros H He.
  assert (e0 = e /\ s1 = s') as [-> ->]
    by (destruct (x =? 0); [|destruct (x =? 1)]; inversion H; auto).
  subst e. exact (next_byte_adv _ _ _ E).
Qed.

(** * Progress, bounds and totality of the decoder (any source, any bytes) *)
Definition oksrc (s : source) : Prop := (off s <= length (buf s))%nat.
Definition wk (s s' : source) : Prop := buf s' = buf s /\ (off s <= off s' <= length (buf s))%nat.
Definition adv (s s' : source) : Prop := buf s' = buf s /\ (off s < off s' <= length (buf s))%nat.

Lemma wk_refl s : oksrc s -> wk s s.
Proof. unfold wk, oksrc; intros; split; [reflexivity|lia]. Qed.
Lemma wk_trans a b c : wk a b -> wk b c -> wk a c.
Proof. unfold wk; intros [H1 H2] [H3 H4]; rewrite H1 in *; split; [congruence|lia]. Qed.
Lemma adv_wk_trans a b c : adv a b -> wk b c -> adv a c.
Proof. unfold adv, wk; intros [H1 H2] [H3 H4]; rewrite H1 in *; split; [congruence|lia]. Qed.
Lemma wk_oksrc a b : wk a b -> oksrc b.
Proof. unfold wk, oksrc; intros [H1 H2]; rewrite H1; lia. Qed.
Lemma adv_oksrc a b : adv a b -> oksrc b.
Proof. unfold adv, oksrc; intros [H1 H2]; rewrite H1; lia. Qed.
Lemma adv_remaining a b : adv a b -> (remaining b < remaining a)%nat.
Proof. unfold adv, remaining; intros [H1 H2]; rewrite H1; lia. Qed.
Lemma wk_remaining a b : wk a b -> (remaining b <= remaining a)%nat.
Proof. unfold wk, remaining; intros [H1 H2]; rewrite H1; lia. Qed.

Lemma next_byte_adv' s x s' : next_byte s = (x, false, s') -> adv s s'.
Proof. intro H; destruct (next_byte_adv _ _ _ H) as [H1 [H2 H3]]; split; [exact H1|lia]. Qed.

Lemma dec_sized_wk mk s1 v s' : oksrc s1 -> dec_sized mk s1 = DOk v s' -> wk s1 s'.
Proof.
  intros Hok. unfold dec_sized, next_uint32.
  destruct (next_uint UINT32_SIZE s1) as [[size e] s2] eqn:E1. destruct e; [discriminate|].
  destruct (next_bytes s2 size) as [[b e] s3] eqn:E2. destruct e; [discriminate|].
  intro H; inversion H; subst.
  pose proof (next_uint_adv _ _ _ _ _ E1 Hok) as W1.
  assert (Hok2 : oksrc s2) by (apply (wk_oksrc s1); exact W1).
  pose proof (next_bytes_adv _ _ _ _ _ E2 Hok2) as W2.
  exact (wk_trans _ _ _ W1 W2).
Qed.

Lemma dec_sized_nofuel mk s1 : dec_sized mk s1 <> DFuel.
Proof.
  unfold dec_sized. destruct (next_uint32 s1) as [[size e] s2]. destruct e; [discriminate|].
  destruct (next_bytes s2 size) as [[b e] s3]. destruct e; discriminate.
Qed.

Lemma dec_fixed_wk w mk s1 v s' : oksrc s1 -> dec_fixed (next_fixed w) mk s1 = DOk v s' -> wk s1 s'.
Proof.
  intros Hok. unfold dec_fixed. destruct (next_fixed w s1) as [[x e] s2] eqn:E1.
  destruct e; [discriminate|]. intro H; inversion H; subst.
  exact (next_fixed_adv _ _ _ _ _ E1 Hok).
Qed.

Lemma dec_fixed_nofuel rd mk s1 : dec_fixed rd mk s1 <> DFuel.
Proof. unfold dec_fixed. destruct (rd s1) as [[x e] s2]. destruct e; discriminate. Qed.

Lemma dec_bool_wk s1 v s' : oksrc s1 -> dec_bool s1 = DOk v s' -> wk s1 s'.
Proof.
  intros Hok. unfold dec_bool. destruct (next_bool s1) as [[[b i] e] s2] eqn:E1.
  destruct e; [discriminate|]. destruct i; [discriminate|]. intro H; inversion H; subst.
  destruct (next_bool_adv _ _ _ _ _ E1 eq_refl) as [H1 [H2 H3]]. split; [exact H1|lia].
Qed.

Lemma dec_bool_nofuel s1 : dec_bool s1 <> DFuel.
Proof.
  unfold dec_bool. destruct (next_bool s1) as [[[b i] e] s2]. destruct e; [discriminate|]. destruct i; discriminate.
Qed.

(** Case analysis of the switch. *)
Lemma decode_body_inv rl s r :
  decode_body rl s = r ->
  (exists x s1, next_byte s = (x, true, s1) /\ r = DErr ErrFormat) \/
  (exists ty s1, next_byte s = (ty, false, s1) /\
     ((ty = ByteArrayType /\ r = dec_sized XBytes s1) \/
      (ty = StringType /\ r = dec_sized XString s1) \/
      (ty = AddressType /\ r = dec_fixed next_address XAddress s1) \/
      (ty = BooleanType /\ r = dec_bool s1) \/
      (ty = IntType /\ r = dec_fixed next_i128 (fun x => XInt (i128_to_big x)) s1) \/
      (ty = H256Type /\ r = dec_fixed next_hash XH256 s1) \/
      (ty = ListType /\ r = dec_list rl s1) \/
      r = DErr ErrNotSupported)).
Proof.
  unfold decode_body. destruct (next_byte s) as [[ty e] s1]. destruct e.
  - intro H; left; eauto.
  - intro H; right; exists ty, s1; split; [reflexivity|].
    destruct (N.eqb_spec ty ByteArrayType); [auto|].
    destruct (N.eqb_spec ty StringType); [auto|].
    destruct (N.eqb_spec ty AddressType); [auto 6|].
    destruct (N.eqb_spec ty BooleanType); [auto 6|].
    destruct (N.eqb_spec ty IntType); [auto 8|].
    destruct (N.eqb_spec ty H256Type); [auto 8|].
    destruct (N.eqb_spec ty ListType); [auto 10|].
    auto 10.
Qed.

Definition rl_wk (rl : N -> source -> dres (list value)) : Prop :=
  forall n s2 l s3, oksrc s2 -> rl n s2 = DOk l s3 -> wk s2 s3.

Lemma dec_list_wk rl s1 v s' : rl_wk rl -> oksrc s1 -> dec_list rl s1 = DOk v s' -> wk s1 s'.
Proof.
  intros Hrl Hok. unfold dec_list, next_uint32.
  destruct (next_uint UINT32_SIZE s1) as [[size e] s2] eqn:E1. destruct e; [discriminate|].
  pose proof (next_uint_adv _ _ _ _ _ E1 Hok) as W1.
  destruct (rl size s2) as [l s3| |] eqn:E2; try discriminate.
  intro H; inversion H; subst.
  exact (wk_trans _ _ _ W1 (Hrl _ _ _ _ (wk_oksrc _ _ W1) E2)).
Qed.

Lemma decode_body_adv rl s v s' : rl_wk rl -> decode_body rl s = DOk v s' -> adv s s'.
Proof.
  intros Hrl H. apply decode_body_inv in H.
  destruct H as [[x [s1 [_ H]]]|[ty [s1 [Hnb H]]]]; [discriminate|].
  pose proof (next_byte_adv' _ _ _ Hnb) as A. pose proof (adv_oksrc _ _ A) as Hok.
  apply (adv_wk_trans _ s1); [exact A|].
  destruct H as [[_ H]|[[_ H]|[[_ H]|[[_ H]|[[_ H]|[[_ H]|[[_ H]|H]]]]]]]; try discriminate; symmetry in H.
  - exact (dec_sized_wk _ _ _ _ Hok H).
  - exact (dec_sized_wk _ _ _ _ Hok H).
  - exact (dec_fixed_wk _ _ _ _ _ Hok H).
  - exact (dec_bool_wk _ _ _ Hok H).
  - exact (dec_fixed_wk _ _ _ _ _ Hok H).
  - exact (dec_fixed_wk _ _ _ _ _ Hok H).
  - exact (dec_list_wk _ _ _ _ Hrl Hok H).
Qed.

(** The only way for the body to run out of fuel is through the element decoder, which is only
    called on a strictly later position. *)
Lemma decode_body_fuel rl s :
  decode_body rl s = DFuel -> exists n s2, rl n s2 = DFuel /\ adv s s2.
Proof.
  intro H. apply decode_body_inv in H.
  destruct H as [[x [s1 [_ H]]]|[ty [s1 [Hnb H]]]]; [discriminate|].
  pose proof (next_byte_adv' _ _ _ Hnb) as A. pose proof (adv_oksrc _ _ A) as Hok.
  destruct H as [[_ H]|[[_ H]|[[_ H]|[[_ H]|[[_ H]|[[_ H]|[[_ H]|H]]]]]]]; try discriminate; symmetry in H.
  - destruct (dec_sized_nofuel _ _ H).
  - destruct (dec_sized_nofuel _ _ H).
  - destruct (dec_fixed_nofuel _ _ _ H).
  - destruct (dec_bool_nofuel _ H).
  - destruct (dec_fixed_nofuel _ _ _ H).
  - destruct (dec_fixed_nofuel _ _ _ H).
  - revert H. unfold dec_list, next_uint32.
    destruct (next_uint UINT32_SIZE s1) as [[size e] s2] eqn:E1. destruct e; [discriminate|].
    pose proof (next_uint_adv _ _ _ _ _ E1 Hok) as W1.
    destruct (rl size s2) as [l s3| |] eqn:E2; try discriminate.
    intros _. exists size, s2. split; [exact E2|exact (adv_wk_trans _ _ _ A W1)].
Qed.

Definition dv_adv (dv : source -> dres value) : Prop := forall s v s', dv s = DOk v s' -> adv s s'.

Lemma decode_loop_wk dv k : dv_adv dv -> forall n s l s', oksrc s -> decode_loop dv k n s = DOk l s' -> wk s s'.
Proof.
  intro Hdv. induction k as [|k IH]; intros n s l s' Hok; cbn [decode_loop].
  - destruct (n =? 0); [|discriminate]. intro H; inversion H; subst. apply wk_refl; exact Hok.
  - destruct (n =? 0); [intro H; inversion H; subst; apply wk_refl; exact Hok|].
    destruct (dv s) as [v s1| |] eqn:E; try discriminate.
    pose proof (Hdv _ _ _ E) as A.
    destruct (decode_loop dv k (n - 1) s1) as [l1 s2| |] eqn:E2; try discriminate.
    intro H; inversion H; subst.
    pose proof (IH _ _ _ _ (adv_oksrc _ _ A) E2) as W.
    destruct A as [A1 A2]. destruct W as [W1 W2]. rewrite A1 in *. split; [congruence|lia].
Qed.

Lemma decode_fuel_S f s : decode_fuel (S f) s = decode_body (decode_loop (decode_fuel f) f) s.
Proof. reflexivity. Qed.

Lemma decode_fuel_adv f : dv_adv (decode_fuel f).
Proof.
  induction f as [|f IH]; intros s v s'; [discriminate|]. rewrite decode_fuel_S.
  apply decode_body_adv. intros n s2 l s3 Hok. apply decode_loop_wk; assumption.
Qed.

Lemma decode_loop_nofuel dv k :
  dv_adv dv -> forall n s, (remaining s < k)%nat ->
  (forall s3, wk s s3 -> dv s3 <> DFuel) -> oksrc s -> decode_loop dv k n s <> DFuel.
Proof.
  intro Hdv. induction k as [|k IH]; intros n s Hr Hnf Hok; [lia|].
  cbn [decode_loop]. destruct (n =? 0); [discriminate|].
  destruct (dv s) as [v s1| |] eqn:E.
  - pose proof (Hdv _ _ _ E) as A.
    assert (N1 : decode_loop dv k (n - 1) s1 <> DFuel).
    { apply IH.
      - pose proof (adv_remaining _ _ A); lia.
      - intros s3 W. apply Hnf. destruct A as [A1 A2]; destruct W as [W1 W2]. rewrite A1 in *.
        split; [congruence|lia].
      - exact (adv_oksrc _ _ A). }
    destruct (decode_loop dv k (n - 1) s1); [discriminate|discriminate|contradiction].
  - discriminate.
  - exfalso. apply (Hnf s); [apply wk_refl; exact Hok|exact E].
Qed.

Lemma decode_fuel_total f : forall s, (remaining s <= f)%nat -> decode_fuel (S f) s <> DFuel.
Proof.
  induction f as [|f IH]; intros s Hr H; rewrite decode_fuel_S in H;
    apply decode_body_fuel in H; destruct H as [n [s2 [H A]]]; pose proof (adv_remaining _ _ A) as Hlt.
  - lia.
  - revert H. apply decode_loop_nofuel.
    + apply decode_fuel_adv.
    + lia.
    + intros s3 W. apply IH. pose proof (wk_remaining _ _ W). lia.
    + exact (adv_oksrc _ _ A).
Qed.

Lemma decode_value_total s : decode_value s <> DFuel.
Proof. apply decode_fuel_total. lia. Qed.

Lemma decode_value_adv s v s' : decode_value s = DOk v s' -> adv s s'.
Proof. apply decode_fuel_adv. Qed.

(** * Monotonicity in the fuel: more fuel never changes a result that is not [DFuel] *)
Definition le_res {A : Type} (r r' : dres A) : Prop := r = DFuel \/ r = r'.

Lemma decode_loop_mono dv dv' k :
  (forall s, le_res (dv s) (dv' s)) ->
  forall k' n s, (k <= k')%nat -> le_res (decode_loop dv k n s) (decode_loop dv' k' n s).
Proof.
  intro Hdv. induction k as [|k IH]; intros k' n s Hk.
  - cbn [decode_loop]. destruct k'; cbn [decode_loop]; destruct (n =? 0); try (right; reflexivity); left; reflexivity.
  - destruct k' as [|k']; [lia|]. cbn [decode_loop]. destruct (n =? 0); [right; reflexivity|].
    destruct (Hdv s) as [E|E]; rewrite E; [left; reflexivity|].
    destruct (dv' s) as [v s1| |]; try (right; reflexivity).
    destruct (IH k' (n - 1) s1 ltac:(lia)) as [E2|E2]; rewrite E2; [left; reflexivity|right; reflexivity].
Qed.

Lemma dec_list_mono rl rl' s1 :
  (forall n s, le_res (rl n s) (rl' n s)) -> le_res (dec_list rl s1) (dec_list rl' s1).
Proof.
  intro H. unfold dec_list. destruct (next_uint32 s1) as [[size e] s2]. destruct e; [right; reflexivity|].
  destruct (H size s2) as [E|E]; rewrite E; [left; reflexivity|right; reflexivity].
Qed.

Lemma decode_body_mono rl rl' s :
  (forall n s, le_res (rl n s) (rl' n s)) -> le_res (decode_body rl s) (decode_body rl' s).
Proof.
  intro H. unfold decode_body. destruct (next_byte s) as [[ty e] s1]. destruct e; [right; reflexivity|].
  repeat (match goal with |- context [if ?c then _ else _] => destruct c end; [right; reflexivity|]).
  destruct (ty =? ListType); [apply dec_list_mono; exact H|right; reflexivity].
Qed.

Lemma decode_fuel_mono f : forall f' s, (f <= f')%nat -> le_res (decode_fuel f s) (decode_fuel f' s).
Proof.
  induction f as [|f IH]; intros f' s Hf; [left; reflexivity|].
  destruct f' as [|f']; [lia|]. rewrite !decode_fuel_S.
  apply decode_body_mono. intros n s2. apply decode_loop_mono; [|lia].
  intro s3. apply IH. lia.
Qed.

Lemma decode_fuel_indep f s : (remaining s < f)%nat -> decode_fuel f s = decode_value s.
Proof.
  intro H. destruct (decode_fuel_mono (S (remaining s)) f s ltac:(lia)) as [E|E].
  - destruct (decode_value_total s E).
  - symmetry; exact E.
Qed.

Lemma decode_fuel_complete f s r : decode_fuel f s = r -> r <> DFuel -> decode_value s = r.
Proof.
  intros H Hr.
  destruct (decode_fuel_mono f (f + S (remaining s)) s ltac:(lia)) as [E|E]; [congruence|].
  rewrite <- H, E. symmetry. apply decode_fuel_indep. lia.
Qed.

(** * common.I128 *)
Lemma two128_val : two128 = 340282366920938463463374607431768211456.
Proof. reflexivity. Qed.
Lemma maxI128_val : maxI128 = 170141183460469231731687303715884105727%Z.
Proof. reflexivity. Qed.
Lemma minI128_val : minI128 = (-170141183460469231731687303715884105728)%Z.
Proof. reflexivity. Qed.
Lemma two128_pow : 256 ^ N.of_nat I128_SIZE = two128.
Proof. reflexivity. Qed.

Lemma le_encode_mod w v : le_encode w (v mod 256 ^ N.of_nat w) = le_encode w v.
Proof.
  rewrite <- (le_decode_encode w v).
  pose proof (le_encode_decode (le_encode w v) (le_encode_wf w v)) as H.
  rewrite le_encode_length in H. exact H.
Qed.

Lemma le_encode_app a b v : le_encode (a + b) v = le_encode a v ++ le_encode b (v / 256 ^ N.of_nat a).
Proof.
  revert v; induction a as [|a IH]; intro v.
  - cbn [Nat.add le_encode app N.of_nat]. rewrite N.pow_0_r, N.div_1_r. reflexivity.
  - cbn [Nat.add le_encode app]. rewrite IH, pow256_succ, N.div_div by (try discriminate; apply N.pow_nonzero; discriminate).
    reflexivity.
Qed.

Lemma i128_to_from z x :
  i128_from_big z = Some x -> i128_to_big x = z /\ length x = I128_SIZE /\ wf_bytes x = true.
Proof.
  unfold i128_from_big.
  destruct ((maxI128 <? z)%Z || (z <? minI128)%Z) eqn:E; [discriminate|].
  remember (le_encode I128_SIZE (Z.to_N (if (z <? 0)%Z then (z + Z.of_N two128)%Z else z))) as e eqn:He.
  intro H; injection H as H; subst x e.
  split; [|split; [apply le_encode_length|apply le_encode_wf]].
  unfold i128_to_big. rewrite maxI128_val, minI128_val in *.
  rewrite le_decode_encode_small by (rewrite two128_pow, two128_val; destruct (z <? 0)%Z eqn:E0; rewrite ?two128_val; lia).
  rewrite two128_val.
  destruct (z <? 0)%Z eqn:E0.
  - replace (170141183460469231731687303715884105727 <? Z.of_N (Z.to_N (z + Z.of_N 340282366920938463463374607431768211456)))%Z with true by lia. lia.
  - replace (170141183460469231731687303715884105727 <? Z.of_N (Z.to_N z))%Z with false by lia. lia.
Qed.

Lemma i128_to_big_range x :
  wf_bytes x = true -> length x = I128_SIZE -> in_range minI128 maxI128 (i128_to_big x) = true.
Proof.
  intros Hw Hl. pose proof (le_decode_bound x Hw) as Hb. rewrite Hl, two128_pow, two128_val in Hb.
  unfold in_range, i128_to_big. rewrite maxI128_val, minI128_val, two128_val.
  destruct (170141183460469231731687303715884105727 <? Z.of_N (le_decode x))%Z eqn:E; lia.
Qed.

Lemma i128_from_to x :
  wf_bytes x = true -> length x = I128_SIZE -> i128_from_big (i128_to_big x) = Some x.
Proof.
  intros Hw Hl. pose proof (le_decode_bound x Hw) as Hb. rewrite Hl, two128_pow, two128_val in Hb.
  pose proof (le_encode_decode x Hw) as Hed. rewrite Hl in Hed.
  unfold i128_from_big, i128_to_big. rewrite maxI128_val, minI128_val, two128_val.
  set (u := le_decode x) in *.
  destruct (170141183460469231731687303715884105727 <? Z.of_N u)%Z eqn:E.
  - replace ((170141183460469231731687303715884105727 <? Z.of_N u - Z.of_N 340282366920938463463374607431768211456)%Z
             || (Z.of_N u - Z.of_N 340282366920938463463374607431768211456 <? -170141183460469231731687303715884105728)%Z) with false by lia.
    replace (Z.of_N u - Z.of_N 340282366920938463463374607431768211456 <? 0)%Z with true by lia.
    replace (Z.to_N (Z.of_N u - Z.of_N 340282366920938463463374607431768211456 + Z.of_N 340282366920938463463374607431768211456)) with u by lia.
    rewrite Hed; reflexivity.
  - replace ((170141183460469231731687303715884105727 <? Z.of_N u)%Z
             || (Z.of_N u <? -170141183460469231731687303715884105728)%Z) with false by lia.
    replace (Z.of_N u <? 0)%Z with false by lia.
    rewrite N2Z.id, Hed; reflexivity.
Qed.

(** I128FromInt64 agrees with I128FromBigInt on the int64 range. *)
Lemma i128_from_int64_eq z : int64_ok z = true -> i128_from_big z = Some (i128_from_int64 z).
Proof.
  unfold int64_ok, in_range. intro Hr.
  unfold i128_from_big, i128_from_int64, of_signed. rewrite maxI128_val, minI128_val, two128_val.
  replace ((170141183460469231731687303715884105727 <? z)%Z || (z <? -170141183460469231731687303715884105728)%Z) with false by lia.
  f_equal.
  change I128_SIZE with (UINT64_SIZE + 8)%nat. rewrite le_encode_app.
  change (I128_SIZE - UINT64_SIZE)%nat with 8%nat.
  change (256 ^ N.of_nat UINT64_SIZE) with 18446744073709551616.
  change (Z.of_N 18446744073709551616) with 18446744073709551616%Z.
  destruct (z <? 0)%Z eqn:E0.
  - f_equal.
    + rewrite <- (le_encode_mod UINT64_SIZE (Z.to_N (z + _))).
      f_equal. change (256 ^ N.of_nat UINT64_SIZE) with 18446744073709551616. lia.
    + replace (Z.to_N (z + Z.of_N 340282366920938463463374607431768211456) / 18446744073709551616) with 18446744073709551615 by lia.
      reflexivity.
  - f_equal.
    + f_equal. lia.
    + replace (Z.to_N z / 18446744073709551616) with 0 by lia. reflexivity.
Qed.

Lemma int32_int64_ok z : int32_ok z = true -> int64_ok z = true.
Proof. unfold int32_ok, int64_ok, in_range; lia. Qed.
Lemma uint32_int64_ok n : (n <? two32) = true -> int64_ok (Z.of_N n) = true.
Proof. unfold int64_ok, in_range, two32; lia. Qed.

(** * Induction principles for the nested value types *)
Section GInd.
  Variable P : gvalue -> Prop.
  Hypotheses (Hb : forall b, P (GBytes b)) (Hs : forall b, P (GString b)) (Ha : forall a, P (GAddress a))
    (Hbo : forall b, P (GBool b)) (Hh : forall h, P (GH256 h)) (Hbig : forall z, P (GBig z))
    (Hi : forall z, P (GInt z)) (Hi64 : forall z, P (GInt64 z)) (Hi32 : forall z, P (GInt32 z))
    (Hu32 : forall n, P (GUint32 n)) (Hl : forall l, Forall P l -> P (GList l)) (Ho : P GOther).
  Fixpoint gvalue_ind' (g : gvalue) : P g :=
    match g with
    | GBytes b => Hb b | GString b => Hs b | GAddress a => Ha a | GBool b => Hbo b | GH256 h => Hh h
    | GBig z => Hbig z | GInt z => Hi z | GInt64 z => Hi64 z | GInt32 z => Hi32 z | GUint32 n => Hu32 n
    | GList l => Hl l ((fix go (l : list gvalue) : Forall P l :=
                          match l with [] => Forall_nil P | x :: r => Forall_cons x (gvalue_ind' x) (go r) end) l)
    | GOther => Ho
    end.
End GInd.

Section VInd.
  Variable P : value -> Prop.
  Hypotheses (Hb : forall b, P (XBytes b)) (Hs : forall b, P (XString b)) (Ha : forall a, P (XAddress a))
    (Hbo : forall b, P (XBool b)) (Hi : forall z, P (XInt z)) (Hh : forall h, P (XH256 h))
    (Hl : forall l, Forall P l -> P (XList l)).
  Fixpoint value_ind' (v : value) : P v :=
    match v with
    | XBytes b => Hb b | XString b => Hs b | XAddress a => Ha a | XBool b => Hbo b | XInt z => Hi z | XH256 h => Hh h
    | XList l => Hl l ((fix go (l : list value) : Forall P l :=
                          match l with [] => Forall_nil P | x :: r => Forall_cons x (value_ind' x) (go r) end) l)
    end.
End VInd.

(** * Tags (values regenerated from the source) *)
Lemma decode_body_bytes rl s s1 : next_byte s = (ByteArrayType, false, s1) -> decode_body rl s = dec_sized XBytes s1.
Proof. intro H; unfold decode_body; rewrite H; reflexivity. Qed.
Lemma decode_body_string rl s s1 : next_byte s = (StringType, false, s1) -> decode_body rl s = dec_sized XString s1.
Proof. intro H; unfold decode_body; rewrite H; reflexivity. Qed.
Lemma decode_body_address rl s s1 : next_byte s = (AddressType, false, s1) -> decode_body rl s = dec_fixed next_address XAddress s1.
Proof. intro H; unfold decode_body; rewrite H; reflexivity. Qed.
Lemma decode_body_bool rl s s1 : next_byte s = (BooleanType, false, s1) -> decode_body rl s = dec_bool s1.
Proof. intro H; unfold decode_body; rewrite H; reflexivity. Qed.
Lemma decode_body_int rl s s1 : next_byte s = (IntType, false, s1) ->
  decode_body rl s = dec_fixed next_i128 (fun x => XInt (i128_to_big x)) s1.
Proof. intro H; unfold decode_body; rewrite H; reflexivity. Qed.
Lemma decode_body_h256 rl s s1 : next_byte s = (H256Type, false, s1) -> decode_body rl s = dec_fixed next_hash XH256 s1.
Proof. intro H; unfold decode_body; rewrite H; reflexivity. Qed.
Lemma decode_body_list rl s s1 : next_byte s = (ListType, false, s1) -> decode_body rl s = dec_list rl s1.
Proof. intro H; unfold decode_body; rewrite H; reflexivity. Qed.

Lemma tags_are_bytes :
  write_uint8 ByteArrayType = [ByteArrayType] /\ write_uint8 StringType = [StringType] /\
  write_uint8 AddressType = [AddressType] /\ write_uint8 BooleanType = [BooleanType] /\
  write_uint8 IntType = [IntType] /\ write_uint8 H256Type = [H256Type] /\ write_uint8 ListType = [ListType].
Proof. repeat split. Qed.

Lemma tags_distinct :
  NoDup [ByteArrayType; StringType; AddressType; BooleanType; IntType; H256Type; ListType].
Proof. repeat constructor; cbn; intuition discriminate. Qed.

(** * Per-case specifications (reading what the encoder wrote) *)
Lemma moved_0 s : moved s 0 = s.
Proof. destruct s as [b o]; unfold moved; cbn [buf off]; f_equal; lia. Qed.

Lemma len32_small {A} (l : list A) : N.of_nat (length l) < two32 -> len32 l = N.of_nat (length l).
Proof. intro H; unfold len32; apply N.mod_small; exact H. Qed.

Lemma two32_pow' : 256 ^ N.of_nat UINT32_SIZE = two32.
Proof. reflexivity. Qed.

Lemma dec_sized_spec mk s1 pre d post :
  at_pos s1 pre (write_uint32 (N.of_nat (length d)) ++ d ++ post) -> fits s1 -> N.of_nat (length d) < two32 ->
  dec_sized mk s1 = DOk (mk d) (moved s1 (UINT32_SIZE + length d)).
Proof.
  intros Hp Hf Hlt. unfold dec_sized, next_uint32, write_uint32 in *.
  rewrite (next_uint_spec _ _ _ _ _ Hp Hf) by (rewrite two32_pow'; exact Hlt).
  apply at_pos_moved in Hp. rewrite le_encode_length in Hp.
  rewrite (next_bytes_spec _ _ _ _ Hp (fits_moved _ _ Hf)). rewrite moved_moved. reflexivity.
Qed.

Lemma dec_sized_inv mk s1 v s' pre rest :
  dec_sized mk s1 = DOk v s' -> at_pos s1 pre rest -> wf_bytes rest = true ->
  exists d post, rest = write_uint32 (N.of_nat (length d)) ++ d ++ post /\ N.of_nat (length d) < two32 /\
                 wf_bytes d = true /\ v = mk d /\ s' = moved s1 (UINT32_SIZE + length d).
Proof.
  intros H Hp Hw. unfold dec_sized, next_uint32, write_uint32 in *.
  destruct (next_uint UINT32_SIZE s1) as [[size e] s2] eqn:E1. destruct e; [discriminate|].
  destruct (next_bytes s2 size) as [[d e] s3] eqn:E2. destruct e; [discriminate|].
  injection H as Hv Hs. subst v s'.
  destruct (next_uint_inv _ _ _ _ _ _ Hp Hw E1) as [post1 [Hr [Hlt Hs2]]]. subst rest s2.
  apply at_pos_moved in Hp. rewrite le_encode_length in Hp.
  destruct (next_bytes_inv _ _ _ _ _ _ Hp E2) as [post [Hr2 [Hn Hs3]]]. subst post1 size s3.
  rewrite !wf_bytes_app in Hw. apply andb_prop in Hw; destruct Hw as [_ Hw]. apply andb_prop in Hw; destruct Hw as [Hwd _].
  exists d, post. rewrite moved_moved. rewrite two32_pow' in Hlt. repeat split; auto.
Qed.

Lemma dec_fixed_spec w mk s1 pre d post :
  at_pos s1 pre (d ++ post) -> fits s1 -> length d = w ->
  dec_fixed (next_fixed w) mk s1 = DOk (mk d) (moved s1 w).
Proof. intros Hp Hf Hl. unfold dec_fixed. rewrite (next_fixed_spec _ _ _ _ _ Hp Hf Hl). reflexivity. Qed.

Lemma dec_fixed_inv w mk s1 v s' pre rest :
  dec_fixed (next_fixed w) mk s1 = DOk v s' -> at_pos s1 pre rest -> wf_bytes rest = true ->
  exists d post, rest = d ++ post /\ length d = w /\ wf_bytes d = true /\ v = mk d /\ s' = moved s1 w.
Proof.
  intros H Hp Hw. unfold dec_fixed in H.
  destruct (next_fixed w s1) as [[d e] s2] eqn:E1. destruct e; [discriminate|]. injection H as Hv Hs. subst v s'.
  destruct (next_fixed_inv _ _ _ _ _ _ Hp E1) as [post [Hr [Hl Hs2]]]. subst rest s2.
  rewrite wf_bytes_app in Hw. apply andb_prop in Hw; destruct Hw as [Hwd _].
  exists d, post. repeat split; auto.
Qed.

Lemma dec_bool_spec s1 pre (b : bool) post :
  at_pos s1 pre ((if b then write_uint8 1 else write_uint8 0) ++ post) ->
  dec_bool s1 = DOk (XBool b) (moved s1 1).
Proof.
  intro Hp. unfold dec_bool, next_bool.
  destruct b; cbn [write_uint8 app] in Hp; rewrite (next_byte_spec _ _ _ _ Hp); reflexivity.
Qed.

Lemma dec_bool_inv s1 v s' pre rest :
  dec_bool s1 = DOk v s' -> at_pos s1 pre rest ->
  exists (b : bool) post, rest = (if b then write_uint8 1 else write_uint8 0) ++ post /\ v = XBool b /\ s' = moved s1 1.
Proof.
  intros H Hp. unfold dec_bool, next_bool in H.
  destruct (next_byte s1) as [[x e] s2] eqn:E1.
  destruct (N.eqb_spec x 0) as [->|N0].
  - destruct e; [discriminate|]. injection H as Hv Hs.
    destruct (next_byte_inv _ _ _ _ _ Hp E1) as [post [Hr Hs2]]. exists false, post. subst; auto.
  - destruct (N.eqb_spec x 1) as [->|N1].
    + destruct e; [discriminate|]. injection H as Hv Hs.
      destruct (next_byte_inv _ _ _ _ _ Hp E1) as [post [Hr Hs2]]. exists true, post. subst; auto.
    + destruct e; discriminate.
Qed.

(** * Encoder facts *)
Lemma g_encode_elem_nonempty g b : g_encode_elem g = EOk b -> (1 <= length b)%nat.
Proof.
  destruct g; cbn [g_encode_elem]; try (intro H; injection H as <-; cbn; lia); try discriminate.
  - unfold enc_bigint. destruct (i128_from_big z); [|discriminate]. intro H; injection H as <-; cbn; lia.
  - destruct (enc_seq g_encode_elem l); try discriminate. intro H; injection H as <-; cbn; lia.
Qed.

Lemma enc_seq_length l : forall body, enc_seq g_encode_elem l = EOk body -> (length l <= length body)%nat.
Proof.
  induction l as [|x r IH]; intros body; cbn [enc_seq].
  - intro H; injection H as <-; cbn; lia.
  - destruct (g_encode_elem x) as [bx| |] eqn:Ex; try discriminate.
    destruct (enc_seq g_encode_elem r) as [br| |] eqn:Er; try discriminate.
    intro H; injection H as <-. pose proof (g_encode_elem_nonempty _ _ Ex). pose proof (IH _ eq_refl).
    rewrite app_length; cbn [length]; lia.
Qed.

Lemma moved_eq s a b : a = b -> moved s a = moved s b.
Proof. intros ->; reflexivity. Qed.

Ltac fin_len :=
  f_equal; apply moved_eq; unfold write_uint32; cbn [write_uint8];
  repeat rewrite app_length; repeat rewrite le_encode_length; cbn [length]; lia.

(** * Round trip: decoding what the encoder wrote *)
Definition RT (g : gvalue) : Prop :=
  wf_g g = true ->
  exists b, g_encode_elem g = EOk b /\ wf_bytes b = true /\
    forall s pre post, at_pos s pre (b ++ post) -> fits s ->
      decode_value s = DOk (norm g) (moved s (length b)).

Lemma decode_value_body s : decode_value s = decode_body (decode_loop (decode_fuel (remaining s)) (remaining s)) s.
Proof. reflexivity. Qed.

Lemma rt_int z : int64_ok z = true ->
  wf_bytes (enc_int128 (i128_from_int64 z)) = true /\
  forall s pre post, at_pos s pre (enc_int128 (i128_from_int64 z) ++ post) -> fits s ->
    decode_value s = DOk (XInt z) (moved s (length (enc_int128 (i128_from_int64 z)))).
Proof.
  intro Hr. pose proof (i128_from_int64_eq z Hr) as He.
  destruct (i128_to_from _ _ He) as [Hz [Hl Hw]].
  split; [unfold enc_int128; rewrite wf_bytes_app, Hw; reflexivity|].
  intros s pre post Hp Hf. unfold enc_int128 in *. cbn [write_uint8 app] in Hp.
  change (IntType mod 256) with IntType in Hp.
  rewrite decode_value_body, (decode_body_int _ _ _ (next_byte_spec _ _ _ _ Hp)).
  apply (at_pos_moved s pre [IntType]) in Hp.
  unfold next_i128. rewrite (dec_fixed_spec _ _ _ _ _ _ Hp (fits_moved _ _ Hf) Hl).
  rewrite Hz, moved_moved, app_length, Hl. reflexivity.
Qed.

Lemma wk_moved s pre d post : at_pos s pre (d ++ post) -> wk s (moved s (length d)).
Proof.
  intros [Hb Ho]. unfold wk, moved; cbn [buf off]. split; [reflexivity|].
  rewrite Hb, Ho, !app_length. lia.
Qed.

Lemma rt_loop l :
  Forall RT l -> forallb wf_g l = true ->
  forall body, enc_seq g_encode_elem l = EOk body ->
  wf_bytes body = true /\
  forall dv k s2 pre post, at_pos s2 pre (body ++ post) -> fits s2 -> (length l <= k)%nat ->
    (forall s3 v s4, wk s2 s3 -> decode_value s3 = DOk v s4 -> dv s3 = DOk v s4) ->
    decode_loop dv k (N.of_nat (length l)) s2 = DOk (map norm l) (moved s2 (length body)).
Proof.
  induction 1 as [|x r Hx Hr IH]; intros Hwf body; cbn [enc_seq].
  - intro H; injection H as <-. split; [reflexivity|]. intros. cbn. rewrite moved_0. destruct k; reflexivity.
  - cbn [forallb] in Hwf. apply andb_prop in Hwf; destruct Hwf as [Hwx Hwr].
    destruct (Hx Hwx) as [bx [Ex [Hwbx Hdx]]]. rewrite Ex.
    destruct (enc_seq g_encode_elem r) as [br| |] eqn:Er; try discriminate.
    intro H; injection H as <-.
    destruct (IH Hwr br eq_refl) as [Hwbr Hdr].
    split; [rewrite wf_bytes_app, Hwbx, Hwbr; reflexivity|].
    intros dv k s2 pre post Hp Hf Hk Hdv.
    destruct k as [|k]; [cbn [length] in Hk; lia|].
    cbn [decode_loop length map].
    replace (N.of_nat (S (length r)) =? 0) with false by lia.
    rewrite <- app_assoc in Hp.
    rewrite (Hdv s2 _ _ (wk_refl _ ltac:(destruct Hp as [Hb Ho]; unfold oksrc; rewrite Hb, Ho, app_length; lia))
                 (Hdx s2 pre (br ++ post) Hp Hf)).
    replace (N.of_nat (S (length r)) - 1) with (N.of_nat (length r)) by lia.
    pose proof (wk_moved _ _ _ _ Hp) as W.
    apply at_pos_moved in Hp.
    rewrite (Hdr dv k _ _ _ Hp (fits_moved _ _ Hf) ltac:(cbn [length] in Hk; lia)
                 (fun s3 v s4 W3 => Hdv s3 v s4 (wk_trans _ _ _ W W3))).
    rewrite moved_moved, app_length. reflexivity.
Qed.

Lemma round_trip_elem : forall g, RT g.
Proof.
  induction g as [b|b|a|b|h|z|z|z|z|n|l IHl|] using gvalue_ind'; unfold RT; cbn [wf_g g_encode_elem norm]; intro Hwf.
  - (* bytes *)
    apply andb_prop in Hwf; destruct Hwf as [Hw Hlt]. apply N.ltb_lt in Hlt.
    eexists; split; [reflexivity|]. unfold enc_bytes. rewrite (len32_small _ Hlt).
    split; [rewrite !wf_bytes_app, Hw; unfold write_uint32; rewrite le_encode_wf; reflexivity|].
    intros s pre post Hp Hf. cbn [write_uint8 app] in Hp. change (ByteArrayType mod 256) with ByteArrayType in Hp.
    rewrite decode_value_body, (decode_body_bytes _ _ _ (next_byte_spec _ _ _ _ Hp)).
    apply (at_pos_moved s pre [ByteArrayType]) in Hp. rewrite <- app_assoc in Hp.
    rewrite (dec_sized_spec _ _ _ _ _ Hp (fits_moved _ _ Hf) Hlt), moved_moved.
    fin_len.
  - (* string *)
    apply andb_prop in Hwf; destruct Hwf as [Hw Hlt]. apply N.ltb_lt in Hlt.
    eexists; split; [reflexivity|]. unfold enc_string. rewrite (len32_small _ Hlt).
    split; [rewrite !wf_bytes_app, Hw; unfold write_uint32; rewrite le_encode_wf; reflexivity|].
    intros s pre post Hp Hf. cbn [write_uint8 app] in Hp. change (StringType mod 256) with StringType in Hp.
    rewrite decode_value_body, (decode_body_string _ _ _ (next_byte_spec _ _ _ _ Hp)).
    apply (at_pos_moved s pre [StringType]) in Hp. rewrite <- app_assoc in Hp.
    rewrite (dec_sized_spec _ _ _ _ _ Hp (fits_moved _ _ Hf) Hlt), moved_moved.
    fin_len.
  - (* address *)
    apply andb_prop in Hwf; destruct Hwf as [Hw Hl]. apply Nat.eqb_eq in Hl.
    eexists; split; [reflexivity|]. unfold enc_address.
    split; [rewrite wf_bytes_app, Hw; reflexivity|].
    intros s pre post Hp Hf. cbn [write_uint8 app] in Hp. change (AddressType mod 256) with AddressType in Hp.
    rewrite decode_value_body, (decode_body_address _ _ _ (next_byte_spec _ _ _ _ Hp)).
    apply (at_pos_moved s pre [AddressType]) in Hp.
    unfold next_address. rewrite (dec_fixed_spec _ _ _ _ _ _ Hp (fits_moved _ _ Hf) Hl), moved_moved.
    cbn [write_uint8 app length]. rewrite Hl. reflexivity.
  - (* bool *)
    eexists; split; [reflexivity|]. unfold enc_bool.
    split; [destruct b; reflexivity|].
    intros s pre post Hp Hf. cbn [write_uint8 app] in Hp. change (BooleanType mod 256) with BooleanType in Hp.
    rewrite decode_value_body, (decode_body_bool _ _ _ (next_byte_spec _ _ _ _ Hp)).
    apply (at_pos_moved s pre [BooleanType]) in Hp. cbn [length] in Hp.
    rewrite (dec_bool_spec _ _ _ _ Hp), moved_moved. destruct b; reflexivity.
  - (* h256 *)
    apply andb_prop in Hwf; destruct Hwf as [Hw Hl]. apply Nat.eqb_eq in Hl.
    eexists; split; [reflexivity|]. unfold enc_h256.
    split; [rewrite wf_bytes_app, Hw; reflexivity|].
    intros s pre post Hp Hf. cbn [write_uint8 app] in Hp. change (H256Type mod 256) with H256Type in Hp.
    rewrite decode_value_body, (decode_body_h256 _ _ _ (next_byte_spec _ _ _ _ Hp)).
    apply (at_pos_moved s pre [H256Type]) in Hp.
    unfold next_hash. rewrite (dec_fixed_spec _ _ _ _ _ _ Hp (fits_moved _ _ Hf) Hl), moved_moved.
    cbn [write_uint8 app length]. rewrite Hl. reflexivity.
  - (* big *)
    unfold enc_bigint. destruct (i128_from_big z) as [x|] eqn:E.
    + destruct (i128_to_from _ _ E) as [Hz [Hl Hw]].
      eexists; split; [reflexivity|]. unfold enc_int128.
      split; [rewrite wf_bytes_app, Hw; reflexivity|].
      intros s pre post Hp Hf. cbn [write_uint8 app] in Hp. change (IntType mod 256) with IntType in Hp.
      rewrite decode_value_body, (decode_body_int _ _ _ (next_byte_spec _ _ _ _ Hp)).
      apply (at_pos_moved s pre [IntType]) in Hp.
      unfold next_i128. rewrite (dec_fixed_spec _ _ _ _ _ _ Hp (fits_moved _ _ Hf) Hl), moved_moved.
      rewrite Hz. cbn [write_uint8 app length]. rewrite Hl. reflexivity.
    + exfalso. unfold i128_from_big, in_range in *.
      destruct ((maxI128 <? z)%Z || (z <? minI128)%Z) eqn:E2; [|discriminate]. lia.
  - (* int *) destruct (rt_int z Hwf) as [H1 H2]. eexists; split; [reflexivity|]. split; assumption.
  - (* int64 *) destruct (rt_int z Hwf) as [H1 H2]. eexists; split; [reflexivity|]. split; assumption.
  - (* int32 *) destruct (rt_int z (int32_int64_ok _ Hwf)) as [H1 H2]. eexists; split; [reflexivity|]. split; assumption.
  - (* uint32 *) destruct (rt_int _ (uint32_int64_ok _ Hwf)) as [H1 H2]. eexists; split; [reflexivity|]. split; assumption.
  - (* list *)
    apply andb_prop in Hwf; destruct Hwf as [Hlt Hwl]. apply N.ltb_lt in Hlt.
    assert (Hbody : exists body, enc_seq g_encode_elem l = EOk body).
    { clear Hlt. induction IHl as [|x r Hx Hr IH]; [eexists; reflexivity|].
      cbn [forallb] in Hwl. apply andb_prop in Hwl; destruct Hwl as [Hwx Hwr].
      destruct (Hx Hwx) as [bx [Ex _]]. destruct (IH Hwr) as [br Er]. cbn [enc_seq]. rewrite Ex, Er. eexists; reflexivity. }
    destruct Hbody as [body Eb]. rewrite Eb.
    destruct (rt_loop l IHl Hwl body Eb) as [Hwb Hloop].
    eexists; split; [reflexivity|]. rewrite (len32_small _ Hlt).
    split; [rewrite !wf_bytes_app, Hwb; unfold write_uint32; rewrite le_encode_wf; reflexivity|].
    intros s pre post Hp Hf. cbn [write_uint8 app] in Hp. change (ListType mod 256) with ListType in Hp.
    pose proof (at_pos_remaining _ _ _ Hp) as Hrem.
    rewrite decode_value_body, (decode_body_list _ _ _ (next_byte_spec _ _ _ _ Hp)).
    apply (at_pos_moved s pre [ListType]) in Hp. rewrite <- app_assoc in Hp. cbn [length] in Hp.
    unfold dec_list, next_uint32, write_uint32 in *.
    rewrite (next_uint_spec _ _ _ _ _ Hp (fits_moved _ _ Hf)) by (rewrite two32_pow'; exact Hlt).
    apply at_pos_moved in Hp. rewrite le_encode_length, moved_moved in Hp.
    pose proof (enc_seq_length _ _ Eb) as Hlen.
    rewrite moved_moved.
    rewrite (Hloop (decode_fuel (remaining s)) (remaining s) _ _ _ Hp (fits_moved _ _ Hf)).
    + rewrite moved_moved. fin_len.
    + rewrite Hrem. cbn [length]. rewrite !app_length. lia.
    + intros s3 v s4 W H. rewrite decode_fuel_indep; [exact H|].
      pose proof (wk_remaining _ _ W) as Hr3. pose proof (at_pos_remaining _ _ _ Hp) as Hr2.
      rewrite app_length in Hr2.
      rewrite Hrem. cbn [length]. rewrite !app_length, le_encode_length. lia.
  - discriminate.
Qed.

(** * Canonical form: whatever the decoder accepts is exactly the encoding of the value it returns *)
Definition can_concl (v : value) (s s' : source) (rest : bytes) : Prop :=
  exists enc post, rest = enc ++ post /\ g_encode_elem (embed v) = EOk enc /\ wf_g (embed v) = true /\
                   s' = moved s (length enc).

Definition CANdv (dv : source -> dres value) : Prop :=
  forall s v s' pre rest, dv s = DOk v s' -> at_pos s pre rest -> wf_bytes rest = true -> can_concl v s s' rest.

Definition canl_concl (l : list value) (n : N) (s s' : source) (rest : bytes) : Prop :=
  exists body post, rest = body ++ post /\ enc_seq g_encode_elem (map embed l) = EOk body /\
                    forallb wf_g (map embed l) = true /\ N.of_nat (length l) = n /\ s' = moved s (length body).

Definition CANrl (rl : N -> source -> dres (list value)) : Prop :=
  forall n s l s' pre rest, rl n s = DOk l s' -> at_pos s pre rest -> wf_bytes rest = true -> canl_concl l n s s' rest.

Lemma can_loop dv k : CANdv dv -> CANrl (decode_loop dv k).
Proof.
  intro Hdv. induction k as [|k IH]; intros n s l s' pre rest; cbn [decode_loop].
  - destruct (N.eqb_spec n 0) as [->|Hn]; [|discriminate].
    intros H Hp Hw. injection H as <- <-. exists [], rest. rewrite moved_0. repeat split; reflexivity.
  - destruct (N.eqb_spec n 0) as [->|Hn].
    + intros H Hp Hw. injection H as <- <-. exists [], rest. rewrite moved_0. repeat split; reflexivity.
    + destruct (dv s) as [v s1| |] eqn:E; try discriminate.
      destruct (decode_loop dv k (n - 1) s1) as [l1 s2| |] eqn:E2; try discriminate.
      intros H Hp Hw. injection H as <- <-.
      destruct (Hdv _ _ _ _ _ E Hp Hw) as [enc [post1 [Hr [He [Hwv Hs1]]]]]. subst rest s1.
      rewrite wf_bytes_app in Hw. apply andb_prop in Hw; destruct Hw as [_ Hw1].
      destruct (IH _ _ _ _ _ _ E2 (at_pos_moved _ _ _ _ Hp) Hw1) as [body [post [Hr2 [Hb [Hwl [Hlen Hs2]]]]]].
      subst post1 s2. exists (enc ++ body), post. cbn [map enc_seq forallb length].
      rewrite He, Hb, Hwv, Hwl, moved_moved, app_length, app_assoc. repeat split; try reflexivity. lia.
Qed.

Lemma at_pos_moved1 s pre x post : at_pos s pre (x :: post) -> at_pos (moved s 1) (pre ++ [x]) post.
Proof. intro H. exact (at_pos_moved s pre [x] post H). Qed.

Lemma can_body rl : CANrl rl -> CANdv (decode_body rl).
Proof.
  intros Hrl s v s' pre rest H Hp Hw. apply decode_body_inv in H.
  destruct H as [[x [s1 [_ H]]]|[ty [s1 [Hnb H]]]]; [discriminate|].
  destruct (next_byte_inv _ _ _ _ _ Hp Hnb) as [post0 [Hr Hs1]]. subst rest s1.
  pose proof (at_pos_moved1 _ _ _ _ Hp) as Hp1.
  assert (Hw0 : wf_bytes post0 = true) by (rewrite wf_bytes_cons in Hw; apply andb_prop in Hw; tauto).
  unfold can_concl.
  destruct H as [[Ht H]|[[Ht H]|[[Ht H]|[[Ht H]|[[Ht H]|[[Ht H]|[[Ht H]|H]]]]]]]; try discriminate; symmetry in H; try subst ty.
  - destruct (dec_sized_inv _ _ _ _ _ _ H Hp1 Hw0) as [d [post [Hr [Hlt [Hwd [Hv Hs]]]]]]. subst post0 v s'.
    exists (enc_bytes d), post. cbn [embed g_encode_elem wf_g]. unfold enc_bytes. rewrite (len32_small _ Hlt), Hwd, moved_moved.
    replace (N.of_nat (length d) <? two32) with true by lia. repeat split; try reflexivity; try (apply moved_eq; unfold write_uint32; cbn [write_uint8]; rewrite !app_length, le_encode_length; cbn [length]; lia).
  - destruct (dec_sized_inv _ _ _ _ _ _ H Hp1 Hw0) as [d [post [Hr [Hlt [Hwd [Hv Hs]]]]]]. subst post0 v s'.
    exists (enc_string d), post. cbn [embed g_encode_elem wf_g]. unfold enc_string. rewrite (len32_small _ Hlt), Hwd, moved_moved.
    replace (N.of_nat (length d) <? two32) with true by lia. repeat split; try reflexivity; try (apply moved_eq; unfold write_uint32; cbn [write_uint8]; rewrite !app_length, le_encode_length; cbn [length]; lia).
  - unfold next_address in H.
    destruct (dec_fixed_inv _ _ _ _ _ _ _ H Hp1 Hw0) as [d [post [Hr [Hl [Hwd [Hv Hs]]]]]]. subst post0 v s'.
    exists (enc_address d), post. cbn [embed g_encode_elem wf_g]. unfold enc_address. rewrite Hwd, Hl, Nat.eqb_refl, moved_moved.
    repeat split; try reflexivity; try (apply moved_eq; cbn [write_uint8]; rewrite app_length, Hl; reflexivity).
  - destruct (dec_bool_inv _ _ _ _ _ H Hp1) as [b [post [Hr [Hv Hs]]]]. subst post0 v s'.
    exists (enc_bool b), post. cbn [embed g_encode_elem wf_g]. unfold enc_bool. rewrite moved_moved.
    repeat split; try reflexivity. destruct b; reflexivity.
  - unfold next_i128 in H.
    destruct (dec_fixed_inv _ _ _ _ _ _ _ H Hp1 Hw0) as [d [post [Hr [Hl [Hwd [Hv Hs]]]]]]. subst post0 v s'.
    exists (enc_int128 d), post. cbn [embed g_encode_elem wf_g]. unfold enc_bigint.
    rewrite (i128_from_to _ Hwd Hl), (i128_to_big_range _ Hwd Hl), moved_moved. unfold enc_int128.
    repeat split; try reflexivity; try (apply moved_eq; cbn [write_uint8]; rewrite app_length, Hl; reflexivity).
  - unfold next_hash in H.
    destruct (dec_fixed_inv _ _ _ _ _ _ _ H Hp1 Hw0) as [d [post [Hr [Hl [Hwd [Hv Hs]]]]]]. subst post0 v s'.
    exists (enc_h256 d), post. cbn [embed g_encode_elem wf_g]. unfold enc_h256. rewrite Hwd, Hl, Nat.eqb_refl, moved_moved.
    repeat split; try reflexivity; try (apply moved_eq; cbn [write_uint8]; rewrite app_length, Hl; reflexivity).
  - unfold dec_list, next_uint32 in H.
    destruct (next_uint UINT32_SIZE (moved s 1)) as [[size e] s2] eqn:E1. destruct e; [discriminate|].
    destruct (rl size s2) as [l s3| |] eqn:E2; try discriminate. injection H as Hv Hs. subst v s3.
    destruct (next_uint_inv _ _ _ _ _ _ Hp1 Hw0 E1) as [post1 [Hr [Hlt Hs2]]]. subst post0 s2.
    rewrite two32_pow' in Hlt.
    rewrite wf_bytes_app in Hw0. apply andb_prop in Hw0; destruct Hw0 as [_ Hw1].
    pose proof (at_pos_moved _ _ _ _ Hp1) as Hp2. rewrite le_encode_length in Hp2.
    destruct (Hrl _ _ _ _ _ _ E2 Hp2 Hw1) as [body [post [Hr2 [Hb [Hwl [Hlen Hs3]]]]]]. subst post1 s'.
    exists (write_uint8 ListType ++ write_uint32 size ++ body), post.
    cbn [embed g_encode_elem wf_g]. rewrite Hb, Hwl, map_length.
    rewrite (len32_small (map embed l)) by (rewrite map_length, Hlen; exact Hlt). rewrite map_length, Hlen.
    replace (size <? two32) with true by lia. rewrite !moved_moved.
    repeat split; try reflexivity;
      try (unfold write_uint32; cbn [write_uint8 app]; rewrite <- app_assoc; reflexivity);
      try (apply moved_eq; unfold write_uint32; cbn [write_uint8]; rewrite !app_length, le_encode_length; cbn [length]; lia).
Qed.

Lemma can_fuel f : CANdv (decode_fuel f).
Proof.
  induction f as [|f IH]; [intros s v s' pre rest H; discriminate|].
  intros s v s' pre rest. rewrite decode_fuel_S. apply can_body, can_loop, IH.
Qed.

Lemma can_value : CANdv decode_value.
Proof. intros s. apply can_fuel. Qed.

(** * Consequences *)
Lemma embed_norm v : norm (embed v) = v.
Proof.
  induction v as [b|b|a|b|z|h|l IH] using value_ind'; cbn [embed norm]; try reflexivity.
  f_equal. induction IH as [|x r Hx _ IHr]; cbn [map]; [reflexivity|]. rewrite Hx, IHr. reflexivity.
Qed.

Lemma fits_new b : N.of_nat (length b) < two64 -> fits (src_new b).
Proof. exact (fun H => H). Qed.

(** encode then decode (values of the decoder's own result type) *)
Lemma value_round_trip v enc pre post :
  wf_value v = true -> encode_value v = Some enc -> N.of_nat (length (pre ++ enc ++ post)) < two64 ->
  decode_value (mkSrc (pre ++ enc ++ post) (length pre)) = DOk v (mkSrc (pre ++ enc ++ post) (length pre + length enc)).
Proof.
  unfold wf_value, encode_value. intros Hwf He Hf.
  destruct (round_trip_elem (embed v) Hwf) as [b [Eb [_ Hd]]]. rewrite Eb in He. injection He as <-.
  rewrite embed_norm in Hd.
  exact (Hd (mkSrc (pre ++ b ++ post) (length pre)) pre post (conj eq_refl eq_refl) Hf).
Qed.

Lemma wf_encode_defined g : wf_g g = true -> exists b, g_encode_elem g = EOk b /\ wf_bytes b = true /\ (1 <= length b)%nat.
Proof.
  intro H. destruct (round_trip_elem g H) as [b [Eb [Hw _]]]. exists b. repeat split; auto.
  exact (g_encode_elem_nonempty _ _ Eb).
Qed.

(** Out-of-range big integers are refused, not wrapped. *)
Lemma big_out_of_range z : in_range minI128 maxI128 z = false -> g_encode_elem (GBig z) = EErrRange.
Proof.
  unfold in_range. intro H. cbn [g_encode_elem]. unfold enc_bigint, i128_from_big.
  replace ((maxI128 <? z)%Z || (z <? minI128)%Z) with true by lia. reflexivity.
Qed.

(** The wire format is prefix-free and the encoder injective (on well-formed values). *)
Lemma encode_prefix_free v1 v2 e1 e2 p1 p2 :
  wf_value v1 = true -> wf_value v2 = true -> encode_value v1 = Some e1 -> encode_value v2 = Some e2 ->
  e1 ++ p1 = e2 ++ p2 -> N.of_nat (length (e1 ++ p1)) < two64 -> v1 = v2 /\ e1 = e2.
Proof.
  intros W1 W2 E1 E2 Heq Hf.
  pose proof (value_round_trip v1 e1 [] p1 W1 E1 Hf) as D1.
  assert (Hf2 : N.of_nat (length ([] ++ e2 ++ p2)) < two64) by (cbn [app]; rewrite <- Heq; exact Hf).
  pose proof (value_round_trip v2 e2 [] p2 W2 E2 Hf2) as D2.
  cbn [app length] in D1, D2. rewrite Heq in D1. rewrite D1 in D2. injection D2 as Hv Hl.
  split; [exact Hv|].
  apply (f_equal (firstn (length e1))) in Heq.
  rewrite firstn_app, firstn_all, Nat.sub_diag in Heq. cbn [firstn] in Heq. rewrite app_nil_r in Heq.
  rewrite Heq, Hl, firstn_app, firstn_all, Nat.sub_diag. cbn [firstn]. rewrite app_nil_r. reflexivity.
Qed.

(** * vmcall_codec.go / notify_codec.go *)
Lemma has_prefix_app p b : has_prefix p (p ++ b) = true.
Proof. induction p as [|x p IH]; cbn [has_prefix app]; [reflexivity|]. rewrite N.eqb_refl, IH. reflexivity. Qed.

Lemma has_prefix_inv p : forall b, has_prefix p b = true -> exists r, b = p ++ r.
Proof.
  induction p as [|x p IH]; intros b; cbn [has_prefix].
  - intros _. exists b. reflexivity.
  - destruct b as [|y b]; [discriminate|]. intro H. apply andb_prop in H. destruct H as [H1 H2].
    apply N.eqb_eq in H1. subst y. destruct (IH _ H2) as [r ->]. exists r. reflexivity.
Qed.

Lemma skipn_prefix (p r : bytes) : skipn (length p) (p ++ r) = r.
Proof. rewrite skipn_app, skipn_all, Nat.sub_diag. reflexivity. Qed.

(** The slice offsets used after the prefix tests are the prefix lengths (both regenerated from the
    source), and the call prefix is the VERSION byte. *)
Lemma prefixes_consistent :
  length CALL_PREFIX = CALL_SKIP /\ length NOTIFY_PREFIX = NOTIFY_SKIP /\ CALL_PREFIX = [VERSION].
Proof. repeat split. Qed.

Lemma after_prefix_no_panic prefix k input : k = length prefix -> after_prefix prefix k input <> WPanic.
Proof.
  intros ->. unfold after_prefix. destruct (has_prefix prefix input) eqn:E; cbn [negb]; [|discriminate].
  destruct (has_prefix_inv _ _ E) as [r ->]. rewrite app_length.
  replace (length prefix <=? length prefix + length r)%nat with true by (symmetry; apply Nat.leb_le; lia).
  discriminate.
Qed.

Lemma after_prefix_spec prefix k r : k = length prefix ->
  after_prefix prefix k (prefix ++ r) = WRes (decode_value (src_new r)).
Proof.
  intros ->. unfold after_prefix. rewrite has_prefix_app, app_length. cbn [negb].
  replace (length prefix <=? length prefix + length r)%nat with true by (symmetry; apply Nat.leb_le; lia).
  rewrite skipn_prefix. reflexivity.
Qed.

Lemma after_prefix_ok_inv prefix k input v s' : k = length prefix ->
  after_prefix prefix k input = WRes (DOk v s') -> exists r, input = prefix ++ r /\ decode_value (src_new r) = DOk v s'.
Proof.
  intros ->. unfold after_prefix. destruct (has_prefix prefix input) eqn:E; cbn [negb]; [|discriminate].
  destruct (has_prefix_inv _ _ E) as [r ->]. rewrite app_length.
  replace (length prefix <=? length prefix + length r)%nat with true by (symmetry; apply Nat.leb_le; lia).
  rewrite skipn_prefix. intro H. injection H as H. exists r. auto.
Qed.

Lemma after_prefix_total prefix k input : k = length prefix ->
  after_prefix prefix k input <> WPanic /\ after_prefix prefix k input <> WRes DFuel.
Proof.
  intro Hk. split; [apply after_prefix_no_panic; exact Hk|]. subst k. unfold after_prefix.
  destruct (negb (has_prefix prefix input)); [discriminate|].
  destruct (length prefix <=? length input)%nat; [|discriminate].
  intro H. injection H as H. exact (decode_value_total _ H).
Qed.

(** * The fuel-free recursion equation of the decoder *)
Definition decode_list (n : N) (s : source) : dres (list value) := decode_loop decode_value (S (remaining s)) n s.

Lemma decode_loop_ext dv dv' k : dv_adv dv ->
  forall n s, (forall s3, wk s s3 -> dv s3 = dv' s3) -> oksrc s -> decode_loop dv k n s = decode_loop dv' k n s.
Proof.
  intro Hdv. induction k as [|k IH]; intros n s He Hok; [reflexivity|]. cbn [decode_loop].
  destruct (n =? 0); [reflexivity|]. rewrite <- (He s (wk_refl _ Hok)).
  destruct (dv s) as [v s1| |] eqn:E; try reflexivity.
  pose proof (Hdv _ _ _ E) as A. rewrite (IH (n - 1) s1); [reflexivity| |exact (adv_oksrc _ _ A)].
  intros s3 W. apply He. destruct A as [A1 A2]; destruct W as [W1 W2]. rewrite A1 in *. split; [congruence|lia].
Qed.

Lemma decode_loop_k_indep dv k k' n s : dv_adv dv -> oksrc s ->
  (remaining s < k)%nat -> (remaining s < k')%nat -> (forall s3, wk s s3 -> dv s3 <> DFuel) ->
  decode_loop dv k n s = decode_loop dv k' n s.
Proof.
  intros Hdv Hok Hk Hk' Hnf.
  pose proof (decode_loop_nofuel dv k Hdv n s Hk Hnf Hok) as N1.
  pose proof (decode_loop_nofuel dv k' Hdv n s Hk' Hnf Hok) as N2.
  assert (Hrefl : forall s0, le_res (dv s0) (dv s0)) by (intro; right; reflexivity).
  destruct (decode_loop_mono dv dv k Hrefl (k + k') n s ltac:(lia)) as [E|E]; [contradiction|].
  destruct (decode_loop_mono dv dv k' Hrefl (k + k') n s ltac:(lia)) as [E'|E']; [contradiction|].
  congruence.
Qed.

Lemma decode_body_ext rl rl' s :
  (forall n s2, adv s s2 -> rl n s2 = rl' n s2) -> decode_body rl s = decode_body rl' s.
Proof.
  intro H. unfold decode_body. destruct (next_byte s) as [[ty e] s1] eqn:E. destruct e; [reflexivity|].
  pose proof (next_byte_adv' _ _ _ E) as A.
  repeat (match goal with |- context [if ?c then _ else _] => destruct c end; [reflexivity|]).
  destruct (ty =? ListType); [|reflexivity].
  unfold dec_list, next_uint32. destruct (next_uint UINT32_SIZE s1) as [[size e] s2] eqn:E1. destruct e; [reflexivity|].
  rewrite (H size s2); [reflexivity|].
  exact (adv_wk_trans _ _ _ A (next_uint_adv _ _ _ _ _ E1 (adv_oksrc _ _ A))).
Qed.

Lemma decode_value_unfold s : decode_value s = decode_body decode_list s.
Proof.
  rewrite decode_value_body. apply decode_body_ext. intros n s2 A. unfold decode_list.
  pose proof (adv_remaining _ _ A) as Hr. pose proof (adv_oksrc _ _ A) as Hok.
  rewrite (decode_loop_ext (decode_fuel (remaining s)) decode_value (remaining s) (decode_fuel_adv _) n s2).
  - apply decode_loop_k_indep; try lia; try exact Hok.
    + intros s0 v s'. apply decode_value_adv.
    + intros s3 _. apply decode_value_total.
  - intros s3 W. apply decode_fuel_indep. pose proof (wk_remaining _ _ W). lia.
  - exact Hok.
Qed.

(** * Statements used by Props/C25.v *)
Lemma round_trip_at g pre post :
  wf_g g = true ->
  exists b, g_encode_elem g = EOk b /\ wf_bytes b = true /\ (1 <= length b)%nat /\
    (N.of_nat (length (pre ++ b ++ post)) < two64 ->
     decode_value (mkSrc (pre ++ b ++ post) (length pre)) =
     DOk (norm g) (mkSrc (pre ++ b ++ post) (length pre + length b))).
Proof.
  intro Hwf. destruct (round_trip_elem g Hwf) as [b [Eb [Hw Hd]]].
  exists b. repeat split; auto. exact (g_encode_elem_nonempty _ _ Eb).
  intro Hf. exact (Hd (mkSrc (pre ++ b ++ post) (length pre)) pre post (conj eq_refl eq_refl) Hf).
Qed.

Lemma encode_value_top g : top_supported g = true -> g_encode_value g = g_encode_elem g.
Proof. destruct g; try reflexivity; discriminate. Qed.

Lemma round_trip_top g :
  wf_g g = true -> top_supported g = true ->
  exists b, g_encode_value g = EOk b /\ wf_bytes b = true /\
    (N.of_nat (length b) < two64 -> decode_value (src_new b) = DOk (norm g) (mkSrc b (length b))).
Proof.
  intros Hwf Ht. destruct (round_trip_at g [] [] Hwf) as [b [Eb [Hw [_ Hd]]]].
  exists b. rewrite (encode_value_top _ Ht). repeat split; auto.
  cbn [app length] in Hd. rewrite app_nil_r in Hd. exact Hd.
Qed.

Lemma encode_value_default g :
  top_supported g = false -> g_encode_value g = EOk [] /\ decode_value (src_new []) = DErr ErrFormat.
Proof. destruct g; try discriminate; intros _; split; reflexivity. Qed.

Lemma decode_canonical b v s' :
  wf_bytes b = true -> decode_value (src_new b) = DOk v s' ->
  exists enc post, b = enc ++ post /\ encode_value v = Some enc /\ wf_value v = true /\ s' = mkSrc b (length enc).
Proof.
  intros Hw H. destruct (can_value _ _ _ _ _ H (at_pos_new b) Hw) as [enc [post [Hb [He [Hwf Hs]]]]].
  exists enc, post. unfold encode_value, wf_value. rewrite He. repeat split; auto.
Qed.

Lemma decode_in_bounds s v s' :
  decode_value s = DOk v s' -> buf s' = buf s /\ (off s < off s' <= length (buf s))%nat.
Proof. apply decode_value_adv. Qed.

Lemma call_param_round_trip g :
  wf_g g = true -> top_supported g = true ->
  exists b, g_encode_value g = EOk b /\
    (N.of_nat (length b) < two64 ->
     deserialize_call_param (VERSION :: b) = WRes (DOk (norm g) (mkSrc b (length b))) /\
     parse_notify (NOTIFY_PREFIX ++ b) = WRes (DOk (norm g) (mkSrc b (length b))) /\
     deserialize_notify (NOTIFY_PREFIX ++ b) = NParsed (norm g)).
Proof.
  intros Hwf Ht. destruct (round_trip_top g Hwf Ht) as [b [Eb [_ Hd]]]. exists b. split; [exact Eb|].
  intro Hf. specialize (Hd Hf).
  assert (H1 : deserialize_call_param (VERSION :: b) = WRes (DOk (norm g) (mkSrc b (length b)))).
  { unfold deserialize_call_param. change (VERSION :: b) with (CALL_PREFIX ++ b).
    rewrite after_prefix_spec by reflexivity. rewrite Hd. reflexivity. }
  assert (H2 : parse_notify (NOTIFY_PREFIX ++ b) = WRes (DOk (norm g) (mkSrc b (length b)))).
  { unfold parse_notify. rewrite after_prefix_spec by reflexivity. rewrite Hd. reflexivity. }
  repeat split; auto. unfold deserialize_notify. rewrite H2. reflexivity.
Qed.

Lemma wrappers_total input :
  deserialize_call_param input <> WPanic /\ deserialize_call_param input <> WRes DFuel /\
  parse_notify input <> WPanic /\ parse_notify input <> WRes DFuel /\ deserialize_notify input <> NPanic.
Proof.
  destruct (after_prefix_total CALL_PREFIX CALL_SKIP input eq_refl) as [H1 H2].
  destruct (after_prefix_total NOTIFY_PREFIX NOTIFY_SKIP input eq_refl) as [H3 H4].
  repeat split; auto. unfold deserialize_notify. fold (parse_notify input).
  destruct (parse_notify input) as [[v s| |]|] eqn:E; try discriminate. contradiction.
Qed.

Lemma wrappers_accept_only_prefixed input v s' :
  (deserialize_call_param input = WRes (DOk v s') -> exists r, input = VERSION :: r /\ decode_value (src_new r) = DOk v s') /\
  (parse_notify input = WRes (DOk v s') -> exists r, input = NOTIFY_PREFIX ++ r /\ decode_value (src_new r) = DOk v s').
Proof.
  split; intro H.
  - exact (after_prefix_ok_inv CALL_PREFIX CALL_SKIP input v s' eq_refl H).
  - exact (after_prefix_ok_inv NOTIFY_PREFIX NOTIFY_SKIP input v s' eq_refl H).
Qed.

Lemma notify_fallback input :
  (exists v, deserialize_notify input = NParsed v /\ exists s', parse_notify input = WRes (DOk v s')) \/
  (deserialize_notify input = NRaw input /\ forall v s', parse_notify input <> WRes (DOk v s')).
Proof.
  pose proof (wrappers_total input) as [_ [_ [Hp _]]].
  unfold deserialize_notify. destruct (parse_notify input) as [[v s| |]|] eqn:E.
  - left. exists v. split; [reflexivity|]. exists s. reflexivity.
  - right. split; [reflexivity|]. intros; discriminate.
  - right. split; [reflexivity|]. intros; discriminate.
  - contradiction.
Qed.

(** The element loop of case ListType runs to the count read from the wire (read from the source on
    every run), and the round trip has no cap at MAX_PARAM_LENGTH or anywhere below 2^32. *)
Lemma list_loop_uses_wire_count : LIST_LOOP_USES_WIRE_COUNT = true.
Proof. reflexivity. Qed.

Lemma no_cap_at_max_param_length l :
  wf_g (GList l) = true -> MAX_PARAM_LENGTH < N.of_nat (length l) ->
  exists b, g_encode_value (GList l) = EOk b /\
    (N.of_nat (length b) < two64 ->
     decode_value (src_new b) = DOk (XList (map norm l)) (mkSrc b (length b)) /\
     length (map norm l) = length l).
Proof.
  intros Hwf _. destruct (round_trip_top (GList l) Hwf eq_refl) as [b [Eb [_ Hd]]].
  exists b. split; [exact Eb|]. intro Hf. split; [exact (Hd Hf)|apply map_length].
Qed.
