(** Proofs about Model/CrossVM.v (property C25). *)
From Coq Require Import List Bool Arith NArith ZArith Lia ZifyN ZifyNat ZifyBool.
Import ListNotations.
From Ont Require Import Lib.Bytes Gen.CodecConsts Gen.CrossVMConsts Model.Codec Model.CrossVM.
Local Open Scope N_scope.
Ltac Zify.zify_post_hook ::= Z.to_euclidean_division_equations.

(** * Positions in a source *)

(** [at_pos s pre rest]: the bytes before the offset are [pre], the unread bytes are [rest]. *)
Definition at_pos (s : source) (pre rest : bytes) : Prop := buf s = pre ++ rest /\ off s = length pre.

(** The buffer length fits a uint64 (every Go slice does). *)
Definition fits (s : source) : Prop := N.of_nat (length (buf s)) < two64.

Definition moved (s : source) (n : nat) : source := mkSrc (buf s) (off s + n).

Lemma at_pos_new b : at_pos (src_new b) [] b.
Proof. split; reflexivity. Qed.

Lemma at_pos_moved s pre d post :
  at_pos s pre (d ++ post) -> at_pos (moved s (length d)) (pre ++ d) post.
Proof.
  intros [Hb Ho]; split; cbn [moved buf off].
  - rewrite Hb, <- app_assoc; reflexivity.
  - rewrite Ho, app_length; reflexivity.
Qed.

Lemma at_pos_remaining s pre rest : at_pos s pre rest -> remaining s = length rest.
Proof. intros [Hb Ho]; unfold remaining; rewrite Hb, Ho, app_length; lia. Qed.

Lemma fits_moved s n : fits s -> fits (moved s n).
Proof. exact (fun H => H). Qed.

Lemma moved_moved s a b : moved (moved s a) b = moved s (a + b).
Proof. unfold moved; cbn [buf off]; f_equal; lia. Qed.

(** ** NextBytes *)
Lemma next_bytes_spec s pre d post :
  at_pos s pre (d ++ post) -> fits s ->
  next_bytes s (N.of_nat (length d)) = (d, false, moved s (length d)).
Proof.
  intros [Hb Ho] Hf. unfold fits in Hf. unfold next_bytes.
  assert (Hl : length (buf s) = (length pre + (length d + length post))%nat)
    by (rewrite Hb, !app_length; reflexivity).
  replace ((two64 <=? N.of_nat (off s) + N.of_nat (length d))
           || (N.of_nat (length (buf s)) <? N.of_nat (off s) + N.of_nat (length d))) with false
    by (symmetry; apply orb_false_iff; split; [apply N.leb_gt|apply N.ltb_ge]; lia).
  rewrite Nat2N.id. unfold moved. f_equal; [f_equal|f_equal; lia].
  rewrite Hb, Ho. apply slice_app_exact.
Qed.

Lemma next_bytes_inv s pre rest n d s' :
  at_pos s pre rest -> next_bytes s n = (d, false, s') ->
  exists post, rest = d ++ post /\ n = N.of_nat (length d) /\ s' = moved s (length d).
Proof.
  intros [Hb Ho]. unfold next_bytes.
  destruct ((two64 <=? N.of_nat (off s) + n) || (N.of_nat (length (buf s)) <? N.of_nat (off s) + n)) eqn:E;
    [intro H; inversion H|].
  apply orb_false_iff in E; destruct E as [_ E2]; apply N.ltb_ge in E2.
  intro H; inversion H; subst d s'; clear H.
  assert (Hl : length (buf s) = (length pre + length rest)%nat) by (rewrite Hb, app_length; reflexivity).
  assert (Hs : slice (buf s) (off s) (N.to_nat n) = firstn (N.to_nat n) rest).
  { unfold slice. rewrite Hb, Ho, skipn_app, skipn_all, Nat.sub_diag. reflexivity. }
  assert (Hlen : length (firstn (N.to_nat n) rest) = N.to_nat n) by (rewrite firstn_length; lia).
  exists (skipn (N.to_nat n) rest). rewrite Hs, Hlen. split; [|split].
  - symmetry; apply firstn_skipn.
  - lia.
  - unfold moved; f_equal; lia.
Qed.

(** Progress and bounds, for any source. *)
Lemma next_bytes_adv s n d e s' :
  next_bytes s n = (d, e, s') -> (off s <= length (buf s))%nat ->
  buf s' = buf s /\ (off s <= off s' <= length (buf s))%nat.
Proof.
  unfold next_bytes.
  destruct ((two64 <=? N.of_nat (off s) + n) || (N.of_nat (length (buf s)) <? N.of_nat (off s) + n)) eqn:E;
    intros H Hle; inversion H; subst; cbn [buf off].
  - split; [reflexivity|lia].
  - apply orb_false_iff in E; destruct E as [_ E2]; apply N.ltb_ge in E2. split; [reflexivity|lia].
Qed.

(** ** NextByte *)
Lemma next_byte_spec s pre x post :
  at_pos s pre (x :: post) -> next_byte s = (x, false, moved s 1).
Proof.
  intros [Hb Ho]. unfold next_byte.
  assert (Hl : length (buf s) = (length pre + S (length post))%nat) by (rewrite Hb, app_length; reflexivity).
  replace (length (buf s) <=? off s)%nat with false by (symmetry; apply Nat.leb_gt; lia).
  unfold moved. f_equal; [f_equal|f_equal; lia].
  rewrite Hb, Ho. apply nth_middle.
Qed.

Lemma next_byte_inv s pre rest x s' :
  at_pos s pre rest -> next_byte s = (x, false, s') ->
  exists post, rest = x :: post /\ s' = moved s 1.
Proof.
  intros [Hb Ho]. unfold next_byte.
  destruct (length (buf s) <=? off s)%nat eqn:E; [intro H; inversion H|].
  apply Nat.leb_gt in E. intro H; inversion H; subst x s'; clear H.
  assert (Hl : length (buf s) = (length pre + length rest)%nat) by (rewrite Hb, app_length; reflexivity).
  destruct rest as [|y post]; [cbn in Hl; lia|].
  exists post. split; [|unfold moved; f_equal; lia].
  rewrite Hb, Ho, nth_middle. reflexivity.
Qed.

Lemma next_byte_adv s x s' :
  next_byte s = (x, false, s') -> buf s' = buf s /\ off s' = S (off s) /\ (off s' <= length (buf s))%nat.
Proof.
  unfold next_byte. destruct (length (buf s) <=? off s)%nat eqn:E; intro H; inversion H; subst.
  apply Nat.leb_gt in E. cbn [buf off]. repeat split; lia.
Qed.

Lemma next_byte_eof_remaining s x e s' :
  next_byte s = (x, e, s') -> remaining s = 0%nat -> e = true.
Proof.
  unfold next_byte, remaining. destruct (length (buf s) <=? off s)%nat eqn:E; intros H Hr; inversion H; subst; auto.
  apply Nat.leb_gt in E; lia.
Qed.

(** ** Fixed-width reads *)
Lemma next_uint_spec w s pre v post :
  at_pos s pre (le_encode w v ++ post) -> fits s -> v < 256 ^ N.of_nat w ->
  next_uint w s = (v, false, moved s w).
Proof.
  intros Hp Hf Hv. unfold next_uint.
  pose proof (next_bytes_spec s pre (le_encode w v) post Hp Hf) as H.
  rewrite le_encode_length in H. rewrite H.
  rewrite le_decode_encode_small by exact Hv. reflexivity.
Qed.

Lemma next_uint_inv w s pre rest v s' :
  at_pos s pre rest -> wf_bytes rest = true -> next_uint w s = (v, false, s') ->
  exists post, rest = le_encode w v ++ post /\ v < 256 ^ N.of_nat w /\ s' = moved s w.
Proof.
  intros Hp Hw. unfold next_uint.
  destruct (next_bytes s (N.of_nat w)) as [[d e] s1] eqn:E.
  destruct e; intro H; inversion H; subst v s'; clear H.
  destruct (next_bytes_inv _ _ _ _ _ _ Hp E) as [post [Hr [Hn Hs]]].
  apply Nat2N.inj in Hn. subst rest w.
  rewrite wf_bytes_app in Hw; apply andb_prop in Hw; destruct Hw as [Hwd _].
  exists post. split; [|split].
  - rewrite le_encode_decode by exact Hwd. reflexivity.
  - apply le_decode_bound; exact Hwd.
  - exact Hs.
Qed.

Lemma next_uint_adv w s v e s' :
  next_uint w s = (v, e, s') -> (off s <= length (buf s))%nat ->
  buf s' = buf s /\ (off s <= off s' <= length (buf s))%nat.
Proof.
  unfold next_uint. destruct (next_bytes s (N.of_nat w)) as [[d e0] s1] eqn:E.
  intros H Hle. pose proof (next_bytes_adv _ _ _ _ _ E Hle) as Ha.
  destruct e0; inversion H; subst; exact Ha.
Qed.

Lemma next_fixed_spec w s pre d post :
  at_pos s pre (d ++ post) -> fits s -> length d = w ->
  next_fixed w s = (d, false, moved s w).
Proof.
  intros Hp Hf Hl. unfold next_fixed.
  pose proof (next_bytes_spec s pre d post Hp Hf) as H. rewrite Hl in H. rewrite H. reflexivity.
Qed.

Lemma next_fixed_inv w s pre rest d s' :
  at_pos s pre rest -> next_fixed w s = (d, false, s') ->
  exists post, rest = d ++ post /\ length d = w /\ s' = moved s w.
Proof.
  intros Hp. unfold next_fixed.
  destruct (next_bytes s (N.of_nat w)) as [[d0 e] s1] eqn:E.
  destruct e; intro H; inversion H; subst d0 s1; clear H.
  destruct (next_bytes_inv _ _ _ _ _ _ Hp E) as [post [Hr [Hn Hs]]].
  apply Nat2N.inj in Hn. subst w. exists post. repeat split; auto.
Qed.

Lemma next_fixed_adv w s d e s' :
  next_fixed w s = (d, e, s') -> (off s <= length (buf s))%nat ->
  buf s' = buf s /\ (off s <= off s' <= length (buf s))%nat.
Proof.
  unfold next_fixed. destruct (next_bytes s (N.of_nat w)) as [[d0 e0] s1] eqn:E.
  intros H Hle. pose proof (next_bytes_adv _ _ _ _ _ E Hle) as Ha.
  destruct e0; inversion H; subst; exact Ha.
Qed.
