(** C10/C11, fee-split hypothesis as an invariant, part 4: the four *To*Consensus transitions,
    commitDpos as a whole, every operation, every history. *)
From Coq Require Import List NArith Bool Lia.
Import ListNotations.
From Ont Require Import Lib.AList Gen.GovConsts Model.Gov Model.GovSpec Proofs.GovInv Proofs.GovAcct
  Proofs.GovAcct2 Proofs.GovAcct3 Proofs.GovAcct4 Proofs.GovAcct5 Proofs.GovPrev Proofs.GovPrev2 Proofs.GovPrev3.
Local Open Scope N_scope.

Lemma psum_amap_unfold : forall sel proj g infos,
  psum sel proj (amap g infos) = asum (fun key i => bsel (sel key) (proj (g key i))) infos.
Proof.
  intros. unfold psum, amap. induction infos as [|[key i] r IH]; cbn [map asum fst snd]; [reflexivity|]. now rewrite IH.
Qed.

Lemma asum_le_add : forall (F G H : N * N -> infov -> N) infos,
  (forall key i, F key i <= G key i + H key i) -> asum F infos <= asum G infos + asum H infos.
Proof.
  intros F G H infos Hp. induction infos as [|[key i] r IH]; cbn [asum]; [lia|]. specialize (Hp key i). lia.
Qed.

Lemma asum_le_pt : forall (F G : N * N -> infov -> N) infos,
  (forall key i, F key i <= G key i) -> asum F infos <= asum G infos.
Proof.
  intros F G infos Hp. induction infos as [|[key i] r IH]; cbn [asum]; [lia|]. specialize (Hp key i). lia.
Qed.

(** ** one transition *)
Record tr_inv (prev' : list (N * peerv)) (t : state) : Prop := mkTrInv {
  ti_B1 : Bk1 (s_pool t) (s_infos t);
  ti_B0 : Bk0 (s_pool t) (s_infos t);
  ti_pres : forall k pp, pget k prev' = Some pp -> is_active (p_status pp) = true ->
            exists pc, pget k (s_pool t) = Some pc /\ p_owner pc = p_owner pp /\ p_total pc = p_total pp /\
                       is_active (p_status pc) = true;
  ti_swc : forall k pp, pget k prev' = Some pp -> is_active (p_status pp) = true ->
           p_status pp = CandidateStatus -> SWC k (p_owner pp) (s_infos t) = 0
}.

Definition Jform (prev' : list (N * peerv)) (t : state) (k : N) : Prop :=
  forall pp, pget k prev' = Some pp -> is_active (p_status pp) = true ->
  SC k (p_owner pp) (s_infos t) <= p_total pp /\
  (p_status pp = CandidateStatus -> SD k (p_owner pp) (s_infos t) <= p_total pp).

Definition is_trans (f : N * N -> infov -> infov) : Prop := f = c2c \/ f = c2u \/ f = u2c \/ f = u2u.

Lemma trans_shape : forall f key i, is_trans f ->
  i_wcons (f key i) = 0 /\ cw (f key i) <= act3 (f key i) /\ dw (f key i) <= act3 (f key i) + i_wcons i.
Proof.
  intros f key i [-> | [-> | [-> | ->]]]; unfold c2c, c2u, u2c, u2u, rotate, cw, dw, act3; cbn [i_cons i_cand i_new i_wcons i_wcand]; lia.
Qed.

Lemma active_consts : is_active ConsensusStatus = true /\ is_active CandidateStatus = true.
Proof. vm_compute. auto. Qed.

Lemma transition_tr : forall prev' t k0 b t', inv2 t -> tr_inv prev' t -> transition t k0 b = Ok t' ->
  tr_inv prev' t' /\ Jform prev' t' k0 /\ (forall k, k <> k0 -> Jform prev' t k -> Jform prev' t' k).
Proof.
  intros prev' t k0 b t' H2 [B1 B0 Hpres Hswc] H.
  pose proof (transition_inv2 _ _ _ _ H2 H) as H2'.
  unfold transition in H. msteps H. bnorm.
  match goal with H : pget k0 (s_pool t) = Some p |- _ => rename H into Hg end.
  set (f := if p_status p =? ConsensusStatus then (if b then c2c else c2u) else (if b then u2c else u2u)).
  match goal with |- context [amap (on_peer k0 ?g) _] =>
    replace g with f in * by (unfold f; destruct (p_status p =? ConsensusStatus), b; reflexivity) end.
  assert (Hf : is_trans f) by (unfold f, is_trans; destruct (p_status p =? ConsensusStatus), b; auto).
  set (st := if b then ConsensusStatus else CandidateStatus) in *.
  assert (Hst : is_active st = true) by (destruct active_consts; unfold st; destruct b; auto).
  set (infos' := amap (on_peer k0 f) (s_infos t)) in *.
  assert (Eoth : forall k sel proj, only_peer k sel -> k <> k0 -> psum sel proj infos' = psum sel proj (s_infos t))
    by (intros; unfold infos'; now apply (psum_amap_other k k0)).
  assert (Ezero : forall sel, only_peer k0 sel -> psum sel i_wcons infos' = 0).
  { intros sel Ho. unfold infos'. apply psum_amap_zero. intros key i Hs. unfold on_peer.
    rewrite (Ho key Hs), N.eqb_refl. apply (trans_shape f key i Hf). }
  destruct status_consts as (C1 & C2 & C3 & C4 & C5).
  assert (Hnr : st <> RegisterCandidateStatus) by (apply active_not_register; auto).
  split; [|split].
  - constructor; simp_state; unfold Bk1, Bk0.
    + intros k pc Hgk Hs. destruct (N.eq_dec k k0) as [->|Hne].
      * unfold SWC. apply Ezero. apply only_selP.
      * rewrite pget_pset_other in Hgk by auto. unfold SWC. rewrite (Eoth k) by (auto using only_selP). now apply B1.
    + intros k Hp0. destruct (N.eq_dec k k0) as [->|Hne].
      * exfalso. destruct Hp0 as [Hn|(pc & Hgk & Hs)]; rewrite pget_pset_same in *; [discriminate|].
        inversion Hgk; subst pc. cbn in Hs. congruence.
      * unfold WC. rewrite (Eoth k) by (auto using only_selK). apply B0.
        destruct Hp0 as [Hn|(pc & Hgk & Hs)]; rewrite pget_pset_other in * by auto; [now left | right; eauto].
    + intros k pp Hgp Ha. destruct (Hpres k pp Hgp Ha) as (pc & G1 & G2 & G3 & G4).
      destruct (N.eq_dec k k0) as [->|Hne].
      * rewrite Hg in G1. inversion G1; subst pc. exists (with_status p st). rewrite pget_pset_same. cbn. auto.
      * exists pc. rewrite pget_pset_other by auto. auto.
    + intros k pp Hgp Ha Hc. destruct (N.eq_dec k k0) as [->|Hne].
      * unfold SWC. apply Ezero. apply only_selP.
      * unfold SWC. rewrite (Eoth k) by (auto using only_selP). now apply Hswc.
  - intros pp Hgp Ha. simp_state.
    destruct (Hpres k0 pp Hgp Ha) as (pc & G1 & G2 & G3 & G4). rewrite Hg in G1. inversion G1; subst pc.
    pose proof (i2_ppc _ H2' k0) as Hppc. rewrite total_of_tot in Hppc. simp_state. unfold tot in Hppc.
    rewrite pget_pset_same in Hppc. cbn [with_status p_total] in Hppc. fold infos' in Hppc.
    assert (EA : Act k0 infos' = asum (fun key i => bsel (fst key =? k0) (act3 (on_peer k0 f key i))) (s_infos t)).
    { exact (psum_amap_unfold (selK k0) act3 (on_peer k0 f) (s_infos t)). }
    assert (Etot : p_total pp = asum (fun key i => bsel (fst key =? k0) (act3 (on_peer k0 f key i))) (s_infos t))
      by (rewrite <- G3, <- Hppc; exact EA).
    split.
    + unfold SC, infos'. rewrite psum_amap_unfold. rewrite Etot. apply asum_le_pt. intros key i.
      unfold bsel. destruct (selP k0 (p_owner pp) key) eqn:Es; [|lia].
      pose proof (only_selP _ _ _ Es) as Ek. unfold on_peer. rewrite Ek, N.eqb_refl.
      apply (trans_shape f key i Hf).
    + intros Hc. pose proof (Hswc k0 pp Hgp Ha Hc) as Hz. unfold SWC, psum in Hz.
      unfold SD, infos'. rewrite psum_amap_unfold. rewrite Etot.
      eapply N.le_trans; [apply (asum_le_add _ (fun key i => bsel (fst key =? k0) (act3 (on_peer k0 f key i)))
                                               (fun key i => bsel (selP k0 (p_owner pp) key) (i_wcons i)))|rewrite Hz; lia].
      intros key i. unfold bsel. destruct (selP k0 (p_owner pp) key) eqn:Es; [|lia].
      pose proof (only_selP _ _ _ Es) as Ek. unfold on_peer. rewrite Ek, N.eqb_refl.
      apply (trans_shape f key i Hf).
  - intros k Hne HJ pp Hgp Ha. simp_state. unfold SC, SD. rewrite !(Eoth k) by (auto using only_selP). now apply HJ.
Qed.

Lemma transitions_tr : forall prev' ks t b t', inv2 t -> tr_inv prev' t -> transitions t ks b = Ok t' ->
  inv2 t' /\ tr_inv prev' t' /\ forall k, (In k ks \/ Jform prev' t k) -> Jform prev' t' k.
Proof.
  intros prev'. induction ks as [|k0 r IH]; cbn [transitions]; intros t b t' H2 Ht H.
  - inversion H; subst. split; [auto|split; [auto|]]. intros k [[]|HJ]; auto.
  - mstep H. match goal with H : transition _ _ _ = Ok _ |- _ => rename H into Hs end.
    destruct (transition_tr _ _ _ _ _ H2 Ht Hs) as (Ht1 & J0 & Jst).
    pose proof (transition_inv2 _ _ _ _ H2 Hs) as H21.
    destruct (IH _ _ _ H21 Ht1 H) as (H2' & Ht' & HJ). split; [auto|split; [auto|]].
    intros k Hk. apply HJ. destruct (N.eq_dec k k0) as [->|Hne]; [now right|].
    destruct Hk as [[E|Hin]|HJk]; [congruence | now left | right; now apply Jst].
Qed.

(** ** membership in the sorted candidate list *)
Lemma in_insert_desc : forall x y l, In x (insert_desc y l) <-> x = y \/ In x l.
Proof.
  intros x y. induction l as [|z r IH]; cbn [insert_desc In]; [intuition|].
  destruct (stake_gt y z); cbn [In]; rewrite ?IH; intuition.
Qed.

Lemma in_sort_desc : forall x l, In x (sort_desc l) <-> In x l.
Proof.
  intros x. unfold sort_desc. induction l as [|y r IH]; cbn [fold_right In]; [tauto|].
  rewrite in_insert_desc, IH. intuition.
Qed.

Lemma in_candidates : forall k p pool, pget k pool = Some p -> is_active (p_status p) = true ->
  In (w64 (p_total p + p_init p), k) (candidates pool).
Proof.
  intros k p pool Hg Ha. unfold candidates. apply in_map_iff. exists (k, p). split; [reflexivity|].
  apply filter_In. split; [|exact Ha]. apply (aget_in N.eqb Neqb_spec). exact Hg.
Qed.

Lemma in_split_list : forall {A} (x : A) n l, In x l -> In x (firstn n l) \/ In x (skipn n l).
Proof. intros A x n l H. rewrite <- (firstn_skipn n l) in H. now apply in_app_or. Qed.

(** ** commitDpos *)
Lemma pass_inv_refl : forall s, inv4 s -> pass_inv s s.
Proof. intros s Hi. constructor; auto; apply Hi. Qed.

Theorem commit_core_inv4 : forall h s s', inv2 s -> inv4 s -> commit_core h s = Ok s' -> inv4 s'.
Proof.
  intros h s s' H2 Hi H. unfold commit_core in H. msteps H.
  match goal with H : commit_pass _ _ = Ok ?x |- _ => rename H into Hpass; rename x into s1 end.
  assert (Hin : forall k p, In (k, p) (s_pool s) -> pget k (s_pool s) = Some p)
    by (intros; apply in_nodup_pget; [apply H2 | assumption]).
  pose proof (commit_pass_inv2 _ _ _ H2 (i2_nodup _ H2) Hin Hpass) as H21.
  pose proof (commit_pass_pinv _ s _ _ H2 (pass_inv_refl s Hi) (i2_nodup _ H2) (fun k p h => conj (Hin k p h) (Hin k p h)) Hpass)
    as [Pp Pi PB1 PB0].
  set (prev' := s_pool s) in *.
  assert (Ht1 : tr_inv prev' s1).
  { constructor; [exact PB1 | exact PB0 | | ].
    - intros k pp Hg Ha. exists pp. split; [now apply Pp|auto].
    - intros k pp Hg Ha Hc. unfold SWC. rewrite (Pi k pp Hg Ha) by (auto using only_selP). now apply (i4_B1 s Hi). }
  match goal with H : transitions s1 (firstn _ _) true = Ok ?x |- _ => rename H into Htr1; rename x into s2 end.
  match goal with H : transitions s2 (skipn _ _) false = Ok ?x |- _ => rename H into Htr2; rename x into s3 end.
  destruct (transitions_tr prev' _ _ _ _ H21 Ht1 Htr1) as (H22 & Ht2 & J2).
  destruct (transitions_tr prev' _ _ _ _ H22 Ht2 Htr2) as (H23 & [B1 B0 Hpres Hswc] & J3).
  constructor; simp_state; auto.
  - intros k pp Hg Ha. apply (J3 k); auto.
    pose proof (in_candidates k pp (s_pool s1) (Pp k pp Hg Ha) Ha) as Hc.
    apply (proj2 (in_sort_desc _ _)) in Hc.
    apply (in_map snd) in Hc. cbn [snd] in Hc.
    destruct (in_split_list k (N.to_nat (g_K (s_par s1))) _ Hc) as [E|E]; [right; apply J2; now left | now left].
  - intros k pp Hg Ha. destruct (Hpres k pp Hg Ha) as (pc & G1 & G2 & G3 & G4).
    exists pc. repeat split; auto. now apply active_not_register.
  - apply H2.
Qed.

Lemma exec_commit_inv4 : forall h s sg s', inv2 s -> inv4 s -> exec_commit h s sg = Ok s' -> inv4 s'.
Proof. intros h s sg s' H2 Hi H. unfold exec_commit in H. msteps H. eapply commit_core_inv4; eauto. Qed.

Lemma exec_black_inv4 : forall h s sg l s', inv2 s -> inv4 s -> exec_black h s sg l = Ok s' -> inv4 s'.
Proof.
  intros h s sg l s' H2 Hi H. unfold exec_black in H. msteps H. destruct x as [s1 c].
  match goal with H : black_loop _ _ _ = Ok _ |- _ =>
    pose proof (black_loop_inv2 _ _ _ _ _ H2 H) as H21; pose proof (black_loop_inv4 _ _ _ _ _ Hi H) as Hi1 end.
  cbn [fst snd] in H. destruct c.
  - eapply commit_core_inv4; eauto.
  - inversion H; subst; auto.
Qed.

(** ** every operation, every history *)
Theorem exec_inv4 : forall h s o s', inv2 s -> inv4 s -> exec h s o = Ok s' -> inv4 s'.
Proof.
  intros h s o s' H2 Hi H. destruct o; cbn [exec] in H.
  - eapply exec_register_inv4; eauto.
  - eapply exec_unregister_inv4; eauto.
  - eapply exec_approve_inv4; eauto.
  - eapply exec_reject_inv4; eauto.
  - eapply exec_authorize_inv4; eauto.
  - eapply exec_unauthorize_inv4; eauto.
  - eapply exec_withdraw_inv4; eauto.
  - eapply exec_quit_inv4; eauto.
  - eapply exec_black_inv4; eauto.
  - eapply exec_white_inv4; eauto.
  - eapply exec_commit_inv4; eauto.
  - eapply exec_maxauth_inv4; eauto.
  - eapply exec_addinit_inv4; eauto.
  - eapply exec_reduceinit_inv4; eauto.
  - eapply exec_penalty_inv4; eauto.
Qed.

Record inv5 (s : state) : Prop := mkInv5 { i5_inv3 : inv3 s; i5_inv4 : inv4 s }.

Theorem step_inv5 : forall s ho, inv5 s -> op_ok2 (snd ho) -> inv5 (fst (step s ho)).
Proof.
  intros s [h o] [H3 H4] Hok. pose proof (step_inv3 s (h, o) H3 Hok) as H3'.
  constructor; [exact H3'|]. unfold step in *. cbn [fst snd] in *.
  destruct (exec h s o) eqn:E; cbn [fst]; auto. eapply exec_inv4; eauto. apply H3.
Qed.

Theorem run_inv5 : forall l s, inv5 s -> Forall (fun ho => op_ok2 (snd ho)) l -> inv5 (run s l).
Proof.
  induction l as [|ho r IH]; cbn; intros s Hi Hall; auto.
  inversion Hall; subst. apply IH; auto. now apply step_inv5.
Qed.

Theorem genesis_inv5 : forall par h peers ont,
  nget GOV ont = sum_init peers -> asum (fun _ x => x) ont <= ONT_TOTAL_SUPPLY ->
  NoDup (peer_ids peers) -> params_ok par ->
  inv5 (genesis par h peers ont).
Proof.
  intros par h peers ont Hf Hs Hd Hp. pose proof (genesis_inv3 par h peers ont Hf Hs Hd Hp) as H3.
  constructor; [exact H3|]. pose proof (i2_nodup _ (i3_inv2 _ H3)) as Hn. unfold genesis in *. simp_state.
  constructor; simp_state; unfold Jk, Pk, Bk1, Bk0, SC, SD, SWC, WC, psum; cbn [asum]; auto.
  - intros k pp Hg Ha. split; intros; lia.
  - intros k pp Hg Ha. exists pp. repeat split; auto. now apply active_not_register.
Qed.
