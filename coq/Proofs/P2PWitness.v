(** Concrete instances for the C24 theorems: an instance of the externals that satisfies [ext_ok]
    (so the hypotheses are satisfiable), the witnesses that refute the literal re-serialization
    statement (one per leniency of the decoders), and the input-level reading of the Addr flag. *)
From Coq Require Import String.
From Coq Require Import List Bool Arith NArith ZArith Lia ZifyN ZifyNat ZifyBool.
Import ListNotations.
From Ont Require Import Lib.Bytes Lib.Sha256 Gen.CodecConsts Gen.P2PConsts Model.Codec Proofs.Codec Model.P2PMsg
  Proofs.P2PMsgLib Proofs.P2PMsg Proofs.P2PFrame.
Local Open Scope N_scope.
Open Scope bool_scope.

(** * A toy instance: embedded objects are single bytes; keys of the form [4; x] are accepted and
    canonicalised to [2; x] (as the real parser canonicalises uncompressed keys); no signature
    verifies; the hash is SHA-256. *)
Definition toy_dec (s : source) : dres (N * source) :=
  let '(v, eof, s1) := next_byte s in if eof then DErr ErrEmb else DOk (v, s1).
Definition toy_enc (v : N) : bytes := [v].
Definition toy_pk (b : bytes) : option bytes :=
  match b with
  | [2; x] => Some [2; x]
  | [4; x] => Some [2; x]
  | _ => None
  end.
Definition toy_ext : ext N :=
  mkExt N sha256 toy_pk toy_pk (fun _ _ _ => false) 1000
        toy_dec toy_enc toy_dec toy_enc toy_dec toy_enc toy_dec toy_enc.

Lemma toy_elem_ok : elem_ok (fun _ => True) toy_enc toy_dec.
Proof.
  intros s Hok Hwf. unfold toy_dec. destruct (next_byte s) as [[v eof] s1] eqn:Eq.
  destruct eof; [split; discriminate|].
  destruct (next_byte_reads s v s1 Hok Hwf Eq) as [R [Hv Ho]].
  split; [eapply reads_safe; exact R|]. split; [lia|]. intros _. exact R.
Qed.

Lemma toy_ext_ok : ext_ok toy_ext.
Proof. constructor; try exact toy_elem_ok. reflexivity. Qed.

(** * Witnesses *)
Definition cmd_addr : bytes := [97; 100; 100; 114].
Definition cmd_inv : bytes := [105; 110; 118].
Definition cmd_ping : bytes := [112; 105; 110; 103].
Definition cmd_version : bytes := [118; 101; 114; 115; 105; 111; 110].
Definition cmd_findnodeack : bytes := [102; 105; 110; 100; 110; 111; 100; 101; 97; 99; 107].
Definition cmd_consensus : bytes := [99; 111; 110; 115; 101; 110; 115; 117; 115].
Definition cmd_block : bytes := [98; 108; 111; 99; 107].

Definition addr_entry : bytes :=
  le_encode 8 1600000000 ++ le_encode 8 1 ++ repeat 0 10 ++ [255; 255; 10; 0; 0; 1] ++
  le_encode 2 20338 ++ le_encode 2 20339 ++ le_encode 8 7.
(** 65 well-formed address entries. *)
Definition w_addr65 : bytes := le_encode 8 65 ++ concat (repeat addr_entry 65).
(** The repaired F6 inputs: counts 2^63 and 2^64-1 with no / one entry behind them. *)
Definition w_addr_2p63 : bytes := le_encode 8 9223372036854775808.
Definition w_addr_max : bytes := le_encode 8 18446744073709551615 ++ addr_entry.
Definition w_inv65 : bytes := [2] ++ le_encode 4 65 ++ concat (repeat (repeat 7 32) 65).
Definition w_ping_trailing : bytes := le_encode 8 5 ++ [170].
Definition w_version_nosoft : bytes := repeat 0 76.
Definition w_find_bool : bytes := repeat 1 20 ++ [7] ++ [0] ++ le_encode 4 0.
Definition w_find_len : bytes := repeat 1 20 ++ [1] ++ [253; 1; 0; 65] ++ le_encode 4 0.
Definition w_cons_key : bytes := repeat 0 46 ++ [0] ++ [2; 4; 9] ++ [0].
Definition w_block_noroot : bytes := [5].
Definition w_block_noflag : bytes := [5] ++ repeat 3 32.

(** [accepted_differs cmd p]: the payload is accepted, wholly or as a prefix, with a non-empty
    leniency record, and what the message re-serializes to is not the payload. *)
Definition accepted_differs (cmd p : bytes) (fl : list lenient) : Prop :=
  exists m s', decode_payload toy_ext cmd p = DOk (m, s', fl) /\ enc_msg toy_ext m <> p.

Ltac witness :=
  unfold accepted_differs;
  match goal with
  | |- exists m s', decode_payload ?X ?c ?p = _ /\ _ =>
    let r := eval vm_compute in (decode_payload X c p) in
    match r with
    | DOk (?m, ?s', ?fl) => exists m, s'; split; [vm_compute; reflexivity|];
        let H := fresh in intro H; apply bytes_eqb_eq in H; vm_compute in H; discriminate H
    end
  end.

Lemma w_addr65_differs : accepted_differs cmd_addr w_addr65 [LAddrClamp]. Proof. witness. Qed.
Lemma w_inv65_differs : accepted_differs cmd_inv w_inv65 [LInvClamp]. Proof. witness. Qed.
Lemma w_version_differs : accepted_differs cmd_version w_version_nosoft [LVersionStr]. Proof. witness. Qed.
Lemma w_find_bool_differs : accepted_differs cmd_findnodeack w_find_bool [LFindBool]. Proof. witness. Qed.
Lemma w_find_len_differs : accepted_differs cmd_findnodeack w_find_len [LFindStr]. Proof. witness. Qed.
Lemma w_cons_key_differs : accepted_differs cmd_consensus w_cons_key [LPubKey]. Proof. witness. Qed.
Lemma w_block_noroot_differs : accepted_differs cmd_block w_block_noroot [LBlockRoot; LBlockCC]. Proof. witness. Qed.
Lemma w_block_noflag_differs : accepted_differs cmd_block w_block_noflag [LBlockCC]. Proof. witness. Qed.
(** Trailing bytes: no flag, but the decoder stops before the end. *)
Lemma w_ping_trailing_differs : accepted_differs cmd_ping w_ping_trailing []. Proof. witness. Qed.

(** The addr witness consumed the whole payload: nothing but the clamp explains the difference. *)
Lemma w_addr65_consumed_all :
  exists m s', decode_payload toy_ext cmd_addr w_addr65 = DOk (m, s', [LAddrClamp]) /\
               off s' = length w_addr65 /\ msg_elems m = 64%nat.
Proof.
  match eval vm_compute in (decode_payload toy_ext cmd_addr w_addr65) with
  | DOk (?m, ?s', _) => exists m, s'; repeat split; vm_compute; reflexivity
  end.
Qed.

(** The inputs of the repaired defect F6 are rejected (no out-of-range slice). *)
Lemma w_f6_rejected :
  decode_payload toy_ext cmd_addr w_addr_2p63 = DErr ErrEOF /\
  decode_payload toy_ext cmd_addr w_addr_max = DErr ErrEOF.
Proof. split; vm_compute; reflexivity. Qed.

(** A frame around the trailing-byte ping (real SHA-256 checksum): accepted, not reproduced. *)
Definition w_magic : N := 2356652896.
Definition w_frame_ping_trailing : bytes :=
  le_encode 4 w_magic ++ copy_into 12 cmd_ping ++ le_encode 4 9 ++ firstn 4 (sha256d w_ping_trailing) ++ w_ping_trailing.

Lemma w_frame_differs :
  exists m len lf consumed,
    read_message toy_ext w_magic w_frame_ping_trailing = FOk m len lf consumed [] /\ lf = [] /\
    write_message toy_ext w_magic m <> w_frame_ping_trailing.
Proof.
  match eval vm_compute in (read_message toy_ext w_magic w_frame_ping_trailing) with
  | FOk ?m ?len ?lf ?c _ => exists m, len, lf, c; split; [vm_compute; reflexivity|split; [reflexivity|]];
      let H := fresh in intro H; apply bytes_eqb_eq in H; vm_compute in H; discriminate H
  end.
Qed.

(** A well-formed frame is accepted and reproduced (non-vacuity of the positive theorems). *)
Definition w_frame_ping : bytes :=
  le_encode 4 w_magic ++ copy_into 12 cmd_ping ++ le_encode 4 8 ++ firstn 4 (sha256d (le_encode 8 5)) ++ le_encode 8 5 ++ [1; 2; 3].

Lemma w_frame_ping_ok :
  read_message toy_ext w_magic w_frame_ping = FOk (MPing 5) 8 [] 8 [1; 2; 3] /\
  write_message toy_ext w_magic (MPing 5) ++ [1; 2; 3] = w_frame_ping.
Proof. split; vm_compute; reflexivity. Qed.

(** * The Addr flag read off the input: the clamp is taken exactly when the declared count
    (first eight bytes, little endian) exceeds MAX_ADDR_NODE_CNT. *)
Lemma dec_addr_flag {E : Type} payload (m : msg E) s' lf :
  N.of_nat (length payload) < two64 -> wf_bytes payload = true ->
  dec_addr (src_new payload) = DOk (m, s', lf) ->
  lf = (if MAX_ADDR_NODE_CNT <? le_decode (firstn 8 payload) then [LAddrClamp] else []).
Proof.
  intros Hlen Hwf. pose proof (src_new_ok payload Hlen) as Hok.
  unfold dec_addr, next_uint64.
  destruct (next_uint UINT64_SIZE (src_new payload)) as [[v eof] s1] eqn:Eq. destruct eof; [discriminate|].
  destruct (next_uint_spec _ _ _ _ Hok Hwf Eq) as [_ [_ [_ [Hv Henc]]]].
  cbn [src_new buf off] in Henc. unfold slice in Henc. cbn [skipn] in Henc.
  assert (Ev : v = le_decode (firstn 8 payload)).
  { change UINT64_SIZE with 8%nat in *. rewrite <- Henc. symmetry. apply le_decode_encode_small. exact Hv. }
  destruct (read_loop _ _ _ _ _) as [[l s2]|e]; [|discriminate].
  destruct (slice_to l _) as [l'|e]; [|discriminate].
  intro H. inversion H. rewrite Ev. reflexivity.
Qed.

(** * OfflineWitnessMsg is never accepted *)
Lemma dec_offline_rejects {E : Type} (X : ext E) s m s' lf :
  (forall pk d, x_sig_verify X pk d [] = false) -> dec_offline X s <> DOk (m, s', lf).
Proof.
  intros Hs. unfold dec_offline.
  destruct (next_uint32 s) as [[ts e] s1]; destruct e; [discriminate|].
  destruct (next_uint32 s1) as [[vw e] s2]; destruct e; [discriminate|].
  destruct (next_uint32 s2) as [[nk e] s3]; destruct e; [discriminate|].
  destruct (255 <? nk); [discriminate|].
  destruct (read_loop _ _ _ _ _) as [[keys s4]|e]; [|discriminate].
  destruct (dec_str s4) as [[prop s5]|e]; [|discriminate].
  destruct (next_uint32 s5) as [[nv e] s6]; destruct e; [discriminate|].
  destruct (read_loop _ _ _ _ _) as [[voters s7]|e]; [|discriminate].
  unfold verify_sigs. cbn [ow_proposer ow_propsig].
  destruct (x_vpubkey X prop); [|discriminate]. rewrite Hs. cbn [negb]. discriminate.
Qed.
