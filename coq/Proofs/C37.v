(** Lemmas for C37 (routing table of p2pserver/dht/kbucket): the structural invariant is kept by
    Update / Remove / nextBucket, bucket unfolding ends within [unfold_fuel] steps for a positive
    bucket size (and never ends for a non-positive one), NearestPeers returns distinct peers of the
    table sorted by XOR distance. *)
From Coq Require Import List Bool Arith NArith ZArith Lia Permutation Sorted ZifyN ZifyNat ZifyBool.
Import ListNotations.
From Ont Require Import Lib.Bytes Gen.KBucketGen Model.KBucket.
Open Scope bool_scope.

(** * Ids: distances and common prefix lengths *)

Lemma distance_length_le_r a b : length (distance a b) <= length b.
Proof.
  revert b; induction a as [|x a IH]; intros [|y b]; simpl; try lia.
  specialize (IH b); lia.
Qed.

Lemma size_nat_pos x : x <> 0%N -> 1 <= N.size_nat x.
Proof. destruct x; [congruence|]. intros _. destruct p; simpl; lia. Qed.

Lemma leading_zeros8_le x : leading_zeros8 x <= 8.
Proof. unfold leading_zeros8; lia. Qed.

Lemma zero_prefix_len_le d : zero_prefix_len d <= 8 * length d.
Proof.
  induction d as [|b r IH]; simpl; [lia|].
  destruct (b =? 0)%N; [lia|]. pose proof (leading_zeros8_le b); lia.
Qed.

(** A common prefix is never longer than the local id. *)
Lemma cpl_le a loc : cpl a loc <= 8 * length loc.
Proof.
  unfold cpl. pose proof (zero_prefix_len_le (distance a loc)).
  pose proof (distance_length_le_r a loc). lia.
Qed.

(** * [bytes.Compare] is a total order *)

Lemma bytes_compare_antisym a b : bytes_compare b a = CompOpp (bytes_compare a b).
Proof.
  revert b; induction a as [|x a IH]; intros [|y b]; simpl; auto.
  rewrite (N.compare_antisym x y). destruct (x ?= y)%N; simpl; auto.
Qed.

Lemma bytes_compare_le_trans a b c :
  bytes_compare a b <> Gt -> bytes_compare b c <> Gt -> bytes_compare a c <> Gt.
Proof.
  revert b c; induction a as [|x a IH]; intros [|y b] [|z c]; simpl; try congruence.
  destruct (N.compare_spec x y), (N.compare_spec y z), (N.compare_spec x z); subst;
    try congruence; try lia; try (intros; eapply IH; eassumption).
Qed.

Lemma bytes_compare_refl a : bytes_compare a a = Eq.
Proof. induction a as [|x a IH]; simpl; auto. rewrite N.compare_refl; auto. Qed.

(** Sorted-by-distance relation: [p] is at most as far from the target as [q]. *)
Definition dist_le (target : peer_id) (p q : peer) : Prop :=
  bytes_compare (distance target (fst p)) (distance target (fst q)) <> Gt.

Lemma dist_le_trans t p q r : dist_le t p q -> dist_le t q r -> dist_le t p r.
Proof. unfold dist_le; apply bytes_compare_le_trans. Qed.

Lemma dist_less_true t p q : dist_less t p q = true -> dist_le t p q.
Proof. unfold dist_less, dist_le; destruct bytes_compare; congruence. Qed.

Lemma dist_less_false t p q : dist_less t p q = false -> dist_le t q p.
Proof.
  unfold dist_less, dist_le. rewrite (bytes_compare_antisym (distance t (fst p))).
  destruct bytes_compare; simpl; congruence.
Qed.

(** * Insertion sort *)

Lemma insert_by_perm less x l : Permutation (insert_by less x l) (x :: l).
Proof.
  induction l as [|y r IH]; simpl; auto.
  destruct (less x y); auto.
  eapply perm_trans; [apply perm_skip, IH|apply perm_swap].
Qed.

Lemma sort_by_perm less l : Permutation (sort_by less l) l.
Proof.
  induction l as [|x r IH]; simpl; auto.
  eapply perm_trans; [apply insert_by_perm|]. auto.
Qed.

Lemma insert_by_sorted t x l :
  StronglySorted (dist_le t) l -> StronglySorted (dist_le t) (insert_by (dist_less t) x l).
Proof.
  induction l as [|y r IH]; intro H; simpl.
  - repeat constructor.
  - inversion H as [|? ? Hr Hy]; subst.
    destruct (dist_less t x y) eqn:E.
    + constructor; auto. constructor.
      * apply dist_less_true; auto.
      * eapply Forall_impl; [|exact Hy]. intros z Hz. eapply dist_le_trans; [|exact Hz].
        apply dist_less_true; auto.
    + constructor; auto.
      eapply Permutation_Forall; [apply Permutation_sym, insert_by_perm|].
      constructor; auto. apply dist_less_false; auto.
Qed.

Lemma sort_by_sorted t l : StronglySorted (dist_le t) (sort_by (dist_less t) l).
Proof. induction l; simpl; [constructor|apply insert_by_sorted; auto]. Qed.

Lemma StronglySorted_firstn {A} (R : A -> A -> Prop) n l :
  StronglySorted R l -> StronglySorted R (firstn n l).
Proof.
  revert n; induction l as [|x r IH]; intros [|n] H; simpl; try constructor.
  - inversion H; subst; auto.
  - inversion H as [|? ? Hr Hx]; subst.
    rewrite <- (firstn_skipn n r) in Hx. apply Forall_app in Hx. tauto.
Qed.

Lemma NoDup_app_l {A} (a b : list A) : NoDup (a ++ b) -> NoDup a.
Proof.
  induction a as [|x a IH]; simpl; intro H; [constructor|].
  inversion H; subst. constructor; auto. rewrite in_app_iff in *. tauto.
Qed.

Lemma NoDup_firstn {A} n (l : list A) : NoDup l -> NoDup (firstn n l).
Proof.
  intro H. rewrite <- (firstn_skipn n l) in H. eapply NoDup_app_l; eauto.
Qed.

(** * Lists of buckets *)

Lemma upd_length {A} i (x : A) l : length (upd i x l) = length l.
Proof. revert i; induction l; intros [|i]; simpl; auto. Qed.

Lemma nth_error_upd {A} i j (x : A) l :
  nth_error (upd i x l) j =
  if Nat.eqb i j then (if Nat.ltb i (length l) then Some x else None) else nth_error l j.
Proof.
  revert i j; induction l as [|y r IH]; intros [|i] [|j]; simpl; auto.
  - destruct (Nat.eqb i j); auto.
  - rewrite IH. destruct (Nat.eqb i j); auto.
Qed.

Lemma nth_error_nth_default {A} (l : list A) i d : i < length l -> nth_error l i = Some (nth i l d).
Proof. intro H. apply nth_error_nth'; auto. Qed.

Lemma concat_perm {A} (l l' : list (list A)) : Permutation l l' -> Permutation (concat l) (concat l').
Proof.
  induction 1; simpl; auto.
  - apply Permutation_app_head; auto.
  - rewrite !app_assoc. apply Permutation_app_tail, Permutation_app_comm.
  - eapply perm_trans; eauto.
Qed.

Lemma split_at {A} (l : list A) i d :
  i < length l -> l = firstn i l ++ nth i l d :: skipn (S i) l.
Proof.
  revert i; induction l as [|x r IH]; intros [|i] H; simpl in *; try lia; auto.
  f_equal. apply IH. lia.
Qed.

(** * Buckets *)

Lemma id_eqb_eq a b : id_eqb a b = true <-> a = b.
Proof. apply bytes_eqb_eq. Qed.

Lemma id_eqb_neq a b : id_eqb a b = false <-> a <> b.
Proof.
  split; intro H.
  - intro E. apply id_eqb_eq in E. congruence.
  - destruct (id_eqb a b) eqn:E; auto. apply id_eqb_eq in E. contradiction.
Qed.

Lemma has_true id b : has id b = true <-> In id (map fst b).
Proof.
  unfold has. rewrite existsb_exists, in_map_iff. split.
  - intros [p [Hp E]]. apply id_eqb_eq in E. eauto.
  - intros [p [E Hp]]. exists p. split; auto. apply id_eqb_eq; auto.
Qed.

Lemma has_false id b : has id b = false <-> ~ In id (map fst b).
Proof.
  rewrite <- has_true. destruct (has id b); split; congruence.
Qed.

Lemma remove_first_incl id b p : In p (remove_first id b) -> In p b.
Proof.
  induction b as [|q r IH]; simpl; auto.
  destruct (id_eqb (fst q) id); simpl; tauto.
Qed.

Lemma remove_first_length id b : length (remove_first id b) <= length b.
Proof. induction b as [|q r IH]; simpl; auto. destruct (id_eqb (fst q) id); simpl; lia. Qed.

Lemma find_first_perm id b p :
  find_first id b = Some p -> Permutation b (p :: remove_first id b) /\ fst p = id.
Proof.
  induction b as [|q r IH]; simpl; [discriminate|].
  destruct (id_eqb (fst q) id) eqn:E.
  - intro H; inversion H; subst. split; auto. apply id_eqb_eq; auto.
  - intro H. destruct (IH H) as [HP Hid]. split; auto.
    eapply perm_trans; [apply perm_skip, HP|apply perm_swap].
Qed.

Lemma find_first_none id b : find_first id b = None -> has id b = false.
Proof.
  induction b as [|q r IH]; simpl; auto.
  destruct (id_eqb (fst q) id); [discriminate|auto].
Qed.

Lemma remove_first_nodup id b : NoDup (map fst b) -> NoDup (map fst (remove_first id b)).
Proof.
  induction b as [|q r IH]; simpl; auto.
  intro H; inversion H as [|? ? Hn Hr]; subst.
  destruct (id_eqb (fst q) id); auto. simpl. constructor; auto.
  intro Hin. apply Hn. apply in_map_iff in Hin. destruct Hin as [p [E Hp]].
  apply in_map_iff. exists p. split; auto. eapply remove_first_incl; eauto.
Qed.

Lemma count_id_nodup id b : NoDup (map fst b) -> count_id id b <= 1.
Proof.
  unfold count_id. induction b as [|q r IH]; simpl; auto.
  intro H; inversion H as [|? ? Hn Hr]; subst.
  destruct (id_eqb (fst q) id) eqn:E; auto.
  apply id_eqb_eq in E. simpl.
  assert (filter (fun p => id_eqb (fst p) id) r = []) as ->; auto.
  destruct (filter _ r) as [|p f] eqn:F; auto.
  assert (Hp : In p (filter (fun p => id_eqb (fst p) id) r)) by (rewrite F; left; auto).
  apply filter_In in Hp. destruct Hp as [Hp E2]. apply id_eqb_eq in E2.
  exfalso. apply Hn. rewrite E, <- E2. apply in_map; auto.
Qed.

Lemma filter_nodup_map (f : peer -> bool) b : NoDup (map fst b) -> NoDup (map fst (filter f b)).
Proof.
  induction b as [|q r IH]; simpl; auto.
  intro H; inversion H as [|? ? Hn Hr]; subst.
  destruct (f q); auto. simpl. constructor; auto.
  intro Hin. apply Hn. apply in_map_iff in Hin. destruct Hin as [p [E Hp]].
  apply filter_In in Hp. apply in_map_iff. exists p. tauto.
Qed.

Lemma filter_length_le {A} (f : A -> bool) l : length (filter f l) <= length l.
Proof. induction l as [|x r IH]; simpl; auto. destruct (f x); simpl; lia. Qed.

Ltac split4 := split; [|split; [|split]].

(** * The invariant *)

Definition in_table (t : table) (p : peer) : Prop :=
  exists i b, nth_error (t_buckets t) i = Some b /\ In p b.

(** The bucket a peer belongs to: its common prefix length with the local id, or the last bucket. *)
Definition home (t : table) (id : peer_id) : nat :=
  Nat.min (cpl id (t_local t)) (length (t_buckets t) - 1).

Record valid (t : table) : Prop := {
  v_nonempty : 1 <= length (t_buckets t);
  v_nodup : forall i b, nth_error (t_buckets t) i = Some b -> NoDup (map fst b);
  v_size : forall i b, nth_error (t_buckets t) i = Some b -> (blen b <= t_size t)%Z;
  v_place : forall i b p, nth_error (t_buckets t) i = Some b -> In p b -> home t (fst p) = i
}.

Lemma valid_new size local : (0 <= size)%Z -> valid (new_table size local).
Proof.
  intro H.
  assert (E : forall i (b : bucket), nth_error [[]] i = Some b -> i = 0 /\ b = []).
  { intros [|[|i]] b E; simpl in E; inversion E; auto. }
  constructor; simpl; auto.
  - intros i b Hb. apply E in Hb. destruct Hb as [_ ->]. constructor.
  - intros i b Hb. apply E in Hb. destruct Hb as [_ ->]. unfold blen; simpl; lia.
  - intros i b p Hb. apply E in Hb. destruct Hb as [_ ->]. simpl; tauto.
Qed.

(** The four clamps of the source all compute [home]. *)
Lemma bucket_index_home clamp clamp_to t id :
  (forall i n, clamp i n = (n <=? i)%Z) -> (forall n, clamp_to n = (n - 1)%Z) ->
  1 <= length (t_buckets t) ->
  bucket_index clamp clamp_to t (cpl id (t_local t)) = home t id.
Proof.
  intros Hc Ht Hn. unfold bucket_index, home, nbuckets. rewrite Hc, Ht.
  destruct (Z.leb_spec (Z.of_nat (length (t_buckets t))) (Z.of_nat (cpl id (t_local t)))); lia.
Qed.

Lemma bi_update_1 t id : 1 <= length (t_buckets t) ->
  bucket_index kb_clamp_update_1 kb_clamp_update_1_to t (cpl id (t_local t)) = home t id.
Proof. apply bucket_index_home; reflexivity. Qed.
Lemma bi_update_2 t id : 1 <= length (t_buckets t) ->
  bucket_index kb_clamp_update_2 kb_clamp_update_2_to t (cpl id (t_local t)) = home t id.
Proof. apply bucket_index_home; reflexivity. Qed.
Lemma bi_remove t id : 1 <= length (t_buckets t) ->
  bucket_index kb_clamp_remove kb_clamp_remove_to t (cpl id (t_local t)) = home t id.
Proof. apply bucket_index_home; reflexivity. Qed.
Lemma bi_nearest t id : 1 <= length (t_buckets t) ->
  bucket_index kb_clamp_nearest kb_clamp_nearest_to t (cpl id (t_local t)) = home t id.
Proof. apply bucket_index_home; reflexivity. Qed.

Lemma home_lt t id : 1 <= length (t_buckets t) -> home t id < length (t_buckets t).
Proof. unfold home; lia. Qed.

Lemma get_bucket_nth_error t i : i < length (t_buckets t) ->
  nth_error (t_buckets t) i = Some (get_bucket t i).
Proof. intro H. unfold get_bucket. apply nth_error_nth_default; auto. Qed.

(** Replacing bucket [i] by a bucket that meets the three local conditions keeps the invariant. *)
Lemma valid_set_bucket t i b' :
  valid t -> i < length (t_buckets t) ->
  NoDup (map fst b') -> (blen b' <= t_size t)%Z -> (forall p, In p b' -> home t (fst p) = i) ->
  valid (set_bucket t i b').
Proof.
  intros [Hn Hd Hs Hp] Hi H1 H2 H3.
  constructor; unfold set_bucket, home in *; simpl; rewrite ?upd_length; auto.
  - intros j b. rewrite nth_error_upd. destruct (Nat.eqb_spec i j).
    + destruct (Nat.ltb i _); intro E; inversion E; subst; auto.
    + apply Hd.
  - intros j b. rewrite nth_error_upd. destruct (Nat.eqb_spec i j).
    + destruct (Nat.ltb i _); intro E; inversion E; subst; auto.
    + apply Hs.
  - intros j b p. rewrite nth_error_upd. destruct (Nat.eqb_spec i j).
    + destruct (Nat.ltb i _); intro E; inversion E; subst; auto.
    + apply Hp.
Qed.

(** A peer id that is not in its home bucket is nowhere in the table. *)
Lemma not_in_home_not_in_table t id :
  valid t -> has id (get_bucket t (home t id)) = false ->
  forall p, in_table t p -> fst p <> id.
Proof.
  intros V H p [i [b [E Hin]]] Eid.
  pose proof (v_place t V i b p E Hin) as Hh. rewrite Eid in Hh. subst i.
  apply has_false in H. apply H.
  rewrite get_bucket_nth_error in E by (apply home_lt, (v_nonempty t V)).
  inversion E as [E']. rewrite <- Eid. apply in_map. rewrite Eid, E'. exact Hin.
Qed.

(** * Update, first two branches, and Remove *)

Lemma move_to_front_valid t i id b' :
  valid t -> i < length (t_buckets t) ->
  move_to_front id (get_bucket t i) = Some b' -> valid (set_bucket t i b').
Proof.
  intros V Hi H. pose proof (get_bucket_nth_error t i Hi) as E.
  unfold move_to_front in H. destruct (find_first id (get_bucket t i)) as [p|] eqn:F.
  - destruct (count_id id _ <=? 1); inversion H; subst.
    destruct (find_first_perm _ _ _ F) as [HP _].
    apply valid_set_bucket; auto.
    + eapply Permutation_NoDup; [apply Permutation_map, HP|]. eapply v_nodup; eauto.
    + pose proof (v_size t V i _ E). unfold blen in *. rewrite <- (Permutation_length HP). auto.
    + intros q Hq. eapply v_place; eauto. eapply Permutation_in; [apply Permutation_sym, HP|auto].
  - inversion H; subst. apply valid_set_bucket; auto.
    + eapply v_nodup; eauto.
    + eapply v_size; eauto.
    + intros q Hq. eapply v_place; eauto.
Qed.

Lemma move_to_front_some t i id :
  valid t -> i < length (t_buckets t) -> move_to_front id (get_bucket t i) <> None.
Proof.
  intros V Hi. pose proof (get_bucket_nth_error t i Hi) as E.
  unfold move_to_front. destruct find_first; [|discriminate].
  pose proof (count_id_nodup id _ (v_nodup t V i _ E)) as Hc.
  apply Nat.leb_le in Hc. rewrite Hc. discriminate.
Qed.

Lemma push_front_valid t id addr :
  valid t -> let i := home t id in
  has id (get_bucket t i) = false -> (blen (get_bucket t i) < t_size t)%Z ->
  valid (set_bucket t i ((id, addr) :: get_bucket t i)).
Proof.
  intros V i Hh Hl. assert (Hi : i < length (t_buckets t)) by (apply home_lt, (v_nonempty t V)).
  pose proof (get_bucket_nth_error t i Hi) as E.
  apply valid_set_bucket; auto.
  - simpl. constructor; [apply has_false; auto|eapply v_nodup; eauto].
  - unfold blen in *. simpl length. lia.
  - intros p [<-|Hp]; auto. eapply v_place; eauto.
Qed.

Lemma remove_valid t id : valid t -> valid (fst (remove t id)).
Proof.
  intro V. unfold remove.
  rewrite (bi_remove t id (v_nonempty t V)).
  assert (Hi : home t id < length (t_buckets t)) by (apply home_lt, (v_nonempty t V)).
  pose proof (get_bucket_nth_error t _ Hi) as E.
  destruct (has id _); simpl; auto.
  apply valid_set_bucket; auto.
  - apply remove_first_nodup. eapply v_nodup; eauto.
  - pose proof (v_size t V _ _ E). pose proof (remove_first_length id (get_bucket t (home t id))).
    unfold blen in *. lia.
  - intros p Hp. eapply v_place; eauto. eapply remove_first_incl; eauto.
Qed.

(** * nextBucket *)

Definition unfold_step (t : table) : table :=
  let li := length (t_buckets t) - 1 in
  let b := get_bucket t li in
  mkTable (t_local t) (t_size t)
          (upd li (split_keep li (t_local t) b) (t_buckets t) ++ [split_out li (t_local t) b]).

Lemma unfold_index_eq t : Z.to_nat (kb_unfold_index (nbuckets t)) = length (t_buckets t) - 1.
Proof. unfold kb_unfold_index, nbuckets. lia. Qed.

Lemma next_bucket_unfold fuel t :
  next_bucket (S fuel) t =
  if kb_unfold_again (blen (split_out (length (t_buckets t) - 1) (t_local t)
                                       (get_bucket t (length (t_buckets t) - 1)))) (t_size t)
  then next_bucket fuel (unfold_step t) else Some (unfold_step t).
Proof. cbn [next_bucket]. rewrite unfold_index_eq. reflexivity. Qed.

Lemma split_moves_spec c loc p : split_moves c loc p = true <-> c < cpl (fst p) loc.
Proof. unfold split_moves, kb_split_moves. rewrite Z.ltb_lt. lia. Qed.

Lemma unfold_step_valid t : valid t -> valid (unfold_step t).
Proof.
  intros V. pose proof (v_nonempty t V) as Hn.
  set (li := length (t_buckets t) - 1).
  assert (Hli : li < length (t_buckets t)) by (unfold li; lia).
  pose proof (get_bucket_nth_error t li Hli) as E.
  assert (Hlen : length (t_buckets (unfold_step t)) = S (length (t_buckets t))).
  { unfold unfold_step; simpl. rewrite app_length, upd_length; simpl; lia. }
  assert (Hcases : forall j b, nth_error (t_buckets (unfold_step t)) j = Some b ->
            (j < li /\ nth_error (t_buckets t) j = Some b) \/
            (j = li /\ b = split_keep li (t_local t) (get_bucket t li)) \/
            (j = S li /\ b = split_out li (t_local t) (get_bucket t li))).
  { intros j b. unfold unfold_step; simpl. fold li.
    destruct (Nat.lt_ge_cases j (length (t_buckets t))) as [Hj|Hj].
    - rewrite nth_error_app1 by (rewrite upd_length; auto).
      rewrite nth_error_upd. destruct (Nat.eqb_spec li j).
      + apply Nat.ltb_lt in Hli. rewrite Hli. intro H; inversion H; subst. right; left; auto.
      + intro H. left. split; auto. unfold li in *. lia.
    - rewrite nth_error_app2 by (rewrite upd_length; auto). rewrite upd_length.
      destruct (j - length (t_buckets t)) as [|k] eqn:K; simpl.
      + intro H; inversion H; subst. right; right. split; auto. unfold li. lia.
      + destruct k; discriminate. }
  constructor.
  - lia.
  - intros j b H. destruct (Hcases j b H) as [[_ H1]|[[_ ->]|[_ ->]]].
    + eapply v_nodup; eauto.
    + apply filter_nodup_map. eapply v_nodup; eauto.
    + apply filter_nodup_map. eapply v_nodup; eauto.
  - intros j b H. change (t_size (unfold_step t)) with (t_size t).
    pose proof (v_size t V li _ E) as Hs.
    destruct (Hcases j b H) as [[_ H1]|[[_ ->]|[_ ->]]].
    + eapply v_size; eauto.
    + unfold split_keep, blen in *. pose proof (filter_length_le (fun p => negb (split_moves li (t_local t) p)) (get_bucket t li)). lia.
    + unfold split_out, blen in *. pose proof (filter_length_le (split_moves li (t_local t)) (get_bucket t li)). lia.
  - intros j b p H Hp. unfold home. rewrite Hlen. change (t_local (unfold_step t)) with (t_local t).
    destruct (Hcases j b H) as [[Hj H1]|[[-> ->]|[-> ->]]].
    + pose proof (v_place t V j b p H1 Hp) as Hh. unfold home in Hh. fold li in Hh. lia.
    + apply filter_In in Hp. destruct Hp as [Hp Hm].
      pose proof (v_place t V li _ p E Hp) as Hh. unfold home in Hh. fold li in Hh.
      apply negb_true_iff in Hm.
      assert (~ li < cpl (fst p) (t_local t)) by (rewrite <- split_moves_spec; congruence). lia.
    + apply filter_In in Hp. destruct Hp as [Hp Hm]. apply split_moves_spec in Hm. unfold li in *. lia.
Qed.

Lemma unfold_step_in_table t p : valid t -> in_table (unfold_step t) p -> in_table t p.
Proof.
  intros V [j [b [H Hp]]]. pose proof (v_nonempty t V) as Hn.
  set (li := length (t_buckets t) - 1) in *.
  assert (Hli : li < length (t_buckets t)) by (unfold li; lia).
  pose proof (get_bucket_nth_error t li Hli) as E.
  unfold unfold_step in H; simpl in H. fold li in H.
  destruct (Nat.lt_ge_cases j (length (t_buckets t))) as [Hj|Hj].
  - rewrite nth_error_app1 in H by (rewrite upd_length; auto).
    rewrite nth_error_upd in H. destruct (Nat.eqb_spec li j).
    + apply Nat.ltb_lt in Hli. rewrite Hli in H. inversion H; subst.
      apply filter_In in Hp. exists li, (get_bucket t li). tauto.
    + exists j, b. auto.
  - rewrite nth_error_app2 in H by (rewrite upd_length; auto). rewrite upd_length in H.
    destruct (j - length (t_buckets t)) as [|k]; simpl in H.
    + inversion H; subst. apply filter_In in Hp. exists li, (get_bucket t li). tauto.
    + destruct k; discriminate.
Qed.

Lemma next_bucket_valid fuel : forall t t', valid t -> next_bucket fuel t = Some t' ->
  valid t' /\ (forall p, in_table t' p -> in_table t p) /\ t_size t' = t_size t /\ t_local t' = t_local t.
Proof.
  induction fuel as [|fuel IH]; intros t t' V H; [discriminate|].
  rewrite next_bucket_unfold in H.
  destruct kb_unfold_again.
  - destruct (IH _ _ (unfold_step_valid t V) H) as [V' [Hin [Hs Hl]]].
    split4; auto. intros p Hp. apply unfold_step_in_table; auto.
  - inversion H; subst. split4; auto using unfold_step_valid.
    intros p Hp. apply unfold_step_in_table; auto.
Qed.

(** Termination: every round of the unfolding that recurses has moved a peer whose common prefix
    with the local id is longer than the number of buckets before the round; prefixes are at most
    8*len(local) bits long. *)
Lemma next_bucket_terminates fuel : forall t,
  (1 <= t_size t)%Z -> 1 <= length (t_buckets t) -> 1 <= fuel ->
  8 * length (t_local t) + 2 <= fuel + length (t_buckets t) ->
  next_bucket fuel t <> None.
Proof.
  induction fuel as [|fuel IH]; intros t Hs Hn Hf Hb; [lia|].
  rewrite next_bucket_unfold.
  set (li := length (t_buckets t) - 1).
  destruct kb_unfold_again eqn:U; [|discriminate].
  unfold kb_unfold_again in U. apply Z.leb_le in U.
  destruct (split_out li (t_local t) (get_bucket t li)) as [|p r] eqn:So.
  { unfold blen in U; simpl in U; lia. }
  assert (Hp : In p (split_out li (t_local t) (get_bucket t li))) by (rewrite So; left; auto).
  apply filter_In in Hp. destruct Hp as [_ Hp]. apply split_moves_spec in Hp.
  pose proof (cpl_le (fst p) (t_local t)).
  assert (Hlen : length (t_buckets (unfold_step t)) = S (length (t_buckets t))).
  { unfold unfold_step; simpl. rewrite app_length, upd_length; simpl; lia. }
  apply IH; change (t_size (unfold_step t)) with (t_size t);
    change (t_local (unfold_step t)) with (t_local t); unfold li in *; lia.
Qed.

(** ... and with a bucket size of zero or less the unfolding never ends (the Go recursion
    overflows the stack). *)
Lemma next_bucket_diverges fuel : forall t, (t_size t <= 0)%Z -> next_bucket fuel t = None.
Proof.
  induction fuel as [|fuel IH]; intros t Hs; [reflexivity|].
  rewrite next_bucket_unfold.
  assert (U : forall b, kb_unfold_again (blen b) (t_size t) = true).
  { intro b. unfold kb_unfold_again, blen. apply Z.leb_le. lia. }
  rewrite U. apply IH. exact Hs.
Qed.

(** * Update *)

Lemma update_valid t id addr :
  valid t -> (1 <= t_size t)%Z -> length (t_local t) = KB_ID_LEN ->
  valid (fst (update t id addr)) /\ snd (update t id addr) <> UDiverged /\
  t_size (fst (update t id addr)) = t_size t /\ t_local (fst (update t id addr)) = t_local t.
Proof.
  intros V Hs Hl. pose proof (v_nonempty t V) as Hn. unfold update.
  rewrite (bi_update_1 t id Hn).
  assert (Hi : home t id < length (t_buckets t)) by (apply home_lt; auto).
  destruct (has id (get_bucket t (home t id))) eqn:Hh.
  { destruct (move_to_front id (get_bucket t (home t id))) as [b'|] eqn:M.
    - simpl. split4; auto; try discriminate. eapply move_to_front_valid; eauto.
    - exfalso. eapply move_to_front_some; eauto. }
  destruct (kb_update_has_room _ _) eqn:R.
  { simpl. split4; auto; try discriminate.
    apply push_front_valid; auto. unfold kb_update_has_room in R. apply Z.ltb_lt in R; auto. }
  destruct (kb_update_is_last _ _); [|simpl; split4; auto; discriminate].
  destruct (next_bucket unfold_fuel t) as [t'|] eqn:N.
  2:{ exfalso. revert N. apply next_bucket_terminates; auto; unfold unfold_fuel; try rewrite Hl; lia. }
  destruct (next_bucket_valid _ _ _ V N) as [V' [Hin [Hs' Hl']]].
  pose proof (v_nonempty t' V') as Hn'.
  rewrite <- Hl'.
  rewrite (bi_update_2 t' id Hn').
  destruct (kb_update_still_full _ _) eqn:F; simpl.
  { split4; auto; discriminate. }
  split4; auto; try discriminate.
  apply push_front_valid; auto.
  - (* the id is still nowhere in the table *)
    apply has_false. intro Hc. apply in_map_iff in Hc. destruct Hc as [p [Ep Hp]].
    refine (not_in_home_not_in_table t id V Hh p _ Ep).
    apply Hin. exists (home t' id), (get_bucket t' (home t' id)). split; auto.
    apply get_bucket_nth_error, home_lt; auto.
  - unfold kb_update_still_full in F. apply Z.leb_gt in F. auto.
Qed.

(** * Histories *)

Lemma step_valid t o :
  valid t -> (1 <= t_size t)%Z -> length (t_local t) = KB_ID_LEN ->
  valid (fst (step t o)) /\ diverged (snd (step t o)) = false /\
  t_size (fst (step t o)) = t_size t /\ t_local (fst (step t o)) = t_local t.
Proof.
  intros V Hs Hl. destruct o as [id addr|id|target count]; simpl.
  - destruct (update_valid t id addr V Hs Hl) as [V' [Hd [Hs' Hl']]].
    destruct (update t id addr) as [t' r]; simpl in *. split4; auto.
    destruct r; auto. congruence.
  - pose proof (remove_valid t id V) as V'. unfold remove in *.
    destruct (has id _); simpl in *; auto.
  - auto.
Qed.

Lemma run_valid ops : forall t,
  valid t -> (1 <= t_size t)%Z -> length (t_local t) = KB_ID_LEN ->
  valid (fst (run t ops)) /\ existsb diverged (snd (run t ops)) = false /\
  t_size (fst (run t ops)) = t_size t /\ t_local (fst (run t ops)) = t_local t.
Proof.
  induction ops as [|o r IH]; intros t V Hs Hl; simpl; auto.
  destruct (step_valid t o V Hs Hl) as [V' [Hd [Hs' Hl']]].
  destruct (step t o) as [t' res]; simpl in *. rewrite Hd.
  destruct (IH t' V' ltac:(lia) ltac:(congruence)) as [V'' [Hd' [Hs'' Hl'']]].
  destruct (run t' r) as [t'' rs]; simpl in *. rewrite Hd, Hd'. split4; auto; congruence.
Qed.

Lemma exec_valid size local ops :
  (1 <= size)%Z -> length local = KB_ID_LEN ->
  exists t, exec (new_table size local) ops = Some t /\ valid t /\ t_size t = size /\ t_local t = local.
Proof.
  intros Hs Hl.
  destruct (run_valid ops (new_table size local) (valid_new size local ltac:(lia)) Hs Hl)
    as [V [Hd [Hs' Hl']]].
  unfold exec. destruct (run (new_table size local) ops) as [t rs]; simpl in *.
  rewrite Hd. eauto.
Qed.

(** With a non-positive bucket size the very first Update does not return. *)
Lemma update_diverges size local id addr :
  (size <= 0)%Z -> update (new_table size local) id addr = (new_table size local, UDiverged).
Proof.
  intro Hs. unfold update.
  assert (Hi : bucket_index kb_clamp_update_1 kb_clamp_update_1_to (new_table size local)
                 (cpl id (t_local (new_table size local))) = 0).
  { rewrite bi_update_1; auto. unfold home; simpl. lia. }
  rewrite Hi.
  change (get_bucket (new_table size local) 0) with (@nil peer).
  change (has id []) with false. cbv iota.
  assert (R : kb_update_has_room (blen []) (t_size (new_table size local)) = false).
  { unfold kb_update_has_room, blen. apply Z.ltb_ge. simpl. lia. }
  rewrite R.
  assert (L : kb_update_is_last (Z.of_nat 0) (nbuckets (new_table size local)) = true) by reflexivity.
  rewrite L, next_bucket_diverges; auto.
Qed.

Lemma exec_diverges size local id addr ops :
  (size <= 0)%Z -> exec (new_table size local) (OUpdate id addr :: ops) = None.
Proof.
  intro Hs. unfold exec. cbn [run step]. rewrite (update_diverges size local id addr Hs). reflexivity.
Qed.

(** * The structural statement in the property's own words *)

Definition all_peers (t : table) : list peer := concat (t_buckets t).

Lemma NoDup_app_intro {A} (a b : list A) :
  NoDup a -> NoDup b -> (forall x, In x a -> In x b -> False) -> NoDup (a ++ b).
Proof.
  induction a as [|x a IH]; simpl; auto.
  intros Ha Hb Hd. inversion Ha; subst. constructor.
  - rewrite in_app_iff. intros [H|H]; auto. eapply Hd; eauto.
  - apply IH; auto. intros y Hy. apply Hd; auto.
Qed.

Lemma nodup_concat_offset (f : peer_id -> nat) (l : list bucket) : forall k,
  (forall i b, nth_error l i = Some b -> NoDup (map fst b)) ->
  (forall i b p, nth_error l i = Some b -> In p b -> f (fst p) = k + i) ->
  NoDup (map fst (concat l)).
Proof.
  induction l as [|b r IH]; intros k Hd Hp; simpl; [constructor|].
  rewrite map_app. apply NoDup_app_intro.
  - apply (Hd 0 b); auto.
  - apply (IH (S k)).
    + intros i b' H. apply (Hd (S i)); auto.
    + intros i b' p H Hin. rewrite (Hp (S i) b' p); auto. lia.
  - intros x Hx Hy. apply in_map_iff in Hx. destruct Hx as [p [Ep Hin]].
    apply in_map_iff in Hy. destruct Hy as [q [Eq Hq]].
    apply in_concat in Hq. destruct Hq as [b' [Hb' Hq]].
    apply In_nth_error in Hb'. destruct Hb' as [i Hi].
    pose proof (Hp 0 b p eq_refl Hin). pose proof (Hp (S i) b' q Hi Hq).
    rewrite Ep in *. rewrite Eq in *. lia.
Qed.

Lemma valid_nodup_all t : valid t -> NoDup (map fst (all_peers t)).
Proof.
  intro V. apply (nodup_concat_offset (home t) (t_buckets t) 0).
  - apply (v_nodup t V).
  - intros i b p H Hin. simpl. eapply v_place; eauto.
Qed.

Lemma in_table_all_peers t p : in_table t p <-> In p (all_peers t).
Proof.
  unfold in_table, all_peers. rewrite in_concat. split.
  - intros [i [b [H Hin]]]. exists b. split; auto. eapply nth_error_In; eauto.
  - intros [b [Hb Hin]]. apply In_nth_error in Hb. destruct Hb as [i Hi]. eauto.
Qed.

(** * NearestPeers *)

Lemma take_while_short_prefix short count l : forall acc,
  exists k, take_while_short short count acc l = acc ++ concat (firstn k l).
Proof.
  induction l as [|b r IH]; intro acc; simpl.
  - exists 0. rewrite app_nil_r; auto.
  - destruct (short (blen acc) count).
    + destruct (IH (acc ++ b)) as [k Hk]. exists (S k). rewrite Hk. simpl. rewrite app_assoc; auto.
    + exists 0. simpl. rewrite app_nil_r; auto.
Qed.

(** The loops stop early only when enough peers have been collected. *)
Lemma take_while_short_enough count l : forall acc,
  take_while_short Z.ltb count acc l = acc ++ concat l \/
  (count <= blen (take_while_short Z.ltb count acc l))%Z.
Proof.
  induction l as [|b r IH]; intro acc; simpl.
  - left. rewrite app_nil_r; auto.
  - destruct (Z.ltb_spec (blen acc) count).
    + destruct (IH (acc ++ b)) as [H1|H1]; [left|right; auto]. rewrite H1, app_assoc; auto.
    + right; auto.
Qed.

Lemma collect_perm {A} (F R : list (list A)) (bc : list A) k1 k2 :
  Permutation (concat (F ++ bc :: R))
    (((bc ++ concat (firstn k1 R)) ++ concat (firstn k2 (rev F))) ++
     (concat (skipn k1 R) ++ concat (skipn k2 (rev F)))).
Proof.
  assert (P1 : Permutation (concat F) (concat (firstn k2 (rev F)) ++ concat (skipn k2 (rev F)))).
  { rewrite <- concat_app, firstn_skipn. apply concat_perm, Permutation_rev. }
  assert (E1 : concat R = concat (firstn k1 R) ++ concat (skipn k1 R)).
  { rewrite <- concat_app, firstn_skipn; auto. }
  rewrite concat_app. simpl. rewrite E1.
  set (f1 := concat (firstn k2 (rev F))) in *. set (f2 := concat (skipn k2 (rev F))) in *.
  set (r1 := concat (firstn k1 R)). set (r2 := concat (skipn k1 R)).
  eapply perm_trans; [apply Permutation_app_tail, P1|].
  eapply perm_trans; [apply Permutation_app_comm|].
  repeat rewrite <- app_assoc.
  do 2 apply Permutation_app_head.
  apply Permutation_app_swap_app.
Qed.

Lemma wrap_int64_small z : (0 <= z < 2 ^ 63)%Z -> wrap_int64 z = z.
Proof. intro H. unfold wrap_int64. rewrite Z.mod_small; lia. Qed.

Definition nearest_spec (t : table) (target : peer_id) (count : Z) (out : list peer) : Prop :=
  NoDup (map fst out) /\
  StronglySorted (dist_le target) out /\
  incl out (all_peers t) /\
  Z.of_nat (length out) = Z.min count (Z.of_nat (length (all_peers t))).

Lemma nearest_peers_ok t target count :
  valid t -> (0 <= t_size t)%Z -> (0 <= count)%Z -> (count + t_size t < 2 ^ 63)%Z ->
  exists out, nearest_peers t target count = NOk out /\ nearest_spec t target count out.
Proof.
  intros V Hs Hc Hw. pose proof (v_nonempty t V) as Hn.
  unfold nearest_peers. rewrite (bi_nearest t target Hn).
  set (c := home t target).
  assert (Hcl : c < length (t_buckets t)) by (apply home_lt; auto).
  rewrite wrap_int64_small by lia.
  destruct (Z.ltb_spec (count + t_size t) 0); [lia|].
  set (F := firstn c (t_buckets t)). set (R := skipn (S c) (t_buckets t)).
  unfold kb_nearest_short_right, kb_nearest_short_left.
  change (fun have count0 : Z => (have <? count0)%Z) with Z.ltb.
  destruct (take_while_short_prefix Z.ltb count R (get_bucket t c)) as [k1 E1].
  pose proof (take_while_short_enough count R (get_bucket t c)) as G1.
  set (p1 := take_while_short Z.ltb count (get_bucket t c) R) in *.
  destruct (take_while_short_prefix Z.ltb count (rev F) p1) as [k2 E2].
  pose proof (take_while_short_enough count (rev F) p1) as G2.
  set (p2 := take_while_short Z.ltb count p1 (rev F)) in *.
  assert (P : Permutation (all_peers t)
                (p2 ++ (concat (skipn k1 R) ++ concat (skipn k2 (rev F))))).
  { unfold all_peers. rewrite (split_at (t_buckets t) c [] Hcl) at 1.
    rewrite E2, E1. apply collect_perm. }
  pose proof (valid_nodup_all t V) as ND.
  assert (ND2 : NoDup (map fst p2)).
  { eapply Permutation_NoDup in ND; [|apply Permutation_map, P].
    rewrite map_app in ND. eapply NoDup_app_l; eauto. }
  assert (I2 : incl p2 (all_peers t)).
  { intros x Hx. eapply Permutation_in; [apply Permutation_sym, P|]. apply in_or_app; auto. }
  assert (L2 : length p2 <= length (all_peers t)).
  { rewrite (Permutation_length P), app_length. lia. }
  assert (L2' : (count <= blen p2)%Z \/ length p2 = length (all_peers t)).
  { destruct G2 as [G2|G2]; auto. destruct G1 as [G1|G1].
    - right. rewrite (Permutation_length P), app_length.
      assert (length (concat (skipn k1 R) ++ concat (skipn k2 (rev F))) = 0); [|lia].
      assert (HP : Permutation (all_peers t) p2).
      { unfold all_peers. rewrite (split_at (t_buckets t) c [] Hcl) at 1.
        rewrite G2, G1. fold F R.
        pose proof (collect_perm F R (get_bucket t c) (length R) (length (rev F))) as Q.
        rewrite !firstn_all, !skipn_all in Q. simpl in Q. rewrite app_nil_r in Q. exact Q. }
      apply Permutation_length in HP. rewrite (Permutation_length P), app_length in HP. lia.
    - left. rewrite E2. unfold blen in *. rewrite app_length. lia. }
  set (sorted := sort_by (dist_less target) p2).
  pose proof (sort_by_perm (dist_less target) p2) as PS. fold sorted in PS.
  pose proof (sort_by_sorted target p2) as SS. fold sorted in SS.
  assert (NDs : NoDup (map fst sorted)).
  { eapply Permutation_NoDup; [apply Permutation_map, Permutation_sym, PS|auto]. }
  assert (Is : incl sorted (all_peers t)).
  { intros x Hx. apply I2. eapply Permutation_in; eauto. }
  pose proof (Permutation_length PS) as LS.
  unfold kb_nearest_truncate, blen.
  destruct (Z.ltb_spec count (Z.of_nat (length sorted))).
  - destruct (Z.ltb_spec count 0); [lia|].
    eexists; split; [reflexivity|]. unfold nearest_spec. split; [|split; [|split]].
    + rewrite <- firstn_map. apply NoDup_firstn; auto.
    + apply StronglySorted_firstn; auto.
    + intros x Hx. apply Is. rewrite <- (firstn_skipn (Z.to_nat count) sorted). apply in_or_app; auto.
    + rewrite firstn_length. lia.
  - eexists; split; [reflexivity|]. unfold nearest_spec. split; [|split; [|split]]; auto.
    unfold blen in *. lia.
Qed.

(** * The statement of the property *)

(** Every peer at most once; no bucket above the bucket size; every peer in the bucket of its
    common prefix length with the local id, or in the last bucket when its prefix is at least that
    long. *)
Definition table_ok (t : table) : Prop :=
  NoDup (map fst (all_peers t)) /\
  (forall b, In b (t_buckets t) -> (Z.of_nat (length b) <= t_size t)%Z) /\
  (forall i b p, nth_error (t_buckets t) i = Some b -> In p b ->
     cpl (fst p) (t_local t) = i \/
     (i = length (t_buckets t) - 1 /\ i <= cpl (fst p) (t_local t))).

Lemma valid_table_ok t : valid t -> table_ok t.
Proof.
  intro V. split; [apply valid_nodup_all; auto|split].
  - intros b Hb. apply In_nth_error in Hb. destruct Hb as [i Hi]. apply (v_size t V i b Hi).
  - intros i b p Hb Hp. pose proof (v_place t V i b p Hb Hp) as H. unfold home in H.
    pose proof (v_nonempty t V). lia.
Qed.

Definition c37_holds_for (size : Z) (local : peer_id) : Prop :=
  forall ops : list op,
  exists t, exec (new_table size local) ops = Some t /\
    table_ok t /\
    forall target count, (0 <= count)%Z -> (count + size < 2 ^ 63)%Z ->
      exists out, nearest_peers t target count = NOk out /\ nearest_spec t target count out.

Lemma c37_holds size local : (1 <= size)%Z -> length local = KB_ID_LEN -> c37_holds_for size local.
Proof.
  intros Hs Hl ops. destruct (exec_valid size local ops Hs Hl) as [t [E [V [Hs' Hl']]]].
  exists t. split; auto. split; [apply valid_table_ok; auto|].
  intros target count Hc Hw. apply nearest_peers_ok; auto; lia.
Qed.

Lemma default_size_positive : (1 <= kb_dht_bucket_size KB_KVALUE)%Z.
Proof. unfold kb_dht_bucket_size, KB_KVALUE. lia. Qed.

Lemma unfold_terminates t :
  (1 <= t_size t)%Z -> 1 <= length (t_buckets t) -> length (t_local t) = KB_ID_LEN ->
  next_bucket unfold_fuel t <> None.
Proof.
  intros Hs Hn Hl. apply next_bucket_terminates; auto; unfold unfold_fuel; try rewrite Hl; lia.
Qed.

Lemma unfold_needs_positive_size (size : Z) (local id : peer_id) (addr : N) (ops : list op) :
  (size <= 0)%Z ->
  (forall fuel t, t_size t = size -> next_bucket fuel t = None) /\
  exec (new_table size local) (OUpdate id addr :: ops) = None.
Proof.
  intros Hs. split.
  - intros fuel t E. apply next_bucket_diverges. rewrite E; exact Hs.
  - apply exec_diverges; exact Hs.
Qed.

Lemma not_for_all_sizes :
  ~ (forall (size : Z) (local : peer_id), length local = KB_ID_LEN -> c37_holds_for size local).
Proof.
  intro H. destruct (H 0%Z (repeat 0%N KB_ID_LEN) (repeat_length _ _) [OUpdate [] 0%N]) as [t [E _]].
  rewrite exec_diverges in E; [discriminate|lia].
Qed.

Lemma dist_le_total_preorder target p q r :
  (dist_le target p q \/ dist_le target q p) /\
  (dist_le target p q -> dist_le target q r -> dist_le target p r).
Proof.
  split; [|apply dist_le_trans].
  destruct (dist_less target p q) eqn:E; [left; apply dist_less_true|right; apply dist_less_false]; auto.
Qed.

(** * What the byte-level order and prefix length mean numerically *)

(** value of a byte string read as a big-endian number *)
Fixpoint be_val (b : bytes) : N :=
  match b with
  | [] => 0
  | x :: r => x * 256 ^ N.of_nat (length r) + be_val r
  end%N.

Lemma be_val_bound b : wf_bytes b = true -> (be_val b < 256 ^ N.of_nat (length b))%N.
Proof.
  induction b as [|x r IH]; intro H; [simpl; lia|].
  rewrite wf_bytes_cons in H. apply andb_prop in H. destruct H as [Hx Hr].
  specialize (IH Hr). unfold byte_ok in Hx. apply N.ltb_lt in Hx.
  cbn [be_val length]. rewrite pow256_succ. nia.
Qed.

(** [bytes.Compare] on equally long byte strings is the comparison of the numbers they denote. *)
Lemma bytes_compare_numeric a : forall b,
  length a = length b -> wf_bytes a = true -> wf_bytes b = true ->
  bytes_compare a b = (be_val a ?= be_val b)%N.
Proof.
  induction a as [|x a IH]; intros [|y b] Hl Ha Hb; simpl in Hl; try discriminate; [reflexivity|].
  rewrite wf_bytes_cons in Ha, Hb. apply andb_prop in Ha, Hb. destruct Ha as [Hx Ha], Hb as [Hy Hb].
  injection Hl as Hl.
  pose proof (be_val_bound a Ha) as Ba. pose proof (be_val_bound b Hb) as Bb.
  cbn [bytes_compare be_val]. rewrite <- Hl in *.
  set (P := (256 ^ N.of_nat (length a))%N) in *.
  destruct (N.compare_spec x y) as [E|E|E].
  - subst y. rewrite (IH b Hl Ha Hb).
    destruct (N.compare_spec (be_val a) (be_val b)) as [E|E|E]; symmetry;
      [apply N.compare_eq_iff|apply N.compare_lt_iff|apply N.compare_gt_iff]; lia.
  - symmetry. apply N.compare_lt_iff. nia.
  - symmetry. apply N.compare_gt_iff. nia.
Qed.

Lemma lxor_byte x y : (x < 256)%N -> (y < 256)%N -> (N.lxor x y < 256)%N.
Proof.
  intros Hx Hy.
  destruct (N.eq_dec (N.lxor x y) 0) as [E|E]; [rewrite E; lia|].
  change 256%N with (2 ^ 8)%N. apply N.log2_lt_pow2; [lia|].
  eapply N.le_lt_trans; [apply N.log2_lxor|].
  apply N.max_lub_lt.
  - destruct (N.eq_dec x 0) as [->|Nx]; [simpl; lia|]. apply N.log2_lt_pow2; lia.
  - destruct (N.eq_dec y 0) as [->|Ny]; [simpl; lia|]. apply N.log2_lt_pow2; lia.
Qed.

Lemma distance_wf a : forall b, wf_bytes a = true -> wf_bytes b = true -> wf_bytes (distance a b) = true.
Proof.
  induction a as [|x a IH]; intros [|y b] Ha Hb; simpl; auto.
  rewrite wf_bytes_cons in Ha, Hb. apply andb_prop in Ha, Hb. destruct Ha as [Hx Ha], Hb as [Hy Hb].
  apply andb_true_intro. split; [|apply IH; auto].
  unfold byte_ok in *. apply N.ltb_lt. apply lxor_byte; apply N.ltb_lt; auto.
Qed.

Lemma distance_length a : forall b, length a = length b -> length (distance a b) = length a.
Proof. induction a as [|x a IH]; intros [|y b] H; simpl in *; try discriminate; auto. Qed.

Definition wf_id (id : peer_id) : Prop := length id = KB_ID_LEN /\ wf_bytes id = true.

(** XOR distance as a number *)
Definition xor_dist (a b : peer_id) : N := be_val (distance a b).

(** For real ids ([KB_ID_LEN] bytes) the order NearestPeers sorts by is the numeric order of the
    XOR distances. *)
Lemma dist_le_numeric target p q :
  wf_id target -> wf_id (fst p) -> wf_id (fst q) ->
  (dist_le target p q <-> (xor_dist target (fst p) <= xor_dist target (fst q))%N).
Proof.
  intros [Lt Wt] [Lp Wp] [Lq Wq]. unfold dist_le, xor_dist.
  rewrite bytes_compare_numeric.
  - rewrite N.compare_le_iff. tauto.
  - rewrite !distance_length; congruence.
  - apply distance_wf; auto.
  - apply distance_wf; auto.
Qed.

(** [N.size_nat x] is the least [k] with [x < 2^k] (the bit length, Go's [bits.Len]). *)
Lemma pos_size_nat_spec p : forall k, Pos.size_nat p <= k <-> (N.pos p < 2 ^ N.of_nat k)%N.
Proof.
  induction p as [p IH|p IH|]; intros [|k]; simpl Pos.size_nat.
  - simpl. lia.
  - rewrite Nat2N.inj_succ, N.pow_succ_r'. specialize (IH k). lia.
  - simpl. lia.
  - rewrite Nat2N.inj_succ, N.pow_succ_r'. specialize (IH k). lia.
  - simpl. lia.
  - rewrite Nat2N.inj_succ, N.pow_succ_r'. assert (2 ^ N.of_nat k <> 0)%N by (apply N.pow_nonzero; discriminate). lia.
Qed.

Lemma size_nat_spec x k : N.size_nat x <= k <-> (x < 2 ^ N.of_nat k)%N.
Proof.
  destruct x as [|p]; simpl.
  - assert (0 < 2 ^ N.of_nat k)%N by (apply N.neq_0_lt_0, N.pow_nonzero; discriminate). lia.
  - apply pos_size_nat_spec.
Qed.

Lemma size_nat_unique y k : (2 ^ N.of_nat k <= y < 2 ^ N.of_nat (S k))%N -> N.size_nat y = S k.
Proof.
  intros [H1 H2]. apply size_nat_spec in H2.
  assert (~ N.size_nat y <= k) by (rewrite size_nat_spec; lia). lia.
Qed.

Lemma pow256_pow2 n : (256 ^ N.of_nat n = 2 ^ N.of_nat (8 * n))%N.
Proof.
  change 256%N with (2 ^ 8)%N. rewrite <- N.pow_mul_r. f_equal. lia.
Qed.

(** [zeroPrefixLen] counts the leading zero bits of the byte string read as a number. *)
Lemma zero_prefix_len_numeric d :
  wf_bytes d = true -> zero_prefix_len d = 8 * length d - N.size_nat (be_val d).
Proof.
  induction d as [|b r IH]; intro H; [reflexivity|].
  rewrite wf_bytes_cons in H. apply andb_prop in H. destruct H as [Hb Hr].
  specialize (IH Hr). pose proof (be_val_bound r Hr) as Br. rewrite pow256_pow2 in Br.
  unfold byte_ok in Hb. apply N.ltb_lt in Hb.
  cbn [zero_prefix_len be_val length]. rewrite pow256_pow2.
  destruct (N.eqb_spec b 0) as [->|Nb].
  - rewrite N.mul_0_l, N.add_0_l. apply size_nat_spec in Br. lia.
  - unfold leading_zeros8.
    assert (Hs : exists s, N.size_nat b = S s).
    { destruct (N.size_nat b) eqn:E; eauto. exfalso.
      assert (N.size_nat b <= 0) as Hz by lia. apply size_nat_spec in Hz. simpl in Hz. lia. }
    destruct Hs as [s Hs].
    assert (H1 : (b < 2 ^ N.of_nat (S s))%N) by (apply size_nat_spec; lia).
    assert (H0 : (2 ^ N.of_nat s <= b)%N).
    { apply N.le_ngt. intro Hc. apply size_nat_spec in Hc. lia. }
    assert (Hs8 : S s <= 8) by (rewrite <- Hs; apply size_nat_spec; exact Hb).
    rewrite (size_nat_unique (b * 2 ^ N.of_nat (8 * length r) + be_val r) (s + 8 * length r)).
    + lia.
    + replace (N.of_nat (s + 8 * length r)) with (N.of_nat s + N.of_nat (8 * length r))%N by lia.
      replace (N.of_nat (S (s + 8 * length r))) with (N.of_nat (S s) + N.of_nat (8 * length r))%N by lia.
      rewrite !N.pow_add_r. set (P := (2 ^ N.of_nat (8 * length r))%N) in *. nia.
Qed.

(** CommonPrefixLen of two real ids: the number of leading zero bits of their XOR distance
    written with 8*KB_ID_LEN bits, i.e. the number of leading bits the two ids share. *)
Lemma cpl_numeric a b :
  wf_id a -> wf_id b -> cpl a b = 8 * KB_ID_LEN - N.size_nat (xor_dist a b).
Proof.
  intros [La Wa] [Lb Wb]. unfold cpl, xor_dist.
  rewrite zero_prefix_len_numeric by (apply distance_wf; auto).
  rewrite distance_length; congruence.
Qed.

(** * Remove is effective: after Remove(id) no peer with that id is left anywhere in the table *)

Lemma has_remove_first id b : NoDup (map fst b) -> has id (remove_first id b) = false.
Proof.
  induction b as [|p r IH]; simpl; intro N; [reflexivity|].
  inversion N as [|x l Hnot Hr]; subst.
  destruct (id_eqb (fst p) id) eqn:E.
  - apply id_eqb_eq in E. subst id. apply has_false. exact Hnot.
  - simpl. rewrite E. simpl. apply IH. exact Hr.
Qed.

Lemma remove_effective t id :
  valid t -> forall p, in_table (fst (remove t id)) p -> fst p <> id.
Proof.
  intros V. pose proof (remove_valid t id V) as V'.
  apply (not_in_home_not_in_table _ id V').
  unfold remove in *. rewrite (bi_remove t id (v_nonempty t V)) in *.
  assert (Hi : home t id < length (t_buckets t)) by (apply home_lt, (v_nonempty t V)).
  pose proof (get_bucket_nth_error t _ Hi) as E.
  destruct (has id (get_bucket t (home t id))) eqn:Hh; simpl in *; [|exact Hh].
  assert (Hhome : home (set_bucket t (home t id) (remove_first id (get_bucket t (home t id)))) id = home t id).
  { unfold home, set_bucket; simpl. rewrite upd_length. reflexivity. }
  rewrite Hhome.
  assert (G : get_bucket (set_bucket t (home t id) (remove_first id (get_bucket t (home t id)))) (home t id)
              = remove_first id (get_bucket t (home t id))).
  { assert (L : home t id < length (t_buckets (set_bucket t (home t id) (remove_first id (get_bucket t (home t id)))))).
    { unfold set_bucket; simpl. rewrite upd_length. exact Hi. }
    pose proof (get_bucket_nth_error _ _ L) as E2.
    unfold set_bucket in E2 at 1; simpl in E2. rewrite nth_error_upd in E2.
    rewrite Nat.eqb_refl in E2. apply Nat.ltb_lt in Hi. rewrite Hi in E2.
    injection E2 as E2. symmetry. exact E2. }
  rewrite G. apply has_remove_first. exact (v_nodup t V _ _ E).
Qed.

Lemma remove_effective_reachable size local ops id t :
  (1 <= size)%Z -> length local = KB_ID_LEN ->
  exec (new_table size local) ops = Some t ->
  forall p, in_table (fst (remove t id)) p -> fst p <> id.
Proof.
  intros Hs Hl E. destruct (exec_valid size local ops Hs Hl) as [t' [E' [V _]]].
  rewrite E in E'. injection E' as <-. apply remove_effective. exact V.
Qed.

(** * Update is effective: when it reports the peer as added ([rt.PeerAdded] is called), the peer
      with exactly that id and address is in the table *)

Lemma in_table_set_bucket_head t i p b :
  i < length (t_buckets t) -> in_table (set_bucket t i (p :: b)) p.
Proof.
  intro Hi. exists i, (p :: b). split; [|left; reflexivity].
  unfold set_bucket; simpl. rewrite nth_error_upd, Nat.eqb_refl.
  apply Nat.ltb_lt in Hi. rewrite Hi. reflexivity.
Qed.

Lemma update_added_in_table t id addr :
  valid t -> snd (update t id addr) = UAdded -> in_table (fst (update t id addr)) (id, addr).
Proof.
  intros V. unfold update.
  rewrite (bi_update_1 t id (v_nonempty t V)).
  assert (Hi : home t id < length (t_buckets t)) by (apply home_lt, (v_nonempty t V)).
  destruct (has id (get_bucket t (home t id))).
  { destruct (move_to_front id (get_bucket t (home t id))); simpl; discriminate. }
  destruct (kb_update_has_room _ _).
  { simpl. intros _. apply in_table_set_bucket_head. exact Hi. }
  destruct (kb_update_is_last _ _); [|simpl; discriminate].
  destruct (next_bucket unfold_fuel t) as [t'|] eqn:NB; [|simpl; discriminate].
  destruct (next_bucket_valid _ _ _ V NB) as [V' [_ [_ Hl]]].
  pose proof (bi_update_2 t' id (v_nonempty t' V')) as B. rewrite Hl in B. rewrite B.
  destruct (kb_update_still_full _ _); simpl; [discriminate|].
  intros _. apply in_table_set_bucket_head. apply home_lt, (v_nonempty t' V').
Qed.

Lemma update_added_reachable size local ops id addr t :
  (1 <= size)%Z -> length local = KB_ID_LEN ->
  exec (new_table size local) ops = Some t ->
  snd (update t id addr) = UAdded -> in_table (fst (update t id addr)) (id, addr).
Proof.
  intros Hs Hl E. destruct (exec_valid size local ops Hs Hl) as [t' [E' [V _]]].
  rewrite E in E'. injection E' as <-. apply update_added_in_table. exact V.
Qed.

(** * Update never loses a peer: bucket unfolding only moves entries, MoveToFront permutes the
      bucket, and a full table rejects the newcomer instead of evicting *)

Lemma in_table_set_bucket t i b' p :
  i < length (t_buckets t) ->
  (forall q, In q (get_bucket t i) -> In q b') ->
  in_table t p -> in_table (set_bucket t i b') p.
Proof.
  intros Hi Hsub [j [b [E Hp]]].
  destruct (Nat.eqb_spec i j) as [<-|Hne].
  - exists i, b'. split.
    + unfold set_bucket; simpl. rewrite nth_error_upd, Nat.eqb_refl.
      apply Nat.ltb_lt in Hi. rewrite Hi. reflexivity.
    + apply Hsub. rewrite (get_bucket_nth_error t i Hi) in E. injection E as <-. exact Hp.
  - exists j, b. split; [|exact Hp].
    unfold set_bucket; simpl. rewrite nth_error_upd.
    destruct (Nat.eqb_spec i j); [contradiction|exact E].
Qed.

Lemma unfold_step_keeps t p :
  1 <= length (t_buckets t) -> in_table t p -> in_table (unfold_step t) p.
Proof.
  intros Hn [j [b [E Hp]]].
  set (li := length (t_buckets t) - 1).
  assert (Hli : li < length (t_buckets t)) by (unfold li; lia).
  assert (Hj : j < length (t_buckets t)) by (apply nth_error_Some; congruence).
  destruct (Nat.eqb_spec li j) as [<-|Hne].
  - rewrite (get_bucket_nth_error t li Hli) in E. injection E as <-.
    destruct (split_moves li (t_local t) p) eqn:M.
    + exists (length (t_buckets t)), (split_out li (t_local t) (get_bucket t li)). split.
      * unfold unfold_step; simpl. fold li.
        rewrite nth_error_app2 by (rewrite upd_length; lia).
        rewrite upd_length, Nat.sub_diag. reflexivity.
      * unfold split_out. apply filter_In. split; assumption.
    + exists li, (split_keep li (t_local t) (get_bucket t li)). split.
      * unfold unfold_step; simpl. fold li.
        rewrite nth_error_app1 by (rewrite upd_length; exact Hli).
        rewrite nth_error_upd, Nat.eqb_refl.
        apply Nat.ltb_lt in Hli. rewrite Hli. reflexivity.
      * unfold split_keep. apply filter_In. split; [assumption|]. rewrite M. reflexivity.
  - exists j, b. split; [|exact Hp].
    unfold unfold_step; simpl. fold li.
    rewrite nth_error_app1 by (rewrite upd_length; exact Hj).
    rewrite nth_error_upd. destruct (Nat.eqb_spec li j); [contradiction|exact E].
Qed.

Lemma unfold_step_length t : length (t_buckets (unfold_step t)) = S (length (t_buckets t)).
Proof. unfold unfold_step; simpl. rewrite app_length, upd_length; simpl; lia. Qed.

Lemma next_bucket_keeps fuel : forall t t' p,
  1 <= length (t_buckets t) -> next_bucket fuel t = Some t' -> in_table t p -> in_table t' p.
Proof.
  induction fuel as [|fuel IH]; intros t t' p Hn H Hp; [discriminate|].
  rewrite next_bucket_unfold in H.
  destruct kb_unfold_again.
  - apply (IH (unfold_step t)); [rewrite unfold_step_length; lia|exact H|].
    apply unfold_step_keeps; assumption.
  - injection H as <-. apply unfold_step_keeps; assumption.
Qed.

Lemma update_keeps_peers t id addr p :
  valid t -> in_table t p -> in_table (fst (update t id addr)) p.
Proof.
  intros V Hp. unfold update.
  rewrite (bi_update_1 t id (v_nonempty t V)).
  assert (Hi : home t id < length (t_buckets t)) by (apply home_lt, (v_nonempty t V)).
  destruct (has id (get_bucket t (home t id))).
  { destruct (move_to_front id (get_bucket t (home t id))) as [b'|] eqn:M; simpl; [|exact Hp].
    apply in_table_set_bucket; [exact Hi| |exact Hp].
    intros q Hq. unfold move_to_front in M.
    destruct (find_first id (get_bucket t (home t id))) as [f|] eqn:F.
    - destruct (count_id id _ <=? 1); [|discriminate]. injection M as <-.
      destruct (find_first_perm _ _ _ F) as [HP _]. eapply Permutation_in; [exact HP|exact Hq].
    - injection M as <-. exact Hq. }
  destruct (kb_update_has_room _ _).
  { simpl. apply in_table_set_bucket; [exact Hi| |exact Hp]. intros q Hq. right. exact Hq. }
  destruct (kb_update_is_last _ _); [|simpl; exact Hp].
  destruct (next_bucket unfold_fuel t) as [t'|] eqn:NB; [|simpl; exact Hp].
  destruct (next_bucket_valid _ _ _ V NB) as [V' [_ [_ Hl]]].
  pose proof (next_bucket_keeps _ _ _ p (v_nonempty t V) NB Hp) as Hp'.
  pose proof (bi_update_2 t' id (v_nonempty t' V')) as B. rewrite Hl in B. rewrite B.
  destruct (kb_update_still_full _ _); simpl; [exact Hp'|].
  apply in_table_set_bucket; [apply home_lt, (v_nonempty t' V')| |exact Hp'].
  intros q Hq. right. exact Hq.
Qed.

Lemma update_keeps_reachable size local ops id addr t p :
  (1 <= size)%Z -> length local = KB_ID_LEN ->
  exec (new_table size local) ops = Some t ->
  in_table t p -> in_table (fst (update t id addr)) p.
Proof.
  intros Hs Hl E. destruct (exec_valid size local ops Hs Hl) as [t' [E' [V _]]].
  rewrite E in E'. injection E' as <-. apply update_keeps_peers. exact V.
Qed.

(** ... and Remove(id) removes nothing but peers with that id *)
Lemma remove_first_keeps id b q : In q b -> fst q <> id -> In q (remove_first id b).
Proof.
  induction b as [|x r IH]; simpl; [tauto|].
  intros [->|Hq] Hne.
  - destruct (id_eqb (fst q) id) eqn:E; [apply id_eqb_eq in E; contradiction|left; reflexivity].
  - destruct (id_eqb (fst x) id); [exact Hq|right; apply IH; assumption].
Qed.

Lemma in_table_set_bucket_one t i b' p :
  i < length (t_buckets t) ->
  (In p (get_bucket t i) -> In p b') ->
  in_table t p -> in_table (set_bucket t i b') p.
Proof.
  intros Hi Hsub [j [b [E Hp]]].
  destruct (Nat.eqb_spec i j) as [<-|Hne].
  - exists i, b'. split.
    + unfold set_bucket; simpl. rewrite nth_error_upd, Nat.eqb_refl.
      apply Nat.ltb_lt in Hi. rewrite Hi. reflexivity.
    + apply Hsub. rewrite (get_bucket_nth_error t i Hi) in E. injection E as <-. exact Hp.
  - exists j, b. split; [|exact Hp].
    unfold set_bucket; simpl. rewrite nth_error_upd.
    destruct (Nat.eqb_spec i j); [contradiction|exact E].
Qed.

Lemma remove_keeps_others t id p :
  valid t -> in_table t p -> fst p <> id -> in_table (fst (remove t id)) p.
Proof.
  intros V Hp Hne. unfold remove.
  rewrite (bi_remove t id (v_nonempty t V)).
  assert (Hi : home t id < length (t_buckets t)) by (apply home_lt, (v_nonempty t V)).
  destruct (has id (get_bucket t (home t id))); simpl; [|exact Hp].
  apply in_table_set_bucket_one; [exact Hi| |exact Hp].
  intro Hq. apply remove_first_keeps; assumption.
Qed.

Lemma remove_keeps_reachable size local ops id t p :
  (1 <= size)%Z -> length local = KB_ID_LEN ->
  exec (new_table size local) ops = Some t ->
  in_table t p -> fst p <> id -> in_table (fst (remove t id)) p.
Proof.
  intros Hs Hl E. destruct (exec_valid size local ops Hs Hl) as [t' [E' [V _]]].
  rewrite E in E'. injection E' as <-. apply remove_keeps_others. exact V.
Qed.
