(** C43 — the transposition computed by the bloombits generator ([gen_vectors]) and the bit
    packing of section vectors. *)
From Coq Require Import List Bool Arith NArith ZArith Lia ZifyN ZifyNat ZifyBool.
Import ListNotations.
From Ont Require Import Lib.Bytes Gen.BloomConsts Gen.BloomFormulas Model.Bloom.
Local Open Scope N_scope.
Ltac Zify.zify_post_hook ::= Z.to_euclidean_division_equations.

Lemma nthb_cons x v q : nthb (x :: v) (q + 1) = nthb v q.
Proof. unfold nthb. replace (N.to_nat (q + 1)) with (S (N.to_nat q)) by lia. reflexivity. Qed.

Lemma vec_bit_cons x v k : vec_bit (x :: v) (k + 8) = vec_bit v k.
Proof.
  unfold vec_bit. replace ((k + 8) / 8) with (k / 8 + 1) by lia.
  replace ((k + 8) mod 8) with (k mod 8) by lia. rewrite nthb_cons. reflexivity.
Qed.

Lemma pack8_first b7 b6 b5 b4 b3 b2 b1 b0 r k : (k < 8)%nat ->
  vec_bit (pack8 (b7 :: b6 :: b5 :: b4 :: b3 :: b2 :: b1 :: b0 :: r)) (N.of_nat k)
  = nth k [b7; b6; b5; b4; b3; b2; b1; b0] false.
Proof.
  intro H. do 8 (destruct k as [|k]; [destruct b7, b6, b5, b4, b3, b2, b1, b0; reflexivity|]). lia.
Qed.

Lemma pack8_bit m : forall l k, length l = (8 * m)%nat -> (k < 8 * m)%nat ->
  vec_bit (pack8 l) (N.of_nat k) = nth k l false.
Proof.
  induction m as [|m IH]; intros l k Hl Hk; [lia|].
  destruct l as [|b7 [|b6 [|b5 [|b4 [|b3 [|b2 [|b1 [|b0 r]]]]]]]]; simpl in Hl; try lia.
  destruct (Nat.ltb k 8) eqn:E.
  - apply Nat.ltb_lt in E. rewrite pack8_first by exact E.
    do 8 (destruct k as [|k]; [reflexivity|]). lia.
  - apply Nat.ltb_ge in E. replace k with (8 + (k - 8))%nat by lia.
    cbn [pack8]. replace (N.of_nat (8 + (k - 8))) with (N.of_nat (k - 8) + 8) by lia.
    rewrite vec_bit_cons. rewrite IH by lia. reflexivity.
Qed.

Lemma pack8_length m : forall l, length l = (8 * m)%nat -> length (pack8 l) = m.
Proof.
  induction m as [|m IH]; intros l Hl.
  - destruct l; [reflexivity|simpl in Hl; lia].
  - destruct l as [|b7 [|b6 [|b5 [|b4 [|b3 [|b2 [|b1 [|b0 r]]]]]]]]; simpl in Hl; try lia.
    cbn [pack8 length]. rewrite IH by lia. reflexivity.
Qed.

Lemma columns_length n rows : length (columns n rows) = n.
Proof. revert rows; induction n as [|n IH]; intro rows; simpl; [reflexivity|rewrite IH; reflexivity]. Qed.

Lemma nth_columns n : forall rows p, (p < n)%nat ->
  nth p (columns n rows) [] = map (fun r => nth p r 0) rows.
Proof.
  induction n as [|n IH]; intros rows p Hp; [lia|].
  destruct p as [|p]; simpl.
  - apply map_ext; intros [|x r]; reflexivity.
  - rewrite IH by lia. rewrite map_map. apply map_ext; intros [|x r]; [destruct p|]; reflexivity.
Qed.

Lemma nth_flat_map_chunks {A B : Type} (f : A -> list B) (c : nat) (da : A) (d : B) :
  (forall a, length (f a) = c) -> forall l i, (i < c * length l)%nat ->
  nth i (flat_map f l) d = nth (i mod c) (f (nth (i / c) l da)) d.
Proof.
  intros Hc l; induction l as [|a r IH]; intros i Hi; [simpl in Hi; lia|].
  assert (c <> 0)%nat by (intro; subst; simpl in Hi; lia).
  simpl. destruct (Nat.ltb i c) eqn:E.
  - apply Nat.ltb_lt in E. rewrite app_nth1 by (rewrite Hc; exact E).
    rewrite Nat.div_small, Nat.mod_small by exact E. reflexivity.
  - apply Nat.ltb_ge in E. rewrite app_nth2 by (rewrite Hc; exact E). rewrite Hc.
    simpl in Hi. rewrite IH by lia.
    replace i with ((i - c) + 1 * c)%nat at 3 4 by lia.
    rewrite Nat.div_add, Nat.mod_add by assumption.
    replace ((i - c) / c + 1)%nat with (S ((i - c) / c)) by lia. reflexivity.
Qed.

Lemma nseq_length s n : length (nseq s n) = N.to_nat n.
Proof. unfold nseq; rewrite map_length, seq_length; reflexivity. Qed.

Lemma nth_nseq s n j d : (j < N.to_nat n)%nat -> nth j (nseq s n) d = s + N.of_nat j.
Proof.
  intro H. unfold nseq. set (F := fun j => s + N.of_nat j).
  transitivity (nth j (map F (seq 0 (N.to_nat n))) (F 0%nat)).
  - apply nth_indep. rewrite map_length, seq_length; exact H.
  - rewrite map_nth, seq_nth by exact H. reflexivity.
Qed.

Lemma In_nseq s n x : In x (nseq s n) <-> s <= x < s + n.
Proof.
  unfold nseq; rewrite in_map_iff; split.
  - intros [j [<- Hj]]. apply in_seq in Hj. lia.
  - intro H. exists (N.to_nat (x - s)). split; [lia|]. apply in_seq. lia.
Qed.

Lemma pack8_false n : pack8 (repeat false n) = repeat 0 (Nat.div n 8).
Proof.
  induction n as [n IH] using lt_wf_ind.
  destruct (Nat.ltb n 8) eqn:E.
  - apply Nat.ltb_lt in E. rewrite Nat.div_small by exact E.
    do 8 (destruct n as [|n]; [reflexivity|]). lia.
  - apply Nat.ltb_ge in E. replace n with (8 + (n - 8))%nat at 1 by lia.
    rewrite repeat_app. cbn [repeat app pack8 b2n]. rewrite IH by lia.
    replace (Nat.div n 8) with (Datatypes.S (Nat.div (n - 8) 8)); [reflexivity|].
    replace n with ((n - 8) + 1 * 8)%nat at 2 by lia. rewrite Nat.div_add by lia. lia.
Qed.

Lemma col_vectors_plain col :
  col_vectors col = map (fun t => pack8 (map (fun x => N.testbit x t) col)) (nseq 0 8).
Proof.
  unfold col_vectors. destruct (forallb (N.eqb 0) col) eqn:E; [|reflexivity].
  assert (H : forall t, map (fun x => N.testbit x t) col = repeat false (length col)).
  { intro t. rewrite forallb_forall in E. clear - E. induction col as [|x r IH]; [reflexivity|].
    cbn [map length repeat]. rewrite IH by (intros y Hy; apply E; right; exact Hy).
    assert (Hx : (0 =? x) = true) by (apply E; left; reflexivity). apply N.eqb_eq in Hx. subst x. reflexivity. }
  change (nseq 0 8) with [0; 1; 2; 3; 4; 5; 6; 7]. cbn [map repeat]. rewrite !H, pack8_false. reflexivity.
Qed.

Lemma gen_vectors_plain blooms :
  gen_vectors blooms =
  flat_map (fun col => map (fun t => pack8 (map (fun x => N.testbit x t) col)) (nseq 0 8))
           (rev (columns (N.to_nat BloomByteLength) blooms)).
Proof. unfold gen_vectors. apply flat_map_ext. intro col. apply col_vectors_plain. Qed.

(** vector [i] of the generator is the packed column of bit [i] of the section's blooms *)
Theorem gen_vectors_nth blooms i : i < BloomBitLength ->
  nth (N.to_nat i) (gen_vectors blooms) [] = pack8 (map (fun b => bloom_bit b i) blooms).
Proof.
  intro Hi. rewrite gen_vectors_plain. unfold BloomBitLength in *.
  set (cols := columns (N.to_nat BloomByteLength) blooms).
  assert (Hc : length (rev cols) = 256%nat) by (rewrite rev_length; unfold cols; rewrite columns_length; reflexivity).
  rewrite (nth_flat_map_chunks (A:=list N) (B:=bytes) _ 8 [] []);
    [|intro a; rewrite map_length, nseq_length; reflexivity|change (N.to_nat i < 8 * length (rev cols))%nat; rewrite Hc; lia].
  assert (Hq : (N.to_nat i / 8 < 256)%nat) by (apply Nat.div_lt_upper_bound; lia).
  rewrite rev_nth by (rewrite rev_length in Hc; rewrite Hc; exact Hq).
  rewrite rev_length in Hc; rewrite Hc. unfold cols.
  rewrite nth_columns by (unfold BloomByteLength; lia).
  assert (Hm : (N.to_nat i mod 8 < 8)%nat) by (apply Nat.mod_upper_bound; lia).
  set (F := fun t => pack8 (map (fun x => N.testbit x t) (map (fun r => nth (256 - S (N.to_nat i / 8)) r 0) blooms))).
  transitivity (nth (N.to_nat i mod 8) (map F (nseq 0 8)) (F 0));
    [apply nth_indep; rewrite map_length, nseq_length; exact Hm|].
  rewrite map_nth. rewrite nth_nseq by exact Hm. unfold F. rewrite map_map.
  f_equal. apply map_ext; intro b. unfold bloom_bit, nthb, BloomByteLength.
  assert (E1 : N.to_nat (256 - 1 - i / 8) = (256 - S (N.to_nat i / 8))%nat).
  { assert (N.to_nat (i / 8) = (N.to_nat i / 8)%nat) by (rewrite N2Nat.inj_div; reflexivity). lia. }
  assert (E2 : 0 + N.of_nat (N.to_nat i mod 8) = i mod 8).
  { assert (N.to_nat (i mod 8) = (N.to_nat i mod 8)%nat) by (rewrite N2Nat.inj_mod; reflexivity). lia. }
  rewrite E1, E2. reflexivity.
Qed.

Lemma gen_vectors_length blooms : length (gen_vectors blooms) = N.to_nat BloomBitLength.
Proof.
  rewrite gen_vectors_plain.
  assert (H : forall l : list bytes, length (flat_map (fun col => map (fun t => pack8 (map (fun x => N.testbit x t) col)) (nseq 0 8)) l) = (8 * length l)%nat).
  { induction l as [|a r IH]; [reflexivity|]. cbn [flat_map length]. rewrite app_length, IH, map_length, nseq_length. lia. }
  rewrite H, rev_length, columns_length. reflexivity.
Qed.

(** reading bit [k] of vector [i] gives bit [i] of the [k]-th bloom *)
Theorem gen_vectors_bit blooms i k :
  N.of_nat (length blooms) = BloomBitsBlocks -> i < BloomBitLength -> (k < length blooms)%nat ->
  vec_bit (nth (N.to_nat i) (gen_vectors blooms) []) (N.of_nat k) = bloom_bit (nth k blooms zero_bloom) i.
Proof.
  intros Hl Hi Hk. rewrite gen_vectors_nth by exact Hi.
  unfold BloomBitsBlocks in Hl.
  rewrite (pack8_bit 512) by (rewrite ?map_length; lia).
  set (F := fun b => bloom_bit b i).
  transitivity (nth k (map F blooms) (F zero_bloom)); [apply nth_indep; rewrite map_length; exact Hk|].
  rewrite map_nth. reflexivity.
Qed.

Lemma gen_vector_length blooms i :
  N.of_nat (length blooms) = BloomBitsBlocks -> i < BloomBitLength ->
  length (nth (N.to_nat i) (gen_vectors blooms) []) = 512%nat.
Proof.
  intros Hl Hi. rewrite gen_vectors_nth by exact Hi. unfold BloomBitsBlocks in Hl.
  apply pack8_length. rewrite map_length. lia.
Qed.
