(** C14: whatever Deserialize accepts respects the VM's limits (integer size, array size, nesting
    depth, map invariant). *)
From Coq Require Import List Bool Arith NArith ZArith Lia ZifyN ZifyNat ZifyBool Sorted.
Import ListNotations.
From Ont Require Import Lib.Bytes Model.NeoInt Gen.VmValueConsts Model.VmValue Proofs.NeoInt Proofs.VmValueLib
  Proofs.VmValueCodec.
Local Open Scope N_scope.

Definition okv (d : nat) (t : tval) : Prop := within_limits t = true /\ (d + tdepth t <= S max_count)%nat.
Definition oke (d : nat) (e : prim * tval) : Prop := prim_ok (fst e) = true /\ okv d (snd e).

Lemma map_set_in k v m e : In e (map_set k v m) -> e = (k, v) \/ In e m.
Proof.
  induction m as [|[k' v'] m IH]; cbn [map_set]; [intros [<-|[]]; left; reflexivity|].
  destruct (bytes_eqb _ _); [|destruct (bytes_ltb _ _)]; cbn [In]; intuition.
Qed.

Lemma map_set_sorted k v (m : list (prim * tval)) : StronglySorted lt_img m -> StronglySorted lt_img (map_set k v m).
Proof.
  induction m as [|[k' v'] m IH]; intro Hs; cbn [map_set]; [repeat constructor|].
  inversion Hs as [|? ? Hm Hall]; subst.
  destruct (bytes_eqb (prim_bytes k) (prim_bytes k')) eqn:E.
  - apply bytes_eqb_eq in E. constructor; [exact Hm|]. rewrite Forall_forall in Hall |- *. intros x Hx.
    specialize (Hall x Hx). unfold lt_img, img in *. cbn [fst] in *. rewrite E. exact Hall.
  - destruct (bytes_ltb (prim_bytes k) (prim_bytes k')) eqn:L.
    + constructor; [exact Hs|]. constructor; [exact L|]. rewrite Forall_forall in Hall |- *. intros x Hx.
      specialize (Hall x Hx). unfold lt_img, img in *. cbn [fst] in *. eapply bytes_ltb_trans; eassumption.
    + constructor; [apply IH; exact Hm|]. rewrite Forall_forall in Hall |- *. intros x Hx.
      apply map_set_in in Hx. destruct Hx as [->|Hx]; [|apply Hall; exact Hx].
      unfold lt_img, img. cbn [fst]. destruct (bytes_ltb (prim_bytes k') (prim_bytes k)) eqn:L2; [reflexivity|].
      exfalso. pose proof (bytes_ltb_total _ _ L L2) as Eq. rewrite Eq, bytes_eqb_refl in E. discriminate.
Qed.

Lemma sorted_distinctb (m : list (prim * tval)) : StronglySorted lt_img m ->
  distinctb (map (fun e : prim * tval => prim_bytes (fst e)) m) = true.
Proof.
  induction m as [|e m IH]; intro Hs; [reflexivity|]. inversion Hs as [|? ? Hm Hall]; subst.
  cbn [map distinctb]. rewrite (IH Hm), andb_true_r. apply negb_true_iff.
  destruct (existsb _ _) eqn:E; [|reflexivity]. exfalso.
  apply existsb_exists in E. destruct E as [x [Hx Hb]]. apply in_map_iff in Hx. destruct Hx as [e' [<- He']].
  apply bytes_eqb_eq in Hb. rewrite Forall_forall in Hall. specialize (Hall e' He').
  unfold lt_img, img in Hall. rewrite Hb, bytes_ltb_irrefl in Hall. discriminate.
Qed.

Lemma forallb_of_Forall {A} (p : A -> bool) l : (forall x, In x l -> p x = true) -> forallb p l = true.
Proof. intro H. apply forallb_forall. exact H. Qed.

Lemma okv_list d limit (l : list tval) : (forall x, In x l -> okv (S d) x) -> (length l <= limit)%nat -> (d <= max_count)%nat ->
  forallb within_limits l = true /\ (d + S (list_max (map tdepth l)) <= S max_count)%nat.
Proof.
  intros H Hl Hd. split; [apply forallb_of_Forall; intros x Hx; apply (H x Hx)|].
  assert (list_max (map tdepth l) <= max_count - d)%nat; [|lia].
  apply lmax_le. intros x Hx. destruct (H x Hx) as [_ Hx']. lia.
Qed.

Lemma deser_wf : forall f,
  (forall d b t r, deser f d b = DOk (t, r) -> okv d t) /\
  (forall limit d n acc b l r, (forall x, In x acc -> okv d x) -> (length acc <= limit)%nat ->
     deser_items f limit d n acc b = DOk (l, r) -> (forall x, In x l -> okv d x) /\ (length l <= limit)%nat) /\
  (forall d n m b m' r, (forall e, In e m -> oke d e) -> StronglySorted lt_img m ->
     deser_entries f d n m b = DOk (m', r) -> (forall e, In e m' -> oke d e) /\ StronglySorted lt_img m').
Proof.
  induction f as [|f [IH1 [IH2 IH3]]].
  - split; [discriminate|]. split.
    + intros limit d n acc b l r Hacc Hlen. rewrite deser_items_unfold. destruct (n =? 0); [|discriminate].
      intro H. injection H as <- _. split; [intros x Hx; apply Hacc; apply in_rev; exact Hx|rewrite rev_length; exact Hlen].
    + intros d n m b m' r Hm Hs. rewrite deser_entries_unfold. destruct (n =? 0); [|discriminate].
      intro H. injection H as <- _. split; assumption.
  - split; [|split].
    + intros d b t r. destruct b as [|tag b]; [rewrite deser_nil; destruct (max_count <? d)%nat; discriminate|].
      rewrite deser_unfold. destruct (Nat.ltb_spec max_count d) as [|Hd]; [discriminate|].
      destruct (tag =? T_BOOL).
      { destruct b as [|x b]; [discriminate|]. destruct (x =? 0); [|destruct (x =? 1)]; intro HH; try discriminate;
          injection HH as <- _; split; try reflexivity; cbn [tdepth]; lia. }
      destruct (tag =? T_BYTEARRAY).
      { destruct (nv_next_varbytes b) as [[[data irr] eof] r'] eqn:E. destruct eof; [discriminate|]. destruct irr; [discriminate|].
        destruct (max_item_size <? _); [discriminate|]. intro HH. injection HH as <- _. split; [reflexivity|cbn [tdepth]; lia]. }
      destruct (tag =? T_INTEGER).
      { destruct (nv_next_varbytes b) as [[[data irr] eof] r'] eqn:E. destruct eof; [discriminate|]. destruct irr; [discriminate|].
        cbv zeta. destruct (Nat.ltb_spec max_int_size (byte_len (Z.abs_N (Z_of_neo data)))); [discriminate|].
        intro H0. injection H0 as <- _. split; [|cbn [tdepth]; lia].
        cbn [within_limits]. unfold int_prim. destruct (is_int64 _); cbn [prim_ok]; apply Nat.leb_le; assumption. }
      destruct (tag =? T_ARRAY).
      { destruct (nv_next_varuint b) as [[[l irr] r']|] eqn:E; [|discriminate]. destruct irr; [discriminate|].
        destruct (deser_items f _ _ _ _ _) as [[items r'']| |] eqn:E2; try discriminate. intro HH. injection HH as <- _.
        destruct (IH2 _ _ _ _ _ _ _ (fun x (Hx : In x []) => match Hx with end) (Nat.le_0_l _) E2) as [Hall Hlen].
        destruct (okv_list d max_array_size items Hall Hlen Hd) as [Hw Hdep].
        split; [|exact Hdep]. cbn [within_limits]. rewrite Hw, andb_true_r. apply Nat.leb_le. exact Hlen. }
      destruct (tag =? T_MAP).
      { destruct (nv_next_varuint b) as [[[l irr] r']|] eqn:E; [|discriminate]. destruct irr; [discriminate|].
        destruct (deser_entries f _ _ _ _) as [[items r'']| |] eqn:E2; try discriminate. intro HH. injection HH as <- _.
        destruct (IH3 _ _ _ _ _ _ (fun e (He : In e []) => match He with end) (SSorted_nil _) E2) as [Hall Hs].
        split.
        - cbn [within_limits]. rewrite (sorted_distinctb _ Hs). cbn [andb]. apply forallb_of_Forall. intros e He.
          destruct (Hall e He) as [Hk [Hv _]]. rewrite Hk, Hv. reflexivity.
        - cbn [tdepth]. assert (list_max (map (fun e : prim * tval => tdepth (snd e)) items) <= max_count - d)%nat; [|lia].
          apply lmax_le. intros e He. destruct (Hall e He) as [_ [_ Hx]]. lia. }
      destruct (tag =? T_STRUCT).
      { destruct (nv_next_varuint b) as [[[l irr] r']|] eqn:E; [|discriminate]. destruct irr; [discriminate|].
        destruct (deser_items f _ _ _ _ _) as [[items r'']| |] eqn:E2; try discriminate. intro HH. injection HH as <- _.
        destruct (IH2 _ _ _ _ _ _ _ (fun x (Hx : In x []) => match Hx with end) (Nat.le_0_l _) E2) as [Hall Hlen].
        destruct (okv_list d max_struct_size items Hall Hlen Hd) as [Hw Hdep].
        split; [|exact Hdep]. cbn [within_limits]. rewrite Hw, andb_true_r. apply Nat.leb_le. exact Hlen. }
      discriminate.
    + intros limit d n acc b l r Hacc Hlen. rewrite deser_items_unfold.
      destruct (n =? 0).
      { intro HH. injection HH as <- _. split; [intros x Hx; apply Hacc; apply in_rev; exact Hx|rewrite rev_length; exact Hlen]. }
      destruct (deser f d b) as [[v r0]| |] eqn:E; try discriminate.
      destruct (Nat.leb_spec limit (length acc)); [discriminate|]. intro HH.
      apply (IH2 _ _ _ _ _ _ _) in HH; [exact HH| |cbn [length]; lia].
      intros x [<-|Hx]; [apply (IH1 _ _ _ _ E)|apply Hacc; exact Hx].
    + intros d n m b m' r Hm Hs. rewrite deser_entries_unfold.
      destruct (n =? 0); [intro HH; injection HH as <- _; split; assumption|].
      destruct (deser f d b) as [[k r0]| |] eqn:E; try discriminate.
      destruct (deser f d r0) as [[v r1]| |] eqn:E1; try discriminate.
      destruct k as [p| | | |]; try discriminate. intro HH.
      apply (IH3 _ _ _ _ _ _) in HH; [exact HH| |apply map_set_sorted; exact Hs].
      intros e He. apply map_set_in in He. destruct He as [->|He]; [|apply Hm; exact He].
      split; [|apply (IH1 _ _ _ _ E1)]. cbn [fst]. destruct (IH1 _ _ _ _ E) as [Hw _]. exact Hw.
Qed.

Theorem deser_output_within_limits b t r : deserialize b = DOk (t, r) ->
  within_limits t = true /\ (tdepth t <= S max_count)%nat.
Proof. intro H. destruct (proj1 (deser_wf _) _ _ _ _ H) as [H1 H2]. split; [exact H1|exact H2]. Qed.
