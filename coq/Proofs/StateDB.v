(** Proofs about Model/StateDB.v: the snapshot stack discipline of StateDB.

    Main results (used by Props/C08.v):
    - [step_classify]   every operation is one of: a mutation that leaves the stack alone and only
                        appends to the logs / a push / a revert to a live entry / a discard;
    - [wf_step]         the stack invariant (saved log sizes are non-decreasing and at most
                        len(logs)) is preserved, hence [logs[:sn.logsSize]] is always in range;
    - [run_keeps]       while a snapshot id stays valid, its entry, everything below it and the
                        first [logsSize] logs are untouched, whatever happens above it;
    - [revert_restores] RevertToSnapshot(id) gives back exactly the state before Snapshot();
    - [discard_silent], [revert_result], [discard_result], [fault_only_negative]. *)
From Coq Require Import List Bool Arith NArith ZArith Lia.
Import ListNotations.
From Ont Require Import Lib.Bytes Model.StateDB Gen.StateDBSites.

(** * The generated index arithmetic is what the proofs below assume it is.
      (If the source changes these expressions, the lemmas stop checking and the check reports
      the broken tie.) *)
Lemma snapshot_ret_spec n : snapshot_ret (Z.of_nat (S n)) = Z.of_nat n.
Proof. unfold snapshot_ret. lia. Qed.
Definition max_int64 : Z := 9223372036854775807.
Lemma wrap_int64_small z : (- 9223372036854775808 <= z <= max_int64)%Z -> wrap_int64 z = z.
Proof. unfold wrap_int64, max_int64. intro Hz. rewrite Z.mod_small by lia. lia. Qed.
Lemma revert_guard_ok idx len :
  (0 <= idx < len)%Z -> (idx < max_int64)%Z ->
  (wrap_int64 (revert_guard_lhs idx len) >? revert_guard_rhs idx len)%Z = false.
Proof.
  intros H1 H2. unfold revert_guard_lhs, revert_guard_rhs. rewrite wrap_int64_small by (unfold max_int64 in *; lia).
  rewrite Z.gtb_ltb, Z.ltb_ge. lia.
Qed.
Lemma discard_guard_ok idx len :
  (0 <= idx < len)%Z -> (idx < max_int64)%Z ->
  (wrap_int64 (discard_guard_lhs idx len) >? discard_guard_rhs idx len)%Z = false.
Proof.
  intros H1 H2. unfold discard_guard_lhs, discard_guard_rhs. rewrite wrap_int64_small by (unfold max_int64 in *; lia).
  rewrite Z.gtb_ltb, Z.ltb_ge. lia.
Qed.
Lemma revert_index_spec idx len : revert_index idx len = idx. Proof. reflexivity. Qed.
Lemma revert_keep_spec idx len : revert_keep idx len = idx. Proof. reflexivity. Qed.
Lemma discard_keep_spec idx len : discard_keep idx len = idx. Proof. reflexivity. Qed.

(** * Lists *)
Lemma go_index_some {A} (l : list A) i x :
  go_index l i = Some x -> (0 <= i)%Z /\ nth_error l (Z.to_nat i) = Some x.
Proof.
  unfold go_index. destruct (i <? 0)%Z eqn:E; [discriminate|].
  destruct (Z.of_nat (length l) <=? i)%Z; [discriminate|]. apply Z.ltb_ge in E. auto.
Qed.

Lemma go_index_nat {A} (l : list A) i : go_index l (Z.of_nat i) = nth_error l i.
Proof.
  unfold go_index. destruct (Z.of_nat i <? 0)%Z eqn:E; [apply Z.ltb_lt in E; lia|].
  destruct (Z.of_nat (length l) <=? Z.of_nat i)%Z eqn:E2; simpl; [|now rewrite Nat2Z.id].
  apply Z.leb_le in E2. symmetry. apply nth_error_None. lia.
Qed.

Lemma go_prefix_some {A} (l : list A) n p :
  go_prefix l n = Some p -> (0 <= n)%Z /\ (Z.to_nat n <= length l)%nat /\ p = firstn (Z.to_nat n) l.
Proof.
  unfold go_prefix. destruct (n <? 0)%Z eqn:E1; [discriminate|].
  destruct (Z.of_nat (length l) <? n)%Z eqn:E2; [discriminate|]. simpl.
  apply Z.ltb_ge in E1. apply Z.ltb_ge in E2. intro E; inversion E. repeat split; try lia.
Qed.

Lemma go_prefix_nat {A} (l : list A) n : (n <= length l)%nat -> go_prefix l (Z.of_nat n) = Some (firstn n l).
Proof.
  intro Hn. unfold go_prefix.
  destruct (Z.of_nat n <? 0)%Z eqn:E1; [apply Z.ltb_lt in E1; lia|].
  destruct (Z.of_nat (length l) <? Z.of_nat n)%Z eqn:E2; [apply Z.ltb_lt in E2; lia|].
  simpl. now rewrite Nat2Z.id.
Qed.

Lemma firstn_S_nth {A} (l l' : list A) i :
  firstn (S i) l' = firstn (S i) l -> nth_error l' i = nth_error l i /\ firstn i l' = firstn i l.
Proof.
  revert l l'. induction i as [|i IH]; intros l l' E.
  - destruct l, l'; simpl in *; try discriminate; auto. inversion E; auto.
  - destruct l as [|x l], l' as [|y l']; try (simpl in E; discriminate); auto.
    change (y :: firstn (S i) l' = x :: firstn (S i) l) in E. inversion E; subst.
    destruct (IH _ _ H1) as [A1 A2]. split; [exact A1|]. simpl. now rewrite A2.
Qed.

Lemma firstn_app_l {A} (l r : list A) n : (n <= length l)%nat -> firstn n (l ++ r) = firstn n l.
Proof. intro Hn. rewrite firstn_app. replace (n - length l)%nat with 0%nat by lia. simpl. apply app_nil_r. Qed.

Lemma firstn_firstn_le {A} (l : list A) i j : (i <= j)%nat -> firstn i (firstn j l) = firstn i l.
Proof. intro Hle. rewrite firstn_firstn. now rewrite Nat.min_l. Qed.

Lemma nth_error_lt {A} (l : list A) i x : nth_error l i = Some x -> (i < length l)%nat.
Proof. intro E. apply nth_error_Some. congruence. Qed.

Lemma nth_error_firstn_lt {A} (l : list A) i j : (i < j)%nat -> nth_error (firstn j l) i = nth_error l i.
Proof.
  revert i l. induction j as [|j IH]; intros i l Hlt; [lia|].
  destruct l as [|x l]; [now destruct i|].
  destruct i as [|i]; simpl; [reflexivity|]. apply IH. lia.
Qed.

(** * Chains lo <= x1 <= ... <= xn <= hi *)
Fixpoint chain (lo : nat) (l : list nat) (hi : nat) : Prop :=
  match l with
  | [] => (lo <= hi)%nat
  | x :: r => (lo <= x)%nat /\ chain x r hi
  end.

Lemma chain_le lo l hi : chain lo l hi -> (lo <= hi)%nat.
Proof. revert lo. induction l as [|x r IH]; simpl; intros lo Hc; [exact Hc|]. destruct Hc as [A B]. apply IH in B. lia. Qed.

Lemma chain_hi_mono lo l hi hi' : chain lo l hi -> (hi <= hi')%nat -> chain lo l hi'.
Proof. revert lo. induction l as [|x r IH]; simpl; intros lo Hc Hle; [lia|]. destruct Hc; split; eauto. Qed.

Lemma chain_snoc lo l x hi : chain lo (l ++ [x]) hi <-> chain lo l x /\ (x <= hi)%nat.
Proof.
  revert lo. induction l as [|y r IH]; simpl; intro lo.
  - tauto.
  - rewrite IH. tauto.
Qed.

Lemma chain_firstn lo l hi i : chain lo l hi -> chain lo (firstn i l) hi.
Proof.
  revert lo i. induction l as [|x r IH]; intros lo [|i] Hc; simpl in *; auto.
  - destruct Hc as [A B]. apply chain_le in B. lia.
  - destruct Hc as [A B]. split; auto.
Qed.

Lemma chain_firstn_nth lo l hi i x :
  chain lo l hi -> nth_error l i = Some x -> chain lo (firstn i l) x /\ (x <= hi)%nat.
Proof.
  revert lo i. induction l as [|y r IH]; intros lo [|i] Hc E; simpl in *; try discriminate.
  - inversion E; subst. destruct Hc as [A B]. apply chain_le in B. auto.
  - destruct Hc as [A B]. destruct (IH _ _ B E) as [C D]. auto.
Qed.

Lemma chain_nth_mono lo l hi i j x y :
  chain lo l hi -> nth_error l i = Some x -> nth_error l j = Some y -> (i <= j)%nat -> (x <= y)%nat.
Proof.
  intros Hc Ei Ej Hle. destruct (Nat.eq_dec i j) as [->|Hne]; [rewrite Ei in Ej; inversion Ej; lia|].
  destruct (chain_firstn_nth _ _ _ _ _ Hc Ej) as [Hp _].
  assert (Ei' : nth_error (firstn j l) i = Some x).
  { rewrite nth_error_firstn_lt by lia. exact Ei. }
  destruct (chain_firstn_nth _ _ _ _ _ Hp Ei') as [_ Hxy]. exact Hxy.
Qed.

Section Proofs.
  Variable H : bytes -> bytes.
  Variable backend : memdb.
  Notation step := (step H backend).
  Notation run := (run H backend).

  (** What RevertToSnapshot assigns from a stack entry, as a function of the current state. *)
  Definition restore (s : statedb) (sn : snapshot) : core :=
    (sn_changes sn, sn_suicided sn, firstn (sn_logsSize sn) (sd_logs s), sn_refund sn).

  (** Stack invariant. *)
  Definition wf (s : statedb) : Prop :=
    chain 0 (map sn_logsSize (sd_snaps s)) (length (sd_logs s)).

  Lemma wf_new : wf sdb_new.
  Proof. unfold wf; simpl; lia. Qed.

  (** ** Classification of one step *)
  Inductive step_kind (s s' : statedb) : Prop :=
  | SK_mut : sd_snaps s' = sd_snaps s -> (exists l, sd_logs s' = sd_logs s ++ l) -> step_kind s s'
  | SK_push : sd_snaps s' = sd_snaps s ++ [snap_of s] -> core_of s' = core_of s -> step_kind s s'
  | SK_revert : forall i sn, nth_error (sd_snaps s) i = Some sn ->
      (sn_logsSize sn <= length (sd_logs s))%nat ->
      sd_snaps s' = firstn i (sd_snaps s) -> core_of s' = restore s sn -> step_kind s s'
  | SK_discard : forall i, (i <= length (sd_snaps s))%nat ->
      sd_snaps s' = firstn i (sd_snaps s) -> core_of s' = core_of s -> step_kind s s'.

  Lemma mut_same s : step_kind s s.
  Proof. apply SK_mut; [reflexivity|exists []; now rewrite app_nil_r]. Qed.

  Lemma mut_fields s m su r e : step_kind s (mkSDB m su (sd_logs s) r (sd_snaps s) e).
  Proof. apply SK_mut; simpl; [reflexivity|exists []; now rewrite app_nil_r]. Qed.

  Ltac mutf := unfold set_state, add_refund, with_err, with_mem, with_refund; cbn [fst sd_mem sd_suicided sd_logs sd_refund sd_snaps sd_err]; apply mut_fields.

  Theorem step_classify s o : step_kind s (fst (step s o)).
  Proof.
    destruct o; simpl.
    - mutf.
    - unfold set_nonce. destruct (sdb_account backend s addr); mutf.
    - unfold set_code. destruct (sdb_account backend s addr); mutf.
    - unfold add_balance. destruct (get_balance _ _ _); [|mutf].
      destruct (set_balance _ _ _); simpl; [mutf|apply mut_same].
    - unfold sub_balance. destruct (get_balance _ _ _); [|mutf].
      destruct (_ <? _)%N; [mutf|].
      destruct (set_balance _ _ _); simpl; [mutf|apply mut_same].
    - unfold suicide. destruct (sdb_account backend s addr). destruct (acct_is_empty _); mutf.
    - apply SK_mut; simpl; eauto.
    - mutf.
    - unfold sub_refund. destruct (_ <? _)%N; simpl; [apply mut_same|mutf].
    - apply mut_same.
    - apply SK_push; reflexivity.
    - unfold revert.
      destruct (_ >? _)%Z; [apply mut_same|].
      destruct (go_index _ _) as [sn|] eqn:Ei; [|apply mut_same].
      destruct (go_prefix (sd_snaps s) _) as [keep|] eqn:Ek; [|apply mut_same].
      destruct (go_prefix (sd_logs s) _) as [lg|] eqn:El; [|apply mut_same].
      rewrite revert_index_spec in Ei. rewrite revert_keep_spec in Ek.
      apply go_index_some in Ei. destruct Ei as [_ Ei].
      apply go_prefix_some in Ek. destruct Ek as [_ [_ Ek]].
      apply go_prefix_some in El. destruct El as [_ [El1 El2]]. rewrite Nat2Z.id in *.
      simpl. eapply SK_revert; eauto; simpl; subst; reflexivity.
    - unfold discard.
      destruct (_ >? _)%Z; [apply mut_same|].
      destruct (go_prefix (sd_snaps s) _) as [keep|] eqn:Ek; [|apply mut_same].
      rewrite discard_keep_spec in Ek.
      apply go_prefix_some in Ek. destruct Ek as [_ [Ek1 Ek2]].
      simpl. eapply SK_discard; eauto.
  Qed.

  (** ** The invariant is preserved *)
  Lemma logs_of_core s s' : core_of s' = core_of s -> sd_logs s' = sd_logs s.
  Proof. unfold core_of. intro E; inversion E; auto. Qed.

  Lemma kind_wf s s' : wf s -> step_kind s s' -> wf s'.
  Proof.
    unfold wf. intros Hw [Es [l El] | Es Ec | i sn Ei Hn Es Ec | i Hi Es Ec].
    - rewrite Es, El, app_length. eapply chain_hi_mono; [exact Hw|lia].
    - rewrite Es, (logs_of_core _ _ Ec), map_app. simpl. apply chain_snoc. split; [exact Hw|lia].
    - rewrite Es. assert (El : sd_logs s' = firstn (sn_logsSize sn) (sd_logs s)).
      { unfold core_of, restore in Ec. inversion Ec; auto. }
      rewrite El, firstn_length, Nat.min_l by exact Hn. rewrite <- firstn_map.
      apply (chain_firstn_nth _ _ _ _ _ Hw). now apply map_nth_error.
    - rewrite Es, (logs_of_core _ _ Ec), <- firstn_map. now apply chain_firstn.
  Qed.

  Theorem wf_step s o : wf s -> wf (fst (step s o)).
  Proof. intro Hw. eapply kind_wf; [exact Hw|apply step_classify]. Qed.

  Theorem wf_run ops : forall s, wf s -> wf (run s ops).
  Proof. induction ops as [|o r IH]; intros s Hw; [exact Hw|]. change (wf (run (fst (step s o)) r)). apply IH. now apply wf_step. Qed.

  (** Every saved log size is within the current logs: the Go slice expression
      [self.logs[:sn.logsSize]] never reaches beyond len(self.logs). *)
  Theorem wf_logs_in_range s i sn :
    wf s -> nth_error (sd_snaps s) i = Some sn -> (sn_logsSize sn <= length (sd_logs s))%nat.
  Proof.
    intros Hw Ei. apply (chain_firstn_nth _ _ _ i _ Hw). now apply map_nth_error.
  Qed.

  (** ** A live entry survives whatever happens above it *)
  Lemma kind_keeps s s' id sn :
    wf s -> step_kind s s' ->
    nth_error (sd_snaps s) id = Some sn -> (id < length (sd_snaps s'))%nat ->
    firstn (S id) (sd_snaps s') = firstn (S id) (sd_snaps s) /\
    firstn (sn_logsSize sn) (sd_logs s') = firstn (sn_logsSize sn) (sd_logs s).
  Proof.
    intros Hw Hk Eid Hlt.
    pose proof (wf_logs_in_range _ _ _ Hw Eid) as Hn.
    pose proof (nth_error_lt _ _ _ Eid) as Hid.
    destruct Hk as [Es [l El] | Es Ec | i sn' Ei Hn' Es Ec | i Hi Es Ec].
    - rewrite Es, El. split; [reflexivity|]. now apply firstn_app_l.
    - rewrite Es, (logs_of_core _ _ Ec). split; [|reflexivity]. apply firstn_app_l. lia.
    - rewrite Es in *. rewrite firstn_length in Hlt.
      assert (El : sd_logs s' = firstn (sn_logsSize sn') (sd_logs s)).
      { unfold core_of, restore in Ec. inversion Ec; auto. }
      split; [apply firstn_firstn_le; lia|].
      rewrite El. apply firstn_firstn_le.
      unfold wf in Hw.
      eapply (chain_nth_mono _ _ _ id i); [exact Hw| | |lia]; now apply map_nth_error.
    - rewrite Es in *. rewrite firstn_length in Hlt. rewrite (logs_of_core _ _ Ec).
      split; [apply firstn_firstn_le; lia|reflexivity].
  Qed.

  (** [stays_valid id s ops]: along [ops] the stack never shrinks to [id] entries or fewer, i.e.
      no RevertToSnapshot/DiscardSnapshot with an index <= id succeeds. *)
  Fixpoint stays_valid (id : nat) (s : statedb) (ops : list op) : bool :=
    match ops with
    | [] => true
    | o :: r => let s' := fst (step s o) in (id <? length (sd_snaps s'))%nat && stays_valid id s' r
    end.

  Lemma run_cons s o r : run s (o :: r) = run (fst (step s o)) r.
  Proof. reflexivity. Qed.

  Theorem run_keeps ops : forall s id sn,
    wf s -> nth_error (sd_snaps s) id = Some sn -> stays_valid id s ops = true ->
    wf (run s ops) /\
    firstn (S id) (sd_snaps (run s ops)) = firstn (S id) (sd_snaps s) /\
    firstn (sn_logsSize sn) (sd_logs (run s ops)) = firstn (sn_logsSize sn) (sd_logs s).
  Proof.
    induction ops as [|o r IH]; intros s id sn Hw Eid Hv; [simpl; auto|].
    rewrite run_cons. cbn [stays_valid] in Hv.
    apply andb_prop in Hv. destruct Hv as [Hlt Hv]. apply Nat.ltb_lt in Hlt.
    pose proof (step_classify s o) as Hk.
    destruct (kind_keeps _ _ _ _ Hw Hk Eid Hlt) as [K1 K2].
    pose proof (kind_wf _ _ Hw Hk) as Hw'.
    assert (Eid' : nth_error (sd_snaps (fst (step s o))) id = Some sn).
    { destruct (firstn_S_nth _ _ _ K1) as [A _]. now rewrite A. }
    destruct (IH _ _ _ Hw' Eid' Hv) as [R1 [R2 R3]].
    split; [exact R1|]. split; [now rewrite R2|now rewrite R3].
  Qed.

  (** ** Results of the stack operations on a well-formed state *)
  Lemma snapshot_result s :
    step s OSnapshot =
    (mkSDB (sd_mem s) (sd_suicided s) (sd_logs s) (sd_refund s) (sd_snaps s ++ [snap_of s]) (sd_err s),
     RInt (Z.of_nat (length (sd_snaps s)))).
  Proof.
    simpl. unfold do_snapshot. rewrite app_length. simpl.
    replace (length (sd_snaps s) + 1)%nat with (S (length (sd_snaps s))) by lia.
    now rewrite snapshot_ret_spec.
  Qed.

  Theorem revert_result s id sn :
    wf s -> nth_error (sd_snaps s) id = Some sn -> (Z.of_nat id < max_int64)%Z ->
    step s (ORevert (Z.of_nat id)) =
    (mkSDB (sn_changes sn) (sn_suicided sn) (firstn (sn_logsSize sn) (sd_logs s)) (sn_refund sn)
           (firstn id (sd_snaps s)) (sd_err s), RUnit).
  Proof.
    intros Hw Eid Hmax. pose proof (nth_error_lt _ _ _ Eid) as Hid.
    pose proof (wf_logs_in_range _ _ _ Hw Eid) as Hn.
    simpl. unfold revert.
    rewrite revert_guard_ok by lia.
    rewrite revert_index_spec, revert_keep_spec, go_index_nat, Eid.
    rewrite go_prefix_nat by lia. rewrite go_prefix_nat by exact Hn. reflexivity.
  Qed.

  Theorem revert_invalid_panics s idx :
    (Z.of_nat (length (sd_snaps s)) <= idx < max_int64)%Z -> step s (ORevert idx) = (s, RPanic).
  Proof.
    intro Hge. simpl. unfold revert. destruct (_ >? _)%Z eqn:G; [reflexivity|]. exfalso.
    unfold revert_guard_lhs, revert_guard_rhs in G.
    rewrite wrap_int64_small in G by (unfold max_int64 in *; lia).
    rewrite Z.gtb_ltb in G. apply Z.ltb_ge in G. lia.
  Qed.

  Theorem discard_result s id :
    (id < length (sd_snaps s))%nat -> (Z.of_nat id < max_int64)%Z ->
    step s (ODiscard (Z.of_nat id)) =
    (mkSDB (sd_mem s) (sd_suicided s) (sd_logs s) (sd_refund s) (firstn id (sd_snaps s)) (sd_err s), RUnit).
  Proof.
    intros Hid Hmax. simpl. unfold discard.
    rewrite discard_guard_ok by lia.
    rewrite discard_keep_spec, go_prefix_nat by lia. reflexivity.
  Qed.

  Theorem discard_invalid_panics s idx :
    (Z.of_nat (length (sd_snaps s)) <= idx < max_int64)%Z -> step s (ODiscard idx) = (s, RPanic).
  Proof.
    intro Hge. simpl. unfold discard. destruct (_ >? _)%Z eqn:G; [reflexivity|]. exfalso.
    unfold discard_guard_lhs, discard_guard_rhs in G.
    rewrite wrap_int64_small in G by (unfold max_int64 in *; lia).
    rewrite Z.gtb_ltb in G. apply Z.ltb_ge in G. lia.
  Qed.

  (** A panic or fault leaves the state unchanged. *)
  Theorem panic_keeps_state s o s' r :
    step s o = (s', r) -> r = RPanic \/ r = RFault -> s' = s.
  Proof.
    intros E Hr. destruct o; simpl in E;
      try solve [unfold add_balance, sub_balance, suicide, sub_refund, do_snapshot in E;
                 repeat match type of E with context [match ?x with _ => _ end] => destruct x end;
                 inversion E; subst; auto; destruct Hr; discriminate].
    - unfold revert in E. destruct (_ >? _)%Z; [inversion E; auto|].
      destruct (go_index _ _); [|inversion E; auto].
      destruct (go_prefix (sd_snaps s) _); [|inversion E; auto].
      destruct (go_prefix (sd_logs s) _); inversion E; subst; auto; destruct Hr; discriminate.
    - unfold discard in E. destruct (_ >? _)%Z; [inversion E; auto|].
      destruct (go_prefix _ _); inversion E; subst; auto; destruct Hr; discriminate.
  Qed.

  (** A Go run-time fault (as opposed to the explicit panic) needs an index that is negative or
      not below the stack length (MaxInt64, where [idx+1] wraps, is the only such index that gets
      past the guard); the state is left as it was. No other operation faults. *)
  Theorem fault_only_out_of_range s o s' :
    wf s -> (Z.of_nat (length (sd_snaps s)) < max_int64)%Z -> step s o = (s', RFault) ->
    s' = s /\ exists idx, ((idx < 0)%Z \/ (Z.of_nat (length (sd_snaps s)) <= idx)%Z) /\
                         (o = ORevert idx \/ o = ODiscard idx).
  Proof.
    intros Hw Hlen E. split; [eapply panic_keeps_state; eauto|].
    destruct o; simpl in E;
      try solve [unfold add_balance, sub_balance, suicide, sub_refund, do_snapshot in E;
                 repeat match type of E with context [match ?x with _ => _ end] => destruct x end;
                 inversion E].
    - exists idx. split; [|auto].
      destruct (Z.ltb_spec idx 0) as [Hneg|Hpos]; [auto|].
      destruct (Z.ltb_spec idx (Z.of_nat (length (sd_snaps s)))) as [Hlt|Hge]; [|auto]. exfalso.
      assert (Hid : (Z.to_nat idx < length (sd_snaps s))%nat) by lia.
      destruct (nth_error (sd_snaps s) (Z.to_nat idx)) as [sn|] eqn:En; [|apply nth_error_None in En; lia].
      assert (Hm : (Z.of_nat (Z.to_nat idx) < max_int64)%Z) by lia.
      pose proof (revert_result s _ sn Hw En Hm) as R. rewrite Z2Nat.id in R by lia.
      simpl in R. rewrite R in E. inversion E.
    - exists idx. split; [|auto].
      destruct (Z.ltb_spec idx 0) as [Hneg|Hpos]; [auto|].
      destruct (Z.ltb_spec idx (Z.of_nat (length (sd_snaps s)))) as [Hlt|Hge]; [|auto]. exfalso.
      assert (Hid : (Z.to_nat idx < length (sd_snaps s))%nat) by lia.
      assert (Hm : (Z.of_nat (Z.to_nat idx) < max_int64)%Z) by lia.
      pose proof (discard_result s _ Hid Hm) as R. rewrite Z2Nat.id in R by lia.
      simpl in R. rewrite R in E. inversion E.
  Qed.

  (** ** The property *)
  Theorem revert_restores s0 s1 id ops s3 r :
    wf s0 ->
    step s0 OSnapshot = (s1, RInt id) -> (id < max_int64)%Z ->
    stays_valid (Z.to_nat id) s1 ops = true ->
    step (run s1 ops) (ORevert id) = (s3, r) ->
    r = RUnit /\ core_of s3 = core_of s0 /\ sd_snaps s3 = sd_snaps s0.
  Proof.
    intros Hw0 Esnap Hmax Hv Erev.
    rewrite snapshot_result in Esnap. inversion Esnap as [[Es1 Eid]]. clear Esnap. subst id.
    set (n := length (sd_snaps s0)) in *.
    assert (Hw1 : wf s1).
    { rewrite <- Es1. change (wf (fst (step s0 OSnapshot))). now apply wf_step. }
    assert (En : nth_error (sd_snaps s1) n = Some (snap_of s0)).
    { rewrite <- Es1. simpl. rewrite nth_error_app2 by (unfold n; lia).
      unfold n. now rewrite Nat.sub_diag. }
    rewrite Nat2Z.id in Hv.
    destruct (run_keeps ops s1 n _ Hw1 En Hv) as [Hw2 [K1 K2]].
    destruct (firstn_S_nth _ _ _ K1) as [A1 A2].
    rewrite En in A1.
    rewrite (revert_result _ _ _ Hw2 A1 Hmax) in Erev. inversion Erev as [[Es3 Er]].
    split; [reflexivity|]. unfold core_of; simpl.
    simpl in K2. rewrite K2, A2, <- Es1. simpl.
    rewrite firstn_all. rewrite firstn_app_l by (unfold n; lia). unfold n. rewrite firstn_all.
    split; reflexivity.
  Qed.

  (** DiscardSnapshot changes nothing a getter can see. *)
  Theorem discard_silent s idx : core_of (fst (step s (ODiscard idx))) = core_of s.
  Proof.
    simpl. unfold discard. destruct (_ >? _)%Z; [reflexivity|].
    destruct (go_prefix _ _); reflexivity.
  Qed.

  (** Syntactic sufficient condition for [stays_valid]: every RevertToSnapshot/DiscardSnapshot
      in the history names an index above [id] (and the id is live at the start). *)
  Definition above (id : nat) (o : op) : bool :=
    match o with
    | ORevert j | ODiscard j => (Z.of_nat id <? j)%Z
    | _ => true
    end.

  Lemma kind_len_above s o id :
    above id o = true -> (id < length (sd_snaps s))%nat -> (id < length (sd_snaps (fst (step s o))))%nat.
  Proof.
    intros Ha Hid. destruct o; simpl in *;
      try (exact Hid);
      try (unfold set_nonce; destruct (sdb_account backend s addr); exact Hid);
      try (unfold set_code; destruct (sdb_account backend s addr); exact Hid).
    - unfold add_balance. destruct (get_balance _ _ _); [|exact Hid]. destruct (set_balance _ _ _); exact Hid.
    - unfold sub_balance. destruct (get_balance _ _ _); [|exact Hid]. destruct (_ <? _)%N; [exact Hid|].
      destruct (set_balance _ _ _); exact Hid.
    - unfold suicide. destruct (sdb_account backend s addr). destruct (acct_is_empty _); exact Hid.
    - unfold sub_refund. destruct (_ <? _)%N; exact Hid.
    - rewrite app_length. simpl. lia.
    - apply Z.ltb_lt in Ha. unfold revert. destruct (_ >? _)%Z; [exact Hid|].
      destruct (go_index _ _); [|exact Hid].
      destruct (go_prefix (sd_snaps s) _) as [keep|] eqn:Ek; [|exact Hid].
      destruct (go_prefix (sd_logs s) _); [|exact Hid].
      rewrite revert_keep_spec in Ek. apply go_prefix_some in Ek. destruct Ek as [_ [Ek1 Ek2]].
      simpl. subst keep. rewrite firstn_length. lia.
    - apply Z.ltb_lt in Ha. unfold discard. destruct (_ >? _)%Z; [exact Hid|].
      destruct (go_prefix (sd_snaps s) _) as [keep|] eqn:Ek; [|exact Hid].
      rewrite discard_keep_spec in Ek. apply go_prefix_some in Ek. destruct Ek as [_ [Ek1 Ek2]].
      simpl. subst keep. rewrite firstn_length. lia.
  Qed.

  Lemma above_stays_valid ops : forall s id,
    forallb (above id) ops = true -> (id < length (sd_snaps s))%nat -> stays_valid id s ops = true.
  Proof.
    induction ops as [|o r IH]; intros s id Ha Hid; simpl in *; [reflexivity|].
    apply andb_prop in Ha. destruct Ha as [Ha1 Ha2].
    pose proof (kind_len_above s o id Ha1 Hid) as Hlen.
    apply andb_true_intro. split; [now apply Nat.ltb_lt|]. now apply IH.
  Qed.

  (** Reachable states are well-formed. *)
  Definition reachable (s : statedb) : Prop := exists ops, s = run sdb_new ops.
  Lemma reachable_wf s : reachable s -> wf s.
  Proof. intros [ops ->]. apply wf_run, wf_new. Qed.
End Proofs.

(** The getters read nothing but the core (and the fixed backend). *)
Lemma observe_core backend s s' addr key :
  core_of s = core_of s' -> observe backend s addr key = observe backend s' addr key.
Proof.
  destruct s, s'. unfold core_of. simpl. intro E. inversion E; subst. reflexivity.
Qed.

(** * Statements as used by Props/C08.v *)
Theorem revert_restores_full :
  forall (H : bytes -> bytes) (backend : memdb) (s0 s1 s3 : statedb) (id : Z) (ops : list op) (r : ret),
    reachable H backend s0 ->
    step H backend s0 OSnapshot = (s1, RInt id) -> (id < max_int64)%Z ->
    stays_valid H backend (Z.to_nat id) s1 ops = true ->
    step H backend (run H backend s1 ops) (ORevert id) = (s3, r) ->
    r = RUnit /\
    (forall addr key, observe backend s3 addr key = observe backend s1 addr key) /\
    core_of s3 = core_of s0 /\ sd_snaps s3 = sd_snaps s0.
Proof.
  intros H backend s0 s1 s3 id ops r Hr Es Hmax Hv Er.
  destruct (revert_restores H backend s0 s1 id ops s3 r (reachable_wf H backend s0 Hr) Es Hmax Hv Er) as [A [B C]].
  split; [exact A|]. split; [|split; assumption].
  intros addr key. apply observe_core. rewrite B.
  rewrite snapshot_result in Es. inversion Es. reflexivity.
Qed.

Theorem revert_restores_nested_full :
  forall (H : bytes -> bytes) (backend : memdb) (s0 s1 s3 : statedb) (id : Z) (ops : list op) (r : ret),
    reachable H backend s0 ->
    step H backend s0 OSnapshot = (s1, RInt id) -> (id < max_int64)%Z ->
    forallb (above (Z.to_nat id)) ops = true ->
    step H backend (run H backend s1 ops) (ORevert id) = (s3, r) ->
    r = RUnit /\
    (forall addr key, observe backend s3 addr key = observe backend s1 addr key) /\
    core_of s3 = core_of s0 /\ sd_snaps s3 = sd_snaps s0.
Proof.
  intros H backend s0 s1 s3 id ops r Hr Es Hmax Ha Er.
  apply (revert_restores_full H backend s0 s1 s3 id ops r Hr Es Hmax); [|exact Er].
  apply above_stays_valid; [exact Ha|].
  rewrite snapshot_result in Es. inversion Es. simpl. rewrite Nat2Z.id, app_length. simpl. lia.
Qed.

Theorem discard_is_silent_full :
  forall (H : bytes -> bytes) (backend : memdb) (s : statedb) (idx : Z) (addr key : bytes),
    observe backend (fst (step H backend s (ODiscard idx))) addr key = observe backend s addr key.
Proof. intros. apply observe_core. apply discard_silent. Qed.

Theorem revert_consumes_id_full :
  forall (H : bytes -> bytes) (backend : memdb) (s s' : statedb) (id : nat),
    reachable H backend s -> (id < length (sd_snaps s))%nat -> (Z.of_nat id < max_int64)%Z ->
    step H backend s (ORevert (Z.of_nat id)) = (s', RUnit) ->
    length (sd_snaps s') = id /\ step H backend s' (ORevert (Z.of_nat id)) = (s', RPanic).
Proof.
  intros H backend s s' id Hr Hid Hmax E.
  destruct (nth_error (sd_snaps s) id) as [sn|] eqn:En; [|apply nth_error_None in En; lia].
  rewrite (revert_result H backend s id sn (reachable_wf H backend s Hr) En Hmax) in E. inversion E.
  assert (L : length (firstn id (sd_snaps s)) = id) by (rewrite firstn_length; lia).
  split; [exact L|]. apply revert_invalid_panics. simpl. lia.
Qed.

Theorem logs_slice_in_range_full :
  forall (H : bytes -> bytes) (backend : memdb) (s : statedb) (i : nat) (sn : snapshot),
    reachable H backend s -> nth_error (sd_snaps s) i = Some sn ->
    (sn_logsSize sn <= length (sd_logs s))%nat.
Proof. intros H backend s i sn Hr. apply wf_logs_in_range. exact (reachable_wf H backend s Hr). Qed.

Theorem fault_only_out_of_range_full :
  forall (H : bytes -> bytes) (backend : memdb) (s s' : statedb) (o : op),
    reachable H backend s -> (Z.of_nat (length (sd_snaps s)) < max_int64)%Z ->
    step H backend s o = (s', RFault) ->
    s' = s /\ exists idx, ((idx < 0)%Z \/ (Z.of_nat (length (sd_snaps s)) <= idx)%Z) /\
                         (o = ORevert idx \/ o = ODiscard idx).
Proof. intros H backend s s' o Hr. apply fault_only_out_of_range. exact (reachable_wf H backend s Hr). Qed.
