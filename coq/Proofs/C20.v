(** C20: statements assembled from Proofs/BlockCodec.v and Proofs/BlockMerkle.v, the refutation
    witnesses for the unrestricted round trip, and absence of fuel exhaustion. *)
From Coq Require Import List Bool Arith NArith ZArith Lia ZifyN ZifyNat ZifyBool.
Import ListNotations.
From Ont Require Import Lib.Bytes Gen.CodecConsts Model.Codec Proofs.Codec
  Model.BlockCodecTypes Gen.BlockLayout Model.BlockCodec Proofs.BlockCodec Proofs.BlockMerkle.
Local Open Scope N_scope.
Open Scope bool_scope.

(** * Header hash *)
Section HashCovers.
Variable H : bytes -> bytes.

(** The hash is computed from the unsigned fields only. *)
Lemma header_hash_unsigned_only h1 h2 : h_u h1 = h_u h2 -> header_hash H h1 = header_hash H h2.
Proof. intro E. unfold header_hash. rewrite E. reflexivity. Qed.

(** ... through the generated unsigned serializer. *)
Lemma header_hash_preimage h : header_hash H h = H (gen_hdr_serializationUnsigned (h_u h)).
Proof. reflexivity. Qed.

(** Equal hashes: equal unsigned fields, or an explicit collision. *)
Lemma header_hash_binds h1 h2 : wf_uhdr (h_u h1) -> wf_uhdr (h_u h2) ->
  header_hash H h1 = header_hash H h2 -> h_u h1 = h_u h2 \/ collision H.
Proof.
  intros W1 W2 E. unfold header_hash in E.
  destruct (H_inj_or_coll H _ _ E) as [E'|C]; [left|right; exact C].
  apply ser_unsigned_inj; assumption.
Qed.
End HashCovers.

(** * Two accepted blocks with the same block hash *)
Section Binding.
Variable H : bytes -> bytes.
Variable pk_parse : bytes -> option bytes.
Variable tx_decode : bytes -> txres.
Hypothesis H_len : forall x, length (H x) = HASH_SIZE.
Hypothesis TB : tx_in_bounds tx_decode.
Hypothesis tx_id_len : forall r id n, tx_decode r = TxOk id n -> length id = HASH_SIZE.

Lemma read_txs_ids32 fuel : forall cnt s seen l s',
  read_txs tx_decode fuel cnt s seen = inl (l, s') -> all32 (map fst l).
Proof.
  induction fuel as [|f IH]; intros cnt s seen l s' E; cbn [read_txs] in E.
  - destruct (cnt =? 0); [|discriminate]. inversion E; constructor.
  - destruct (cnt =? 0). { inversion E; constructor. }
    destruct (tx_decode (skipn (off s) (buf s))) as [id n|e] eqn:ET; [|discriminate].
    destruct (existsb (bytes_eqb id) seen); [discriminate|].
    destruct (read_txs tx_decode f (cnt - 1) (mkSrc (buf s) (off s + n)) (id :: seen)) as [[l1 s2]|] eqn:ER; [|discriminate].
    inversion E; subst. cbn [map fst]. constructor; [eapply tx_id_len; exact ET|eapply IH; exact ER].
Qed.

Lemma block_decode_ids32 b blk aux s' :
  block_decode H pk_parse tx_decode b = inl (blk, aux, s') -> all32 (map fst (b_txs blk)).
Proof.
  unfold block_decode, block_decode_src. intro E.
  destruct (header_decode pk_parse (src_new b)) as [[[h a] s1]|]; [|discriminate].
  destruct (next_uint32 s1) as [[len e] s2]. destruct e; [discriminate|].
  destruct (read_txs tx_decode (fuel_of s2) len s2 []) as [[txs s3]|] eqn:ET; [|discriminate].
  destruct (bytes_eqb _ _); [|discriminate]. inversion E; subst. cbn [b_txs].
  eapply read_txs_ids32; exact ET.
Qed.

Theorem block_hash_binds b1 b2 blk1 blk2 aux1 aux2 s1 s2 :
  wf_bytes b1 = true -> N.of_nat (length b1) < two64 ->
  wf_bytes b2 = true -> N.of_nat (length b2) < two64 ->
  block_decode H pk_parse tx_decode b1 = inl (blk1, aux1, s1) ->
  block_decode H pk_parse tx_decode b2 = inl (blk2, aux2, s2) ->
  block_hash H blk1 = block_hash H blk2 ->
  (h_u (b_hdr blk1) = h_u (b_hdr blk2) /\ map fst (b_txs blk1) = map fst (b_txs blk2)) \/
  collision H \/
  (exists x, In x (map fst (b_txs blk1) ++ map fst (b_txs blk2)) /\ inner_form H x) \/
  In zero_hash (map fst (b_txs blk1) ++ map fst (b_txs blk2)) \/ (exists w, H w = zero_hash).
Proof.
  intros W1 L1 W2 L2 E1 E2 EH.
  destruct (accepted_nodup_and_root H pk_parse tx_decode TB _ _ _ _ W1 L1 E1) as (N1 & R1 & U1).
  destruct (accepted_nodup_and_root H pk_parse tx_decode TB _ _ _ _ W2 L2 E2) as (N2 & R2 & U2).
  destruct (header_hash_binds H _ _ U1 U2 EH) as [EU|C]; [|right; left; exact C].
  assert (ER : merkle_root H (map fst (b_txs blk1)) = merkle_root H (map fst (b_txs blk2))) by congruence.
  destruct (merkle_binds H H_len _ _ (block_decode_ids32 _ _ _ _ E1) (block_decode_ids32 _ _ _ _ E2) N1 N2 ER)
    as [Q|[Q|[Q|[Q|Q]]]]; auto 6.
Qed.
End Binding.

(** The naive binding statement (no third disjunct) would produce a collision from any four
    values: it is not provable for a hash nobody can break. *)
Definition tx_root_binds_naive (H : bytes -> bytes) : Prop :=
  forall l1 l2, all32 l1 -> all32 l2 -> NoDup l1 -> NoDup l2 -> l1 <> l2 ->
  merkle_root H l1 <> merkle_root H l2 \/ collision H.

Theorem naive_binding_yields_collision H : (forall x, length (H x) = HASH_SIZE) ->
  tx_root_binds_naive H ->
  forall a b c d, all32 [a; b; c; d] -> NoDup [a; b; c; d] -> H (a ++ b) <> H (c ++ d) -> collision H.
Proof.
  intros HL Naive a b c d A N NE.
  destruct (Naive [a; b; c; d] [H (a ++ b); H (c ++ d)]) as [Q|Q]; try assumption.
  - repeat constructor; apply HL.
  - constructor; [intros [I|[]]; congruence|constructor; [intros []|constructor]].
  - discriminate.
  - exfalso. apply Q. apply inner_node_confusion.
Qed.

(** * Fuel never runs out *)
Section NoFuel.
Variable H : bytes -> bytes.
Variable pk_parse : bytes -> option bytes.
Variable tx_decode : bytes -> txres.
Hypothesis tx_progress : forall r id n, tx_decode r = TxOk id n -> (1 <= n <= length r)%nat.

Lemma varbytes_advances s d sz s' : ok s -> next_varbytes s = (d, sz, false, false, s') ->
  ok s' /\ (off s < off s' <= length (buf s))%nat /\ buf s' = buf s.
Proof.
  intros Hok E. destruct (varbytes_reads _ _ _ _ Hok E) as [R _].
  pose proof (reads_length _ _ _ R) as L. pose proof (reads_ok _ _ _ Hok R) as Hok'.
  destruct R as (Eb & Bd & _). unfold write_varbytes in L. rewrite app_length, write_varuint_length in L.
  destruct (getVarUintSize_cases (N.of_nat (length d))) as [[_ G]|[[_ G]|[[_ G]|[_ G]]]]; rewrite G in L;
    (split; [exact Hok'|split; [lia|exact Eb]]).
Qed.

Lemma read_keys_nofuel fuel : forall cnt s, ok s -> (length (buf s) - off s < fuel)%nat ->
  read_keys pk_parse fuel cnt s <> inr DFuel.
Proof.
  induction fuel as [|f IH]; intros cnt s Hok L; [lia|]. cbn [read_keys].
  destruct (cnt =? 0); [discriminate|].
  destruct (next_varbytes s) as [[[[d sz] irr] e] s1] eqn:EV.
  destruct e; [discriminate|]. destruct irr; [discriminate|].
  destruct (pk_parse d); [|discriminate].
  destruct (varbytes_advances _ _ _ _ Hok EV) as (Hok1 & Adv & Eb).
  specialize (IH (cnt - 1) s1 Hok1). rewrite Eb in IH.
  destruct (read_keys pk_parse f (cnt - 1) s1) as [[ks s2]|e]; [discriminate|].
  intro E; inversion E; subst. apply IH; [lia|reflexivity].
Qed.

Lemma read_sigs_nofuel fuel : forall cnt s, ok s -> (length (buf s) - off s < fuel)%nat ->
  read_sigs fuel cnt s <> inr DFuel.
Proof.
  induction fuel as [|f IH]; intros cnt s Hok L; [lia|]. cbn [read_sigs].
  destruct (cnt =? 0); [discriminate|].
  destruct (next_varbytes s) as [[[[d sz] irr] e] s1] eqn:EV.
  destruct e; [discriminate|]. destruct irr; [discriminate|].
  destruct (varbytes_advances _ _ _ _ Hok EV) as (Hok1 & Adv & Eb).
  specialize (IH (cnt - 1) s1 Hok1). rewrite Eb in IH.
  destruct (read_sigs f (cnt - 1) s1) as [[ks s2]|e]; [discriminate|].
  intro E; inversion E; subst. apply IH; [lia|reflexivity].
Qed.

Lemma read_txs_nofuel fuel : forall cnt s seen, (off s <= length (buf s))%nat ->
  (length (buf s) - off s < fuel)%nat -> read_txs tx_decode fuel cnt s seen <> inr DFuel.
Proof.
  induction fuel as [|f IH]; intros cnt s seen O L; [lia|]. cbn [read_txs].
  destruct (cnt =? 0); [discriminate|].
  destruct (tx_decode (skipn (off s) (buf s))) as [id n|e] eqn:ET; [|discriminate].
  destruct (existsb (bytes_eqb id) seen); [discriminate|].
  apply tx_progress in ET. rewrite skipn_length in ET.
  specialize (IH (cnt - 1) (mkSrc (buf s) (off s + n)) (id :: seen)). cbn [buf off] in IH.
  destruct (read_txs tx_decode f (cnt - 1) (mkSrc (buf s) (off s + n)) (id :: seen)) as [[l s2]|e]; [discriminate|].
  intro E; inversion E; subst. apply IH; [lia|lia|reflexivity].
Qed.

Theorem block_decode_nofuel b : wf_bytes b = true -> N.of_nat (length b) < two64 ->
  block_decode H pk_parse tx_decode b <> inr DFuel.
Proof.
  intros W L. pose proof (ok_new b W L) as Hok. unfold block_decode, block_decode_src.
  destruct (header_decode pk_parse (src_new b)) as [[[h a] s1]|e] eqn:EH.
  - destruct (header_decode_reads _ _ _ _ _ Hok EH) as (R1 & _). pose proof (reads_ok _ _ _ Hok R1) as Hok1.
    destruct (next_uint32 s1) as [[len e] s2] eqn:EL. destruct e; [discriminate|].
    destruct (uint_reads _ _ _ _ Hok1 EL) as [R2 _]. pose proof (reads_ok _ _ _ Hok1 R2) as [[O2 _] _].
    pose proof (read_txs_nofuel (fuel_of s2) len s2 [] O2) as NF.
    destruct (read_txs tx_decode (fuel_of s2) len s2 []) as [[txs s3]|e].
    + destruct (bytes_eqb _ _); discriminate.
    + intro E; inversion E; subst. apply NF; [unfold fuel_of; lia|reflexivity].
  - intro E; inversion E; subst. clear E. unfold header_decode in EH.
    destruct (gen_hdr_deserializationUnsigned (src_new b)) as [[u s1]|e] eqn:EU.
    + destruct (deser_unsigned_reads _ _ _ Hok EU) as [R1 _]. pose proof (reads_ok _ _ _ Hok R1) as Hok1.
      destruct (next_varuint s1) as [[[[n szn] irr] e] s2] eqn:EN.
      destruct e; [discriminate|]. destruct irr; [discriminate|].
      destruct (varuint_reads _ _ _ _ Hok1 EN) as [R2 _]. pose proof (reads_ok _ _ _ Hok1 R2) as Hok2.
      pose proof (read_keys_nofuel (fuel_of s2) (loop_count n) s2 Hok2) as NF.
      destruct (read_keys pk_parse (fuel_of s2) (loop_count n) s2) as [[ks s3]|e] eqn:EK.
      * destruct (read_keys_reads _ _ _ _ _ _ Hok2 EK) as (R3 & _). pose proof (reads_ok _ _ _ Hok2 R3) as Hok3.
        destruct (next_varuint s3) as [[[[m szm] irr'] e'] s4] eqn:EM.
        destruct e'; [discriminate|]. destruct irr'; [discriminate|].
        destruct (varuint_reads _ _ _ _ Hok3 EM) as [R4 _]. pose proof (reads_ok _ _ _ Hok3 R4) as Hok4.
        pose proof (read_sigs_nofuel (fuel_of s4) (loop_count m) s4 Hok4) as NF2.
        destruct (read_sigs (fuel_of s4) (loop_count m) s4) as [[sg s5]|e]; [discriminate|].
        inversion EH; subst. apply NF2; [unfold fuel_of; lia|reflexivity].
      * inversion EH; subst. apply NF; [unfold fuel_of; lia|reflexivity].
    + (* the generated unsigned reader has no DFuel branch *)
      inversion EH; subst. clear - EU. unfold gen_hdr_deserializationUnsigned in EU.
      unfold rd_NextUint32_eof, rd_NextUint64_eof, rd_NextHash_eof, rd_NextAddress_eof,
        rd_NextVarBytes_eof_irregular in EU.
      repeat match type of EU with
      | context [next_uint32 ?x] => destruct (next_uint32 x) as [[? [|]] ?]; try discriminate
      | context [next_uint64 ?x] => destruct (next_uint64 x) as [[? [|]] ?]; try discriminate
      | context [next_hash ?x] => destruct (next_hash x) as [[? [|]] ?]; try discriminate
      | context [next_address ?x] => destruct (next_address x) as [[? [|]] ?]; try discriminate
      | context [next_varbytes ?x] => destruct (next_varbytes x) as [[[[? ?] [|]] [|]] ?]; try discriminate
      end.
Qed.
End NoFuel.
