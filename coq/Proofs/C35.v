(** C35 — world invariant over all histories and the properties of a proposal. *)
From Coq Require Import List Bool NArith Lia Permutation.
Import ListNotations.
From Ont Require Import Model.TxPool Proofs.TxPoolAL Proofs.TxPoolVerify Proofs.TxPoolInv Proofs.TxPoolWorld.
Local Open Scope N_scope.

Definition collision_free (S : list tx) : Prop :=
  forall a b, In a S -> In b S -> tx_hash a = tx_hash b -> a = b.

Definition oracle_ok (o : order_oracle) : Prop :=
  (forall l, Permutation l (oe o l)) /\ (forall l, Permutation l (oo o l)).

(** what is known of a validTxMap entry [h -> e] *)
Definition entry_ok (S : list tx) (chain : list (list tx)) (h : N) (e : vtx) : Prop :=
  tx_hash (v_tx e) = h /\ In (v_tx e) S /\ tx_wf (v_tx e) /\
  v_height e < N.of_nat (length chain) /\ on_chain_upto chain (v_height e) h = false.
Definition etx_ok (S : list tx) (t : tx) : Prop := tx_eip t = true /\ In t S.
Definition chain_wf (chain : list (list tx)) : Prop := Forall (Forall tx_wf) chain.

Definition winv (S : list tx) (w : world) : Prop :=
  pinv (entry_ok S (w_chain w)) (etx_ok S) (w_pool w) /\ ivinv (w_chain w) (w_iv w) /\
  ninv (w_chain w) (w_nonce w) /\ chain_wf (w_chain w) /\ w_chain w <> [].

Definition op_ok (S : list tx) (x : op) : Prop :=
  match x with
  | OSubmit t _ _ => In t S /\ tx_wf t
  | OCommit b => Forall tx_wf b
  | _ => True
  end.

Lemma upto_grow chain b h : h < N.of_nat (length chain) ->
  chain_hashes_upto (chain ++ [b]) h = chain_hashes_upto chain h.
Proof.
  intro H. unfold chain_hashes_upto. rewrite firstn_app.
  replace (S (N.to_nat h) - length chain)%nat with 0%nat by lia. simpl. rewrite app_nil_r. reflexivity.
Qed.

Lemma entry_ok_grow S chain b h e : entry_ok S chain h e -> entry_ok S (chain ++ [b]) h e.
Proof.
  intros [H1 [H2 [H3 [H4 H5]]]]. split; [|split; [|split; [|split]]]; auto.
  - rewrite app_length. simpl. lia.
  - unfold on_chain_upto in *. rewrite upto_grow; auto.
Qed.

Lemma winv_init S mb mx : winv S (world_init mb mx).
Proof.
  unfold world_init, winv. simpl. split; [|split; [apply ivinv_new|split; [|split]]].
  - split; [exact I|]. split; [intros h e []|intros P m n t []].
  - intros P pre b post E Hnz _. exfalso. apply Hnz.
    destruct pre as [|x pre]; simpl in E.
    + inversion E; subst. reflexivity.
    + inversion E. destruct pre; discriminate.
  - repeat constructor.
  - discriminate.
Qed.

Lemma w_height_succ w : w_chain w <> [] -> w_height w + 1 = N.of_nat (length (w_chain w)).
Proof. unfold w_height. intro H. destruct (w_chain w); [congruence|]. simpl length. lia. Qed.

Lemma winv_pool S w p' : winv S w -> shrinks p' (w_pool w) ->
  winv S (mkW (w_chain w) (w_nonce w) p' (w_iv w) (w_maxtx w)).
Proof.
  intros [Hp [Hi [Hn [Hc Hne]]]] Hs. unfold winv; simpl.
  split; [eapply shrinks_pinv; eauto|]. repeat split; auto.
Qed.

Lemma winv_step o S w x :
  winv S w -> op_ok S x -> N.of_nat (length (w_chain (step o w x))) < U32 -> winv S (step o w x).
Proof.
  intros Hw Hok Hb. pose proof Hw as [Hp [Hi [Hn [Hc Hne]]]].
  destruct x; simpl in *.
  - (* submit *)
    destruct ((vh <=? w_height w) && negb (on_chain_upto (w_chain w) vh (tx_hash t))) eqn:E; [|exact Hw].
    apply andb_prop in E. destruct E as [E1 E2]. apply N.leb_le in E1. apply negb_true_iff in E2.
    destruct Hok as [HS Hwf]. unfold winv; simpl. split; [|repeat split; auto].
    apply add_tx_list_inv; simpl; auto.
    + split; [|split; [|split; [|split]]]; auto. simpl. pose proof (w_height_succ w Hne); lia.
    + intro Ee; split; auto.
  - apply (winv_pool S w _ Hw). apply get_tx_pool_shrinks.
  - (* commit *)
    destruct (ledger_exec b (w_nonce w)) as [n'|] eqn:E; [|exact Hw]. simpl in *.
    unfold winv; simpl. split; [|split; [apply ivinv_grow; auto|split; [eapply ninv_commit; eauto|split]]].
    + eapply pinv_weaken; [|exact Hp]. intros h e. apply entry_ok_grow.
    + apply Forall_app. split; auto.
    + destruct (w_chain w); discriminate.
  - (* validator receives block k *)
    destruct (nth_error (w_chain w) (N.to_nat k)) as [b|] eqn:E; [|exact Hw]. simpl in *.
    unfold winv; simpl. split; [exact Hp|]. split; [apply ivinv_add; auto|]. repeat split; auto.
  - unfold winv; simpl. split; [exact Hp|]. split; [apply ivinv_clean; auto|]. repeat split; auto.
  - destruct (nth_error (w_chain w) (N.to_nat k)) as [b|] eqn:E; [|exact Hw].
    apply (winv_pool S w _ Hw). eapply shrinks_trans; [apply clean_staled_shrinks|apply clean_completed_shrinks].
  - apply (winv_pool S w _ Hw). apply remove_below_price_shrinks.
  - apply (winv_pool S w _ Hw). apply remain_shrinks.
  - (* propose: expiry in the pool, possibly Clean in the validator *)
    unfold propose. destruct (valid_height (w_height w) (w_iv w)) as [vh v'] eqn:Ev. simpl.
    assert (Hv' : ivinv (w_chain w) v').
    { unfold valid_height in Ev. destruct (iv_range (w_iv w)) as [st en].
      destruct (_ =? en); inversion Ev; subst; auto. apply ivinv_clean; auto. }
    pose proof (get_tx_pool_shrinks o true vh (w_maxtx w) (w_pool w)) as Hs.
    unfold winv; simpl. split; [eapply shrinks_pinv; eauto|]. repeat split; auto.
Qed.

Lemma step_chain_mono o w x : (length (w_chain w) <= length (w_chain (step o w x)))%nat.
Proof.
  destruct x; simpl; auto.
  - destruct (_ && _); simpl; auto.
  - destruct (ledger_exec b (w_nonce w)); simpl; auto. rewrite app_length. lia.
  - destruct (nth_error _ _); simpl; auto.
  - destruct (nth_error _ _); simpl; auto.
  - unfold propose. destruct (valid_height _ _). simpl. auto.
Qed.

Lemma winv_run o S h : forall w, winv S w -> Forall (op_ok S) h ->
  N.of_nat (length (w_chain (run o w h))) < U32 -> winv S (run o w h).
Proof.
  induction h as [|x r IH] using rev_ind; intros w Hw Hok Hb; [exact Hw|].
  unfold run in *. rewrite fold_left_app in *. simpl in *.
  apply Forall_app in Hok. destruct Hok as [Hr Hx]. inversion Hx; subst.
  apply winv_step; auto. apply IH; auto.
  pose proof (step_chain_mono o (fold_left (step o) r w) x). lia.
Qed.

(** * what GetTxPool hands out *)
Section GetTxPoolFacts.
  Variables (S : list tx) (chain : list (list tx)) (o : order_oracle) (p : pool).
  Hypothesis Hcf : collision_free S.
  Hypothesis Hor : oracle_ok o.
  Hypothesis Hp : pinv (entry_ok S chain) (etx_ok S) p.

  Let eiplst := oe o (map (fun kv => heading (snd kv)) (p_eips p)).
  Let eiptxs := select_sort (length (concat eiplst)) eiplst (p_valid p).
  Let ord := oo o (filter (fun e => negb (tx_eip (v_tx e))) (map snd (p_valid p))).

  Lemma eiptxs_entry e : In e eiptxs -> tx_eip (v_tx e) = true /\ exists h, In (h, e) (p_valid p).
  Proof.
    intro H. apply select_sort_from in H. destruct H as [l [t [Hl [Ht Hg]]]].
    destruct Hp as [Hs [Hv He]]. destruct Hor as [Hoe _].
    apply (Permutation_in _ (Permutation_sym (Hoe _))) in Hl.
    apply in_map_iff in Hl. destruct Hl as [[P m] [El Hm]]. simpl in El. subst l.
    apply heading_In in Ht. destruct Ht as [k Hk].
    destruct (He _ _ _ _ Hm Hk) as [Ee HS].
    apply aget_In in Hg. destruct (Hv _ _ Hg) as [Eh [HS' _]].
    assert (v_tx e = t) by (apply Hcf; auto). subst t. split; eauto.
  Qed.

  Lemma ord_entry e : In e ord -> exists h, In (h, e) (p_valid p).
  Proof.
    intro H. destruct Hor as [_ Hoo]. apply (Permutation_in _ (Permutation_sym (Hoo _))) in H.
    apply filter_In in H. destruct H as [H _]. apply in_map_iff in H. destruct H as [[h e'] [E Hin]].
    simpl in E. subst. eauto.
  Qed.

  Lemma valid_txs_NoDup : NoDup (map v_tx (map snd (p_valid p))).
  Proof.
    destruct Hp as [Hs [Hv He]]. rewrite map_map. apply NoDup_map_inj.
    - intros [h1 e1] [h2 e2] H1 H2 E. simpl in E.
      destruct (Hv _ _ H1) as [Eh1 _]. destruct (Hv _ _ H2) as [Eh2 _].
      assert (h1 = h2) by congruence. subst h2.
      pose proof (sk_In_aget _ _ _ Hs H1). pose proof (sk_In_aget _ _ _ Hs H2). congruence.
    - eapply NoDup_map_inv. apply sk_NoDup_keys. exact Hs.
  Qed.

  Lemma filter_none {A} (f : A -> bool) l : (forall x, In x l -> f x = false) -> filter f l = [].
  Proof.
    induction l as [|x r IH]; simpl; intro H; auto. rewrite (H x) by auto. apply IH. intros; apply H; auto.
  Qed.

  Lemma all_ordinary_NoDup : NoDup (filter (fun t => negb (tx_eip t)) (map v_tx (eiptxs ++ ord))).
  Proof.
    rewrite map_app, filter_app.
    rewrite (filter_none _ (map v_tx eiptxs)).
    - simpl. eapply sub_NoDup; [apply filter_sub|].
      destruct Hor as [_ Hoo]. eapply Permutation_NoDup; [apply Permutation_map; apply Hoo|].
      eapply sub_NoDup; [apply sub_map; apply filter_sub|]. apply valid_txs_NoDup.
    - intros t H. apply in_map_iff in H. destruct H as [e [<- He]].
      destruct (eiptxs_entry e He) as [-> _]. reflexivity.
  Qed.

  Lemma get_tx_pool_facts bc height maxtx :
    let g := get_tx_pool o bc height maxtx p in
    (forall e, In e (g_valid g) -> (exists h, In (h, e) (p_valid p)) /\ height <= v_height e) /\
    NoDup (filter (fun t => negb (tx_eip t)) (map v_tx (g_valid g))).
  Proof.
    unfold get_tx_pool. cbv zeta. fold eiplst. fold eiptxs. fold ord.
    destruct (gtp_loop (eiptxs ++ ord) height _ [] []) as [valid old] eqn:El.
    apply gtp_loop_spec in El. destruct El as [v' [Ev [Hsub [Hh _]]]]. simpl in Ev. subst v'.
    match goal with |- context [fold_left ?f old (p, true)] => destruct (fold_left f old (p, true)) as [p' ok] end.
    simpl. split.
    - intros e He. split.
      + apply (sub_In _ _ Hsub) in He. apply in_app_or in He. destruct He as [He|He].
        * apply eiptxs_entry in He. tauto.
        * apply ord_entry; auto.
      + specialize (Hh e He). apply N.ltb_ge in Hh. exact Hh.
    - eapply sub_NoDup; [apply sub_filter; apply sub_map; exact Hsub|]. apply all_ordinary_NoDup.
  Qed.
End GetTxPoolFacts.

(** * the proposal *)
Definition all_hashes (chain : list (list tx)) : list N := map tx_hash (concat chain).

Lemma in_window_iff v s h :
  in_window v s h = true <->
  exists blk, In blk (skipn (N.to_nat (s - iv_base v)) (iv_blocks v)) /\ In h blk.
Proof.
  unfold in_window. rewrite existsb_exists. split; intros [blk [H1 H2]]; exists blk; split; auto.
  - apply existsb_exists in H2. destruct H2 as [x [Hx E]]. apply N.eqb_eq in E. subst; auto.
  - apply existsb_exists. exists h. split; auto. apply N.eqb_refl.
Qed.

Lemma on_chain_false chain vh h : on_chain_upto chain vh h = false -> ~ In h (chain_hashes_upto chain vh).
Proof.
  unfold on_chain_upto. intros H Hin.
  assert (existsb (N.eqb h) (chain_hashes_upto chain vh) = true)
    by (apply existsb_exists; exists h; split; auto; apply N.eqb_refl).
  congruence.
Qed.

Theorem propose_props o S w :
  oracle_ok o -> collision_free S -> winv S w -> N.of_nat (length (w_chain w)) < U32 ->
  let out := pr_txs (propose o w) in
  NoDup (map tx_hash out) /\
  (forall t, In t out -> ~ In (tx_hash t) (all_hashes (w_chain w))) /\
  (forall P, consec (w_nonce w P) (map tx_nonce (filter (is_of P) out))).
Proof.
  intros Hor Hcf [Hp [Hi [Hn [Hc Hne]]]] Hb. unfold propose.
  destruct (valid_height (w_height w) (w_iv w)) as [vh v'] eqn:Ev. cbv zeta. simpl pr_txs.
  pose proof (get_tx_pool_facts S (w_chain w) o (w_pool w) Hcf Hor Hp true vh (w_maxtx w)) as Hf.
  cbv zeta in Hf. set (g := get_tx_pool o true vh (w_maxtx w) (w_pool w)) in *.
  destruct Hf as [Hent Hnd].
  set (l := map v_tx (g_valid g)).
  assert (Hl : forall t, In t l -> exists e h, v_tx e = t /\ In (h, e) (p_valid (w_pool w)) /\ vh <= v_height e).
  { intros t H. apply in_map_iff in H. destruct H as [e [E He]]. destruct (Hent e He) as [[h Hh] Hv].
    exists e, h. auto. }
  destruct Hp as [Hsk [Hv He]].
  assert (Hwf : Forall tx_wf l).
  { apply Forall_forall. intros t H. destruct (Hl t H) as [e [h [E [Hin _]]]]. subst t.
    destruct (Hv _ _ Hin) as [_ [_ [Hw _]]]. exact Hw. }
  assert (HS : forall t, In t l -> In t S).
  { intros t H. destruct (Hl t H) as [e [h [E [Hin _]]]]. subst t. destruct (Hv _ _ Hin) as [_ [Hs _]]. exact Hs. }
  pose proof (w_height_succ w Hne) as Hh.
  split; [|split].
  - (* no duplicate hash *)
    apply NoDup_map_inj.
    + intros a b Ha Hb' E. apply Hcf; auto; apply HS; eapply sub_In; try apply vf_sub; eauto.
    + apply vf_NoDup; auto.
  - (* nothing already on chain *)
    intros t Ht Hin.
    pose proof (vf_not_in_window _ _ _ _ _ _ Ht) as Hwin.
    apply (sub_In _ _ (vf_sub _ _ _ _ _)) in Ht.
    destruct (Hl t Ht) as [e [h [E [Hine Hvh]]]]. subst t.
    destruct (Hv _ _ Hine) as [Eh [_ [_ [Hlt Hoc]]]]. apply on_chain_false in Hoc.
    unfold valid_height in Ev. unfold iv_range in Ev.
    destruct Hi as [bs [Hb1 [Hb2 [Hseg Hmax]]]].
    destruct (N.eqb_spec ((w_height w + 1) mod U32) (iv_end (w_iv w))) as [Esync|Esync]; inversion Ev; subst vh v'; clear Ev.
    + (* the window ends at the ledger tip *)
      unfold iv_end in Esync. rewrite Hh in Esync. rewrite Hb1, map_length in Esync.
      pose proof (seg_len _ _ _ Hseg) as Hlen.
      unfold U32 in *. rewrite !N.mod_small in Esync by lia.
      destruct Hseg as [[Hbs0 Hbase0]|[Hbs [pre [rest [Ech Lpre]]]]].
      * subst bs. rewrite Hbase0 in Esync. simpl in Esync. destruct (w_chain w); [congruence|simpl in Esync; lia].
      * assert (rest = []).
        { apply length_zero_iff_nil. rewrite Ech in Esync. rewrite !app_length in Esync. lia. }
        subst rest. rewrite app_nil_r in Ech.
        unfold all_hashes in Hin. rewrite Ech, concat_app, map_app in Hin. apply in_app_or in Hin.
        destruct Hin as [Hin|Hin].
        -- apply Hoc. unfold chain_hashes_upto. rewrite Ech, firstn_app.
           rewrite firstn_all2 by lia. rewrite concat_app, map_app. apply in_or_app. left. rewrite <- Eh. exact Hin.
        -- assert (in_window (w_iv w) (iv_base (w_iv w)) (tx_hash (v_tx e)) = true); [|congruence].
           apply in_window_iff. rewrite N.sub_diag. simpl. rewrite Hb1.
           apply in_map_iff in Hin. destruct Hin as [t' [Et' Hin]]. apply in_concat in Hin.
           destruct Hin as [blk [Hblk Ht']]. exists (map tx_hash blk). split; [apply in_map; auto|].
           rewrite <- Et'. apply in_map; auto.
    + (* window out of step with the ledger: cleaned, only entries verified at the tip remain *)
      apply Hoc. unfold chain_hashes_upto. rewrite firstn_all2 by lia. rewrite <- Eh. exact Hin.
  - (* consecutive nonces from the account nonce *)
    intro P. pose proof (vf_consec v' (w_nonce w) vh P l Hwf []) as Hcs.
    assert (Einit : expect v' (w_nonce w) [] P = w_nonce w P); [|rewrite <- Einit; exact Hcs].
    unfold expect, iv_init. simpl. cbv zeta.
    destruct (N.eqb_spec (window_nonce P (iv_nonces v')) 0) as [Ez|Ez]; [reflexivity|].
    unfold valid_height in Ev. unfold iv_range in Ev.
    destruct Hi as [bs [Hb1 [Hb2 [Hseg Hmax]]]].
    destruct (N.eqb_spec ((w_height w + 1) mod U32) (iv_end (w_iv w))) as [Esync|Esync]; inversion Ev; subst vh v'; clear Ev.
    + unfold iv_end in Esync. rewrite Hh in Esync. rewrite Hb1, map_length in Esync.
      pose proof (seg_len _ _ _ Hseg) as Hlen.
      unfold U32 in *. rewrite !N.mod_small in Esync by lia.
      rewrite Hb2 in *.
      destruct Hseg as [[Hbs0 Hbase0]|[Hbs [pre [rest [Ech Lpre]]]]]; [subst bs; exfalso; apply Ez; reflexivity|].
      assert (rest = []).
      { apply length_zero_iff_nil. rewrite Ech in Esync. rewrite !app_length in Esync. lia. }
      subst rest. symmetry. eapply (window_nonce_ledger _ _ P pre Hn bs []); auto. intros b' [].
    + exfalso. apply Ez. reflexivity.
Qed.

(** * all histories *)
Definition op_wf (x : op) : Prop :=
  match x with
  | OSubmit t _ _ => tx_wf t       (* Nonce is a uint32, GasPrice a uint64 *)
  | OCommit b => Forall tx_wf b
  | _ => True
  end.
Definition hist_wf (h : list op) : Prop := Forall op_wf h.

Lemma hist_ok h : hist_wf h -> Forall (op_ok (hist_txs h)) h.
Proof.
  intro H. apply Forall_forall. intros x Hx.
  pose proof (proj1 (Forall_forall _ _) H x Hx) as Hw.
  destruct x; simpl in *; auto. split; auto.
  unfold hist_txs. apply in_flat_map. exists (OSubmit t vh vn). simpl; auto.
Qed.

Theorem proposal_all_histories o maxBlocks maxtx h :
  oracle_ok o -> hist_wf h -> collision_free (hist_txs h) ->
  let w := run o (world_init maxBlocks maxtx) h in
  N.of_nat (length (w_chain w)) < U32 ->
  let out := pr_txs (propose o w) in
  NoDup (map tx_hash out) /\
  (forall t, In t out -> ~ In (tx_hash t) (all_hashes (w_chain w))) /\
  (forall P, consec (w_nonce w P) (map tx_nonce (filter (is_of P) out))).
Proof.
  intros Hor Hwf Hcf w Hb. apply (propose_props o (hist_txs h)); auto.
  apply winv_run; auto; [apply winv_init|apply hist_ok; auto].
Qed.

(** the canonical oracle (payer order, stable descending-price insertion sort) is an ordering *)
Lemma ins_price_perm e l : Permutation (e :: l) (ins_price e l).
Proof.
  induction l as [|x r IH]; simpl; auto.
  destruct (_ <? _); auto. eapply perm_trans; [apply perm_swap|]. apply perm_skip. exact IH.
Qed.

Lemma sort_price_perm l : Permutation l (sort_price l).
Proof.
  induction l as [|x r IH]; simpl; auto.
  eapply perm_trans; [apply perm_skip; exact IH|apply ins_price_perm].
Qed.

Lemma canonical_oracle_ok : oracle_ok canonical_oracle.
Proof. split; intro l; simpl; [apply Permutation_refl|apply sort_price_perm]. Qed.

(** decidable collision-freedom, for concrete histories *)
Definition cf_b (S : list tx) : bool :=
  forallb (fun a => forallb (fun b => negb (tx_hash a =? tx_hash b) || tx_eqb a b) S) S.

Lemma tx_eqb_eq a b : tx_eqb a b = true -> a = b.
Proof.
  destruct a, b. unfold tx_eqb. simpl. intro H.
  repeat (apply andb_prop in H; destruct H as [H ?]).
  apply N.eqb_eq in H. apply eqb_prop in H3. apply N.eqb_eq in H2. apply N.eqb_eq in H1. apply N.eqb_eq in H0.
  subst. reflexivity.
Qed.

Lemma cf_b_sound S : cf_b S = true -> collision_free S.
Proof.
  unfold cf_b. intros H a b Ha Hb E.
  rewrite forallb_forall in H. specialize (H a Ha). rewrite forallb_forall in H. specialize (H b Hb).
  apply orb_prop in H. destruct H as [H|H]; [|apply tx_eqb_eq; auto].
  apply negb_true_iff in H. apply N.eqb_neq in H. contradiction.
Qed.
