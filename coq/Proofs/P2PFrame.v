(** Proofs about the message frame (ReadMessage / WriteMessage of message.go) over the payload
    results of Proofs/P2PMsg.v: header layout, rejections, allocation bound, and re-serialization
    of the whole frame. *)
From Coq Require Import String.
From Coq Require Import List Bool Arith NArith ZArith Lia ZifyN ZifyNat ZifyBool.
Import ListNotations.
From Ont Require Import Lib.Bytes Gen.CodecConsts Gen.P2PConsts Model.Codec Proofs.Codec Model.P2PMsg
  Proofs.P2PMsgLib Proofs.P2PMsg.
Local Open Scope N_scope.
Open Scope bool_scope.
Ltac Zify.zify_post_hook ::= Z.to_euclidean_division_equations.

(** * The generated dispatch table *)
(** Every Go type the switch of makeEmptyMessage returns has a modelled decoder. *)
Lemma table_modelled :
  forallb (fun e => match kind_of_name (d_name e) with Some _ => true | None => false end) DISPATCH = true.
Proof. vm_compute. reflexivity. Qed.

(** makeEmptyMessage(c).CmdType() = c for every case of the switch. *)
Lemma table_cmdtype :
  forallb (fun e => match kind_of_name (d_name e) with
                    | Some k => bytes_eqb (cmd_of_kind k) (d_cmd e)
                    | None => false end) DISPATCH = true.
Proof. vm_compute. reflexivity. Qed.

(** No case label ends in a zero byte or is longer than the command field (else it could never match). *)
Lemma table_cmds_fit :
  forallb (fun e => (length (d_cmd e) <=? MSG_CMD_LEN)%nat && bytes_eqb (trim_right0 (d_cmd e)) (d_cmd e)) DISPATCH = true.
Proof. vm_compute. reflexivity. Qed.

(** * Header layout *)
Definition hdr_magic (st : bytes) : N := le_decode (slice st 0 UINT32_SIZE).
Definition hdr_cmd (st : bytes) : bytes := slice st UINT32_SIZE MSG_CMD_LEN.
Definition hdr_len (st : bytes) : N := le_decode (slice st (UINT32_SIZE + MSG_CMD_LEN) UINT32_SIZE).
Definition hdr_cks (st : bytes) : bytes := slice st (UINT32_SIZE + MSG_CMD_LEN + UINT32_SIZE) CHECKSUM_LEN.

Ltac explode24 h H :=
  do 24 (destruct h as [|? h]; [discriminate H|]); destruct h; [|discriminate H].

Lemma parse_header_spec h : length h = MSG_HDR_LEN ->
  parse_header h = (hdr_magic h, hdr_cmd h, hdr_len h, hdr_cks h) /\
  h = slice h 0 UINT32_SIZE ++ hdr_cmd h ++ slice h (UINT32_SIZE + MSG_CMD_LEN) UINT32_SIZE ++ hdr_cks h.
Proof.
  intro H. explode24 h H. split; vm_compute; reflexivity.
Qed.

Lemma hdr_firstn st : (MSG_HDR_LEN <= length st)%nat ->
  hdr_magic (firstn MSG_HDR_LEN st) = hdr_magic st /\ hdr_cmd (firstn MSG_HDR_LEN st) = hdr_cmd st /\
  hdr_len (firstn MSG_HDR_LEN st) = hdr_len st /\ hdr_cks (firstn MSG_HDR_LEN st) = hdr_cks st.
Proof.
  intro H.
  assert (S : forall o n, (o + n <= MSG_HDR_LEN)%nat -> slice (firstn MSG_HDR_LEN st) o n = slice st o n).
  { intros o n Hon. unfold slice. rewrite <- (firstn_skipn MSG_HDR_LEN st) at 2.
    rewrite skipn_app. rewrite firstn_length. replace (Nat.min MSG_HDR_LEN (length st)) with MSG_HDR_LEN by lia.
    replace (o - MSG_HDR_LEN)%nat with 0%nat by lia. cbn [skipn].
    rewrite firstn_app. rewrite skipn_length, firstn_length.
    replace (n - (Nat.min MSG_HDR_LEN (length st) - o))%nat with 0%nat by lia.
    cbn [firstn]. rewrite app_nil_r. reflexivity. }
  unfold hdr_magic, hdr_cmd, hdr_len, hdr_cks. rewrite !S by (vm_compute; lia). repeat split; reflexivity.
Qed.

(** * ReadMessage, unfolded over the header accessors *)
Section Frame.
Context {E : Type} (X : ext E).

Definition read_message_spec (magic : N) (st : bytes) : @fres E :=
  if (length st <? MSG_HDR_LEN)%nat then @FErr E FShortHeader else
  if negb (hdr_magic st =? magic) then @FErr E FMagic else
  if MAX_PAYLOAD_LEN <? hdr_len st then @FErr E FLength else
  let body := skipn MSG_HDR_LEN st in
  if N.of_nat (length body) <? hdr_len st then @FErr E FShortPayload else
  let payload := firstn (N.to_nat (hdr_len st)) body in
  if negb (bytes_eqb (checksum (x_hash X) payload) (hdr_cks st)) then @FErr E FChecksum else
  match decode_payload X (trim_right0 (hdr_cmd st)) payload with
  | DErr e => @FErr E (FDecode e)
  | DOk (m, s', lf) => @FOk E m (hdr_len st) lf (off s') (skipn (N.to_nat (hdr_len st)) body)
  end.

Lemma read_message_eq magic st : read_message X magic st = read_message_spec magic st.
Proof.
  unfold read_message, read_message_spec.
  destruct (length st <? MSG_HDR_LEN)%nat eqn:L; [reflexivity|]. apply Nat.ltb_ge in L.
  assert (Lh : length (firstn MSG_HDR_LEN st) = MSG_HDR_LEN) by (rewrite firstn_length; lia).
  destruct (parse_header_spec _ Lh) as [P _]. rewrite P.
  destruct (hdr_firstn st L) as [H1 [H2 [H3 H4]]]. rewrite H1, H2, H3, H4. reflexivity.
Qed.

Lemma read_message_alloc_eq magic st :
  read_message_alloc magic st =
  if (length st <? MSG_HDR_LEN)%nat then N.of_nat MSG_HDR_LEN else
  if negb (hdr_magic st =? magic) then N.of_nat MSG_HDR_LEN else
  if MAX_PAYLOAD_LEN <? hdr_len st then N.of_nat MSG_HDR_LEN else N.of_nat MSG_HDR_LEN + hdr_len st.
Proof.
  unfold read_message_alloc.
  destruct (length st <? MSG_HDR_LEN)%nat eqn:L; [reflexivity|]. apply Nat.ltb_ge in L.
  assert (Lh : length (firstn MSG_HDR_LEN st) = MSG_HDR_LEN) by (rewrite firstn_length; lia).
  destruct (parse_header_spec _ Lh) as [P _]. rewrite P.
  destruct (hdr_firstn st L) as [H1 [H2 [H3 H4]]]. rewrite H1, H3. reflexivity.
Qed.

(** ** Rejections *)
Theorem rejects_short_header magic st :
  (length st < MSG_HDR_LEN)%nat -> read_message X magic st = @FErr E FShortHeader.
Proof. intro H. rewrite read_message_eq. unfold read_message_spec. apply Nat.ltb_lt in H. rewrite H. reflexivity. Qed.

Theorem rejects_wrong_magic magic st :
  (MSG_HDR_LEN <= length st)%nat -> hdr_magic st <> magic -> read_message X magic st = @FErr E FMagic.
Proof.
  intros L H. rewrite read_message_eq. unfold read_message_spec.
  apply Nat.ltb_ge in L. rewrite L. apply N.eqb_neq in H. rewrite H. reflexivity.
Qed.

Theorem rejects_oversized magic st :
  (MSG_HDR_LEN <= length st)%nat -> hdr_magic st = magic -> MAX_PAYLOAD_LEN < hdr_len st ->
  read_message X magic st = @FErr E FLength.
Proof.
  intros L H1 H2. rewrite read_message_eq. unfold read_message_spec.
  apply Nat.ltb_ge in L. rewrite L. apply N.eqb_eq in H1. rewrite H1. apply N.ltb_lt in H2. rewrite H2. reflexivity.
Qed.

Theorem rejects_truncated magic st :
  (MSG_HDR_LEN <= length st)%nat -> hdr_magic st = magic -> hdr_len st <= MAX_PAYLOAD_LEN ->
  (length st - MSG_HDR_LEN < N.to_nat (hdr_len st))%nat ->
  read_message X magic st = @FErr E FShortPayload.
Proof.
  intros L H1 H2 H3. rewrite read_message_eq. unfold read_message_spec.
  apply Nat.ltb_ge in L. rewrite L. apply N.eqb_eq in H1. rewrite H1. apply N.ltb_ge in H2. rewrite H2.
  cbn [negb]. rewrite skipn_length.
  assert (T : N.of_nat (length st - MSG_HDR_LEN) <? hdr_len st = true) by (apply N.ltb_lt; lia). rewrite T. reflexivity.
Qed.

Theorem rejects_bad_checksum magic st :
  (MSG_HDR_LEN <= length st)%nat -> hdr_magic st = magic -> hdr_len st <= MAX_PAYLOAD_LEN ->
  (N.to_nat (hdr_len st) <= length st - MSG_HDR_LEN)%nat ->
  checksum (x_hash X) (firstn (N.to_nat (hdr_len st)) (skipn MSG_HDR_LEN st)) <> hdr_cks st ->
  read_message X magic st = @FErr E FChecksum.
Proof.
  intros L H1 H2 H3 H4. rewrite read_message_eq. unfold read_message_spec.
  apply Nat.ltb_ge in L. rewrite L. apply N.eqb_eq in H1. rewrite H1. apply N.ltb_ge in H2. rewrite H2.
  cbn [negb]. rewrite skipn_length.
  assert (T0 : N.of_nat (length st - MSG_HDR_LEN) <? hdr_len st = false) by (apply N.ltb_ge; lia). rewrite T0.
  destruct (bytes_eqb _ _) eqn:T; [apply bytes_eqb_eq in T; contradiction|reflexivity].
Qed.

(** ** Allocation: the only attacker-sized allocation of ReadMessage is bounded by the maximum. *)
Theorem alloc_bounded magic st :
  read_message_alloc magic st <= N.of_nat MSG_HDR_LEN + MAX_PAYLOAD_LEN.
Proof.
  rewrite read_message_alloc_eq.
  destruct (length st <? MSG_HDR_LEN)%nat; [lia|].
  destruct (negb _); [lia|].
  destruct (MAX_PAYLOAD_LEN <? hdr_len st) eqn:T; [lia|]. apply N.ltb_ge in T. lia.
Qed.

(** ** Inversion of an accepted frame *)
Lemma read_message_inv magic st m len lf consumed rest :
  read_message X magic st = @FOk E m len lf consumed rest ->
  (MSG_HDR_LEN <= length st)%nat /\ hdr_magic st = magic /\ len = hdr_len st /\ len <= MAX_PAYLOAD_LEN /\
  exists payload s',
    skipn MSG_HDR_LEN st = payload ++ rest /\ length payload = N.to_nat len /\
    checksum (x_hash X) payload = hdr_cks st /\
    decode_payload X (trim_right0 (hdr_cmd st)) payload = DOk (m, s', lf) /\ consumed = off s'.
Proof.
  rewrite read_message_eq. unfold read_message_spec.
  destruct (length st <? MSG_HDR_LEN)%nat eqn:L; [discriminate|]. apply Nat.ltb_ge in L.
  destruct (hdr_magic st =? magic) eqn:M; [|discriminate]. apply N.eqb_eq in M. cbn [negb].
  destruct (MAX_PAYLOAD_LEN <? hdr_len st) eqn:T; [discriminate|]. apply N.ltb_ge in T.
  destruct (N.of_nat (length (skipn MSG_HDR_LEN st)) <? hdr_len st) eqn:B; [discriminate|]. apply N.ltb_ge in B.
  destruct (bytes_eqb _ _) eqn:C; [|discriminate]. apply bytes_eqb_eq in C. cbn [negb].
  destruct (decode_payload X _ _) as [[[m0 s'] lf0]|e] eqn:D; [|discriminate].
  intro H. inversion H; subst. repeat split; try assumption; try reflexivity.
  exists (firstn (N.to_nat (hdr_len st)) (skipn MSG_HDR_LEN st)), s'.
  split; [symmetry; apply firstn_skipn|]. split; [rewrite firstn_length; lia|].
  split; [exact C|]. split; [exact D|reflexivity].
Qed.

(** ** The command field *)
Lemma drop0_spec l : exists k, l = repeat 0 k ++ drop0 l.
Proof.
  induction l as [|x r IH]; [exists 0%nat; reflexivity|].
  destruct x as [|p]; [|exists 0%nat; reflexivity].
  destruct IH as [k IH]. exists (S k). cbn [drop0 repeat app]. f_equal. exact IH.
Qed.

Lemma rev_repeat0 k : rev (repeat 0 k) = repeat 0 k.
Proof.
  induction k as [|k IH]; [reflexivity|]. cbn [repeat rev]. rewrite IH.
  clear IH. induction k as [|k IH]; [reflexivity|]. cbn [repeat app]. f_equal. exact IH.
Qed.

Lemma trim_right0_spec b : exists k, b = trim_right0 b ++ repeat 0 k.
Proof.
  destruct (drop0_spec (rev b)) as [k Hk]. exists k. unfold trim_right0.
  rewrite <- (rev_involutive b) at 1. rewrite Hk at 1. rewrite rev_app_distr, rev_repeat0. reflexivity.
Qed.

Lemma firstn_repeat0 k n : (k <= n)%nat -> firstn k (repeat 0 n) = repeat 0 k.
Proof.
  revert n; induction k as [|k IH]; intros n H; [reflexivity|].
  destruct n as [|n]; [lia|]. cbn [repeat firstn]. f_equal. apply IH. lia.
Qed.

Lemma copy_into_trim n b : length b = n -> copy_into n (trim_right0 b) = b.
Proof.
  intro L. destruct (trim_right0_spec b) as [k Hk]. unfold copy_into.
  assert (Lt : (length (trim_right0 b) + k = n)%nat).
  { rewrite <- L. rewrite Hk at 2. rewrite app_length, repeat_length. reflexivity. }
  rewrite firstn_app. rewrite firstn_all2 by lia.
  replace (n - length (trim_right0 b))%nat with k by lia.
  rewrite firstn_repeat0 by lia. symmetry. exact Hk.
Qed.

(** ** CmdType of a decoded message is the command it was dispatched on *)
Ltac crush H :=
  repeat (match type of H with
          | context [match ?x with _ => _ end] => destruct x; try discriminate H
          end).

Lemma dec_kind_kind k s m s' lf : dec_kind X k s = DOk (m, s', lf) -> kind_of_msg m = Some k.
Proof.
  destruct k; cbn [dec_kind];
  unfold dec_addr, dec_addrreq, dec_version, dec_verack, dec_ping, dec_pong, dec_headersreq, dec_blocksreq,
    dec_datareq, dec_inv, dec_notfound, dec_findnodereq, dec_findnoderesp, dec_updatekadid, dec_subnetreq,
    dec_subnetmembers, dec_offline, dec_consensus, dec_blkheader, dec_block, dec_trn;
  intro H; crush H; inversion H; reflexivity.
Qed.

Lemma decode_payload_cmd cmd payload m s' lf :
  decode_payload X cmd payload = DOk (m, s', lf) -> cmd_of_msg m = cmd.
Proof.
  unfold decode_payload, lookup_cmd.
  destruct (find (fun e => bytes_eqb (d_cmd e) cmd) DISPATCH) as [e|] eqn:F.
  - apply find_some in F. destruct F as [Hin Hc]. apply bytes_eqb_eq in Hc.
    pose proof table_cmdtype as T. rewrite forallb_forall in T. specialize (T e Hin).
    destruct (kind_of_name (d_name e)) as [k|]; [|discriminate].
    intro H. apply dec_kind_kind in H. apply bytes_eqb_eq in T.
    destruct m; cbn [kind_of_msg] in H; try discriminate H; inversion H; subst k;
      cbn [cmd_of_msg kind_of_msg]; rewrite T; exact Hc.
  - unfold dec_unknown. destruct (next_bytes _ _) as [[p e] s1]. intro H. inversion H. reflexivity.
Qed.

(** ** Re-serialization of an accepted frame *)
Variable XO : ext_ok X.

Theorem frame_reserialize magic st m len lf consumed rest :
  wf_bytes st = true -> N.of_nat (length st) < two64 -> magic < two32 ->
  read_message X magic st = @FOk E m len lf consumed rest ->
  lf = [] -> consumed = N.to_nat len ->
  write_message X magic m ++ rest = st.
Proof.
  intros Hwf Hlen Hmagic H Hlf Hcons.
  destruct (read_message_inv _ _ _ _ _ _ _ H) as [L [M [El [Hmax [payload [s' [Hb [Lp [Ck [D Ec]]]]]]]]]].
  subst lf.
  assert (Lst : st = firstn MSG_HDR_LEN st ++ payload ++ rest) by (rewrite <- Hb; symmetry; apply firstn_skipn).
  assert (Hwfp : wf_bytes payload = true).
  { rewrite Lst in Hwf. rewrite !wf_bytes_app in Hwf. apply andb_prop in Hwf. destruct Hwf as [_ W].
    apply andb_prop in W. tauto. }
  assert (Hlenp : N.of_nat (length payload) < two64).
  { rewrite Lst in Hlen. rewrite !app_length in Hlen. lia. }
  pose proof (decode_payload_ok X XO (trim_right0 (hdr_cmd st)) payload Hlenp Hwfp) as Spec.
  rewrite D in Spec. destruct Spec as [_ [_ R]]. specialize (R eq_refl).
  destruct R as [_ [_ Renc]]. cbn [src_new buf off] in Renc.
  assert (Eenc : enc_msg X m = payload).
  { rewrite Renc. unfold slice. cbn [skipn]. rewrite Nat.sub_0_r, <- Ec, Hcons, <- Lp. apply firstn_all. }
  apply decode_payload_cmd in D.
  unfold write_message. rewrite Eenc, D.
  assert (Lh : length (firstn MSG_HDR_LEN st) = MSG_HDR_LEN) by (rewrite firstn_length; lia).
  destruct (parse_header_spec _ Lh) as [_ Hh].
  destruct (hdr_firstn st L) as [H1 [H2 [H3 H4]]].
  rewrite H2, H4 in Hh.
  assert (Hwfh : wf_bytes (firstn MSG_HDR_LEN st) = true) by (apply wf_firstn; exact Hwf).
  assert (E1 : write_uint32 magic = slice (firstn MSG_HDR_LEN st) 0 UINT32_SIZE).
  { unfold write_uint32. rewrite <- M, <- H1. unfold hdr_magic.
    rewrite <- (slice_length (firstn MSG_HDR_LEN st) 0 UINT32_SIZE) at 1 by (rewrite Lh; vm_compute; lia).
    apply le_encode_decode. apply wf_slice. exact Hwfh. }
  assert (E2 : write_uint32 (uint32_of_len (length payload)) = slice (firstn MSG_HDR_LEN st) (UINT32_SIZE + MSG_CMD_LEN) UINT32_SIZE).
  { rewrite uint32_of_len_small by (rewrite Lp, N2Nat.id; unfold MAX_PAYLOAD_LEN, two32 in *; lia).
    rewrite Lp, N2Nat.id, El, <- H3. unfold write_uint32, hdr_len.
    rewrite <- (slice_length (firstn MSG_HDR_LEN st) (UINT32_SIZE + MSG_CMD_LEN) UINT32_SIZE) at 1 by (rewrite Lh; vm_compute; lia).
    apply le_encode_decode. apply wf_slice. exact Hwfh. }
  rewrite E1, E2, Ck. rewrite copy_into_trim.
  2:{ unfold hdr_cmd. apply slice_length. vm_compute in L |- *. lia. }
  etransitivity; [|symmetry; exact Lst].
  set (h := firstn MSG_HDR_LEN st) in *.
  replace (h ++ payload ++ rest) with
    ((slice h 0 UINT32_SIZE ++ hdr_cmd st ++ slice h (UINT32_SIZE + MSG_CMD_LEN) UINT32_SIZE ++ hdr_cks st) ++ payload ++ rest)
    by (rewrite <- Hh; reflexivity).
  rewrite <- !app_assoc. reflexivity.
Qed.

End Frame.
