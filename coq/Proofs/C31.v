(** Proofs for C31 (commit needs a verifiable quorum) over Model/VbftPool.v. *)
From Coq Require Import List Bool NArith ZArith Lia ZifyN ZifyNat ZifyBool Arith.
Import ListNotations.
From Ont Require Import Gen.Thresholds Gen.VbftIntake Model.VbftPool Model.VbftPoolSpec.
Ltac Zify.zify_post_hook ::= Z.to_euclidean_division_equations.
Local Open Scope N_scope.

(** * Association lists *)
Section AMapFacts.
  Context {V : Type}.
  Implicit Types m : list (N * V).

  Lemma aget_aset_same k v m : aget k (aset k v m) = Some v.
  Proof.
    induction m as [|[k' v'] r IH]; cbn [aget aset].
    - rewrite N.eqb_refl; reflexivity.
    - destruct (k =? k') eqn:E; cbn [aget]; rewrite E; [reflexivity|exact IH].
  Qed.

  Lemma aget_aset_other k k' v m : k' <> k -> aget k' (aset k v m) = aget k' m.
  Proof.
    intro Hne. induction m as [|[k0 v0] r IH]; cbn [aget aset].
    - destruct (k' =? k) eqn:E; [apply N.eqb_eq in E; contradiction|reflexivity].
    - destruct (k =? k0) eqn:E; cbn [aget].
      + apply N.eqb_eq in E; subst k0.
        destruct (k' =? k) eqn:E'; [apply N.eqb_eq in E'; contradiction|reflexivity].
      + destruct (k' =? k0); [reflexivity|exact IH].
  Qed.

  Lemma akeys_aset_in k v m i : In i (akeys (aset k v m)) <-> i = k \/ In i (akeys m).
  Proof.
    unfold akeys. induction m as [|[k0 v0] r IH]; cbn [aset map fst In].
    - intuition.
    - destruct (k =? k0) eqn:E; cbn [map fst In].
      + apply N.eqb_eq in E; subst k0. intuition.
      + rewrite IH. intuition.
  Qed.

  Lemma akeys_aset_nodup k v m : NoDup (akeys m) -> NoDup (akeys (aset k v m)).
  Proof.
    unfold akeys. induction m as [|[k0 v0] r IH]; cbn [aset map fst]; intro H.
    - constructor; [intros []|constructor].
    - destruct (k =? k0) eqn:E; cbn [map fst].
      + exact H.
      + inversion H as [|x l Hx Hr]; subst. constructor; [|apply IH; exact Hr].
        intro Hin. apply (akeys_aset_in k v r k0) in Hin. destruct Hin as [->|Hin].
        * rewrite N.eqb_refl in E; discriminate.
        * apply Hx; exact Hin.
  Qed.

  Lemma aget_in_keys k v m : aget k m = Some v -> In k (akeys m).
  Proof.
    unfold akeys. induction m as [|[k0 v0] r IH]; cbn [aget map fst In]; [discriminate|].
    destruct (k =? k0) eqn:E; [apply N.eqb_eq in E; left; symmetry; exact E|right; apply IH; assumption].
  Qed.
End AMapFacts.

(** * Counters *)
Lemma nget_nincr q k m : nget q (nincr k m) = if q =? k then nget k m + 1 else nget q m.
Proof.
  unfold nget, nincr. destruct (q =? k) eqn:E.
  - apply N.eqb_eq in E; subst q. rewrite aget_aset_same. destruct (aget k m); reflexivity.
  - rewrite aget_aset_other; [reflexivity|]. intro; subst; rewrite N.eqb_refl in E; discriminate.
Qed.

Lemma zincr_keys_in k m i : In i (akeys (zincr k m)) <-> i = k \/ In i (akeys m).
Proof. unfold zincr; apply akeys_aset_in. Qed.
Lemma zincr_keys_nodup k m : NoDup (akeys m) -> NoDup (akeys (zincr k m)).
Proof. unfold zincr; apply akeys_aset_nodup. Qed.

(** * getCommitConsensus: every counted key was claimed by a processed message *)
Section Gcc.
  Variable Cl : N -> N -> Prop.     (* Cl q i: some message for proposer q names i as a signer *)

  Definition sc_ok (sc : signcount) : Prop :=
    forall q, NoDup (akeys (sc_inner q sc)) /\ forall i, In i (akeys (sc_inner q sc)) -> Cl q i.

  Lemma sc_inner_ensure q p sc : sc_inner q (sc_ensure p sc) = sc_inner q sc.
  Proof.
    unfold sc_ensure. destruct (aget p sc) eqn:E; [reflexivity|].
    unfold sc_inner. destruct (N.eq_dec q p) as [->|Hne].
    - rewrite aget_aset_same, E; reflexivity.
    - rewrite aget_aset_other by exact Hne; reflexivity.
  Qed.

  Lemma sc_inner_incr q p k sc :
    sc_inner q (sc_incr p k sc) = if q =? p then zincr k (sc_inner p sc) else sc_inner q sc.
  Proof.
    unfold sc_incr. destruct (q =? p) eqn:E.
    - apply N.eqb_eq in E; subst q. unfold sc_inner at 1. rewrite aget_aset_same; reflexivity.
    - unfold sc_inner at 1. rewrite aget_aset_other.
      + reflexivity.
      + intro; subst; rewrite N.eqb_refl in E; discriminate.
  Qed.

  Lemma sc_ok_ensure p sc : sc_ok sc -> sc_ok (sc_ensure p sc).
  Proof. intros H q. rewrite sc_inner_ensure. apply H. Qed.

  Lemma sc_ok_incr p k sc : Cl p k -> sc_ok sc -> sc_ok (sc_incr p k sc).
  Proof.
    intros Hc H q. rewrite sc_inner_incr. destruct (q =? p) eqn:E; [|apply H].
    apply N.eqb_eq in E; subst q. destruct (H p) as [Hnd Hin]. split.
    - apply zincr_keys_nodup; exact Hnd.
    - intros i Hi. apply zincr_keys_in in Hi. destruct Hi as [->|Hi]; [exact Hc|apply Hin; exact Hi].
  Qed.

  Lemma sc_ok_fold p (es : list (N * bool)) sc :
    (forall e, In e es -> Cl p (fst e)) -> sc_ok sc ->
    sc_ok (fold_left (fun s e => sc_incr p (fst e) s) es sc).
  Proof.
    revert sc. induction es as [|e r IH]; intros sc Hc H; cbn [fold_left]; [exact H|].
    apply IH; [intros e' He'; apply Hc; right; exact He'|].
    apply sc_ok_incr; [apply Hc; left; reflexivity|exact H].
  Qed.

  Lemma gcc_sound n msgs : forall ec ef c sc p fe,
    (forall m, In m msgs -> forall i, claimed_in m i -> Cl (cm_proposer m) i) ->
    sc_ok sc ->
    gcc_loop n msgs ec ef c sc = (p, fe) -> p <> MAXU32 ->
    exists L, NoDup L /\
              (commit_consensus_need n <= commit_consensus_have (Z.of_nat (length L)))%Z /\
              (forall i, In i L -> Cl p i) /\ exists m, In m msgs /\ cm_proposer m = p.
  Proof.
    induction msgs as [|m r IH]; intros ec ef c sc p fe Hcl Hok Hrun Hp; cbn [gcc_loop] in Hrun.
    - inversion Hrun; subst; contradiction.
    - set (sc3 := fold_left (fun s e => sc_incr (cm_proposer m) (fst e) s) (cm_endorsers m)
                    (sc_incr (cm_proposer m) (cm_committer m) (sc_ensure (cm_proposer m) sc))) in *.
      assert (Hok3 : sc_ok sc3).
      { unfold sc3. apply sc_ok_fold.
        - intros e He. apply (Hcl m); [left; reflexivity|]. right. apply in_map; exact He.
        - apply sc_ok_incr; [apply (Hcl m); [left; reflexivity|left; reflexivity]|].
          apply sc_ok_ensure; exact Hok. }
      destruct (commit_consensus_have (Z.of_nat (length (sc_inner (cm_proposer m) sc3))) >=?
                commit_consensus_need n)%Z eqn:E.
      + inversion Hrun; subst p fe. destruct (Hok3 (cm_proposer m)) as [Hnd Hin].
        exists (akeys (sc_inner (cm_proposer m) sc3)). split; [exact Hnd|]. split; [|split; [exact Hin|]].
        * unfold akeys; rewrite map_length. apply Z.geb_le in E. lia.
        * exists m; split; [left; reflexivity|reflexivity].
      + destruct (IH _ _ _ _ _ _ (fun m' Hm' => Hcl m' (or_intror Hm')) Hok3 Hrun Hp)
          as (L & H1 & H2 & H3 & m' & Hm' & Hpm').
        exists L; repeat split; try assumption. exists m'; split; [right; exact Hm'|exact Hpm'].
  Qed.
End Gcc.

(** * commitDone, second path: the count for q is bounded by the number of distinct endorsers
    holding a non-empty entry for q *)
Definition isq (q : N) (s : esig) : bool := negb (es_empty s) && (es_proposer s =? q).
Definition nq (q : N) (l : list esig) : nat := length (filter (isq q) l).
Definition esl_ok (l : list esig) : Prop := forall q, (nq q l <= 1)%nat.
Definition hasq (es : list (N * list esig)) (q e : N) : bool :=
  match aget e es with Some l => existsb (isq q) l | None => false end.
Definition es_all (P : N -> list esig -> Prop) (es : list (N * list esig)) : Prop :=
  forall e l, aget e es = Some l -> P e l.

Lemma existsb_false_filter {A} (f : A -> bool) l : existsb f l = false -> filter f l = [].
Proof.
  induction l as [|x r IH]; cbn [existsb filter]; [reflexivity|].
  destruct (f x); cbn [orb]; [discriminate|exact IH].
Qed.

Lemma nq_le_exists q l : esl_ok l -> (nq q l <= if existsb (isq q) l then 1 else 0)%nat.
Proof.
  intro H. destruct (existsb (isq q) l) eqn:E; [apply H|].
  unfold nq. rewrite existsb_false_filter by exact E. cbn; lia.
Qed.

Lemma cd_inner_cnt C' sigs : forall st q,
  (N.to_nat (nget q (p2_cnt (cd_inner C' sigs st))) <= N.to_nat (nget q (p2_cnt st)) + nq q sigs)%nat.
Proof.
  induction sigs as [|s r IH]; intros st q; cbn [cd_inner]; [lia|].
  unfold nq; cbn [filter]; unfold isq at 1. destruct (es_empty s) eqn:Ee; cbn [negb andb].
  - specialize (IH (mkP2 (p2_empty st + 1) (p2_cnt st) (p2_proposer st) (p2_forEmpty st)) q).
    cbn [p2_cnt] in IH. unfold nq in IH. exact IH.
  - destruct (C' <? nget (es_proposer s) (nincr (es_proposer s) (p2_cnt st))) eqn:Eb; cbn [p2_cnt].
    + rewrite nget_nincr. rewrite (N.eqb_sym (es_proposer s) q).
      destruct (q =? es_proposer s) eqn:Eq; cbn [length]; [apply N.eqb_eq in Eq; subst q|]; lia.
    + specialize (IH (mkP2 (p2_empty st) (nincr (es_proposer s) (p2_cnt st)) (p2_proposer st) (p2_forEmpty st)) q).
      cbn [p2_cnt] in IH. unfold nq in IH. rewrite nget_nincr in IH. rewrite (N.eqb_sym (es_proposer s) q).
      destruct (q =? es_proposer s) eqn:Eq; cbn [length]; [apply N.eqb_eq in Eq; subst q|]; lia.
Qed.

Definition Jp (C' : N) (st : p2) : Prop :=
  p2_proposer st = MAXU32 \/ C' < nget (p2_proposer st) (p2_cnt st).

Lemma cd_inner_J C' sigs : forall st, Jp C' st -> Jp C' (cd_inner C' sigs st).
Proof.
  induction sigs as [|s r IH]; intros st HJ; cbn [cd_inner]; [exact HJ|].
  destruct (es_empty s).
  - apply IH. exact HJ.
  - destruct (C' <? nget (es_proposer s) (nincr (es_proposer s) (p2_cnt st))) eqn:Eb.
    + right. cbn [p2_proposer p2_cnt]. apply N.ltb_lt in Eb; exact Eb.
    + apply IH. destruct HJ as [HJ|HJ]; [left; exact HJ|right]. cbn [p2_proposer p2_cnt].
      rewrite nget_nincr. destruct (p2_proposer st =? es_proposer s) eqn:Eq; [|exact HJ].
      apply N.eqb_eq in Eq; rewrite Eq in HJ; lia.
Qed.


Section Path2.
  Variables (isE : N -> bool) (C' : N) (es : list (N * list esig)).
  Hypothesis Hes : es_all (fun _ l => esl_ok l) es.

  Lemma cd_outer_cnt : forall ord st q,
    (N.to_nat (nget q (p2_cnt (cd_outer isE C' es ord st))) <=
     N.to_nat (nget q (p2_cnt st)) + length (filter (hasq es q) ord))%nat.
  Proof.
    induction ord as [|e r IH]; intros st q; cbn [cd_outer filter]; [lia|].
    unfold hasq at 1. destruct (aget e es) as [sigs|] eqn:Eg.
    - set (st1 := if isE e then st else
                    mkP2 (p2_empty st + count_empty sigs) (p2_cnt st) (p2_proposer st) (p2_forEmpty st)).
      assert (Hc1 : p2_cnt st1 = p2_cnt st) by (unfold st1; destruct (isE e); reflexivity).
      pose proof (cd_inner_cnt C' sigs st1 q) as Hin. rewrite Hc1 in Hin.
      pose proof (nq_le_exists q sigs (Hes e sigs Eg)) as Hq.
      destruct (p2_proposer (cd_inner C' sigs st1) =? MAXU32).
      + specialize (IH (cd_inner C' sigs st1) q).
        destruct (existsb (isq q) sigs); cbn [length]; lia.
      + destruct (existsb (isq q) sigs); cbn [length]; lia.
    - apply IH.
  Qed.

  Lemma cd_outer_J : forall ord st, Jp C' st -> Jp C' (cd_outer isE C' es ord st).
  Proof.
    induction ord as [|e r IH]; intros st HJ; cbn [cd_outer]; [exact HJ|].
    destruct (aget e es) as [sigs|]; [|apply IH; exact HJ].
    set (st1 := if isE e then st else
                  mkP2 (p2_empty st + count_empty sigs) (p2_cnt st) (p2_proposer st) (p2_forEmpty st)).
    assert (HJ1 : Jp C' st1) by (unfold st1; destruct (isE e); exact HJ).
    pose proof (cd_inner_J C' sigs st1 HJ1) as HJ2.
    destruct (p2_proposer (cd_inner C' sigs st1) =? MAXU32); [apply IH|]; exact HJ2.
  Qed.

  Lemma path2_sound ord fe0 :
    NoDup ord ->
    let r := cd_outer isE C' es ord (mkP2 0 [] MAXU32 fe0) in
    p2_proposer r <> MAXU32 ->
    exists L, NoDup L /\ (N.to_nat C' < length L)%nat /\
              forall e, In e L -> hasq es (p2_proposer r) e = true.
  Proof.
    intros Hnd r Hp.
    assert (HJ : Jp C' r) by (apply cd_outer_J; left; reflexivity).
    destruct HJ as [HJ|HJ]; [contradiction|].
    pose proof (cd_outer_cnt ord (mkP2 0 [] MAXU32 fe0) (p2_proposer r)) as Hc.
    fold r in Hc. cbn [p2_cnt] in Hc. unfold nget at 2 in Hc. cbn [aget] in Hc.
    exists (filter (hasq es (p2_proposer r)) ord). split; [apply NoDup_filter; exact Hnd|]. split; [lia|].
    intros e He. apply filter_In in He. tauto.
  Qed.
End Path2.

(** * addBlockEndorsementLocked and the state invariants *)
Lemma add_endorsement_get e s cm es e' :
  aget e' (add_endorsement e s cm es) =
  if e' =? e then
    match aget e es with
    | Some l =>
        if cm then Some [s]
        else if existsb es_empty l then Some l
        else if es_empty s then Some (l ++ [s])
        else if existsb (fun x => es_proposer x =? es_proposer s) l then Some l
        else Some (l ++ [s])
    | None => Some [s]
    end
  else aget e' es.
Proof.
  unfold add_endorsement. destruct (e' =? e) eqn:E.
  - apply N.eqb_eq in E; subst e'. destruct (aget e es) as [l|] eqn:Eg.
    + destruct cm; [apply aget_aset_same|].
      destruct (existsb es_empty l); [exact Eg|].
      destruct (es_empty s); [apply aget_aset_same|].
      destruct (existsb (fun x => es_proposer x =? es_proposer s) l); [exact Eg|apply aget_aset_same].
    + apply aget_aset_same.
  - assert (Hne : e' <> e) by (intro; subst; rewrite N.eqb_refl in E; discriminate).
    destruct (aget e es) as [l|] eqn:Eg.
    + destruct cm; [apply aget_aset_other; exact Hne|].
      destruct (existsb es_empty l); [reflexivity|].
      destruct (es_empty s); [apply aget_aset_other; exact Hne|].
      destruct (existsb (fun x => es_proposer x =? es_proposer s) l); [reflexivity|apply aget_aset_other; exact Hne].
    + apply aget_aset_other; exact Hne.
Qed.

Lemma add_endorsement_all (P : N -> list esig -> Prop) e s cm es :
  es_all P es -> P e [s] ->
  (forall l, aget e es = Some l -> P e l -> existsb es_empty l = false ->
             (es_empty s = true \/ existsb (fun x => es_proposer x =? es_proposer s) l = false) ->
             P e (l ++ [s])) ->
  es_all P (add_endorsement e s cm es).
Proof.
  intros Hall H1 Happ e' l' Hg. rewrite add_endorsement_get in Hg.
  destruct (e' =? e) eqn:E; [|apply Hall; exact Hg].
  apply N.eqb_eq in E; subst e'. destruct (aget e es) as [l|] eqn:Eg.
  - destruct cm; [inversion Hg; subst; exact H1|].
    destruct (existsb es_empty l) eqn:E1; [inversion Hg; subst; apply Hall; exact Eg|].
    destruct (es_empty s) eqn:E2.
    + inversion Hg; subst. apply Happ; auto.
    + destruct (existsb (fun x => es_proposer x =? es_proposer s) l) eqn:E3.
      * inversion Hg; subst; apply Hall; exact Eg.
      * inversion Hg; subst. apply Happ; auto.
  - inversion Hg; subst; exact H1.
Qed.

Lemma nq_app q l s : nq q (l ++ [s]) = (nq q l + if isq q s then 1 else 0)%nat.
Proof. unfold nq. rewrite filter_app, app_length. cbn [filter]. destruct (isq q s); reflexivity. Qed.

Lemma esl_ok_single s : esl_ok [s].
Proof. intro q. unfold nq; cbn [filter]. destruct (isq q s); cbn; lia. Qed.

Lemma esl_ok_app l s : esl_ok l ->
  (es_empty s = true \/ existsb (fun x => es_proposer x =? es_proposer s) l = false) -> esl_ok (l ++ [s]).
Proof.
  intros Hl Hc q. rewrite nq_app. specialize (Hl q). destruct (isq q s) eqn:Eq; [|lia].
  unfold isq in Eq. apply andb_true_iff in Eq. destruct Eq as [Ee Ep].
  destruct Hc as [Hc|Hc]; [rewrite Hc in Ee; discriminate|].
  apply N.eqb_eq in Ep. assert (Hz : filter (isq q) l = []).
  { apply existsb_false_filter. clear -Ep Hc. induction l as [|x r IH]; cbn [existsb] in *; [reflexivity|].
    apply orb_false_iff in Hc. destruct Hc as [Hx Hr]. rewrite (IH Hr), orb_false_r.
    unfold isq. rewrite <- Ep, Hx, andb_false_r. reflexivity. }
  unfold nq; rewrite Hz; cbn; lia.
Qed.

Definition shape_ok (es : list (N * list esig)) : Prop := es_all (fun _ l => esl_ok l) es.
Definition st_shape (st : cand) : Prop := shape_ok (c_esigs st).

Lemma add_endorsement_shape e s cm es : shape_ok es -> shape_ok (add_endorsement e s cm es).
Proof.
  intro H; apply add_endorsement_all; [exact H|apply esl_ok_single|].
  intros l _ Hl _ Hc; apply esl_ok_app; assumption.
Qed.

Lemma fold_add_inv (I : list (N * list esig) -> Prop) (f : N * bool -> esig) (l : list (N * bool)) :
  (forall e es, In e l -> I es -> I (add_endorsement (fst e) (f e) false es)) ->
  forall es, I es -> I (fold_left (fun es e => add_endorsement (fst e) (f e) false es) l es).
Proof.
  induction l as [|e r IH]; intros Hs es Hes; cbn [fold_left]; [exact Hes|].
  apply IH; [intros e' es' He'; apply Hs; right; exact He'|]. apply Hs; [left; reflexivity|exact Hes].
Qed.

Lemma receive_shape o st : st_shape st -> st_shape (fst (receive o st)).
Proof.
  unfold st_shape. intro H. destruct o as [ok p|sndr ok m|sndr ok m]; cbn [receive];
    destruct (passes ok); cbn [fst]; try exact H.
  - unfold new_block_proposal. destruct (find _ _).
    + destruct (_ =? _); exact H.
    + cbn [fst c_esigs]. apply add_endorsement_shape; exact H.
  - cbn [new_block_endorsement fst c_esigs]. apply add_endorsement_shape; exact H.
  - unfold new_block_commitment. destruct (find _ _).
    + destruct (_ =? _); exact H.
    + cbn [fst c_esigs]. apply add_endorsement_shape.
      apply (fold_add_inv shape_ok (fun e => mkES (cm_proposer m) (cm_empty m) (snd e))); [|exact H].
      intros e es _ Hes; apply add_endorsement_shape; exact Hes.
Qed.

Lemma run_ops_inv (I : cand -> Prop) (Q : op -> bool) :
  (forall o st, Q o = true -> I st -> I (fst (receive o st))) ->
  forall ops st, forallb Q ops = true -> I st -> I (run_ops ops st).
Proof.
  intros Hstep. induction ops as [|o r IH]; intros st HQ HI; cbn [run_ops]; [exact HI|].
  cbn [forallb] in HQ. apply andb_true_iff in HQ. destruct HQ as [Ho Hr].
  apply IH; [exact Hr|]. apply Hstep; assumption.
Qed.

Lemma run_ops_shape ops : st_shape (run_ops ops cand_empty).
Proof.
  apply (run_ops_inv st_shape (fun _ => true)).
  - intros o st _; apply receive_shape.
  - induction ops; cbn; auto.
  - intros e l Hg; cbn in Hg; discriminate.
Qed.

(** ** Verified histories *)
Lemma memN_In x l : memN x l = true <-> In x l.
Proof.
  unfold memN. rewrite existsb_exists. split.
  - intros (y & Hy & E). apply N.eqb_eq in E; subst; exact Hy.
  - intro H; exists x; split; [exact H|apply N.eqb_refl].
Qed.

Definition es_verified (peers : list N) (e : N) (l : list esig) : Prop :=
  In e peers /\ forall s, In s l -> es_valid s = true /\ In (es_proposer s) peers.
Definition cm_verifiedb (peers : list N) (m : commit_msg) : bool := op_verifiedb peers (OpCommit 0 true m).
Definition st_verified (peers : list N) (st : cand) : Prop :=
  es_all (es_verified peers) (c_esigs st) /\ forall m, In m (c_commits st) -> cm_verifiedb peers m = true.

Lemma add_endorsement_verified peers e s cm es :
  In e peers -> es_valid s = true -> In (es_proposer s) peers ->
  es_all (es_verified peers) es -> es_all (es_verified peers) (add_endorsement e s cm es).
Proof.
  intros He Hv Hp H. apply add_endorsement_all; [exact H| |].
  - split; [exact He|]. intros s' [<-|[]]; split; assumption.
  - intros l _ [_ Hl] _ _. split; [exact He|]. intros s' Hs'. apply in_app_or in Hs'.
    destruct Hs' as [Hs'|[<-|[]]]; [apply Hl; exact Hs'|split; assumption].
Qed.

Definition counted (peers : list N) (o : op) : bool := negb (passes (op_ok o)) || op_verifiedb peers o.

Lemma receive_verified peers o st :
  counted peers o = true -> st_verified peers st -> st_verified peers (fst (receive o st)).
Proof.
  unfold counted. intros Hc [Hes Hcm].
  destruct o as [ok p|sndr ok m|sndr ok m]; cbn [receive op_ok] in *;
    destruct (passes ok); cbn [fst negb orb] in Hc |- *; try (split; assumption).
  - cbn [op_verifiedb] in Hc. apply andb_true_iff in Hc. destruct Hc as [Hv Hp]. apply memN_In in Hp.
    unfold new_block_proposal. destruct (find _ _).
    + destruct (_ =? _); split; assumption.
    + cbn [fst]. split; cbn [c_esigs c_commits]; [|exact Hcm].
      apply add_endorsement_verified; cbn [es_valid es_proposer]; assumption.
  - cbn [op_verifiedb] in Hc. apply andb_true_iff in Hc. destruct Hc as [Hc Hp].
    apply andb_true_iff in Hc. destruct Hc as [Hv He]. apply memN_In in Hp. apply memN_In in He.
    cbn [new_block_endorsement fst]. split; cbn [c_esigs c_commits]; [|exact Hcm].
    apply add_endorsement_verified; cbn [es_valid es_proposer]; assumption.
  - pose proof Hc as Hc0. cbn [op_verifiedb] in Hc.
    apply andb_true_iff in Hc. destruct Hc as [Hc Hen].
    apply andb_true_iff in Hc. destruct Hc as [Hc Hp].
    apply andb_true_iff in Hc. destruct Hc as [Hv Hco].
    apply memN_In in Hp. apply memN_In in Hco. rewrite forallb_forall in Hen.
    unfold new_block_commitment. destruct (find _ _).
    + destruct (_ =? _); split; assumption.
    + cbn [fst]. split; cbn [c_esigs c_commits].
      * apply add_endorsement_verified; cbn [es_valid es_proposer]; try assumption.
        apply (fold_add_inv (es_all (es_verified peers)) (fun e => mkES (cm_proposer m) (cm_empty m) (snd e)));
          [|exact Hes].
        intros e es He Hes'. specialize (Hen e He). apply andb_true_iff in Hen. destruct Hen as [Hev Hep].
        apply memN_In in Hep. apply add_endorsement_verified; cbn [es_valid es_proposer]; assumption.
      * intros m' Hm'. apply in_app_or in Hm'. destruct Hm' as [Hm'|[<-|[]]]; [apply Hcm; exact Hm'|exact Hc0].
Qed.

Lemma run_ops_verified peers ops :
  counted_verified peers ops -> st_verified peers (run_ops ops cand_empty).
Proof.
  intro H. apply (run_ops_inv (st_verified peers) (counted peers)).
  - intros o st; apply receive_verified.
  - exact H.
  - split; [intros e l Hg; cbn in Hg; discriminate|intros m []].
Qed.

(** ** Histories without proposer double counting *)
Definition cm_no_doubleb (m : commit_msg) : bool := op_no_doubleb (OpCommit 0 true m).
Definition st_nodouble (st : cand) : Prop := forall m, In m (c_commits st) -> cm_no_doubleb m = true.
Definition nodouble (o : op) : bool := negb (passes (op_ok o)) || op_no_doubleb o.

Lemma receive_nodouble o st : nodouble o = true -> st_nodouble st -> st_nodouble (fst (receive o st)).
Proof.
  unfold nodouble. intros Hc H.
  destruct o as [ok p|sndr ok m|sndr ok m]; cbn [receive op_ok] in *;
    destruct (passes ok); cbn [fst negb orb] in Hc |- *; try exact H.
  - unfold new_block_proposal. destruct (find _ _); [destruct (_ =? _)|]; exact H.
  - unfold new_block_commitment. destruct (find _ _); [destruct (_ =? _); exact H|].
    cbn [fst]. intros m' Hm'. cbn [c_commits] in Hm'. apply in_app_or in Hm'.
    destruct Hm' as [Hm'|[<-|[]]]; [apply H; exact Hm'|exact Hc].
Qed.

Lemma run_ops_nodouble ops : no_double_count ops -> st_nodouble (run_ops ops cand_empty).
Proof.
  intro H. apply (run_ops_inv st_nodouble nodouble).
  - intros o st; apply receive_nodouble.
  - exact H.
  - intros m [].
Qed.

(** * Assembly *)
Definition Clm (st : cand) (q i : N) : Prop :=
  exists m, In m (c_commits st) /\ cm_proposer m = q /\ claimed_in m i.

Lemma arith_path1 n k : (1 <= n -> commit_consensus_need n <= commit_consensus_have k ->
  quorum_size n <= k + 1)%Z.
Proof. unfold commit_consensus_need, commit_consensus_have, quorum_size. intros. lia. Qed.

Lemma arith_path2 n : 1 <= n < U32 ->
  (quorum_size (Z.of_N n) <= Z.of_N (commit_done_threshold n) + 1)%Z.
Proof.
  unfold commit_done_threshold, commit_done_c, quorum_size, U32. intros [H1 H2].
  rewrite Z2N.id by (apply Z.mod_pos_bound; lia).
  rewrite Z.mod_small; lia.
Qed.

Lemma existsb_isq_in q l : existsb (isq q) l = true -> exists s, In s l /\ es_proposer s = q.
Proof.
  rewrite existsb_exists. intros (s & Hs & Hq). exists s; split; [exact Hs|].
  unfold isq in Hq. apply andb_true_iff in Hq. destruct Hq as [_ Hq]. apply N.eqb_eq; exact Hq.
Qed.

Lemma claimed_verified peers m i : cm_verifiedb peers m = true -> claimed_in m i ->
  In i peers /\ validly_signed_in m i.
Proof.
  unfold cm_verifiedb; cbn [op_verifiedb]. intros H Hc.
  apply andb_true_iff in H. destruct H as [H Hen].
  apply andb_true_iff in H. destruct H as [H _].
  apply andb_true_iff in H. destruct H as [Hv Hco]. apply memN_In in Hco.
  rewrite forallb_forall in Hen. destruct Hc as [<-|Hc].
  - split; [exact Hco|left; split; [reflexivity|exact Hv]].
  - apply in_map_iff in Hc. destruct Hc as ([i' b] & Hi & He). cbn [fst] in Hi; subst i'.
    specialize (Hen _ He). cbn [fst snd] in Hen. apply andb_true_iff in Hen. destruct Hen as [Hb Hp].
    subst b. apply memN_In in Hp. split; [exact Hp|right; exact He].
Qed.

Lemma commit_done_core peers n c isE ops ord p fe :
  1 <= n < U32 -> NoDup ord -> counted_verified peers ops ->
  commit_done isE ord (run_ops ops cand_empty) c n = (p, fe, true) ->
  In p peers /\
  exists L, NoDup L /\
    (forall i, In i L -> valid_signer_for peers (run_ops ops cand_empty) p i) /\
    ((quorum_size (Z.of_N n) <= Z.of_nat (length L))%Z \/
     ((quorum_size (Z.of_N n) <= Z.of_nat (length L) + 1)%Z /\
      forall i, In i L -> Clm (run_ops ops cand_empty) p i)).
Proof.
  intros Hn Hord Hver Hcd.
  set (st := run_ops ops cand_empty) in *.
  pose proof (run_ops_shape ops) as Hshape. fold st in Hshape.
  destruct (run_ops_verified peers ops Hver) as [Hves Hvcm]. fold st in Hves, Hvcm.
  unfold commit_done in Hcd.
  destruct (get_commit_consensus (c_commits st) (Z.of_N c) (Z.of_N n)) as [p1 fe1] eqn:Eg.
  destruct (p1 =? MAXU32) eqn:E1.
  - (* second path *)
    apply N.eqb_eq in E1; subst p1.
    set (r := cd_outer isE (commit_done_threshold n) (c_esigs st) ord (mkP2 0 [] MAXU32 fe1)) in *.
    destruct (p2_proposer r =? MAXU32) eqn:E2; [inversion Hcd|].
    inversion Hcd; subst p fe; clear Hcd.
    assert (Hp : p2_proposer r <> MAXU32) by (intro Hx; rewrite Hx, N.eqb_refl in E2; discriminate).
    destruct (path2_sound isE (commit_done_threshold n) (c_esigs st) Hshape ord fe1 Hord Hp)
      as (L & HndL & HlenL & HL).
    fold r in HL.
    assert (Hsig : forall e, In e L -> In e peers /\ In (p2_proposer r) peers /\
               valid_signer_for peers st (p2_proposer r) e).
    { intros e He. specialize (HL e He). unfold hasq in HL.
      destruct (aget e (c_esigs st)) as [l|] eqn:Ea; [|discriminate].
      destruct (existsb_isq_in _ _ HL) as (s & Hs & Hps).
      destruct (Hves e l Ea) as [Hep Hl]. destruct (Hl s Hs) as [Hv Hpp].
      rewrite Hps in Hpp. split; [exact Hep|]. split; [exact Hpp|]. split; [exact Hep|].
      right; right. exists l, s. auto. }
    split.
    + destruct L as [|e0 L']; [cbn in HlenL; lia|]. apply (Hsig e0); left; reflexivity.
    + exists L. split; [exact HndL|]. split; [intros i Hi; apply Hsig; exact Hi|].
      left. pose proof (arith_path2 n Hn). lia.
  - (* first path *)
    rewrite E1 in Hcd. inversion Hcd; subst p fe; clear Hcd.
    assert (Hp : p1 <> MAXU32) by (intro Hx; rewrite Hx, N.eqb_refl in E1; discriminate).
    unfold get_commit_consensus in Eg.
    destruct (gcc_sound (Clm st) (Z.of_N n) (c_commits st) 0%Z false (Z.of_N c) [] p1 fe1)
      as (L & HndL & Hlen & HL & m0 & Hm0 & Hpm0); try assumption.
    { intros m Hm i Hi. exists m. auto. }
    { intro q. unfold sc_inner; cbn. split; [constructor|intros i []]. }
    split.
    + specialize (Hvcm m0 Hm0). unfold cm_verifiedb in Hvcm; cbn [op_verifiedb] in Hvcm.
      apply andb_true_iff in Hvcm. destruct Hvcm as [Hvcm _].
      apply andb_true_iff in Hvcm. destruct Hvcm as [_ Hpp]. apply memN_In in Hpp.
      rewrite Hpm0 in Hpp; exact Hpp.
    + exists L. split; [exact HndL|]. split.
      * intros i Hi. destruct (HL i Hi) as (m & Hm & Hpm & Hcl).
        destruct (claimed_verified peers m i (Hvcm m Hm) Hcl) as [Hip Hvs].
        split; [exact Hip|]. right; left. exists m. auto.
      * right. split; [|exact HL].
        assert (H1 : (1 <= Z.of_N n)%Z) by lia.
        pose proof (arith_path1 (Z.of_N n) (Z.of_nat (length L)) H1 Hlen). lia.
Qed.

(** Verified intake: at most one short of the quorum (the proposer may be counted twice). *)
Lemma commit_quorum_within_one :
  commit_quorum_statement (fun peers ops => counted_verified peers ops) (fun n => quorum_size n - 1)%Z.
Proof.
  intros peers n c isE ops ord p fe (_ & _ & Hn & _) Hver Hord Hcd.
  destruct (commit_done_core peers n c isE ops ord p fe Hn Hord Hver Hcd) as (_ & L & HndL & HL & Hlen).
  exists L. split; [exact HndL|]. split; [|exact HL]. destruct Hlen as [H|[H _]]; lia.
Qed.

(** Verified intake and no message naming the proposer among its signers: the full quorum. *)
Lemma commit_quorum_partial :
  commit_quorum_statement (fun peers ops => counted_verified peers ops /\ no_double_count ops) quorum_size.
Proof.
  intros peers n c isE ops ord p fe (_ & _ & Hn & _) [Hver Hnd] Hord Hcd.
  destruct (commit_done_core peers n c isE ops ord p fe Hn Hord Hver Hcd) as (Hp & L & HndL & HL & Hlen).
  destruct Hlen as [H|[H Hcl]].
  - exists L. auto.
  - exists (p :: L). split; [|split].
    + constructor; [|exact HndL]. intro Hin. destruct (Hcl p Hin) as (m & Hm & Hpm & Hc).
      pose proof (run_ops_nodouble ops Hnd m Hm) as Hd. unfold cm_no_doubleb in Hd; cbn [op_no_doubleb] in Hd.
      apply andb_true_iff in Hd. destruct Hd as [Hd1 Hd2]. rewrite Hpm in Hd1, Hd2.
      destruct Hc as [Hc|Hc].
      * rewrite Hc, N.eqb_refl in Hd1; discriminate.
      * apply memN_In in Hc. rewrite Hc in Hd2; discriminate.
    + cbn [length]. lia.
    + intros i [<-|Hi]; [split; [exact Hp|left; reflexivity]|apply HL; exact Hi].
Qed.

(** * A computable upper bound on the number of valid signers (for the refutations and the
    correspondence) *)
Definition valid_signerb (st : cand) (p i : N) : bool :=
  (i =? p)
  || existsb (fun m => (cm_proposer m =? p) &&
                       (((cm_committer m =? i) && cm_valid m)
                        || existsb (fun e => (fst e =? i) && snd e) (cm_endorsers m))) (c_commits st)
  || match aget i (c_esigs st) with
     | Some l => existsb (fun s => (es_proposer s =? p) && es_valid s) l
     | None => false
     end.

Definition count_signers (peers : list N) (st : cand) (p : N) : nat :=
  length (filter (valid_signerb st p) peers).

Lemma valid_signer_reflect peers st p i :
  valid_signer_for peers st p i -> In i (filter (valid_signerb st p) peers).
Proof.
  intros [Hi H]. apply filter_In. split; [exact Hi|]. unfold valid_signerb.
  destruct H as [->|[(m & Hm & Hpm & Hv)|(l & s & Ha & Hs & Hps & Hv)]].
  - rewrite N.eqb_refl; reflexivity.
  - apply orb_true_iff; left. apply orb_true_iff; right. apply existsb_exists. exists m. split; [exact Hm|].
    rewrite Hpm, N.eqb_refl. cbn [andb]. destruct Hv as [[-> Hv]|Hv].
    + rewrite N.eqb_refl, Hv; reflexivity.
    + apply orb_true_iff; right. apply existsb_exists. exists (i, true). split; [exact Hv|].
      cbn [fst snd]. rewrite N.eqb_refl; reflexivity.
  - apply orb_true_iff; right. rewrite Ha. apply existsb_exists. exists s. split; [exact Hs|].
    rewrite Hps, N.eqb_refl, Hv; reflexivity.
Qed.

Lemma has_signers_bound peers k st p :
  has_signers peers k st p -> (k <= Z.of_nat (count_signers peers st p))%Z.
Proof.
  intros (S & Hnd & Hk & HS). unfold count_signers.
  assert (Hincl : incl S (filter (valid_signerb st p) peers)).
  { intros i Hi. apply valid_signer_reflect. apply HS; exact Hi. }
  pose proof (NoDup_incl_length Hnd Hincl). lia.
Qed.

(** * What the receive path establishes, as read from the current source (Gen/VbftIntake.v):
    the sender's signature is checked; neither the endorser signatures carried in a commit message
    nor the claimed Committer/Endorser index are. The model's [receive] is written for exactly this
    shape; if the source changes it, this lemma stops compiling and the model must be revisited. *)
Lemma intake_shape_current :
  recv_verifies_sender_sig = true /\ own_sigs_mandatory = true /\
  decode_rejects_unsigned_proposal = true /\
  intake_checks_endorser_sigs = false /\ intake_checks_claimed_identity = false.
Proof. repeat split; reflexivity. Qed.

(** * Witnesses *)
Ltac nd :=
  repeat match goal with
         | |- NoDup (_ :: _) =>
             constructor; [cbn [In]; let Hx := fresh in intro Hx;
                           repeat (destruct Hx as [Hx|Hx]; [discriminate Hx|]); exact Hx|]
         | |- NoDup [] => constructor
         end.

Definition peers4 : list N := [0; 1; 2; 3].
Definition allE : N -> bool := fun _ => true.

Lemma wf4 : wf_config peers4 4 1.
Proof. unfold wf_config, U32, peers4; cbn [length]; repeat split; try lia; nd. Qed.

Lemma quorum4 : quorum_size (Z.of_N 4) = 3%Z.
Proof. reflexivity. Qed.

(** W1 (F10): one commit message from peer 3 for proposer 0 claiming endorsements by peers 1 and 2
    with signatures that do not verify. *)
Definition w_forged : list op :=
  [OpCommit 3 true (mkCM 3 0 100 false true [(1, false); (2, false)])].

Lemma w_forged_declares :
  commit_done allE [1; 2; 3] (run_ops w_forged cand_empty) 1 4 = (0, false, true).
Proof. vm_compute; reflexivity. Qed.
Lemma w_forged_signers : count_signers peers4 (run_ops w_forged cand_empty) 0 = 2%nat.
Proof. vm_compute; reflexivity. Qed.

Lemma refute_with (extra : list N -> list op -> Prop) ops ord k :
  extra peers4 ops -> NoDup ord ->
  commit_done allE ord (run_ops ops cand_empty) 1 4 = (0, false, true) ->
  (Z.of_nat (count_signers peers4 (run_ops ops cand_empty) 0) < k (Z.of_N 4))%Z ->
  ~ commit_quorum_statement extra k.
Proof.
  intros He Hord Hcd Hlt H.
  specialize (H peers4 4 1 allE ops ord 0 false wf4 He Hord Hcd).
  apply has_signers_bound in H. lia.
Qed.

Lemma commit_needs_quorum_refuted : ~ commit_needs_quorum.
Proof.
  apply (refute_with (fun _ _ => True) w_forged [1; 2; 3] quorum_size); [exact I|nd|exact w_forged_declares|].
  rewrite w_forged_signers, quorum4; lia.
Qed.

(** W2: every signature verifies, but the single commit message lists the proposer as endorser;
    getCommitConsensus counts it as a map key and again with "+1". *)
Definition w_double : list op :=
  [OpCommit 1 true (mkCM 1 0 100 false true [(0, true)])].

Lemma commit_quorum_verified_refuted :
  ~ commit_quorum_statement (fun peers ops => counted_verified peers ops) quorum_size.
Proof.
  apply (refute_with _ w_double [0; 1] quorum_size); [vm_compute; reflexivity|nd|vm_compute; reflexivity|].
  rewrite quorum4. vm_compute; reflexivity.
Qed.

(** W3: no endorser lists at all; peer 3 sends two commit messages whose Committer fields name
    peers 1 and 2 (signed with its own key, which is what the receive loop checks). *)
Definition no_endorser_lists (ops : list op) : Prop :=
  forallb (fun o => match o with OpCommit _ _ m => match cm_endorsers m with [] => true | _ => false end
                             | _ => true end) ops = true.
Definition w_identity : list op :=
  [OpCommit 3 true (mkCM 1 0 100 false false []); OpCommit 3 true (mkCM 2 0 100 false false [])].

Lemma commit_quorum_claimed_committer_refuted :
  ~ commit_quorum_statement (fun _ ops => no_endorser_lists ops) quorum_size.
Proof.
  apply (refute_with _ w_identity [1; 2] quorum_size); [vm_compute; reflexivity|nd|vm_compute; reflexivity|].
  rewrite quorum4. vm_compute; reflexivity.
Qed.

(** W4: no commit message at all; peer 3 sends endorsements whose Endorser fields name 0, 1, 2;
    commitDone's second path counts them. *)
Definition no_commit_msgs (ops : list op) : Prop :=
  forallb (fun o => match o with OpCommit _ _ _ => false | _ => true end) ops = true.
Definition w_endorse : list op :=
  [OpEndorse 3 true (mkEM 0 0 false false); OpEndorse 3 true (mkEM 1 0 false false);
   OpEndorse 3 true (mkEM 2 0 false false)].

Lemma commit_quorum_claimed_endorser_refuted :
  ~ commit_quorum_statement (fun _ ops => no_commit_msgs ops) quorum_size.
Proof.
  apply (refute_with _ w_endorse [0; 1; 2] quorum_size); [vm_compute; reflexivity|nd|vm_compute; reflexivity|].
  rewrite quorum4. vm_compute; reflexivity.
Qed.

(** An honest round (N = 4): proposal by 0, endorsements by 1 and 2, commit messages by 1 and 2. *)
Definition honest_round : list op :=
  [OpProposal true (mkPP 0 500 true);
   OpEndorse 1 true (mkEM 1 0 false true); OpEndorse 2 true (mkEM 2 0 false true);
   OpCommit 1 true (mkCM 1 0 100 false true [(1, true); (2, true)]);
   OpCommit 2 true (mkCM 2 0 100 false true [(1, true); (2, true)])].

Lemma honest_round_ok :
  counted_verified peers4 honest_round /\ no_double_count honest_round /\
  commit_done allE [0; 1; 2] (run_ops honest_round cand_empty) 1 4 = (0, false, true) /\
  count_signers peers4 (run_ops honest_round cand_empty) 0 = 3%nat.
Proof. repeat split; vm_compute; reflexivity. Qed.
