(** C11 accounting invariants, continued: operations that move positions between buckets. *)
From Coq Require Import List NArith Bool Lia.
Import ListNotations.
From Ont Require Import Lib.AList Gen.GovConsts Model.Gov Model.GovSpec Proofs.GovInv Proofs.GovAcct.
Local Open Scope N_scope.

Ltac simp_state := cbn [s_view s_vheight s_pool s_infos s_stakes s_pens s_ont s_black s_maxauth s_promise s_par s_prev
  set_prev set_view set_pool set_infos set_stakes set_pens set_ont set_black set_maxauth set_promise] in *.

(** ** UnRegisterCandidate / RejectCandidate *)
Lemma release_init_inv2 : forall s k p, inv2 s -> pget k (s_pool s) = Some p ->
  p_status p = RegisterCandidateStatus -> inv2 (release_init s k p).
Proof.
  intros s k p Hi Hg Hst. pose proof Hi as [H1 Ha Hp Hr Hn Hpar].
  pose proof (info_bound s k (p_owner p) H1 Ha) as Hib.
  destruct (peer_bound s k p H1 Ha Hp Hg) as [Hinit Htot]. pose proof B_small.
  assert (Ht0 : p_total p = 0) by (eapply Hr; eauto).
  unfold release_init. set (i := iget k (p_owner p) (s_infos s)) in *.
  assert (Hw : w64 (i_wunf i + p_init p) = i_wunf i + p_init p)
    by (apply w64_small; unfold all6 in Hib; lia).
  rewrite Hw.
  set (i' := mkIV (i_cons i) (i_cand i) (i_new i) (i_wcons i) (i_wcand i) (i_wunf i + p_init p)).
  constructor; cbn [s_pool s_infos s_stakes s_par set_pool set_infos].
  - eapply inv1_fin; [|exact H1]. reflexivity.
  - intros sel. specialize (Ha sel). simp_state.
    pose proof (W_iset sel k (p_owner p) i' (s_infos s)) as Ew. fold i in Ew.
    pose proof (O_adel sel k (s_pool s)) as Eo. rewrite Hg in Eo. cbn [oinit] in Eo.
    assert (all6 i' = all6 i + p_init p) by (unfold all6, i'; cbn; lia).
    unfold bsel in *. destruct (sel (p_owner p)); lia.
  - intros k'. specialize (Hp k'). rewrite total_of_tot in *. simp_state.
    rewrite tot_adel by auto.
    pose proof (A_iset k' k (p_owner p) i' (s_infos s)) as Ea. fold i in Ea.
    assert (act3 i' = act3 i) by reflexivity.
    destruct (N.eqb_spec k' k) as [->|Hne].
    + unfold tot in Hp. rewrite Hg in Hp. rewrite N.eqb_refl in Ea. unfold bsel in Ea. lia.
    + assert (k =? k' = false) by (apply N.eqb_neq; auto). rewrite H2 in Ea. unfold bsel in Ea. lia.
  - unfold reg_zero. simp_state. apply regz_adel; auto.
  - simp_state. now apply nodup_adel.
  - exact Hpar.
Qed.

Lemma exec_unregister_inv2 : forall s sg k a s', inv2 s -> exec_unregister s sg k a = Ok s' -> inv2 s'.
Proof.
  intros s sg k a s' Hi H. unfold exec_unregister in H. msteps H. bnorm.
  apply release_init_inv2; auto.
Qed.

Lemma exec_reject_inv2 : forall s sg k s', inv2 s -> exec_reject s sg k = Ok s' -> inv2 s'.
Proof.
  intros s sg k s' Hi H. unfold exec_reject in H. msteps H. bnorm.
  apply release_init_inv2; auto.
Qed.

Lemma B2 : 2 * B < W64.
Proof. vm_compute. reflexivity. Qed.

(** ** addInitPos *)
Lemma exec_addinit_inv2 : forall h s sg k a pos s',
  inv2 s -> sg <> GOV -> exec_addinit h s sg k a pos = Ok s' -> inv2 s'.
Proof.
  intros h s sg k a pos s' Hi Hsg H.
  assert (I1 : inv1 s') by (eapply exec_addinit_inv1; eauto; apply Hi).
  pose proof Hi as [H1 Ha Hp Hr Hn Hpar].
  unfold exec_addinit in H. msteps H. bnorm. subst a. subst sg.
  match goal with H : ont_transfer _ _ _ _ = Ok _ |- _ => pose proof (ont_transfer_le _ _ _ _ _ H) as Hle end.
  simp_state.
  assert (Hpos : pos <= B) by (destruct H1 as [_ Hs]; unfold supply_ok, ont_total, B in *; lia).
  destruct (peer_bound s k p H1 Ha Hp) as [Hinit Htot]; auto.
  pose proof (stake_le_B s (p_owner p) H1). pose proof B2.
  rewrite (w64_small (p_init p + pos)) in * by lia.
  constructor; auto; simp_state.
  - intros sel. specialize (Ha sel). simp_state. rewrite L_deposit by lia.
    pose proof (O_pset sel k (with_init p (p_init p + pos)) (s_pool s)) as Eo.
    match goal with H : pget k (s_pool s) = Some p |- _ => rewrite H in Eo end.
    cbn [oinit with_init p_owner p_init] in Eo.
    unfold bsel in *. destruct (sel (p_owner p)); lia.
  - intros k'. specialize (Hp k'). rewrite total_of_tot in *. simp_state. rewrite tot_pset.
    destruct (N.eqb_spec k' k) as [->|Hne]; [|exact Hp].
    unfold tot in Hp. match goal with H : pget k (s_pool s) = Some p |- _ => rewrite H in Hp end. exact Hp.
  - unfold reg_zero. simp_state. apply regz_pset; auto. cbn [with_init p_status p_total]. intros. eapply Hr; eauto.
  - now apply nodup_pset.
Qed.

(** ** reduceInitPos *)
Lemma exec_reduceinit_inv2 : forall h s sg k a pos s',
  inv2 s -> exec_reduceinit h s sg k a pos = Ok s' -> inv2 s'.
Proof.
  intros h s sg k a pos s' Hi H. pose proof Hi as [H1 Ha Hp Hr Hn Hpar].
  unfold exec_reduceinit in H. msteps H. bnorm. subst a. subst sg.
  pose proof (info_bound s k (p_owner p) H1 Ha) as Hib.
  destruct (peer_bound s k p H1 Ha Hp) as [Hinit Htot]; auto. pose proof B2.
  set (i := iget k (p_owner p) (s_infos s)) in *.
  assert (Hall : all6 x = all6 i + pos /\ act3 x = act3 i).
  { unfold all6 in Hib.
    destruct (p_status p =? ConsensusStatus); [|destruct (p_status p =? CandidateStatus); [|destruct (p_status p =? RegisterCandidateStatus); [|discriminate]]];
    match goal with H : Ok _ = Ok x |- _ => inversion H; subst x end;
    unfold all6, act3; cbn [i_cons i_cand i_new i_wcons i_wcand i_wunf];
    rewrite w64_small by lia; lia. }
  destruct Hall as [Hall Hact].
  constructor; simp_state.
  - eapply inv1_fin; [|exact H1]. reflexivity.
  - intros sel. specialize (Ha sel). simp_state.
    pose proof (W_iset sel k (p_owner p) x (s_infos s)) as Ew. fold i in Ew.
    pose proof (O_pset sel k (with_init p (p_init p - pos)) (s_pool s)) as Eo.
    match goal with H : pget k (s_pool s) = Some p |- _ => rewrite H in Eo end.
    cbn [oinit with_init p_owner p_init] in Eo.
    unfold bsel in *. destruct (sel (p_owner p)); lia.
  - intros k'. specialize (Hp k'). rewrite total_of_tot in *. simp_state. rewrite tot_pset.
    pose proof (A_iset k' k (p_owner p) x (s_infos s)) as Ea. fold i in Ea. rewrite Hact in Ea.
    destruct (N.eqb_spec k' k) as [->|Hne].
    + unfold tot in Hp. match goal with H : pget k (s_pool s) = Some p |- _ => rewrite H in Hp end.
      cbn [with_init p_total]. lia.
    + lia.
  - unfold reg_zero. simp_state. apply regz_pset; auto. cbn [with_init p_status p_total]. intros. eapply Hr; eauto.
  - now apply nodup_pset.
  - exact Hpar.
Qed.
